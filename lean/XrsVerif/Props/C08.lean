import XrsVerif.Proofs.Terrain
import XrsVerif.Proofs.TerrainReal
/-
  C08 -- Slope, aspect, curvature, hillshade are local 3x3 formulas with NaN borders.

  Every statement is about *generated* definitions (regenerated from /repo on every run):
  `Gen.slope_cpu`, `Gen.aspect_cpu`, `Gen.curvature_cpu` (T1 translations of the numba kernels),
  `Gen.hillshade_cpu` (hillshade's numpy code read per cell, `np.gradient` by its interior stencil),
  and `Gen.<f>_wiring` (how the public function computes the kernel's scalars from the pair returned by
  `get_dataarray_resolution`).  `w.cell rx ry pub win` is one output cell of the public function for
  cell sizes `(rx, ry)`, public scalar parameters `pub` and window `win dy dx` (dy = row offset,
  dx = column offset); `w.run` is the whole raster (`Kernel.run`: loop nest + allocation value).

  Value domain: `NV K` = NaN or an element of an arbitrary linearly ordered field `K` (±inf is not
  represented), transcendental functions an arbitrary `Trig K`; range / quarter-turn statements are
  proved under explicit laws on `Trig K` and those laws are proved for the real functions
  (`realTrig`: `Real.sqrt`, `Real.arctan`, `Complex.arg`, `Real.sin`, `Real.cos`).  "over exact
  arithmetic": float rounding is covered only by the correspondence run (harness/corr_C08.py).

  Locality, borders and one-cell change hold for *every* value domain (`Fl F`), including the
  `Float` instance the driver executes.
-/
set_option linter.unusedSectionVars false
set_option linter.unusedVariables false
set_option linter.unusedSimpArgs false
namespace XrsVerif.C08
open XrsVerif XrsVerif.Gen

/-- the four kernels the property is about -/
def kernels : List Kernel := terrainWirings.map (·.2.kernel)

/-! ## 1. locality, borders, one-cell change -- for every value domain -/
section anyDomain
variable {F : Type} [Fl F]

/-- margins and allocation: loops run over `range(1, rows-1) × range(1, cols-1)`, the output is allocated
    NaN, and every relative read lies in the 3×3 window -/
theorem margins_and_reads :
    kernels.all (fun k => k.top == 1 && k.bottom == 1 && k.left == 1 && k.right == 1 &&
      k.fill == Fill.nan && readsWithin k.body.reads 1 1) = true := by decide

theorem kernels_are : kernels = [slope_cpu, aspect_cpu, curvature_cpu, hillshade_cpu] := rfl

theorem kernel_facts {k : Kernel} (hk : k ∈ kernels) :
    k.top = 1 ∧ k.bottom = 1 ∧ k.left = 1 ∧ k.right = 1 ∧ k.fill = Fill.nan ∧
      readsWithin k.body.reads 1 1 = true := by
  have h := List.all_eq_true.1 margins_and_reads k hk
  simp only [Bool.and_eq_true, beq_iff_eq] at h
  obtain ⟨⟨⟨⟨⟨h1, h2⟩, h3⟩, h4⟩, h5⟩, h6⟩ := h
  exact ⟨h1, h2, h3, h4, h5, h6⟩

/-- the same cells, whatever the order and however often each is read -/
def sameCells (l r : List (Int × Int)) : Prop := l ⊆ r ∧ r ⊆ l

instance (l r : List (Int × Int)) : Decidable (sameCells l r) := by unfold sameCells; infer_instance

/-- exactly which cells are read: Horn's 8 neighbours (not the centre) for slope and aspect, the
    4-neighbour cross plus the centre for curvature, the 4-neighbour cross for hillshade
    (as *sets*: reading a cell once into a temporary or twice in place is the same kernel) -/
theorem read_sets :
    sameCells (slope_cpu.body.reads.map (·.2)) [(1, -1), (1, 0), (1, 1), (0, -1), (0, 1), (-1, -1), (-1, 0), (-1, 1)] ∧
    sameCells (aspect_cpu.body.reads.map (·.2)) [(-1, -1), (-1, 0), (-1, 1), (0, -1), (0, 1), (1, -1), (1, 0), (1, 1)] ∧
    sameCells (curvature_cpu.body.reads.map (·.2)) [(1, 0), (-1, 0), (0, 0), (0, 1), (0, -1)] ∧
    sameCells (hillshade_cpu.body.reads.map (·.2)) [(1, 0), (-1, 0), (0, 1), (0, -1)] := by
  refine ⟨?_, ?_, ?_, ?_⟩ <;> decide

/-- **local**: an output cell is a function of the 3×3 window around it -/
theorem cell_local {k : Kernel} (hk : k ∈ kernels) (env : String → F) (vec : String → List F)
    (w1 w2 : String → Int → Int → F)
    (h : ∀ a (dy dx : Int), -1 ≤ dy → dy ≤ 1 → -1 ≤ dx → dx ≤ 1 → w1 a dy dx = w2 a dy dx) :
    k.cell env w1 vec = k.cell env w2 vec :=
  Kernel.cell_local k env vec w1 w2
    (AgreeOn_of_within _ 1 1 (kernel_facts hk).2.2.2.2.2 w1 w2 (by simpa using h))

/-- **local**, raster level: the output at (y, x) only depends on the input cells (i, j) with
    |i − y| ≤ 1 and |j − x| ≤ 1 -/
theorem run_local {k : Kernel} (hk : k ∈ kernels) (rows cols : Nat) (env : String → F)
    (g1 g2 : String → Int → Int → F) (vec : String → List F) (y x : Nat)
    (h : ∀ a (i j : Int), (y : Int) - 1 ≤ i → i ≤ y + 1 → (x : Int) - 1 ≤ j → j ≤ x + 1 →
        g1 a i j = g2 a i j) :
    cellOf (k.run rows cols env g1 vec) y x = cellOf (k.run rows cols env g2 vec) y x :=
  Kernel.run_local k 1 1 (kernel_facts hk).2.2.2.2.2 rows cols env g1 g2 vec y x (by simpa using h)

/-- **one_cell_change**: changing the single input cell (i0, j0) -- to NaN or to any value -- leaves
    every output cell outside the 3×3 neighbourhood of (i0, j0) unchanged -/
theorem one_cell_change {k : Kernel} (hk : k ∈ kernels) (rows cols : Nat) (env : String → F)
    (g1 g2 : String → Int → Int → F) (vec : String → List F) (i0 j0 : Int)
    (hdiff : ∀ a (i j : Int), (i ≠ i0 ∨ j ≠ j0) → g1 a i j = g2 a i j) (y x : Nat)
    (hfar : (y : Int) + 1 < i0 ∨ i0 + 1 < y ∨ (x : Int) + 1 < j0 ∨ j0 + 1 < x) :
    cellOf (k.run rows cols env g1 vec) y x = cellOf (k.run rows cols env g2 vec) y x :=
  Kernel.run_one_cell_change k 1 1 (kernel_facts hk).2.2.2.2.2 rows cols env g1 g2 vec i0 j0 hdiff y x
    (by simpa using hfar)

/-- **border_nan**: first / last row and column are NaN, for every raster size (1×1, 2×n, … included) -/
theorem border_nan {k : Kernel} (hk : k ∈ kernels) (rows cols : Nat) (env : String → F)
    (get : String → Int → Int → F) (vec : String → List F) (y x : Nat) (hy : y < rows) (hx : x < cols)
    (hedge : y = 0 ∨ y + 1 = rows ∨ x = 0 ∨ x + 1 = cols) :
    cellOf (k.run rows cols env get vec) y x = some Fl.nan := by
  obtain ⟨h1, h2, h3, h4, h5, _⟩ := kernel_facts hk
  have := Kernel.run_border k (by omega) (by omega) (by omega) (by omega) rows cols env get vec y x hy hx hedge
  rw [this, h5]; rfl

/-- a raster with fewer than 3 rows or columns is NaN everywhere -/
theorem small_raster_all_nan {k : Kernel} (hk : k ∈ kernels) (rows cols : Nat) (hs : rows < 3 ∨ cols < 3)
    (env : String → F) (get : String → Int → Int → F) (vec : String → List F) (y x : Nat)
    (hy : y < rows) (hx : x < cols) :
    cellOf (k.run rows cols env get vec) y x = some Fl.nan := by
  obtain ⟨h1, h2, h3, h4, h5, _⟩ := kernel_facts hk
  have := Kernel.run_small k (by omega) (by omega) (by omega) (by omega) rows cols hs env get vec y x hy hx
  rw [this, h5]; rfl

/-- the output raster has the input's shape -/
theorem output_shape (k : Kernel) (rows cols : Nat) (env : String → F) (get : String → Int → Int → F)
    (vec : String → List F) :
    (k.run rows cols env get vec).length = rows ∧ ∀ r ∈ k.run rows cols env get vec, r.length = cols :=
  Kernel.run_shape k rows cols env get vec

/-- an interior cell is the kernel's cell function applied to the window around it -/
theorem interior_cell {k : Kernel} (hk : k ∈ kernels) (rows cols : Nat) (env : String → F)
    (get : String → Int → Int → F) (vec : String → List F) (y x : Nat)
    (hy : 1 ≤ y ∧ y + 1 < rows) (hx : 1 ≤ x ∧ x + 1 < cols) :
    cellOf (k.run rows cols env get vec) y x = some (k.cell env (windowAt get y x) vec) := by
  obtain ⟨h1, h2, h3, h4, _, _⟩ := kernel_facts hk
  rw [k.run_cellOf rows cols env get vec y x (by omega) (by omega)]
  have : k.inLoop rows cols y x := by unfold Kernel.inLoop; omega
  simp [this]

/-- the glue between the raster-level and the cell-level statements below: an interior cell of a public
    function's output is `w.cell` of the 3×3 window around it (so every cell-level theorem -- documented
    formula, NaN containment, ranges, flat windows -- holds at every interior cell of every raster) -/
theorem wiring_run_interior {n : String} {w : TerrainWiring} (hw : (n, w) ∈ terrainWirings) (rows cols : Nat)
    (rx ry : F) (pub : String → F) (get : Int → Int → F) (y x : Nat)
    (hy : 1 ≤ y ∧ y + 1 < rows) (hx : 1 ≤ x ∧ x + 1 < cols) :
    cellOf (w.run rows cols rx ry pub get) y x =
      some (w.cell rx ry pub (fun dy dx => get ((y : Int) + dy) ((x : Int) + dx))) := by
  have hk : w.kernel ∈ kernels := List.mem_map.2 ⟨(n, w), hw, rfl⟩
  exact interior_cell hk rows cols _ _ _ y x hy hx

end anyDomain

/-! ## 2. the documented formulas (exact arithmetic) -/
section formulas
variable {K : Type} [Field K] [LinearOrder K] [IsStrictOrderedRing K] [Trig K]

/- `finW z` (Proofs/Terrain.lean) is the window of finite elevations `z dy dx`; dy = −1 is the row above
   (north), dx = +1 the column to the right (east). -/

/-- Horn: (east column) − (west column), weights 1 2 1 -/
def hornDx (z : Int → Int → K) : K :=
  (z (-1) 1 + 2 * z 0 1 + z 1 1) - (z (-1) (-1) + 2 * z 0 (-1) + z 1 (-1))

/-- Horn: (north row) − (south row), weights 1 2 1 -/
def hornDy (z : Int → Int → K) : K :=
  (z (-1) (-1) + 2 * z (-1) 0 + z (-1) 1) - (z 1 (-1) + 2 * z 1 0 + z 1 1)

/-- π as the kernels compute it (`np.pi` is translated to `4 * atan 1`; for `realTrig` this is `Real.pi`) -/
def piK : K := 4 * Trig.atan 1

/-- documented slope: degrees(atan(√((dz/dx)² + (dz/dy)²))), dz/dx = Horn_x / (8·cellsize_x),
    dz/dy = Horn_y / (8·cellsize_y), with the code's radian→degree constant 57.29578 -/
def slopeDoc (z : Int → Int → K) (cx cy : K) : K :=
  Trig.atan (Trig.sqrt ((hornDx z / (8 * cx)) * (hornDx z / (8 * cx)) +
    (hornDy z / (8 * cy)) * (hornDy z / (8 * cy)))) * (2864789 / 50000)

/-- compass conversion of the mathematical angle `A` (degrees, counter-clockwise from east) -/
def compass (A : K) : K :=
  if A < 0 then 90 - A else if 90 < A then 360 - A + 90 else 90 - A

/-- documented aspect: −1 on a flat window, otherwise the compass direction of
    atan2(dz/dy, −dz/dx) with dz/dx = Horn_x / 8 and dz/dy = (south − north) / 8 -/
def aspectDoc (z : Int → Int → K) : K :=
  if hornDx z = 0 ∧ hornDy z = 0 then -1
  else compass (Trig.atan2 (-(hornDy z) / 8) (-(hornDx z / 8)) * (180 / piK))

/-- documented curvature: −100 × (five-point Laplacian) / cellsize² -/
def curvatureDoc (z : Int → Int → K) (cs : K) : K :=
  -(z 1 0 + z (-1) 0 + z 0 1 + z 0 (-1) - 4 * z 0 0) * 100 / (cs * cs)

/-- documented hillshade (GeoExamples formula, unit-spaced central differences) -/
def hillshadeDoc (z : Int → Int → K) (azimuth altitude : K) : K :=
  let gx := (z 1 0 - z (-1) 0) / 2
  let gy := (z 0 1 - z 0 (-1)) / 2
  let slope := piK / 2 - Trig.atan (Trig.sqrt (gx * gx + gy * gy))
  let aspect := Trig.atan2 (-gx) gy
  let az := (360 - azimuth) * piK / 180
  let alt := altitude * piK / 180
  (Trig.sin alt * Trig.sin slope + Trig.cos alt * Trig.cos slope * Trig.cos (az - piK / 2 - aspect) + 1) / 2

/-- public scalar parameters as an association list -/
def pubs (l : List (String × NV K)) : String → NV K := envOf l

/-- **slope_eq_documented** (includes `cellsize_axes`): `slope` divides the x-gradient by
    8 × (x cell size) and the y-gradient by 8 × (y cell size) -/
theorem slope_eq_documented (z : Int → Int → K) (rx ry : K) (hx : rx ≠ 0) (hy : ry ≠ 0)
    (pub : String → NV K) :
    slope_wiring.cell (some rx) (some ry) pub (finW z) = some (slopeDoc z rx ry) := by
  ksimp [TerrainWiring.cell, TerrainWiring.env, slope_wiring, slope_cpu, finW, hornDx, hornDy, slopeDoc, hx, hy]
  first | done | (congr 2; ring)

/-- **aspect_eq_documented**; aspect does not use the cell size at all -/
theorem aspect_eq_documented (z : Int → Int → K) (hpi : (piK : K) ≠ 0) (rx ry : NV K)
    (pub : String → NV K) :
    aspect_wiring.cell rx ry pub (finW z) = some (aspectDoc z) := by
  have e1 : (z 1 (-1) + 2 * z 1 0 + z 1 1) - (z (-1) (-1) + 2 * z (-1) 0 + z (-1) 1) = -(hornDy z) := by
    unfold hornDy; ring
  have e2 : z (-1) 1 + 2 * z 0 1 + z 1 1 - (z (-1) (-1) + 2 * z 0 (-1) + z 1 (-1)) = hornDx z := rfl
  have hpi' : ¬ Trig.atan (1 : K) = 0 := by
    intro h; apply hpi; simp [piK, h]
  have e3 : (4 : K) * Trig.atan 1 = piK := rfl
  ksimp [TerrainWiring.cell, TerrainWiring.env, aspect_wiring, aspect_cpu, finW, hpi', apply_ite KSt.out]
  rw [e1, e2, e3]
  unfold aspectDoc compass
  -- (the code's if-chain may list the `A < 0` case separately or leave it to the final `else`: both
  -- spellings give `90 - A`; a branch combination that cannot occur is closed by its contradictory bounds)
  split_ifs <;> first | (simp_all; done) | (exfalso; linarith) | (simp_all; linarith)

/-- **curvature_eq_documented** (includes `cellsize_axes`): the cell size is the mean of the two -/
theorem curvature_eq_documented (z : Int → Int → K) (rx ry : K) (h : rx + ry ≠ 0) (pub : String → NV K) :
    curvature_wiring.cell (some rx) (some ry) pub (finW z) = some (curvatureDoc z ((rx + ry) / 2)) := by
  ksimp [TerrainWiring.cell, TerrainWiring.env, curvature_wiring, curvature_cpu, finW, curvatureDoc, h]
  first | done | ring

/-- **hillshade_eq_documented**; hillshade does not use the cell size (unit-spaced gradient) -/
theorem hillshade_eq_documented (z : Int → Int → K) (az alt : K) (hpi : (piK : K) ≠ 0) (rx ry : NV K) :
    hillshade_wiring.cell rx ry (pubs [("azimuth", some az), ("angle_altitude", some alt)]) (finW z) =
      some (hillshadeDoc z az alt) := by
  have hpi' : ¬ Trig.atan (1 : K) = 0 := by
    intro h; apply hpi; simp [piK, h]
  ksimp [TerrainWiring.cell, TerrainWiring.env, hillshade_wiring, hillshade_cpu, finW, hillshadeDoc, pubs, piK, hpi']

/-- **resolution**: the syntactic facts of `get_dataarray_resolution` / `calc_res` / `get_xy_range`:
    the pair is (x, y) in every branch, x from the last dimension's coordinate and the width,
    y from the second-last dimension's coordinate and the height -/
theorem resolution_facts :
    res_facts = { returnsXY := true, attrTupleXY := true, attrScalarBoth := true, fallbackCalcRes := true,
                  calcResReturnsXY := true, shapeHW := true, rangeMinMax := true } := by decide

theorem calc_res_eq (xmin xmax ymin ymax h w : K) (hw : w - 1 ≠ 0) (hh : h - 1 ≠ 0) :
    Terrain.calcRes (some xmin : NV K) (some xmax) (some ymin) (some ymax) (some h) (some w) =
      (some ((xmax - xmin) / (w - 1)), some ((ymax - ymin) / (h - 1))) := by
  simp [Terrain.calcRes, calc_res_x, calc_res_y, E.eval, BinOp.eval, hw, hh]

theorem resolution_from_attr (x y c xmin xmax ymin ymax h w : NV K) :
    Terrain.resolution (.pair x y) xmin xmax ymin ymax h w = (x, y) ∧
    Terrain.resolution (.scalar c) xmin xmax ymin ymax h w = (c, c) := ⟨rfl, rfl⟩

/-- `summarize_terrain` stores slope / curvature / aspect of the same terrain under the matching names -/
theorem summarize_terrain_calls :
    summarize_calls = [("-slope", "slope"), ("-curvature", "curvature"), ("-aspect", "aspect")] := by decide

/-- every wrapper hands `agg.data` to its kernel, and the dask wrapper uses a one-cell NaN halo -/
theorem wrappers_pass_data :
    terrainWirings.all (fun w => w.2.aggData && w.2.daskDepth == [1, 1] && w.2.daskBoundaryNan) = true := by
  decide

end formulas

/-! ## 3. NaN containment: a NaN at any cell the formula reads gives NaN; together with `one_cell_change`
       a NaN cell can only affect its own 3×3 neighbourhood -/
section nan
variable {K : Type} [Field K] [LinearOrder K] [IsStrictOrderedRing K] [Trig K]

/-- Horn's eight neighbours -/
def nbr8 : List (Int × Int) := [(-1, -1), (-1, 0), (-1, 1), (0, -1), (0, 1), (1, -1), (1, 0), (1, 1)]
/-- the four edge neighbours -/
def cross4 : List (Int × Int) := [(-1, 0), (1, 0), (0, -1), (0, 1)]
/-- … plus the centre -/
def cross5 : List (Int × Int) := (0, 0) :: cross4

theorem slope_nan_contained (w : Int → Int → NV K) (rx ry : NV K) (pub : String → NV K) (p : Int × Int)
    (hp : p ∈ nbr8) (h : w p.1 p.2 = none) : slope_wiring.cell rx ry pub w = none := by
  simp only [nbr8, List.mem_cons, List.mem_nil_iff, or_false] at hp
  rcases hp with rfl | rfl | rfl | rfl | rfl | rfl | rfl | rfl <;>
    ksimp [TerrainWiring.cell, TerrainWiring.env, slope_wiring, slope_cpu, h]

theorem aspect_nan_contained (w : Int → Int → NV K) (rx ry : NV K) (pub : String → NV K) (p : Int × Int)
    (hp : p ∈ nbr8) (h : w p.1 p.2 = none) : aspect_wiring.cell rx ry pub w = none := by
  simp only [nbr8, List.mem_cons, List.mem_nil_iff, or_false] at hp
  rcases hp with rfl | rfl | rfl | rfl | rfl | rfl | rfl | rfl <;>
    ksimp [TerrainWiring.cell, TerrainWiring.env, aspect_wiring, aspect_cpu, h]

theorem curvature_nan_contained (w : Int → Int → NV K) (rx ry : NV K) (pub : String → NV K) (p : Int × Int)
    (hp : p ∈ cross5) (h : w p.1 p.2 = none) : curvature_wiring.cell rx ry pub w = none := by
  simp only [cross5, cross4, List.mem_cons, List.mem_nil_iff, or_false] at hp
  rcases hp with rfl | rfl | rfl | rfl | rfl <;>
    ksimp [TerrainWiring.cell, TerrainWiring.env, curvature_wiring, curvature_cpu, h]

theorem hillshade_nan_contained (w : Int → Int → NV K) (rx ry : NV K) (pub : String → NV K) (p : Int × Int)
    (hp : p ∈ cross4) (h : w p.1 p.2 = none) : hillshade_wiring.cell rx ry pub w = none := by
  simp only [cross4, List.mem_cons, List.mem_nil_iff, or_false] at hp
  rcases hp with rfl | rfl | rfl | rfl <;>
    ksimp [TerrainWiring.cell, TerrainWiring.env, hillshade_wiring, hillshade_cpu, h]

end nan

/-! ## 4. consequences: offset invariance, flat windows -/
section consequences
variable {K : Type} [Field K] [LinearOrder K] [IsStrictOrderedRing K] [Trig K]

theorem readsIn_facts :
    readsIn slope_cpu nbr8 = true ∧ readsIn aspect_cpu nbr8 = true ∧
    readsIn curvature_cpu cross5 = true ∧ readsIn hillshade_cpu cross4 = true := by decide

/-- a window with no NaN among the cells the formula reads evaluates to the documented formula on its
    values (with `*_nan_contained` this describes the cell for *every* window) -/
theorem slope_cell_of_finite (w : Int → Int → NV K) (rx ry : K) (hx : rx ≠ 0) (hy : ry ≠ 0)
    (pub : String → NV K) (hf : finiteOn nbr8 w) :
    slope_wiring.cell (some rx) (some ry) pub w = some (slopeDoc (vals w) rx ry) := by
  rw [← slope_eq_documented (vals w) rx ry hx hy pub]
  exact cell_congr_on _ nbr8 readsIn_facts.1 _ _ w _ (finiteOn_agree nbr8 w hf)

theorem aspect_cell_of_finite (w : Int → Int → NV K) (hpi : (piK : K) ≠ 0) (rx ry : NV K)
    (pub : String → NV K) (hf : finiteOn nbr8 w) :
    aspect_wiring.cell rx ry pub w = some (aspectDoc (vals w)) := by
  rw [← aspect_eq_documented (vals w) hpi rx ry pub]
  exact cell_congr_on _ nbr8 readsIn_facts.2.1 _ _ w _ (finiteOn_agree nbr8 w hf)

theorem curvature_cell_of_finite (w : Int → Int → NV K) (rx ry : K) (h : rx + ry ≠ 0)
    (pub : String → NV K) (hf : finiteOn cross5 w) :
    curvature_wiring.cell (some rx) (some ry) pub w = some (curvatureDoc (vals w) ((rx + ry) / 2)) := by
  rw [← curvature_eq_documented (vals w) rx ry h pub]
  exact cell_congr_on _ cross5 readsIn_facts.2.2.1 _ _ w _ (finiteOn_agree cross5 w hf)

theorem hillshade_cell_of_finite (w : Int → Int → NV K) (az alt : K) (hpi : (piK : K) ≠ 0) (rx ry : NV K)
    (hf : finiteOn cross4 w) :
    hillshade_wiring.cell rx ry (pubs [("azimuth", some az), ("angle_altitude", some alt)]) w =
      some (hillshadeDoc (vals w) az alt) := by
  rw [← hillshade_eq_documented (vals w) az alt hpi rx ry]
  exact cell_congr_on _ cross4 readsIn_facts.2.2.2 _ _ w _ (finiteOn_agree cross4 w hf)

theorem hornDx_offset (z : Int → Int → K) (c : K) : hornDx (fun dy dx => z dy dx + c) = hornDx z := by
  unfold hornDx; ring
theorem hornDy_offset (z : Int → Int → K) (c : K) : hornDy (fun dy dx => z dy dx + c) = hornDy z := by
  unfold hornDy; ring

/-- **offset_invariant** (documented formulas): adding a constant to every elevation changes nothing -/
theorem doc_offset_invariant (z : Int → Int → K) (c cx cy cs az alt : K) :
    slopeDoc (fun dy dx => z dy dx + c) cx cy = slopeDoc z cx cy ∧
    aspectDoc (fun dy dx => z dy dx + c) = aspectDoc z ∧
    curvatureDoc (fun dy dx => z dy dx + c) cs = curvatureDoc z cs ∧
    hillshadeDoc (fun dy dx => z dy dx + c) az alt = hillshadeDoc z az alt := by
  refine ⟨?_, ?_, ?_, ?_⟩
  · simp only [slopeDoc, hornDx_offset, hornDy_offset]
  · simp only [aspectDoc, hornDx_offset, hornDy_offset]
  · unfold curvatureDoc; congr 1; ring
  · simp only [hillshadeDoc, add_sub_add_right_eq_sub]

/-- the window with `c` added to every cell (NaN stays NaN) -/
def offsetW (c : K) (w : Int → Int → NV K) : Int → Int → NV K := fun dy dx => Fl.add (w dy dx) (some c)

theorem offsetW_eq (c : K) (w : Int → Int → NV K) :
    offsetW c w = fun dy dx => (w ((id : Int × Int → Int × Int) (dy, dx)).1 (id (dy, dx)).2).map (· + c) := by
  funext dy dx; simp [offsetW, fl_add_some_eq_map]

/-- **offset_invariant**, cell level, for every window (finite or with NaN cells) -/
theorem slope_offset_invariant (w : Int → Int → NV K) (c rx ry : K) (hx : rx ≠ 0) (hy : ry ≠ 0)
    (pub : String → NV K) :
    slope_wiring.cell (some rx) (some ry) pub (offsetW c w) = slope_wiring.cell (some rx) (some ry) pub w := by
  rw [offsetW_eq]
  exact cell_lift slope_cpu nbr8 readsIn_facts.1 _ _ id (fun p hp => hp) (fun q hq => ⟨q, hq, rfl⟩) (· + c) id rfl
    (fun w p hp h => slope_nan_contained w (some rx) (some ry) pub p hp h)
    (fun z => by
      have h1 := slope_eq_documented (fun dy dx => z dy dx + c) rx ry hx hy pub
      have h2 := slope_eq_documented z rx ry hx hy pub
      exact h1.trans ((congrArg some (doc_offset_invariant z c rx ry 1 0 0).1).trans h2.symm)) w

theorem aspect_offset_invariant (w : Int → Int → NV K) (c : K) (hpi : (piK : K) ≠ 0) (rx ry : NV K)
    (pub : String → NV K) :
    aspect_wiring.cell rx ry pub (offsetW c w) = aspect_wiring.cell rx ry pub w := by
  rw [offsetW_eq]
  exact cell_lift aspect_cpu nbr8 readsIn_facts.2.1 _ _ id (fun p hp => hp) (fun q hq => ⟨q, hq, rfl⟩) (· + c) id rfl
    (fun w p hp h => aspect_nan_contained w rx ry pub p hp h)
    (fun z => by
      have h1 := aspect_eq_documented (fun dy dx => z dy dx + c) hpi rx ry pub
      have h2 := aspect_eq_documented z hpi rx ry pub
      exact h1.trans ((congrArg some (doc_offset_invariant z c 1 1 1 0 0).2.1).trans h2.symm)) w

theorem curvature_offset_invariant (w : Int → Int → NV K) (c rx ry : K) (h : rx + ry ≠ 0)
    (pub : String → NV K) :
    curvature_wiring.cell (some rx) (some ry) pub (offsetW c w) =
      curvature_wiring.cell (some rx) (some ry) pub w := by
  rw [offsetW_eq]
  exact cell_lift curvature_cpu cross5 readsIn_facts.2.2.1 _ _ id (fun p hp => hp) (fun q hq => ⟨q, hq, rfl⟩)
    (· + c) id rfl
    (fun w p hp h => curvature_nan_contained w (some rx) (some ry) pub p hp h)
    (fun z => by
      have h1 := curvature_eq_documented (fun dy dx => z dy dx + c) rx ry h pub
      have h2 := curvature_eq_documented z rx ry h pub
      exact h1.trans ((congrArg some (doc_offset_invariant z c 1 1 ((rx + ry) / 2) 0 0).2.2.1).trans h2.symm)) w

theorem hillshade_offset_invariant (w : Int → Int → NV K) (c az alt : K) (hpi : (piK : K) ≠ 0)
    (rx ry : NV K) :
    hillshade_wiring.cell rx ry (pubs [("azimuth", some az), ("angle_altitude", some alt)]) (offsetW c w) =
      hillshade_wiring.cell rx ry (pubs [("azimuth", some az), ("angle_altitude", some alt)]) w := by
  rw [offsetW_eq]
  exact cell_lift hillshade_cpu cross4 readsIn_facts.2.2.2 _ _ id (fun p hp => hp) (fun q hq => ⟨q, hq, rfl⟩)
    (· + c) id rfl
    (fun w p hp h => hillshade_nan_contained w rx ry _ p hp h)
    (fun z => by
      have h1 := hillshade_eq_documented (fun dy dx => z dy dx + c) az alt hpi rx ry
      have h2 := hillshade_eq_documented z az alt hpi rx ry
      exact h1.trans ((congrArg some (doc_offset_invariant z c 1 1 1 az alt).2.2.2).trans h2.symm)) w

/-- **offset_invariant**, raster level: adding a constant to all elevations (NaN cells stay NaN) gives
    the same slope raster; the same lifting gives it for the other three functions -/
theorem slope_run_offset_invariant (rows cols : Nat) (get : Int → Int → NV K) (c rx ry : K) (hx : rx ≠ 0)
    (hy : ry ≠ 0) (pub : String → NV K) :
    slope_wiring.run rows cols (some rx) (some ry) pub (fun i j => Fl.add (get i j) (some c)) =
      slope_wiring.run rows cols (some rx) (some ry) pub get := by
  unfold TerrainWiring.run
  apply Kernel.run_congr_cell
  intro y x
  exact slope_offset_invariant (fun dy dx => get (y + dy) (x + dx)) c rx ry hx hy pub

theorem aspect_run_offset_invariant (rows cols : Nat) (get : Int → Int → NV K) (c : K) (hpi : (piK : K) ≠ 0)
    (rx ry : NV K) (pub : String → NV K) :
    aspect_wiring.run rows cols rx ry pub (fun i j => Fl.add (get i j) (some c)) =
      aspect_wiring.run rows cols rx ry pub get := by
  unfold TerrainWiring.run
  apply Kernel.run_congr_cell
  intro y x
  exact aspect_offset_invariant (fun dy dx => get (y + dy) (x + dx)) c hpi rx ry pub

theorem curvature_run_offset_invariant (rows cols : Nat) (get : Int → Int → NV K) (c rx ry : K)
    (h : rx + ry ≠ 0) (pub : String → NV K) :
    curvature_wiring.run rows cols (some rx) (some ry) pub (fun i j => Fl.add (get i j) (some c)) =
      curvature_wiring.run rows cols (some rx) (some ry) pub get := by
  unfold TerrainWiring.run
  apply Kernel.run_congr_cell
  intro y x
  exact curvature_offset_invariant (fun dy dx => get (y + dy) (x + dx)) c rx ry h pub

theorem hillshade_run_offset_invariant (rows cols : Nat) (get : Int → Int → NV K) (c az alt : K)
    (hpi : (piK : K) ≠ 0) (rx ry : NV K) :
    hillshade_wiring.run rows cols rx ry (pubs [("azimuth", some az), ("angle_altitude", some alt)])
        (fun i j => Fl.add (get i j) (some c)) =
      hillshade_wiring.run rows cols rx ry (pubs [("azimuth", some az), ("angle_altitude", some alt)]) get := by
  unfold TerrainWiring.run
  apply Kernel.run_congr_cell
  intro y x
  exact hillshade_offset_invariant (fun dy dx => get (y + dy) (x + dx)) c az alt hpi rx ry

/-- **flat_window**: zero Horn gradient (in particular a constant window) gives slope 0 -- given
    `sqrt 0 = 0` and `atan 0 = 0`, which hold for the real functions -- and aspect −1; a window whose
    centre equals the mean of its four edge neighbours (in particular a constant window) has curvature 0 -/
theorem flat_window (z : Int → Int → K) (cx cy cs : K) (hs : Trig.sqrt (0 : K) = 0)
    (ha : Trig.atan (0 : K) = 0) :
    (hornDx z = 0 → hornDy z = 0 → slopeDoc z cx cy = 0 ∧ aspectDoc z = -1) ∧
    (z 1 0 + z (-1) 0 + z 0 1 + z 0 (-1) = 4 * z 0 0 → curvatureDoc z cs = 0) := by
  refine ⟨fun h1 h2 => ⟨?_, ?_⟩, fun h => ?_⟩
  · simp [slopeDoc, h1, h2, hs, ha]
  · simp [aspectDoc, h1, h2]
  · simp [curvatureDoc, h]

theorem constant_window (v : K) :
    hornDx (fun _ _ => v) = 0 ∧ hornDy (fun _ _ => v) = 0 ∧ v + v + v + v = 4 * v := by
  refine ⟨?_, ?_, ?_⟩
  · unfold hornDx; ring
  · unfold hornDy; ring
  · ring

/-- **flat_window** on the generated code: a constant window gives slope 0, aspect −1, curvature 0 -/
theorem flat_window_cells (v rx ry : K) (hx : rx ≠ 0) (hy : ry ≠ 0) (hxy : rx + ry ≠ 0) (hpi : (piK : K) ≠ 0)
    (hs : Trig.sqrt (0 : K) = 0) (ha : Trig.atan (0 : K) = 0) (pub : String → NV K) :
    slope_wiring.cell (some rx) (some ry) pub (finW fun _ _ => v) = some 0 ∧
    aspect_wiring.cell (some rx) (some ry) pub (finW fun _ _ => v) = some (-1) ∧
    curvature_wiring.cell (some rx) (some ry) pub (finW fun _ _ => v) = some 0 := by
  obtain ⟨h1, h2, h3⟩ := constant_window v
  have hf := flat_window (fun _ _ => v) rx ry ((rx + ry) / 2) hs ha
  rw [slope_eq_documented _ rx ry hx hy, aspect_eq_documented _ hpi, curvature_eq_documented _ rx ry hxy,
    (hf.1 h1 h2).1, (hf.1 h1 h2).2, hf.2 h3]
  exact ⟨rfl, rfl, rfl⟩

end consequences

/-! ## 5. ranges (real functions) -/
section ranges
open Real

theorem real_piK : (piK : ℝ) = Real.pi := RealTrig.four_atan_one
theorem real_piK_ne : (piK : ℝ) ≠ 0 := by rw [real_piK]; exact Real.pi_ne_zero

/-- over the reals the documented slope lies in [0, 57.29578·π/2) -/
theorem slopeDoc_range (z : Int → Int → ℝ) (cx cy : ℝ) :
    0 ≤ slopeDoc z cx cy ∧ slopeDoc z cx cy < (2864789 / 50000) * (Real.pi / 2) := by
  unfold slopeDoc
  constructor
  · exact mul_nonneg (RealTrig.atan_sqrt_nonneg _) (by norm_num)
  · rw [mul_comm]
    exact mul_lt_mul_of_pos_left (RealTrig.atan_lt _) (by norm_num)

/-- **slope range**: every non-NaN slope cell is in [0, 90 + 10⁻⁶) over the reals.  The bound is not 90:
    the code's constant 57.29578 exceeds 180/π, so the supremum 57.29578·π/2 is 90.00000076…
    (`RealTrig.slope_const_above`); see `slope_rounds_le_90` for the float statement. -/
theorem slope_range (w : Int → Int → NV ℝ) (rx ry : ℝ) (hx : rx ≠ 0) (hy : ry ≠ 0) (pub : String → NV ℝ)
    (v : ℝ) (h : slope_wiring.cell (some rx) (some ry) pub w = some v) :
    0 ≤ v ∧ v < 90 + 1 / 1000000 := by
  by_cases hf : finiteOn nbr8 w
  · rw [slope_cell_of_finite w rx ry hx hy pub hf] at h
    simp only [Option.some.injEq] at h
    subst h
    have := slopeDoc_range (vals w) rx ry
    exact ⟨this.1, lt_trans this.2 RealTrig.slope_const_bound⟩
  · simp only [finiteOn, not_forall] at hf
    obtain ⟨p, hp, hn⟩ := hf
    rw [slope_nan_contained w (some rx) (some ry) pub p hp (by simpa using hn)] at h
    simp at h

/-- under any monotone rounding that sends 90 + 10⁻⁶ to at most 90 (float32 round-to-nearest does: the
    spacing of float32 at 90 is 7.6·10⁻⁶) the stored slope is ≤ 90 -/
theorem slope_rounds_le_90 (rnd : ℝ → ℝ) (hmono : Monotone rnd) (h90 : rnd (90 + 1 / 1000000) ≤ 90)
    (w : Int → Int → NV ℝ) (rx ry : ℝ) (hx : rx ≠ 0) (hy : ry ≠ 0) (pub : String → NV ℝ)
    (v : ℝ) (h : slope_wiring.cell (some rx) (some ry) pub w = some v) : rnd v ≤ 90 :=
  (hmono (le_of_lt (slope_range w rx ry hx hy pub v h).2)).trans h90

variable {K : Type} [Field K] [LinearOrder K] [IsStrictOrderedRing K] [Trig K]

theorem compass_range (A : K) (h1 : -180 < A) (h2 : A ≤ 180) : 0 ≤ compass A ∧ compass A < 360 := by
  unfold compass
  split_ifs <;> constructor <;> linarith

theorem atan2_deg_range (y x : ℝ) :
    -180 < Trig.atan2 y x * (180 / (piK : ℝ)) ∧ Trig.atan2 y x * (180 / (piK : ℝ)) ≤ 180 := by
  rw [real_piK]
  obtain ⟨h1, h2⟩ := RealTrig.atan2_range y x
  have hpos : 0 < 180 / Real.pi := div_pos (by norm_num) Real.pi_pos
  have e : Real.pi * (180 / Real.pi) = 180 := by field_simp
  constructor
  · have := mul_lt_mul_of_pos_right h1 hpos
    rw [neg_mul, e] at this; exact this
  · have := mul_le_mul_of_nonneg_right h2 hpos.le
    rw [e] at this; exact this

theorem aspectDoc_range (z : Int → Int → ℝ) : aspectDoc z = -1 ∨ (0 ≤ aspectDoc z ∧ aspectDoc z < 360) := by
  unfold aspectDoc
  split_ifs
  · left; rfl
  · right
    exact compass_range _ (atan2_deg_range _ _).1 (atan2_deg_range _ _).2

/-- **aspect range**: every non-NaN aspect cell is −1 or lies in [0, 360) (⊂ [0, 360]) -/
theorem aspect_range (w : Int → Int → NV ℝ) (rx ry : NV ℝ) (pub : String → NV ℝ) (v : ℝ)
    (h : aspect_wiring.cell rx ry pub w = some v) : v = -1 ∨ (0 ≤ v ∧ v < 360) := by
  by_cases hf : finiteOn nbr8 w
  · rw [aspect_cell_of_finite w real_piK_ne rx ry pub hf] at h
    simp only [Option.some.injEq] at h
    subst h
    exact aspectDoc_range (vals w)
  · simp only [finiteOn, not_forall] at hf
    obtain ⟨p, hp, hn⟩ := hf
    rw [aspect_nan_contained w rx ry pub p hp (by simpa using hn)] at h
    simp at h

/-- Cauchy–Schwarz on the two unit vectors (sin alt, cos alt) and (sin s, cos s · cos θ) -/
theorem shade_range (sa ca ss cs ct : K) (h1 : sa * sa + ca * ca = 1) (h2 : ss * ss + cs * cs = 1)
    (h3 : ct * ct ≤ 1) :
    0 ≤ (sa * ss + ca * cs * ct + 1) / 2 ∧ (sa * ss + ca * cs * ct + 1) / 2 ≤ 1 := by
  have key : (sa * ss + ca * cs * ct) * (sa * ss + ca * cs * ct) ≤ 1 := by
    have e : (sa * ss + ca * (cs * ct)) * (sa * ss + ca * (cs * ct)) +
        (sa * (cs * ct) - ca * ss) * (sa * (cs * ct) - ca * ss) =
        (sa * sa + ca * ca) * (ss * ss + (cs * ct) * (cs * ct)) := by ring
    have hm : (cs * ct) * (cs * ct) ≤ cs * cs := by
      have : (cs * ct) * (cs * ct) = (cs * cs) * (ct * ct) := by ring
      rw [this]
      exact mul_le_of_le_one_right (mul_self_nonneg cs) h3
    rw [h1, one_mul] at e
    have h4 := mul_self_nonneg (sa * (cs * ct) - ca * ss)
    have e' : (sa * ss + ca * cs * ct) = (sa * ss + ca * (cs * ct)) := by ring
    rw [e']
    linarith
  have hle : sa * ss + ca * cs * ct ≤ 1 := by
    by_contra hc
    have hc := not_le.1 hc
    nlinarith
  have hge : -1 ≤ sa * ss + ca * cs * ct := by
    by_contra hc
    have hc := not_le.1 hc
    nlinarith
  constructor
  · apply div_nonneg <;> linarith
  · rw [div_le_one (by norm_num)]; linarith

theorem hillshadeDoc_range (z : Int → Int → ℝ) (az alt : ℝ) :
    0 ≤ hillshadeDoc z az alt ∧ hillshadeDoc z az alt ≤ 1 := by
  unfold hillshadeDoc
  exact shade_range _ _ _ _ _ (RealTrig.sin_sq_add_cos_sq _) (RealTrig.sin_sq_add_cos_sq _)
    (RealTrig.cos_sq_le_one _)

/-- **hillshade range**: every non-NaN hillshade cell is in [0, 1], for every azimuth and altitude -/
theorem hillshade_range (w : Int → Int → NV ℝ) (az alt : ℝ) (rx ry : NV ℝ) (v : ℝ)
    (h : hillshade_wiring.cell rx ry (pubs [("azimuth", some az), ("angle_altitude", some alt)]) w = some v) :
    0 ≤ v ∧ v ≤ 1 := by
  by_cases hf : finiteOn cross4 w
  · rw [hillshade_cell_of_finite w az alt real_piK_ne rx ry hf] at h
    simp only [Option.some.injEq] at h
    subst h
    exact hillshadeDoc_range (vals w) az alt
  · simp only [finiteOn, not_forall] at hf
    obtain ⟨p, hp, hn⟩ := hf
    rw [hillshade_nan_contained w rx ry _ p hp (by simpa using hn)] at h
    simp at h

/-- over the reals: slope 0 and aspect −1 on a flat window hold without side conditions -/
theorem flat_window_real (v rx ry : ℝ) (hx : rx ≠ 0) (hy : ry ≠ 0) (hxy : rx + ry ≠ 0) (pub : String → NV ℝ) :
    slope_wiring.cell (some rx) (some ry) pub (finW fun _ _ => v) = some 0 ∧
    aspect_wiring.cell (some rx) (some ry) pub (finW fun _ _ => v) = some (-1) ∧
    curvature_wiring.cell (some rx) (some ry) pub (finW fun _ _ => v) = some 0 :=
  flat_window_cells v rx ry hx hy hxy real_piK_ne RealTrig.sqrt_zero RealTrig.atan_zero pub

end ranges

/-! ## 6. quarter turn -/
section quarterTurn
variable {K : Type} [Field K] [LinearOrder K] [IsStrictOrderedRing K] [Trig K]

/-- the window of the raster turned a quarter turn counter-clockwise (`np.rot90`) -/
def rot {α : Type} (w : Int → Int → α) : Int → Int → α := fun dy dx => w dx (-dy)

/-- turning the window turns the Horn gradient: (Dx, Dy) ↦ (−Dy, Dx) -/
theorem horn_rot (z : Int → Int → K) : hornDx (rot z) = -hornDy z ∧ hornDy (rot z) = hornDx z := by
  constructor
  · simp only [hornDx, hornDy, rot, neg_neg, neg_zero]; ring
  · simp only [hornDx, hornDy, rot, neg_neg, neg_zero]

/-- slope turns with the raster (cell sizes swap with the axes; square cells are the case cx = cy) -/
theorem slopeDoc_rot (z : Int → Int → K) (cx cy : K) : slopeDoc (rot z) cy cx = slopeDoc z cx cy := by
  unfold slopeDoc
  rw [(horn_rot z).1, (horn_rot z).2]
  congr 2
  rw [neg_div, neg_mul_neg, add_comm]

/-- curvature turns with the raster -/
theorem curvatureDoc_rot (z : Int → Int → K) (cs : K) : curvatureDoc (rot z) cs = curvatureDoc z cs := by
  simp only [curvatureDoc, rot, neg_neg, neg_zero]
  congr 1; ring

/-- the laws of `atan2` the aspect statement needs; `real_atan2Laws` proves them for `Complex.arg` -/
structure Atan2Laws (K : Type) [Field K] [LinearOrder K] [IsStrictOrderedRing K] [Trig K] : Prop where
  pi_pos : 0 < (piK : K)
  range : ∀ y x : K, -piK < Trig.atan2 y x ∧ Trig.atan2 y x ≤ piK
  quarter : ∀ x y : K, (x ≠ 0 ∨ y ≠ 0) →
    Trig.atan2 x (-y) =
      if Trig.atan2 y x ≤ piK / 2 then Trig.atan2 y x + piK / 2 else Trig.atan2 y x - 3 * piK / 2

theorem real_atan2Laws : Atan2Laws ℝ where
  pi_pos := by rw [real_piK]; exact Real.pi_pos
  range := by intro y x; rw [real_piK]; exact RealTrig.atan2_range y x
  quarter := by intro x y h; rw [real_piK]; exact RealTrig.atan2_quarter_turn x y h

/-- a quarter turn counter-clockwise subtracts 90° from the compass direction (mod 360); −1 stays −1 -/
def shift (c : K) : K := if c < 0 then c else if 90 ≤ c then c - 90 else c + 270

theorem compass_quarter (A : K) (h1 : -180 < A) (h2 : A ≤ 180) :
    compass (if A ≤ 90 then A + 90 else A - 270) = shift (compass A) := by
  unfold compass shift
  split_ifs <;> linarith

/-- **quarter_turn** (aspect, documented formula) -/
theorem aspectDoc_rot (L : Atan2Laws K) (z : Int → Int → K) : aspectDoc (rot z) = shift (aspectDoc z) := by
  unfold aspectDoc
  rw [(horn_rot z).1, (horn_rot z).2]
  by_cases h0 : hornDx z = 0 ∧ hornDy z = 0
  · have h0' : -hornDy z = 0 ∧ hornDx z = 0 := ⟨by rw [h0.2]; simp, h0.1⟩
    rw [if_pos h0, if_pos h0']
    unfold shift; norm_num
  · have h0' : ¬ (-hornDy z = 0 ∧ hornDx z = 0) := by
      intro h; exact h0 ⟨h.2, by simpa using h.1⟩
    rw [if_neg h0, if_neg h0']
    have hpi := L.pi_pos
    set X : K := -(hornDx z / 8) with hX
    set Y : K := -hornDy z / 8 with hY
    have hXY : X ≠ 0 ∨ Y ≠ 0 := by
      by_contra hc
      simp only [not_or, not_not] at hc
      apply h0
      constructor
      · have := hc.1; rw [hX] at this
        have h8 : hornDx z / 8 = 0 := by linarith
        have : hornDx z = 0 := by
          rcases div_eq_zero_iff.1 h8 with h | h
          · exact h
          · norm_num at h
        exact this
      · have := hc.2; rw [hY] at this
        rcases div_eq_zero_iff.1 this with h | h
        · linarith
        · norm_num at h
    have e1 : -hornDx z / 8 = X := by rw [hX]; ring
    have e2 : -(-hornDy z / 8) = -Y := by rw [hY]
    rw [e1, e2, L.quarter X Y hXY]
    set a : K := Trig.atan2 Y X with ha
    obtain ⟨r1, r2⟩ := L.range Y X
    have hR : 0 < 180 / (piK : K) := div_pos (by norm_num) hpi
    have e : (piK : K) * (180 / piK) = 180 := by field_simp
    have e90 : (piK : K) / 2 * (180 / piK) = 90 := by field_simp; norm_num
    have hA1 : -180 < a * (180 / piK) := by
      have := mul_lt_mul_of_pos_right r1 hR
      rw [neg_mul, e] at this; exact this
    have hA2 : a * (180 / piK) ≤ 180 := by
      have := mul_le_mul_of_nonneg_right r2 hR.le
      rw [e] at this; exact this
    have hiff : a ≤ piK / 2 ↔ a * (180 / piK) ≤ 90 := by
      rw [← e90]
      exact (mul_le_mul_iff_of_pos_right hR).symm
    have hbridge : (if a ≤ piK / 2 then a + piK / 2 else a - 3 * piK / 2) * (180 / piK) =
        if a * (180 / piK) ≤ 90 then a * (180 / piK) + 90 else a * (180 / piK) - 270 := by
      by_cases hc : a ≤ piK / 2
      · rw [if_pos hc, if_pos (hiff.1 hc), add_mul, e90]
      · rw [if_neg hc, if_neg (fun h => hc (hiff.2 h)), sub_mul]
        have : 3 * (piK : K) / 2 * (180 / piK) = 270 := by field_simp; norm_num
        rw [this]
    rw [hbridge]
    exact compass_quarter _ hA1 hA2

theorem rot_eq_lift {α : Type} (w : Int → Int → Option α) :
    rot w = fun dy dx =>
      (w ((fun p : Int × Int => (p.2, -p.1)) (dy, dx)).1 ((fun p : Int × Int => (p.2, -p.1)) (dy, dx)).2).map id := by
  funext dy dx; simp [rot]

theorem rot_perm :
    (∀ p ∈ nbr8, (fun p : Int × Int => (p.2, -p.1)) p ∈ nbr8) ∧
    (∀ q ∈ nbr8, ∃ p ∈ nbr8, (fun p : Int × Int => (p.2, -p.1)) p = q) ∧
    (∀ p ∈ cross5, (fun p : Int × Int => (p.2, -p.1)) p ∈ cross5) ∧
    (∀ q ∈ cross5, ∃ p ∈ cross5, (fun p : Int × Int => (p.2, -p.1)) p = q) := by decide

/-- **quarter_turn**, cell level, every window: with square cells the slope of the turned window is the
    slope of the window -/
theorem slope_quarter_turn (w : Int → Int → NV K) (c : K) (hc : c ≠ 0) (pub : String → NV K) :
    slope_wiring.cell (some c) (some c) pub (rot w) = slope_wiring.cell (some c) (some c) pub w := by
  rw [rot_eq_lift]
  exact cell_lift slope_cpu nbr8 readsIn_facts.1 _ _ _ rot_perm.1 rot_perm.2.1 id id rfl
    (fun w p hp h => slope_nan_contained w (some c) (some c) pub p hp h)
    (fun z => by
      have h1 := slope_eq_documented (rot z) c c hc hc pub
      have h2 := slope_eq_documented z c c hc hc pub
      exact h1.trans ((congrArg some (slopeDoc_rot z c c)).trans h2.symm)) w

theorem curvature_quarter_turn (w : Int → Int → NV K) (c : K) (hc : c ≠ 0) (pub : String → NV K) :
    curvature_wiring.cell (some c) (some c) pub (rot w) = curvature_wiring.cell (some c) (some c) pub w := by
  have hcc : c + c ≠ 0 := by
    intro h; apply hc; linarith
  rw [rot_eq_lift]
  exact cell_lift curvature_cpu cross5 readsIn_facts.2.2.1 _ _ _ rot_perm.2.2.1 rot_perm.2.2.2 id id rfl
    (fun w p hp h => curvature_nan_contained w (some c) (some c) pub p hp h)
    (fun z => by
      have h1 := curvature_eq_documented (rot z) c c hcc pub
      have h2 := curvature_eq_documented z c c hcc pub
      exact h1.trans ((congrArg some (curvatureDoc_rot z _)).trans h2.symm)) w

/-- … and the aspect of the turned window is the aspect of the window minus 90° (mod 360), −1 and NaN
    unchanged -/
theorem aspect_quarter_turn (L : Atan2Laws K) (w : Int → Int → NV K) (rx ry : NV K) (pub : String → NV K) :
    aspect_wiring.cell rx ry pub (rot w) = (aspect_wiring.cell rx ry pub w).map shift := by
  have hpi : (piK : K) ≠ 0 := ne_of_gt L.pi_pos
  rw [rot_eq_lift]
  exact cell_lift aspect_cpu nbr8 readsIn_facts.2.1 _ _ _ rot_perm.1 rot_perm.2.1 id (Option.map shift) rfl
    (fun w p hp h => aspect_nan_contained w rx ry pub p hp h)
    (fun z => by
      have h1 := aspect_eq_documented (rot z) hpi rx ry pub
      have h2 := aspect_eq_documented z hpi rx ry pub
      refine h1.trans ?_
      rw [aspectDoc_rot L z]
      show _ = Option.map shift (aspect_wiring.cell rx ry pub (finW z))
      rw [h2]; rfl) w

/-- **quarter_turn**, raster level.  `get` is the raster (rows × cols); the turned raster (cols × rows) is
    `new[i, j] = get j (cols-1-i)` (`np.rot90`).  Slope and curvature of the turned raster are the turned
    slope / curvature rasters (square cells), every aspect cell is shifted by −90° mod 360. -/
theorem slope_run_quarter_turn (rows cols : Nat) (get : Int → Int → NV K) (c : K) (hc : c ≠ 0)
    (pub : String → NV K) (i j : Nat) (hi : i < cols) (hj : j < rows) :
    cellOf (slope_wiring.run cols rows (some c) (some c) pub (fun i j => get j ((cols : Int) - 1 - i))) i j =
      cellOf (slope_wiring.run rows cols (some c) (some c) pub get) j (cols - 1 - i) := by
  have := Kernel.run_quarter_turn slope_cpu 1 rfl rfl rfl rfl (slope_wiring.env (some c) (some c) pub)
    (fun _ => []) id rfl rows cols (fun _ i j => get i j)
    (fun y x => slope_quarter_turn (fun dy dx => get (y + dy) (x + dx)) c hc pub) i j hi hj
  exact this.trans (option_map_id _)

theorem curvature_run_quarter_turn (rows cols : Nat) (get : Int → Int → NV K) (c : K) (hc : c ≠ 0)
    (pub : String → NV K) (i j : Nat) (hi : i < cols) (hj : j < rows) :
    cellOf (curvature_wiring.run cols rows (some c) (some c) pub (fun i j => get j ((cols : Int) - 1 - i))) i j =
      cellOf (curvature_wiring.run rows cols (some c) (some c) pub get) j (cols - 1 - i) := by
  have := Kernel.run_quarter_turn curvature_cpu 1 rfl rfl rfl rfl (curvature_wiring.env (some c) (some c) pub)
    (fun _ => []) id rfl rows cols (fun _ i j => get i j)
    (fun y x => curvature_quarter_turn (fun dy dx => get (y + dy) (x + dx)) c hc pub) i j hi hj
  exact this.trans (option_map_id _)

theorem aspect_run_quarter_turn (L : Atan2Laws K) (rows cols : Nat) (get : Int → Int → NV K) (rx ry : NV K)
    (pub : String → NV K) (i j : Nat) (hi : i < cols) (hj : j < rows) :
    cellOf (aspect_wiring.run cols rows rx ry pub (fun i j => get j ((cols : Int) - 1 - i))) i j =
      (cellOf (aspect_wiring.run rows cols rx ry pub get) j (cols - 1 - i)).map (Option.map shift) :=
  Kernel.run_quarter_turn aspect_cpu 1 rfl rfl rfl rfl (aspect_wiring.env rx ry pub)
    (fun _ => []) (Option.map shift) rfl rows cols (fun _ i j => get i j)
    (fun y x => aspect_quarter_turn L (fun dy dx => get (y + dy) (x + dx)) rx ry pub) i j hi hj

/-- the real functions satisfy the laws: the aspect statement holds outright over ℝ -/
theorem aspect_run_quarter_turn_real (rows cols : Nat) (get : Int → Int → NV ℝ) (rx ry : NV ℝ)
    (pub : String → NV ℝ) (i j : Nat) (hi : i < cols) (hj : j < rows) :
    cellOf (aspect_wiring.run cols rows rx ry pub (fun i j => get j ((cols : Int) - 1 - i))) i j =
      (cellOf (aspect_wiring.run rows cols rx ry pub get) j (cols - 1 - i)).map (Option.map shift) :=
  aspect_run_quarter_turn real_atan2Laws rows cols get rx ry pub i j hi hj

end quarterTurn

/-! ## 7. non-vacuity: the hypotheses used above are satisfiable and the formulas take the documented values -/
section examples

example : slope_cpu ∈ kernels ∧ aspect_cpu ∈ kernels ∧ curvature_cpu ∈ kernels ∧ hillshade_cpu ∈ kernels := by
  simp [kernels_are]

/-- a dummy interpretation of the transcendental symbols over ℚ (only used to evaluate curvature) -/
local instance trigQ : Trig ℚ := ⟨id, id, fun a _ => a, id, id, id, id⟩

/-- the docstring example of `curvature`: a unit peak on cells of size 10 has curvature 4 at the peak
    and −1 beside it -/
example : curvature_wiring.cell (some (10 : ℚ)) (some 10) (fun _ => none)
    (finW fun dy dx => if dy = 0 ∧ dx = 0 then 1 else 0) = some 4 := by
  rw [curvature_eq_documented _ _ _ (by norm_num)]; simp [curvatureDoc]; norm_num
example : curvature_wiring.cell (some (10 : ℚ)) (some 10) (fun _ => none)
    (finW fun dy dx => if dy = 0 ∧ dx = 1 then 1 else 0) = some (-1) := by
  rw [curvature_eq_documented _ _ _ (by norm_num)]; simp [curvatureDoc]; norm_num

/-- a NaN beside the centre makes curvature NaN, a NaN at a corner does not -/
example : curvature_wiring.cell (some (1 : ℚ)) (some 1) (fun _ => none)
    (fun dy dx => if dy = 0 ∧ dx = 1 then none else some 0) = none :=
  curvature_nan_contained _ _ _ _ (0, 1) (by simp [cross5, cross4]) (by simp)
example : curvature_wiring.cell (some (1 : ℚ)) (some 1) (fun _ => none)
    (fun dy dx => if dy = 1 ∧ dx = 1 then none else some 0) = some 0 := by
  rw [curvature_cell_of_finite _ _ _ (by norm_num) _ (by simp [finiteOn, cross5, cross4])]
  simp [curvatureDoc, vals]

/-- the compass shift of a quarter turn -/
example : shift (45 : ℚ) = 315 ∧ shift (90 : ℚ) = 0 ∧ shift (270 : ℚ) = 180 ∧ shift (-1 : ℚ) = -1 := by
  unfold shift; norm_num

/-- the real interpretation satisfies every law assumed above -/
example : (piK : ℝ) ≠ 0 ∧ Trig.sqrt (0 : ℝ) = 0 ∧ Trig.atan (0 : ℝ) = 0 ∧ Atan2Laws ℝ :=
  ⟨real_piK_ne, RealTrig.sqrt_zero, RealTrig.atan_zero, real_atan2Laws⟩

/-- a plane falling towards the east (z = −dx) faces east: aspect 90 -/
example : aspectDoc (fun _ dx => -((dx : Int) : ℝ)) = 90 := by
  have h1 : hornDx (fun _ dx => -((dx : Int) : ℝ)) = -8 := by simp [hornDx]; norm_num
  have h2 : hornDy (fun _ dx => -((dx : Int) : ℝ)) = 0 := by simp [hornDy]
  have h3 : Trig.atan2 (0 : ℝ) 1 = 0 := by
    show Complex.arg ⟨1, 0⟩ = 0
    have : (⟨1, 0⟩ : ℂ) = 1 := rfl
    rw [this, Complex.arg_one]
  unfold aspectDoc
  rw [h1, h2]
  norm_num [h3, compass]

/-- a monotone rounding with `rnd (90 + 10⁻⁶) ≤ 90` exists (round down to multiples of 2⁻¹⁷, float32's
    grid at 90, is one; here the simplest witness) -/
example : ∃ rnd : ℝ → ℝ, Monotone rnd ∧ rnd (90 + 1 / 1000000) ≤ 90 :=
  ⟨fun x => min x 90, fun a b h => min_le_min_right 90 h, min_le_right _ _⟩

end examples

end XrsVerif.C08
