import XrsVerif.Proofs.KSimp
import XrsVerif.Model.Index
import XrsVerif.Gen.GraphKeys
import Mathlib.Tactic.Positivity
/-
  C13 -- Spectral indices equal their band formulas, NaN where undefined.

  Every statement is about `Gen.<f>_wiring.value pub`: the *generated* wiring of the public
  function `f` applied to the *generated* translation of its numba kernel, evaluated over
  `NV K` (NaN or an element of an arbitrary linearly ordered field `K`; ±inf is not represented).
  The right-hand sides are the published formulas (ARVI with the `+ blue` denominator and SAVI
  divided by `(1 + L)` are what the library documents and its QGIS fixtures pin).
  "in single precision": the theorems are over exact field arithmetic; float rounding is covered
  only by the correspondence run (harness/corr_C13.py), see DESIGN.md section 4.
-/
set_option linter.unusedSectionVars false
set_option linter.unusedVariables false
namespace XrsVerif.C13
open XrsVerif XrsVerif.Gen

variable {K : Type} [Field K] [LinearOrder K] [IsStrictOrderedRing K] [Trig K]

/-- the published normalised difference -/
def nd (a b : K) : NV K := if a + b = 0 then none else some ((a - b) / (a + b))

/-! ### each index equals its formula on finite bands; a zero denominator gives NaN (never ±inf) -/

theorem ndvi_eq_formula (nir red : K) :
    ndvi_wiring.value (pubOf [("nir_agg", some nir), ("red_agg", some red)]) = nd nir red := by
  ksimp [IndexWiring.value, ndvi_wiring, normalized_ratio_cpu, pubOf, nd]
  split <;> simp_all

theorem nbr_eq_formula (nir swir2 : K) :
    nbr_wiring.value (pubOf [("nir_agg", some nir), ("swir2_agg", some swir2)]) = nd nir swir2 := by
  ksimp [IndexWiring.value, nbr_wiring, normalized_ratio_cpu, pubOf, nd]
  split <;> simp_all

theorem nbr2_eq_formula (swir1 swir2 : K) :
    nbr2_wiring.value (pubOf [("swir1_agg", some swir1), ("swir2_agg", some swir2)]) = nd swir1 swir2 := by
  ksimp [IndexWiring.value, nbr2_wiring, normalized_ratio_cpu, pubOf, nd]
  split <;> simp_all

theorem ndmi_eq_formula (nir swir1 : K) :
    ndmi_wiring.value (pubOf [("nir_agg", some nir), ("swir1_agg", some swir1)]) = nd nir swir1 := by
  ksimp [IndexWiring.value, ndmi_wiring, normalized_ratio_cpu, pubOf, nd]
  split <;> simp_all

theorem arvi_eq_formula (nir red blue : K) :
    arvi_wiring.value (pubOf [("nir_agg", some nir), ("red_agg", some red), ("blue_agg", some blue)]) =
      if nir + 2 * red + blue = 0 then none else some ((nir - 2 * red + blue) / (nir + 2 * red + blue)) := by
  ksimp [IndexWiring.value, arvi_wiring, arvi_cpu, pubOf]
  split <;> simp_all

theorem evi_eq_formula (nir red blue c1 c2 L G : K) :
    evi_wiring.value (pubOf [("nir_agg", some nir), ("red_agg", some red), ("blue_agg", some blue),
        ("c1", some c1), ("c2", some c2), ("soil_factor", some L), ("gain", some G)]) =
      if nir + c1 * red - c2 * blue + L = 0 then none
      else some (G * ((nir - red) / (nir + c1 * red - c2 * blue + L))) := by
  ksimp [IndexWiring.value, evi_wiring, evi_cpu, pubOf]
  split <;> simp_all

theorem gci_eq_formula (nir green : K) :
    gci_wiring.value (pubOf [("nir_agg", some nir), ("green_agg", some green)]) =
      if green = 0 then none else some (nir / green - 1) := by
  ksimp [IndexWiring.value, gci_wiring, gci_cpu, pubOf]
  split <;> simp_all

theorem savi_eq_formula (nir red L : K) :
    savi_wiring.value (pubOf [("nir_agg", some nir), ("red_agg", some red), ("soil_factor", some L)]) =
      if (nir + red + L) * (1 + L) = 0 then none else some ((nir - red) / ((nir + red + L) * (1 + L))) := by
  ksimp [IndexWiring.value, savi_wiring, savi_cpu, pubOf]
  split <;> simp_all

theorem sipi_eq_formula (nir red blue : K) :
    sipi_wiring.value (pubOf [("nir_agg", some nir), ("red_agg", some red), ("blue_agg", some blue)]) =
      if nir - red = 0 then none else some ((nir - blue) / (nir - red)) := by
  ksimp [IndexWiring.value, sipi_wiring, sipi_cpu, pubOf]
  split <;> simp_all

theorem ebbi_eq_formula (red swir tir : K) :
    ebbi_wiring.value (pubOf [("red_agg", some red), ("swir_agg", some swir), ("tir_agg", some tir)]) =
      if 10 * Trig.sqrt (swir + tir) = 0 then none
      else some ((swir - red) / (10 * Trig.sqrt (swir + tir))) := by
  ksimp [IndexWiring.value, ebbi_wiring, ebbi_cpu, pubOf]
  split <;> simp_all

/-! ### NaN bands propagate -/

theorem ndvi_nan_left (red : NV K) :
    ndvi_wiring.value (pubOf [("nir_agg", (none : NV K)), ("red_agg", red)]) = none := by
  ksimp [IndexWiring.value, ndvi_wiring, normalized_ratio_cpu, pubOf]

theorem ndvi_nan_right (nir : NV K) :
    ndvi_wiring.value (pubOf [("nir_agg", nir), ("red_agg", (none : NV K))]) = none := by
  ksimp [IndexWiring.value, ndvi_wiring, normalized_ratio_cpu, pubOf]

theorem arvi_nan (nir red blue : NV K) (h : nir = none ∨ red = none ∨ blue = none) :
    arvi_wiring.value (pubOf [("nir_agg", nir), ("red_agg", red), ("blue_agg", blue)]) = none := by
  cases nir <;> cases red <;> cases blue <;> first | (ksimp [IndexWiring.value, arvi_wiring, arvi_cpu, pubOf]; done) | simp at h

theorem gci_nan (nir green : NV K) (h : nir = none ∨ green = none) :
    gci_wiring.value (pubOf [("nir_agg", nir), ("green_agg", green)]) = none := by
  cases nir <;> cases green <;> first | (ksimp [IndexWiring.value, gci_wiring, gci_cpu, pubOf]; done) | simp at h

theorem sipi_nan (nir red blue : NV K) (h : nir = none ∨ red = none ∨ blue = none) :
    sipi_wiring.value (pubOf [("nir_agg", nir), ("red_agg", red), ("blue_agg", blue)]) = none := by
  cases nir <;> cases red <;> cases blue <;> first | (ksimp [IndexWiring.value, sipi_wiring, sipi_cpu, pubOf]; done) | simp at h

theorem savi_nan (nir red : NV K) (L : K) (h : nir = none ∨ red = none) :
    savi_wiring.value (pubOf [("nir_agg", nir), ("red_agg", red), ("soil_factor", some L)]) = none := by
  cases nir <;> cases red <;> first | (ksimp [IndexWiring.value, savi_wiring, savi_cpu, pubOf]; done) | simp at h

theorem evi_nan (nir red blue : NV K) (c1 c2 L G : K) (h : nir = none ∨ red = none ∨ blue = none) :
    evi_wiring.value (pubOf [("nir_agg", nir), ("red_agg", red), ("blue_agg", blue),
        ("c1", some c1), ("c2", some c2), ("soil_factor", some L), ("gain", some G)]) = none := by
  cases nir <;> cases red <;> cases blue <;> first | (ksimp [IndexWiring.value, evi_wiring, evi_cpu, pubOf]; done) | simp at h

theorem ebbi_nan (red swir tir : NV K) (h : red = none ∨ swir = none ∨ tir = none) :
    ebbi_wiring.value (pubOf [("red_agg", red), ("swir_agg", swir), ("tir_agg", tir)]) = none := by
  cases red <;> cases swir <;> cases tir <;> first | (ksimp [IndexWiring.value, ebbi_wiring, ebbi_cpu, pubOf]; done) | simp at h

/-! ### laws of the normalised difference (NDVI, NBR, NBR2, NDMI all equal `nd`) -/

/-- non-negative bands give a value in [-1, 1] -/
theorem nd_in_unit_interval (a b v : K) (ha : 0 ≤ a) (hb : 0 ≤ b) (h : nd a b = some v) :
    -1 ≤ v ∧ v ≤ 1 := by
  unfold nd at h
  split at h
  · simp at h
  · rename_i hne
    have hpos : 0 < a + b := lt_of_le_of_ne (by linarith) (Ne.symm hne)
    simp only [Option.some.injEq] at h
    subst h
    constructor
    · rw [le_div_iff₀ hpos]; linarith
    · rw [div_le_iff₀ hpos]; linarith

/-- swapping the two bands changes the sign -/
theorem nd_antisymmetric (a b : K) : nd b a = (nd a b).map (fun v => -v) := by
  unfold nd
  by_cases h : a + b = 0
  · have h' : b + a = 0 := by rw [add_comm]; exact h
    simp [h, h']
  · have h' : b + a ≠ 0 := by rw [add_comm]; exact h
    simp only [h, h', if_false, Option.map_some, Option.some.injEq]
    rw [add_comm b a, ← neg_div]; congr 1; ring

/-- scaling both bands by the same non-zero factor changes nothing (powers of two are the
    float-exact instance the property names) -/
theorem nd_scale_invariant (a b t : K) (ht : t ≠ 0) : nd (t * a) (t * b) = nd a b := by
  unfold nd
  have e1 : t * a + t * b = t * (a + b) := by ring
  have e2 : t * a - t * b = t * (a - b) := by ring
  by_cases h : a + b = 0
  · simp [e1, h]
  · have : t * (a + b) ≠ 0 := mul_ne_zero ht h
    simp only [e1, e2, h, this, if_false, Option.some.injEq]
    rw [mul_div_mul_left _ _ ht]

theorem ndvi_in_unit_interval (nir red v : K) (h1 : 0 ≤ nir) (h2 : 0 ≤ red)
    (h : ndvi_wiring.value (pubOf [("nir_agg", some nir), ("red_agg", some red)]) = some v) :
    -1 ≤ v ∧ v ≤ 1 := nd_in_unit_interval nir red v h1 h2 (by rw [← ndvi_eq_formula]; exact h)

theorem ndvi_antisymmetric (nir red : K) :
    ndvi_wiring.value (pubOf [("nir_agg", some red), ("red_agg", some nir)]) =
      (ndvi_wiring.value (pubOf [("nir_agg", some nir), ("red_agg", some red)])).map (fun v => -v) := by
  rw [ndvi_eq_formula, ndvi_eq_formula]; exact nd_antisymmetric nir red

theorem ndvi_scale_invariant (nir red t : K) (ht : t ≠ 0) :
    ndvi_wiring.value (pubOf [("nir_agg", some (t * nir)), ("red_agg", some (t * red))]) =
      ndvi_wiring.value (pubOf [("nir_agg", some nir), ("red_agg", some red)]) := by
  rw [ndvi_eq_formula, ndvi_eq_formula]; exact nd_scale_invariant nir red t ht

/-! ### true_color: alpha is 0 exactly where red is NaN or <= nodata, 255 elsewhere (both backends) -/

theorem alpha_numpy (r : NV K) (nodata : K) :
    true_color_alpha_numpy.cell (envOf [("nodata", some nodata)]) (rd0 [("r", r)]) (fun _ => []) =
      match r with
      | none => some 0
      | some x => if x ≤ nodata then some 0 else some 255 := by
  cases r <;> ksimp [true_color_alpha_numpy]
  split <;> simp_all

theorem alpha_dask (r : NV K) (nodata : K) :
    true_color_alpha_dask.cell (envOf [("nodata", some nodata)]) (rd0 [("r", r)]) (fun _ => []) =
      match r with
      | none => some 0
      | some x => if x ≤ nodata then some 0 else some 255 := by
  cases r <;> ksimp [true_color_alpha_dask]
  split <;> simp_all

/-! ### parameter validation of evi / savi (translated from the `if …: raise` statements) -/

/-- evi rejects exactly soil_factor outside [-1, 1] or gain < 0 -/
theorem evi_rejects_iff (L G : K) :
    (evi_validate.cellFailed (envOf [("soil_factor", some L), ("gain", some G)])
        (fun _ _ _ => (none : NV K)) (fun _ => [])).isSome = true ↔ (1 < L ∨ L < -1 ∨ G < 0) := by
  by_cases h1 : 1 < L <;> by_cases h2 : L < -1 <;> by_cases h3 : G < 0 <;>
    ksimp [evi_validate, h1, h2, h3]

/-- savi rejects exactly soil_factor outside [-1, 1] -/
theorem savi_rejects_iff (L : K) :
    (savi_validate.cellFailed (envOf [("soil_factor", some L)])
        (fun _ _ _ => (none : NV K)) (fun _ => [])).isSome = true ↔ (L < -1 ∨ 1 < L) := by
  by_cases h1 : 1 < L <;> by_cases h2 : L < -1 <;>
    ksimp [savi_validate, h1, h2, not_le.mpr, le_of_not_gt]

/-- every band is cast to float32 before the kernel runs ("in single precision") -/
theorem bands_cast_f4 : allIndexWirings.all (fun w => w.casts.all (· == "f4") && w.casts.length == w.arrays.length) = true := by
  decide

/-! ### the dask wrappers map the *same* kernel with the same argument order (used by C01) -/
theorem dask_same_kernel : allIndexWirings.all (·.daskSameKernel) = true := by decide

/-! ### ... and leave the graph key of the mapped layer to dask

  On Dask-backed bands an index has a value only once its graph is evaluated, and the indices of a scene are evaluated
  together (one `dask.compute`, one Dataset, `ndvi - ndmi`): in ONE dictionary of tasks, where equal keys mean the same
  task.  NDVI / NDMI / NBR / NBR2 share one Dask function; what keeps their results apart is that the key of the
  mapped layer is dask's token of the kernel and of *both* bands.  No `map_blocks` of multispectral.py passes `name=`
  (the complete key) or forwards `**kwargs` -- decided on the generated sweep `Gen.allGraphKeyFacts`, which does see
  the shared backend.  (Model, theorem "together = alone" and the counter-example: Proofs/GraphKeys.lean, Props/C01
  section 6b `no_call_site_names_its_graph_key`, `joint_results_are_the_single_results`.) -/
theorem index_sites_leave_keys_to_dask :
    (((allGraphKeyFacts.filter fun s => s.module == "multispectral").all GraphKeyFact.keyFree) &&
      (allGraphKeyFacts.any fun s => s.site == "multispectral._run_normalized_ratio_dask" && s.kind == "map_blocks")) = true := by
  decide +kernel

/-! ### non-vacuity: concrete evaluations over ℚ -/
instance : Trig ℚ := ⟨id, id, fun a _ => a, id, id, id, id⟩
example : ndvi_wiring.value (pubOf [("nir_agg", some (3 : ℚ)), ("red_agg", some 1)]) = some (1 / 2) := by
  rw [ndvi_eq_formula]; simp [nd]; norm_num
example : ndvi_wiring.value (pubOf [("nir_agg", some (0 : ℚ)), ("red_agg", some 0)]) = none := by
  rw [ndvi_eq_formula]; simp [nd]
example : nd (3 : ℚ) 1 = some (1/2) ∧ (0 : ℚ) ≤ 3 ∧ (0 : ℚ) ≤ 1 := by simp [nd]; norm_num

end XrsVerif.C13
