import XrsVerif.Proofs.Local
import XrsVerif.Gen.LocalFacts
/-
  C17 -- Local operators are per-cell functions of the layers, NaN-absorbing.

  Model: `Model/Local.lean` (hand model of xrspatial/local.py with the lock-step iteration in
  index order, i.e. the code repaired by fixes/D11-…).  `V = Option Rat`, `none` = NaN; exact arithmetic
  (`std` is modelled by the population variance, the square root is taken by the harness).
  Tie: (1) `Gen/LocalFacts.lean`, regenerated from the source by harness/facts_local.py on every run: for every
  operator the `np.nditer` order and the frame around the per-cell code, the NaN test, the comparison of the
  frequency operators, the `+ 1` of the positions, the `- 1` / bound of rank, the numbering of combine, the
  `funcs` table -- the theorems of the first section require the canonical shapes and prove that their
  interpretation (`freqCellS`, `posCellS`, `rankCellS`, `combineS`) is the hand model; `nan_absorbs`, `freq_sum`,
  `lowest_first`, `highest_first`, `rank_is_sorted_nth`, `rank_beyond`, `combine_eq_spec` are stated for that
  interpretation of the *generated* shapes; (2) the correspondence run, harness/corr_C17.py, over memory
  layouts C / F / strided and the edge-value families.

  A "cell" is `cellAt layers i`: the tuple of the selected layers' values at flat row-major
  position `i`.  A tuple without NaN is `xs.map some` for its list of numbers `xs`
  (`eq_map_some_of_noNaN`).
-/
set_option linter.unusedVariables false
namespace XrsVerif.C17
open XrsVerif XrsVerif.Local

/-! ### the source has the shape the model assumes (facts generated from the `ast`, Gen/LocalFacts.lean) -/

/-- the frequency operators compare the reference with a layer value by `ref > item`, `ref == item`,
    `ref < item`: exact comparisons of the two numbers, never a call such as `np.isclose` -/
theorem local_ops_use_exact_comparisons :
    Gen.lesserShape.cmp = .gt ∧ Gen.equalShape.cmp = .eq ∧ Gen.greaterShape.cmp = .lt := by decide

/-- every operator writes NaN exactly under `np.isnan(comb).any()` (rank: or beyond the tuple) -/
theorem nan_tests_are_any : ∀ p ∈ Gen.localNanTests, p.2 = NanTest.anyNan := by decide
/-- in particular `combine`: not e.g. `np.isnan(sum(comb))`, which is also NaN for +inf next to -inf -/
theorem combine_nan_test_is_any : Gen.combineShape.nanTest = .anyNan := by decide
/-- all nine operators iterate the selected layers in lock-step in index order (`order='C'`, D11), build the
    cell tuples with `.item()`, and reshape by the column count -/
theorem iteration_is_index_order :
    Gen.localFrames.map (·.1) = ["cell_stats", "combine", "lesser_frequency", "equal_frequency", "greater_frequency",
      "lowest_position", "highest_position", "popularity", "rank"]
    ∧ ∀ p ∈ Gen.localFrames, p.2 = ⟨true, .c, true, true⟩ := by decide
/-- counters start at 0 and step by 1, positions are `index + 1` of the first min / max, rank indexes the sorted
    tuple at `ref - 1` and is NaN from `ref - 1 >= len`, combine numbers from 1 by 1 through the dictionary -/
theorem shapes_are_canonical :
    Gen.lesserShape = ⟨true, .anyNan, .gt, 0, 1, true⟩ ∧ Gen.equalShape = ⟨true, .anyNan, .eq, 0, 1, true⟩
    ∧ Gen.greaterShape = ⟨true, .anyNan, .lt, 0, 1, true⟩
    ∧ Gen.lowestShape = ⟨true, .anyNan, .min, 1⟩ ∧ Gen.highestShape = ⟨true, .anyNan, .max, 1⟩
    ∧ Gen.rankShape = ⟨true, .anyNan, -1, .ge, true⟩
    ∧ Gen.combineShape = ⟨true, .anyNan, 1, 1, true⟩
    ∧ Gen.popularityShape = ⟨true, .anyNan⟩
    ∧ Gen.statsShape = ⟨true, [("max", "max"), ("mean", "mean"), ("median", "median"), ("min", "min"), ("std", "std"), ("sum", "sum")], true⟩ := by
  decide

/-- every operator resolves its layers the same way: an explicit `data_vars` is only validated and then used as
    passed; the default is every variable of the dataset in order, and the operators with a reference layer take the
    reference variable out by comparing the names *by value* (`list.remove`, `!=`) -- never by object identity
    (`var is not ref_var`, true of an equal name that is another string object) -/
theorem selection_is_by_value :
    Gen.localSelects = [("cell_stats", ⟨true, false, true, true, .byValue⟩), ("combine", ⟨true, false, true, true, .byValue⟩),
      ("lesser_frequency", ⟨true, true, true, true, .byValue⟩), ("equal_frequency", ⟨true, true, true, true, .byValue⟩),
      ("greater_frequency", ⟨true, true, true, true, .byValue⟩), ("lowest_position", ⟨true, false, true, true, .byValue⟩),
      ("highest_position", ⟨true, false, true, true, .byValue⟩), ("popularity", ⟨true, true, true, true, .byValue⟩),
      ("rank", ⟨true, true, true, true, .byValue⟩)] := by decide

/-- "the data layers" of the property, for the selection found in the source of every operator: an explicit
    `data_vars` is taken as given (order and repetitions); left at its default it is every variable of the dataset in
    dataset order -- without the reference variable, whatever string object names it: the reference layer is never
    among the data layers, every other variable is, and the order is the dataset's -/
theorem selected_layers (names : List String) (hnd : names.Nodup) :
    ∀ p ∈ Gen.localSelects,
      (∀ ref dv, selectS p.2 names ref (some dv) = dv)
      ∧ selectS p.2 names none none = names
      ∧ ∀ r, selectS p.2 names (some r) none = names.filter (· != r)
          ∧ r ∉ selectS p.2 names (some r) none
          ∧ ∀ v ∈ names, v ≠ r → v ∈ selectS p.2 names (some r) none := by
  intro p hp
  rw [selection_is_by_value] at hp
  have hsel : ∀ r, names.erase r = names.filter (· != r) := fun r => hnd.erase_eq_filter r
  simp only [List.mem_cons, List.not_mem_nil, or_false] at hp
  rcases hp with rfl | rfl | rfl | rfl | rfl | rfl | rfl | rfl | rfl <;>
    refine ⟨fun _ _ => rfl, rfl, fun r => ⟨hsel r, hnd.not_mem_erase, fun v hv hne => ?_⟩⟩ <;>
    exact (hnd.mem_erase_iff).2 ⟨hne, hv⟩

/-- non-vacuity, and what the theorem excludes: by value the reference is taken out; a selection that compared the
    names by identity would keep it among the data layers -/
example : selectS ⟨true, true, true, true, .byValue⟩ ["a", "ref", "b"] (some "ref") none = ["a", "b"]
    ∧ selectS ⟨false, true, true, true, .other "var is not ref_var"⟩ ["a", "ref", "b"] (some "ref") none = ["a", "ref", "b"]
    ∧ selectS ⟨true, true, true, true, .byValue⟩ ["a", "ref", "b"] (some "ref") (some ["b", "b", "a"]) = ["b", "b", "a"] := by
  decide

/-- the interpretation of the shapes found in the source is the hand model -/
theorem generated_freq_is_model :
    freqCellS Gen.lesserShape = lesserCell ∧ freqCellS Gen.equalShape = equalCell ∧ freqCellS Gen.greaterShape = greaterCell := by
  have hgt : ∀ r : Rat, cmpS .gt r = fun x => decide (x < r) := fun r => by funext x; rfl
  have heq : ∀ r : Rat, cmpS .eq r = fun x => decide (r = x) := fun r => by funext x; rfl
  have hlt : ∀ r : Rat, cmpS .lt r = fun x => decide (r < x) := fun r => by funext x; rfl
  refine ⟨?_, ?_, ?_⟩ <;> funext ref c <;> cases ref <;>
    simp only [freqCellS, Gen.lesserShape, Gen.equalShape, Gen.greaterShape, nanS, hgt, heq, hlt, lesserCell, equalCell,
      greaterCell, freqCell, lesserCount, equalCount, greaterCount, Nat.zero_add, Nat.one_mul] <;> rfl

theorem generated_pos_is_model : posCellS Gen.lowestShape = lowestCell ∧ posCellS Gen.highestShape = highestCell := by
  refine ⟨?_, ?_⟩ <;> funext c <;>
    simp [posCellS, Gen.lowestShape, Gen.highestShape, nanS, selS, lowestCell, highestCell, lowestPos, highestPos]

theorem generated_rank_is_model : rankCellS Gen.rankShape = rankCellR := by
  funext ref c
  simp [rankCellS, Gen.rankShape, nanS, cmpIntS, rankCellR, Int.sub_eq_add_neg]

theorem generated_combine_is_model : combineS Gen.combineShape = combine := by
  have h : combineStepS Gen.combineShape = combineStep := by
    funext st c
    simp [combineStepS, Gen.combineShape, nanS, combineStep]
  funext n layers
  simp only [combineS, combine, combineRun, h]
  rfl

/-! ### per_cell: the output at a cell is a function of the layers at that cell only -/

/-- operators without reference layer: output cell `i` is `f` of the layer values at cell `i` -/
theorem per_cell (f : List V → V) (n : Nat) (layers : List (List V)) (i : Nat) (hi : i < n) :
    (mapCells f n layers)[i]? = some (f (cellAt layers i)) := by
  simp [mapCells, zipCells, hi]

/-- operators with a reference layer: output cell `i` is `f` of the reference value and the layer
    values at cell `i` -/
theorem per_cell_ref {ρ : Type} (f : ρ → List V → V) (ref : List ρ) (n : Nat) (layers : List (List V))
    (i : Nat) (hi : i < n) (hr : i < ref.length) :
    (mapCellsRef f ref n layers)[i]? = some (f ref[i] (cellAt layers i)) := by
  simp [mapCellsRef, zipCells, List.getElem?_zipWith, hi, hr]

/-- changing the layers anywhere else does not change the output at cell `i` -/
theorem per_cell_local (f : List V → V) (n : Nat) (layers layers' : List (List V)) (i : Nat)
    (h : cellAt layers i = cellAt layers' i) :
    (mapCells f n layers)[i]? = (mapCells f n layers')[i]? := by
  by_cases hi : i < n
  · rw [per_cell f n layers i hi, per_cell f n layers' i hi, h]
  · simp [mapCells, zipCells, hi]

theorem per_cell_ref_local {ρ : Type} (f : ρ → List V → V) (ref ref' : List ρ) (n : Nat)
    (layers layers' : List (List V)) (i : Nat)
    (h : cellAt layers i = cellAt layers' i) (hr : ref[i]? = ref'[i]?) :
    (mapCellsRef f ref n layers)[i]? = (mapCellsRef f ref' n layers')[i]? := by
  simp only [mapCellsRef, zipCells, List.getElem?_zipWith, List.getElem?_map, hr]
  by_cases hi : i < n <;> simp [hi, h]

/-- every value-producing operator is such a map (`rfl`: this is how the model is built); the
    theorem ties the public names to `per_cell` / `per_cell_ref` -/
theorem operators_are_maps (s : Stat) :
    cellStats s = mapCells (statCell s)
    ∧ lowestPosition = mapCells lowestCell ∧ highestPosition = mapCells highestCell
    ∧ lesserFrequency = mapCellsRef lesserCell ∧ equalFrequency = mapCellsRef equalCell
    ∧ greaterFrequency = mapCellsRef greaterCell :=
  ⟨rfl, rfl, rfl, rfl, rfl, rfl⟩

theorem collect_getElem {rs : List R} {out : List V} (h : collect rs = some out) (i : Nat) (hi : i < rs.length) :
    ∃ v, rs[i] = .ok v ∧ out[i]? = some v := by
  induction rs generalizing out i with
  | nil => simp at hi
  | cons r rs ih =>
    cases r with
    | indexError => simp [collect] at h
    | ok v =>
      simp only [collect, Option.map_eq_some_iff] at h
      obtain ⟨rest, hrest, rfl⟩ := h
      cases i with
      | zero => exact ⟨v, rfl, rfl⟩
      | succ i =>
        have := ih hrest i (by simpa using hi)
        simpa using this

/-- operators that may raise (`rank`, `popularity`): if the call returns, output cell `i` is the
    per-cell function of the reference value and the layer values at cell `i` -/
theorem per_cell_raising (f : Int → List V → R) (ref : List Int) (n : Nat) (layers : List (List V))
    (out : List V) (h : collect (List.zipWith f ref (zipCells n layers)) = some out)
    (i : Nat) (hi : i < n) (hr : i < ref.length) :
    ∃ v, f ref[i] (cellAt layers i) = .ok v ∧ out[i]? = some v := by
  have hl : i < (List.zipWith f ref (zipCells n layers)).length := by
    simp only [zipCells, List.length_zipWith, List.length_map, List.length_range]; omega
  obtain ⟨v, hv, ho⟩ := collect_getElem h i hl
  simp only [List.getElem_zipWith, zipCells, List.getElem_map, List.getElem_range] at hv
  exact ⟨v, hv, ho⟩

theorem per_cell_rank (ref : List Int) (n : Nat) (layers : List (List V)) (out : List V)
    (h : rank ref n layers = some out) (i : Nat) (hi : i < n) (hr : i < ref.length) :
    out[i]? = some (rankCell ref[i] (cellAt layers i)) := by
  obtain ⟨v, hv, ho⟩ := per_cell_raising rankCellR ref n layers out h i hi hr
  simp [ho, rankCell, hv]

theorem per_cell_popularity (ref : List Int) (n : Nat) (layers : List (List V)) (out : List V)
    (h : popularity ref n layers = some out) (i : Nat) (hi : i < n) (hr : i < ref.length) :
    ∃ v, popularityCellR ref[i] (cellAt layers i) = .ok v ∧ out[i]? = some v :=
  per_cell_raising popularityCellR ref n layers out h i hi hr

/-! ### nan_absorbs: a NaN in any data layer makes the cell NaN (and nothing else does) -/

theorem nan_absorbs (c : List V) (h : none ∈ c) :
    (∀ s, statCell s c = none)
    ∧ (∀ ref, freqCellS Gen.lesserShape ref c = none ∧ freqCellS Gen.equalShape ref c = none
          ∧ freqCellS Gen.greaterShape ref c = none)
    ∧ posCellS Gen.lowestShape c = none ∧ posCellS Gen.highestShape c = none
    ∧ (∀ ref, rankCellS Gen.rankShape ref c = .ok none ∧ popularityCellR ref c = .ok none)
    ∧ (∀ st, (combineStepS Gen.combineShape st c).out = st.out ++ [none]) := by
  rw [generated_freq_is_model.1, generated_freq_is_model.2.1, generated_freq_is_model.2.2, generated_pos_is_model.1,
    generated_pos_is_model.2, generated_rank_is_model]
  have hn : anyNaN c = true := anyNaN_iff_mem.mpr h
  simp [statCell, lesserCell, equalCell, greaterCell, freqCell, lowestCell, highestCell, rankCellR,
    popularityCellR, hn, combineStepS, Gen.combineShape, nanS]

/-- conversely, a tuple of numbers never gives NaN for the statistics, frequencies and positions -/
theorem no_spurious_nan (xs : List Rat) (s : Stat) (r : Rat) :
    (statCell s (xs.map some)).isSome ∧ (lesserCell (some r) (xs.map some)).isSome
    ∧ (equalCell (some r) (xs.map some)).isSome ∧ (greaterCell (some r) (xs.map some)).isSome
    ∧ (lowestCell (xs.map some)).isSome ∧ (highestCell (xs.map some)).isSome := by
  simp [statCell, lesserCell, equalCell, greaterCell, freqCell, lowestCell, highestCell]

/-! ### cell_stats: the chosen statistic across the layers -/

theorem stat_value (s : Stat) (xs : List Rat) : statCell s (xs.map some) = some (statOf s xs) := by
  simp [statCell]

/-- max / min are attained and bound every layer value; sum is the sum; mean·n = sum;
    variance·n = Σ (x − mean)² -/
theorem stat_spec (xs : List Rat) (hne : xs ≠ []) :
    (statOf .max xs ∈ xs ∧ ∀ x ∈ xs, x ≤ statOf .max xs)
    ∧ (statOf .min xs ∈ xs ∧ ∀ x ∈ xs, statOf .min xs ≤ x)
    ∧ statOf .sum xs = xs.sum
    ∧ statOf .mean xs * (xs.length : Rat) = xs.sum
    ∧ statOf .std xs * (xs.length : Rat) = (xs.map fun x => (x - statOf .mean xs) * (x - statOf .mean xs)).sum := by
  have hlen : (xs.length : Rat) ≠ 0 := by
    have h0 : xs.length ≠ 0 := by simpa using hne
    intro h'; apply h0; exact_mod_cast h'
  refine ⟨⟨maxOf_mem hne, fun x hx => le_maxOf hx⟩, ⟨minOf_mem hne, fun x hx => minOf_le hx⟩, rfl, ?_, ?_⟩
  · simp only [statOf, meanOf, sumOf]; exact Rat.div_mul_cancel hlen
  · simp only [statOf, varOf, meanOf, sumOf]; exact Rat.div_mul_cancel hlen

/-- the median is the middle of the sorted values (mean of the two middle ones for an even count),
    `sorted xs` being a non-decreasing permutation of `xs`; at least half of the values are `≤` it and
    at least half are `≥` it -/
theorem median_spec (xs : List Rat) (hne : xs ≠ []) :
    (sorted xs).Perm xs ∧ (sorted xs).Pairwise (· ≤ ·)
    ∧ xs.length ≤ 2 * xs.countP (fun x => decide (x ≤ statOf .median xs))
    ∧ xs.length ≤ 2 * xs.countP (fun x => decide (statOf .median xs ≤ x)) := by
  exact ⟨sorted_perm xs, sorted_pairwise xs, (median_counts xs hne).1, (median_counts xs hne).2⟩

/-! ### frequencies -/

/-- lesser + equal + greater = number of data layers (for a numeric reference and no NaN) -/
theorem freq_sum (r : Rat) (xs : List Rat) :
    ∃ a b g : Nat,
      freqCellS Gen.lesserShape (some r) (xs.map some) = some (a : Rat)
      ∧ freqCellS Gen.equalShape (some r) (xs.map some) = some (b : Rat)
      ∧ freqCellS Gen.greaterShape (some r) (xs.map some) = some (g : Rat)
      ∧ a = xs.countP (fun x => decide (x < r)) ∧ b = xs.countP (fun x => decide (x = r))
      ∧ g = xs.countP (fun x => decide (r < x))
      ∧ a + b + g = xs.length := by
  rw [generated_freq_is_model.1, generated_freq_is_model.2.1, generated_freq_is_model.2.2]
  refine ⟨lesserCount r xs, equalCount r xs, greaterCount r xs, ?_, ?_, ?_, rfl, ?_, rfl, ?_⟩
  · simp [lesserCell, freqCell]
  · simp [equalCell, freqCell]
  · simp [greaterCell, freqCell]
  · simp only [equalCount]; congr 1; funext x; simp [eq_comm]
  · simp only [lesserCount, equalCount, greaterCount]
    induction xs with
    | nil => simp
    | cons x t ih =>
      simp only [List.countP_cons, List.length_cons]
      rcases Std.lt_trichotomy x r with h | h | h
      · have h2 : ¬ r = x := by grind
        have h3 : ¬ r < x := by grind
        simp [h, h2, h3]; omega
      · subst h; simp [Rat.lt_irrefl]; omega
      · have h2 : ¬ r = x := by grind
        have h3 : ¬ x < r := by grind
        simp [h, h2, h3]; omega

/-! ### positions: 1-based index of the FIRST minimum / maximum -/

theorem lowest_first (xs : List Rat) (hne : xs ≠ []) :
    posCellS Gen.lowestShape (xs.map some) = some ((lowestPos xs : Nat) : Rat)
    ∧ ∃ (h1 : 1 ≤ lowestPos xs) (h2 : lowestPos xs - 1 < xs.length),
        (∀ x ∈ xs, xs[lowestPos xs - 1] ≤ x)
        ∧ ∀ j (hj : j < lowestPos xs - 1), xs[lowestPos xs - 1] < xs[j] := by
  rw [generated_pos_is_model.1]
  refine ⟨by simp [lowestCell], ?_⟩
  obtain ⟨h, he, hfirst⟩ := idxOf_first (minOf_mem hne)
  have hp : lowestPos xs - 1 = xs.idxOf (minOf xs) := by simp [lowestPos]
  refine ⟨by simp [lowestPos], by rw [hp]; exact h, ?_, ?_⟩
  · intro x hx; simp only [hp, he]; exact minOf_le hx
  · intro j hj
    simp only [hp] at hj ⊢
    have h1 := hfirst j hj
    have h2 : minOf xs ≤ xs[j] := minOf_le (List.getElem_mem _)
    rw [he]; grind

theorem highest_first (xs : List Rat) (hne : xs ≠ []) :
    posCellS Gen.highestShape (xs.map some) = some ((highestPos xs : Nat) : Rat)
    ∧ ∃ (h1 : 1 ≤ highestPos xs) (h2 : highestPos xs - 1 < xs.length),
        (∀ x ∈ xs, x ≤ xs[highestPos xs - 1])
        ∧ ∀ j (hj : j < highestPos xs - 1), xs[j] < xs[highestPos xs - 1] := by
  rw [generated_pos_is_model.2]
  refine ⟨by simp [highestCell], ?_⟩
  obtain ⟨h, he, hfirst⟩ := idxOf_first (maxOf_mem hne)
  have hp : highestPos xs - 1 = xs.idxOf (maxOf xs) := by simp [highestPos]
  refine ⟨by simp [highestPos], by rw [hp]; exact h, ?_, ?_⟩
  · intro x hx; simp only [hp, he]; exact le_maxOf hx
  · intro j hj
    simp only [hp] at hj ⊢
    have h1 := hfirst j hj
    have h2 : xs[j] ≤ maxOf xs := le_maxOf (List.getElem_mem _)
    rw [he]; grind

/-! ### rank: the ref-th smallest layer value -/

/-- for `1 ≤ ref ≤ n` the result is the element at index `ref-1` of the sorted tuple, which is
    the unique layer value `v` with fewer than `ref` values strictly below it and at least `ref`
    values at or below it (the ref-th smallest, ties counted) -/
theorem rank_is_sorted_nth (xs : List Rat) (ref : Int) (h1 : 1 ≤ ref) (h2 : ref ≤ xs.length) :
    ∃ v, rankCellS Gen.rankShape ref (xs.map some) = .ok (some v)
      ∧ (sorted xs)[(ref - 1).toNat]? = some v
      ∧ v ∈ xs
      ∧ xs.countP (fun x => decide (x < v)) < ref.toNat
      ∧ ref.toNat ≤ xs.countP (fun x => decide (x ≤ v))
      ∧ ∀ w, xs.countP (fun x => decide (x < w)) < ref.toNat →
             ref.toNat ≤ xs.countP (fun x => decide (x ≤ w)) → w = v := by
  rw [generated_rank_is_model]
  have hk : (ref - 1).toNat < (sorted xs).length := by rw [sorted_length]; omega
  refine ⟨(sorted xs)[(ref - 1).toNat], ?_, by simp, ?_, ?_, ?_, ?_⟩
  · have : ¬ ((xs.length : Int) ≤ ref - 1) := by omega
    have h0 : (0 : Int) ≤ ref - 1 := by omega
    simp only [rankCellR, anyNaN_map_some, List.length_map, this, decide_false, Bool.or_self,
      Bool.false_eq_true, ite_false, vals_map_some, pyIndex, h0, ite_true, List.getElem?_eq_getElem hk]
  · exact (sorted_perm xs).mem_iff.mp (List.getElem_mem hk)
  · have := (pairwise_nth_counts (sorted_pairwise xs) hk).1
    rw [(sorted_perm xs).countP_eq] at this; omega
  · have := (pairwise_nth_counts (sorted_pairwise xs) hk).2
    rw [(sorted_perm xs).countP_eq] at this; omega
  · intro w hw1 hw2
    have a1 := (pairwise_nth_counts (sorted_pairwise xs) hk).1
    have a2 := (pairwise_nth_counts (sorted_pairwise xs) hk).2
    rw [(sorted_perm xs).countP_eq] at a1 a2
    exact order_stat_unique hw1 hw2 (by omega) (by omega)

/-- a reference beyond the number of layers gives NaN -/
theorem rank_beyond (xs : List Rat) (ref : Int) (h : (xs.length : Int) < ref) :
    rankCellS Gen.rankShape ref (xs.map some) = .ok none := by
  rw [generated_rank_is_model]
  have : (xs.length : Int) ≤ ref - 1 := by omega
  simp [rankCellR, this]

/-! ### combine -/

/-- the loop with its dictionary equals the declarative description: with `D` the distinct
    NaN-free tuples in order of first occurrence (row-major scan), a cell's id is 1 + the position of
    its tuple in `D` (NaN for a tuple with a NaN) and `attrs['key']` is `D` numbered from 1 -/
theorem combine_eq_spec (n : Nat) (layers : List (List V)) :
    combineS Gen.combineShape n layers =
      ((zipCells n layers).map (specId (dedup (tuples (zipCells n layers)))),
       ((dedup (tuples (zipCells n layers))).zipIdx 1).map fun p => (p.2, p.1)) := by
  rw [generated_combine_is_model]
  have h := combine_fold (zipCells n layers) ⟨[], 1, []⟩ [] rfl rfl
  have hf : (dedup (tuples (zipCells n layers))).filter (fun t => decide (t ∉ ([] : List (List Rat))))
      = dedup (tuples (zipCells n layers)) := List.filter_eq_self.mpr (by simp)
  simp only [List.nil_append, hf] at h
  simp only [combine, combineRun, h.1, h.2.2]

/-- ids and key of `combine` on an arbitrary scan-ordered list of cells -/
def idsOf (cells : List (List V)) : List (Option Nat) := cells.map (specId (dedup (tuples cells)))

theorem mem_tuples {cells : List (List V)} {c : List V} (hc : c ∈ cells) (hn : none ∉ c) :
    vals c ∈ tuples cells := by
  have : anyNaN c = false := by
    cases h : anyNaN c with
    | false => rfl
    | true => exact absurd (anyNaN_iff_mem.mp h) hn
  exact List.mem_map.mpr ⟨c, List.mem_filter.mpr ⟨hc, by simp [this]⟩, rfl⟩

/-- NaN exactly for the cells that hold a NaN -/
theorem combine_nan_iff (cells : List (List V)) (c : List V) :
    specId (dedup (tuples cells)) c = none ↔ none ∈ c := by
  rw [← anyNaN_iff_mem]; simp [specId]

/-- two NaN-free cells get the same id exactly when their value tuples are equal -/
theorem combine_eq_iff (cells : List (List V)) (a b : List V) (ha : a ∈ cells) (hb : b ∈ cells)
    (hna : none ∉ a) (hnb : none ∉ b) :
    specId (dedup (tuples cells)) a = specId (dedup (tuples cells)) b ↔ a = b := by
  have hna' : anyNaN a = false := by
    cases h : anyNaN a with | false => rfl | true => exact absurd (anyNaN_iff_mem.mp h) hna
  have hnb' : anyNaN b = false := by
    cases h : anyNaN b with | false => rfl | true => exact absurd (anyNaN_iff_mem.mp h) hnb
  constructor
  · intro h
    simp only [specId, hna', hnb', Bool.false_eq_true, ite_false, Option.some.injEq,
      Nat.add_right_cancel_iff] at h
    have := idxOf_inj_of_mem (mem_dedup.mpr (mem_tuples ha hna)) h
    rw [eq_map_some_of_noNaN hna', eq_map_some_of_noNaN hnb', this]
  · intro h; rw [h]

/-- ids are numbered from 1 in first-occurrence order: the key lists ids 1,2,…,k against pairwise
    distinct tuples; a cell's id is 1 + the number of distinct tuples first seen before its own
    tuple's first occurrence; hence the id order is the first-occurrence order -/
theorem combine_first_occurrence (cells : List (List V)) :
    let T := tuples cells
    let D := dedup T
    let key := (D.zipIdx 1).map fun p => (p.2, p.1)
    key.map (·.1) = List.range' 1 D.length
    ∧ (key.map (·.2)).Nodup
    ∧ (∀ t, t ∈ key.map (·.2) ↔ t ∈ T)
    ∧ (∀ c ∈ cells, none ∉ c →
        specId D c = some ((dedup (T.take (T.idxOf (vals c)))).length + 1))
    ∧ (∀ a ∈ cells, ∀ b ∈ cells, none ∉ a → none ∉ b →
        ∃ ia ib, specId D a = some ia ∧ specId D b = some ib
          ∧ (ia < ib ↔ T.idxOf (vals a) < T.idxOf (vals b))) := by
  intro T D key
  have hk1 : key.map (·.1) = List.range' 1 D.length := by
    simp only [key, List.map_map]
    have : ((fun x : Nat × List Rat => x.1) ∘ fun p : List Rat × Nat => (p.2, p.1)) = fun p => p.2 := rfl
    rw [this]; simp [List.zipIdx_map_snd]
  have hk2 : key.map (·.2) = D := by
    simp only [key, List.map_map]
    have : ((fun x : Nat × List Rat => x.2) ∘ fun p : List Rat × Nat => (p.2, p.1)) = fun p => p.1 := rfl
    rw [this]; simp [List.zipIdx_map_fst]
  have nn : ∀ c : List V, none ∉ c → anyNaN c = false := by
    intro c hc
    cases h : anyNaN c with | false => rfl | true => exact absurd (anyNaN_iff_mem.mp h) hc
  refine ⟨hk1, by rw [hk2]; exact nodup_dedup T, by intro t; rw [hk2]; exact mem_dedup, ?_, ?_⟩
  · intro c hc hn
    simp only [specId, nn c hn, Bool.false_eq_true, ite_false, Option.some.injEq, Nat.add_right_cancel_iff]
    exact idxOf_dedup (mem_tuples hc hn)
  · intro a ha b hb hna hnb
    refine ⟨D.idxOf (vals a) + 1, D.idxOf (vals b) + 1, by simp [specId, nn a hna], by simp [specId, nn b hnb], ?_⟩
    rw [Nat.add_lt_add_iff_right]
    exact idxOf_dedup_lt_iff (mem_tuples ha hna) (mem_tuples hb hnb)

/-- `attrs['key']` is the inverse map: looking up a cell's id gives back the cell's tuple -/
theorem combine_key_inverse (cells : List (List V)) (c : List V) (hc : c ∈ cells) (hn : none ∉ c) :
    ∃ id, specId (dedup (tuples cells)) c = some id
      ∧ (((dedup (tuples cells)).zipIdx 1).map fun p => (p.2, p.1)).lookup id = some (vals c) := by
  have hnan : anyNaN c = false := by
    cases h : anyNaN c with | false => rfl | true => exact absurd (anyNaN_iff_mem.mp h) hn
  refine ⟨(dedup (tuples cells)).idxOf (vals c) + 1, by simp [specId, hnan], ?_⟩
  rw [lookup_swap_zipIdx]
  have hm := mem_dedup.mpr (mem_tuples hc hn)
  have hk : (dedup (tuples cells)).idxOf (vals c) < (dedup (tuples cells)).length :=
    List.idxOf_lt_length_iff.mpr hm
  simp [hk, List.getElem_idxOf hk]

/-! ### non-vacuity -/

/-- three layers on a 1×2 raster -/
def exLayers : List (List V) := [[some 3, some 1], [some 1, none], [some 1, some 1]]

example : cellStats .max 2 exLayers = [some 3, none] := by decide
example : (zipCells 2 exLayers).map (freqCellS Gen.equalShape (some 1)) = [some 2, none] := by decide
example : combineS Gen.combineShape 3 [[some 1, some 2, some 1], [some 7, none, some 7]]
    = ([some 1, none, some 1], [(1, [1, 7])]) := by decide
example : lowestPosition 2 exLayers = [some 2, none] := by decide
example : lesserFrequency [some 2, some 2] 2 exLayers = [some 2, none] := by decide
example : rank [2, 1] 2 [[some 3, some 5], [some 1, some 4], [some 2, some 6]] = some [some 2, some 4] := by decide
example : combine 3 [[some 1, some 2, some 1], [some 7, none, some 7]] = ([some 1, none, some 1], [(1, [1, 7])]) := by
  decide

end XrsVerif.C17
