import XrsVerif.Proofs.Regions
import XrsVerif.Proofs.ILRegionsProps
import XrsVerif.Gen.RegionsFacts
/-
  C16 -- regions labels are exactly the connected components of equal value.

  Model: `Regions.regions rows cols n8 m data` (Model/Regions.lean) = `_area_connectivity(data, n)`:
  pass 1 (first labelled matching window cell, else fresh uid), pass 2 (captured window labels merged
  pairwise towards the minimum with a whole-raster relabel; the captured values go stale), clamped
  windows (a border cell sees itself).  `data p = none` is NaN; `m c a` is the code's closeness test
  with the centre `c` as reference.  All statements are for every raster size, every data, both
  neighbourhoods.

  * `complete`, `complete_connected`   (needs `m` symmetric)  adjacent matching cells, hence cells
    joined by any chain of adjacent matching cells, end with the same label;
  * `sound`                            (no hypothesis on `m`) equal labels of two non-NaN cells are
    always witnessed by such a chain;
  * `components_iff`                   both directions together;
  * `regions_iff_value_path`           for exact-equality matching (integer-valued rasters, as the
    property says): same label  <->  a path of 4- or 8-adjacent raster cells all holding the same value;
  * `labels_positive`, `nan_stays_nan`, `nan_iff`;
  * `windows_from_source`, `closeness_from_source`, `meta_preserved`: the window offsets / clamping,
    the closeness test, and the wrapper's DataArray arguments regenerated from /repo's source are the
    ones the model uses.

  * layer T3 (`generated_*`): the same clauses for the program `Gen.IL.areaConnectivity` that the translator
    `harness/facts_il.py` regenerates statement by statement from `zonal._area_connectivity` on every run:
    `generated_refines` (Proofs/ILRegions*.lean) proves, for every raster size, every data, `n = 4` and `n = 8`, that
    the program ends with `return`, never leaves an array, and returns
    `[data[c] if NaN else lab (label of c) for c in raster order]` with the labels of `regions … closeF (dataOf …)`,
    `closeF` = the source's `|a - val| <= 1e-08 + 1e-05*|val|` read off the `Fl` operations.  Hypothesis:
    `LabelLaws F` -- labels `1, 2, …` stored as numbers compare like naturals, NaN `==` nothing, a NaN window value is
    never close (true for exact arithmetic with NaN: `labelLaws_NV`; IEEE doubles below 2^53).
    `generated_sound`, `generated_components_iff` (symmetric `closeF`), `generated_value_path` (closeness = equality
    on the raster's values; `closeF_int`: that is the case for integer values below 5·10⁴), `generated_labels_positive`,
    `generated_nan`.

  Gap (stated, not hidden): the code's float `isclose` is neither symmetric nor transitive in general
  (reference = centre; +-inf centres match every finite neighbour).  `sound` does not need either;
  `complete` needs symmetry; "all cells on the path hold the same value" needs equality matching.
  For integer rasters with |value| < 10^5 / 2 the closeness test *is* equality; that the model's
  `m` agrees with numba's evaluation of the test is checked by the correspondence run only.
-/
set_option linter.unusedVariables false
namespace XrsVerif.C16
open XrsVerif XrsVerif.Regions

variable {V : Type}

/-- match-adjacent cells end with the same label -/
theorem complete {rows cols : Nat} {n8 : Bool} {m : V → V → Bool} {data : Cell → Option V}
    (hsym : ∀ a b, m a b = m b a) {p q : Cell} (h : Step rows cols n8 m data p q) :
    regions rows cols n8 m data p = regions rows cols n8 m data q := by
  obtain ⟨hp, hq, hadj, v, w, hv, hw, hm⟩ := h
  have := complete_g (m := m) (data := data) (gridCells_nodup rows cols) (gridNbrs_closed rows cols n8)
    hp hq hv hw (mem_gridNbrs_of_adj hp hq hadj) (mem_gridNbrs_of_adj hq hp hadj.symm) hm
    (by rw [hsym]; exact hm)
  simp [regions, result, hv, hw, this]

/-- cells joined by a chain of adjacent matching cells end with the same label -/
theorem complete_connected {rows cols : Nat} {n8 : Bool} {m : V → V → Bool} {data : Cell → Option V}
    (hsym : ∀ a b, m a b = m b a) {p q : Cell} (h : Connected rows cols n8 m data p q) :
    regions rows cols n8 m data p = regions rows cols n8 m data q := by
  induction h with
  | step h => exact complete hsym h
  | refl p _ => rfl
  | symm _ ih => exact ih.symm
  | trans _ _ ih1 ih2 => exact ih1.trans ih2

/-- two non-NaN cells with the same label are joined by a chain of adjacent matching cells -/
theorem sound {rows cols : Nat} {n8 : Bool} {m : V → V → Bool} {data : Cell → Option V}
    {p q : Cell} (hp : p ∈ gridCells rows cols) (hne : regions rows cols n8 m data p ≠ none)
    (h : regions rows cols n8 m data p = regions rows cols n8 m data q) :
    Connected rows cols n8 m data p q := by
  simp only [regions, result] at h hne
  cases hdp : data p with
  | none => simp [hdp] at hne
  | some v =>
    cases hdq : data q with
    | none => simp [hdp, hdq] at h
    | some w =>
      simp only [hdp, hdq, Option.some.injEq] at h
      exact connected_of_conn
        (sound_g (gridCells_nodup rows cols) (gridNbrs_closed rows cols n8) hp (by simp [hdp]) h) hp

/-- same label <-> joined by a chain of adjacent matching cells (non-NaN cells of the raster) -/
theorem components_iff {rows cols : Nat} {n8 : Bool} {m : V → V → Bool} {data : Cell → Option V}
    (hsym : ∀ a b, m a b = m b a) {p q : Cell} (hp : p ∈ gridCells rows cols)
    (hdp : data p ≠ none) :
    regions rows cols n8 m data p = regions rows cols n8 m data q ↔ Connected rows cols n8 m data p q := by
  constructor
  · intro h
    refine sound hp ?_ h
    cases hd : data p with
    | none => exact absurd hd hdp
    | some v => simp [regions, result, hd]
  · exact complete_connected hsym

/-- integer-valued rasters (closeness = equality): two cells get the same label exactly when they are
    joined by a path of 4- (8-) adjacent cells of the raster that all hold the same value -/
theorem regions_iff_value_path [DecidableEq V] {rows cols : Nat} {n8 : Bool} {data : Cell → Option V}
    {p q : Cell} {v : V} (hp : p ∈ gridCells rows cols) (hv : data p = some v) :
    regions rows cols n8 (fun a b => decide (a = b)) data p
        = regions rows cols n8 (fun a b => decide (a = b)) data q
      ↔ ValuePath rows cols n8 data v p q := by
  rw [components_iff (by intro a b; simp [eq_comm]) hp (by simp [hv])]
  constructor
  · intro h; exact (valuePath_of_connected h v (Or.inl hv)).1
  · intro h; exact connected_of_valuePath h hp

/-- labels are positive -/
theorem labels_positive {rows cols : Nat} {n8 : Bool} {m : V → V → Bool} {data : Cell → Option V}
    {p : Cell} {k : Nat} (hp : p ∈ gridCells rows cols) (h : regions rows cols n8 m data p = some k) :
    0 < k := by
  simp only [regions, result] at h
  cases hdp : data p with
  | none => simp [hdp] at h
  | some v =>
    simp only [hdp, Option.some.injEq] at h
    rw [← h]
    exact positive_g (gridCells_nodup rows cols) (gridNbrs_closed rows cols n8) hp (by simp [hdp])

/-- NaN cells stay NaN -/
theorem nan_stays_nan {rows cols : Nat} {n8 : Bool} {m : V → V → Bool} {data : Cell → Option V}
    {p : Cell} (h : data p = none) : regions rows cols n8 m data p = none := by
  simp [regions, result, h]

/-- ... and only NaN cells are NaN -/
theorem nan_iff {rows cols : Nat} {n8 : Bool} {m : V → V → Bool} {data : Cell → Option V} {p : Cell} :
    regions rows cols n8 m data p = none ↔ data p = none := by
  simp only [regions, result]
  cases data p <;> simp

/-! ### what is regenerated from the source -/

/-- both passes read `data` and `out` through the model's clamped windows, in the model's order -/
theorem windows_from_source :
    Gen.regionsWindows8.map (·.2) = [window8, window8, window8, window8] ∧
    Gen.regionsWindows4.map (·.2) = [window4, window4, window4, window4] := by
  decide

/-- the closeness test has the centre value as reference, `<=`, and the numpy default tolerances; a NaN centre
    cell is skipped in both passes (pass 1 copies it to the output); pass 1 treats a window cell as labelled
    iff its label is `> 0`; uids start at 1.
    The generated strings are *normal forms* (harness/facts_regions.py): local names are resolved to what they
    evidently hold (`val` is `data[y, x]`, `rtol` / `atol` are their literals wherever they are defined),
    the remaining locals carry role names, `a >= b` is written `b <= a`, operands of `+` and `*` are sorted. -/
theorem closeness_from_source :
    Gen.regionsIsClose = ["abs(src_window - data[y, x]) <= 1e-05 * abs(data[y, x]) + 1e-08",
                          "abs(src_window - data[y, x]) <= 1e-05 * abs(data[y, x]) + 1e-08"] ∧
    Gen.regionsNanGuard = ["isnan(data[y, x]) -> out[y, x] = data[y, x]; continue",
                           "isnan(data[y, x]) -> continue"] ∧
    Gen.regionsLabelledTest = ["0 < len(matches)", "0 < area_window[matches[j]]"] ∧ Gen.regionsUid0 = "1" := by
  decide

/-- shape, dims, coordinates and attributes of the result are those of the input: the wrapper only
    validates `neighborhood`, runs the kernel on `raster.data` (converted to int64 when its integer dtype
    cannot count the cells, fix D24), and wraps the kernel's output (keywords in sorted order) -/
theorem meta_preserved :
    Gen.regionsGuard = "neighborhood not in (4, 8)" ∧
    Gen.regionsKernelData = "raster.data" ∧
    Gen.regionsWiden = ["data.dtype.kind in 'iu' and data.dtype.itemsize < 8 -> data = data.astype(np.int64)"] ∧
    Gen.regionsKernelArgs = "n=neighborhood" ∧
    Gen.regionsReturn = [("data", "out"), ("attrs", "raster.attrs"), ("coords", "raster.coords"),
                         ("dims", "raster.dims"), ("name", "name")] := by
  decide

/-! ### the generated program (layer T3) -/

section generated
open XrsVerif.IL XrsVerif.IL.Rg
variable {F : Type} [Fl F]

/-- the program generated from `_area_connectivity` ends with `return`, keeps `data`, and returns the raster of the
    hand model: the input value at NaN cells, the number `lab k` of the model's label `k` elsewhere -/
theorem generated_refines (laws : LabelLaws F) (s : State F) (fuel rows cols n : Nat) (hs : s.ctl = .run)
    (hshp : s.shp "data" = [rows, cols]) (hnv : s.ienv "n" = (n : Int)) (hn : n = 4 ∨ n = 8) :
    let r := Gen.IL.areaConnectivity.run s fuel
    r.ctl = .ret ∧ r.shp "out" = [rows, cols] ∧ r.fa "data" = s.fa "data" ∧
      r.fa "out" = (gridCells rows cols).map fun c =>
        match regions rows cols (decide (n = 8)) closeF (dataOf cols (s.fa "data")) c with
        | none => at_ cols (s.fa "data") c
        | some k => lab k := by
  intro r
  obtain ⟨h1, h2, h3, h4⟩ := areaConnectivity_refines laws s fuel rows cols n hs hshp hnv hn
  refine ⟨h1, h2, h3, ?_⟩
  rw [h4]; rfl

/-- generated program: two non-NaN cells that hold the same label are joined by a chain of adjacent matching cells -/
theorem generated_sound (laws : LabelLaws F) (s : State F) (fuel rows cols n : Nat) (hs : s.ctl = .run)
    (hshp : s.shp "data" = [rows, cols]) (hnv : s.ienv "n" = (n : Int)) (hn : n = 4 ∨ n = 8)
    {p q : Cell} (hp : p ∈ gridCells rows cols) (hq : q ∈ gridCells rows cols)
    (hpn : Fl.isnan (at_ cols (s.fa "data") p) = false) (hqn : Fl.isnan (at_ cols (s.fa "data") q) = false)
    (h : at_ cols ((Gen.IL.areaConnectivity.run s fuel).fa "out") p =
         at_ cols ((Gen.IL.areaConnectivity.run s fuel).fa "out") q) :
    Connected rows cols (decide (n = 8)) closeF (dataOf cols (s.fa "data")) p q := by
  obtain ⟨_, _, _, ho⟩ := areaConnectivity_refines laws s fuel rows cols n hs hshp hnv hn
  rw [ho] at h
  obtain ⟨hp1, hp2⟩ := mem_gridCells.mp hp
  obtain ⟨hq1, hq2⟩ := mem_gridCells.mp hq
  have := (out_eq_iff laws rows cols n (s.fa "data") p q hp1 hp2 hq1 hq2 hpn hqn).mp h
  exact sound hp (by rw [Ne, nan_iff, dataOf_some _ _ _ hpn]; simp) this

/-- generated program, symmetric closeness: same label <-> joined by a chain of adjacent matching cells -/
theorem generated_components_iff (laws : LabelLaws F) (hsym : ∀ a b : F, closeF a b = closeF b a)
    (s : State F) (fuel rows cols n : Nat) (hs : s.ctl = .run)
    (hshp : s.shp "data" = [rows, cols]) (hnv : s.ienv "n" = (n : Int)) (hn : n = 4 ∨ n = 8)
    {p q : Cell} (hp : p ∈ gridCells rows cols) (hq : q ∈ gridCells rows cols)
    (hpn : Fl.isnan (at_ cols (s.fa "data") p) = false) (hqn : Fl.isnan (at_ cols (s.fa "data") q) = false) :
    at_ cols ((Gen.IL.areaConnectivity.run s fuel).fa "out") p =
        at_ cols ((Gen.IL.areaConnectivity.run s fuel).fa "out") q ↔
      Connected rows cols (decide (n = 8)) closeF (dataOf cols (s.fa "data")) p q := by
  obtain ⟨_, _, _, ho⟩ := areaConnectivity_refines laws s fuel rows cols n hs hshp hnv hn
  obtain ⟨hp1, hp2⟩ := mem_gridCells.mp hp
  obtain ⟨hq1, hq2⟩ := mem_gridCells.mp hq
  rw [ho, out_eq_iff laws rows cols n (s.fa "data") p q hp1 hp2 hq1 hq2 hpn hqn]
  exact components_iff hsym hp (by rw [dataOf_some _ _ _ hpn]; simp)

/-- generated program, closeness = equality on the values of the raster (integer-valued rasters): two cells get the
    same label exactly when a path of 4- (8-) adjacent raster cells that all hold the same value joins them -/
theorem generated_value_path [DecidableEq F] (laws : LabelLaws F) (s : State F) (fuel rows cols n : Nat)
    (hs : s.ctl = .run) (hshp : s.shp "data" = [rows, cols]) (hnv : s.ienv "n" = (n : Int)) (hn : n = 4 ∨ n = 8)
    (heqv : ∀ p q v w, p ∈ gridCells rows cols → q ∈ gridCells rows cols →
      dataOf cols (s.fa "data") p = some v → dataOf cols (s.fa "data") q = some w → closeF v w = decide (v = w))
    {p q : Cell} {v : F} (hp : p ∈ gridCells rows cols) (hq : q ∈ gridCells rows cols)
    (hv : dataOf cols (s.fa "data") p = some v) (hqn : Fl.isnan (at_ cols (s.fa "data") q) = false) :
    at_ cols ((Gen.IL.areaConnectivity.run s fuel).fa "out") p =
        at_ cols ((Gen.IL.areaConnectivity.run s fuel).fa "out") q ↔
      ValuePath rows cols (decide (n = 8)) (dataOf cols (s.fa "data")) v p q := by
  obtain ⟨_, _, _, ho⟩ := areaConnectivity_refines laws s fuel rows cols n hs hshp hnv hn
  obtain ⟨hp1, hp2⟩ := mem_gridCells.mp hp
  obtain ⟨hq1, hq2⟩ := mem_gridCells.mp hq
  have hpn : Fl.isnan (at_ cols (s.fa "data") p) = false := by
    cases h : Fl.isnan (at_ cols (s.fa "data") p) with
    | false => rfl
    | true => rw [dataOf_none _ _ _ h] at hv; cases hv
  rw [ho, out_eq_iff laws rows cols n (s.fa "data") p q hp1 hp2 hq1 hq2 hpn hqn,
    regions_congr rows cols (decide (n = 8)) closeF (fun a b => decide (a = b)) _ heqv p,
    regions_congr rows cols (decide (n = 8)) closeF (fun a b => decide (a = b)) _ heqv q]
  exact regions_iff_value_path hp hv

/-- generated program: a non-NaN cell holds a positive label -/
theorem generated_labels_positive (laws : LabelLaws F) (s : State F) (fuel rows cols n : Nat) (hs : s.ctl = .run)
    (hshp : s.shp "data" = [rows, cols]) (hnv : s.ienv "n" = (n : Int)) (hn : n = 4 ∨ n = 8)
    {p : Cell} (hp : p ∈ gridCells rows cols) (hpn : Fl.isnan (at_ cols (s.fa "data") p) = false) :
    ∃ k : Nat, 0 < k ∧ at_ cols ((Gen.IL.areaConnectivity.run s fuel).fa "out") p = lab k := by
  obtain ⟨_, _, _, ho⟩ := areaConnectivity_refines laws s fuel rows cols n hs hshp hnv hn
  obtain ⟨hp1, hp2⟩ := mem_gridCells.mp hp
  obtain ⟨k, hk⟩ := regions_some_of rows cols (decide (n = 8)) (s.fa "data") p hpn
  refine ⟨k, labels_positive hp hk, ?_⟩
  rw [ho, at_modelOut rows cols n _ p hp1 hp2, cellOut_some _ _ _ _ _ _ hk]

/-- generated program: a NaN cell keeps its (NaN) input value -/
theorem generated_nan (laws : LabelLaws F) (s : State F) (fuel rows cols n : Nat) (hs : s.ctl = .run)
    (hshp : s.shp "data" = [rows, cols]) (hnv : s.ienv "n" = (n : Int)) (hn : n = 4 ∨ n = 8)
    {p : Cell} (hp : p ∈ gridCells rows cols) (hpn : Fl.isnan (at_ cols (s.fa "data") p) = true) :
    at_ cols ((Gen.IL.areaConnectivity.run s fuel).fa "out") p = at_ cols (s.fa "data") p := by
  obtain ⟨_, _, _, ho⟩ := areaConnectivity_refines laws s fuel rows cols n hs hshp hnv hn
  obtain ⟨hp1, hp2⟩ := mem_gridCells.mp hp
  rw [ho, at_modelOut rows cols n _ p hp1 hp2, cellOut_none]
  simp only [regions, result, dataOf_none _ _ _ hpn]

end generated

/-! ### non-vacuity -/

/-- a U-shaped component: pass 1 gives its two arms different labels, pass 2 merges them -/
def uData : Cell → Option Int := fun c =>
  if c = (0, 1) then some 0 else some 1

example : (pass1 (gridCells 2 3) (gridNbrs 2 3 false) (fun a b : Int => decide (a = b)) uData).1 (0, 0) = 1
    ∧ (pass1 (gridCells 2 3) (gridNbrs 2 3 false) (fun a b : Int => decide (a = b)) uData).1 (0, 2) = 3 := by
  decide

example : regions 2 3 false (fun a b : Int => decide (a = b)) uData (0, 0) = some 1
    ∧ regions 2 3 false (fun a b : Int => decide (a = b)) uData (0, 2) = some 1
    ∧ regions 2 3 false (fun a b : Int => decide (a = b)) uData (0, 1) = some 2 := by
  decide

/-- `Step` is inhabited on that raster, so `complete` is not vacuous -/
example : Step 2 3 false (fun a b : Int => decide (a = b)) uData (0, 0) (1, 0) := by
  refine ⟨by decide, by decide, by decide, 1, 1, by decide, by decide, by decide⟩

/-- the symmetry hypothesis holds for equality matching -/
example : ∀ a b : Int, (decide (a = b)) = (decide (b = a)) := by
  intro a b; simp [eq_comm]

/-- diagonal neighbours are joined only with the 8-neighbourhood -/
def dData : Cell → Option Int := fun c =>
  if c = (0, 0) ∨ c = (1, 1) then some 7 else if c = (0, 1) then none else some 2

example : regions 2 2 true (fun a b : Int => decide (a = b)) dData (0, 0)
      = regions 2 2 true (fun a b : Int => decide (a = b)) dData (1, 1)
    ∧ regions 2 2 false (fun a b : Int => decide (a = b)) dData (0, 0)
      ≠ regions 2 2 false (fun a b : Int => decide (a = b)) dData (1, 1)
    ∧ regions 2 2 true (fun a b : Int => decide (a = b)) dData (0, 1) = none := by
  decide

/-! non-vacuity of the `generated_*` theorems: exact arithmetic with NaN over ℚ satisfies `LabelLaws`; a start
    state holding the U-shaped 2×3 raster (with one NaN) satisfies the hypotheses; on it closeness is equality -/

section generatedExamples
open XrsVerif.IL XrsVerif.IL.Rg

local instance : Trig ℚ := ⟨id, id, fun a _ => a, id, id, id, id⟩

example : LabelLaws (NV ℚ) := labelLaws_NV

/-- `data = [[1, 0, 1], [1, NaN, 1]]`, `n = 4` -/
def uState : State (NV ℚ) :=
  { (State.empty : State (NV ℚ)) with
    ienv := fun v => if v = "n" then 4 else 0
    shp := fun a => if a = "data" then [2, 3] else []
    fa := fun a => if a = "data" then [some 1, some 0, some 1, some 1, none, some 1] else [] }

example : uState.ctl = .run ∧ uState.shp "data" = [2, 3] ∧ uState.ienv "n" = ((4 : Nat) : Int) ∧
    ((4 : Nat) = 4 ∨ (4 : Nat) = 8) := by
  refine ⟨rfl, rfl, rfl, Or.inl rfl⟩

/-- the cells `(0, 0)` and `(1, 0)` of that raster are non-NaN raster cells, `(1, 1)` is a NaN cell -/
example : Fl.isnan (at_ 3 (uState.fa "data") (0, 0)) = false ∧ Fl.isnan (at_ 3 (uState.fa "data") (1, 0)) = false ∧
    Fl.isnan (at_ 3 (uState.fa "data") (1, 1)) = true ∧ ((0, 0) : Cell) ∈ gridCells 2 3 := by
  refine ⟨rfl, rfl, rfl, by decide⟩

/-- integer values below 5·10⁴: the closeness hypothesis of `generated_value_path` holds (`closeF_int`) -/
example (a b : Int) (ha : |a| < 50000) : closeF (some (a : ℚ) : NV ℚ) (some (b : ℚ)) = decide (a = b) :=
  closeF_int a b ha

end generatedExamples

end XrsVerif.C16
