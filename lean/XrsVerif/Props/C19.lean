import XrsVerif.Proofs.Metrics
import XrsVerif.Proofs.CircleKernels
import XrsVerif.Proofs.DistanceStr
/-
  C19 -- Distance metrics are metrics; circle / annulus kernels are the stated shapes; distance strings.

  Part 1 (metrics).  `manhattan`, `euclidean`, `greatCircle`, `greatCircleFailed` are the kernels
  *generated* from xrspatial/proximity.py (`Gen.manhattan_distance` ...), evaluated on finite coordinates
  over `NV K`; a point is `(x, y)` resp. `(longitude, latitude)` in degrees.  Manhattan: any linearly
  ordered field.  Euclidean and great-circle: the reals, with `sqrt/sin/cos/arcsin/arctan` interpreted
  by Mathlib's functions (`Metrics.realTrig`; `np.pi` is `4 * arctan 1 = π`).  Exact arithmetic: float
  rounding is covered by the correspondence run only (haversine loses the triangle inequality by up to
  ~2 cm near antipodes in floats).

  Part 2 (kernels).  `ellipseKernel`, `circleKernel`, `annulusKernel` (Model/CircleKernels.lean) are hand
  models of the numpy plumbing around *generated* facts (Gen/MetricFacts.lean): the mask predicate, the
  `np.linspace` arguments, the half-width expressions, the pad widths and the combination operator.

  Part 3 (strings).  `getDistance` (Model/DistanceStr.lean) is a hand model of `_get_distance` around
  the generated regex / table / rejection test; ASCII strings.

  Float operations of parts 2 and 3 (`float(literal)`, the float constants of `UNITS`, `d * UNITS[unit]`,
  `r / cellsize`) go through a parameter `rnd : ℚ → ℚ`.  The theorems hold for *every* rounding that is
  monotone with `rnd 0 = 0` (IEEE round-to-nearest is one, exact arithmetic `rnd = id` another; where
  positivity of a product is needed, `0 < x → 0 < rnd x`, i.e. no underflow to zero, is assumed);
  the driver runs the same model with `roundF64`, checked against Python floats by the correspondence.
-/
set_option linter.unusedSectionVars false
set_option linter.unusedVariables false
namespace XrsVerif.C19
open XrsVerif XrsVerif.Metrics XrsVerif.CircleK XrsVerif.DistStr

/-! ## 1. the three distance functions -/

section plane
variable {K : Type} [Field K] [LinearOrder K] [IsStrictOrderedRing K] [Trig K]

/-- `manhattan_distance` is `|x1 - x2| + |y1 - y2|` -/
theorem manhattan_eq (p q : K × K) : manhattan p q = some (|p.1 - q.1| + |p.2 - q.2|) :=
  manhattan_val p q

theorem manhattan_symm (p q : K × K) : manhattan p q = manhattan q p := by
  rw [manhattan_val, manhattan_val, abs_sub_comm p.1, abs_sub_comm p.2]

/-- zero exactly for coincident points -/
theorem manhattan_zero_iff (p q : K × K) : manhattan p q = some 0 ↔ p = q := by
  rw [manhattan_val, Option.some.injEq]
  constructor
  · intro h
    have h1 := abs_nonneg (p.1 - q.1)
    have h2 := abs_nonneg (p.2 - q.2)
    have e1 : |p.1 - q.1| = 0 := by linarith
    have e2 : |p.2 - q.2| = 0 := by linarith
    exact Prod.ext (sub_eq_zero.mp (abs_eq_zero.mp e1)) (sub_eq_zero.mp (abs_eq_zero.mp e2))
  · rintro rfl; simp

/-- the three distances are finite numbers and `d(p, r) ≤ d(p, q) + d(q, r)` -/
theorem manhattan_triangle (p q r : K × K) :
    ∃ a b c, manhattan p r = some a ∧ manhattan p q = some b ∧ manhattan q r = some c ∧ a ≤ b + c := by
  refine ⟨_, _, _, manhattan_val p r, manhattan_val p q, manhattan_val q r, ?_⟩
  have h1 := abs_sub_le p.1 q.1 r.1
  have h2 := abs_sub_le p.2 q.2 r.2
  linarith

/-- `euclidean_distance` is `sqrt((x1 - x2)² + (y1 - y2)²)`, for every interpretation of `sqrt` -/
theorem euclidean_eq (p q : K × K) :
    euclidean p q = some (Trig.sqrt ((p.1 - q.1) * (p.1 - q.1) + (p.2 - q.2) * (p.2 - q.2))) :=
  euclidean_val p q

theorem euclidean_symm (p q : K × K) : euclidean p q = euclidean q p := by
  rw [euclidean_val, euclidean_val]
  congr 2; ring

/-- `great_circle_distance` raises exactly when a longitude is outside [-180, 180] or a latitude
    outside [-90, 90] (either point; any ordered field, any radius) -/
theorem great_circle_rejects_iff (R : K) (p q : K × K) :
    (greatCircleFailed R p q).isSome ↔ ¬ (inRange p ∧ inRange q) := gc_failed_iff R p q
end plane

section real
attribute [local instance] realTrig
open Real

theorem euclidean_real (p q : ℝ × ℝ) :
    euclidean p q = some (Real.sqrt ((p.1 - q.1) ^ 2 + (p.2 - q.2) ^ 2)) := by
  rw [euclidean_val]; simp [sq]

theorem euclidean_zero_iff (p q : ℝ × ℝ) : euclidean p q = some 0 ↔ p = q := by
  rw [euclidean_val, Option.some.injEq, trig_sqrt, sqrt_sumsq_eq_zero]
  constructor
  · rintro ⟨h1, h2⟩; exact Prod.ext (sub_eq_zero.mp h1) (sub_eq_zero.mp h2)
  · rintro rfl; simp

theorem euclidean_triangle (p q r : ℝ × ℝ) :
    ∃ a b c, euclidean p r = some a ∧ euclidean p q = some b ∧ euclidean q r = some c ∧ a ≤ b + c := by
  refine ⟨_, _, _, euclidean_val p r, euclidean_val p q, euclidean_val q r, ?_⟩
  have h := sqrt_triangle (p.1 - q.1) (p.2 - q.2) (q.1 - r.1) (q.2 - r.2)
  simpa using h

/-- inside the range the kernel computes the haversine formula
    `R · 2 · arcsin √(sin²(Δlat/2) + cos lat₁ · cos lat₂ · sin²(Δlon/2))` (`Metrics.hav`, angles `d · π/180`) -/
theorem great_circle_eq_haversine (R : ℝ) (p q : ℝ × ℝ) (hp : inRange p) (hq : inRange q) :
    greatCircle R p q = some (R * 2 * Real.arcsin (Real.sqrt (hav p q))) ∧
      ∀ d : ℝ, rad d = d * (π / 180) := ⟨gc_val R p q hp hq, rad_eq⟩

theorem great_circle_symm (R : ℝ) (p q : ℝ × ℝ) (hp : inRange p) (hq : inRange q) :
    greatCircle R p q = greatCircle R q p := by
  rw [gc_val R p q hp hq, gc_val R q p hq hp, hav_symm]

/-- zero exactly when the two coordinate pairs name the same point of the sphere
    (`Metrics.samePoint`: equal latitude and equal longitude, or a pole, or longitudes -180 / 180) -/
theorem great_circle_zero_iff (R : ℝ) (hR : R ≠ 0) (p q : ℝ × ℝ) (hp : inRange p) (hq : inRange q) :
    greatCircle R p q = some 0 ↔ samePoint p q := by
  rw [gc_val R p q hp hq, Option.some.injEq, ← hav_eq_zero_iff p q hp hq]
  simp only [trig_asin, trig_sqrt]
  constructor
  · intro h
    have h2 : Real.arcsin (Real.sqrt (hav p q)) = 0 := by
      rcases mul_eq_zero.mp h with h | h
      · rcases mul_eq_zero.mp h with h | h
        · exact absurd h hR
        · norm_num at h
      · exact h
    have h3 := Real.arcsin_eq_zero_iff.mp h2
    exact (Real.sqrt_eq_zero (hav_nonneg p q hp hq)).mp h3
  · intro h; rw [h]; simp

theorem great_circle_self (R : ℝ) (p : ℝ × ℝ) (hp : inRange p) : greatCircle R p p = some 0 := by
  rw [gc_val R p p hp hp, hav_self]; simp

/-- never negative, never more than half the circumference `π R` -/
theorem great_circle_le_half_circumference (R : ℝ) (hR : 0 ≤ R) (p q : ℝ × ℝ) (hp : inRange p)
    (hq : inRange q) : ∃ d, greatCircle R p q = some d ∧ 0 ≤ d ∧ d ≤ π * R := by
  refine ⟨_, gc_val R p q hp hq, ?_, ?_⟩
  · have : 0 ≤ Real.arcsin (Real.sqrt (hav p q)) := Real.arcsin_nonneg.mpr (Real.sqrt_nonneg _)
    simp only [trig_asin, trig_sqrt]; positivity
  · have := Real.arcsin_le_pi_div_two (Real.sqrt (hav p q))
    simp only [trig_asin, trig_sqrt]
    nlinarith
/-- **the spherical triangle inequality**: `2 arcsin √hav` is the angle between the unit vectors of the
    two points (`Sphere.angle_vec`), and angles between vectors obey the triangle inequality
    (Mathlib, `InnerProductGeometry.angle_le_angle_add_angle`) -/
theorem great_circle_triangle (R : ℝ) (hR : 0 ≤ R) (p q r : ℝ × ℝ) (hp : inRange p) (hq : inRange q)
    (hr : inRange r) :
    ∃ a b c, greatCircle R p r = some a ∧ greatCircle R p q = some b ∧ greatCircle R q r = some c ∧
      a ≤ b + c := by
  refine ⟨_, _, _, gc_val R p r hp hr, gc_val R p q hp hq, gc_val R q r hq hr, ?_⟩
  have h := hav_triangle p q r hp hq hr
  simp only [trig_asin, trig_sqrt]
  nlinarith [mul_le_mul_of_nonneg_left h hR]
end real

/-! ## 2. circle and annulus kernels -/

section kernels
variable {K : Type} [Field K] [LinearOrder K] [IsStrictOrderedRing K] [Trig K]

/-- what was read from the source: x runs over `linspace(-hw, hw, 2hw+1)` along the columns, y over
    `linspace(-hh, hh, 2hh+1)` along the rows (`[:, None]`) -/
theorem ellipse_sampling (hw hh : ℤ) :
    Gen.ellipse_x_start hw hh = -hw ∧ Gen.ellipse_x_stop hw hh = hw ∧ Gen.ellipse_x_num hw hh = 2 * hw + 1 ∧
    Gen.ellipse_y_start hw hh = -hh ∧ Gen.ellipse_y_stop hw hh = hh ∧ Gen.ellipse_y_num hw hh = 2 * hh + 1 ∧
    Gen.ellipse_x_axis = 1 ∧ Gen.ellipse_y_axis = 0 ∧ Gen.ellipse_params = ["half_w", "half_h"] := by
  simp [Gen.ellipse_x_start, Gen.ellipse_x_stop, Gen.ellipse_x_num, Gen.ellipse_y_start, Gen.ellipse_y_stop,
    Gen.ellipse_y_num, Gen.ellipse_x_axis, Gen.ellipse_y_axis, Gen.ellipse_params]

/-- the generated mask predicate on integer samples is the 0/1 value of
    `(x·hh)² + (y·hw)² ≤ (hw·hh)²` -/
theorem ellipse_pred_eq (hw hh x y : ℤ) :
    Gen.ellipse_pred.cell (predEnv (some (x : K)) (some (y : K)) (some (hw : K)) (some (hh : K)))
        (fun _ _ _ => (none : NV K)) (fun _ => []) =
      some (if inEllipse hw hh x y then 1 else 0) := pred_eq hw hh x y

/-- ... which for positive half widths is the ellipse equation `(x/hw)² + (y/hh)² ≤ 1` -/
theorem inEllipse_iff_equation (hw hh x y : ℤ) (h1 : 0 < hw) (h2 : 0 < hh) :
    inEllipse hw hh x y ↔ ((x : ℚ) / hw) ^ 2 + ((y : ℚ) / hh) ^ 2 ≤ 1 := by
  unfold inEllipse
  have a : (0 : ℚ) < hw := by exact_mod_cast h1
  have b : (0 : ℚ) < hh := by exact_mod_cast h2
  have e : ((x : ℚ) / hw) ^ 2 + ((y : ℚ) / hh) ^ 2 = (((x * hh) ^ 2 + (y * hw) ^ 2 : ℤ) : ℚ) / (((hw * hh) ^ 2 : ℤ) : ℚ) := by
    push_cast; field_simp
  rw [e, div_le_one (by positivity), Int.cast_le]

/-- `_ellipse_kernel(hw, hh)` is the 0/1 mask of the offsets `(j - hw, i - hh)` satisfying the
    ellipse predicate, of shape `(2hh+1) × (2hw+1)` -/
theorem circle_is_ellipse_mask (hw hh : ℤ) (h1 : 0 ≤ hw) (h2 : 0 ≤ hh) :
    ∃ g : KGrid (NV K), ellipseKernel hw hh = .ok g ∧
      (g.rows : ℤ) = 2 * hh + 1 ∧ (g.cols : ℤ) = 2 * hw + 1 ∧
      ∀ i j : ℕ, i < g.rows → j < g.cols →
        g.cell i j = some (if inEllipse hw hh (j - hw) (i - hh) then 1 else 0) := by
  refine ⟨_, ellipseKernel_ok hw hh h1 h2, by simp; omega, by simp; omega, ?_⟩
  intro i j hi hj
  simp only at hi hj
  exact ellipseEntry_eq hw hh h1 h2 i j (by omega) (by omega)

/-- a negative half width is an error (np.linspace refuses a negative number of samples) -/
theorem ellipse_negative_rejected (hw hh : ℤ) (h : hw < 0 ∨ hh < 0) :
    (ellipseKernel hw hh : Except String (KGrid (NV K))) = .error "ValueError" := ellipseKernel_neg hw hh h

/-- `circle_kernel(cx, cy, radius)` with positive cell sizes and a radius of `r ≥ 0` metres is
    `_ellipse_kernel(⌊rnd(r/cx)⌋, ⌊rnd(r/cy)⌋)`: the half widths are the generated expressions
    `int(r / cellsize_x)`, `int(r / cellsize_y)` with the float division rounded by `rnd` (any number type) -/
theorem circle_kernel_half_widths {F : Type} [Fl F] (rnd : ℚ → ℚ) (hm : Monotone rnd) (h0 : rnd 0 = 0)
    (cx cy r : ℚ) (hx : 0 < cx) (hy : 0 < cy) (hr : 0 ≤ r) :
    (circleKernel rnd cx cy (.val (.fin r)) : Except String (KGrid F)) =
      ellipseKernel ⌊rnd (r / cx)⌋ ⌊rnd (r / cy)⌋ ∧
    Gen.circle_half_w rnd r cx cy = ⌊rnd (r / cx)⌋ ∧ Gen.circle_half_h rnd r cx cy = ⌊rnd (r / cy)⌋ ∧
    0 ≤ ⌊rnd (r / cx)⌋ ∧ 0 ≤ ⌊rnd (r / cy)⌋ := by
  have n1 : 0 ≤ rnd (r / cx) := by rw [← h0]; exact hm (div_nonneg hr hx.le)
  have n2 : 0 ≤ rnd (r / cy) := by rw [← h0]; exact hm (div_nonneg hr hy.le)
  have e1 : pyInt (rnd (r / cx)) = ⌊rnd (r / cx)⌋ := pyInt_eq_floor _ n1
  have e2 : pyInt (rnd (r / cy)) = ⌊rnd (r / cy)⌋ := pyInt_eq_floor _ n2
  refine ⟨?_, by simp [Gen.circle_half_w, e1], by simp [Gen.circle_half_h, e2], Int.floor_nonneg.mpr n1,
    Int.floor_nonneg.mpr n2⟩
  rw [circleKernel_fin rnd cx cy r hx.ne' hy.ne', e1, e2]

/-- **the stated shape of `circle_kernel`, in one statement about the generated half-width expressions**
    (`Gen.circle_half_w / circle_half_h` = the AST of what the source binds to `_ellipse_kernel`'s parameters,
    `int(r / cellsize_x)`, `int(r / cellsize_y)`): for positive cell sizes and a radius of `r ≥ 0` metres the
    kernel exists, has the odd shape `(2·half_h + 1) × (2·half_w + 1)`, and entry `(i, j)` is 1 exactly when
    the offset `(j − half_w, i − half_h)` satisfies the ellipse equation with semi-axes `half_w`, `half_h`
    (`inEllipse_iff_equation`) -- the shape the library documents (`circle_kernel(1, 2, 3)`: 3 × 7 with the single
    column `x = 0` in the rows `y = ±1`).  A different expression in the source (`r // cellsize_x`, `round`,
    the other cell size) changes `Gen.circle_half_w` and with it this statement. -/
theorem circle_kernel_stated_shape (rnd : ℚ → ℚ) (hm : Monotone rnd) (h0 : rnd 0 = 0)
    (cx cy r : ℚ) (hx : 0 < cx) (hy : 0 < cy) (hr : 0 ≤ r) :
    ∃ g : KGrid (NV K), circleKernel rnd cx cy (.val (.fin r)) = .ok g ∧
      (g.rows : ℤ) = 2 * Gen.circle_half_h rnd r cx cy + 1 ∧ (g.cols : ℤ) = 2 * Gen.circle_half_w rnd r cx cy + 1 ∧
      g.rows % 2 = 1 ∧ g.cols % 2 = 1 ∧
      Gen.circle_half_w rnd r cx cy = ⌊rnd (r / cx)⌋ ∧ Gen.circle_half_h rnd r cx cy = ⌊rnd (r / cy)⌋ ∧
      ∀ i j : ℕ, i < g.rows → j < g.cols →
        g.cell i j = some (if inEllipse (Gen.circle_half_w rnd r cx cy) (Gen.circle_half_h rnd r cx cy)
          (j - Gen.circle_half_w rnd r cx cy) (i - Gen.circle_half_h rnd r cx cy) then 1 else 0) := by
  obtain ⟨hk, hw, hh, n1, n2⟩ := circle_kernel_half_widths (F := NV K) rnd hm h0 cx cy r hx hy hr
  obtain ⟨g, hg, hrow, hcol, hcell⟩ := circle_is_ellipse_mask (K := K) ⌊rnd (r / cx)⌋ ⌊rnd (r / cy)⌋ n1 n2
  rw [hw, hh]
  exact ⟨g, hk.trans hg, hrow, hcol, by omega, by omega, rfl, rfl, hcell⟩

/-- `⌊rnd q⌋` against `⌊q⌋` for a monotone rounding that keeps the integers -/
theorem floor_rnd_bracket (rnd : ℚ → ℚ) (hm : Monotone rnd) (hfix : ∀ n : ℤ, rnd n = n) (q : ℚ) :
    ⌊q⌋ ≤ ⌊rnd q⌋ ∧ ⌊rnd q⌋ ≤ ⌊q⌋ + 1 ∧ (⌊rnd q⌋ = ⌊q⌋ + 1 ↔ rnd q = ((⌊q⌋ + 1 : ℤ) : ℚ)) := by
  have lo : ((⌊q⌋ : ℤ) : ℚ) ≤ rnd q := by rw [← hfix ⌊q⌋]; exact hm (Int.floor_le q)
  have hi : rnd q ≤ ((⌊q⌋ + 1 : ℤ) : ℚ) := by
    rw [← hfix (⌊q⌋ + 1)]; apply hm; push_cast; exact (Int.lt_floor_add_one q).le
  refine ⟨Int.le_floor.mpr lo, ?_, ?_⟩
  · have := Int.floor_le_floor hi
    rwa [Int.floor_intCast] at this
  · constructor
    · intro h
      have : ((⌊q⌋ + 1 : ℤ) : ℚ) ≤ rnd q := by rw [← h]; exact Int.floor_le _
      exact le_antisymm hi this
    · intro h
      rw [h, Int.floor_intCast]

/-- **the half widths against the quotient of the real numbers the arguments denote.**  For any monotone
    rounding of the division that keeps integers (IEEE round-to-nearest does, below 2^53): the half width is
    `⌊r / cellsize⌋` or that plus one, the latter exactly when the *rounded* quotient is the next integer
    (`1 / 0.1`: the doubles' quotient is 9.99999999999999944…, the float quotient 10.0, see the example at the
    end of the file); consequently the array is never cropped -- every integer offset within the radius along
    an axis lies inside it. -/
theorem circle_half_width_vs_exact (rnd : ℚ → ℚ) (hm : Monotone rnd) (hfix : ∀ n : ℤ, rnd n = n)
    (cx cy r : ℚ) (hx : 0 < cx) (hy : 0 < cy) (hr : 0 ≤ r) :
    (⌊r / cx⌋ ≤ Gen.circle_half_w rnd r cx cy ∧ Gen.circle_half_w rnd r cx cy ≤ ⌊r / cx⌋ + 1 ∧
      (Gen.circle_half_w rnd r cx cy = ⌊r / cx⌋ + 1 ↔ rnd (r / cx) = ((⌊r / cx⌋ + 1 : ℤ) : ℚ))) ∧
    (⌊r / cy⌋ ≤ Gen.circle_half_h rnd r cx cy ∧ Gen.circle_half_h rnd r cx cy ≤ ⌊r / cy⌋ + 1 ∧
      (Gen.circle_half_h rnd r cx cy = ⌊r / cy⌋ + 1 ↔ rnd (r / cy) = ((⌊r / cy⌋ + 1 : ℤ) : ℚ))) ∧
    (∀ x : ℤ, (|x| : ℚ) * cx ≤ r → |x| ≤ Gen.circle_half_w rnd r cx cy) ∧
    (∀ y : ℤ, (|y| : ℚ) * cy ≤ r → |y| ≤ Gen.circle_half_h rnd r cx cy) := by
  have h0 : rnd 0 = 0 := by simpa using hfix 0
  have n1 : 0 ≤ rnd (r / cx) := by rw [← h0]; exact hm (div_nonneg hr hx.le)
  have n2 : 0 ≤ rnd (r / cy) := by rw [← h0]; exact hm (div_nonneg hr hy.le)
  have hw : Gen.circle_half_w rnd r cx cy = ⌊rnd (r / cx)⌋ := by simp [Gen.circle_half_w, pyInt_eq_floor _ n1]
  have hh : Gen.circle_half_h rnd r cx cy = ⌊rnd (r / cy)⌋ := by simp [Gen.circle_half_h, pyInt_eq_floor _ n2]
  rw [hw, hh]
  have bx := floor_rnd_bracket rnd hm hfix (r / cx)
  have by' := floor_rnd_bracket rnd hm hfix (r / cy)
  refine ⟨bx, by', ?_, ?_⟩
  · intro x hxr
    have : ((|x| : ℤ) : ℚ) ≤ r / cx := by rw [le_div_iff₀ hx]; exact_mod_cast hxr
    exact le_trans (Int.le_floor.mpr this) bx.1
  · intro y hyr
    have : ((|y| : ℤ) : ℚ) ≤ r / cy := by rw [le_div_iff₀ hy]; exact_mod_cast hyr
    exact le_trans (Int.le_floor.mpr this) by'.1

/-- rejected radii (and the IEEE specials that leave `_get_distance`) never produce a kernel -/
theorem circle_kernel_rejects (rnd : ℚ → ℚ) (cx cy : ℚ) (st : String) :
    (circleKernel rnd cx cy (.err st) : Except String (KGrid (NV K))) = .error "ValueError" ∧
    (∃ e, (circleKernel rnd cx cy (.val .nan) : Except String (KGrid (NV K))) = .error e) ∧
    (∃ e, (circleKernel rnd cx cy (.val .pinf) : Except String (KGrid (NV K))) = .error e) := by
  refine ⟨rfl, ?_, ?_⟩ <;> by_cases h : cx = 0 <;> simp [circleKernel, halfWidth, h]

/-- odd shape -/
theorem circle_odd_shape (hw hh : ℤ) (h1 : 0 ≤ hw) (h2 : 0 ≤ hh) (g : KGrid (NV K))
    (hg : ellipseKernel hw hh = .ok g) : g.rows % 2 = 1 ∧ g.cols % 2 = 1 := by
  rw [ellipseKernel_ok hw hh h1 h2] at hg
  cases hg
  simp only
  omega

theorem inEllipse_flip_x (hw hh x y : ℤ) : inEllipse hw hh (-x) y ↔ inEllipse hw hh x y := by
  unfold inEllipse; rw [neg_mul, neg_sq]

theorem inEllipse_flip_y (hw hh x y : ℤ) : inEllipse hw hh x (-y) ↔ inEllipse hw hh x y := by
  unfold inEllipse; rw [neg_mul, neg_sq]

/-- symmetric under both axis flips -/
theorem circle_flip_symmetric (hw hh : ℤ) (h1 : 0 ≤ hw) (h2 : 0 ≤ hh) (g : KGrid (NV K))
    (hg : ellipseKernel hw hh = .ok g) (i j : ℕ) (hi : i < g.rows) (hj : j < g.cols) :
    g.cell (g.rows - 1 - i) j = g.cell i j ∧ g.cell i (g.cols - 1 - j) = g.cell i j := by
  rw [ellipseKernel_ok hw hh h1 h2] at hg
  cases hg
  simp only at hi hj ⊢
  rw [ellipseEntry_eq hw hh h1 h2 ((2 * hh + 1).toNat - 1 - i) j (by omega) (by omega),
      ellipseEntry_eq hw hh h1 h2 i ((2 * hw + 1).toNat - 1 - j) (by omega) (by omega),
      ellipseEntry_eq hw hh h1 h2 i j (by omega) (by omega)]
  have e1 : (((2 * hh + 1).toNat - 1 - i : ℕ) : ℤ) - hh = -((i : ℤ) - hh) := by omega
  have e2 : (((2 * hw + 1).toNat - 1 - j : ℕ) : ℤ) - hw = -((j : ℤ) - hw) := by omega
  rw [e1, e2]
  simp only [inEllipse_flip_x, inEllipse_flip_y, and_self]

/-- the centre always belongs to the kernel -/
theorem circle_centre (hw hh : ℤ) (h1 : 0 ≤ hw) (h2 : 0 ≤ hh) :
    (ellipseEntry hw hh hh.toNat hw.toNat : NV K) = some 1 := by
  rw [ellipseEntry_eq hw hh h1 h2 _ _ (by omega) (by omega)]
  have e1 : ((hw.toNat : ℕ) : ℤ) - hw = 0 := by omega
  have e2 : ((hh.toNat : ℕ) : ℤ) - hh = 0 := by omega
  rw [e1, e2]
  have : inEllipse hw hh 0 0 := by unfold inEllipse; nlinarith [sq_nonneg (hw * hh)]
  simp [this]

/-- what was read from `annulus_kernel`: which radii feed the two circles, the pad widths, the padding
    value and the combination -/
theorem annulus_wiring (orows ocols irows icols : ℤ) :
    Gen.annulus_outer_args = ["cellsize_x", "cellsize_y", "outer_radius"] ∧
    Gen.annulus_inner_args = ["cellsize_x", "cellsize_y", "inner_radius"] ∧
    Gen.circle_params = ["cellsize_x", "cellsize_y", "radius"] ∧
    Gen.annulus_pad_before_rows orows ocols irows icols = pyFloorDiv (orows - irows) 2 ∧
    Gen.annulus_pad_after_rows orows ocols irows icols = pyFloorDiv (orows - irows) 2 ∧
    Gen.annulus_pad_before_cols orows ocols irows icols = pyFloorDiv (ocols - icols) 2 ∧
    Gen.annulus_pad_after_cols orows ocols irows icols = pyFloorDiv (ocols - icols) 2 ∧
    Gen.annulus_pad_mode = "constant" ∧ Gen.annulus_pad_constant = 0 ∧
    Gen.annulus_combine_op = .sub ∧ Gen.annulus_outer_first = true := by
  refine ⟨by decide, by decide, by decide, rfl, rfl, rfl, rfl, by decide, rfl, rfl, rfl⟩

/-- **annulus = outer − centred inner**: for positive cell sizes and radii `0 ≤ ri ≤ ro` (metres) the
    annulus has the outer circle's shape and entry (i, j) is the outer mask at the offset
    `(x, y) = (j − HW, i − HH)` minus the inner mask at the *same* offset (0 outside the inner array);
    `HW = ⌊rnd(ro/cx)⌋` etc. -/
theorem annulus_is_difference (rnd : ℚ → ℚ) (hm : Monotone rnd) (h0 : rnd 0 = 0)
    (cx cy ro ri : ℚ) (hx : 0 < cx) (hy : 0 < cy) (hi : 0 ≤ ri) (hio : ri ≤ ro) :
    ∃ g : KGrid (NV K), annulusKernel rnd cx cy (.val (.fin ro)) (.val (.fin ri)) = .ok g ∧
      (g.rows : ℤ) = 2 * ⌊rnd (ro / cy)⌋ + 1 ∧ (g.cols : ℤ) = 2 * ⌊rnd (ro / cx)⌋ + 1 ∧
      ∀ i j : ℕ, i < g.rows → j < g.cols →
        g.cell i j = some (
          (if inEllipse ⌊rnd (ro / cx)⌋ ⌊rnd (ro / cy)⌋ (j - ⌊rnd (ro / cx)⌋) (i - ⌊rnd (ro / cy)⌋) then (1 : K) else 0)
          - (if innerAt ⌊rnd (ri / cx)⌋ ⌊rnd (ri / cy)⌋ (j - ⌊rnd (ro / cx)⌋) (i - ⌊rnd (ro / cy)⌋) then 1 else 0)) := by
  have ho : 0 ≤ ro := le_trans hi hio
  obtain ⟨ko, -, -, -, -⟩ := circle_kernel_half_widths (F := NV K) rnd hm h0 cx cy ro hx hy ho
  obtain ⟨ki, -, -, a1, a2⟩ := circle_kernel_half_widths (F := NV K) rnd hm h0 cx cy ri hx hy hi
  have a3 : ⌊rnd (ri / cx)⌋ ≤ ⌊rnd (ro / cx)⌋ := Int.floor_le_floor (hm (div_le_div_of_nonneg_right hio hx.le))
  have a4 : ⌊rnd (ri / cy)⌋ ≤ ⌊rnd (ro / cy)⌋ := Int.floor_le_floor (hm (div_le_div_of_nonneg_right hio hy.le))
  obtain ⟨g, hg, hr, hc, hcell⟩ := annulusOf_ellipse (K := K) ⌊rnd (ro / cx)⌋ ⌊rnd (ro / cy)⌋ ⌊rnd (ri / cx)⌋
    ⌊rnd (ri / cy)⌋ a1 a2 a3 a4
  refine ⟨g, ?_, by rw [hr]; omega, by rw [hc]; omega, ?_⟩
  · unfold annulusKernel
    rw [ko, ki, ellipseKernel_ok _ _ (le_trans a1 a3) (le_trans a2 a4), ellipseKernel_ok _ _ a1 a2]
    exact hg
  · intro i j hi' hj'
    exact hcell i j (by rw [hr] at hi'; omega) (by rw [hc] at hj'; omega)

/-- **never negative** (A.9): the centred inner circle lies inside the outer one, so the difference is
    the 0/1 mask of "in the outer circle and not in the inner one" -/
theorem annulus_nonneg (HW HH hw hh x y : ℤ) (h1 : 0 ≤ hw) (h2 : 0 ≤ hh) (h3 : hw ≤ HW) (h4 : hh ≤ HH) :
    ((if inEllipse HW HH x y then (1 : K) else 0) - (if innerAt hw hh x y then 1 else 0)) =
      (if inEllipse HW HH x y ∧ ¬ innerAt hw hh x y then 1 else 0) := by
  by_cases hin : innerAt hw hh x y
  · have := inEllipse_mono HW HH hw hh x y h1 h2 h3 h4 hin.1 hin.2.1 hin.2.2
    simp [hin, this]
  · simp [hin]

/-- inner radius beyond the outer one (in cells): np.pad refuses the negative width -/
theorem annulus_inner_too_large (HW HH hw hh : ℤ) (h1 : 0 ≤ HW) (h2 : 0 ≤ HH) (h : HW < hw ∨ HH < hh)
    (h3 : 0 ≤ hw) (h4 : 0 ≤ hh) :
    annulusOf (F := NV K) ⟨(2 * HH + 1).toNat, (2 * HW + 1).toNat, ellipseEntry HW HH⟩
      ⟨(2 * hh + 1).toNat, (2 * hw + 1).toNat, ellipseEntry hw hh⟩ = .error "ValueError" := by
  unfold annulusOf
  simp only [Gen.annulus_pad_before_rows, Gen.annulus_pad_after_rows, Gen.annulus_pad_before_cols,
    Gen.annulus_pad_after_cols]
  have e1 : (((2 * HH + 1).toNat : ℤ) - ((2 * hh + 1).toNat : ℤ)) = 2 * (HH - hh) := by omega
  have e2 : (((2 * HW + 1).toNat : ℤ) - ((2 * hw + 1).toNat : ℤ)) = 2 * (HW - hw) := by omega
  rw [e1, e2, pyFloorDiv_two, pyFloorDiv_two]
  unfold pad
  have c : (HH - hh < 0 ∨ HH - hh < 0 ∨ HW - hw < 0 ∨ HW - hw < 0) := by omega
  rw [if_pos c]
end kernels

/-! ## 3. distance strings and cell sizes -/

section strings

/-- the scanner of Model/DistanceStr.lean was written for exactly this pattern, these piece counts,
    this rejection test and these normalisation steps (read from `_get_distance`) -/
theorem distance_wiring :
    Gen.distance_regex = "(-?\\d*\\.?\\d+)" ∧ Gen.distance_drop_empty = true ∧
    Gen.distance_allowed_lens = [1, 2] ∧ Gen.distance_number_index = 0 ∧
    Gen.distance_unit_guard = 2 ∧ Gen.distance_unit_index = 1 ∧
    Gen.distance_reject = (.le, 0, 1) ∧ Gen.distance_unit_checked = true ∧
    Gen.distance_unit_normalise = ["lower", "replace:' ':''"] ∧
    Gen.distance_value_src = "float(number)" ∧ Gen.distance_meters_src = "_to_meters(distance, unit)" ∧
    Gen.to_meters_src = "d * UNITS[unit]" ∧ Gen.default_unit = "meter" := by decide

/-- the documented spellings and the standard factors to metres -/
def unitKind (n : String) : Option (Int × Nat) :=
  if n ∈ ["meter", "meters", "m"] then some (1, 1)
  else if n ∈ ["kilometer", "kilometers", "km"] then some (1000, 1)
  else if n ∈ ["foot", "feet", "ft"] then some (381, 1250)            -- 0.3048
  else if n ∈ ["mile", "miles", "ml", "mls"] then some (201168, 125)  -- 1609.344
  else none

/-- every entry of `UNITS` is a documented spelling with the factor of its unit; metres, kilometres,
    feet and miles all occur; the keys are distinct, lower-case, without blanks or digits -/
theorem units_table :
    (∀ e ∈ Gen.units, unitKind e.1 = some (e.2.1, e.2.2)) ∧
    (∀ k ∈ [((1 : Int), (1 : Nat)), (1000, 1), (381, 1250), (201168, 125)], ∃ e ∈ Gen.units, (e.2.1, e.2.2) = k) ∧
    (Gen.units.map (·.1)).Nodup ∧
    (∀ e ∈ Gen.units, DistStr.normUnit e.1.toList = e.1.toList ∧ ∀ c ∈ e.1.toList, isDig c = false) ∧
    (∃ e ∈ Gen.units, e.1 = Gen.default_unit ∧ (e.2.1, e.2.2) = (1, 1)) := by decide

/-- every accepted finite distance is positive (non-positive distances are rejected) -/
theorem distance_positive (rnd : ℚ → ℚ) (hpos : ∀ x, 0 < x → 0 < rnd x) {s : List Char} {m : ℚ}
    (h : getDistance rnd s = .val (.fin m)) : 0 < m := getDistance_fin_pos hpos h

/-- **malformed strings are rejected**: an accepted finite distance is a decimal literal `D*(.D+)?`
    with a positive value followed by a unit of the table (or nothing), and equals value × factor -/
theorem distance_wellformed (rnd : ℚ → ℚ) {s : List Char} {m : ℚ} (h : getDistance rnd s = .val (.fin m)) :
    ∃ (lit unit : List Char) (f : ℚ), s = lit ++ unit ∧ IsLit lit ∧ 0 < rnd (decVal lit) ∧
      lookupUnit (DistStr.normUnit (if unit = [] then Gen.default_unit.toList else unit)) = some f ∧
      m = rnd (rnd (decVal lit) * rnd f) := getDistance_fin_sound h

/-- the only other strings that leave `_get_distance` spell an IEEE special (`inf`, `infinity`,
    `nan`) in their first piece; `circle_kernel_rejects` shows the kernels refuse those values -/
theorem distance_nonfinite_only_specials (rnd : ℚ → ℚ) {s : List Char} {v : PyFloat} (h : getDistance rnd s = .val v)
    (hv : ∀ q, v ≠ .fin q) : ∃ t unit : List Char, s = t ++ unit ∧ (specialFloat t).isSome :=
  getDistance_nonfinite h hv

/-- **parse_units**: `<digits>[.<digits>]<text without digits>` is rejected when the number is not
    positive or the normalised text is not in the table, and otherwise is number × factor -/
theorem parse_units (rnd : ℚ → ℚ) (d1 d2 u : List Char) (h1 : ∀ c ∈ d1, isDig c = true) (h2 : ∀ c ∈ d2, isDig c = true)
    (hne : d1 ≠ [] ∨ d2 ≠ []) (hu : ∀ c ∈ u, isDig c = false) :
    getDistance rnd (ulit d1 d2 ++ u) =
      if rnd (decVal (ulit d1 d2)) ≤ 0 then Dist.err "positive"
      else match lookupUnit (DistStr.normUnit (if u = [] then Gen.default_unit.toList else u)) with
        | none => Dist.err "unit"
        | some f => Dist.val (.fin (rnd (rnd (decVal (ulit d1 d2)) * rnd f))) :=
  getDistance_ulit rnd d1 d2 u h1 h2 hne hu

/-- `calc_cellsize`: both resolutions are scaled by the same table factor of the `unit` attribute
    (default metres), the y size is made non-negative, an unknown unit is a KeyError -/
theorem cellsize_spec (rnd : ℚ → ℚ) (unit : Option (List Char)) (rx ry : ℚ) :
    calcCellsize rnd unit rx ry =
      (lookupUnit (unit.getD Gen.default_unit.toList)).map (fun f => (rnd (rx * rnd f), |rnd (ry * rnd f)|)) := by
  unfold calcCellsize
  have e : Gen.cellsize_abs = [false, true] := by decide
  cases lookupUnit (unit.getD Gen.default_unit.toList) with
  | none => rfl
  | some f =>
    simp only [e, Option.map_some, absIf, List.getD_cons_zero, List.getD_cons_succ]
    by_cases h : rnd (ry * rnd f) < 0
    · simp [h, abs_of_neg h]
    · simp [h, abs_of_nonneg (not_lt.mp h)]
end strings

/-! ## non-vacuity: concrete instances over ℚ / ℝ -/

section examples
local instance : Trig ℚ := ⟨id, id, fun a _ => a, id, id, id, id⟩
attribute [local instance] realTrig

example : manhattan ((1 : ℚ), 2) (4, -2) = some 7 := by rw [manhattan_eq]; norm_num
example : euclidean ((0 : ℝ), 0) (3, 4) = some 5 := by
  rw [euclidean_real]; norm_num
  rw [show (25 : ℝ) = 5 ^ 2 by norm_num, Real.sqrt_sq (by norm_num)]
example : inRange ((180 : ℝ), -90) ∧ inRange ((-180 : ℝ), 90) ∧ ¬ inRange ((180.5 : ℝ), 0) := by
  unfold inRange; norm_num
example : samePoint ((180 : ℝ), 10) (-180, 10) ∧ samePoint ((7 : ℝ), 90) (-120, 90) ∧ ¬ samePoint ((0 : ℝ), 0) (1, 0) := by
  unfold samePoint; norm_num
example : inEllipse 3 3 2 2 ∧ ¬ inEllipse 3 3 3 1 ∧ inEllipse 3 1 3 0 ∧ inEllipse 0 2 0 2 := by decide
example : innerAt 1 1 1 0 ∧ ¬ innerAt 1 1 2 0 ∧ ¬ innerAt 0 0 0 1 := by decide
example : getDistance id "10km".toList = .val (.fin 10000) := by decide +kernel
example : getDistance id "5 miles".toList = .val (.fin (201168 / 25)) := by decide +kernel
example : getDistance id "3ft".toList = .val (.fin (1143 / 1250)) := by decide +kernel
example : getDistance id "2.5 m".toList = .val (.fin (5 / 2)) := by decide +kernel
example : getDistance id ".5km".toList = .val (.fin 500) := by decide +kernel
example : getDistance id "10".toList = .val (.fin 10) := by decide +kernel
example : getDistance id "0".toList = .err "positive" ∧ getDistance id "-3".toList = .err "positive" := by decide +kernel
example : getDistance id "abc".toList = .err "numeric" ∧ getDistance id "1e3".toList = .err "invalid" := by decide +kernel
example : getDistance id "5.".toList = .err "unit" ∧ getDistance id "1.2.3".toList = .err "unit" := by decide +kernel
example : getDistance id "10 parsec".toList = .err "unit" ∧ getDistance id "".toList = .err "invalid" := by decide +kernel
example : getDistance id "inf".toList = .val .pinf ∧ getDistance id "nan".toList = .val .nan := by decide +kernel
example : Monotone (id : ℚ → ℚ) ∧ (id : ℚ → ℚ) 0 = 0 ∧ ∀ x : ℚ, 0 < x → 0 < id x := ⟨monotone_id, rfl, fun _ h => h⟩
example : roundF64 (1 / 10) = 3602879701896397 / 36028797018963968 ∧ roundF64 3 = 3 ∧ roundF64 0 = 0 := by
  decide +kernel
example : getDistance roundF64 "3ft".toList = .val (.fin (2059045749633791 / 2251799813685248)) := by decide +kernel
-- `circle_kernel(0.1, 0.1, 1)`: the double 0.1 is 3602879701896397 / 2^55 > 1/10, the quotient of the real numbers
-- is below 10, the float quotient is 10.0: half width 10 = ⌊r / c⌋ + 1 (`circle_half_width_vs_exact`); with
-- exact division it would be 9
example : Gen.circle_half_w roundF64 1 (3602879701896397 / 36028797018963968) 1 = 10 ∧
    Gen.circle_half_w id 1 (3602879701896397 / 36028797018963968) 1 = 9 ∧
    roundF64 (1 / (3602879701896397 / 36028797018963968)) = 10 := by decide +kernel
example : (∀ n : ℤ, (id : ℚ → ℚ) n = n) := fun _ => rfl
example : ulit ['2'] ['5'] = "2.5".toList ∧ decVal "2.5".toList = 5 / 2 := by decide +kernel
end examples

end XrsVerif.C19
