import XrsVerif.Proofs.BufProg
import XrsVerif.Proofs.BackendKind
import XrsVerif.Model.Aliasing
import XrsVerif.Gen.BufProgs
import XrsVerif.Gen.DaskKinds
/-
  C10 -- Analysis functions never modify their inputs and keep the raster's identity.

  Part 1 (all programs): the abstract checker `safe` of `Model/BufProg.lean` is sound for the
  concrete heap semantics `Exec`: whichever branch is taken, however often a loop runs and however
  a layout-dependent view is resolved at run time, an accepted program writes no input buffer and
  does not return (a view of) one.
  Part 2 (the library): `Gen.allEntries` holds, for every public function of /repo/xrspatial/*.py,
  the buffer program compiled from the *current* source of the NumPy path (helpers and numba kernels
  inlined, `harness/facts_bufprog.py`).  Each is accepted by the checker (kernel evaluation), hence
  by part 1 no run of it writes an input or returns an input's memory -- except where the contract
  table (`Model/Meta.lean`) documents a view (trim, crop, custom_kernel).
  Wrapper level (parts 1 and 2): every parameter is a raster object with three input buffers -- cells,
  coordinates (the memory of its non-index coordinate variables), attrs dict -- and every xarray constructor / copy
  primitive is an `Op.build` whose three components are fresh / deep / shallow / maybe according to the
  primitive table `Gen.primTable` (probed on the real xarray on every run).  So `agg.copy(deep=False, data=out)`
  (the result's coordinates are the input's) and `attrs = raster.attrs; attrs['unit'] = …` (the input's attrs dict
  is written) are rejected by the checker, with the component named by the driver's diagnostics.
  Part 3 (identity): the returned `DataArray(out, coords=…, dims=…, attrs=…)` takes coords, dims and
  attrs from the input raster, for every function whose contract is `identity`.
  Part 4 (array backend): `Gen.daskEntries` holds, for every public raster function with a Dask path, the *kind
  program* of that path (wrapper, dispatch and Dask branch function inlined by harness/facts_daskkind.py, raster
  parameters assumed Dask-backed).  The kind checker `BK.bcheck` is sound for every run (either branch, any iteration
  count), and it accepts every generated program: whatever such a function returns on its Dask path is a dask
  collection -- never the result of `.compute()`, `np.asarray`, `.values` or of a NumPy kernel applied to the whole
  array -- on every path, early returns included.
  Not covered here (see design_notes/C10.md): that the buffer / kind programs abstract the Python code
  faithfully (trusted translators + primitive tables, probed and observed by harness/corr_C10.py),
  that the values / coords / attrs of the inputs are unchanged on the dask backend (observed only), the output's
  shape (observed only).
-/
namespace XrsVerif.C10
open XrsVerif XrsVerif.BP XrsVerif.Meta XrsVerif.Gen

/-! ### Part 1: soundness of the checker, for every program -/

/-- the abstraction relation is preserved along every run of a program the checker accepts -/
theorem acheck_sound {k : Nat} {p : Prog} {s s' : St} (hx : Exec p s s') :
    ∀ {l l' : Taint}, Rel k s l → acheck p l = some l' → Rel k s' l' := by
  induction hx with
  | done s => intro l l' h ha; simp only [acheck, Option.some.injEq] at ha; subst ha; exact h
  | op hstep _ ih =>
    intro l l' h ha
    simp only [acheck] at ha
    split at ha
    · rename_i l1 h1; exact ih (step_rel hstep h h1) ha
    · simp at ha
  | iteL _ _ ihp ihk =>
    intro l l' h ha
    simp only [acheck] at ha
    split at ha
    · rename_i a b ha1 hb1
      exact ihk ((ihp h ha1).weaken fun v hv => has_join.mpr (Or.inl hv)) ha
    · simp at ha
  | iteR _ _ ihq ihk =>
    intro l l' h ha
    simp only [acheck] at ha
    split at ha
    · rename_i a b ha1 hb1
      exact ihk ((ihq h hb1).weaken fun v hv => has_join.mpr (Or.inr hv)) ha
    · simp at ha
  | loopExit _ ihk =>
    intro l l' h ha
    simp only [acheck] at ha
    split at ha
    · rename_i m hm
      exact ihk (h.weaken (aloop_spec hm).1) ha
    · simp at ha
  | loopIter _ _ ihb ihloop =>
    intro l l' h ha
    simp only [acheck] at ha
    split at ha
    · rename_i m hm
      obtain ⟨hsub, m', hf, hs⟩ := aloop_spec hm
      have h1 := (ihb (h.weaken hsub) hf).weaken (sub_iff.mp hs)
      refine ihloop h1 ?_
      simp only [acheck, aloop_stable hm]
      exact ha
    · simp at ha

/-- **soundness**: a program accepted by `safe` never writes an input buffer and does not return
    (a view of) one -- for every branch taken, every iteration count and every run-time resolution
    of the layout-dependent views -/
theorem safe_sound (k : Nat) (p : Prog) (s s' : St) (a0 : Taint) (ret : Nat)
    (h : Rel k s a0) (hsafe : safe p a0 ret = true) (hx : Exec p s s') :
    (∀ b, b < k → s'.dirty b = false) ∧ (∀ b, s'.env ret = some b → k ≤ b) := by
  unfold safe at hsafe
  cases hc : acheck p a0 with
  | none => simp [hc] at hsafe
  | some l =>
    simp only [hc] at hsafe
    obtain ⟨_, henv, hd⟩ := acheck_sound hx h hc
    refine ⟨hd, fun b hb => ?_⟩
    by_cases hlt : b < k
    · have := henv ret b hb hlt; simp [this] at hsafe
    · exact Nat.le_of_not_lt hlt

/-- **soundness at the wrapper level**: a program accepted by `safeAll` never writes an input buffer -- the cells,
    the coordinates or the attrs of any parameter -- and none of the slots of the returned object (cells,
    coordinates, attrs) points into one, for every branch taken, every iteration count and every run-time
    resolution of the layout-dependent views and of the `maybe` components of the xarray primitives -/
theorem safeAll_sound (k : Nat) (p : Prog) (s s' : St) (a0 : Taint) (rets : List Nat)
    (h : Rel k s a0) (hsafe : safeAll p a0 rets = true) (hx : Exec p s s') :
    (∀ b, b < k → s'.dirty b = false) ∧ (∀ r ∈ rets, ∀ b, s'.env r = some b → k ≤ b) := by
  unfold safeAll at hsafe
  cases hc : acheck p a0 with
  | none => simp [hc] at hsafe
  | some l =>
    simp only [hc, List.all_eq_true] at hsafe
    obtain ⟨_, henv, hd⟩ := acheck_sound hx h hc
    refine ⟨hd, fun r hr b hb => ?_⟩
    by_cases hlt : b < k
    · have := henv r b hb hlt
      have h2 := hsafe r hr
      simp [this] at h2
    · exact Nat.le_of_not_lt hlt

/-- one xarray primitive, stated by itself: after `x = prim(…)` a component of `x` lies in an input buffer
    only if its mode lets it share (`shallow` / `maybe`) and its source was tainted -/
theorem build_step_sound {k : Nat} {s s' : St} {l : Taint} (a b c : Part)
    (h : Rel k s l) (hx : OpStep (.build a b c) s s') :
    Rel k s' (((l.bindPart l a).bindPart l b).bindPart l c) :=
  step_rel hx h rfl

/-- the weaker check used for the documented views (trim, crop): still no input is written -/
theorem noInputWrite_sound (k : Nat) (p : Prog) (s s' : St) (a0 : Taint)
    (h : Rel k s a0) (hok : noInputWrite p a0 = true) (hx : Exec p s s') :
    ∀ b, b < k → s'.dirty b = false := by
  unfold noInputWrite at hok
  cases hc : acheck p a0 with
  | none => simp [hc] at hok
  | some l => exact (acheck_sound hx h hc).2.2

/-- the checker never accepts a program that contains an unclassified construct on a path it follows -/
theorem unknown_rejected (k : Prog) (a0 : Taint) (ret : Nat) : safe (.op .unknown k) a0 ret = false := by
  simp [safe, acheck, astep]

/-! ### Part 2: every public function of the library -/

/-- every generated program is accepted (kernel evaluation of the checker on the programs compiled
    from /repo's current source) -/
theorem all_public_conform : allEntries.all entryOk = true := by decide +kernel

/-- **no public function writes into any of its inputs**, on any run of its buffer program -/
theorem public_inputs_never_written (e : Entry) (he : e ∈ allEntries) (s' : St)
    (hx : Exec e.prog (init e.k) s') : ∀ b, b < e.k → s'.dirty b = false := by
  have hok : entryOk e = true := List.all_eq_true.mp all_public_conform e he
  unfold entryOk at hok
  split at hok
  · exact noInputWrite_sound e.k e.prog _ s' _ (rel_init e.k) hok hx
  · exact (safeAll_sound e.k e.prog _ s' _ e.ret.slots (rel_init e.k) hok hx).1

/-- **the result of a public function shares no buffer with an input**, unless the contract table
    documents a view (trim, crop, custom_kernel, get_dataarray_resolution) -/
theorem public_output_fresh (e : Entry) (he : e ∈ allEntries) (hc : e.contract.retMayAlias = false)
    (s' : St) (hx : Exec e.prog (init e.k) s') :
    (∀ b, s'.env e.ret.data = some b → e.k ≤ b) ∧ (∀ b, s'.env e.ret.coords = some b → e.k ≤ b) ∧
    (∀ b, s'.env e.ret.attrs = some b → e.k ≤ b) := by
  have hok : entryOk e = true := List.all_eq_true.mp all_public_conform e he
  unfold entryOk at hok
  simp only [hc, Bool.false_eq_true, if_false] at hok
  have h := (safeAll_sound e.k e.prog _ s' _ e.ret.slots (rel_init e.k) hok hx).2
  exact ⟨h _ (by simp [Obj.slots]), h _ (by simp [Obj.slots]), h _ (by simp [Obj.slots])⟩

/-- every parameter of every public function contributes its three components to the input buffers the two
    theorems above speak about: the `k` of an entry is three times its number of parameters, and the buffers are
    named `p`, … `p.coords`, … `p.attrs`, … -/
theorem inputs_are_components :
    allEntries.all (fun e => e.k == e.params.length && e.k % 3 == 0 &&
      (List.range (e.k / 3)).all (fun i =>
        e.params.getD (e.k / 3 + i) "" == e.params.getD i "" ++ ".coords" &&
        e.params.getD (2 * (e.k / 3) + i) "" == e.params.getD i "" ++ ".attrs")) = true := by
  decide +kernel

/-- the only functions allowed to return a view are the documented ones -/
theorem views_are_documented :
    (allEntries.filter (·.contract.retMayAlias)).all (fun e =>
      ["convolution.custom_kernel", "utils.get_dataarray_resolution", "zonal.trim", "zonal.crop"].contains e.name)
      = true := by
  decide +kernel

/-! named instances (so that a broken function is named by the build) -/
theorem slope_safe : entryOk entry_slope_slope = true := by decide +kernel
theorem aspect_safe : entryOk entry_aspect_aspect = true := by decide +kernel
theorem curvature_safe : entryOk entry_curvature_curvature = true := by decide +kernel
theorem hillshade_safe : entryOk entry_hillshade_hillshade = true := by decide +kernel
theorem spectral_safe : [entry_multispectral_arvi, entry_multispectral_evi, entry_multispectral_gci,
    entry_multispectral_nbr, entry_multispectral_nbr2, entry_multispectral_ndvi, entry_multispectral_ndmi,
    entry_multispectral_savi, entry_multispectral_sipi, entry_multispectral_ebbi,
    entry_multispectral_true_color].all entryOk = true := by decide +kernel
theorem classify_safe : [entry_classify_binary, entry_classify_reclassify, entry_classify_quantile,
    entry_classify_equal_interval, entry_classify_natural_breaks].all entryOk = true := by decide +kernel
theorem focal_safe : [entry_focal_mean, entry_focal_apply, entry_focal_focal_stats, entry_focal_hotspots,
    entry_convolution_convolution_2d, entry_convolution_convolve_2d].all entryOk = true := by decide +kernel
theorem proximity_safe : [entry_proximity_proximity, entry_proximity_allocation,
    entry_proximity_direction].all entryOk = true := by decide +kernel
theorem regions_safe : entryOk entry_zonal_regions = true := by decide +kernel
theorem zonal_tables_safe : [entry_zonal_stats, entry_zonal_crosstab, entry_zonal_apply].all entryOk = true := by
  decide +kernel
theorem trim_crop_no_input_write : [entry_zonal_trim, entry_zonal_crop].all entryOk = true := by decide +kernel
theorem perlin_safe : entryOk entry_perlin_perlin = true := by decide +kernel
theorem terrain_safe : entryOk entry_terrain_generate_terrain = true := by decide +kernel
theorem bump_safe : entryOk entry_bump_bump = true := by decide +kernel
theorem viewshed_safe : entryOk entry_viewshed_viewshed = true := by decide +kernel
theorem a_star_safe : entryOk entry_pathfinding_a_star_search = true := by decide +kernel
theorem summarize_terrain_safe : entryOk entry_analytics_summarize_terrain = true := by decide +kernel
theorem polygonize_safe : entryOk entry_polygonize_polygonize = true := by decide +kernel
theorem helpers_safe : [entry_convolution_calc_cellsize, entry_convolution_custom_kernel, entry_utils_get_xy_range,
    entry_utils_calc_res, entry_utils_get_dataarray_resolution].all entryOk = true := by decide +kernel
theorem local_safe : [entry_local_cell_stats, entry_local_combine, entry_local_lesser_frequency,
    entry_local_equal_frequency, entry_local_greater_frequency, entry_local_lowest_position,
    entry_local_highest_position, entry_local_popularity, entry_local_rank].all entryOk = true := by
  decide +kernel

/-- the translator's verdicts on its self-test (aliasing patterns with a known answer: in-place sort of a
    `ravel`, kernels writing a parameter, dict / list elements, loop-carried aliases, early returns, closures,
    `out=`, `a, b = b, a`, …): every bad pattern is rejected and every harmless one accepted -/
theorem translator_selftest :
    selftest.all (fun t => safeAll t.2.1 (inputs t.2.2.1) t.2.2.2.1 == t.2.2.2.2) = true := by decide +kernel

/-- the same self-test at the component level: a store through a parameter (`agg.attrs[k] = …`, `agg.data[...] = …`,
    `agg.coords[...] = …`, `agg[name] = …`) is a write of the corresponding input component -- cells, coordinates or
    attrs -- on every path, paths that end in `raise` included (the input must be intact when the call is rejected) -/
theorem translator_selftest_components :
    selftestWrites.all (fun t => mayWrite t.2.1 t.2.2.1 == t.2.2.2) = true := by decide +kernel

/-- nothing in any generated program was left unclassified by the translator -/
theorem no_unknown_construct : allEntries.all (fun e => !e.prog.hasUnknown) = true := by decide +kernel

/-! ### Part 3: the identity of the raster -/

/-- a `return` that conforms to an `identity p` contract yields the coords and dims of `p` and the
    attrs of `p` (possibly with the documented extra keys re-assigned), whatever the inputs carry -/
theorem identity_sound {α : Type} (p : String) (extra : List String) (r : Ret)
    (h : retConforms (.identity p extra) r = true) (inp : String → RasterMeta α) :
    (outMeta inp r).coords = some (inp p).coords ∧ (outMeta inp r).dims = some (inp p).dims ∧
    ∃ keys, (∀ k ∈ keys, k ∈ extra) ∧
      (outMeta inp r).attrs = some (attrsOutside keys (inp p).attrs, keys) := by
  cases r with
  | ctor c d a n =>
    simp only [retConforms, Bool.and_eq_true, beq_iff_eq] at h
    obtain ⟨⟨hc, hd⟩, ha⟩ := h
    subst hc hd
    refine ⟨rfl, rfl, ?_⟩
    cases a with
    | input q =>
      simp only [beq_iff_eq] at ha; subst ha
      refine ⟨[], by simp, ?_⟩
      simp only [outMeta, evalAttrs, attrsOutside, Option.some.injEq, Prod.mk.injEq, and_true]
      exact (List.filter_eq_self.mpr (by simp)).symm
    | inputPlus q keys =>
      simp only [Bool.and_eq_true, beq_iff_eq, List.all_eq_true, List.contains_eq_mem,
        decide_eq_true_eq] at ha
      obtain ⟨hq, hk⟩ := ha; subst hq
      exact ⟨keys, hk, rfl⟩
    | absent => simp at ha
    | param _ => simp at ha
    | other _ => simp at ha
  | window q => simp [retConforms] at h
  | none => simp [retConforms] at h
  | other t => simp [retConforms] at h

/-- every public function's reachable returns conform to its contract; only documented parameters
    are re-bound (zonal.apply's `values`, viewshed's `raster`) -/
theorem all_meta_conform : allMeta.all (metaOk (paramsOf allEntries)) = true := by decide +kernel

/-- **identity clause**: a function whose contract is `identity p` returns a raster with the coords
    and dims of `p` and `p`'s attrs (plus documented extra keys) -/
theorem meta_preserved {α : Type} (f : FuncMeta) (hf : f ∈ allMeta) (p : String) (extra : List String)
    (hc : (contractOf f.name (paramsOf allEntries f.name)).shape = .identity p extra)
    (r : Ret) (hr : r ∈ f.returns) (inp : String → RasterMeta α) :
    (outMeta inp r).coords = some (inp p).coords ∧ (outMeta inp r).dims = some (inp p).dims ∧
    ∃ keys, (∀ k ∈ keys, k ∈ extra) ∧
      (outMeta inp r).attrs = some (attrsOutside keys (inp p).attrs, keys) := by
  have hok : metaOk (paramsOf allEntries) f = true := List.all_eq_true.mp all_meta_conform f hf
  simp only [metaOk, conforms, Bool.and_eq_true, List.all_eq_true] at hok
  have := hok.1.1 r hr
  rw [hc] at this
  exact identity_sound p extra r this inp

/-- the identity clause is not vacuous: these functions are present and fall under it -/
theorem identity_functions_present :
    ["slope.slope", "aspect.aspect", "curvature.curvature", "hillshade.hillshade", "classify.binary",
     "classify.reclassify", "classify.quantile", "classify.natural_breaks", "classify.equal_interval",
     "convolution.convolution_2d", "focal.mean", "focal.apply", "focal.hotspots", "multispectral.arvi",
     "multispectral.evi", "multispectral.gci", "multispectral.nbr", "multispectral.nbr2", "multispectral.ndvi",
     "multispectral.ndmi", "multispectral.savi", "multispectral.sipi", "multispectral.ebbi",
     "pathfinding.a_star_search", "proximity.proximity", "proximity.allocation", "proximity.direction",
     "viewshed.viewshed", "zonal.regions"].all (fun n =>
      allMeta.any (fun f => f.name == n && !f.returns.isEmpty) &&
      (match (contractOf n (paramsOf allEntries n)).shape with | .identity _ _ => true | _ => false)) = true := by
  decide +kernel

/-! ### Part 4: the array backend -/

/-- **soundness of the kind checker**: if `lazyOk` accepts a program then every value it returns -- on any branch,
    after any number of loop iterations, from an early `return` or the last one -- is a dask collection -/
theorem lazyOk_sound (n : Nat) (p : BK.Prog) (a0 : BK.AEnv) (e : BK.Env) (x : BK.Kind)
    (h : BK.Rel e a0) (hok : BK.lazyOk n p a0 = true) (hx : BK.Exec p e (.returned x)) : x = .lazy := by
  unfold BK.lazyOk at hok
  cases hb : BK.bcheck n p a0 with
  | none => simp [hb] at hok
  | some pr =>
    obtain ⟨a', rs⟩ := pr
    simp only [hb, Bool.and_eq_true, Bool.not_eq_true'] at hok
    have hs : rs.has x = true := BK.bcheck_sound hx h hb
    cases x with
    | lazy => rfl
    | eager => simp [BK.KSet.has, hok.1] at hs
    | scalar => simp [BK.KSet.has, hok.2] at hs

/-- every generated Dask-path program is accepted (kernel evaluation of the checker on the programs compiled from
    /repo's current source) -/
theorem dask_paths_return_dask_collections : daskEntries.all (·.ok) = true := by decide +kernel

/-- **backend clause**: a public raster function called with Dask-backed rasters returns a dask collection, on every
    run of the kind program of its Dask path -/
theorem public_dask_path_keeps_backend (d : BK.DaskEntry) (hd : d ∈ daskEntries) (e : BK.Env)
    (he : ∀ p ∈ d.lazyParams, e p = .lazy) (x : BK.Kind) (hx : BK.Exec d.prog e (.returned x)) : x = .lazy :=
  lazyOk_sound d.nvars d.prog _ e x (BK.rel_init he)
    (by simpa [BK.DaskEntry.ok] using List.all_eq_true.mp dask_paths_return_dask_collections d hd) hx

/-- the kind translator's verdicts on its self-test (a thin-chunk fallback `return kernel(data.compute())`, `np.asarray`,
    `.values`, a loop that computes, the NumPy function on the Dask branch, an early eager return; harmless twins:
    `map_overlap`, an `isinstance` branch, loops of lazy arithmetic, `module=da`, computed *scalars* mixed into lazy
    arithmetic): every bad pattern is rejected and every harmless one accepted -/
theorem dask_translator_selftest : daskSelftest.all (fun t => t.2.1.ok == t.2.2) = true := by decide +kernel

/-- the backend clause is not vacuous: these functions are present -/
theorem dask_functions_present :
    ["slope.slope", "aspect.aspect", "curvature.curvature", "hillshade.hillshade", "classify.binary",
     "classify.reclassify", "classify.quantile", "classify.equal_interval", "convolution.convolution_2d",
     "focal.mean", "focal.apply", "focal.hotspots", "multispectral.arvi", "multispectral.evi", "multispectral.gci",
     "multispectral.nbr", "multispectral.nbr2", "multispectral.ndvi", "multispectral.ndmi", "multispectral.savi",
     "multispectral.sipi", "multispectral.ebbi", "proximity.proximity", "proximity.allocation",
     "proximity.direction"].all (fun n => daskEntries.any (fun d => d.name == n && !d.lazyParams.isEmpty &&
       0 < d.prog.size)) = true := by
  decide +kernel

/-! ### non-vacuity -/

/-- backend: `if thin: return kernel(data.compute())` before the lazy `map_overlap` is rejected … -/
example : BK.lazyOk 2 (BK.Prog.ofItems [.ite (BK.Prog.ofItems [.ret (.const .eager)]) .done,
    .assign 1 (.same 0), .ret (.same 1)]) (BK.initEnv [0]) = false := by decide
/-- … and it really has a run that returns an in-memory array although the parameter is a dask collection -/
example : BK.Exec (BK.Prog.ofItems [.ite (BK.Prog.ofItems [.ret (.const .eager)]) .done,
    .assign 1 (.same 0), .ret (.same 1)]) (fun _ => .lazy) (.returned .eager) :=
  .iteLret (.ret (.const .eager _))
/-- the lazy shape is accepted; a computed scalar mixed into lazy arithmetic stays lazy; a loop that may compute is not -/
example : BK.lazyOk 3 (BK.Prog.ofItems [.assign 1 (.const .eager), .assign 2 (.lift [0, 1]), .ret (.same 2)])
    (BK.initEnv [0]) = true := by decide
example : BK.lazyOk 2 (BK.Prog.ofItems [.assign 1 (.same 0),
    .loop (BK.Prog.ofItems [.assign 1 (.const .eager)]), .ret (.same 1)]) (BK.initEnv [0]) = false := by decide
example : 24 ≤ daskEntries.length := by decide

/-- the shape of the perlin defect: `data = agg.data; data[:] = …; return data` is rejected … -/
example : safe (Prog.ofItems [.op (.viewOf 1 0), .op (.write 1), .op (.viewOf 2 1)]) (inputs 1) 2 = false := by
  decide
/-- … and it really has a run that writes the input buffer and returns it -/
example : ∃ s', Exec (Prog.ofItems [.op (.viewOf 1 0), .op (.write 1), .op (.viewOf 2 1)]) (init 1) s' ∧
    s'.dirty 0 = true ∧ s'.env 2 = some 0 := by
  refine ⟨_, .op (.viewOf 1 0 _) (.op (.write 1 _) (.op (.viewOf 2 1 _) (.done _))), ?_, ?_⟩ <;>
    simp [St.bindTo, St.mark, init]
/-- the repaired shape (`data = kernel(...)` allocates) is accepted -/
example : safe (Prog.ofItems [.op (.viewOf 1 0), .op (.alloc 1), .op (.write 1), .op (.viewOf 2 1)]) (inputs 1) 2
    = true := by decide
/-- a layout-dependent view (`ravel`) followed by a write is rejected although one resolution is harmless -/
example : safe (Prog.ofItems [.op (.maybeView 1 0), .op (.write 1)]) (inputs 1) 2 = false := by decide
/-- a loop needs its second abstract pass: `b` picks up the input in pass 1, `a` picks it up from `b` in
    pass 2, and the write through `a` is found -/
example : safe (Prog.ofItems [.op (.alloc 1), .op (.alloc 2),
    .loop (Prog.ofItems [.op (.write 1), .op (.viewOf 1 2), .op (.viewOf 2 0)])]) (inputs 1) 3 = false := by decide
/-- the same loop without the write is accepted, and a branch that copies on one side only is joined -/
example : safe (Prog.ofItems [.ite (Prog.ofItems [.op (.copyOf 1 0)]) (Prog.ofItems [.op (.viewOf 1 0)]),
    .op (.write 1)]) (inputs 1) 2 = false := by decide
/-! wrapper level: input raster 0 owns the buffers 0 (cells), 1 (coordinates), 2 (attrs) -/
/-- the template shape `result = agg.copy(deep=False, data=out)`: rejected … -/
example : safeAll (Prog.ofItems [.op (.alloc 3),
    .op (wprim_copy_shallow_data.build ⟨4, 5, 6⟩ (some 3) (some 1) (some 2))]) (inputs 3) [4, 5, 6] = false := by decide
/-- … and it really has a run in which the coordinates of the result are the input's coordinate buffer while its
    cells and attrs are fresh -/
example : ∃ s', Exec (Prog.ofItems [.op (.alloc 3),
    .op (wprim_copy_shallow_data.build ⟨4, 5, 6⟩ (some 3) (some 1) (some 2))]) (init 3) s' ∧
    s'.env 5 = some 1 ∧ s'.env 4 = some 3 ∧ s'.env 6 = some 4 := by
  refine ⟨_, .op (.alloc 3 _) (.op (.build _ _ _ true true false _ ?_ ?_ ?_) (.done _)), ?_, ?_, ?_⟩ <;>
    simp [Part.admits, Part.mayShare, Part.mayCopy, wprim_copy_shallow_data, St.bindPart, St.bindTo,
      St.bindFresh, init]
/-- the constructor shape `DataArray(out, coords=agg.coords, dims=agg.dims, attrs=agg.attrs)` and the deep template
    `agg.copy(deep=True, data=out)` are accepted -/
example : safeAll (Prog.ofItems [.op (.alloc 3),
    .op (wprim_DataArray.build ⟨4, 5, 6⟩ (some 3) (some 1) (some 2))]) (inputs 3) [4, 5, 6] = true := by decide
example : safeAll (Prog.ofItems [.op (.alloc 3),
    .op (wprim_copy_deep_data.build ⟨4, 5, 6⟩ (some 3) (some 1) (some 2))]) (inputs 3) [4, 5, 6] = true := by decide
/-- `try: attrs = deepcopy(raster.attrs) except TypeError: attrs = raster.attrs` followed by `attrs['unit'] = …`:
    rejected, and the run through the handler writes the input's attrs buffer -/
example : safeAll (Prog.ofItems [.op (.copyOf 3 2), .ite (Prog.ofItems [.op (.viewOf 3 2)]) .done, .op (.write 3),
    .op (.alloc 4), .op (wprim_DataArray.build ⟨5, 6, 7⟩ (some 4) (some 1) (some 3))]) (inputs 3) [5, 6, 7] = false := by
  decide
example : ∃ s', Exec (Prog.ofItems [.op (.copyOf 3 2), .ite (Prog.ofItems [.op (.viewOf 3 2)]) .done, .op (.write 3)])
    (init 3) s' ∧ s'.dirty 2 = true := by
  refine ⟨_, .op (.copyOf 3 2 _) (.iteL (.op (.viewOf 3 2 _) (.done _)) (.op (.write 3 _) (.done _))), ?_⟩
  simp [St.bindTo, St.bindFresh, St.mark, init]
/-- a `maybe` component (`astype(copy=False)`) is treated as shared although one resolution is harmless -/
example : safeAll (Prog.ofItems [.op (wprim_astype_nocopy.build ⟨4, 5, 6⟩ (some 0) (some 1) (some 2)), .op (.write 4)])
    (inputs 3) [] = false := by decide
example : 50 ≤ allEntries.length := by decide
example : primTable.length = 12 := by decide
example : retConforms (.identity "agg" []) (.ctor (.input "agg") (.input "agg") (.input "agg") (.param "name")) = true := by
  decide
example : retConforms (.identity "agg" []) (.ctor .absent (.input "agg") (.input "agg") (.param "name")) = false := by
  decide

end XrsVerif.C10
