import XrsVerif.Proofs.Effects
import XrsVerif.Core.Dataflow
import XrsVerif.Gen.Effects
/-
  C11 -- Results depend only on the arguments, not on earlier calls or thread timing.

  The theorems are about the *abstraction* of Model/Effects.lean: a public call is an arbitrary pure
  function of its arguments and of what it observes of the shared state (global RNG, module tables,
  mutable defaults, rebound globals, values frozen into numba dispatchers), and which shared cells
  it touches, in which order, is given by its effect summary.  The summaries (`Gen.summary_*`,
  `Gen.volatile`, `Gen.allKernelFacts`, `Gen.taskSummaries`) are regenerated from /repo's current
  source on every run (harness/facts_effects.py), so the instances below are re-decided against
  what the code says now.  What the summaries cannot see (real data races, numba / dask internals,
  effects hidden behind dynamic dispatch) is covered only by the differential harness
  (harness/corr_C11.py: every call of a random history against the same call in a fresh process,
  under 1..16 threads).  This property is therefore *partial*: proof of the abstraction + explored
  histories.
-/
set_option linter.unusedVariables false
set_option linter.unusedSectionVars false
namespace XrsVerif.C11
open XrsVerif XrsVerif.Effects

variable {A V R : Type}

/-- `bump` draws its locations from the unseeded global RNG *by contract*: it is not a function of its
    arguments, so it is not a subject of the property -- but it is a perturber in every history. -/
def unseededByContract : List String := ["bump.bump"]

/-- the argument aspects a seeded generator may look at: the seed, the template's shape and other
    metadata (dims / attrs / dtype / backend / chunks -- never its cell values), the extent
    (`freq`, `x_range`, `y_range`, `full_extent`) and the explicit scale / label parameters -/
def generatorInputs : List String :=
  ["seed", "agg.shape", "agg.dims", "agg.attrs", "agg.coords", "agg.dtype", "agg.backend", "agg.chunks",
   "agg.ndim", "agg.size", "freq", "x_range", "y_range", "full_extent", "zfactor", "name"]

/-! ### history independence (for all finite histories, by induction over the history) -/

/-- **history_independent.**  `W` = the cells anybody may write.  After *any* finite history `h` of calls
    that write only inside `W` (they need not be deterministic themselves: `bump` is allowed), a call
    whose summary passes `noStale W` returns what it returns in a fresh interpreter. -/
theorem history_independent (W : List Cell) (cells : Cell → V) (h : List (Call A V R)) (c : Call A V R)
    (hh : ∀ p ∈ h, confined W p.prog = true) (hc : noStale W [] c.prog = true) :
    (step (runHist (Lib.fresh cells) h) c).2 = (step (Lib.fresh cells) c).2 :=
  step_result_eq W cells _ _ c hc (runHist_inv W cells h _ hh (fresh_inv W cells)) (fresh_inv W cells)

/-- the form of DESIGN.md: every summary in `h` and `c` satisfies NoStaleRead -/
theorem history_independent_noStale (W : List Cell) (cells : Cell → V) (h : List (Call A V R)) (c : Call A V R)
    (hh : ∀ p ∈ h, noStale W [] p.prog = true) (hc : noStale W [] c.prog = true) :
    (step (runHist (Lib.fresh cells) h) c).2 = (step (Lib.fresh cells) c).2 :=
  history_independent W cells h c (fun p hp => noStale_confined W p.prog [] (hh p hp)) hc

/-- repeating a call (with anything in between) gives the identical result -/
theorem repeat_identical (W : List Cell) (cells : Cell → V) (h₁ h₂ : List (Call A V R)) (c : Call A V R)
    (hh₁ : ∀ p ∈ h₁, confined W p.prog = true) (hh₂ : ∀ p ∈ h₂, confined W p.prog = true)
    (hc : noStale W [] c.prog = true) :
    (step (runHist (Lib.fresh cells) (h₁ ++ c :: h₂)) c).2 = (step (runHist (Lib.fresh cells) h₁) c).2 := by
  have hcc := noStale_confined W c.prog [] hc
  rw [history_independent W cells (h₁ ++ c :: h₂) c ?_ hc, history_independent W cells h₁ c hh₁ hc]
  intro p hp
  rcases List.mem_append.mp hp with hp | hp
  · exact hh₁ p hp
  · rcases List.mem_cons.mp hp with hp | hp
    · rw [hp]; exact hcc
    · exact hh₂ p hp

/-! ### the generated summaries satisfy the hypotheses (re-decided on every run) -/

/-- every function of the library writes only the cells listed in `Gen.volatile` -/
theorem all_confined : Gen.allSummaries.all (fun σ => confined Gen.volatile σ.prog) = true := by decide +kernel

/-- every function of the library except `bump` reads shared state only after overwriting it in the
    same call, never mutates a table / default / global, and every reusable dispatcher captures
    module constants only (proximity's closure over its arguments is created per call) -/
theorem all_noStale :
    Gen.allSummaries.all (fun σ => unseededByContract.contains σ.name || noStale Gen.volatile [] σ.prog) = true := by
  decide +kernel

/-- no CPU kernel persists compiled code on disk (`cache=True` would outlive the interpreter) -/
theorem no_persistent_cache : Gen.allKernelFacts.all (fun k => !k.cache) = true := by decide +kernel

/-- **the library instance**: any history of library calls (bump included, any arguments), then any
    library function other than bump: same result as in a fresh interpreter -/
theorem library_history_independent [Inhabited V] (cells : Cell → V)
    (h : List (Summary × Sem (String → V) V R × (String → V))) (σ : Summary)
    (sem : Sem (String → V) V R) (args : String → V)
    (hh : ∀ p ∈ h, p.1 ∈ Gen.allSummaries) (hσ : σ ∈ Gen.allSummaries)
    (hs : unseededByContract.contains σ.name = false) :
    (step (runHist (Lib.fresh cells) (h.map fun p => p.1.call p.2.1 p.2.2)) (σ.call sem args)).2 =
      (step (Lib.fresh cells) (σ.call sem args)).2 := by
  apply history_independent Gen.volatile
  · intro p hp
    rcases List.mem_map.mp hp with ⟨q, hq, rfl⟩
    exact (List.all_eq_true.mp all_confined) q.1 (hh q hq)
  · have := (List.all_eq_true.mp all_noStale) σ hσ
    simp only [Bool.or_eq_true] at this
    rcases this with h' | h'
    · rw [hs] at h'; cases h'
    · exact h'

/-! ### the caller's own objects (arguments it keeps, passes again, derives later arguments from) -/

/-- The one kind of caller-owned state the library does touch: the *binding* of a raster's array
    (`x.data = x.data.rechunk(..)`, `x.values = x.values.astype(float64)`, and `zonal.apply`, in place by
    contract: "Change the agg content").  Nobody *reads* a binding in the model: what a call sees of its
    arguments is part of `A`, and the harness takes the argument snapshot at call time. -/
def toleratedCallerWrites : List Cell := [.param "binding"]

/-- who re-binds an argument's array: `zonal.apply` (by contract), `viewshed` (float64 cast),
    `validate_arrays` and its users / dask proximity / dask zonal (re-chunk: values, coords, attrs unchanged) -/
def knownRebinders : List String :=
  ["zonal.apply", "viewshed.viewshed", "utils.validate_arrays", "zonal.stats", "zonal.crosstab",
   "proximity.proximity", "proximity.allocation", "proximity.direction",
   "multispectral.arvi", "multispectral.ebbi", "multispectral.evi", "multispectral.gci", "multispectral.nbr",
   "multispectral.nbr2", "multispectral.ndmi", "multispectral.ndvi", "multispectral.savi", "multispectral.sipi"]

/-- **no_caller_state_written.**  No function of the library writes to the attrs, coordinates, name, cells or
    any other attribute of an object the caller passed in (`agg.attrs['res'] = ...`, `raster[x] = ...`): such a
    write outlives the call -- xarray carries attrs through slicing / `assign_coords` -- and a later call on
    that object, or on one derived from it, would see it. -/
theorem no_caller_state_written :
    Gen.allSummaries.all (fun σ => σ.prog.writes.all fun c => !c.callerOwned || toleratedCallerWrites.contains c) = true := by
  decide +kernel

/-- the array binding is re-pointed by the known functions only -/
theorem only_known_rebinders :
    Gen.allSummaries.all (fun σ => !σ.prog.writes.contains (.param "binding") || knownRebinders.contains σ.name) = true := by
  decide +kernel

/-- hence the volatile set holds no caller-owned cell but the binding ... -/
theorem volatile_caller_cells :
    Gen.volatile.all (fun c => !c.callerOwned || toleratedCallerWrites.contains c) = true := by decide +kernel

/-- **caller_objects_untouched.**  ... and after *any* history of library calls (any arguments) the attrs,
    coordinates, name and cells of every object the caller holds are what they were: an argument derived
    from them (a strided view, rescaled coordinates) equals the argument derived in a fresh interpreter, and
    `library_history_independent` (whose calls may *read* these cells) applies to the call made with it. -/
theorem caller_objects_untouched [Inhabited V] (cells : Cell → V)
    (h : List (Summary × Sem (String → V) V R × (String → V))) (hh : ∀ p ∈ h, p.1 ∈ Gen.allSummaries)
    (c : Cell) (hc : c.callerOwned = true) (hb : toleratedCallerWrites.contains c = false) :
    (runHist (Lib.fresh cells) (h.map fun p => p.1.call p.2.1 p.2.2)).cells c = cells c := by
  have hv : Gen.volatile.contains c = false := by
    cases hcv : Gen.volatile.contains c with
    | false => rfl
    | true =>
      have := (List.all_eq_true.mp volatile_caller_cells) c (List.contains_iff_mem.mp hcv)
      rw [hc, hb] at this
      cases this
  have hi := runHist_inv Gen.volatile cells (h.map fun p => p.1.call p.2.1 p.2.2) (Lib.fresh cells)
    (by
      intro p hp
      rcases List.mem_map.mp hp with ⟨q, hq, rfl⟩
      exact (List.all_eq_true.mp all_confined) q.1 (hh q hq))
    (fresh_inv Gen.volatile cells)
  exact hi.cells_eq c hv

/-! ### seeded generators -/

/-- a call through a summary sees only the argument aspects listed in `deps` -/
theorem call_congr [Inhabited V] (σ : Summary) (sem : Sem (String → V) V R) (args args' : String → V)
    (h : ∀ k, σ.deps.contains k = true → args k = args' k) : σ.call sem args = σ.call sem args' := by
  unfold Summary.call restrict
  congr 1
  funext k
  by_cases hk : σ.deps.contains k = true
  · simp only [hk, if_true]; exact h k hk
  · simp only [hk]; rfl

/-- perlin reads only generator inputs of its arguments (never the template's cell values) -/
theorem perlin_reads_inputs_only :
    Gen.summary_perlin_perlin.deps.all generatorInputs.contains = true := by decide

/-- generate_terrain reads only generator inputs of its arguments -/
theorem generate_terrain_reads_inputs_only :
    Gen.summary_terrain_generate_terrain.deps.all generatorInputs.contains = true := by decide

/-- **seeded_generators.**  perlin / generate_terrain after any two histories of library calls and with
    any two argument tuples that agree on (seed, shape & metadata, extent, scale): identical results.
    In particular the global RNG state, the template's cell values and earlier calls are irrelevant. -/
theorem seeded_generators [Inhabited V] (cells : Cell → V)
    (h h' : List (Summary × Sem (String → V) V R × (String → V))) (σ : Summary)
    (hσ : σ = Gen.summary_perlin_perlin ∨ σ = Gen.summary_terrain_generate_terrain)
    (sem : Sem (String → V) V R) (args args' : String → V)
    (hh : ∀ p ∈ h, p.1 ∈ Gen.allSummaries) (hh' : ∀ p ∈ h', p.1 ∈ Gen.allSummaries)
    (hag : ∀ k ∈ generatorInputs, args k = args' k) :
    (step (runHist (Lib.fresh cells) (h.map fun p => p.1.call p.2.1 p.2.2)) (σ.call sem args)).2 =
      (step (runHist (Lib.fresh cells) (h'.map fun p => p.1.call p.2.1 p.2.2)) (σ.call sem args')).2 := by
  have hmem : σ ∈ Gen.allSummaries := by rcases hσ with rfl | rfl <;> decide +kernel
  have hname : unseededByContract.contains σ.name = false := by rcases hσ with rfl | rfl <;> decide
  have hdeps : σ.deps.all generatorInputs.contains = true := by
    rcases hσ with rfl | rfl
    · exact perlin_reads_inputs_only
    · exact generate_terrain_reads_inputs_only
  have hc : σ.call sem args = σ.call sem args' := by
    apply call_congr
    intro k hk
    apply hag
    have := (List.all_eq_true.mp hdeps) k (List.contains_iff_mem.mp hk)
    exact List.contains_iff_mem.mp this
  rw [library_history_independent cells h σ sem args hh hmem hname,
      library_history_independent cells h' σ sem args' hh' hmem hname, hc]

/-! ### kernels and thread counts -/

/-- **sequential_kernels.**  With `parallel=False` (or no `prange`) a kernel is a sequential fold over its
    iteration space: whatever the thread count and whatever the scheduler would have done -/
theorem sequential_kernels {β ι : Type} (kf : KernelFacts) (hk : (kf.parallel && kf.prange) = false)
    (l : Loop β ι) (b : β) (t t' : Nat) (sched sched' : Nat → List ι → List ι) :
    l.run kf t sched b = l.idxs.foldl l.body b ∧ l.run kf t sched b = l.run kf t' sched' b := by
  simp [Loop.run, hk]

/-- a `parallel=True` kernel whose iterations write only their own cell gives the same result for
    every thread count and every assignment of iterations to threads -/
theorem own_cell_kernels {ι V : Type} [DecidableEq ι] (kf : KernelFacts) (idxs : List ι) (g : ι → V)
    (b : ι → V) (t t' : Nat) (sched sched' : Nat → List ι → List ι)
    (hs : ∀ n, (sched n idxs).Perm idxs) (hs' : ∀ n, (sched' n idxs).Perm idxs) :
    (Loop.ownCell idxs g).run kf t sched b = (Loop.ownCell idxs g).run kf t' sched' b := by
  have comm : ∀ (x y : ι) (z : ι → V),
      (Loop.ownCell idxs g).body ((Loop.ownCell idxs g).body z x) y =
      (Loop.ownCell idxs g).body ((Loop.ownCell idxs g).body z y) x := by
    intro x y z
    funext k
    simp only [Loop.ownCell]
    by_cases h1 : k = y <;> by_cases h2 : k = x <;> simp_all
  have key : ∀ (o : List ι), o.Perm idxs →
      o.foldl (Loop.ownCell idxs g).body b = idxs.foldl (Loop.ownCell idxs g).body b := by
    intro o ho
    exact ho.foldl_eq' (fun x _ y _ z => comm x y z) b
  unfold Loop.run
  have e : (Loop.ownCell idxs g).idxs = idxs := rfl
  rw [e]
  by_cases hk : (kf.parallel && kf.prange) = true
  · simp only [hk, if_true]
    rw [key _ (hs t), key _ (hs' t')]
  · simp only [hk]
    rfl

/-- every CPU kernel of /repo is sequential (`parallel=False`: `prange` is `range`), or its `prange` body
    writes only its own cell -- the two cases covered by the theorems above -/
theorem all_kernels_thread_safe : Gen.allKernelFacts.all threadSafe = true := by decide +kernel

/-! ### dask graphs: any schedule, any number of workers, any timing relative to other calls -/

/-- the functions handed to dask write no shared state and read none that anybody writes -/
theorem tasks_pure :
    Gen.taskSummaries.all (fun σ => confined [] σ.prog && noStale Gen.volatile [] σ.prog) = true := by decide +kernel

/-- **schedule_independent** (Core/Dataflow, DESIGN A.6) instantiated with tasks that are library
    functions: task `i` runs `task i inputs` against whatever library state `st i` the worker thread
    finds (any state reachable by library calls completed before or concurrently -- `hist i`).  Two
    executions with different schedules, worker counts and timings agree on every value they compute. -/
theorem dask_schedule_independent (W : List Cell) (cells : Cell → V)
    (deps : Nat → List Nat) (deps_lt : ∀ i j, j ∈ deps i → j < i)
    (task : Nat → List R → Call A V R) (hp : ∀ i ins, noStale W [] (task i ins).prog = true)
    (hist₁ hist₂ : Nat → List (Call A V R))
    (hh₁ : ∀ i, ∀ p ∈ hist₁ i, confined W p.prog = true) (hh₂ : ∀ i, ∀ p ∈ hist₂ i, confined W p.prog = true)
    (s₁ s₂ : List (List Nat)) (i : Nat) (v w : R)
    (h₁ : DF.run ⟨deps, fun i ins => (step (runHist (Lib.fresh cells) (hist₁ i)) (task i ins)).2, deps_lt⟩ s₁
            (fun _ => none) i = some v)
    (h₂ : DF.run ⟨deps, fun i ins => (step (runHist (Lib.fresh cells) (hist₂ i)) (task i ins)).2, deps_lt⟩ s₂
            (fun _ => none) i = some w) : v = w := by
  have e : (fun i ins => (step (runHist (Lib.fresh cells) (hist₁ i)) (task i ins)).2) =
      (fun i ins => (step (runHist (Lib.fresh cells) (hist₂ i)) (task i ins)).2) := by
    funext i ins
    rw [history_independent W cells (hist₁ i) (task i ins) (hh₁ i) (hp i ins),
        history_independent W cells (hist₂ i) (task i ins) (hh₂ i) (hp i ins)]
  rw [e] at h₁
  exact DF.schedule_independent _ s₁ s₂ i v w h₁ h₂

/-! ### non-vacuity -/

/-- a concrete semantics over `Nat`: seeding stores the first argument, drawing advances by one, the
    result is everything that was observed -/
def demoSem : Sem (String → Nat) Nat (List Nat) :=
  { seedv := fun a _ => a "seed", adv := fun v => v + 1, mutv := fun a _ v => v + a "seed",
    capArg := fun a n => a n, sig := fun _ _ => 0, iters := fun _ _ => 2, out := fun _ t => t }

def demoArgs (seed : Nat) : String → Nat := fun k => if k = "seed" then seed else 0

/-- the hypotheses hold for real summaries ... -/
example : noStale Gen.volatile [] Gen.summary_perlin_perlin.prog = true := by decide
example : noStale Gen.volatile [] Gen.summary_proximity_proximity.prog = true := by decide
example : Gen.summary_perlin_perlin.prog.writes.contains .rng = true := by decide
/-- ... and they reject something real: bump is confined (a legal perturber) but not `noStale` -/
example : confined Gen.volatile Gen.summary_bump_bump.prog = true ∧
    noStale Gen.volatile [] Gen.summary_bump_bump.prog = false := by decide
/-- the hypothesis is needed: bump after perlin(seed=7) differs from bump in a fresh interpreter -/
example : (step (runHist (Lib.fresh fun _ => 0)
      [Gen.summary_perlin_perlin.call demoSem (demoArgs 7)]) (Gen.summary_bump_bump.call demoSem (demoArgs 0))).2
    ≠ (step (Lib.fresh fun _ => 0) (Gen.summary_bump_bump.call demoSem (demoArgs 0))).2 := by decide
/-- perlin(seed=3) after perlin(seed=7) and bump equals perlin(seed=3) fresh (an instance of the theorem) -/
example : (step (runHist (Lib.fresh fun _ => 0)
      [Gen.summary_perlin_perlin.call demoSem (demoArgs 7), Gen.summary_bump_bump.call demoSem (demoArgs 0)])
      (Gen.summary_perlin_perlin.call demoSem (demoArgs 3))).2
    = (step (Lib.fresh fun _ => 0) (Gen.summary_perlin_perlin.call demoSem (demoArgs 3))).2 := by decide

/-- a closure over the arguments jitted ONCE (module-level dispatcher) is stale on the second call ... -/
def staleClosure : Prog :=
  .op (.jit { name := "m.f", fresh := false, cache := false, caps := [.arg "seed"] }) .nil
example : noStale [] [] staleClosure = false := by decide
example : (step (runHist (Lib.fresh fun _ => 0) [⟨staleClosure, demoArgs 1, demoSem⟩]) ⟨staleClosure, demoArgs 2, demoSem⟩).2
    ≠ (step (Lib.fresh fun _ => 0) (⟨staleClosure, demoArgs 2, demoSem⟩ : Call _ _ _)).2 := by decide
/-- ... while the same closure created per call (what proximity does) is accepted -/
example : noStale [] [] (.op (.jit { name := "m.f", fresh := true, cache := false, caps := [.arg "seed"] }) .nil) = true := by
  decide

/-- caller-owned state: a summary that stamps its argument's attrs is rejected, and the functions reading
    `agg.attrs` (slope through `get_dataarray_resolution`) really have that read in their summary, so that
    such a write makes them stale -/
example : (Prog.op (.mutate (.param "attrs")) .nil).writes.all
    (fun c => !c.callerOwned || toleratedCallerWrites.contains c) = false := by decide
example : Gen.summary_slope_slope.prog.exposed.contains (.param "attrs") = true := by decide +kernel
example : noStale [.param "attrs"] [] Gen.summary_slope_slope.prog = false := by decide +kernel
/-- a module-level generator object: drawing from it without re-seeding it in the same call is stale -/
example : noStale [.table "m.G"] [] (.op (.draw (.table "m.G")) .nil) = false ∧
    noStale [.table "m.G"] [] (.op (.seed (.table "m.G")) (.op (.draw (.table "m.G")) .nil)) = true := by decide

/-- kernels: a racy parallel kernel is rejected, the facts of /repo's `_apply_numpy` are accepted only
    because it is sequential -/
example : threadSafe { name := "k", parallel := true, prange := true, racy := true, cache := false, fastmath := false } = false := by
  decide
example : Gen.kf_focal__apply_numpy.racy = true ∧ Gen.kf_focal__apply_numpy.parallel = false := by decide

end XrsVerif.C11
