import XrsVerif.Proofs.Focal
import XrsVerif.Proofs.FocalHot
import XrsVerif.Proofs.ILFocal
import XrsVerif.Proofs.ILApplyRefines
import XrsVerif.Proofs.ILApplyEven
import XrsVerif.Proofs.ILMeanIter
/-
  C09 -- Focal results are statistics of exactly the cells under the kernel.

  Model: `Model/Focal.lean` (`applyFlat`, `focalStats`, `meanN`, `convolve`, `hotspots`), whose loop bounds, index
  expressions, guards and tables are the *generated* constants of `Gen/Focal.lean` (regenerated from
  xrspatial/focal.py and xrspatial/convolution.py on every run), and the *generated* kernel
  `Gen.hotspots_cpu`.  The model runs the source's loops (folds in iteration order, one gather buffer threaded
  through the whole raster loop); the theorems below say what those loops compute, in closed form, for every
  raster size, every kernel shape and every reducer.

  Part A holds at every `Fl` instance -- also IEEE `Float`, the instance the driver executes --
  because only index bookkeeping is involved.  Part B is over `NV K` (NaN or an element of an arbitrary
  ordered field; ±inf not represented; exact arithmetic -- float rounding is covered by the correspondence
  run only); `sqrt` is an arbitrary function (`Trig K`).
-/
set_option linter.unusedSectionVars false
set_option linter.unusedVariables false
namespace XrsVerif.C09
open XrsVerif XrsVerif.Focal XrsVerif.Gen.Focal

/-! ## Part A: which cells -- any number type -/
section Generic
variable {F : Type} [Fl F]

/-- **apply_window.** `_apply_numpy` calls the reducer, for every output cell (y, x) in row-major order, with
    exactly the window `specWindow … y x` -- for every raster size, every kernel shape (also non-square,
    asymmetric, larger than the raster) and every reducer.  (`window_entry` spells the window out.) -/
theorem apply_window (data kernel : Arr F) (rows cols krows kcols : Nat) (func : List (List F) → F) :
    applyFlat data kernel rows cols krows kcols func =
      (allCells rows cols).map fun c => func (specWindow data kernel rows cols krows kcols c.1 c.2) :=
  applyCells_eq data kernel rows cols krows kcols func rfl _ _

/-- the window has the kernel's shape and its entry (a, b) is `data[y - krows/2 + a, x - kcols/2 + b]` when
    `kernel[a, b] == 1` and that cell is inside the raster, NaN otherwise: no transpose, no mirror, rows with
    rows.  For an odd shape `krows/2 = (krows-1)/2`, i.e. the window is centred on (y, x). -/
theorem window_entry (data kernel : Arr F) (rows cols krows kcols : Nat) (y x : Int) (a b : Nat)
    (ha : a < krows) (hb : b < kcols) :
    ((specWindow data kernel rows cols krows kcols y x)[a]?.bind (·[b]?)) =
      some (if (decide (0 ≤ y - ((krows / 2 : Nat) : Int) + a ∧ y - ((krows / 2 : Nat) : Int) + a < rows ∧
                   0 ≤ x - ((kcols / 2 : Nat) : Int) + b ∧ x - ((kcols / 2 : Nat) : Int) + b < cols) &&
                 Fl.eq (kernel a b) (Fl.lit 1 1))
            then data (y - ((krows / 2 : Nat) : Int) + a) (x - ((kcols / 2 : Nat) : Int) + b) else Fl.nan) := by
  simp [specWindow, windowOf, gatherSpec, nanArr, ha, hb]

theorem window_shape (data kernel : Arr F) (rows cols krows kcols : Nat) (y x : Int) :
    (specWindow data kernel rows cols krows kcols y x).length = krows ∧
      ∀ r ∈ specWindow data kernel rows cols krows kcols y x, r.length = kcols := by
  simp [specWindow, windowOf]

/-- the gather does not depend on what the buffer held before (the per-cell reset is in the source):
    the generated fact the proof of `apply_window` consumes -/
theorem apply_buffer_reset : apply_fill_each_step = true := rfl

/-- **mean_spec (one pass).** an excluded cell is passed through; any other cell becomes `nanmean` of the
    cells of the full 3x3 window around it that lie inside the raster (row-major, NaN cells ignored by
    `nanmean`) -/
theorem mean_spec (data : Arr F) (rows cols : Nat) (excludes : List F) (y x : Int) :
    meanCell data rows cols excludes y x =
      if isExcluded excludes (data y x) then data y x
      else nanmean (footprintSel (fun _ _ => true) data rows cols 3 3 y x) := by
  unfold meanCell
  simp only [mean_excluded_pass_through, if_true, mean_reducer, npReducer, mean_row_lo, mean_row_hi, mean_col_lo,
    mean_col_hi, mean_slice_eq]

/-- reading the output of one pass -/
theorem meanPass_get (rows cols : Nat) (excludes : List F) (g : Rows F) (y x : Int)
    (hy : 0 ≤ y) (hy' : y < rows) (hx : 0 ≤ x) (hx' : x < cols) :
    (meanPass rows cols excludes g).get y x = meanCell g.get rows cols excludes y x := by
  obtain ⟨yn, rfl⟩ := Int.eq_ofNat_of_zero_le hy
  obtain ⟨xn, rfl⟩ := Int.eq_ofNat_of_zero_le hx
  have h1 : yn < rows := by omega
  have h2 : xn < cols := by omega
  simp [Rows.get, meanPass, h1, h2]

/-- the generated fact about the wrapper `mean()`: the float raster is fed through the one-pass function
    `passes` times (`for _ in range(passes): out = _mean(out, excludes)`), the loop sits in `mean()` itself, the
    iterated value is what is returned, and the glue `_mean` calls the backend function selected for the raster exactly
    once per call, with (data, excludes), outside any control flow.  (A wrapper that hands `passes` to a backend instead -- to run the passes
    inside one `map_overlap`, say -- makes this `false`, and `mean_passes` below no longer checks.) -/
theorem mean_wrapper_iterates : mean_iterates_passes = true := rfl

/-- the model of `mean()` is the iteration of the one-pass operator (consumes `mean_wrapper_iterates`) -/
theorem meanN_eq_iter (rows cols : Nat) (excludes : List F) (p : Nat) (g : Rows F) :
    meanN rows cols excludes p g = meanIter rows cols excludes p g := by
  simp only [meanN, mean_wrapper_iterates, if_true]

/-- **mean_spec (passes).** `mean(agg, passes)` is the one-pass operator applied `passes` times -/
theorem mean_passes (rows cols : Nat) (excludes : List F) (p : Nat) (g : Rows F) (y x : Int)
    (hy : 0 ≤ y) (hy' : y < rows) (hx : 0 ≤ x) (hx' : x < cols) :
    (meanN rows cols excludes (p + 1) g).get y x =
      meanCell (meanN rows cols excludes p g).get rows cols excludes y x := by
  rw [meanN_eq_iter, meanN_eq_iter]
  exact meanPass_get rows cols excludes _ y x hy hy' hx hx'

theorem mean_zero_passes (rows cols : Nat) (excludes : List F) (g : Rows F) : meanN rows cols excludes 0 g = g := by
  rw [meanN_eq_iter]; rfl

/-- **excluded_pass_through.** a cell holding an excluded value keeps it through any number of passes -/
theorem excluded_pass_through (rows cols : Nat) (excludes : List F) (g : Rows F) (y x : Int)
    (hy : 0 ≤ y) (hy' : y < rows) (hx : 0 ≤ x) (hx' : x < cols)
    (hex : isExcluded excludes (g.get y x) = true) (p : Nat) :
    (meanN rows cols excludes p g).get y x = g.get y x := by
  induction p with
  | zero => rfl
  | succ p ih =>
    rw [mean_passes rows cols excludes p g y x hy hy' hx hx', mean_spec, ih, hex]
    rfl

/-- **conv_spec.** where the window fits in the raster, `convolution_2d` is the sum (accumulated from 0 in
    row-major order) of `kernel[a, b] * data[i - nkx/2 + a, j - nky/2 + b]` over the *whole* odd-shaped kernel:
    a correlation, no flip, rows with rows -/
theorem conv_spec (data kernel : Arr F) (nx ny nkx nky : Nat) (i j : Int)
    (hi0 : ((nkx / 2 : Nat) : Int) ≤ i) (hi1 : i < (nx : Int) - ((nkx / 2 : Nat) : Int))
    (hj0 : ((nky / 2 : Nat) : Int) ≤ j) (hj1 : j < (ny : Int) - ((nky / 2 : Nat) : Int))
    (hoddx : nkx % 2 = 1) (hoddy : nky % 2 = 1) :
    convCell data kernel nx ny nkx nky i j =
      fsum ((allCells nkx nky).map fun p =>
        Fl.mul (kernel p.1 p.2) (data (i - ((nkx / 2 : Nat) : Int) + p.1) (j - ((nky / 2 : Nat) : Int) + p.2))) := by
  unfold convCell
  rw [conv_terms_eq data kernel nx ny nkx nky i j hi0 hi1 hj0 hj1 hoddx hoddy]
  have h1 : conv_i_lo (convVars nx ny nkx nky i j) ≤ i := by simp only [conv_i_lo, convVars, conv_wkx]; omega
  have h2 : i < conv_i_hi (convVars nx ny nkx nky i j) := by simp only [conv_i_hi, convVars, conv_wkx]; omega
  have h3 : conv_j_lo (convVars nx ny nkx nky i j) ≤ j := by simp only [conv_j_lo, convVars, conv_wky]; omega
  have h4 : j < conv_j_hi (convVars nx ny nkx nky i j) := by simp only [conv_j_hi, convVars, conv_wky]; omega
  have : convInLoop nx ny nkx nky i j = true := by
    simp only [convInLoop, h1, h2, h3, h4, decide_true, Bool.and_self]
  simp only [this, if_true]

/-- **conv_nan_margin.** wherever the window leaves the raster the result is NaN (also: everywhere, when the
    kernel is larger than the raster) -/
theorem conv_nan_margin (data kernel : Arr F) (nx ny nkx nky : Nat) (i j : Int)
    (h : ¬ (((nkx / 2 : Nat) : Int) ≤ i ∧ i < (nx : Int) - ((nkx / 2 : Nat) : Int) ∧
            ((nky / 2 : Nat) : Int) ≤ j ∧ j < (ny : Int) - ((nky / 2 : Nat) : Int))) :
    convCell data kernel nx ny nkx nky i j = Fl.nan := by
  unfold convCell
  have : convInLoop nx ny nkx nky i j = false := by
    rw [Bool.eq_false_iff]
    intro hc
    simp only [convInLoop, Bool.and_eq_true] at hc
    obtain ⟨⟨⟨h1, h2⟩, h3⟩, h4⟩ := hc
    have h1 := of_decide_eq_true h1
    have h2 := of_decide_eq_true h2
    have h3 := of_decide_eq_true h3
    have h4 := of_decide_eq_true h4
    simp only [conv_i_lo, conv_i_hi, conv_j_lo, conv_j_hi, convVars, conv_wkx, conv_wky] at h1 h2 h3 h4
    omega
  simp [this, conv_fill_nan]

/-- the whole output: one `convCell` per raster cell, row-major -/
theorem conv_raster (data kernel : Arr F) (nx ny nkx nky : Nat) :
    convolve data kernel nx ny nkx nky = (allCells nx ny).map fun c => convCell data kernel nx ny nkx nky c.1 c.2 := rfl

/-- **kernel_validation.** `custom_kernel` requires an ndarray, rejects every shape with an even side and
    accepts every odd shape; `apply` and `focal_stats` call it before any computation -/
theorem kernel_validation :
    custom_kernel_requires_ndarray = true ∧ apply_validates_kernel = true ∧ focal_stats_validates_kernel = true ∧
      ∀ r c : Nat, kernelAccepted r c = true ↔ (r % 2 = 1 ∧ c % 2 = 1) := by
  refine ⟨rfl, rfl, rfl, ?_⟩
  intro r c
  simp only [kernelAccepted, custom_kernel_rejects, Bool.not_eq_true', Bool.or_eq_false_iff, decide_eq_false_iff_not]
  omega

theorem apply_rejects_even (data kernel : Arr F) (rows cols krows kcols : Nat) (func : List (List F) → F)
    (h : ¬ (krows % 2 = 1 ∧ kcols % 2 = 1)) :
    Focal.apply data kernel rows cols krows kcols func = .error "ValueError" := by
  have : kernelAccepted krows kcols = false := by
    rw [Bool.eq_false_iff]; intro hc; exact h ((kernel_validation.2.2.2 krows kcols).mp hc)
  simp [Focal.apply, this, apply_validates_kernel]

theorem apply_accepts_odd (data kernel : Arr F) (rows cols krows kcols : Nat) (func : List (List F) → F)
    (h : krows % 2 = 1 ∧ kcols % 2 = 1) :
    Focal.apply data kernel rows cols krows kcols func = .ok (applyFlat data kernel rows cols krows kcols func) := by
  have : kernelAccepted krows kcols = true := (kernel_validation.2.2.2 krows kcols).mpr h
  simp [Focal.apply, this]

end Generic

/-! ## Part B: which values -- NaN or an element of an ordered field, exact arithmetic -/
section Exact
variable {K : Type} [Field K] [LinearOrder K] [IsStrictOrderedRing K] [Trig K]

/-- the (finite) values of the input cells lying under the 1-entries of the kernel centred on (y, x), window
    clipped at the raster edge, NaN cells dropped -- as a list in row-major order, so with multiplicity -/
def under (data kernel : Arr (NV K)) (rows cols krows kcols : Nat) (y x : Int) : List K :=
  vals (footprint data kernel rows cols krows kcols y x)

/-- membership in `under`, spelled out -/
theorem under_mem (data kernel : Arr (NV K)) (rows cols krows kcols : Nat) (y x : Int) (v : K) :
    v ∈ under data kernel rows cols krows kcols y x ↔
      ∃ a b : Nat, a < krows ∧ b < kcols ∧ kernel a b = some 1 ∧
        0 ≤ y - ((krows / 2 : Nat) : Int) + a ∧ y - ((krows / 2 : Nat) : Int) + a < rows ∧
        0 ≤ x - ((kcols / 2 : Nat) : Int) + b ∧ x - ((kcols / 2 : Nat) : Int) + b < cols ∧
        data (y - ((krows / 2 : Nat) : Int) + a) (x - ((kcols / 2 : Nat) : Int) + b) = some v := by
  unfold under vals footprint footprintSel
  simp only [List.mem_filterMap, id]
  constructor
  · rintro ⟨c, ⟨p, hp, hc⟩, rfl⟩
    obtain ⟨a, b, ha, hb, rfl⟩ := (mem_allCells _ _ _).mp hp
    refine ⟨a, b, ha, hb, ?_⟩
    split at hc
    · rename_i h
      simp only [Bool.and_eq_true, decide_eq_true_eq, fl_eq_one] at h
      simp only [Option.some.injEq] at hc
      exact ⟨h.2, h.1.1.1, h.1.1.2, h.1.2.1, h.1.2.2, hc⟩
    · simp at hc
  · rintro ⟨a, b, ha, hb, hk, h1, h2, h3, h4, hd⟩
    refine ⟨some v, ⟨((a : Int), (b : Int)), (mem_allCells _ _ _).mpr ⟨a, b, ha, hb, rfl⟩, ?_⟩, rfl⟩
    have hk' : Fl.eq (kernel (a : Int) (b : Int)) (Fl.lit 1 1 : NV K) = true := (fl_eq_one _).mpr hk
    simp only [hk', h1, h2, h3, h4, and_self, decide_true, Bool.and_self, if_true, hd]

/-- what the reducer sees and what lies under the kernel are the same values -/
theorem window_vals (data kernel : Arr (NV K)) (rows cols krows kcols : Nat) (y x : Int) :
    vals (specWindow data kernel rows cols krows kcols y x).flatten = under data kernel rows cols krows kcols y x :=
  vals_specWindow data kernel rows cols krows kcols y x

/-- **builtin_stats.** each built-in reducer, applied to the window `apply` hands it, is the statistic of the
    values under the kernel: sum, arithmetic mean, greatest, least, greatest − least, population variance,
    its square root.  An empty footprint (every covered cell NaN, or no 1-entry inside the raster) gives
    NaN for all of them except the sum, which is 0 -- as on the real code. -/
theorem builtin_stats (data kernel : Arr (NV K)) (rows cols krows kcols : Nat) (y x : Int) :
    let w := (specWindow data kernel rows cols krows kcols y x).flatten
    let u := under data kernel rows cols krows kcols y x
    nansum w = some u.sum ∧
    nanmean w = (if u = [] then none else some (u.sum / (u.length : K))) ∧
    nanvar w = (if u = [] then none else some (popVar u)) ∧
    nanstd w = (if u = [] then none else some (Trig.sqrt (popVar u))) ∧
    (u = [] → nanmax w = none ∧ nanmin w = none ∧ Fl.sub (nanmax w) (nanmin w) = none) ∧
    (u ≠ [] → ∃ hi lo, IsMaxOf u hi ∧ IsMinOf u lo ∧ nanmax w = some hi ∧ nanmin w = some lo ∧
        Fl.sub (nanmax w) (nanmin w) = some (hi - lo)) := by
  intro w u
  have hw : vals w = u := window_vals data kernel rows cols krows kcols y x
  refine ⟨?_, ?_, ?_, ?_, ?_, ?_⟩
  · rw [nansum_eq, hw]
  · rw [nanmean_eq, hw]
  · rw [nanvar_eq, hw]
  · rw [nanstd_eq, hw]
  · intro h
    rw [nanmax_empty w (hw.trans h), nanmin_empty w (hw.trans h)]
    exact ⟨rfl, rfl, rfl⟩
  · intro h
    obtain ⟨hi, e1, m1⟩ := nanmax_some w (by rw [hw]; exact h)
    obtain ⟨lo, e2, m2⟩ := nanmin_some w (by rw [hw]; exact h)
    rw [hw] at m1 m2
    exact ⟨hi, lo, m1, m2, e1, e2, by rw [e1, e2, fl_sub]⟩

/-- **focal_stats_stack (table).** the seven documented stat names are bound to the reducers of `builtin_stats` -/
theorem focal_stats_table_spec :
    (statReducer "mean" : Option (List (NV K) → NV K)) = some nanmean ∧
    (statReducer "max" : Option (List (NV K) → NV K)) = some nanmax ∧
    (statReducer "min" : Option (List (NV K) → NV K)) = some nanmin ∧
    (statReducer "range" : Option (List (NV K) → NV K)) = some (fun w => Fl.sub (nanmax w) (nanmin w)) ∧
    (statReducer "std" : Option (List (NV K) → NV K)) = some nanstd ∧
    (statReducer "var" : Option (List (NV K) → NV K)) = some nanvar ∧
    (statReducer "sum" : Option (List (NV K) → NV K)) = some nansum ∧
    focal_stats_default = ["mean", "max", "min", "range", "std", "var", "sum"] ∧
    (npReducer apply_default_reducer : Option (List (NV K) → NV K)) = some nanmean := by
  refine ⟨?_, ?_, ?_, ?_, ?_, ?_, ?_, rfl, ?_⟩ <;>
    simp [statReducer, focal_stats_table, npReducer, apply_default_reducer]

/-- **focal_stats_stack.** for an accepted kernel and known stat names, layer i of `focal_stats` is `apply`
    with the i-th named reducer, in request order -/
theorem focal_stats_stack (data kernel : Arr (NV K)) (rows cols krows kcols : Nat) (stats : List String)
    (red : String → List (NV K) → NV K)
    (hk : krows % 2 = 1 ∧ kcols % 2 = 1) (hs : ∀ s ∈ stats, statReducer s = some (red s)) :
    focalStats data kernel rows cols krows kcols stats =
      .ok (stats.map fun s => applyFlat data kernel rows cols krows kcols (fun w => red s w.flatten)) := by
  have hacc : kernelAccepted krows kcols = true := (kernel_validation.2.2.2 krows kcols).mpr hk
  unfold focalStats
  simp only [hacc, Bool.not_true, Bool.and_false, Bool.false_eq_true, if_false]
  apply mapM_ok
  intro s hs'
  simp only [hs s hs', focal_stats_applies_each, if_true, apply_accepts_odd _ _ _ _ _ _ _ hk]

/-- an unknown stat name is an error (KeyError in the source), never a default -/
theorem focal_stats_unknown (data kernel : Arr (NV K)) (rows cols krows kcols : Nat) (s : String)
    (hk : krows % 2 = 1 ∧ kcols % 2 = 1) (hs : (statReducer s : Option (List (NV K) → NV K)) = none) :
    focalStats data kernel rows cols krows kcols [s] = .error "KeyError" := by
  have hacc : kernelAccepted krows kcols = true := (kernel_validation.2.2.2 krows kcols).mpr hk
  simp [focalStats, hacc, hs, List.mapM_cons]

/-- `_equal_numpy` (generated condition): equal values, or both NaN -/
theorem equal_numpy_iff (a b : NV K) : equalNumpy a b = true ↔ a = b := by
  cases a <;> cases b <;> simp [equalNumpy, equal_numpy_cond, equal_numpy_args, C.eval, E.eval, CmpOp.eval]

theorem excluded_iff (excludes : List (NV K)) (v : NV K) : isExcluded excludes v = true ↔ v ∈ excludes := by
  simp only [isExcluded, List.any_eq_true, equal_numpy_iff]
  constructor
  · rintro ⟨x, hx, rfl⟩; exact hx
  · intro h; exact ⟨v, h, rfl⟩

/-- **mean_spec (same as apply).** a non-excluded cell gets exactly what `apply` with the full 3x3 kernel of
    ones and the mean reducer computes: the mean of the non-NaN cells of the clipped 3x3 window -/
theorem mean_eq_apply_ones (data : Arr (NV K)) (rows cols : Nat) (excludes : List (NV K)) (y x : Int)
    (hne : data y x ∉ excludes) :
    meanCell data rows cols excludes y x =
      nanmean (specWindow data (fun _ _ => some 1) rows cols 3 3 y x).flatten := by
  have hex : isExcluded excludes (data y x) = false := by
    rw [Bool.eq_false_iff]; intro h; exact hne ((excluded_iff excludes _).mp h)
  rw [mean_spec, hex, nanmean_eq, nanmean_eq, vals_specWindow]
  have : footprint data (fun _ _ => (some 1 : NV K)) rows cols 3 3 y x =
      footprintSel (fun _ _ => true) data rows cols 3 3 y x := by
    unfold footprint
    congr 1
    funext a b
    simp
  rw [this]
  rfl

/-- **conv_spec (finite window).** with finite kernel weights and a window of finite cells the result is the
    kernel-weighted sum of the window -/
theorem conv_finite (data kernel : Arr (NV K)) (nx ny nkx nky : Nat) (i j : Int) (kf df : Int × Int → K)
    (hi0 : ((nkx / 2 : Nat) : Int) ≤ i) (hi1 : i < (nx : Int) - ((nkx / 2 : Nat) : Int))
    (hj0 : ((nky / 2 : Nat) : Int) ≤ j) (hj1 : j < (ny : Int) - ((nky / 2 : Nat) : Int))
    (hoddx : nkx % 2 = 1) (hoddy : nky % 2 = 1)
    (hk : ∀ p ∈ allCells nkx nky, kernel p.1 p.2 = some (kf p))
    (hd : ∀ p ∈ allCells nkx nky,
      data (i - ((nkx / 2 : Nat) : Int) + p.1) (j - ((nky / 2 : Nat) : Int) + p.2) = some (df p)) :
    convCell data kernel nx ny nkx nky i j = some ((allCells nkx nky).map fun p => kf p * df p).sum := by
  rw [conv_spec data kernel nx ny nkx nky i j hi0 hi1 hj0 hj1 hoddx hoddy, ← fsum_some, List.map_map]
  congr 1
  apply List.map_congr_left
  intro p hp
  simp only [Function.comp, hk p hp, hd p hp, fl_mul]

/-- a NaN anywhere in the accumulated products makes the sum NaN (also under a zero weight: `0 * NaN`) -/
theorem fsum_none_of_mem (l : List (NV K)) (h : none ∈ l) : fsum l = none := by
  unfold fsum
  have key : ∀ (l : List (NV K)) (acc : NV K), (none ∈ l ∨ acc = none) → l.foldl Fl.add acc = none := by
    intro l
    induction l with
    | nil => intro acc h; rcases h with h | h; exact absurd h (by simp); exact h
    | cons a rest ih =>
      intro acc h
      simp only [List.foldl_cons]
      apply ih
      rcases h with h | h
      · rcases List.mem_cons.mp h with h' | h'
        · right; rw [← h']; simp
        · left; exact h'
      · right; rw [h]; simp
  exact key l _ (Or.inl h)

theorem conv_nan_in_window (data kernel : Arr (NV K)) (nx ny nkx nky : Nat) (i j : Int) (a b : Nat)
    (hi0 : ((nkx / 2 : Nat) : Int) ≤ i) (hi1 : i < (nx : Int) - ((nkx / 2 : Nat) : Int))
    (hj0 : ((nky / 2 : Nat) : Int) ≤ j) (hj1 : j < (ny : Int) - ((nky / 2 : Nat) : Int))
    (hoddx : nkx % 2 = 1) (hoddy : nky % 2 = 1) (ha : a < nkx) (hb : b < nky)
    (hnan : data (i - ((nkx / 2 : Nat) : Int) + a) (j - ((nky / 2 : Nat) : Int) + b) = none) :
    convCell data kernel nx ny nkx nky i j = none := by
  rw [conv_spec data kernel nx ny nkx nky i j hi0 hi1 hj0 hj1 hoddx hoddy]
  apply fsum_none_of_mem
  rw [List.mem_map]
  refine ⟨((a : Int), (b : Int)), (mem_allCells _ _ _).mpr ⟨a, b, ha, hb, rfl⟩, ?_⟩
  show Fl.mul (kernel (a : Int) (b : Int))
    (data (i - ((nkx / 2 : Nat) : Int) + (a : Int)) (j - ((nky / 2 : Nat) : Int) + (b : Int))) = none
  rw [hnan]
  exact fl_mul_none_r _

/-! ### hotspots -/

/-- **hotspot_thresholds.** the generated classifier is the documented one: the p-value ladder of the source
    collapses to `99 if |z| > 2.58, 95 if |z| > 1.96, 90 if |z| > 1.65, else 0`, carrying the sign of z; NaN -> 0 -/
theorem hotspot_thresholds (z : NV K) :
    hotspotClass z = match z with
      | none => some 0
      | some v => some (hotspotSpec v) := by
  cases z with
  | none => exact hotspotClass_none
  | some v => exact hotspotClass_some v

/-- **hotspot_values.** only 0, ±90, ±95, ±99 -/
theorem hotspot_values (z : NV K) :
    hotspotClass z ∈ [some 0, some 90, some (-90), some 95, some (-95), some 99, some (-99)] := by
  cases z with
  | none => simp [hotspotClass_none]
  | some v =>
    rw [hotspotClass_some]
    rcases hotspotSpec_values v with h | h | h | h | h | h | h <;> simp [h]

/-- **hotspot_odd.** class(−z) = −class(z) -/
theorem hotspot_odd (z : NV K) : hotspotClass (Fl.neg z) = Fl.neg (hotspotClass z) := hotspotClass_neg z

/-- **hotspots_negate.** negating the raster negates every z-score (neighbourhood mean and global mean are
    linear, the global standard deviation is even -- for *any* `sqrt`) and hence the result; the zero-deviation
    error is raised for the one exactly when it is raised for the other -/
theorem hotspots_negate (data kernel : Arr (NV K)) (rows cols krows kcols : Nat) :
    hotspots (negArr data) kernel rows cols krows kcols =
      (hotspots data kernel rows cols krows kcols).map fun cs => cs.map Fl.neg := by
  unfold hotspots
  simp only [hotspots_zscore, if_true, hotspotsZ_neg]
  cases hotspotsZ data kernel rows cols krows kcols with
  | error e => rfl
  | ok zs =>
    simp only [Except.map, List.map_map]
    congr 1
    apply List.map_congr_left
    intro z _
    simp only [Function.comp, hotspotClass_neg]

/-- the z-score is (neighbourhood mean − global mean) / global standard deviation, the neighbourhood mean being
    the convolution with the kernel divided by its sum; a zero deviation raises (generated wrapper facts) -/
theorem hotspots_wrapper :
    hotspots_kernel_normalised = true ∧ hotspots_zscore = true ∧ hotspots_zero_std_raises = true := ⟨rfl, rfl, rfl⟩

end Exact

/-! ## Part C: the program generated from `_convolve_2d_numpy` (layer T3)

  `Gen.IL.convolve2d` is `_convolve_2d_numpy` translated statement by statement by the general translator of layer T3
  (harness/facts_il.py) into ILang: integer bookkeeping (`//`, `min`, `max`), numba's index normalisation, **bounds
  checks that stop the program**, the four nested `range` loops, the allocation and NaN fill of `out`.  The theorems
  below are about that program: run on *any* raster and *any* kernel of odd shape it returns, without reading or
  writing out of range, exactly the model `convolve` of Part A/B (`il_convolve_refines`) -- so `conv_spec`,
  `conv_nan_margin`, `conv_finite`, `conv_nan_in_window` are statements about what the generated code computes
  (`il_conv_cell`, `il_conv_finite`, `il_conv_nan_in_window`).  The sum is accumulated from `0.0` with `Fl.add` in the
  program's order (kernel rows outer, kernel columns inner); nothing is assumed about `Fl.add` / `Fl.mul`. -/
section ILGeneric
open XrsVerif.IL
variable {F : Type} [Fl F]

/-- the specification of Proofs/ILFocal.lean is the model of Part A -/
theorem convOut_eq_convolve (data kernel : List F) (nx ny a b : Nat) :
    convOut data kernel nx ny a b =
      convolve (listArr data ny) (listArr kernel (2 * b + 1)) nx ny (2 * a + 1) (2 * b + 1) := by
  unfold convOut convolve
  apply List.map_congr_left
  intro c _
  have ha : (2 * a + 1) / 2 = a := by omega
  have hb : (2 * b + 1) / 2 = b := by omega
  split
  · rename_i h
    rw [conv_spec _ _ nx ny (2 * a + 1) (2 * b + 1) c.1 c.2 (by rw [ha]; exact h.1) (by rw [ha]; exact h.2.1)
      (by rw [hb]; exact h.2.2.1) (by rw [hb]; exact h.2.2.2) (by omega) (by omega), ha, hb]
    exact convSum_eq_fsum _ _ _ _ _ _ _ _
  · rename_i h
    rw [conv_nan_margin]
    rw [ha, hb]
    exact h

/-- **il_convolve_refines.** the generated `_convolve_2d_numpy`, any raster, any kernel of odd shape
    `(2a+1) × (2b+1)` (also larger than the raster): ends with `return`, no out-of-range access, inputs unchanged,
    `out` has the raster's shape and is the model `convolve` -/
theorem il_convolve_refines (data kernel : List F) (nx ny a b : Nat) (s : State F) (fuel : Nat)
    (hin : ConvInput data kernel nx ny (2 * a + 1) (2 * b + 1) s) :
    let r := Gen.IL.convolve2d.run s fuel
    r.ctl = .ret ∧ r.shp "out" = [nx, ny] ∧ r.fa "data" = data ∧ r.fa "kernel" = kernel ∧
    r.fa "out" = convolve (listArr data ny) (listArr kernel (2 * b + 1)) nx ny (2 * a + 1) (2 * b + 1) := by
  have h := convolve2d_refines data kernel nx ny a b s fuel hin
  rw [convOut_eq_convolve] at h
  exact h

/-- **il_conv_cell.** cell `(p, q)` of the generated program's output: where the window fits in the raster, the sum
    (from 0, row-major over the kernel) of `kernel[k, l] * data[p - a + k, q - b + l]`; NaN elsewhere -/
theorem il_conv_cell (data kernel : List F) (nx ny a b : Nat) (s : State F) (fuel : Nat)
    (hin : ConvInput data kernel nx ny (2 * a + 1) (2 * b + 1) s) (p q : Nat) (hp : p < nx) (hq : q < ny) :
    ((Gen.IL.convolve2d.run s fuel).fa "out")[p * ny + q]? = some
      (if a ≤ p ∧ p + a < nx ∧ b ≤ q ∧ q + b < ny then
        fsum ((allCells (2 * a + 1) (2 * b + 1)).map fun c =>
          Fl.mul (listArr kernel (2 * b + 1) c.1 c.2)
            (listArr data ny ((p : Int) - (a : Int) + c.1) ((q : Int) - (b : Int) + c.2)))
       else Fl.nan) := by
  have ha : (2 * a + 1) / 2 = a := by omega
  have hb : (2 * b + 1) / 2 = b := by omega
  rw [(il_convolve_refines data kernel nx ny a b s fuel hin).2.2.2.2, convolve_getElem? _ _ _ _ _ _ _ _ hp hq]
  congr 1
  split
  · rename_i h
    rw [conv_spec _ _ nx ny (2 * a + 1) (2 * b + 1) p q (by rw [ha]; omega) (by rw [ha]; omega)
      (by rw [hb]; omega) (by rw [hb]; omega) (by omega) (by omega), ha, hb]
  · rename_i h
    rw [conv_nan_margin]
    rw [ha, hb]
    omega

/-- **il_convolve_even_err.** a kernel with an even side is outside the property's domain ("any odd kernel shape"), and
    for a reason: whenever the outer loops visit a cell, the generated program stops at an out-of-range read of
    `kernel` (numba does not check: undefined behaviour).  `custom_kernel` rejects such kernels (`kernel_validation`),
    `convolution_2d` / `hotspots` do not call it. -/
theorem il_convolve_even_err (data kernel : List F) (nx ny nkx nky : Nat) (s : State F) (fuel : Nat)
    (hin : ConvInput data kernel nx ny nkx nky s) (heven : nkx % 2 = 0 ∨ nky % 2 = 0)
    (hvisx : 2 * (nkx / 2) < nx) (hvisy : 2 * (nky / 2) < ny) :
    (Gen.IL.convolve2d.run s fuel).ctl = .err "index" :=
  convolve2d_even_err data kernel nx ny nkx nky s fuel hin heven hvisx hvisy

-- non-vacuity: a 2x2 kernel on a 3x3 raster, a 3x2 kernel on a 3x4 raster, any contents, any number type
example (data kernel : List F) : (Gen.IL.convolve2d.run (convState data kernel 3 3 2 2) 0).ctl = .err "index" :=
  il_convolve_even_err data kernel 3 3 2 2 _ 0 (convState_input _ _ _ _ _ _) (by decide) (by decide) (by decide)
example (data kernel : List F) : (Gen.IL.convolve2d.run (convState data kernel 3 4 3 2) 0).ctl = .err "index" :=
  il_convolve_even_err data kernel 3 4 3 2 _ 0 (convState_input _ _ _ _ _ _) (by decide) (by decide) (by decide)

end ILGeneric

section ILExact
open XrsVerif.IL
variable {K : Type} [Field K] [LinearOrder K] [IsStrictOrderedRing K] [Trig K]

/-- **il_conv_finite.** exact arithmetic: with finite kernel weights and a window of finite cells the generated
    program stores the kernel-weighted sum of the window at the cell -/
theorem il_conv_finite (data kernel : List (NV K)) (nx ny a b : Nat) (s : State (NV K)) (fuel : Nat)
    (hin : ConvInput data kernel nx ny (2 * a + 1) (2 * b + 1) s) (p q : Nat)
    (hp0 : a ≤ p) (hp1 : p + a < nx) (hq0 : b ≤ q) (hq1 : q + b < ny) (kf df : Int × Int → K)
    (hk : ∀ c ∈ allCells (2 * a + 1) (2 * b + 1), listArr kernel (2 * b + 1) c.1 c.2 = some (kf c))
    (hd : ∀ c ∈ allCells (2 * a + 1) (2 * b + 1),
      listArr data ny ((p : Int) - (a : Int) + c.1) ((q : Int) - (b : Int) + c.2) = some (df c)) :
    ((Gen.IL.convolve2d.run s fuel).fa "out")[p * ny + q]? =
      some (some ((allCells (2 * a + 1) (2 * b + 1)).map fun c => kf c * df c).sum) := by
  have ha : (2 * a + 1) / 2 = a := by omega
  have hb : (2 * b + 1) / 2 = b := by omega
  rw [(il_convolve_refines data kernel nx ny a b s fuel hin).2.2.2.2,
    convolve_getElem? _ _ _ _ _ _ _ _ (by omega) (by omega)]
  rw [conv_finite _ _ nx ny (2 * a + 1) (2 * b + 1) p q kf df (by rw [ha]; omega) (by rw [ha]; omega)
    (by rw [hb]; omega) (by rw [hb]; omega) (by omega) (by omega) hk (by rw [ha, hb]; exact hd)]

/-- **il_conv_nan_in_window.** a NaN cell anywhere under the kernel (also under a zero weight) makes the generated
    program's result NaN -/
theorem il_conv_nan_in_window (data kernel : List (NV K)) (nx ny a b : Nat) (s : State (NV K)) (fuel : Nat)
    (hin : ConvInput data kernel nx ny (2 * a + 1) (2 * b + 1) s) (p q : Nat)
    (hp0 : a ≤ p) (hp1 : p + a < nx) (hq0 : b ≤ q) (hq1 : q + b < ny) (k l : Nat)
    (hk : k < 2 * a + 1) (hl : l < 2 * b + 1)
    (hnan : listArr data ny ((p : Int) - (a : Int) + (k : Int)) ((q : Int) - (b : Int) + (l : Int)) = none) :
    ((Gen.IL.convolve2d.run s fuel).fa "out")[p * ny + q]? = some none := by
  have ha : (2 * a + 1) / 2 = a := by omega
  have hb : (2 * b + 1) / 2 = b := by omega
  rw [(il_convolve_refines data kernel nx ny a b s fuel hin).2.2.2.2,
    convolve_getElem? _ _ _ _ _ _ _ _ (by omega) (by omega)]
  rw [conv_nan_in_window _ _ nx ny (2 * a + 1) (2 * b + 1) p q k l (by rw [ha]; omega) (by rw [ha]; omega)
    (by rw [hb]; omega) (by rw [hb]; omega) (by omega) (by omega) hk hl (by rw [ha, hb]; exact hnan)]

end ILExact


/-! ## Part D: the programs generated from `_apply_numpy` and `_mean_numpy` (layer T3)

  `Gen.IL.applyMean`, `applySum`, `applyMin`, `applyMax`, `applyRange`, `applyStd`, `applyVar` are `_apply_numpy`
  translated statement by statement (harness/facts_il.py) and specialised to each built-in reducer `_calc_*` (inlined
  through `.scope`; `_calc_range` inlines `_calc_min` and `_calc_max`); `Gen.IL.meanNumpy` is `_mean_numpy` with
  `_equal_numpy` inlined and the slice `data[bottom:top, left:right]` copied into a scratch array.  numpy's `np.nan*`
  reductions are `RedOp.eval` of Core/ILang.lean (numba's one-pass semantics), which *is* the model's
  `nanmean` … `nanstd` (`il_reductions_are_model`, by `rfl`: same filter, same fold order, NaN for an empty selection).
  The theorems below are about those programs: run on any raster and any kernel of odd shape they return, with no
  out-of-range access, exactly the models `applyFlat` / `meanCell` of Part A -- so `apply_window`, `window_entry`,
  `builtin_stats`, `focal_stats_stack`, `mean_spec`, `mean_passes`, `mean_eq_apply_ones` are statements about what the
  generated code computes. -/
section ILApplyGeneric
open XrsVerif.IL
variable {F : Type} [Fl F]

/-- the seven generated `_apply_numpy` programs with the model reducer each one inlines, in `focal_stats` table order -/
def ilApplyProgs : List (String × Prog × (List F → F)) :=
  [("mean", Gen.IL.applyMean, nanmean), ("max", Gen.IL.applyMax, nanmax), ("min", Gen.IL.applyMin, nanmin),
   ("range", Gen.IL.applyRange, fun w => Fl.sub (nanmax w) (nanmin w)), ("std", Gen.IL.applyStd, nanstd),
   ("var", Gen.IL.applyVar, nanvar), ("sum", Gen.IL.applySum, nansum)]

/-- numba's one-pass `np.nan*` reductions of ILang are the model's reductions: same NaN filter, same left-to-right
    accumulation from `0.0`, first extreme entry kept, `0/0 = NaN` (or NaN outright for min / max) on an empty selection -/
theorem il_reductions_are_model (xs : List F) :
    RedOp.eval .nansum xs = nansum xs ∧ RedOp.eval .nanmean xs = nanmean xs ∧ RedOp.eval .nanmin xs = nanmin xs ∧
    RedOp.eval .nanmax xs = nanmax xs ∧ RedOp.eval .nanvar xs = nanvar xs ∧ RedOp.eval .nanstd xs = nanstd xs :=
  ⟨red_eval_nansum xs, red_eval_nanmean xs, red_eval_nanmin xs, red_eval_nanmax xs, red_eval_nanvar xs,
   red_eval_nanstd xs⟩

/-- **il_apply_refines.** each of the seven generated `_apply_numpy` programs, any raster (also empty, also smaller than
    the kernel), any kernel of odd shape, any fuel: ends with `return`, no out-of-range access, inputs unchanged, `out`
    has the raster's shape and is the model `applyFlat` with that program's reducer on the flattened window -/
theorem il_apply_refines (data kernel : List F) (rows cols kr kc : Nat) (hkr : kr % 2 = 1) (hkc : kc % 2 = 1)
    (s : State F) (fuel : Nat) (hin : ApplyInput data kernel rows cols kr kc s) :
    ∀ pr ∈ (ilApplyProgs : List (String × Prog × (List F → F))),
      let r := pr.2.1.run s fuel
      r.ctl = .ret ∧ r.shp "out" = [rows, cols] ∧ r.fa "data" = data ∧ r.fa "kernel" = kernel ∧
      r.fa "out" = applyFlat (listArr data cols) (listArr kernel kc) rows cols kr kc (fun w => pr.2.2 w.flatten) := by
  intro pr hpr
  simp only [ilApplyProgs, List.mem_cons, List.mem_nil_iff, or_false] at hpr
  rcases hpr with rfl | rfl | rfl | rfl | rfl | rfl | rfl
  · exact applyMean_refines data kernel rows cols kr kc hkr hkc s fuel hin
  · exact applyMax_refines data kernel rows cols kr kc hkr hkc s fuel hin
  · exact applyMin_refines data kernel rows cols kr kc hkr hkc s fuel hin
  · exact applyRange_refines data kernel rows cols kr kc hkr hkc s fuel hin
  · exact applyStd_refines data kernel rows cols kr kc hkr hkc s fuel hin
  · exact applyVar_refines data kernel rows cols kr kc hkr hkc s fuel hin
  · exact applySum_refines data kernel rows cols kr kc hkr hkc s fuel hin

/-- **il_apply_cell.** cell `(p, q)` of each generated program's output is its reducer applied to the window
    `specWindow … p q` (`window_entry`: entry `(a, b)` is `data[p - kr/2 + a, q - kc/2 + b]` where `kernel[a, b] == 1` and
    that cell is inside the raster, NaN elsewhere) -/
theorem il_apply_cell (data kernel : List F) (rows cols kr kc : Nat) (hkr : kr % 2 = 1) (hkc : kc % 2 = 1)
    (s : State F) (fuel : Nat) (hin : ApplyInput data kernel rows cols kr kc s) (p q : Nat) (hp : p < rows) (hq : q < cols) :
    ∀ pr ∈ (ilApplyProgs : List (String × Prog × (List F → F))),
      ((pr.2.1.run s fuel).fa "out")[p * cols + q]? =
        some (pr.2.2 (specWindow (listArr data cols) (listArr kernel kc) rows cols kr kc (p : Int) (q : Int)).flatten) := by
  intro pr hpr
  rw [(il_apply_refines data kernel rows cols kr kc hkr hkc s fuel hin pr hpr).2.2.2.2, apply_window,
    List.getElem?_map, allCells_getElem? rows cols p q hp hq]
  rfl

/-- **il_focal_stats.** `focal_stats` with the default statistics, on an accepted (odd) kernel, is the stack of the
    outputs of the seven generated programs, in table order -/
theorem il_focal_stats (data kernel : List F) (rows cols kr kc : Nat) (hkr : kr % 2 = 1) (hkc : kc % 2 = 1) (fuel : Nat) :
    focalStats (listArr data cols) (listArr kernel kc) rows cols kr kc focal_stats_default =
      .ok ((ilApplyProgs : List (String × Prog × (List F → F))).map fun pr =>
        (pr.2.1.run (applyState data kernel rows cols kr kc) fuel).fa "out") := by
  have hacc : kernelAccepted kr kc = true := (kernel_validation.2.2.2 kr kc).mpr ⟨hkr, hkc⟩
  have hr := il_apply_refines data kernel rows cols kr kc hkr hkc _ fuel (applyState_input data kernel rows cols kr kc)
  have e : ((ilApplyProgs : List (String × Prog × (List F → F))).map fun pr =>
        (pr.2.1.run (applyState data kernel rows cols kr kc) fuel).fa "out") =
      (ilApplyProgs : List (String × Prog × (List F → F))).map fun pr =>
        applyFlat (listArr data cols) (listArr kernel kc) rows cols kr kc (fun w => pr.2.2 w.flatten) :=
    List.map_congr_left fun pr hpr => (hr pr hpr).2.2.2.2
  rw [e]
  simp [focalStats, hacc, focal_stats_validates_kernel, focal_stats_default, statReducer, focal_stats_table, npReducer,
    focal_stats_applies_each, Focal.apply, apply_validates_kernel, ilApplyProgs, List.mapM_cons]
  rfl

/-- **il_apply_even_err.** a kernel with an even side is outside the property's domain ("any odd kernel shape";
    `custom_kernel` rejects it before `apply` / `focal_stats` call `_apply_numpy`: `kernel_validation`).  In
    `_apply_numpy` the index arithmetic `kyidx = ky - (y - hrows)` then runs up to `2·hrows = krows`, one past the last
    kernel row, whenever the raster cell `(y + hrows, ·)` exists (likewise for columns): each of the seven generated
    programs stops, already at output cell `(0, 0)`, with an out-of-range read of `kernel` (numba does not check:
    undefined behaviour, and a write past the end of `kernel_values` if the value read happens to be 1) -/
theorem il_apply_even_err (data kernel : List F) (rows cols kr kc : Nat) (s : State F) (fuel : Nat)
    (hin : ApplyInput data kernel rows cols kr kc s)
    (heven : (kr % 2 = 0 ∧ kr / 2 < rows ∧ 0 < cols) ∨ (kc % 2 = 0 ∧ kc / 2 < cols ∧ 0 < rows)) :
    ∀ pr ∈ (ilApplyProgs : List (String × Prog × (List F → F))), (pr.2.1.run s fuel).ctl = .err "index" := by
  intro pr hpr
  simp only [ilApplyProgs, List.mem_cons, List.mem_nil_iff, or_false] at hpr
  rcases hpr with rfl | rfl | rfl | rfl | rfl | rfl | rfl
  · simp only [Prog.run, applyMean_body]; exact applyBody_even_err _ _ data kernel rows cols kr kc s fuel hin heven
  · simp only [Prog.run, applyMax_body]; exact applyBody_even_err _ _ data kernel rows cols kr kc s fuel hin heven
  · simp only [Prog.run, applyMin_body]; exact applyBody_even_err _ _ data kernel rows cols kr kc s fuel hin heven
  · simp only [Prog.run, applyRange_body]; exact applyBody_even_err _ _ data kernel rows cols kr kc s fuel hin heven
  · simp only [Prog.run, applyStd_body]; exact applyBody_even_err _ _ data kernel rows cols kr kc s fuel hin heven
  · simp only [Prog.run, applyVar_body]; exact applyBody_even_err _ _ data kernel rows cols kr kc s fuel hin heven
  · simp only [Prog.run, applySum_body]; exact applyBody_even_err _ _ data kernel rows cols kr kc s fuel hin heven

-- non-vacuity: a 2x3 kernel on a 2x2 raster, a 1x2 kernel on a 1x2 raster, any contents, any number type
example (data kernel : List F) : (Gen.IL.applyMean.run (applyState data kernel 2 2 2 3) 0).ctl = .err "index" :=
  il_apply_even_err data kernel 2 2 2 3 _ 0 (applyState_input _ _ _ _ _ _) (Or.inl (by decide))
    ("mean", Gen.IL.applyMean, nanmean) (by simp [ilApplyProgs])
example (data kernel : List F) : (Gen.IL.applySum.run (applyState data kernel 1 2 1 2) 0).ctl = .err "index" :=
  il_apply_even_err data kernel 1 2 1 2 _ 0 (applyState_input _ _ _ _ _ _) (Or.inr (by decide))
    ("sum", Gen.IL.applySum, nansum) (by simp [ilApplyProgs])

end ILApplyGeneric

section ILMeanGeneric
open XrsVerif.IL
variable {F : Type} [Fl F]

/-- **il_mean_refines.** the generated `_mean_numpy`, any raster (also empty, one row, one column), any excludes list,
    any fuel: ends with `return`, no out-of-range access, inputs unchanged, and cell `(p, q)` of `out` is the cell
    itself when `_equal_numpy` matches it against an excluded value, else `nanmean` of the cells of the full 3×3 window
    around it that lie inside the raster -/
theorem il_mean_refines (data excl : List F) (rows cols ne : Nat) (s : State F) (fuel : Nat)
    (hin : MeanInput data excl rows cols ne s) :
    let r := Gen.IL.meanNumpy.run s fuel
    r.ctl = .ret ∧ r.shp "out" = [rows, cols] ∧ r.fa "data" = data ∧ r.fa "excludes" = excl ∧
    ∀ p q : Nat, p < rows → q < cols →
      (r.fa "out")[p * cols + q]? = some
        (if isExcluded excl (listArr data cols p q) then listArr data cols p q
         else nanmean (footprintSel (fun _ _ => true) (listArr data cols) rows cols 3 3 p q)) := by
  obtain ⟨h1, h2, h3, h4, h5⟩ := meanNumpy_refines data excl rows cols ne s fuel hin
  refine ⟨h1, h2, h3, h4, ?_⟩
  intro p q hp hq
  rw [h5, meanOut, List.getElem?_map, allCells_getElem? rows cols p q hp hq]
  simp only [Option.map_some, mean_spec]

/-- **il_mean_pass.** one run of the generated program on a flattened raster is one pass of the model -/
theorem il_mean_pass {rows cols : Nat} (excl : List F) (fuel : Nat) (g : Rows F) (h : RowsWF rows cols g) :
    ilMeanPass excl rows cols fuel g.flatten = (meanPass rows cols excl g).flatten :=
  ilMeanPass_eq excl fuel h

/-- **il_mean_passes.** the wrapper `mean()` feeds the raster through the one-pass function `passes` times
    (`mean_wrapper_iterates`, a generated fact): `passes` runs of the generated program, each on the output of the previous
    one, are the model `meanN` of `mean_passes` / `excluded_pass_through` -/
theorem il_mean_passes {rows cols : Nat} (excl : List F) (fuel : Nat) (p : Nat) (g : Rows F) (h : RowsWF rows cols g) :
    (ilMeanPass excl rows cols fuel)^[p] g.flatten = (meanN rows cols excl p g).flatten := by
  rw [meanN_eq_iter]
  exact ilMeanPass_iterate excl fuel p h

end ILMeanGeneric

section ILExact2
open XrsVerif.IL
variable {K : Type} [Field K] [LinearOrder K] [IsStrictOrderedRing K] [Trig K]

/-- **il_apply_stats.** exact arithmetic: cell `(p, q)` of the output of the generated program for each statistic is that
    statistic of `under …` -- the non-NaN input cells under the 1-entries of the kernel centred on `(p, q)`, window
    clipped at the raster edge: sum (0 when empty), mean, population variance, its square root, greatest, least,
    greatest − least (all NaN when empty) -/
theorem il_apply_stats (data kernel : List (NV K)) (rows cols kr kc : Nat) (hkr : kr % 2 = 1) (hkc : kc % 2 = 1)
    (s : State (NV K)) (fuel : Nat) (hin : ApplyInput data kernel rows cols kr kc s) (p q : Nat) (hp : p < rows) (hq : q < cols) :
    let u := under (listArr data cols) (listArr kernel kc) rows cols kr kc (p : Int) (q : Int)
    let at' := fun (pg : Prog) => ((pg.run s fuel).fa "out")[p * cols + q]?
    at' Gen.IL.applySum = some (some u.sum) ∧
    at' Gen.IL.applyMean = some (if u = [] then none else some (u.sum / (u.length : K))) ∧
    at' Gen.IL.applyVar = some (if u = [] then none else some (popVar u)) ∧
    at' Gen.IL.applyStd = some (if u = [] then none else some (Trig.sqrt (popVar u))) ∧
    (u = [] → at' Gen.IL.applyMax = some none ∧ at' Gen.IL.applyMin = some none ∧ at' Gen.IL.applyRange = some none) ∧
    (u ≠ [] → ∃ hi lo, IsMaxOf u hi ∧ IsMinOf u lo ∧ at' Gen.IL.applyMax = some (some hi) ∧
        at' Gen.IL.applyMin = some (some lo) ∧ at' Gen.IL.applyRange = some (some (hi - lo))) := by
  intro u at'
  have hc := il_apply_cell data kernel rows cols kr kc hkr hkc s fuel hin p q hp hq
  obtain ⟨b1, b2, b3, b4, b5, b6⟩ := builtin_stats (listArr data cols) (listArr kernel kc) rows cols kr kc (p : Int) (q : Int)
  have cMean := hc ("mean", Gen.IL.applyMean, nanmean) (by simp [ilApplyProgs])
  have cMax := hc ("max", Gen.IL.applyMax, nanmax) (by simp [ilApplyProgs])
  have cMin := hc ("min", Gen.IL.applyMin, nanmin) (by simp [ilApplyProgs])
  have cRange := hc ("range", Gen.IL.applyRange, fun w => Fl.sub (nanmax w) (nanmin w)) (by simp [ilApplyProgs])
  have cStd := hc ("std", Gen.IL.applyStd, nanstd) (by simp [ilApplyProgs])
  have cVar := hc ("var", Gen.IL.applyVar, nanvar) (by simp [ilApplyProgs])
  have cSum := hc ("sum", Gen.IL.applySum, nansum) (by simp [ilApplyProgs])
  simp only at cMean cMax cMin cRange cStd cVar cSum
  refine ⟨by simp only [at']; rw [cSum, b1], by simp only [at']; rw [cMean, b2], by simp only [at']; rw [cVar, b3],
    by simp only [at']; rw [cStd, b4], ?_, ?_⟩
  · intro h
    obtain ⟨e1, e2, e3⟩ := b5 h
    exact ⟨by simp only [at']; rw [cMax, e1], by simp only [at']; rw [cMin, e2], by simp only [at']; rw [cRange, e3]⟩
  · intro h
    obtain ⟨hi, lo, m1, m2, e1, e2, e3⟩ := b6 h
    exact ⟨hi, lo, m1, m2, by simp only [at']; rw [cMax, e1], by simp only [at']; rw [cMin, e2],
      by simp only [at']; rw [cRange, e3]⟩

/-- **il_mean_eq_apply_ones.** a cell whose value is not excluded gets, from the generated `_mean_numpy`, exactly what the
    generated `_apply_numpy` with the mean reducer computes with a full 3×3 kernel of ones; an excluded cell is passed
    through untouched -/
theorem il_mean_eq_apply_ones (data excl : List (NV K)) (rows cols : Nat) (fuel : Nat) (p q : Nat) (hp : p < rows) (hq : q < cols) :
    let m := ((Gen.IL.meanNumpy.run (meanState data excl rows cols) fuel).fa "out")[p * cols + q]?
    let a := ((Gen.IL.applyMean.run (applyState data (List.replicate 9 (some 1)) rows cols 3 3) fuel).fa "out")[p * cols + q]?
    (listArr data cols p q ∈ excl → m = some (listArr data cols p q)) ∧ (listArr data cols p q ∉ excl → m = a) := by
  intro m a
  have hm : m = some (meanCell (listArr data cols) rows cols excl (p : Int) (q : Int)) := by
    simp only [m]
    rw [(meanNumpy_refines data excl rows cols excl.length _ fuel (meanState_input _ _ _ _)).2.2.2.2, meanOut,
      List.getElem?_map, allCells_getElem? rows cols p q hp hq]
    rfl
  constructor
  · intro hex
    rw [hm, mean_spec, (excluded_iff excl _).mpr hex]
    rfl
  · intro hne
    have ha := il_apply_cell data (List.replicate 9 (some (1 : K))) rows cols 3 3 (by decide) (by decide) _ fuel
      (applyState_input _ _ _ _ _ _) p q hp hq ("mean", Gen.IL.applyMean, nanmean) (by simp [ilApplyProgs])
    simp only at ha
    rw [hm, mean_eq_apply_ones _ rows cols excl _ _ hne]
    simp only [a]
    rw [ha, nanmean_eq, nanmean_eq, vals_specWindow, vals_specWindow]
    have : footprint (listArr data cols) (listArr (List.replicate 9 (some (1 : K))) 3) rows cols 3 3 p q =
        footprint (listArr data cols) (fun _ _ => (some 1 : NV K)) rows cols 3 3 p q := by
      unfold footprint footprintSel
      apply List.filterMap_congr
      intro c hc
      obtain ⟨a', b', ha', hb', rfl⟩ := (mem_allCells _ _ _).mp hc
      have hk : listArr (List.replicate 9 (some (1 : K))) 3 (a' : Int) (b' : Int) = some 1 := by
        have : a' * 3 + b' < 9 := by omega
        unfold listArr
        simp only [Int.toNat_natCast]
        rw [List.getD_eq_getElem?_getD, List.getElem?_replicate]
        simp [this]
      simp only [hk]
    rw [this]

end ILExact2

/-! ## non-vacuity: concrete evaluations over ℚ (kernel-checked) -/
section Examples
instance : Trig ℚ := ⟨id, id, fun a _ => a, id, id, id, id⟩

private def ofRows (g : List (List (NV ℚ))) : Arr (NV ℚ) := fun i j => Rows.get g i j
private def d1 : Arr (NV ℚ) := ofRows [[some 1, some 2, none], [some 4, some 5, some 6]]
/-- an asymmetric, non-square kernel: only the cell to the *left* -/
private def k1 : Arr (NV ℚ) := ofRows [[some 1, some 0, some 0]]
private def k3 : Arr (NV ℚ) := ofRows [[some 0, some 1, some 0], [some 1, some 1, some 1], [some 0, some 2, some 0]]
private def d3 : Arr (NV ℚ) := ofRows [[some 1, some 2, some 3], [some 4, some 5, some 6], [some 7, some 8, some 9]]

-- apply_window / builtin_stats: the left neighbour, 0 (empty footprint) in the first column
example : applyFlat d1 k1 2 3 1 3 (fun w => nansum w.flatten) = [some 0, some 1, some 2, some 0, some 4, some 5] := by
  decide +kernel
example : applyFlat d1 k1 2 3 1 3 (fun w => nanmax w.flatten) = [none, some 1, some 2, none, some 4, some 5] := by
  decide +kernel
example : under d1 k1 2 3 1 3 0 1 = [1] ∧ under d1 k1 2 3 1 3 0 0 = [] ∧ under d1 k3 2 3 3 3 0 1 = [1, 2] := by
  decide +kernel
-- hypotheses of window_entry / apply_accepts_odd / focal_stats_stack are satisfiable
example : (1 < 3 ∧ 0 < 1) ∧ (1 % 2 = 1 ∧ 3 % 2 = 1) := by decide
example : ∀ s ∈ ["max", "sum"], (statReducer s : Option (List (NV ℚ) → NV ℚ)) =
    some ((fun s => if s = "max" then nanmax else nansum) s) := by
  intro s hs
  simp only [List.mem_cons, List.mem_nil_iff, or_false] at hs
  rcases hs with rfl | rfl <;> simp [statReducer, focal_stats_table, npReducer]
-- mean: clipped 3x3 mean, NaN passed through when excluded, filled when not; two passes
example : meanCell d1 2 3 [none] 0 0 = some 3 ∧ meanCell d1 2 3 [none] 0 2 = none ∧
    meanCell d1 2 3 [some 7] 0 2 = some (13 / 3) := by decide +kernel
private def g1 : Rows (NV ℚ) := [[some 1, some 2, none], [some 4, some 5, some 6]]
example : (meanN 2 3 [none] 2 g1).get 0 2 = none ∧ isExcluded [none] (g1.get 0 2) = true ∧
    (meanN 2 3 [none] 2 g1).get 0 0 = some (33 / 10) := by
  decide +kernel
example : (none : NV ℚ) ∉ [some (7 : ℚ)] := by decide
-- convolution: weighted (non 0/1) kernel, interior cell of a 3x3 raster, NaN on the margin
example : convolve d3 k3 3 3 3 3 = [none, none, none, none, some 33, none, none, none, none] := by decide +kernel
example : ((3 / 2 : Nat) : Int) ≤ 1 ∧ (1 : Int) < ((3 : Nat) : Int) - ((3 / 2 : Nat) : Int) ∧ 3 % 2 = 1 := by decide
-- the generated program (Part C) on the same raster and kernel, as flat row-major lists
private def d3l : List (NV ℚ) := [some 1, some 2, some 3, some 4, some 5, some 6, some 7, some 8, some 9]
private def k3l : List (NV ℚ) := [some 0, some 1, some 0, some 1, some 1, some 1, some 0, some 2, some 0]
example : ((Gen.IL.convolve2d.run (convState d3l k3l 3 3 3 3) 0).ctl,
      (Gen.IL.convolve2d.run (convState d3l k3l 3 3 3 3) 0).fa "out") =
    (IL.Ctl.ret, [none, none, none, none, some 33, none, none, none, none]) := by
  have h := il_convolve_refines d3l k3l 3 3 1 1 (convState d3l k3l 3 3 3 3) 0 (convState_input _ _ _ _ _ _)
  rw [Prod.mk.injEq]
  refine ⟨h.1, ?_⟩
  rw [h.2.2.2.2]
  decide +kernel
-- Part D: the generated `_apply_numpy` programs on the 2x3 raster `d1` with the asymmetric 1x3 kernel `k1` (left
-- neighbour only), as flat row-major lists; the generated `_mean_numpy` with NaN excluded; two passes
private def d1l : List (NV ℚ) := [some 1, some 2, none, some 4, some 5, some 6]
private def k1l : List (NV ℚ) := [some 1, some 0, some 0]
example : ((Gen.IL.applySum.run (applyState d1l k1l 2 3 1 3) 0).ctl,
      (Gen.IL.applySum.run (applyState d1l k1l 2 3 1 3) 0).fa "out") =
    (IL.Ctl.ret, [some 0, some 1, some 2, some 0, some 4, some 5]) := by
  have h := applySum_refines d1l k1l 2 3 1 3 (by decide) (by decide) _ 0 (applyState_input _ _ _ _ _ _)
  rw [Prod.mk.injEq]
  refine ⟨h.1, ?_⟩
  rw [h.2.2.2.2]
  decide +kernel
example : (Gen.IL.applyRange.run (applyState d1l k3l 2 3 3 3) 0).fa "out" =
    [some 1, some 1, some 0, some 4, some 4, some 1] := by
  rw [(applyRange_refines d1l k3l 2 3 3 3 (by decide) (by decide) _ 0 (applyState_input _ _ _ _ _ _)).2.2.2.2]
  decide +kernel
example : ((Gen.IL.meanNumpy.run (meanState d1l [none] 2 3) 0).ctl,
      (Gen.IL.meanNumpy.run (meanState d1l [none] 2 3) 0).fa "out") =
    (IL.Ctl.ret, [some 3, some (18 / 5), none, some 3, some (18 / 5), some (13 / 3)]) := by
  have h := meanNumpy_refines d1l [none] 2 3 1 _ 0 (meanState_input _ _ _ _)
  rw [Prod.mk.injEq]
  refine ⟨h.1, ?_⟩
  rw [h.2.2.2.2]
  decide +kernel
example : RowsWF 2 3 g1 ∧ g1.flatten = d1l := by
  refine ⟨⟨rfl, ?_⟩, rfl⟩
  intro r hr
  simp only [g1, List.mem_cons, List.mem_nil_iff, or_false] at hr
  rcases hr with rfl | rfl <;> rfl
example : (ilMeanPass [none] 2 3 0)^[2] d1l = (meanN 2 3 [none] 2 g1).flatten :=
  il_mean_passes [none] 0 2 g1 ⟨rfl, by
    intro r hr
    simp only [g1, List.mem_cons, List.mem_nil_iff, or_false] at hr
    rcases hr with rfl | rfl <;> rfl⟩
example : (listArr d1l 3 0 2 ∈ [(none : NV ℚ)]) ∧ (listArr d1l 3 0 0 ∉ [(none : NV ℚ)]) := by decide +kernel
-- hotspots: the classes, oddness, and a raster whose deviation is not zero
example : hotspotClass (some (2 : ℚ)) = some 95 ∧ hotspotClass (some (-2 : ℚ)) = some (-95) ∧
    hotspotClass (some (33 / 20 : ℚ)) = some 0 ∧ hotspotClass (some (3 : ℚ)) = some 99 ∧
    hotspotClass (some (17 / 10 : ℚ)) = some 90 := by decide +kernel
example : (hotspotsZ d3 (ofRows [[some 1]]) 3 3 1 1).toBool = true ∧
    (hotspotsZ (ofRows [[some 2, some 2]]) (ofRows [[some 1]]) 1 2 1 1).toBool = false := by decide +kernel

end Examples
end XrsVerif.C09
