import XrsVerif.Proofs.ILangRegions
import XrsVerif.Model.Regions
import XrsVerif.Gen.IL
/-
  Proofs/ILRegionsDefs.lean -- the generated program `Gen.IL.areaConnectivity` (`zonal._area_connectivity`, layer T3)
  cut into named blocks; `body_eq` (by `rfl`, i.e. syntactically) says the generated body *is* this composition, so
  every lemma about a block is a lemma about the generated program and any source edit breaks `body_eq`.

  The window-gathering block is not copied: it is *computed* from the model's window lists
  (`Regions.window8 / window4`, `Regions.D`): `gatherW w` stores, for the k-th offset pair `(dy, dx)` of `w`,
  `data[cy dy, cx dx]` into `src_window[k]` and then `out[cy dy, cx dx]` into `area_window[k]` where
  `cy .m = max(y - 1, 0)`, `cy .z = y`, `cy .p = min(y + 1, rows - 1)` (same for x / cols).
-/
namespace XrsVerif.IL.Rg
open XrsVerif XrsVerif.IL XrsVerif.Regions

/-- `max(v - 1, 0)` -/
def cm (v : String) : IE := .bin .max (.bin .sub (.var v) (.lit 1)) (.lit 0)
/-- `min(v + 1, lim - 1)` -/
def cp (v lim : String) : IE := .bin .min (.bin .add (.var v) (.lit 1)) (.bin .sub (.var lim) (.lit 1))

/-- the clamped index expression of a window offset -/
def cidx (v lim : String) : D → IE
  | .m => cm v
  | .z => .var v
  | .p => cp v lim

/-- `dst[k + i] = src[cy dy_i, cx dx_i]` for the offsets of `w` -/
def stores (dst src : String) : List (D × D) → Nat → List St
  | [], _ => []
  | d :: w, k => .stF1 dst (.lit k) (.ld2 src (cidx "y" "rows" d.1) (cidx "x" "cols" d.2)) :: stores dst src w (k + 1)

def gatherW (w : List (D × D)) : St :=
  seqL (stores "src_window" "data" w 0 ++ stores "area_window" "out" w 0)

def gather : St := .ite (.cmpI .eq (.var "n") (.lit 8)) (gatherW window8) (gatherW window4)

/-- `|a - val| <= atol + rtol * |val|` with `a = src_window[k]` -/
def closeBE (k : String) : BE :=
  .cmpF .le (.un .abs (.bin .sub (.ld1 "src_window" (.var k)) (.var "val")))
    (.bin .add (.var "atol") (.bin .mul (.var "rtol") (.un .abs (.var "val"))))

def closeBody (ek : String) : St :=
  .ite (closeBE ek) (.stI1 "is_close" (.var ek) (.lit 1)) (.stI1 "is_close" (.var ek) (.lit 0))

def closeLoop (ek : String) : St :=
  .forRange ek (.lit 0) (.dim "src_window" 0) (.lit 1) (closeBody ek)

/-- `neighbor_matches = np.where(is_close)[0]` as the translator expands it (after the allocation) -/
def whereBody (wn wk : String) : St :=
  .ite (.cmpI .ne (.ld1 "is_close" (.var wk)) (.lit 0))
    (.seq (.stI1 "neighbor_matches" (.var wn) (.var wk))
    (.setI wn (.bin .add (.var wn) (.lit 1))))
    .skip

def whereLoop (wn wk : String) : St :=
  .forRange wk (.lit 0) (.dim "is_close" 0) (.lit 1) (whereBody wn wk)

/-- tolerances, closeness mask, `np.where`; then `rest` -/
def matchThen (ek wn wk : String) (rest : St) : St :=
  .seq (.setF "rtol" (.lit 1 100000))
  (.seq (.setF "atol" (.lit 1 100000000))
  (.seq (.allocI "is_close" [(.dim "src_window" 0)] (.lit 0))
  (.seq (closeLoop ek)
  (.seq (.allocI "neighbor_matches" [(.sum "is_close")] (.lit 0))
  (.seq (.setI wn (.lit 0))
  (.seq (whereLoop wn wk)
  rest))))))

def freshUid : St :=
  .seq (.stF2 "out" (.var "y") (.var "x") (.ofInt (.var "uid")))
  (.setI "uid" (.bin .add (.var "uid") (.lit 1)))

/-- the search for the first matching window cell that already has a label (`area_val > 0`) -/
def findBody : St :=
  .seq (.setF "area_val" (.ld1 "area_window" (.ld1 "neighbor_matches" (.var "j"))))
  (.ite (.cmpF .gt (.var "area_val") (.ofInt (.lit 0)))
    (.seq (.setF "assigned_value" (.var "area_val"))
    (.seq (.setB "assigned_value$some" .tt)
    .brk))
    .skip)

def findLoop : St :=
  .forRange "j" (.lit 0) (.dim "neighbor_matches" 0) (.lit 1) findBody

def assign1 : St :=
  .ite (.cmpI .gt (.dim "neighbor_matches" 0) (.lit 0))
    (.seq (.setB "assigned_value$some" .ff)
    (.seq findLoop
    (.ite (.var "assigned_value$some")
      (.stF2 "out" (.var "y") (.var "x") (.var "assigned_value"))
      freshUid)))
    freshUid

def cell1 : St :=
  .seq (.setF "val" (.ld2 "data" (.var "y") (.var "x")))
  (.seq (.ite (.isnan (.var "val"))
    (.seq (.stF2 "out" (.var "y") (.var "x") (.var "val")) .cont)
    .skip)
  (.seq gather
  (matchThen "elem1$k" "where2$n" "where2$k" assign1)))

/-- `out[out == a] = b` as written in the source: two nested loops over the raster -/
def relabelBody (a b : String) : St :=
  .ite (.cmpF .eq (.ld2 "out" (.var "y1") (.var "x1")) (.var a))
    (.stF2 "out" (.var "y1") (.var "x1") (.var b))
    .skip

def relabelRow (a b : String) : St :=
  .forRange "x1" (.lit 0) (.var "cols") (.lit 1) (relabelBody a b)

def relabel (a b : String) : St :=
  .forRange "y1" (.lit 0) (.var "rows") (.lit 1) (relabelRow a b)

def setMin : St :=
  .seq (.setF "assigned_values_min" (.var "area_val"))
  (.setB "assigned_values_min$some" .tt)

def mergeBody : St :=
  .seq (.setF "area_val" (.ld1 "area_window" (.ld1 "neighbor_matches" (.var "j"))))
  (.seq (.setB "nn" (.var "assigned_values_min$some"))
  (.ite (.and (.var "nn") (.cmpF .ne (.var "assigned_values_min") (.var "area_val")))
    (.ite (.cmpF .gt (.var "assigned_values_min") (.var "area_val"))
      (.seq (relabel "assigned_values_min" "area_val") setMin)
      (relabel "area_val" "assigned_values_min"))
    (.ite (.not (.var "assigned_values_min$some")) setMin .skip)))

def merge : St :=
  .seq (.setB "assigned_values_min$some" .ff)
  (.forRange "j" (.lit 0) (.dim "neighbor_matches" 0) (.lit 1) mergeBody)

def cell2 : St :=
  .seq gather
  (.seq (.setF "val" (.ld2 "data" (.var "y") (.var "x")))
  (.seq (.ite (.isnan (.var "val")) .cont .skip)
  (matchThen "elem3$k" "where4$n" "where4$k" merge)))

def passRow (cell : St) : St := .forRange "x" (.lit 0) (.var "cols") (.lit 1) cell

def pass (cell : St) : St := .forRange "y" (.lit 0) (.var "rows") (.lit 1) (passRow cell)

def init : List St :=
  [.allocF "out" [(.dim "data" 0), (.dim "data" 1)] (.lit 0 1),
   .setI "rows" (.dim "data" 0),
   .setI "cols" (.dim "data" 1),
   .setI "uid" (.lit 1),
   .allocF "src_window" [(.var "n")] (.lit 0 1),
   .allocF "area_window" [(.var "n")] (.lit 0 1)]

/-- the generated body, syntactically -/
theorem body_eq : Gen.IL.areaConnectivity.body = seqL (init ++ [pass cell1, pass cell2, .ret]) := by
  rfl

end XrsVerif.IL.Rg
