import XrsVerif.Proofs.Focal
import Mathlib.Tactic.NormNum
import Mathlib.Tactic.SplitIfs
/-!
  C09, hotspots: the generated per-cell classifier `Gen.hotspots_cpu` (translated from
  `focal._calc_hotspots_numpy` on every run) in closed form.  The proof below is a case split over the
  seven intervals the source's literals cut |z| into, times the sign of z (text generated once by a script;
  every leaf is `ksimp` on the generated kernel, so a changed literal or comparison in the source breaks it).
-/
set_option linter.unusedSectionVars false
set_option linter.unusedVariables false
namespace XrsVerif.Focal
open XrsVerif XrsVerif.Gen
variable {K : Type} [Field K] [LinearOrder K] [IsStrictOrderedRing K] [Trig K]

/-- the documented confidence ladder: 99 / 95 / 90 above |z| = 2.58 / 1.96 / 1.65 -/
def confidence (v : K) : K :=
  if 129 / 50 < |v| then 99 else if 49 / 25 < |v| then 95 else if 33 / 20 < |v| then 90 else 0

/-- the documented class of a z-score: the confidence carrying the sign of z -/
def hotspotSpec (v : K) : K := if 0 < v then confidence v else if v < 0 then -confidence v else 0

theorem hotspotClass_some (v : K) : hotspotClass (some v : NV K) = some (hotspotSpec v) := by
  have n1 : ¬ ((1 : K) < 100⁻¹) := by norm_num
  have n2 : ¬ ((1 : K) < 20⁻¹) := by norm_num
  have n3 : ¬ ((1 : K) < 10⁻¹) := by norm_num
  have n4 : ((99 / 10000 : K) < 100⁻¹) := by norm_num
  have n5 : ((99 / 10000 : K) < 20⁻¹) := by norm_num
  have n6 : ((99 / 10000 : K) < 10⁻¹) := by norm_num
  have n7 : ¬ ((99 / 2000 : K) < 100⁻¹) := by norm_num
  have n8 : ((99 / 2000 : K) < 20⁻¹) := by norm_num
  have n9 : ((99 / 2000 : K) < 10⁻¹) := by norm_num
  have n10 : ¬ ((197 / 2000 : K) < 100⁻¹) := by norm_num
  have n11 : ¬ ((197 / 2000 : K) < 20⁻¹) := by norm_num
  have n12 : ((197 / 2000 : K) < 10⁻¹) := by norm_num
  rcases lt_trichotomy v 0 with hv | hv | hv
  · have s1 : ¬ (0 < v) := not_lt.mpr (le_of_lt hv)
    by_cases r0 : (129 / 50 : K) < |v|
    · have a1 : (233 / 100 : K) ≤ |v| := by linarith only [r0]
      have a2 : (33 / 20 : K) ≤ |v| := by linarith only [r0]
      have a3 : (129 / 100 : K) ≤ |v| := by linarith only [r0]
      have a4 : (129 / 50 : K) < |v| := by linarith only [r0]
      have a5 : (49 / 25 : K) < |v| := by linarith only [r0]
      have a6 : (33 / 20 : K) < |v| := by linarith only [r0]
      ksimp [hotspotClass, hotspots_cpu, hotspotSpec, confidence, hv, s1, a1, a2, a3, a4, a5, a6,
        n1, n2, n3, n4, n5, n6, n7, n8, n9, n10, n11, n12]
    · by_cases r1 : (233 / 100 : K) ≤ |v|
      · have r0' := not_lt.mp r0
        have a1 : (233 / 100 : K) ≤ |v| := by linarith only [r0', r1]
        have a2 : (33 / 20 : K) ≤ |v| := by linarith only [r0', r1]
        have a3 : (129 / 100 : K) ≤ |v| := by linarith only [r0', r1]
        have a4 : ¬ ((129 / 50 : K) < |v|) := not_lt.mpr (by linarith only [r0', r1])
        have a5 : (49 / 25 : K) < |v| := by linarith only [r0', r1]
        have a6 : (33 / 20 : K) < |v| := by linarith only [r0', r1]
        ksimp [hotspotClass, hotspots_cpu, hotspotSpec, confidence, hv, s1, a1, a2, a3, a4, a5, a6,
          n1, n2, n3, n4, n5, n6, n7, n8, n9, n10, n11, n12]
      · by_cases r2 : (49 / 25 : K) < |v|
        · have r1' := not_le.mp r1
          have a1 : ¬ ((233 / 100 : K) ≤ |v|) := not_le.mpr (by linarith only [r1', r2])
          have a2 : (33 / 20 : K) ≤ |v| := by linarith only [r1', r2]
          have a3 : (129 / 100 : K) ≤ |v| := by linarith only [r1', r2]
          have a4 : ¬ ((129 / 50 : K) < |v|) := not_lt.mpr (by linarith only [r1', r2])
          have a5 : (49 / 25 : K) < |v| := by linarith only [r1', r2]
          have a6 : (33 / 20 : K) < |v| := by linarith only [r1', r2]
          ksimp [hotspotClass, hotspots_cpu, hotspotSpec, confidence, hv, s1, a1, a2, a3, a4, a5, a6,
            n1, n2, n3, n4, n5, n6, n7, n8, n9, n10, n11, n12]
        · by_cases r3 : (33 / 20 : K) < |v|
          · have r2' := not_lt.mp r2
            have a1 : ¬ ((233 / 100 : K) ≤ |v|) := not_le.mpr (by linarith only [r2', r3])
            have a2 : (33 / 20 : K) ≤ |v| := by linarith only [r2', r3]
            have a3 : (129 / 100 : K) ≤ |v| := by linarith only [r2', r3]
            have a4 : ¬ ((129 / 50 : K) < |v|) := not_lt.mpr (by linarith only [r2', r3])
            have a5 : ¬ ((49 / 25 : K) < |v|) := not_lt.mpr (by linarith only [r2', r3])
            have a6 : (33 / 20 : K) < |v| := by linarith only [r2', r3]
            ksimp [hotspotClass, hotspots_cpu, hotspotSpec, confidence, hv, s1, a1, a2, a3, a4, a5, a6,
              n1, n2, n3, n4, n5, n6, n7, n8, n9, n10, n11, n12]
          · by_cases r4 : (33 / 20 : K) ≤ |v|
            · have r3' := not_lt.mp r3
              have a1 : ¬ ((233 / 100 : K) ≤ |v|) := not_le.mpr (by linarith only [r3', r4])
              have a2 : (33 / 20 : K) ≤ |v| := by linarith only [r3', r4]
              have a3 : (129 / 100 : K) ≤ |v| := by linarith only [r3', r4]
              have a4 : ¬ ((129 / 50 : K) < |v|) := not_lt.mpr (by linarith only [r3', r4])
              have a5 : ¬ ((49 / 25 : K) < |v|) := not_lt.mpr (by linarith only [r3', r4])
              have a6 : ¬ ((33 / 20 : K) < |v|) := not_lt.mpr (by linarith only [r3', r4])
              ksimp [hotspotClass, hotspots_cpu, hotspotSpec, confidence, hv, s1, a1, a2, a3, a4, a5, a6,
                n1, n2, n3, n4, n5, n6, n7, n8, n9, n10, n11, n12]
            · by_cases r5 : (129 / 100 : K) ≤ |v|
              · have r4' := not_le.mp r4
                have a1 : ¬ ((233 / 100 : K) ≤ |v|) := not_le.mpr (by linarith only [r4', r5])
                have a2 : ¬ ((33 / 20 : K) ≤ |v|) := not_le.mpr (by linarith only [r4', r5])
                have a3 : (129 / 100 : K) ≤ |v| := by linarith only [r4', r5]
                have a4 : ¬ ((129 / 50 : K) < |v|) := not_lt.mpr (by linarith only [r4', r5])
                have a5 : ¬ ((49 / 25 : K) < |v|) := not_lt.mpr (by linarith only [r4', r5])
                have a6 : ¬ ((33 / 20 : K) < |v|) := not_lt.mpr (by linarith only [r4', r5])
                ksimp [hotspotClass, hotspots_cpu, hotspotSpec, confidence, hv, s1, a1, a2, a3, a4, a5, a6,
                  n1, n2, n3, n4, n5, n6, n7, n8, n9, n10, n11, n12]
              · have r4' := not_le.mp r4
                have r5' := not_le.mp r5
                have a1 : ¬ ((233 / 100 : K) ≤ |v|) := not_le.mpr (by linarith only [r4', r5'])
                have a2 : ¬ ((33 / 20 : K) ≤ |v|) := not_le.mpr (by linarith only [r4', r5'])
                have a3 : ¬ ((129 / 100 : K) ≤ |v|) := not_le.mpr (by linarith only [r4', r5'])
                have a4 : ¬ ((129 / 50 : K) < |v|) := not_lt.mpr (by linarith only [r4', r5'])
                have a5 : ¬ ((49 / 25 : K) < |v|) := not_lt.mpr (by linarith only [r4', r5'])
                have a6 : ¬ ((33 / 20 : K) < |v|) := not_lt.mpr (by linarith only [r4', r5'])
                ksimp [hotspotClass, hotspots_cpu, hotspotSpec, confidence, hv, s1, a1, a2, a3, a4, a5, a6,
                  n1, n2, n3, n4, n5, n6, n7, n8, n9, n10, n11, n12]
  · subst hv
    have za1 : ¬ ((233 / 100 : K) ≤ 0) := by norm_num
    have za2 : ¬ ((33 / 20 : K) ≤ 0) := by norm_num
    have za3 : ¬ ((129 / 100 : K) ≤ 0) := by norm_num
    have za4 : ¬ ((129 / 50 : K) < 0) := by norm_num
    have za5 : ¬ ((49 / 25 : K) < 0) := by norm_num
    have za6 : ¬ ((33 / 20 : K) < 0) := by norm_num
    ksimp [hotspotClass, hotspots_cpu, hotspotSpec, confidence, za1, za2, za3, za4, za5, za6,
      n1, n2, n3, n4, n5, n6, n7, n8, n9, n10, n11, n12]
  · have s1 : ¬ (v < 0) := not_lt.mpr (le_of_lt hv)
    by_cases r0 : (129 / 50 : K) < |v|
    · have a1 : (233 / 100 : K) ≤ |v| := by linarith only [r0]
      have a2 : (33 / 20 : K) ≤ |v| := by linarith only [r0]
      have a3 : (129 / 100 : K) ≤ |v| := by linarith only [r0]
      have a4 : (129 / 50 : K) < |v| := by linarith only [r0]
      have a5 : (49 / 25 : K) < |v| := by linarith only [r0]
      have a6 : (33 / 20 : K) < |v| := by linarith only [r0]
      ksimp [hotspotClass, hotspots_cpu, hotspotSpec, confidence, hv, s1, a1, a2, a3, a4, a5, a6,
        n1, n2, n3, n4, n5, n6, n7, n8, n9, n10, n11, n12]
    · by_cases r1 : (233 / 100 : K) ≤ |v|
      · have r0' := not_lt.mp r0
        have a1 : (233 / 100 : K) ≤ |v| := by linarith only [r0', r1]
        have a2 : (33 / 20 : K) ≤ |v| := by linarith only [r0', r1]
        have a3 : (129 / 100 : K) ≤ |v| := by linarith only [r0', r1]
        have a4 : ¬ ((129 / 50 : K) < |v|) := not_lt.mpr (by linarith only [r0', r1])
        have a5 : (49 / 25 : K) < |v| := by linarith only [r0', r1]
        have a6 : (33 / 20 : K) < |v| := by linarith only [r0', r1]
        ksimp [hotspotClass, hotspots_cpu, hotspotSpec, confidence, hv, s1, a1, a2, a3, a4, a5, a6,
          n1, n2, n3, n4, n5, n6, n7, n8, n9, n10, n11, n12]
      · by_cases r2 : (49 / 25 : K) < |v|
        · have r1' := not_le.mp r1
          have a1 : ¬ ((233 / 100 : K) ≤ |v|) := not_le.mpr (by linarith only [r1', r2])
          have a2 : (33 / 20 : K) ≤ |v| := by linarith only [r1', r2]
          have a3 : (129 / 100 : K) ≤ |v| := by linarith only [r1', r2]
          have a4 : ¬ ((129 / 50 : K) < |v|) := not_lt.mpr (by linarith only [r1', r2])
          have a5 : (49 / 25 : K) < |v| := by linarith only [r1', r2]
          have a6 : (33 / 20 : K) < |v| := by linarith only [r1', r2]
          ksimp [hotspotClass, hotspots_cpu, hotspotSpec, confidence, hv, s1, a1, a2, a3, a4, a5, a6,
            n1, n2, n3, n4, n5, n6, n7, n8, n9, n10, n11, n12]
        · by_cases r3 : (33 / 20 : K) < |v|
          · have r2' := not_lt.mp r2
            have a1 : ¬ ((233 / 100 : K) ≤ |v|) := not_le.mpr (by linarith only [r2', r3])
            have a2 : (33 / 20 : K) ≤ |v| := by linarith only [r2', r3]
            have a3 : (129 / 100 : K) ≤ |v| := by linarith only [r2', r3]
            have a4 : ¬ ((129 / 50 : K) < |v|) := not_lt.mpr (by linarith only [r2', r3])
            have a5 : ¬ ((49 / 25 : K) < |v|) := not_lt.mpr (by linarith only [r2', r3])
            have a6 : (33 / 20 : K) < |v| := by linarith only [r2', r3]
            ksimp [hotspotClass, hotspots_cpu, hotspotSpec, confidence, hv, s1, a1, a2, a3, a4, a5, a6,
              n1, n2, n3, n4, n5, n6, n7, n8, n9, n10, n11, n12]
          · by_cases r4 : (33 / 20 : K) ≤ |v|
            · have r3' := not_lt.mp r3
              have a1 : ¬ ((233 / 100 : K) ≤ |v|) := not_le.mpr (by linarith only [r3', r4])
              have a2 : (33 / 20 : K) ≤ |v| := by linarith only [r3', r4]
              have a3 : (129 / 100 : K) ≤ |v| := by linarith only [r3', r4]
              have a4 : ¬ ((129 / 50 : K) < |v|) := not_lt.mpr (by linarith only [r3', r4])
              have a5 : ¬ ((49 / 25 : K) < |v|) := not_lt.mpr (by linarith only [r3', r4])
              have a6 : ¬ ((33 / 20 : K) < |v|) := not_lt.mpr (by linarith only [r3', r4])
              ksimp [hotspotClass, hotspots_cpu, hotspotSpec, confidence, hv, s1, a1, a2, a3, a4, a5, a6,
                n1, n2, n3, n4, n5, n6, n7, n8, n9, n10, n11, n12]
            · by_cases r5 : (129 / 100 : K) ≤ |v|
              · have r4' := not_le.mp r4
                have a1 : ¬ ((233 / 100 : K) ≤ |v|) := not_le.mpr (by linarith only [r4', r5])
                have a2 : ¬ ((33 / 20 : K) ≤ |v|) := not_le.mpr (by linarith only [r4', r5])
                have a3 : (129 / 100 : K) ≤ |v| := by linarith only [r4', r5]
                have a4 : ¬ ((129 / 50 : K) < |v|) := not_lt.mpr (by linarith only [r4', r5])
                have a5 : ¬ ((49 / 25 : K) < |v|) := not_lt.mpr (by linarith only [r4', r5])
                have a6 : ¬ ((33 / 20 : K) < |v|) := not_lt.mpr (by linarith only [r4', r5])
                ksimp [hotspotClass, hotspots_cpu, hotspotSpec, confidence, hv, s1, a1, a2, a3, a4, a5, a6,
                  n1, n2, n3, n4, n5, n6, n7, n8, n9, n10, n11, n12]
              · have r4' := not_le.mp r4
                have r5' := not_le.mp r5
                have a1 : ¬ ((233 / 100 : K) ≤ |v|) := not_le.mpr (by linarith only [r4', r5'])
                have a2 : ¬ ((33 / 20 : K) ≤ |v|) := not_le.mpr (by linarith only [r4', r5'])
                have a3 : ¬ ((129 / 100 : K) ≤ |v|) := not_le.mpr (by linarith only [r4', r5'])
                have a4 : ¬ ((129 / 50 : K) < |v|) := not_lt.mpr (by linarith only [r4', r5'])
                have a5 : ¬ ((49 / 25 : K) < |v|) := not_lt.mpr (by linarith only [r4', r5'])
                have a6 : ¬ ((33 / 20 : K) < |v|) := not_lt.mpr (by linarith only [r4', r5'])
                ksimp [hotspotClass, hotspots_cpu, hotspotSpec, confidence, hv, s1, a1, a2, a3, a4, a5, a6,
                  n1, n2, n3, n4, n5, n6, n7, n8, n9, n10, n11, n12]

theorem hotspotClass_none : hotspotClass (none : NV K) = some 0 := by
  have ha : Fl.abs (none : NV K) = none := rfl
  have n1 : ¬ ((1 : K) < 100⁻¹) := by norm_num
  have n2 : ¬ ((1 : K) < 20⁻¹) := by norm_num
  have n3 : ¬ ((1 : K) < 10⁻¹) := by norm_num
  ksimp [hotspotClass, hotspots_cpu, ha, n1, n2, n3]

theorem confidence_neg (v : K) : confidence (-v) = confidence v := by simp [confidence, abs_neg]

theorem hotspotSpec_neg (v : K) : hotspotSpec (-v) = -hotspotSpec v := by
  unfold hotspotSpec
  rw [confidence_neg]
  simp only [neg_pos, neg_lt_zero]
  split_ifs with h1 h2 h3 <;> first | rfl | simp | (exfalso; linarith)

theorem hotspotClass_neg (z : NV K) : hotspotClass (Fl.neg z) = Fl.neg (hotspotClass z) := by
  cases z with
  | none => simp [hotspotClass_none]
  | some v => rw [fl_neg, hotspotClass_some, hotspotClass_some, hotspotSpec_neg, fl_neg]

theorem hotspotSpec_values (v : K) :
    hotspotSpec v = 0 ∨ hotspotSpec v = 90 ∨ hotspotSpec v = -90 ∨ hotspotSpec v = 95 ∨ hotspotSpec v = -95 ∨
      hotspotSpec v = 99 ∨ hotspotSpec v = -99 := by
  unfold hotspotSpec confidence
  split_ifs <;> simp

end XrsVerif.Focal
