import XrsVerif.Proofs.ILRegionsRelabel
import XrsVerif.Proofs.ILRegionsPass1
/-
  Proofs/ILRegionsMerge.lean -- the merge loop of the second pass of `Gen.IL.areaConnectivity`

      assigned_values_min = None
      for j in range(len(neighbor_matches)):
          area_val = area_window[neighbor_matches[j]]
          nn = assigned_values_min is not None
          if nn and assigned_values_min != area_val:
              if assigned_values_min > area_val:  <relabel min -> area_val>; assigned_values_min = area_val
              else:                               <relabel area_val -> min>
          elif assigned_values_min is None:
              assigned_values_min = area_val

  `mergeBody_step`: one iteration = the model's `Regions.inner` on the captured label `area_window[…]`
  (`out ~ L`, `assigned_values_min` / its flag ~ the `Option Nat`);  `exec_merge`: the loop = the fold of `inner`
  over the captured labels.
-/
namespace XrsVerif.IL.Rg
open XrsVerif XrsVerif.IL XrsVerif.Regions
variable {F : Type} [Fl F]
set_option linter.unusedSectionVars false
set_option linter.unusedVariables false
set_option linter.unusedSimpArgs false

/-- NaN raster cells hold their input value -/
def NaNKeep (rows cols : Nat) (D out : List F) : Prop :=
  ∀ c : Cell, c.1 < rows → c.2 < cols → Fl.isnan (at_ cols D c) = true → at_ cols out c = at_ cols D c

theorem at_map (rows cols : Nat) (out : List F) (f : F → F) (c : Cell) (hl : out.length = rows * cols)
    (h1 : c.1 < rows) (h2 : c.2 < cols) : at_ cols (out.map f) c = f (at_ cols out c) := by
  have := pos_lt rows cols c h1 h2
  unfold at_
  simp only [List.getD_eq_getElem?_getD, List.getElem?_map]
  rw [List.getElem?_eq_getElem (by omega)]
  simp

/-- a whole-raster relabel on `out` is the model's `replace` on the labels; NaN cells are not touched -/
theorem rel_relabel (laws : LabelLaws F) (rows cols : Nat) (D out : List F) (L : Cell → Nat) (A B : Nat)
    (hl : out.length = rows * cols) (hrel : Rel rows cols D out L) (hnan : NaNKeep rows cols D out) :
    Rel rows cols D (out.map (relabelF (lab A) (lab B))) (replace L A B) ∧
    NaNKeep rows cols D (out.map (relabelF (lab A) (lab B))) := by
  constructor
  · intro c h1 h2 hc
    rw [at_map rows cols out _ c hl h1 h2, hrel c h1 h2 hc]
    simp only [relabelF, laws.eq_lab, replace]
    by_cases h : L c = A <;> simp [h]
  · intro c h1 h2 hc
    rw [at_map rows cols out _ c hl h1 h2, hnan c h1 h2 hc]
    simp only [relabelF, laws.eq_nan _ A hc, Bool.false_eq_true, if_false]

/-- what the merge loop needs of its surroundings -/
structure MLoc (rows cols n : Nat) (idx : List Nat) (AW : List F) (st : State F) : Prop where
  run : st.ctl = .run
  rv : st.ienv "rows" = (rows : Int)
  cv : st.ienv "cols" = (cols : Int)
  oshp : st.shp "out" = [rows, cols]
  nshp : st.shp "neighbor_matches" = [idx.length]
  nia : st.ia "neighbor_matches" = idx.map natCast
  ashp : st.shp "area_window" = [n]
  afa : st.fa "area_window" = AW

/-- the abstraction: `out ~ L`, `assigned_values_min ~ mn` -/
structure MSem (rows cols : Nat) (D : List F) (st : State F) (L : Cell → Nat) (mn : Option Nat) : Prop where
  rel : Rel rows cols D (st.fa "out") L
  nan : NaNKeep rows cols D (st.fa "out")
  olen : (st.fa "out").length = rows * cols
  flag : st.benv "assigned_values_min$some" = mn.isSome
  amin : ∀ m, mn = some m → st.fenv "assigned_values_min" = lab m

/-- what an iteration leaves alone -/
structure MKeep (s t : State F) : Prop where
  shp : t.shp = s.shp
  ia : t.ia = s.ia
  fa : ∀ a, a ≠ "out" → t.fa a = s.fa a
  ienv : ∀ v, v ∉ ["y1", "x1"] → t.ienv v = s.ienv v

theorem MKeep.loc {rows cols n : Nat} {idx : List Nat} {AW : List F} {s t : State F} (k : MKeep s t)
    (hrun : t.ctl = .run) (l : MLoc rows cols n idx AW s) : MLoc rows cols n idx AW t :=
  { run := hrun
    rv := by rw [k.ienv _ (by simp)]; exact l.rv
    cv := by rw [k.ienv _ (by simp)]; exact l.cv
    oshp := by rw [k.shp]; exact l.oshp
    nshp := by rw [k.shp]; exact l.nshp
    nia := by rw [k.ia]; exact l.nia
    ashp := by rw [k.shp]; exact l.ashp
    afa := by rw [k.fa _ (by decide)]; exact l.afa }

/-- `assigned_values_min = area_val` -/
theorem exec_setMin (fuel : Nat) (s : State F) (hrun : s.ctl = .run) :
    exec fuel setMin s =
      { s with
        fenv := setS s.fenv "assigned_values_min" (s.fenv "area_val"),
        benv := setS s.benv "assigned_values_min$some" true } := by
  unfold setMin
  rw [exec_seq, exec_setF]
  simp only [FE.ok, FE.eval, if_true]
  rw [if_pos (by exact hrun), exec_setB]
  simp only [BE.ok, BE.eval, if_true]

/-- **step 4a**: one iteration of the merge loop is the model's `inner` -/
theorem mergeBody_step (laws : LabelLaws F) (fuel rows cols n : Nat) (D : List F) (idx : List Nat) (AW : List F)
    (hAW : AW.length = n) (hidx : ∀ k ∈ idx, k < n) (cap : Nat → Nat)
    (hcap : ∀ k ∈ idx, AW.getD k Fl.nan = lab (cap k))
    (j : Nat) (hj : j < idx.length) (st : State F) (hl : MLoc rows cols n idx AW st)
    (hjv : st.ienv "j" = (j : Int)) (L : Cell → Nat) (mn : Option Nat) (hs : MSem rows cols D st L mn) :
    (exec fuel mergeBody st).ctl = .run ∧ MKeep st (exec fuel mergeBody st) ∧
    MSem rows cols D (exec fuel mergeBody st) (inner (L, mn) (cap (idx.getD j 0))).1
      (inner (L, mn) (cap (idx.getD j 0))).2 := by
  have hk : idx.getD j 0 < n := hidx _ (getD_mem idx j hj)
  let a := cap (idx.getD j 0)
  have hav : AW.getD (idx.getD j 0) Fl.nan = lab a := hcap _ (getD_mem idx j hj)
  -- `area_val = area_window[neighbor_matches[j]]`
  let s1 : State F := { st with fenv := setS st.fenv "area_val" (lab a) }
  have h1 : exec fuel (.setF "area_val" (.ld1 "area_window" (.ld1 "neighbor_matches" (.var "j")))) st = s1 := by
    rw [exec_setF]
    simp only [FE.ok, IE.ok, FE.eval, IE.eval, hjv, hl.nshp, hl.nia, hl.ashp, hl.afa, List.length_cons,
      List.length_nil, List.getD_cons_zero, decide_true, Bool.and_true, Bool.true_and, inRange_of_lt _ _ hj, off1_nat,
      getD_map_cast, inRange_of_lt _ _ hk, if_true, hav]
    rfl
  -- `nn = assigned_values_min is not None`
  let s2 : State F := { s1 with benv := setS st.benv "nn" mn.isSome }
  have h2 : exec fuel (.setB "nn" (.var "assigned_values_min$some")) s1 = s2 := by
    rw [exec_setB]
    simp only [BE.ok, BE.eval, if_true]
    show ({ s1 with benv := setS st.benv "nn" (st.benv "assigned_values_min$some") } : State F) = s2
    rw [hs.flag]
  have hrun2 : s2.ctl = .run := hl.run
  have hnn : s2.benv "nn" = mn.isSome := by simp [s2, s1]
  have hsm : s2.benv "assigned_values_min$some" = mn.isSome := by simp [s2, s1, setS, hs.flag]
  have hav2 : s2.fenv "area_val" = lab a := by simp [s2, s1]
  have ham2 : s2.fenv "assigned_values_min" = st.fenv "assigned_values_min" := by simp [s2, s1, setS]
  have hout2 : s2.fa "out" = st.fa "out" := rfl
  have hk2 : MKeep st s2 := ⟨rfl, rfl, fun _ _ => rfl, fun _ _ => rfl⟩
  unfold mergeBody
  rw [exec_seq, h1, if_pos (by exact hl.run), exec_seq, h2, if_pos (by exact hrun2), exec_ite]
  simp only [BE.ok, FE.ok, BE.eval, FE.eval, CmpOp.eval, Bool.and_true, Bool.not_eq_true', Bool.or_true, if_true,
    hnn, hav2, ham2]
  cases hmn : mn with
  | none =>
    -- first captured label: it becomes the minimum
    simp only [Option.isSome_none, Bool.false_and, Bool.false_eq_true, if_false]
    rw [exec_ite]
    simp only [BE.ok, BE.eval, hsm, hmn, Option.isSome_none, Bool.not_false, if_true]
    rw [exec_setMin fuel s2 hrun2]
    refine ⟨hl.run, ⟨rfl, rfl, fun _ _ => rfl, fun _ _ => rfl⟩, ?_⟩
    simp only [inner]
    exact { rel := hs.rel, nan := hs.nan, olen := hs.olen
            flag := by simp [setS]
            amin := by
              intro m hm
              simp only [Option.some.injEq] at hm
              simp only [setS_same, hav2, hm, a] }
  | some m =>
    have ham : st.fenv "assigned_values_min" = lab m := hs.amin m hmn
    simp only [Option.isSome_some, Bool.true_and, ham, laws.eq_lab]
    by_cases hma : m = a
    · -- the same label again
      have hd : decide (m = a) = true := by simp [hma]
      simp only [hd, Bool.not_true, Bool.false_eq_true, if_false]
      rw [exec_ite]
      simp only [BE.ok, BE.eval, hsm, hmn, Option.isSome_some, Bool.not_true, Bool.false_eq_true, if_false, exec_skip,
        if_true]
      refine ⟨hrun2, hk2, ?_⟩
      have : inner (L, some m) (cap (idx.getD j 0)) = (L, some m) := by
        simp only [inner]; rw [if_pos (by exact hma)]
      rw [this]
      exact { rel := hs.rel, nan := hs.nan, olen := hs.olen
              flag := by rw [hsm, hmn]
              amin := by intro m' hm'; rw [ham2, ham]; simp only [Option.some.injEq] at hm'; rw [hm'] }
    · have hd : decide (m = a) = false := by simp [hma]
      simp only [hd, Bool.not_false, if_true]
      rw [exec_ite]
      simp only [BE.ok, FE.ok, BE.eval, FE.eval, CmpOp.eval, Bool.and_true, if_true, hav2, ham2, ham, laws.lt_lab]
      have hrv2 : s2.ienv "rows" = (rows : Int) := hl.rv
      have hcv2 : s2.ienv "cols" = (cols : Int) := hl.cv
      have hos2 : s2.shp "out" = [rows, cols] := hl.oshp
      have hol2 : (s2.fa "out").length = rows * cols := hs.olen
      by_cases hlt : a < m
      · -- the captured label is smaller: relabel the minimum's class, new minimum
        simp only [hlt, decide_true, if_true]
        obtain ⟨hkp, hfo⟩ := exec_relabel fuel rows cols "assigned_values_min" "area_val" s2 hrun2 hrv2 hcv2 hos2 hol2
        rw [exec_seq, if_pos hkp.run, exec_setMin fuel _ hkp.run]
        rw [ham2, ham, hav2, hout2] at hfo
        obtain ⟨hr', hn'⟩ := rel_relabel laws rows cols D (st.fa "out") L m a hs.olen hs.rel hs.nan
        refine ⟨hkp.run, ⟨hkp.shp, hkp.ia, hkp.fa, hkp.ienv⟩, ?_⟩
        have : inner (L, some m) (cap (idx.getD j 0)) = (replace L m a, some a) := by
          simp only [inner]; rw [if_neg (by exact hma), if_pos (by exact hlt)]
        rw [this]
        exact { rel := by show Rel rows cols D ((exec fuel _ s2).fa "out") _; rw [hfo]; exact hr'
                nan := by show NaNKeep rows cols D ((exec fuel _ s2).fa "out"); rw [hfo]; exact hn'
                olen := by show ((exec fuel _ s2).fa "out").length = _; rw [hfo, List.length_map]; exact hs.olen
                flag := by simp [setS]
                amin := by
                  intro m' hm'
                  simp only [Option.some.injEq] at hm'
                  simp only [setS_same, hkp.fenv, hav2, hm'] }
      · -- the minimum is smaller: relabel the captured label's class
        simp only [hlt, decide_false, Bool.false_eq_true, if_false]
        obtain ⟨hkp, hfo⟩ := exec_relabel fuel rows cols "area_val" "assigned_values_min" s2 hrun2 hrv2 hcv2 hos2 hol2
        rw [ham2, ham, hav2, hout2] at hfo
        obtain ⟨hr', hn'⟩ := rel_relabel laws rows cols D (st.fa "out") L a m hs.olen hs.rel hs.nan
        refine ⟨hkp.run, ⟨hkp.shp, hkp.ia, hkp.fa, hkp.ienv⟩, ?_⟩
        have : inner (L, some m) (cap (idx.getD j 0)) = (replace L a m, some m) := by
          simp only [inner]; rw [if_neg (by exact hma), if_neg (by exact hlt)]
        rw [this]
        exact { rel := by rw [hfo]; exact hr'
                nan := by rw [hfo]; exact hn'
                olen := by rw [hfo, List.length_map]; exact hs.olen
                flag := by rw [hkp.benv, hsm, hmn]
                amin := by
                  intro m' hm'
                  simp only [Option.some.injEq] at hm'
                  rw [hkp.fenv, ham2, ham, hm'] }

end XrsVerif.IL.Rg
