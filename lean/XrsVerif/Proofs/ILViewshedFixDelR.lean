import XrsVerif.Proofs.ILViewshedFixDel
/-
  Proofs/ILViewshedFixDelR.lean -- the mirror image of Proofs/ILViewshedFixDel.lean: the blocks of one iteration of
  `_rb_delete_fixup` when `x` is the RIGHT child of its parent (the sibling `w` on the left).
-/
set_option linter.unusedSectionVars false
set_option linter.unusedVariables false
set_option linter.unusedSimpArgs false
namespace XrsVerif.ILVs
open XrsVerif XrsVerif.IL XrsVerif.Viewshed
variable {F : Type} [Fl F]

/-! ### case 1: red sibling -/

theorem dcase1R_spec (fuel n : Nat) (s : State F) (hv : VS s n) (hrun : s.ctl = .run)
    (xl : Sh) (x : Nat) (xr : Sh) (p : Nat) (wl : Sh) (w : Nat) (wr : Sh) (rest : Ctx)
    (hL : Linked (s.ia "tree_nodes") n (-1) (plug (.node xl x xr) (.R (.node wl w wr) p :: rest)))
    (hN : (plug (.node xl x xr) (.R (.node wl w wr) p :: rest)).idxs.Nodup)
    (ew : s.ienv "_rb_delete_fixup17$w" = w) (exp : s.ienv "_rb_delete_fixup17$x_parent" = p)
    (hroot : s.ienv "_rb_delete_fixup17$root" = (plug (.node xl x xr) (.R (.node wl w wr) p :: rest)).ptr) :
    let r := exec fuel (.seq (.stI2 "tree_nodes" (.var "_rb_delete_fixup17$w") (.lit 0) (.lit 1))
      (.seq (.stI2 "tree_nodes" (.var "_rb_delete_fixup17$x_parent") (.lit 0) (.lit 0))
      (drrot27 (.setI "_rb_delete_fixup17$w" (.ld2 "tree_nodes" (.var "_rb_delete_fixup17$x_parent") (.lit 1)))))) s
    let T := absT (s.fa "tree_vals") (s.ia "tree_nodes") (plug (.node xl x xr) (.R (.node wl w wr) p :: rest))
    let S : Fv F := vAt (s.fa "tree_vals") (n - 1) 7
    r.ctl = .run ∧ VS r n ∧
      Linked (r.ia "tree_nodes") n (-1) (plug (.node xl x xr) (.R wr p :: .R wl w :: rest)) ∧
      (plug (.node xl x xr) (.R wr p :: .R wl w :: rest)).idxs.Nodup ∧
      absT (r.fa "tree_vals") (r.ia "tree_nodes") (plug (.node xl x xr) (.R wr p :: .R wl w :: rest)) =
        atPath (rotR S) (pathOf rest) (atPath (setCol true) (pathOf rest)
          (atPath (setCol false) (pathOf rest ++ [Dir.L]) T)) ∧
      r.ienv "_rb_delete_fixup17$w" = wr.ptr ∧ r.ienv "_rb_delete_fixup17$x_parent" = p ∧
      r.ienv "_rb_delete_fixup17$x" = s.ienv "_rb_delete_fixup17$x" ∧
      r.ienv "_rb_delete_fixup17$root" = (plug (.node xl x xr) (.R wr p :: .R wl w :: rest)).ptr ∧
      vAt (r.fa "tree_vals") (n - 1) 7 = S ∧ nAt (r.ia "tree_nodes") (n - 1) 0 = nAt (s.ia "tree_nodes") (n - 1) 0 ∧
      (∀ j, ColV (nAt (s.ia "tree_nodes") j 0) → ColV (nAt (r.ia "tree_nodes") j 0)) ∧
      nAt (r.ia "tree_nodes") p 0 = 0 := by
  intro r T S
  have hmem : ∀ j ∈ (Sh.node (Sh.node wl w wr) p (Sh.node xl x xr)).idxs, j + 1 < n := fun j hj =>
    Linked.idx_lt hL j (mem_plug _ rest _ hj)
  have hwn : w + 1 < n := hmem w (by simp [Sh.idxs])
  have hpn : p + 1 < n := hmem p (by simp [Sh.idxs])
  obtain ⟨a1, a2, a3, a4, a5, a6, a7, a8⟩ := stCol_at fuel n s hv hrun "_rb_delete_fixup17$w" 1
    (.L p (.node xl x xr) :: rest) wl w wr hL hN ew
  generalize hs1 : exec fuel (.stI2 "tree_nodes" (.var "_rb_delete_fixup17$w") (.lit 0) (.lit 1)) s = s1 at a1 a2 a3 a4 a5 a6 a7 a8
  obtain ⟨b1, b2, b3, b4, b5, b6, b7, b8⟩ := stCol_at fuel n s1 a2 a1 "_rb_delete_fixup17$x_parent" 0
    rest (.node wl w wr) p (.node xl x xr) a5 hN (by rw [a3]; exact exp)
  generalize hs2 : exec fuel (.stI2 "tree_nodes" (.var "_rb_delete_fixup17$x_parent") (.lit 0) (.lit 0)) s1 = s2 at b1 b2 b3 b4 b5 b6 b7 b8
  obtain ⟨c1, c2, c3, c4, c5, c6, c7, c8⟩ := rrotCall_at_path dren27 (rotRen_inj _ _ _) "_rb_delete_fixup17$root"
    "_rb_delete_fixup17$x_parent" (by decide) s2 fuel n b2 b1 rest wl w wr p (.node xl x xr) b5 hN
    (by rw [b3, a3]; exact exp)
  have hfr := exec_frame fuel (rotCall Gen.IL.vsRightRotate.body dren27 "y" "_rb_delete_fixup17$root"
    "_rb_delete_fixup17$x_parent") s2
  generalize hs3 : exec fuel (rotCall Gen.IL.vsRightRotate.body dren27 "y" "_rb_delete_fixup17$root"
    "_rb_delete_fixup17$x_parent") s2 = s3 at c1 c2 c3 c5 c6 c7 c8 hfr
  have exp3 : s3.ienv "_rb_delete_fixup17$x_parent" = p := by rw [hfr.ienv _ (by decide), b3, a3]; exact exp
  obtain ⟨hlp, _, _⟩ := unplug (.R wl w :: rest) (.node wr p (.node xl x xr)) c3 c4
  have hp1 : nAt (s3.ia "tree_nodes") p 1 = wr.ptr := hlp.2.1
  have h4 := exec_ldN fuel n s3 c2.shpN "_rb_delete_fixup17$w" "_rb_delete_fixup17$x_parent" 1 (by decide)
    (by rw [exp3]; exact inRange_ptr n _ (by omega) hv.pos) wr.ptr (by rw [exp3, rowOf_nat]; exact hp1)
  have hr : r = { s3 with ienv := setS s3.ienv "_rb_delete_fixup17$w" wr.ptr } := by
    simp only [r, drrot27]
    rw [exec_seq_run _ _ _ _ (by rw [hs1]; exact a1), hs1, exec_seq_run _ _ _ _ (by rw [hs2]; exact b1), hs2,
      exec_rotCallK, exec_seq_run _ _ _ _ (by rw [hs3]; exact c1), hs3, h4]
  have hd1 : decide ((1 : Int) = 0) = false := by decide
  have hd0 : decide ((0 : Int) = 0) = true := by decide
  rw [hd1] at a6
  rw [hd0] at b6
  rw [hr]
  refine ⟨c1, ⟨c2.shpV, c2.shpN, c2.lenV, c2.lenN, c2.pos⟩, c3, c4, ?_, by simp [setS], by simp [setS, exp3], ?_, ?_, ?_, ?_, ?_, ?_⟩
  · show absT (s3.fa "tree_vals") (s3.ia "tree_nodes") _ = _
    have a6' : absT (s1.fa "tree_vals") (s1.ia "tree_nodes") (plug (.node (.node wl w wr) p (.node xl x xr)) rest) =
        atPath (setCol false) (pathOf rest ++ [Dir.L]) T := a6
    refine c5.trans ?_
    rw [b6, a6', b4, a4]
  · show setS s3.ienv "_rb_delete_fixup17$w" wr.ptr "_rb_delete_fixup17$x" = _
    rw [setS_ne _ _ _ _ (by decide), hfr.ienv _ (by decide), b3, a3]
  · show setS s3.ienv "_rb_delete_fixup17$w" wr.ptr "_rb_delete_fixup17$root" = _
    rw [setS_ne _ _ _ _ (by decide), c6, b3, a3, hroot]
    cases rest with
    | nil => simp [ctxPar, plug, Sh.ptr]
    | cons f rs =>
      have : ¬ (ctxPar (f :: rs) = -1) := by rw [ctxPar_eq_neg_one]; simp
      rw [if_neg this]
      exact plug_ptr_cons f rs _ _
  · show vAt (s3.fa "tree_vals") (n - 1) 7 = S
    rw [c7, b4, a4]
  · show nAt (s3.ia "tree_nodes") (n - 1) 0 = _
    rw [c8, b7 _ 0 (by decide) (by omega), a7 _ 0 (by decide) (by omega)]
  · intro j hj
    show ColV (nAt (s3.ia "tree_nodes") j 0)
    rw [c8]
    exact colV_of_store colV_zero b7 b8 j (colV_of_store colV_one a7 a8 j hj)
  · show nAt (s3.ia "tree_nodes") p 0 = 0
    rw [c8, b8]

/-! ### case 2 -/

theorem dcase2R_spec (fuel n : Nat) (s : State F) (hv : VS s n) (hrun : s.ctl = .run)
    (xl : Sh) (x : Nat) (xr : Sh) (p : Nat) (wl : Sh) (w : Nat) (wr : Sh) (rest : Ctx)
    (hL : Linked (s.ia "tree_nodes") n (-1) (plug (.node xl x xr) (.R (.node wl w wr) p :: rest)))
    (hN : (plug (.node xl x xr) (.R (.node wl w wr) p :: rest)).idxs.Nodup)
    (ew : s.ienv "_rb_delete_fixup17$w" = w) (exp : s.ienv "_rb_delete_fixup17$x_parent" = p) :
    let r := exec fuel dfCase2R s
    let T := absT (s.fa "tree_vals") (s.ia "tree_nodes") (plug (.node xl x xr) (.R (.node wl w wr) p :: rest))
    r.ctl = .run ∧ VS r n ∧ r.fa = s.fa ∧
      Linked (r.ia "tree_nodes") n (-1) (plug (.node xl x xr) (.R (.node wl w wr) p :: rest)) ∧
      absT (r.fa "tree_vals") (r.ia "tree_nodes") (plug (.node xl x xr) (.R (.node wl w wr) p :: rest)) =
        atPath (setCol true) (pathOf rest ++ [Dir.L]) T ∧
      r.ienv "_rb_delete_fixup17$x" = p ∧
      r.ienv "_rb_delete_fixup17$root" = s.ienv "_rb_delete_fixup17$root" ∧
      nAt (r.ia "tree_nodes") (n - 1) 0 = nAt (s.ia "tree_nodes") (n - 1) 0 ∧
      (∀ j, ColV (nAt (s.ia "tree_nodes") j 0) → ColV (nAt (r.ia "tree_nodes") j 0)) ∧
      nAt (r.ia "tree_nodes") p 0 = nAt (s.ia "tree_nodes") p 0 := by
  intro r T
  have hwn : w + 1 < n := Linked.idx_lt hL w (by
    have : w ∈ (plug (Sh.node (Sh.node wl w wr) p (Sh.node xl x xr)) rest).idxs := mem_plug _ rest _ (by simp [Sh.idxs])
    exact this)
  obtain ⟨a1, a2, a3, a4, a5, a6, a7, a8⟩ := stCol_at fuel n s hv hrun "_rb_delete_fixup17$w" 0
    (.L p (.node xl x xr) :: rest) wl w wr hL hN ew
  generalize hs1 : exec fuel (.stI2 "tree_nodes" (.var "_rb_delete_fixup17$w") (.lit 0) (.lit 0)) s = s1 at a1 a2 a3 a4 a5 a6 a7 a8
  have hr : r = { s1 with ienv := setS s1.ienv "_rb_delete_fixup17$x" (p : Int) } := by
    simp only [r, dfCase2R]
    rw [exec_seq_run _ _ _ _ (by rw [hs1]; exact a1), hs1, exec_setI _ _ _ _ (IE.ok_var _ _), IE.eval_var, a3, exp]
  have hd0 : decide ((0 : Int) = 0) = true := by decide
  rw [hd0] at a6
  have hwp : w ≠ p := by
    obtain ⟨_, _, hng⟩ := unplug rest (.node (.node wl w wr) p (.node xl x xr)) hL hN
    have := (Sh.ptr_ne_of_nodup _ _ _ hng).2.2.2.2.1
    intro e; exact this (by simp [Sh.idxs, e])
  rw [hr]
  exact ⟨a1, ⟨a2.shpV, a2.shpN, a2.lenV, a2.lenN, a2.pos⟩, a4, a5, a6, by simp [setS], by simp [setS, a3],
    a7 _ 0 (by decide) (by omega), colV_of_store colV_zero a7 a8, a7 p 0 (by decide) (by simp [Ne.symm hwp])⟩

/-! ### NIL sibling -/

theorem dnilR_spec (fuel : Nat) (s : State F) (hrun : s.ctl = .run) :
    exec fuel (.seq (.setI "_rb_delete_fixup17$x" (.var "_rb_delete_fixup17$x_parent")) .cont) s =
      { s with ienv := setS s.ienv "_rb_delete_fixup17$x" (s.ienv "_rb_delete_fixup17$x_parent"), ctl := .cont } := by
  have h1 : exec fuel (.setI "_rb_delete_fixup17$x" (.var "_rb_delete_fixup17$x_parent")) s =
      { s with ienv := setS s.ienv "_rb_delete_fixup17$x" (s.ienv "_rb_delete_fixup17$x_parent") } := by
    rw [exec_setI _ _ _ _ (IE.ok_var _ _), IE.eval_var]
  rw [exec_seq_run _ _ _ _ (by rw [h1]; exact hrun), h1]
  simp only [exec]

/-! ### case 3: black far (left) child -/

theorem dcase3R_spec (fuel n : Nat) (s : State F) (hv : VS s n) (hrun : s.ctl = .run)
    (xl : Sh) (x : Nat) (xr : Sh) (p : Nat) (wl : Sh) (w : Nat) (a : Sh) (b : Nat) (c : Sh) (rest : Ctx)
    (hL : Linked (s.ia "tree_nodes") n (-1) (plug (.node xl x xr) (.R (.node wl w (.node a b c)) p :: rest)))
    (hN : (plug (.node xl x xr) (.R (.node wl w (.node a b c)) p :: rest)).idxs.Nodup)
    (ew : s.ienv "_rb_delete_fixup17$w" = w) (ewr : s.ienv "_rb_delete_fixup17$w_right" = b)
    (exp : s.ienv "_rb_delete_fixup17$x_parent" = p)
    (hroot : s.ienv "_rb_delete_fixup17$root" = (plug (.node xl x xr) (.R (.node wl w (.node a b c)) p :: rest)).ptr) :
    let r := exec fuel (.seq (.stI2 "tree_nodes" (.var "_rb_delete_fixup17$w_right") (.lit 0) (.lit 1))
        (.seq (.stI2 "tree_nodes" (.var "_rb_delete_fixup17$w") (.lit 0) (.lit 0))
        (dlrot30
        (.setI "_rb_delete_fixup17$w" (.ld2 "tree_nodes" (.var "_rb_delete_fixup17$x_parent") (.lit 1)))))) s
    let T := absT (s.fa "tree_vals") (s.ia "tree_nodes") (plug (.node xl x xr) (.R (.node wl w (.node a b c)) p :: rest))
    let S : Fv F := vAt (s.fa "tree_vals") (n - 1) 7
    r.ctl = .run ∧ VS r n ∧
      Linked (r.ia "tree_nodes") n (-1) (plug (.node xl x xr) (.R (.node (.node wl w a) b c) p :: rest)) ∧
      (plug (.node xl x xr) (.R (.node (.node wl w a) b c) p :: rest)).idxs.Nodup ∧
      absT (r.fa "tree_vals") (r.ia "tree_nodes") (plug (.node xl x xr) (.R (.node (.node wl w a) b c) p :: rest)) =
        atPath (rotL S) (pathOf rest ++ [Dir.L]) (atPath (setCol true) (pathOf rest ++ [Dir.L])
          (atPath (setCol false) (pathOf rest ++ [Dir.L] ++ [Dir.R]) T)) ∧
      r.ienv "_rb_delete_fixup17$w" = b ∧ r.ienv "_rb_delete_fixup17$x_parent" = p ∧
      r.ienv "_rb_delete_fixup17$x" = s.ienv "_rb_delete_fixup17$x" ∧
      r.ienv "_rb_delete_fixup17$root" = (plug (.node xl x xr) (.R (.node (.node wl w a) b c) p :: rest)).ptr ∧
      vAt (r.fa "tree_vals") (n - 1) 7 = S ∧ nAt (r.ia "tree_nodes") (n - 1) 0 = nAt (s.ia "tree_nodes") (n - 1) 0 ∧
      (∀ j, ColV (nAt (s.ia "tree_nodes") j 0) → ColV (nAt (r.ia "tree_nodes") j 0)) ∧
      nAt (r.ia "tree_nodes") p 0 = nAt (s.ia "tree_nodes") p 0 ∧ nAt (r.ia "tree_nodes") w 0 = 0 := by
  intro r T S
  have hmem : ∀ j ∈ (Sh.node (Sh.node wl w (Sh.node a b c)) p (Sh.node xl x xr)).idxs, j + 1 < n := fun j hj =>
    Linked.idx_lt hL j (mem_plug _ rest _ hj)
  have hwn : w + 1 < n := hmem w (by simp [Sh.idxs])
  have hbn : b + 1 < n := hmem b (by simp [Sh.idxs])
  have hpn : p + 1 < n := hmem p (by simp [Sh.idxs])
  obtain ⟨a1, a2, a3, a4, a5, a6, a7, a8⟩ := stCol_at fuel n s hv hrun "_rb_delete_fixup17$w_right" 1
    (.R wl w :: .L p (.node xl x xr) :: rest) a b c hL hN ewr
  generalize hs1 : exec fuel (.stI2 "tree_nodes" (.var "_rb_delete_fixup17$w_right") (.lit 0) (.lit 1)) s = s1 at a1 a2 a3 a4 a5 a6 a7 a8
  obtain ⟨b1, b2, b3, b4, b5, b6, b7, b8⟩ := stCol_at fuel n s1 a2 a1 "_rb_delete_fixup17$w" 0
    (.L p (.node xl x xr) :: rest) wl w (.node a b c) a5 hN (by rw [a3]; exact ew)
  generalize hs2 : exec fuel (.stI2 "tree_nodes" (.var "_rb_delete_fixup17$w") (.lit 0) (.lit 0)) s1 = s2 at b1 b2 b3 b4 b5 b6 b7 b8
  obtain ⟨c1, c2, c3, c4, c5, c6, c7, c8⟩ := lrotCall_at_path dren30 (rotRen_inj _ _ _) "_rb_delete_fixup17$root"
    "_rb_delete_fixup17$w" (by decide) s2 fuel n b2 b1 (.L p (.node xl x xr) :: rest) wl w a b c b5 hN
    (by rw [b3, a3]; exact ew)
  have hfr := exec_frame fuel (rotCall Gen.IL.vsLeftRotate.body dren30 "x" "_rb_delete_fixup17$root"
    "_rb_delete_fixup17$w") s2
  generalize hs3 : exec fuel (rotCall Gen.IL.vsLeftRotate.body dren30 "x" "_rb_delete_fixup17$root"
    "_rb_delete_fixup17$w") s2 = s3 at c1 c2 c3 c5 c6 c7 c8 hfr
  have exp3 : s3.ienv "_rb_delete_fixup17$x_parent" = p := by rw [hfr.ienv _ (by decide), b3, a3]; exact exp
  have c3' : Linked (s3.ia "tree_nodes") n (-1) (plug (.node xl x xr) (.R (.node (.node wl w a) b c) p :: rest)) := c3
  have c4' : (plug (.node xl x xr) (.R (.node (.node wl w a) b c) p :: rest)).idxs.Nodup := c4
  obtain ⟨_, hcx, _⟩ := unplug _ _ c3' c4'
  have hp1 : nAt (s3.ia "tree_nodes") p 1 = b := hcx.2.1
  have h5 := exec_ldN fuel n s3 c2.shpN "_rb_delete_fixup17$w" "_rb_delete_fixup17$x_parent" 1 (by decide)
    (by rw [exp3]; exact inRange_ptr n _ (by omega) hv.pos) b (by rw [exp3, rowOf_nat]; exact hp1)
  have hr : r = { s3 with ienv := setS s3.ienv "_rb_delete_fixup17$w" (b : Int) } := by
    simp only [r, dlrot30]
    rw [exec_seq_run _ _ _ _ (by rw [hs1]; exact a1), hs1, exec_seq_run _ _ _ _ (by rw [hs2]; exact b1), hs2,
      exec_rotCallK, exec_seq_run _ _ _ _ (by rw [hs3]; exact c1), hs3, h5]
  have hd1 : decide ((1 : Int) = 0) = false := by decide
  have hd0 : decide ((0 : Int) = 0) = true := by decide
  rw [hd1] at a6
  rw [hd0] at b6
  have hnd := (nodup_plug_iff rest (.node (.node wl w (.node a b c)) p (.node xl x xr))).mp hN
  have hsub : (Sh.node (Sh.node wl w (Sh.node a b c)) p (Sh.node xl x xr)).idxs.Nodup := (List.nodup_append.mp hnd).1
  have hne : b ≠ w ∧ p ≠ b ∧ p ≠ w := by
    have h1 := Sh.ptr_ne_of_nodup (.node wl w (.node a b c)) (.node xl x xr) p hsub
    have h2 := Sh.ptr_ne_of_nodup wl (.node a b c) w h1.2.2.1
    exact ⟨fun e => h2.2.2.2.2.2 (by simp [Sh.idxs, ← e]), fun e => h1.2.2.2.2.1 (by simp [Sh.idxs, e]),
      fun e => h1.2.2.2.2.1 (by simp [Sh.idxs, e])⟩
  rw [hr]
  refine ⟨c1, ⟨c2.shpV, c2.shpN, c2.lenV, c2.lenN, c2.pos⟩, c3', c4', ?_, by simp [setS], by simp [setS, exp3],
    ?_, ?_, ?_, ?_, ?_, ?_, ?_⟩
  · show absT (s3.fa "tree_vals") (s3.ia "tree_nodes") _ = _
    have a6' : absT (s1.fa "tree_vals") (s1.ia "tree_nodes") (plug (.node wl w (.node a b c)) (.L p (.node xl x xr) :: rest)) =
        atPath (setCol false) (pathOf rest ++ [Dir.L] ++ [Dir.R]) T := a6
    have c5' : absT (s3.fa "tree_vals") (s3.ia "tree_nodes") (plug (.node xl x xr) (.R (.node (.node wl w a) b c) p :: rest)) = _ := c5
    refine c5'.trans ?_
    rw [b6, a6', b4, a4]
    rfl
  · show setS s3.ienv "_rb_delete_fixup17$w" (b : Int) "_rb_delete_fixup17$x" = _
    rw [setS_ne _ _ _ _ (by decide), hfr.ienv _ (by decide), b3, a3]
  · show setS s3.ienv "_rb_delete_fixup17$w" (b : Int) "_rb_delete_fixup17$root" = _
    rw [setS_ne _ _ _ _ (by decide), c6, b3, a3, hroot]
    have : ¬ (ctxPar (Fr.L p (.node xl x xr) :: rest) = -1) := by rw [ctxPar_eq_neg_one]; simp
    rw [if_neg this]
    exact plug_ptr_cons (Fr.L p (.node xl x xr)) rest _ _
  · show vAt (s3.fa "tree_vals") (n - 1) 7 = S
    rw [c7, b4, a4]
  · show nAt (s3.ia "tree_nodes") (n - 1) 0 = _
    rw [c8, b7 _ 0 (by decide) (by omega), a7 _ 0 (by decide) (by omega)]
  · intro j hj
    show ColV (nAt (s3.ia "tree_nodes") j 0)
    rw [c8]
    exact colV_of_store colV_zero b7 b8 j (colV_of_store colV_one a7 a8 j hj)
  · show nAt (s3.ia "tree_nodes") p 0 = _
    rw [c8, b7 p 0 (by decide) (by simp [hne.2.2]), a7 p 0 (by decide) (by simp [hne.2.1])]
  · show nAt (s3.ia "tree_nodes") w 0 = _
    rw [c8, b8]

/-! ### case 4 -/

theorem dcase4R_spec (fuel n : Nat) (s : State F) (hv : VS s n) (hrun : s.ctl = .run)
    (xl : Sh) (x : Nat) (xr : Sh) (p : Nat) (fl : Sh) (f : Nat) (fr : Sh) (w : Nat) (wr : Sh) (rest : Ctx)
    (hL : Linked (s.ia "tree_nodes") n (-1) (plug (.node xl x xr) (.R (.node (.node fl f fr) w wr) p :: rest)))
    (hN : (plug (.node xl x xr) (.R (.node (.node fl f fr) w wr) p :: rest)).idxs.Nodup)
    (ew : s.ienv "_rb_delete_fixup17$w" = w) (exp : s.ienv "_rb_delete_fixup17$x_parent" = p)
    (hroot : s.ienv "_rb_delete_fixup17$root" = (plug (.node xl x xr) (.R (.node (.node fl f fr) w wr) p :: rest)).ptr)
    (hcp : ColV (nAt (s.ia "tree_nodes") p 0)) :
    let r := exec fuel (.seq (.stI2 "tree_nodes" (.var "_rb_delete_fixup17$w") (.lit 0) (.ld2 "tree_nodes" (.var "_rb_delete_fixup17$x_parent") (.lit 0)))
      (.seq (.stI2 "tree_nodes" (.var "_rb_delete_fixup17$x_parent") (.lit 0) (.lit 1))
      (.seq (.setI "_rb_delete_fixup17$w_left" (.ld2 "tree_nodes" (.var "_rb_delete_fixup17$w") (.lit 1)))
      (.seq (.stI2 "tree_nodes" (.var "_rb_delete_fixup17$w_left") (.lit 0) (.lit 1))
      (drrot33
      (.setI "_rb_delete_fixup17$x" (.var "_rb_delete_fixup17$root"))))))) s
    let T := absT (s.fa "tree_vals") (s.ia "tree_nodes") (plug (.node xl x xr) (.R (.node (.node fl f fr) w wr) p :: rest))
    let S : Fv F := vAt (s.fa "tree_vals") (n - 1) 7
    let sh' := plug (.node (.node fl f fr) w (.node wr p (.node xl x xr))) rest
    r.ctl = .run ∧ VS r n ∧ Linked (r.ia "tree_nodes") n (-1) sh' ∧ sh'.idxs.Nodup ∧
      absT (r.fa "tree_vals") (r.ia "tree_nodes") sh' =
        atPath (rotR S) (pathOf rest) (atPath (setCol false) (pathOf rest ++ [Dir.L] ++ [Dir.L])
          (atPath (setCol false) (pathOf rest) (atPath (setCol (decide (nAt (s.ia "tree_nodes") p 0 = 0)))
            (pathOf rest ++ [Dir.L]) T))) ∧
      r.ienv "_rb_delete_fixup17$x" = sh'.ptr ∧ r.ienv "_rb_delete_fixup17$root" = sh'.ptr ∧
      vAt (r.fa "tree_vals") (n - 1) 7 = S ∧ nAt (r.ia "tree_nodes") (n - 1) 0 = nAt (s.ia "tree_nodes") (n - 1) 0 ∧
      (∀ j, ColV (nAt (s.ia "tree_nodes") j 0) → ColV (nAt (r.ia "tree_nodes") j 0)) := by
  intro r T S sh'
  have hmem : ∀ j ∈ (Sh.node (Sh.node (Sh.node fl f fr) w wr) p (Sh.node xl x xr)).idxs, j + 1 < n := fun j hj =>
    Linked.idx_lt hL j (mem_plug _ rest _ hj)
  have hwn : w + 1 < n := hmem w (by simp [Sh.idxs])
  have hfn : f + 1 < n := hmem f (by simp [Sh.idxs])
  have hpn : p + 1 < n := hmem p (by simp [Sh.idxs])
  have hinp : inRange (p : Int) n = true := inRange_ptr n _ (by omega) hv.pos
  -- the sibling takes the parent's colour
  have hok : (IE.ld2 "tree_nodes" (.var "_rb_delete_fixup17$x_parent") (.lit 0)).ok s = true := by
    rw [okN s n hv.shpN _ 0 (by decide), exp]; exact hinp
  have hev : (IE.ld2 "tree_nodes" (.var "_rb_delete_fixup17$x_parent") (.lit 0)).eval s = nAt (s.ia "tree_nodes") p 0 := by
    rw [evalN s n hv.shpN _ 0 (by decide), exp, rowOf_nat]; rfl
  obtain ⟨a1, a2, a3, a4, a5, a6, a7, a8⟩ := stColE_at fuel n s hv hrun "_rb_delete_fixup17$w"
    (.ld2 "tree_nodes" (.var "_rb_delete_fixup17$x_parent") (.lit 0)) hok
    (.L p (.node xl x xr) :: rest) (.node fl f fr) w wr hL hN ew
  rw [hev] at a6 a8
  generalize hs3 : exec fuel (.stI2 "tree_nodes" (.var "_rb_delete_fixup17$w") (.lit 0)
    (.ld2 "tree_nodes" (.var "_rb_delete_fixup17$x_parent") (.lit 0))) s = s3 at a1 a2 a3 a4 a5 a6 a7 a8
  -- the parent black
  obtain ⟨b1, b2, b3, b4, b5, b6, b7, b8⟩ := stCol_at fuel n s3 a2 a1 "_rb_delete_fixup17$x_parent" 1
    rest (.node (.node fl f fr) w wr) p (.node xl x xr) a5 hN (by rw [a3]; exact exp)
  generalize hs4 : exec fuel (.stI2 "tree_nodes" (.var "_rb_delete_fixup17$x_parent") (.lit 0) (.lit 1)) s3 = s4 at b1 b2 b3 b4 b5 b6 b7 b8
  -- w_left
  have hb5' : Linked (s4.ia "tree_nodes") n (-1) (plug (.node (.node fl f fr) w wr) (.L p (.node xl x xr) :: rest)) := b5
  obtain ⟨hlw, _, _⟩ := unplug _ _ hb5' hN
  have hw1 : nAt (s4.ia "tree_nodes") w 1 = f := hlw.2.1
  have h5 := exec_ldN fuel n s4 b2.shpN "_rb_delete_fixup17$w_left" "_rb_delete_fixup17$w" 1 (by decide)
    (by rw [b3, a3, ew]; exact inRange_ptr n _ (by omega) hv.pos) f (by rw [b3, a3, ew, rowOf_nat]; exact hw1)
  generalize hs5 : ({ s4 with ienv := setS s4.ienv "_rb_delete_fixup17$w_left" (f : Int) } : State F) = s5 at h5
  have hv5 : VS s5 n := by rw [← hs5]; exact b2.of_eq rfl rfl rfl
  have hrun5 : s5.ctl = .run := by rw [← hs5]; exact b1
  have hia5 : s5.ia = s4.ia := by rw [← hs5]
  have hfa5 : s5.fa = s4.fa := by rw [← hs5]
  have exp5 : s5.ienv "_rb_delete_fixup17$x_parent" = p := by
    rw [← hs5]; show setS s4.ienv "_rb_delete_fixup17$w_left" (f : Int) "_rb_delete_fixup17$x_parent" = _
    rw [setS_ne _ _ _ _ (by decide), b3, a3]; exact exp
  have er5 : s5.ienv "_rb_delete_fixup17$root" = s.ienv "_rb_delete_fixup17$root" := by
    rw [← hs5]; show setS s4.ienv "_rb_delete_fixup17$w_left" (f : Int) "_rb_delete_fixup17$root" = _
    rw [setS_ne _ _ _ _ (by decide), b3, a3]
  -- the far child black
  obtain ⟨d1, d2, d3, d4, d5, d6, d7, d8⟩ := stCol_at fuel n s5 hv5 hrun5 "_rb_delete_fixup17$w_left" 1
    (.L w wr :: .L p (.node xl x xr) :: rest) fl f fr (by rw [hia5]; exact b5) hN
    (by rw [← hs5]; show setS s4.ienv "_rb_delete_fixup17$w_left" (f : Int) "_rb_delete_fixup17$w_left" = _; exact setS_same _ _ _)
  generalize hs6 : exec fuel (.stI2 "tree_nodes" (.var "_rb_delete_fixup17$w_left") (.lit 0) (.lit 1)) s5 = s6 at d1 d2 d3 d4 d5 d6 d7 d8
  -- the rotation at the parent
  obtain ⟨c1, c2, c3, c4, c5, c6, c7, c8⟩ := rrotCall_at_path dren33 (rotRen_inj _ _ _) "_rb_delete_fixup17$root"
    "_rb_delete_fixup17$x_parent" (by decide) s6 fuel n d2 d1 rest (.node fl f fr) w wr p (.node xl x xr) d5 hN
    (by rw [d3]; exact exp5)
  generalize hs7 : exec fuel (rotCall Gen.IL.vsRightRotate.body dren33 "y" "_rb_delete_fixup17$root"
    "_rb_delete_fixup17$x_parent") s6 = s7 at c1 c2 c3 c5 c6 c7 c8
  have hr : r = { s7 with ienv := setS s7.ienv "_rb_delete_fixup17$x" (s7.ienv "_rb_delete_fixup17$root") } := by
    simp only [r, drrot33]
    rw [exec_seq_run _ _ _ _ (by rw [hs3]; exact a1), hs3, exec_seq_run _ _ _ _ (by rw [hs4]; exact b1), hs4,
      exec_seq_run _ _ _ _ (by rw [h5]; exact hrun5), h5, exec_seq_run _ _ _ _ (by rw [hs6]; exact d1), hs6,
      exec_rotCallK, exec_seq_run _ _ _ _ (by rw [hs7]; exact c1), hs7, exec_setI _ _ _ _ (IE.ok_var _ _), IE.eval_var]
  have hd1 : decide ((1 : Int) = 0) = false := by decide
  rw [hd1] at b6 d6
  have hrootnew : s7.ienv "_rb_delete_fixup17$root" = sh'.ptr := by
    rw [c6, d3, er5, hroot]
    cases rest with
    | nil => simp [ctxPar, plug, Sh.ptr, sh']
    | cons g rs =>
      have : ¬ (ctxPar (g :: rs) = -1) := by rw [ctxPar_eq_neg_one]; simp
      rw [if_neg this]
      exact plug_ptr_cons g rs _ _
  rw [hr]
  refine ⟨c1, ⟨c2.shpV, c2.shpN, c2.lenV, c2.lenN, c2.pos⟩, c3, c4, ?_, by simp [setS, hrootnew], ?_, ?_, ?_, ?_⟩
  · show absT (s7.fa "tree_vals") (s7.ia "tree_nodes") _ = _
    have a6' : absT (s3.fa "tree_vals") (s3.ia "tree_nodes") (plug (.node (.node (.node fl f fr) w wr) p (.node xl x xr)) rest) =
        atPath (setCol (decide (nAt (s.ia "tree_nodes") p 0 = 0))) (pathOf rest ++ [Dir.L]) T := a6
    have d6' : absT (s6.fa "tree_vals") (s6.ia "tree_nodes") (plug (.node (.node (.node fl f fr) w wr) p (.node xl x xr)) rest) =
        atPath (setCol false) (pathOf rest ++ [Dir.L] ++ [Dir.L])
          (absT (s5.fa "tree_vals") (s5.ia "tree_nodes") (plug (.node (.node (.node fl f fr) w wr) p (.node xl x xr)) rest)) := d6
    refine c5.trans ?_
    rw [d6', hfa5, hia5, b6, a6', d4, hfa5, b4, a4]
  · show setS s7.ienv "_rb_delete_fixup17$x" (s7.ienv "_rb_delete_fixup17$root") "_rb_delete_fixup17$root" = _
    rw [setS_ne _ _ _ _ (by decide)]; exact hrootnew
  · show vAt (s7.fa "tree_vals") (n - 1) 7 = S
    rw [c7, d4, hfa5, b4, a4]
  · show nAt (s7.ia "tree_nodes") (n - 1) 0 = _
    rw [c8, d7 _ 0 (by decide) (by omega), hia5, b7 _ 0 (by decide) (by omega), a7 _ 0 (by decide) (by omega)]
  · intro j hj
    show ColV (nAt (s7.ia "tree_nodes") j 0)
    rw [c8]
    refine colV_of_store colV_one d7 d8 j ?_
    rw [hia5]
    refine colV_of_store colV_one b7 b8 j ?_
    by_cases e : j = w
    · rw [e, a8]; exact hcp
    · rw [a7 j 0 (by decide) (fun h => e h.1)]; exact hj

end XrsVerif.ILVs
