import XrsVerif.Proofs.ILAStarSearch
/-
  Proofs/ILAStarIter.lean -- one iteration of the main `while num_open > 0` loop of the generated `_a_star_search`
  (`whileBody`): pop the open cell of minimum cost, goal test, neighbour loop, recount.

  * `iter_expand`: when the model's `minCostOpen` returns `u ≠ goal`, the iteration turns a state representing `mst`
     into a state representing `expand e mst u` (the model's step) and `num_open` is recounted;
  * `iter_goal`: when it returns the goal, the iteration ends the function (`return`) after writing the chain of the
     parent walk into `path_img` (given that the model's `walk` succeeds -- which `AStar.search_spec` proves).
-/
namespace XrsVerif.IL
open XrsVerif XrsVerif.AStar
variable {F : Type} [Fl F]
set_option linter.unusedSectionVars false
set_option linter.unusedVariables false
set_option linter.unusedSimpArgs false

theorem minFold_inside (e : Env F) (st : AStar.St F) :
    ∀ (l : List Cell) (acc : Option Cell × F),
      (∀ c, acc.1 = some c → inside e.h e.w c = true) → (∀ x ∈ l, inside e.h e.w x = true) →
      ∀ c, (l.foldl (minStep e st) acc).1 = some c → inside e.h e.w c = true
  | [], acc, h, _, c, hc => h c (by simpa using hc)
  | x :: l, acc, h, hl, c, hc => by
    simp only [List.foldl_cons] at hc
    refine minFold_inside e st l (minStep e st acc x) ?_ (fun y hy => hl y (by simp [hy])) c hc
    intro c' hc'
    unfold minStep at hc'
    split at hc'
    · simp at hc'; rw [← hc']; exact hl x (by simp)
    · exact h c' hc'

theorem minCostOpen_inside {e : Env F} {st : AStar.St F} {u : Cell} (h : minCostOpen e st = some u) :
    inside e.h e.w u = true :=
  minFold_inside e st _ _ (by simp) (fun x hx => mem_cells.1 hx) u h

/-- the pop: `py, px = _min_cost_pixel_id(cost, is_open); is_open[py][px] = 0; is_closed[py][px] = True` -/
theorem pop_exec (e : Env F) (mst : AStar.St F) (s : State F) (hs : s.ctl = .run) (hc : SrchConst e s)
    (ha : SrchAbs e s mst) (u : Cell) (hmin : minCostOpen e mst = some u) (fuel : Nat) :
    ∃ s2 : State F, exec fuel whileBody s = exec fuel wbGoal s2 ∧ s2.ctl = .run ∧ IterInv e u s2 (close mst u) ∧
      s2.fa = s.fa ∧ s2.ia "parent_ys" = s.ia "parent_ys" ∧ s2.ia "parent_xs" = s.ia "parent_xs" := by
  have hu := minCostOpen_inside hmin
  have hu' := (inside_iff e.h e.w u).1 hu
  have ru1 : inRange u.1 e.h = true := inRange_inside hu'.1 hu'.2.1
  have ru2 : inRange u.2 e.w = true := inRange_inside hu'.2.2.1 hu'.2.2.2
  have hou := off2_inside e.h e.w u hu
  have hm := mc_scope q4 q4_ren e mst s hs (ha.mcAbs hc) fuel
  rw [hmin] at hm
  generalize hr1eq : exec fuel (.scope (mcSt q4)) s = r1 at hm
  obtain ⟨hr1, hfr, hret⟩ := hm
  have e0 : q4 "ret0" = "_min_cost_pixel_id4$ret0" := by decide
  have e1 : q4 "ret1" = "_min_cost_pixel_id4$ret1" := by decide
  rw [e0, e1] at hret
  have hr0 : r1.ienv "_min_cost_pixel_id4$ret0" = u.1 := congrArg Prod.fst hret
  have hr1' : r1.ienv "_min_cost_pixel_id4$ret1" = u.2 := congrArg Prod.snd hret
  have hk : ∀ x ∈ keepI, r1.ienv x = s.ienv x := by
    intro x hx
    simp only [keepI, List.mem_cons, List.not_mem_nil, or_false] at hx
    rcases hx with hx | hx | hx | hx | hx | hx | hx | hx <;> subst hx <;> exact hfr.ienv _ (by decide)
  let s2 : State F :=
    { r1 with
      ienv := setS (setS r1.ienv "py" u.1) "px" u.2,
      ia := setS (setS r1.ia "is_open" ((r1.ia "is_open").set (cidx e.w u) 0)) "is_closed"
        ((r1.ia "is_closed").set (cidx e.w u) 1) }
  have h2 : exec fuel wbPop r1 = exec fuel wbGoal s2 := by
    ilsimp [wbPop, s2, hr1, hr0, hr1', hfr.shp, hc.s_open, hc.s_closed, ru1, ru2, hou]
  refine ⟨s2, ?_, hr1, ⟨?_, ?_, ?_, ?_⟩, hfr.fa, ?_, ?_⟩
  · rw [whileBody, exec_seq_to hr1eq hr1, h2]
  · exact hc.of_frame (r := s2) hfr.shp (by simp [s2, hfr.fa]) (by simp [s2, hfr.fa])
      (by simp [s2, setS_apply, hfr.ia]) (by simp [s2, setS_apply, hfr.ia])
      (by simp [s2, setS_apply, hk _ (by decide : "height" ∈ keepI)])
      (by simp [s2, setS_apply, hk _ (by decide : "width" ∈ keepI)])
      (by simp [s2, setS_apply, hk _ (by decide : "goal_py" ∈ keepI)])
      (by simp [s2, setS_apply, hk _ (by decide : "goal_px" ∈ keepI)])
      (by simp [s2, setS_apply, hk _ (by decide : "start_py" ∈ keepI)])
      (by simp [s2, setS_apply, hk _ (by decide : "start_px" ∈ keepI)])
  · exact ha.closed (r := s2) u hu (by simp [s2, setS_apply, hfr.ia]) (by simp [s2, setS_apply, hfr.ia])
      (by simp [s2, setS_apply, hfr.ia]) (by simp [s2, setS_apply, hfr.ia]) (by simp [s2, hfr.fa])
      (by simp [s2, hfr.fa])
  · simp [s2, setS_apply]
  · simp [s2, setS_apply]
  · simp [s2, setS_apply, hfr.ia]
  · simp [s2, setS_apply, hfr.ia]

/-- `np.sum(is_open)` -/
def sumI (l : List Int) : Int := l.foldl (· + ·) 0

/-- **one iteration of the main loop is the model's step** (`minCostOpen` returns a cell other than the goal):
    a program state representing `mst` is turned into one representing `expand e mst u`; `num_open` is recounted;
    `path_img` is not touched -/
theorem iter_expand (e : Env F) (mst : AStar.St F) (s : State F) (hs : s.ctl = .run) (hc : SrchConst e s)
    (ha : SrchAbs e s mst) (u : Cell) (hmin : minCostOpen e mst = some u) (hne : u ≠ e.goal) (fuel : Nat) :
    (exec fuel whileBody s).ctl = .run ∧ SrchConst e (exec fuel whileBody s) ∧
      SrchAbs e (exec fuel whileBody s) (expand e mst u) ∧
      (exec fuel whileBody s).ienv "num_open" = sumI ((exec fuel whileBody s).ia "is_open") ∧
      (exec fuel whileBody s).fa "path_img" = s.fa "path_img" := by
  have hu := minCostOpen_inside hmin
  obtain ⟨s2, h2, hs2, hinv2, hfa2, -, -⟩ := pop_exec e mst s hs hc ha u hmin fuel
  have hg : exec fuel goalSt s2 = s2 := by
    have : ¬ (u.1 = e.goal.1 ∧ u.2 = e.goal.2) := fun h => hne (Prod.ext h.1 h.2)
    by_cases h1 : u.1 = e.goal.1
    · have h2 : ¬ u.2 = e.goal.2 := fun h => this ⟨h1, h⟩
      ilsimp [goalSt, hinv2.py, hinv2.px, hinv2.const.gy, hinv2.const.gx, h1, h2]
    · ilsimp [goalSt, hinv2.py, hinv2.px, hinv2.const.gy, hinv2.const.gx, h1]
  have hl := rx_loop e u hu (close mst u) s2 hs2 hinv2 fuel
  rw [h2, wbGoal, exec_seq_to hg hs2, wbTail, exec_seq_to rfl hl.1]
  generalize exec fuel rxLoop s2 = r3 at hl
  obtain ⟨hr3, hinv3, hp3⟩ := hl
  ilsimp [hr3]
  refine ⟨hinv3.const.of_frame rfl rfl rfl rfl rfl ?_ ?_ ?_ ?_ ?_ ?_, hinv3.abs.of_eq rfl rfl, rfl, ?_⟩
  all_goals first
    | simp [setS_apply]
    | (rw [hp3, hfa2])

/-- the parent walk only looks at the cells it visits -/
theorem walk_congr {par par' : Cell → Option Cell} {start : Cell} (P : Cell → Prop)
    (hpp : ∀ c, P c → par c = par' c) :
    ∀ {n : Nat} {cur : Cell} {chain : List Cell}, walk par start n cur = some chain → (∀ c ∈ chain, P c) →
      walk par' start n cur = some chain
  | 0, _, _, h, _ => by simp [walk] at h
  | n + 1, cur, chain, h, hin => by
    simp only [walk] at h ⊢
    by_cases hc : cur = start
    · simpa [hc] using h
    · simp only [hc, if_false] at h ⊢
      obtain ⟨t, ht⟩ := walk_head (n := n + 1) (par := par) (s := start) (c := cur) (l := chain)
        (by simp only [walk, hc, if_false]; exact h)
      rw [← hpp cur (hin cur (by simp [ht]))]
      cases hp : par cur with
      | none => simp [hp] at h
      | some p =>
        simp only [hp, Option.map_eq_some_iff] at h ⊢
        obtain ⟨t', ht', rfl⟩ := h
        exact ⟨t', walk_congr P hpp ht' (fun c hc => hin c (by simp [hc])), rfl⟩

/-- **the iteration that pops the goal**: the function returns after `_reconstruct_path` has written
    `d_from_start[c]` into `path_img[c]` for exactly the cells of the model's parent walk from the goal to the start
    (hypotheses: the walk succeeds within some fuel and stays in the raster, the goal has a parent -- both are
    consequences of the search invariant, `AStar.search_spec`) -/
theorem iter_goal (e : Env F) (mst : AStar.St F) (s : State F) (hs : s.ctl = .run) (hc : SrchConst e s)
    (ha : SrchAbs e s mst) (hmin : minCostOpen e mst = some e.goal) (fuel : Nat) (n : Nat) (chain : List Cell)
    (hw : walk mst.parent e.start n e.goal = some chain) (hin : ∀ c ∈ chain, inside e.h e.w c = true)
    (hfuel : chain.length ≤ fuel) :
    (exec fuel whileBody s).ctl = .ret ∧
      (exec fuel whileBody s).fa "path_img" =
        chainW (s.fa "d_from_start") e.w (e.start :: chain.dropLast) (s.fa "path_img") := by
  have hu := minCostOpen_inside hmin
  have hpar : mst.parent e.goal ≠ none := by
    by_cases hgs : e.goal = e.start
    · rw [hgs, ha.parent _ hc.start_in]; exact ha.pstart
    · cases n with
      | zero => simp [walk] at hw
      | succ n =>
        simp only [walk, hgs, if_false] at hw
        intro hnone
        simp [hnone] at hw
  obtain ⟨s2, h2, hs2, hinv2, hfa2, hpy2, hpx2⟩ := pop_exec e mst s hs hc ha e.goal hmin fuel
  have hc2 := hinv2.const
  let s3 : State F :=
    { s2 with
      ienv := setS (setS (setS (setS s2.ienv "_reconstruct_path5$start_py" e.start.1)
                "_reconstruct_path5$start_px" e.start.2) "_reconstruct_path5$goal_py" e.goal.1)
                "_reconstruct_path5$goal_px" e.goal.2,
      ctl := .run }
  have hpo : ∀ c, inside e.h e.w c = true →
      mst.parent c = parentOf (s3.ia "parent_ys") (s3.ia "parent_xs") e.w c := by
    intro c hc'
    rw [ha.parent c hc']
    show _ = parentOf (s2.ia "parent_ys") (s2.ia "parent_xs") e.w c
    rw [hpy2, hpx2]
  have e1 : q5 "start_py" = "_reconstruct_path5$start_py" := by decide
  have e2 : q5 "start_px" = "_reconstruct_path5$start_px" := by decide
  have e3 : q5 "goal_py" = "_reconstruct_path5$goal_py" := by decide
  have e4 : q5 "goal_px" = "_reconstruct_path5$goal_px" := by decide
  have hrc := rc_exec_some q5 q5_ren "d_from_start" e.h e.w s3 fuel rfl
    ⟨hc2.s_path, hc2.s_py, hc2.s_px, hc2.s_g, by decide⟩ e.start e.goal
    ⟨by rw [e1]; simp [s3, setS_apply], by rw [e2]; simp [s3, setS_apply], by rw [e3]; simp [s3, setS_apply],
     by rw [e4]; simp [s3, setS_apply]⟩
    (by rw [← hpo _ hu]; exact hpar) n chain
    (walk_congr (fun c => inside e.h e.w c = true) hpo hw hin) hin hfuel
  have hg : exec fuel goalSt s2 = { exec fuel (rcSt q5 "d_from_start") s3 with ctl := .ret } := by
    have hr1 := hrc.1
    ilsimp [goalSt, s3, hinv2.py, hinv2.px, hc2.gy, hc2.gx, hc2.sy, hc2.sx, hs2]
    simp only [s3] at hr1
    simp [hr1]
  rw [h2, wbGoal, exec_seq_eq hg]
  refine ⟨rfl, ?_⟩
  show (exec fuel (rcSt q5 "d_from_start") s3).fa "path_img" = _
  rw [hrc.2.1]
  simp [s3, hfa2]

end XrsVerif.IL


