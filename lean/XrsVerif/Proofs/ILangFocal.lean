import XrsVerif.Proofs.ILangStrides
/-
  Proofs/ILangFocal.lean -- generic lemmas about the ILang interpreter used by the refinement proofs of
  `_apply_numpy` / `_mean_numpy` (Proofs/ILApply.lean, Proofs/ILMean.lean):

  * `Frame IV FA s r`: `r` is a running state that differs from `s` at most in the integer variables `IV`, the
    contents of the numeric arrays `FA`, the shapes of the arrays `SH` and numeric / boolean scalars;
  * `exec_for2_store`: the raster double loop `for vy in range(n): for vx in range(m): <body>` whose body stores
    `val p q` at `arr[p, q]`, as a nested fold of `List.set`;
  * `fold2_set_eq`: that nested fold on a list of length `n * m` is the row-major list of the `val p q`;
  * `loopOver_err_weak`: a loop ends with an error if one iteration always does and the earlier ones run or fail
    with the same error.
-/
namespace XrsVerif.IL.Fc
open XrsVerif XrsVerif.IL XrsVerif.IL.Sd
variable {F : Type} [Fl F]
set_option linter.unusedSectionVars false

/-- `r` is a running state that differs from `s` at most in the integer variables `IV`, in the contents of the
    numeric arrays `FA`, in the shapes of the arrays `SH` and in numeric / boolean scalars -/
structure Frame (IV FA SH : List String) (s r : State F) : Prop where
  ctl : r.ctl = .run
  shp : ∀ a, a ∉ SH → r.shp a = s.shp a
  fa : ∀ a, a ∉ FA → r.fa a = s.fa a
  ienv : ∀ v, v ∉ IV → r.ienv v = s.ienv v

theorem Frame.refl (IV FA SH : List String) (s : State F) (h : s.ctl = .run) : Frame IV FA SH s s :=
  ⟨h, fun _ _ => rfl, fun _ _ => rfl, fun _ _ => rfl⟩

theorem Frame.trans {IV FA SH : List String} {s r t : State F} (h1 : Frame IV FA SH s r) (h2 : Frame IV FA SH r t) :
    Frame IV FA SH s t :=
  ⟨h2.ctl, fun a ha => (h2.shp a ha).trans (h1.shp a ha), fun a ha => (h2.fa a ha).trans (h1.fa a ha),
   fun v hv => (h2.ienv v hv).trans (h1.ienv v hv)⟩

theorem Frame.mono {IV FA SH IV' FA' SH' : List String} {s r : State F} (h : Frame IV FA SH s r)
    (h1 : ∀ v, v ∈ IV → v ∈ IV') (h2 : ∀ a, a ∈ FA → a ∈ FA') (h3 : ∀ a, a ∈ SH → a ∈ SH') : Frame IV' FA' SH' s r :=
  ⟨h.ctl, fun a ha => h.shp a (fun hm => ha (h3 a hm)), fun a ha => h.fa a (fun hm => ha (h2 a hm)),
   fun v hv => h.ienv v (fun hm => hv (h1 v hm))⟩

/-- setting one integer variable -/
theorem Frame.setI (IV FA SH : List String) (s : State F) (v : String) (x : Int) (h : s.ctl = .run) (hv : v ∈ IV) :
    Frame IV FA SH s { s with ienv := setS s.ienv v x } :=
  ⟨h, fun _ _ => rfl, fun _ _ => rfl, fun w hw => by
    have : w ≠ v := fun e => hw (e ▸ hv)
    simp [setS, this]⟩

theorem exec_ite_true (fuel : Nat) (c : BE) (t f : St) (s : State F) (hok : c.ok s = true) (hc : c.eval s = true) :
    exec fuel (.ite c t f) s = exec fuel t s := by
  simp only [exec, hok, hc, if_true]

theorem exec_ite_false (fuel : Nat) (c : BE) (t f : St) (s : State F) (hok : c.ok s = true) (hc : c.eval s = false) :
    exec fuel (.ite c t f) s = exec fuel f s := by
  simp only [exec, hok, hc, if_true]
  simp

theorem exec_ite_err (fuel : Nat) (c : BE) (t f : St) (s : State F) (hok : c.ok s = false) :
    exec fuel (.ite c t f) s = s.error "index" := by
  simp only [exec, hok]
  simp

theorem exec_setI_eq (fuel : Nat) (x : String) (e : IE) (s : State F) (v : Int) (hok : e.ok s = true)
    (hv : e.eval s = v) : exec fuel (.setI x e) s = { s with ienv := setS s.ienv x v } := by
  simp only [exec, hok, hv, if_true]

/-- `a = np.full((d1, d2), fill)` with non-negative extents -/
theorem exec_allocF2 (fuel : Nat) (a : String) (d1 d2 : IE) (fill : FE) (s : State F) (n1 n2 : Nat)
    (h1ok : d1.ok s = true) (h2ok : d2.ok s = true) (hf : fill.ok s = true)
    (h1 : d1.eval s = (n1 : Int)) (h2 : d2.eval s = (n2 : Int)) :
    exec fuel (.allocF a [d1, d2] fill) s =
      { s with shp := setS s.shp a [n1, n2], fa := setS s.fa a (List.replicate (n1 * n2) (fill.eval s)) } := by
  simp [exec, h1ok, h2ok, hf, h1, h2]

theorem iop_sub (a b : Int) : IOp.eval .sub a b = a - b := rfl
theorem iop_add (a b : Int) : IOp.eval .add a b = a + b := rfl

theorem iop_max (a b : Int) : IOp.eval .max a b = max a b := by
  simp only [IOp.eval]; split <;> omega

theorem iop_min (a b : Int) : IOp.eval .min a b = min a b := by
  simp only [IOp.eval]; split <;> omega

/-- the raster double loop: `for vy in range(n): for vx in range(m): body`, where `body` (run with `vy = p`, `vx = q`
    in a state satisfying `Good`) keeps `Good` and `vy`, and stores `val p q` at `arr[p, q]` (flat offset `p * m + q`) -/
theorem exec_for2_store (fuel : Nat) (vy vx : String) (hiY hiX : IE) (body : St) (arr : String)
    (n m : Nat) (val : Nat → Nat → F) (Good : State F → Prop) (hne : vy ≠ vx)
    (hvy : ∀ (st : State F) (i : Int), Good st → Good { st with ienv := setS st.ienv vy i })
    (hvx : ∀ (st : State F) (i : Int), Good st → Good { st with ienv := setS st.ienv vx i })
    (hY : ∀ st : State F, Good st → hiY.ok st = true ∧ hiY.eval st = (n : Int))
    (hX : ∀ st : State F, Good st → hiX.ok st = true ∧ hiX.eval st = (m : Int))
    (hbody : ∀ (st : State F) (p q : Nat), st.ctl = .run → Good st → st.ienv vy = p → st.ienv vx = q → p < n → q < m →
       (exec fuel body st).ctl = .run ∧ Good (exec fuel body st) ∧ (exec fuel body st).ienv vy = p ∧
       (exec fuel body st).fa arr = (st.fa arr).set (p * m + q) (val p q))
    (s : State F) (hs : s.ctl = .run) (hg : Good s) :
    let r := exec fuel (.forRange vy (.lit 0) hiY (.lit 1) (.forRange vx (.lit 0) hiX (.lit 1) body)) s
    r.ctl = .run ∧ Good r ∧
    r.fa arr = (List.range n).foldl (fun o p => (List.range m).foldl (fun o q => o.set (p * m + q) (val p q)) o)
      (s.fa arr) := by
  intro r
  have hr : r = loopOver (fun st i => exec fuel (.forRange vx (.lit 0) hiX (.lit 1) body) { st with ienv := setS st.ienv vy i })
      ((List.range n).map (fun (k : Nat) => (k : Int))) s := by
    simp only [r]
    rw [exec_forRange_up fuel vy hiY _ s n (hY s hg).1 (hY s hg).2]
  have h := loopOver_foldl
    (fun st i => exec fuel (.forRange vx (.lit 0) hiX (.lit 1) body) { st with ienv := setS st.ienv vy i })
    ((List.range n).map (fun (k : Nat) => (k : Int))) Good (fun st => st.fa arr)
    (fun o (i : Int) => (List.range m).foldl (fun o q => o.set (i.toNat * m + q) (val i.toNat q)) o)
    (by
      intro st x hx hc hgs
      obtain ⟨p, hp, rfl⟩ := List.mem_map.mp hx
      have hp := List.mem_range.mp hp
      have hg1 := hvy st (p : Int) hgs
      have hr2 : exec fuel (.forRange vx (.lit 0) hiX (.lit 1) body) { st with ienv := setS st.ienv vy (p : Int) } =
          loopOver (fun st i => exec fuel body { st with ienv := setS st.ienv vx i })
            ((List.range m).map (fun (k : Nat) => (k : Int))) { st with ienv := setS st.ienv vy (p : Int) } := by
        rw [exec_forRange_up fuel vx hiX _ _ m (hX _ hg1).1 (hX _ hg1).2]
      have h2 := loopOver_foldl (fun st i => exec fuel body { st with ienv := setS st.ienv vx i })
        ((List.range m).map (fun (k : Nat) => (k : Int))) (fun st => Good st ∧ st.ienv vy = (p : Int))
        (fun st => st.fa arr) (fun o (j : Int) => o.set (p * m + j.toNat) (val p j.toNat))
        (by
          intro st2 x2 hx2 hc2 ⟨hg2, hvy2⟩
          obtain ⟨q, hq, rfl⟩ := List.mem_map.mp hx2
          have hq := List.mem_range.mp hq
          have hb := hbody { st2 with ienv := setS st2.ienv vx (q : Int) } p q hc2 (hvx st2 _ hg2)
            (by simp only [setS, hne, if_false]; exact hvy2) (by simp) hp hq
          refine ⟨hb.1, ⟨hb.2.1, hb.2.2.1⟩, ?_⟩
          rw [hb.2.2.2]; simp)
        { st with ienv := setS st.ienv vy (p : Int) } hc ⟨hg1, by simp⟩
      rw [hr2]
      refine ⟨h2.1, h2.2.1.1, ?_⟩
      rw [h2.2.2, List.foldl_map]
      simp)
    s hs hg
  rw [← hr] at h
  refine ⟨h.1, h.2.1, ?_⟩
  rw [h.2.2, List.foldl_map]
  simp

/-! ### nested folds of stores -/

theorem foldl_set_len {α β : Type} (xs : List α) (idx : α → Nat) (v : α → β) (out : List β) :
    (xs.foldl (fun o x => o.set (idx x) (v x)) out).length = out.length := by
  induction xs generalizing out with
  | nil => rfl
  | cons x xs ih => simp only [List.foldl_cons, ih, List.length_set]

/-- no store hits position `t` -/
theorem foldl_set_miss' {α β : Type} (xs : List α) (idx : α → Nat) (v : α → β) (out : List β) (t : Nat)
    (h : ∀ x ∈ xs, idx x ≠ t) : (xs.foldl (fun o x => o.set (idx x) (v x)) out)[t]? = out[t]? := by
  induction xs generalizing out with
  | nil => rfl
  | cons x xs ih =>
    simp only [List.foldl_cons]
    rw [ih _ (fun y hy => h y (by simp [hy])), List.getElem?_set_ne (h x (by simp))]

/-- some store hits position `t`, and all that do write `w` -/
theorem foldl_set_hit' {α β : Type} (xs : List α) (idx : α → Nat) (v : α → β) (out : List β) (t : Nat) (w : β)
    (hw : ∀ x ∈ xs, idx x = t → v x = w) (hex : ∃ x ∈ xs, idx x = t) (ht : t < out.length) :
    (xs.foldl (fun o x => o.set (idx x) (v x)) out)[t]? = some w := by
  induction xs generalizing out with
  | nil => obtain ⟨x, hx, _⟩ := hex; cases hx
  | cons x xs ih =>
    simp only [List.foldl_cons]
    by_cases hmore : ∃ y ∈ xs, idx y = t
    · exact ih _ (fun y hy => hw y (by simp [hy])) hmore (by simpa using ht)
    · have hmiss : ∀ y ∈ xs, idx y ≠ t := fun y hy he => hmore ⟨y, hy, he⟩
      rw [foldl_set_miss' _ _ _ _ _ hmiss]
      obtain ⟨y, hy, hyt⟩ := hex
      have hxt : idx x = t := by
        rcases List.mem_cons.mp hy with rfl | hy'
        · exact hyt
        · exact absurd hyt (hmiss y hy')
      rw [hxt, List.getElem?_set_self ht, hw x (by simp) hxt]

theorem idx_inj' (i j p q n : Nat) (hj : j < n) (hq : q < n) (h : i * n + j = p * n + q) : i = p ∧ j = q := by
  have hn : 0 < n := by omega
  have h1 : (i * n + j) / n = i := by
    rw [Nat.mul_comm, Nat.mul_add_div hn, Nat.div_eq_of_lt hj, Nat.add_zero]
  have h2 : (p * n + q) / n = p := by
    rw [Nat.mul_comm, Nat.mul_add_div hn, Nat.div_eq_of_lt hq, Nat.add_zero]
  have hip : i = p := by rw [← h1, ← h2, h]
  subst hip
  exact ⟨rfl, by omega⟩

/-- row-major list of the index pairs of an `n × m` array -/
def pairs (n m : Nat) : List (Nat × Nat) := (List.range n).flatMap fun p => (List.range m).map fun q => (p, q)

theorem pairs_succ (n m : Nat) : pairs (n + 1) m = pairs n m ++ (List.range m).map (fun q => (n, q)) := by
  unfold pairs
  rw [List.range_succ, List.flatMap_append]
  simp

theorem pairs_length (n m : Nat) : (pairs n m).length = n * m := by
  induction n with
  | zero => simp [pairs]
  | succ n ih => rw [pairs_succ, List.length_append, ih, List.length_map, List.length_range, Nat.succ_mul]

theorem pairs_getElem? (n m p q : Nat) (hp : p < n) (hq : q < m) : (pairs n m)[p * m + q]? = some (p, q) := by
  induction n with
  | zero => omega
  | succ n ih =>
    rw [pairs_succ]
    by_cases h : p < n
    · have : p * m + q < (pairs n m).length := by
        rw [pairs_length]
        calc p * m + q < p * m + m := by omega
          _ = (p + 1) * m := by rw [Nat.succ_mul]
          _ ≤ n * m := Nat.mul_le_mul_right m h
      rw [List.getElem?_append_left this]
      exact ih h
    · have hpr : p = n := by omega
      subst hpr
      rw [List.getElem?_append_right (by rw [pairs_length]; omega), pairs_length]
      simp [hq]

theorem mem_pairs (n m : Nat) (x : Nat × Nat) : x ∈ pairs n m ↔ x.1 < n ∧ x.2 < m := by
  simp only [pairs, List.mem_flatMap, List.mem_map, List.mem_range]
  constructor
  · rintro ⟨p, hp, q, hq, rfl⟩; exact ⟨hp, hq⟩
  · intro h; exact ⟨x.1, h.1, x.2, h.2, rfl⟩

/-- storing `val p q` at offset `p * m + q` for all `(p, q)` (any order of the two loops' bodies) into a list of
    length `n * m` gives the row-major list of the values -/
theorem fold2_set_eq {β : Type} (n m : Nat) (val : Nat → Nat → β) (out : List β) (h : out.length = n * m) :
    (List.range n).foldl (fun o p => (List.range m).foldl (fun o q => o.set (p * m + q) (val p q)) o) out =
      (pairs n m).map fun x => val x.1 x.2 := by
  have e : (List.range n).foldl (fun o p => (List.range m).foldl (fun o q => o.set (p * m + q) (val p q)) o) out =
      (pairs n m).foldl (fun o (x : Nat × Nat) => o.set (x.1 * m + x.2) (val x.1 x.2)) out := by
    unfold pairs
    rw [List.foldl_flatMap]
    congr 1
    funext o p
    rw [List.foldl_map]
  rw [e]
  apply List.ext_getElem?
  intro t
  by_cases ht : t < n * m
  · have hm : 0 < m := by
      rcases Nat.eq_zero_or_pos m with h0 | h0
      · subst h0; simp at ht
      · exact h0
    have hq : t % m < m := Nat.mod_lt _ hm
    have hp : t / m < n := Nat.div_lt_of_lt_mul (by rw [Nat.mul_comm]; exact ht)
    have htd : (t / m) * m + t % m = t := by rw [Nat.mul_comm]; exact Nat.div_add_mod t m
    have hR : ((pairs n m).map fun x => val x.1 x.2)[t]? = some (val (t / m) (t % m)) := by
      rw [List.getElem?_map]
      conv => lhs; rw [← htd]
      rw [pairs_getElem? n m _ _ hp hq]
      rfl
    rw [hR]
    apply foldl_set_hit'
    · intro x hx hxt
      have hx' := (mem_pairs n m x).mp hx
      have := idx_inj' x.1 x.2 (t / m) (t % m) m hx'.2 hq (by rw [hxt, htd])
      rw [this.1, this.2]
    · exact ⟨(t / m, t % m), (mem_pairs n m _).mpr ⟨hp, hq⟩, htd⟩
    · omega
  · rw [List.getElem?_eq_none (by rw [foldl_set_len]; omega),
      List.getElem?_eq_none (by rw [List.length_map, pairs_length]; omega)]

/-! ### a loop that stops with an error -/

/-- a loop ends with error `msg` if iteration `m`, started in any running `Good` state, does, and every earlier
    iteration either runs normally (keeping `Good`) or already fails with `msg` -/
theorem loopOver_err_weak {α} (f : State F → α → State F) (xs : List α) (Good : State F → Prop) (msg : String)
    (m : Nat) (hm : m < xs.length)
    (hstep : ∀ (st : State F) (i : Nat) (hi : i < m), st.ctl = .run → Good st →
      ((f st (xs[i]'(Nat.lt_trans hi hm))).ctl = .run ∧ Good (f st (xs[i]'(Nat.lt_trans hi hm)))) ∨
      (f st (xs[i]'(Nat.lt_trans hi hm))).ctl = .err msg)
    (herr : ∀ st : State F, st.ctl = .run → Good st → (f st xs[m]).ctl = .err msg)
    (s : State F) (h0 : s.ctl = .run) (hg : Good s) :
    (loopOver f xs s).ctl = .err msg := by
  induction xs generalizing m s with
  | nil => simp at hm
  | cons x xs ih =>
    rw [loopOver_cons _ _ _ _ h0]
    have stop : ∀ st : State F, st.ctl = .err msg →
        (if (afterBody st).ctl = .run then loopOver f xs (afterBody st) else afterLoop (afterBody st)).ctl = .err msg := by
      intro st he
      rw [afterBody_err _ _ he]
      simp only [he]
      rw [afterLoop_err _ _ he]; exact he
    cases m with
    | zero =>
      have he := herr s h0 hg
      simp only [List.getElem_cons_zero] at he
      exact stop _ he
    | succ m =>
      rcases hstep s 0 (by omega) h0 hg with ⟨hc, hgd⟩ | he
      · simp only [List.getElem_cons_zero] at hc hgd
        rw [afterBody_run _ hc]
        simp only [hc, if_true]
        exact ih m (by simpa using hm)
          (fun st i hi hst hgs => by
            have := hstep st (i + 1) (by omega) hst hgs
            simpa using this)
          (fun st hst hgs => by
            have := herr st hst hgs
            simpa using this)
          _ hc hgd
      · simp only [List.getElem_cons_zero] at he
        exact stop _ he

end XrsVerif.IL.Fc
