import XrsVerif.Proofs.ILViewshedOrder
import XrsVerif.Proofs.ILViewshedFixInsMain
/-
  Proofs/ILViewshedFixOrder.lean -- the colour fix-up of the insertion commutes with the embedding of a tree over a
  linearly ordered field `K` into the ILang value domain `NV K`; hence the generated `_insert_into_tree`, run at
  `NV K` on arrays holding the image of a tree `t0`, leaves the image of the hand model's `rbInsert S nn t0`
  (`vsInsert_model`).
-/
set_option linter.unusedSectionVars false
set_option linter.unusedVariables false
set_option linter.unusedSimpArgs false
namespace XrsVerif.ILVs
open XrsVerif XrsVerif.IL XrsVerif.Viewshed

section field
variable {K : Type} [Field K] [LinearOrder K] [IsStrictOrderedRing K] [Trig K]

theorem isRed_emb (t : Viewshed.Tree K) : isRed (mapT emb t) = isRed t := by cases t <;> rfl

theorem setCol_emb (c : Bool) (t : Viewshed.Tree K) : setCol c (mapT emb t) = mapT emb (setCol c t) := by cases t <;> rfl

theorem subAt_emb : ∀ (p : List Dir) (t : Viewshed.Tree K), subAt p (mapT emb t) = mapT emb (subAt p t) := by
  intro p
  induction p with
  | nil => intro t; rfl
  | cons d p ih =>
    intro t
    cases t with
    | nil => cases d <;> rfl
    | node l n mx c r => cases d <;> simp [subAt, mapT, ih]

theorem rotD_emb (S : K) (d : Dir) (t : Viewshed.Tree K) : rotD (emb S) d (mapT emb t) = mapT emb (rotD S d t) := by
  cases d
  · exact rotL_emb S t
  · exact rotR_emb S t

theorem insFixP_emb (S : K) : ∀ (k : Nat) (rp : List Dir), rp.length ≤ k → ∀ (t : Viewshed.Tree K),
    insFixP (emb S) rp (mapT emb t) = mapT emb (insFixP S rp t) := by
  intro k
  induction k with
  | zero =>
    intro rp h t
    have : rp = [] := List.length_eq_zero_iff.mp (Nat.le_zero.mp h)
    subst this
    simp [insFixP]
  | succ k ih =>
    intro rp h t
    match rp, h with
    | [], _ => simp [insFixP]
    | [_], _ => simp [insFixP]
    | dz :: dp :: rq, h =>
      have hc := fun (c : Bool) (p : List Dir) (u : Viewshed.Tree K) => atPath_emb _ _ (setCol_emb c) p u
      have hr := fun (d : Dir) (p : List Dir) (u : Viewshed.Tree K) => atPath_emb _ _ (rotD_emb S d) p u
      simp only [insFixP, subAt_emb, isRed_emb]
      split
      · split
        · rw [hc, hc, hc]
          exact ih rq (by simp only [List.length_cons] at h; omega) _
        · split
          · rw [hc, hc, hr]
          · rw [hr, hc, hc, hr]
      · rfl

theorem insDirsR_emb (k : K) : ∀ (t : Viewshed.Tree K) (acc : List Dir),
    insDirsR (emb k) (mapT emb t) acc = insDirsR k t acc := by
  intro t
  induction t with
  | nil => intro acc; rfl
  | node l n mx c r ihl ihr =>
    intro acc
    have hk : (emb k < (mapN emb n).key) ↔ k < n.key := by simp only [mapN, emb_lt]
    simp only [mapT, insDirsR, hk, ihl, ihr]

/-- over a linear order the code-exact complete insertion is the model's `rbInsert`, and it commutes with the
    embedding into `NV K` -/
theorem rbInsertC_emb (S : K) (nn : Viewshed.Node K) (t : Viewshed.Tree K) :
    rbInsertC (emb S) (mapN emb nn) (mapT emb t) = mapT emb (rbInsert S nn t) := by
  unfold rbInsertC rbInsert rbInsFix leafInsert
  have hkey : (mapN emb nn).key = emb nn.key := rfl
  rw [hkey, insDirsR_emb, insCoreC_emb, (insCoreC_eq nn t).1, insFixP_emb S _ _ (Nat.le_refl _), setCol_emb]

/-- **the generated `_insert_into_tree` computes the hand model's complete insertion**: run at `NV K` on arrays holding
    the image of a non-empty tree `t0` (root and NIL row black, the NIL row holding the sentinel), `node_id` a fresh
    row, `value` the node `nn`, it returns with arrays holding the image of `rbInsert S nn t0` -/
theorem vsInsert_model (s : State (NV K)) (fuel n m : Nat) (hv : VS s n) (hm : VVal s m) (hrun : s.ctl = .run)
    (l : Sh) (i : Nat) (rr : Sh) (hL : Linked (s.ia "tree_nodes") n (-1) (.node l i rr))
    (hN : (Sh.node l i rr).idxs.Nodup) (hroot : s.ienv "root" = i) (nid : Nat) (hnid : nid + 1 < n)
    (hfresh : nid ∉ (Sh.node l i rr).idxs) (hid : s.ienv "node_id" = nid)
    (hnil : nAt (s.ia "tree_nodes") (n - 1) 0 ≠ 0) (hblack : nAt (s.ia "tree_nodes") i 0 ≠ 0)
    (hfuel : (Sh.node l i rr).height + 2 ≤ fuel) (S : K) (hS : vAt (s.fa "tree_vals") (n - 1) 7 = emb S)
    (t0 : Viewshed.Tree K) (nn : Viewshed.Node K)
    (habs : absT (s.fa "tree_vals") (s.ia "tree_nodes") (.node l i rr) = mapT emb t0) (hval : valNode s = mapN emb nn) :
    let r := Gen.IL.vsInsert.run s fuel
    r.ctl = .ret ∧ VS r n ∧ ∃ sh' : Sh, Linked (r.ia "tree_nodes") n (-1) sh' ∧ sh'.idxs.Nodup ∧
      sh'.idxs.Perm (nid :: (Sh.node l i rr).idxs) ∧
      absT (r.fa "tree_vals") (r.ia "tree_nodes") sh' = mapT emb (rbInsert S nn t0) ∧
      r.ienv "ret0" = sh'.ptr ∧ vAt (r.fa "tree_vals") (n - 1) 7 = emb S ∧ nAt (r.ia "tree_nodes") (n - 1) 0 ≠ 0 ∧
      isRed (rbInsert S nn t0) = false := by
  intro r
  obtain ⟨r1, r2, sh', r3, r4, r5, r6, r7, r8, r9, r10, _⟩ :=
    vsInsert_refines s fuel n m hv hm hrun l i rr hL hN hroot nid hnid hfresh hid hnil hblack hfuel
  rw [habs, hval, hS, rbInsertC_emb] at r6
  refine ⟨r1, r2, sh', r3, r4, r5, r6, r7, by rw [r8, hS], r9, ?_⟩
  rw [r6, isRed_emb] at r10
  exact r10

end field
end XrsVerif.ILVs
