import XrsVerif.Proofs.ILVsSweepSetup
/-
  Proofs/ILVsSweepTree.lean -- the arrays `_create_status_struct` leaves behind hold the hand model's initial status tree
  (`setup_tree`: the dummy root alone, in terms of the abstraction `Linked` / `absT` of Proofs/ILViewshedBase.lean).
-/
namespace XrsVerif.ILSw
open XrsVerif XrsVerif.IL XrsVerif.ILVs XrsVerif.Viewshed
variable {F : Type} [Fl F]
set_option linter.unusedSectionVars false
set_option linter.unusedSimpArgs false
set_option linter.unusedVariables false

theorem getD_nodeRowV (sv : List F) (r : Nat) (dv : List F) (idx : Nat) (hlen : r * 8 + 8 ≤ sv.length) :
    (nodeRowV sv r dv).getD idx Fl.nan =
      if r * 8 ≤ idx ∧ idx < r * 8 + 8 then (if idx = r * 8 + 7 then smallF else dv.getD (idx - r * 8) Fl.nan)
      else sv.getD idx Fl.nan := by
  unfold nodeRowV
  simp only [Px.getD_set, List.length_set]
  by_cases h : r * 8 ≤ idx ∧ idx < r * 8 + 8
  · obtain ⟨k, hk, rfl⟩ : ∃ k, k < 8 ∧ idx = r * 8 + k := ⟨idx - r * 8, by omega, by omega⟩
    have hl : r * 8 + k < sv.length := by omega
    have hk' : k = 0 ∨ k = 1 ∨ k = 2 ∨ k = 3 ∨ k = 4 ∨ k = 5 ∨ k = 6 ∨ k = 7 := by omega
    rcases hk' with rfl | rfl | rfl | rfl | rfl | rfl | rfl | rfl <;> simp [h, hl] <;> omega
  · have e : ∀ k, k < 8 → ¬ (r * 8 + k = idx ∧ idx < sv.length) := by intro k hk; omega
    simp [h, e 0, e 1, e 2, e 3, e 4, e 5, e 6, e 7]
    intro h1; omega


/-- the permanent dummy root as `_create_status_struct` stores it: key 0, gradients (-1, -1, S), bearings (S, S, 0) -/
def dummyNodeF : Node (Fv F) := ⟨⟨Fl.lit 0 1⟩, ⟨Fl.lit (-1) 1⟩, ⟨Fl.lit (-1) 1⟩, smallest, smallest, smallest, ⟨Fl.lit 0 1⟩⟩

theorem nAt_ssInit_root (N : Nat) (hN : 2 ≤ N) (j : Nat) (hj : j < 4) :
    nAt (ssInit N) 0 j = if j = 0 then 1 else -1 := by
  unfold nAt ssInit nodeRowS
  simp only [Px.getD_set, List.length_set, List.length_replicate]
  have hj' : j = 0 ∨ j = 1 ∨ j = 2 ∨ j = 3 := by omega
  have e : ∀ k, k < 4 → ∀ j, j < 4 → ¬ ((N - 1) * 4 + k = 0 * 4 + j ∧ 0 * 4 + j < N * 4) := by intro k hk j hj; omega
  rcases hj' with rfl | rfl | rfl | rfl <;>
    simp [e 0 (by omega), e 1 (by omega), e 2 (by omega), e 3 (by omega)] <;> omega

/-- **the status structure after the set-up holds the model's initial tree**: the dummy root alone, black, its stored
    maximum the sentinel; the NIL row's maximum is the sentinel too -/
theorem setup_tree (N : Nat) (hN : 2 ≤ N) :
    Linked (ssInit N) N (-1) (.node .nil 0 .nil) ∧
    absT (svInit N : List F) (ssInit N) (.node .nil 0 .nil) = .node .nil dummyNodeF smallest false .nil ∧
    vAt (svInit N : List F) (N - 1) 7 = smallest := by
  have hl1 : 0 * 8 + 8 ≤ (List.replicate (N * 8) (Fl.lit 0 1 : F)).length := by simp; omega
  have hl2 : (N - 1) * 8 + 8 ≤ (nodeRowV (List.replicate (N * 8) (Fl.lit 0 1 : F)) 0 dummyVals).length := by
    simp [nodeRowV]; omega
  have rd : ∀ k, k < 8 → (svInit N : List F).getD (0 * 8 + k) Fl.nan = if k = 7 then smallF else dummyVals.getD k Fl.nan := by
    intro k hk
    unfold svInit
    rw [getD_nodeRowV _ _ _ _ hl2]
    have a1 : ¬ ((N - 1) * 8 ≤ 0 * 8 + k ∧ 0 * 8 + k < (N - 1) * 8 + 8) := by omega
    rw [if_neg a1, getD_nodeRowV _ _ _ _ hl1]
    have a2 : 0 * 8 ≤ 0 * 8 + k ∧ 0 * 8 + k < 0 * 8 + 8 := by omega
    rw [if_pos a2]
    have : (0 * 8 + k = 0 * 8 + 7) = (k = 7) := by apply propext; omega
    simp [this]
  refine ⟨?_, ?_, ?_⟩
  · simp only [Linked, Sh.ptr]
    refine ⟨by omega, ?_, ?_, ?_, trivial, trivial⟩
    · rw [nAt_ssInit_root N hN 1 (by omega)]; rfl
    · rw [nAt_ssInit_root N hN 2 (by omega)]; rfl
    · rw [nAt_ssInit_root N hN 3 (by omega)]; rfl
  · simp only [absT, nodeAt, vAt, dummyNodeF, smallest]
    rw [rd 0 (by omega), rd 1 (by omega), rd 2 (by omega), rd 3 (by omega), rd 4 (by omega), rd 5 (by omega), rd 6 (by omega),
      rd 7 (by omega), nAt_ssInit_root N hN 0 (by omega)]
    simp [dummyVals, smallF]
  · simp only [vAt, smallest]
    unfold svInit
    rw [getD_nodeRowV _ _ _ _ hl2]
    have a1 : (N - 1) * 8 ≤ (N - 1) * 8 + 7 ∧ (N - 1) * 8 + 7 < (N - 1) * 8 + 8 := by omega
    rw [if_pos a1]
    simp [smallF]
end XrsVerif.ILSw
