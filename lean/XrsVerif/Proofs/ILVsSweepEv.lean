import XrsVerif.Proofs.ILVsSweepTree
/-
  Proofs/ILVsSweepEv.lean -- the common prefix of one event of the generated sweep (`evPrefix_exec`): the node buffer is
  reset and receives the key (squared map distance) of the event's cell and the gradient of its centre, target height added.
-/
namespace XrsVerif.ILSw
open XrsVerif XrsVerif.IL
variable {F : Type} [Fl F]
set_option linter.unusedSectionVars false
set_option linter.unusedSimpArgs false
set_option linter.unusedVariables false

/-- the scalars of the sweep that are live across an event: integers … -/
def swLiveI : List String := ["vp_row", "vp_col", "root", "i", "n_rows", "n_cols", "num_nodes", "nevents"]
/-- … and numbers -/
def swLiveF : List String := ["vp_elev", "vp_target", "ew_res", "ns_res"]

/-- what every event of the sweep starts from -/
structure EvInv (s : State F) (ne k : Nat) : Prop where
  ctl : s.ctl = .run
  shN : s.shp "status_node" = [7]
  lenN : (s.fa "status_node").length = 7
  shR : s.shp "event_rcts" = [ne, 3]
  shA : s.shp "event_aes" = [ne, 4]
  vi : s.ienv "i" = k
  hk : k < ne

/-- `event_rcts[k][c]`, `event_aes[k][c]` -/
def rctAt (s : State F) (k c : Nat) : Int := (s.ia "event_rcts").getD (k * 3 + c) 0
def aeAt (s : State F) (k c : Nat) : F := (s.fa "event_aes").getD (k * 4 + c) Fl.nan

theorem distEnv_ret0 (p : String) (s : State F) (r : String) (h : r = p ++ "ret0") :
    distEnv p s r = dist2F (Fl.mul (Fl.lit (s.ienv (p ++ "status_node_col") - s.ienv (p ++ "viewpoint_col")) 1) (s.fenv (p ++ "ew_res")))
      (Fl.mul (Fl.lit (s.ienv (p ++ "status_node_row") - s.ienv (p ++ "viewpoint_row")) 1) (s.fenv (p ++ "ns_res"))) := by
  subst h; simp [distEnv, setS_apply]

theorem distEnv_ret1 (p : String) (s : State F) (r : String) (h : r = p ++ "ret1") :
    distEnv p s r = gradOf (Fl.sub (s.fenv (p ++ "elev")) (s.fenv (p ++ "viewpoint_elev")))
      (dist2F (Fl.mul (Fl.lit (s.ienv (p ++ "status_node_col") - s.ienv (p ++ "viewpoint_col")) 1) (s.fenv (p ++ "ew_res")))
      (Fl.mul (Fl.lit (s.ienv (p ++ "status_node_row") - s.ienv (p ++ "viewpoint_row")) 1) (s.fenv (p ++ "ns_res")))) := by
  subst h; simp [distEnv, setS_apply]

theorem distEnv_other (p : String) (s : State F) (v : String)
    (h : ∀ x ∈ ["diff_elev", "dx", "dy", "distance_to_viewpoint", "gradient", "ret0", "ret1"], v ≠ p ++ x) :
    distEnv p s v = s.fenv v := by
  simp only [distEnv, setS_apply]
  simp [h "diff_elev" (by simp), h "dx" (by simp), h "dy" (by simp), h "distance_to_viewpoint" (by simp), h "gradient" (by simp),
    h "ret0" (by simp), h "ret1" (by simp)]

/-- **the common prefix of an event**: the node buffer is reset, then holds the key of the event's cell and the gradient of
    its centre raised by the target height -/
theorem evPrefix_exec (rest : St) (s : State F) (fuel ne k : Nat) (inv : EvInv s ne k) :
    ∃ ie' fe', exec fuel (evPrefix rest) s =
      exec fuel rest ⟨ie', fe', s.benv, s.ia, setS s.fa "status_node"
          [keyF (rctAt s k 0) (rctAt s k 1) (s.ienv "vp_row") (s.ienv "vp_col") (s.fenv "ew_res") (s.fenv "ns_res"), Fl.nan,
           gradCellF (rctAt s k 0) (rctAt s k 1) (Fl.add (aeAt s k 2) (s.fenv "vp_target")) (s.ienv "vp_row") (s.ienv "vp_col")
             (s.fenv "vp_elev") (s.fenv "ew_res") (s.fenv "ns_res"), Fl.nan, Fl.nan, Fl.nan, Fl.nan], s.shp, s.ext, .run⟩ ∧
      ie' "status_row" = rctAt s k 0 ∧ ie' "status_col" = rctAt s k 1 ∧ ie' "etype" = rctAt s k 2 ∧
      ie' "row$e_rct" = k ∧ ie' "row$e_ae" = k ∧ (∀ v ∈ swLiveI, ie' v = s.ienv v) ∧ (∀ v ∈ swLiveF, fe' v = s.fenv v) := by
  obtain ⟨hctl, shN, lenN, shR, shA, vi, hk⟩ := inv
  obtain ⟨ie, fe, be, ia, fa, shp, ext, ctl⟩ := s
  simp only at hctl shN lenN shR shA vi; subst hctl
  obtain ⟨e0, e1, e2, e3, e4, e5, e6, hE⟩ := list7 _ lenN
  have hdb := fun s => distBody_exec (F := F) "_calc_dist_n_grad35$" s fuel
  have ik : inRange (k : Int) ne = true := inRange_of_lt k ne hk
  have o30 : off2 [ne, 3] (k : Int) (0 : Int) = k * 3 + 0 := off2_nat ne 3 k 0
  have o31 : off2 [ne, 3] (k : Int) (1 : Int) = k * 3 + 1 := off2_nat ne 3 k 1
  have o32 : off2 [ne, 3] (k : Int) (2 : Int) = k * 3 + 2 := off2_nat ne 3 k 2
  have o42 : off2 [ne, 4] (k : Int) (2 : Int) = k * 4 + 2 := off2_nat ne 4 k 2
  have j30 : inRange (0 : Int) 3 = true := by decide
  have j31 : inRange (1 : Int) 3 = true := by decide
  have j32 : inRange (2 : Int) 3 = true := by decide
  have j42 : inRange (2 : Int) 4 = true := by decide
  have n0 : inRange (0 : Int) 7 = true := by decide
  have m0 : off1 [7] (0 : Int) = 0 := by decide
  have n1 : inRange (1 : Int) 7 = true := by decide
  have m1 : off1 [7] (1 : Int) = 1 := by decide
  have n2 : inRange (2 : Int) 7 = true := by decide
  have m2 : off1 [7] (2 : Int) = 2 := by decide
  have n3 : inRange (3 : Int) 7 = true := by decide
  have m3 : off1 [7] (3 : Int) = 3 := by decide
  have n4 : inRange (4 : Int) 7 = true := by decide
  have m4 : off1 [7] (4 : Int) = 4 := by decide
  have n5 : inRange (5 : Int) 7 = true := by decide
  have m5 : off1 [7] (5 : Int) = 5 := by decide
  have n6 : inRange (6 : Int) 7 = true := by decide
  have m6 : off1 [7] (6 : Int) = 6 := by decide
  simp [evPrefix, initNode, distCall, rct, ae, exec, IE.ok, IE.eval, FE.ok, FE.eval, BinOp.eval, shN, shR, shA, vi, hE, setS_apply,
    ik, o30, o31, o32, o42, j30, j31, j32, j42, n0, n1, n2, n3, n4, n5, n6, m0, m1, m2, m3, m4, m5, m6, setS_setS, hdb]
  rw [distEnv_ret0 _ _ _ (by decide), distEnv_ret1 _ _ _ (by decide)]
  simp [setS_apply]
  refine ⟨_, _, rfl, ?_, ?_, ?_, ?_, ?_, ?_, ?_⟩
  · simp [setS_apply, rctAt]
  · simp [setS_apply, rctAt]
  · simp [setS_apply, rctAt]
  · simp [setS_apply]
  · simp [setS_apply]
  · intro v hv
    simp [swLiveI] at hv
    rcases hv with rfl | rfl | rfl | rfl | rfl | rfl | rfl | rfl <;> simp [setS_apply]
  · intro v hv
    simp [swLiveF] at hv
    rcases hv with rfl | rfl | rfl | rfl <;> simp [setS_apply] <;> rw [distEnv_other _ _ _ (by decide)] <;> simp [setS_apply]
end XrsVerif.ILSw
