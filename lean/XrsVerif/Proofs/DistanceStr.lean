import XrsVerif.Model.DistanceStr
import Mathlib.Tactic.Positivity
import Mathlib.Tactic.NormNum
import Mathlib.Tactic.Linarith
import Mathlib.Algebra.Order.Field.Rat
set_option linter.unusedSectionVars false
set_option linter.unusedVariables false
/-! Helper lemmas for the distance-string model of C19 (Model/DistanceStr.lean): the scanner splits a
    string into pieces whose concatenation is the string, number pieces are decimal literals, the unit
    factors are positive; soundness (`getDistance_sound`, `getDistance_fin_sound`) and completeness
    (`getDistance_ulit`) of the parser. -/
namespace XrsVerif.DistStr

/-! ### the scanner -/

theorem takeWhile_append_dropWhile' (s : List Char) : s.takeWhile isDig ++ s.dropWhile isDig = s :=
  List.takeWhile_append_dropWhile

theorem mem_takeWhile_isDig {c : Char} {l : List Char} (h : c ∈ l.takeWhile isDig) : isDig c = true := by
  induction l with
  | nil => simp at h
  | cons a l ih =>
    by_cases ha : isDig a = true
    · simp only [List.takeWhile_cons, ha, if_true, List.mem_cons] at h
      rcases h with rfl | h
      · exact ha
      · exact ih h
    · simp [ha] at h

/-- `fracDigits s ≠ []` means `s = '.' :: d ++ rest` with `d` the digit run -/
theorem fracDigits_ne_nil {s : List Char} (h : fracDigits s ≠ []) :
    s = '.' :: fracDigits s ++ s.tail.dropWhile isDig := by
  cases s with
  | nil => simp [fracDigits] at h
  | cons c t =>
    by_cases hc : c = '.'
    · subst hc
      simp [fracDigits, List.takeWhile_append_dropWhile]
    · simp [fracDigits, hc] at h

theorem matchBody_spec {s m rest : List Char} (h : matchBody s = some (m, rest)) :
    m ++ rest = s ∧ m ≠ [] ∧ ∃ c ∈ m, isDig c = true := by
  unfold matchBody at h
  simp only at h
  split at h
  · rename_i hd2
    simp only [Option.some.injEq, Prod.mk.injEq] at h
    obtain ⟨rfl, rfl⟩ := h
    refine ⟨?_, by simp, ?_⟩
    · have := fracDigits_ne_nil hd2
      calc (s.takeWhile isDig ++ '.' :: fracDigits (s.dropWhile isDig)) ++ (s.dropWhile isDig).tail.dropWhile isDig
          = s.takeWhile isDig ++ ('.' :: fracDigits (s.dropWhile isDig) ++ (s.dropWhile isDig).tail.dropWhile isDig) := by simp
        _ = s.takeWhile isDig ++ s.dropWhile isDig := by rw [← this]
        _ = s := List.takeWhile_append_dropWhile
    · obtain ⟨c, t, hct⟩ := List.exists_cons_of_ne_nil hd2
      refine ⟨c, by simp [hct], ?_⟩
      have hmem : c ∈ fracDigits (s.dropWhile isDig) := by simp [hct]
      cases hs2 : s.dropWhile isDig with
      | nil => rw [hs2] at hd2; simp [fracDigits] at hd2
      | cons c' t' =>
        rw [hs2] at hmem
        by_cases hc : c' = '.'
        · simp only [fracDigits, hc, if_true] at hmem
          exact (mem_takeWhile_isDig hmem)
        · simp [fracDigits, hc] at hmem
  · split at h
    · rename_i hd1
      simp only [Option.some.injEq, Prod.mk.injEq] at h
      obtain ⟨rfl, rfl⟩ := h
      refine ⟨List.takeWhile_append_dropWhile, hd1, ?_⟩
      obtain ⟨c, t, hct⟩ := List.exists_cons_of_ne_nil hd1
      exact ⟨c, by simp [hct], mem_takeWhile_isDig (l := s) (by rw [hct]; simp)⟩
    · simp at h

theorem matchNum_spec {s m rest : List Char} (h : matchNum s = some (m, rest)) :
    m ++ rest = s ∧ m ≠ [] ∧ ∃ c ∈ m, isDig c = true := by
  cases s with
  | nil => simp [matchNum] at h
  | cons c t =>
    simp only [matchNum] at h
    by_cases hc : c = '-'
    · rw [if_pos hc] at h
      cases hb : matchBody t with
      | none => simp [hb] at h
      | some mr =>
        obtain ⟨m', r'⟩ := mr
        simp only [hb, Option.map_some, Option.some.injEq, Prod.mk.injEq] at h
        obtain ⟨rfl, rfl⟩ := h
        obtain ⟨e, _, c', hc', hd⟩ := matchBody_spec hb
        exact ⟨by simp [hc, e], by simp, c', by simp [hc'], hd⟩
    · rw [if_neg hc] at h
      exact matchBody_spec h

theorem matchNum_rest_length {s m rest : List Char} (h : matchNum s = some (m, rest)) :
    rest.length < s.length := by
  obtain ⟨e, hne, _⟩ := matchNum_spec h
  rw [← e, List.length_append]
  have : 0 < m.length := List.length_pos_of_ne_nil hne
  omega

/-- the pieces of the split, concatenated, are the string -/
theorem scan_flatten (n : ℕ) (s acc : List Char) (hn : s.length < n) :
    ((scan n s acc).map Tok.chars).flatten = acc.reverse ++ s := by
  induction n generalizing s acc with
  | zero => omega
  | succ n ih =>
    cases s with
    | nil => simp [scan, Tok.chars]
    | cons c t =>
      simp only [scan]
      cases hm : matchNum (c :: t) with
      | none =>
        simp only
        rw [ih t (c :: acc) (by simp at hn; omega)]
        simp
      | some mr =>
        obtain ⟨m, rest⟩ := mr
        simp only [List.map_cons, List.flatten_cons, Tok.chars]
        have hl := matchNum_rest_length hm
        rw [ih rest [] (by simp at hn hl ⊢; omega)]
        obtain ⟨e, _, _⟩ := matchNum_spec hm
        simp [e]

theorem reSplit_flatten (s : List Char) : ((reSplit s).map Tok.chars).flatten = s := by
  unfold reSplit
  rw [scan_flatten _ _ _ (by omega)]; simp

theorem splits_flatten (s : List Char) : ((splits s).map Tok.chars).flatten = s := by
  have h := reSplit_flatten s
  unfold splits
  generalize reSplit s = l at h ⊢
  subst h
  induction l with
  | nil => simp
  | cons a l ih =>
    simp only [List.filter_cons]
    cases hc : a.chars with
    | nil => simp [hc, ih]
    | cons x xs => simp [hc, ih]

theorem ratOf_pos {n : Int} {d : Nat} (hn : 0 < n) (hd : 0 < d) : 0 < ratOf n d := by
  unfold ratOf
  exact div_pos (by exact_mod_cast hn) (by exact_mod_cast hd)

theorem units_pos : ∀ e ∈ Gen.units, 0 < ratOf e.2.1 e.2.2 := by
  have h : ∀ e ∈ Gen.units, 0 < e.2.1 ∧ 0 < e.2.2 := by decide
  intro e he
  exact ratOf_pos (h e he).1 (h e he).2

theorem lookupUnit_pos {u : List Char} {f : Rat} (h : lookupUnit u = some f) : 0 < f := by
  unfold lookupUnit at h
  cases hf : Gen.units.find? (fun e => e.1.toList == u) with
  | none => simp [hf] at h
  | some e =>
    simp only [hf, Option.map_some, Option.some.injEq] at h
    subst h
    exact units_pos e (List.mem_of_find?_eq_some hf)

theorem reject_is_le_zero : Gen.distance_reject = (.le, 0, 1) := by decide

theorem rejected_fin (q : Rat) : rejected (.fin q) = decide (q ≤ 0) := by
  simp [rejected, reject_is_le_zero, cmpPF, ratOf]

theorem mulFactor_fin {rnd : Rat → Rat} {v : PyFloat} {f m : Rat} (hf : 0 < f) (h : mulFactor rnd v f = .fin m) :
    ∃ q, v = .fin q ∧ m = rnd (q * rnd f) := by
  cases v with
  | nan => simp [mulFactor] at h
  | pinf => simp [mulFactor, hf] at h
  | ninf => simp [mulFactor, hf] at h
  | fin q => simp only [mulFactor, PyFloat.fin.injEq] at h; exact ⟨q, rfl, h.symm⟩

/-- every accepted finite distance is positive (for a rounding that keeps positive numbers positive,
    i.e. no underflow to zero) -/
theorem getDistance_fin_pos {rnd : Rat → Rat} (hpos : ∀ x, 0 < x → 0 < rnd x) {s : List Char} {m : Rat}
    (h : getDistance rnd s = .val (.fin m)) : 0 < m := by
  unfold getDistance at h
  simp only at h
  split at h
  · simp at h
  · split at h
    · simp at h
    · rename_i v hv
      split at h
      · simp at h
      · rename_i hrej
        split at h
        · simp at h
        · rename_i f hf
          simp only [Dist.val.injEq] at h
          obtain ⟨q, rfl, rfl⟩ := mulFactor_fin (lookupUnit_pos hf) h
          rw [rejected_fin] at hrej
          have : 0 < q := by simpa using hrej
          exact hpos _ (mul_pos this (hpos _ (lookupUnit_pos hf)))

/-! ### soundness: whatever is accepted is `<number piece><unit text>` -/

theorem splits_cases (s : List Char) (h : Gen.distance_allowed_lens.contains (splits s).length = true) :
    (∃ t, splits s = [t] ∧ s = t.chars ∧ t.chars ≠ []) ∨
    (∃ t u, splits s = [t, u] ∧ s = t.chars ++ u.chars ∧ t.chars ≠ [] ∧ u.chars ≠ []) := by
  have hf := splits_flatten s
  have hne : ∀ t ∈ splits s, t.chars ≠ [] := by
    intro t ht
    unfold splits at ht
    have := (List.mem_filter.mp ht).2
    intro h0; simp [h0] at this
  have hl : (splits s).length = 1 ∨ (splits s).length = 2 := by
    have : Gen.distance_allowed_lens = [1, 2] := by decide
    rw [this] at h
    simp at h
    omega
  rcases hl with hl | hl
  · left
    match hsp : splits s, hl with
    | [t], _ =>
      refine ⟨t, rfl, ?_, hne t (by simp [hsp])⟩
      rw [hsp] at hf; simpa using hf.symm
  · right
    match hsp : splits s, hl with
    | [t, u], _ =>
      refine ⟨t, u, rfl, ?_, hne t (by simp [hsp]), hne u (by simp [hsp])⟩
      rw [hsp] at hf; simpa using hf.symm

theorem normUnit_default : normUnit Gen.default_unit.toList = Gen.default_unit.toList := by decide

/-- **soundness of the parser**: an accepted string is a number piece followed by the unit text
    (empty = the default unit); the piece passed `float` and the positivity test, the normalised unit
    is in the table, and the result is the product -/
theorem getDistance_sound {rnd : Rat → Rat} {s : List Char} {v : PyFloat} (h : getDistance rnd s = .val v) :
    ∃ (numTok : Tok) (unit : List Char) (x : PyFloat) (f : Rat),
      s = numTok.chars ++ unit ∧ numTok.chars ≠ [] ∧ numTok ∈ splits s ∧
      pyFloatTok rnd numTok = some x ∧ rejected x = false ∧
      lookupUnit (normUnit (if unit = [] then Gen.default_unit.toList else unit)) = some f ∧
      v = mulFactor rnd x f := by
  unfold getDistance at h
  simp only at h
  split at h
  · simp at h
  · rename_i hlen
    simp only [Bool.not_eq_true, Bool.not_eq_false'] at hlen
    have hlen' : Gen.distance_allowed_lens.contains (splits s).length = true := by
      cases hc : Gen.distance_allowed_lens.contains (splits s).length <;> simp_all
    have g1 : Gen.distance_unit_guard = 2 := by decide
    have g2 : Gen.distance_unit_index = 1 := by decide
    have g3 : Gen.distance_number_index = 0 := by decide
    rw [g1, g2, g3] at h
    rcases splits_cases s hlen' with ⟨t, hsp, hs, hne⟩ | ⟨t, u, hsp, hs, hne, hneu⟩
    · rw [hsp] at h
      simp only [List.length_singleton, show (1 : ℕ) ≠ 2 by omega, if_false, List.getD_cons_zero] at h
      split at h
      · simp at h
      · rename_i x hx
        split at h
        · simp at h
        · rename_i hrej
          split at h
          · simp at h
          · rename_i f hf
            simp only [Dist.val.injEq] at h
            refine ⟨t, [], x, f, by simpa using hs, hne, by simp [hsp], hx, by simpa using hrej, by simpa using hf, h.symm⟩
    · rw [hsp] at h
      simp only [List.length_cons, List.length_nil, if_true, List.getD_cons_zero, List.getD_cons_succ] at h
      split at h
      · simp at h
      · rename_i x hx
        split at h
        · simp at h
        · rename_i hrej
          split at h
          · simp at h
          · rename_i f hf
            simp only [Dist.val.injEq] at h
            refine ⟨t, u.chars, x, f, hs, hne, by simp [hsp], hx, by simpa using hrej, ?_, h.symm⟩
            simpa [hneu] using hf


/-! ### number pieces are decimal literals -/

/-- `-?D*(.D+)?` with at least one digit -/
def IsLit (m : List Char) : Prop :=
  ∃ sign d1 d2 : List Char, (sign = [] ∨ sign = ['-']) ∧ (∀ c ∈ d1, isDig c = true) ∧
    (∀ c ∈ d2, isDig c = true) ∧ (d1 ≠ [] ∨ d2 ≠ []) ∧
    m = sign ++ d1 ++ (if d2 = [] then [] else '.' :: d2)

theorem mem_fracDigits_isDig {c : Char} {l : List Char} (h : c ∈ fracDigits l) : isDig c = true := by
  cases l with
  | nil => simp [fracDigits] at h
  | cons a t =>
    by_cases ha : a = '.'
    · simp only [fracDigits, ha, if_true] at h; exact mem_takeWhile_isDig h
    · simp [fracDigits, ha] at h

theorem matchBody_isLit {s m rest : List Char} (h : matchBody s = some (m, rest)) :
    ∃ d1 d2 : List Char, (∀ c ∈ d1, isDig c = true) ∧ (∀ c ∈ d2, isDig c = true) ∧ (d1 ≠ [] ∨ d2 ≠ []) ∧
      m = d1 ++ (if d2 = [] then [] else '.' :: d2) := by
  unfold matchBody at h
  simp only at h
  split at h
  · rename_i hd2
    simp only [Option.some.injEq, Prod.mk.injEq] at h
    refine ⟨s.takeWhile isDig, fracDigits (s.dropWhile isDig), fun c hc => mem_takeWhile_isDig hc,
      fun c hc => mem_fracDigits_isDig hc, Or.inr hd2, ?_⟩
    rw [if_neg hd2]; exact h.1.symm
  · split at h
    · rename_i hd1
      simp only [Option.some.injEq, Prod.mk.injEq] at h
      exact ⟨s.takeWhile isDig, [], fun c hc => mem_takeWhile_isDig hc, by simp, Or.inl hd1, by simp [h.1]⟩
    · simp at h

theorem matchNum_isLit {s m rest : List Char} (h : matchNum s = some (m, rest)) : IsLit m := by
  cases s with
  | nil => simp [matchNum] at h
  | cons c t =>
    simp only [matchNum] at h
    by_cases hc : c = '-'
    · rw [if_pos hc] at h
      cases hb : matchBody t with
      | none => simp [hb] at h
      | some mr =>
        obtain ⟨m', r'⟩ := mr
        simp only [hb, Option.map_some, Option.some.injEq, Prod.mk.injEq] at h
        obtain ⟨d1, d2, h1, h2, h3, h4⟩ := matchBody_isLit hb
        exact ⟨['-'], d1, d2, Or.inr rfl, h1, h2, h3, by rw [← h.1, h4]; simp⟩
    · rw [if_neg hc] at h
      obtain ⟨d1, d2, h1, h2, h3, h4⟩ := matchBody_isLit h
      exact ⟨[], d1, d2, Or.inl rfl, h1, h2, h3, by simp [h4]⟩

theorem scan_num_isLit (n : ℕ) (s acc : List Char) :
    ∀ m, Tok.num m ∈ scan n s acc → IsLit m := by
  induction n generalizing s acc with
  | zero => intro m hm; simp [scan] at hm
  | succ n ih =>
    intro m hm
    cases s with
    | nil => simp [scan] at hm
    | cons c t =>
      simp only [scan] at hm
      cases hmn : matchNum (c :: t) with
      | none => rw [hmn] at hm; exact ih _ _ m hm
      | some mr =>
        obtain ⟨m', rest⟩ := mr
        rw [hmn] at hm
        simp only [List.mem_cons, reduceCtorEq, Tok.num.injEq, false_or] at hm
        rcases hm with rfl | hm
        · exact matchNum_isLit hmn
        · exact ih _ _ m hm

theorem splits_num_isLit {s m : List Char} (h : Tok.num m ∈ splits s) : IsLit m := by
  unfold splits at h
  exact scan_num_isLit _ _ _ m (List.mem_filter.mp h).1

theorem specialFloat_not_fin (t : List Char) (q : Rat) : specialFloat t ≠ some (.fin q) := by
  intro h
  unfold specialFloat at h
  simp only at h
  split_ifs at h <;> simp at h

/-- an accepted *finite* distance comes from a decimal literal with a positive value followed by a
    unit of the table (or nothing), and is their product -/
theorem getDistance_fin_sound {rnd : Rat → Rat} {s : List Char} {m : Rat}
    (h : getDistance rnd s = .val (.fin m)) :
    ∃ (lit unit : List Char) (f : Rat), s = lit ++ unit ∧ IsLit lit ∧ 0 < rnd (decVal lit) ∧
      lookupUnit (normUnit (if unit = [] then Gen.default_unit.toList else unit)) = some f ∧
      m = rnd (rnd (decVal lit) * rnd f) := by
  obtain ⟨tk, unit, x, f, hs, hne, hmem, hx, hrej, hf, hv⟩ := getDistance_sound h
  obtain ⟨q, rfl, rfl⟩ := mulFactor_fin (lookupUnit_pos hf) hv.symm
  cases tk with
  | txt t => exact absurd hx (specialFloat_not_fin t q)
  | num lit =>
    simp only [pyFloatTok, Option.some.injEq, PyFloat.fin.injEq] at hx
    subst hx
    rw [rejected_fin] at hrej
    exact ⟨lit, unit, f, hs, splits_num_isLit hmem, by simpa using hrej, hf, rfl⟩

/-- the only other values that leave `_get_distance` are the IEEE specials spelled out in the string
    (`nan`, `inf`, `infinity`, any case, optional sign and blanks) -- `circle_kernel` rejects them -/
theorem getDistance_nonfinite {rnd : Rat → Rat} {s : List Char} {v : PyFloat} (h : getDistance rnd s = .val v)
    (hv : ∀ q, v ≠ .fin q) :
    ∃ t unit : List Char, s = t ++ unit ∧ (specialFloat t).isSome := by
  obtain ⟨tk, unit, x, f, hs, hne, hmem, hx, hrej, hf, hv'⟩ := getDistance_sound h
  cases tk with
  | num lit =>
    simp only [pyFloatTok, Option.some.injEq] at hx
    subst hx
    exact absurd hv' (by simpa [mulFactor] using hv (rnd (rnd (decVal lit) * rnd f)))
  | txt t =>
    exact ⟨t, unit, hs, by simp only [pyFloatTok] at hx; simp [hx]⟩

/-! ### completeness: `<decimal literal><text without digits>` is read as number and unit -/

theorem takeWhile_nodigit {u : List Char} (hu : ∀ c ∈ u, isDig c = false) : u.takeWhile isDig = [] := by
  cases u with
  | nil => rfl
  | cons c t => simp [hu c (by simp)]

theorem dropWhile_nodigit {u : List Char} (hu : ∀ c ∈ u, isDig c = false) : u.dropWhile isDig = u := by
  cases u with
  | nil => rfl
  | cons c t => simp [hu c (by simp)]

theorem fracDigits_nodigit {u : List Char} (hu : ∀ c ∈ u, isDig c = false) : fracDigits u = [] := by
  cases u with
  | nil => rfl
  | cons c t =>
    by_cases hc : c = '.'
    · simp only [fracDigits, hc, if_true]
      exact takeWhile_nodigit (fun x hx => hu x (by simp [hx]))
    · simp [fracDigits, hc]

/-- the unsigned literal `d1` / `d1.d2` / `.d2` -/
def ulit (d1 d2 : List Char) : List Char := d1 ++ (if d2 = [] then [] else '.' :: d2)

theorem matchBody_ulit (d1 d2 u : List Char) (h1 : ∀ c ∈ d1, isDig c = true) (h2 : ∀ c ∈ d2, isDig c = true)
    (hne : d1 ≠ [] ∨ d2 ≠ []) (hu : ∀ c ∈ u, isDig c = false) :
    matchBody (ulit d1 d2 ++ u) = some (ulit d1 d2, u) := by
  unfold matchBody ulit
  by_cases hd2 : d2 = []
  · subst hd2
    have hd1 : d1 ≠ [] := by simpa using hne
    simp only [if_true, List.append_nil]
    rw [List.takeWhile_append_of_pos h1, List.dropWhile_append_of_pos h1, takeWhile_nodigit hu,
      dropWhile_nodigit hu, fracDigits_nodigit hu]
    simp [hd1]
  · simp only [hd2, if_false]
    have hdot : isDig '.' = false := by decide
    have e1 : (d1 ++ '.' :: d2 ++ u).takeWhile isDig = d1 := by
      rw [List.append_assoc, List.takeWhile_append_of_pos h1]; simp [hdot]
    have e2 : (d1 ++ '.' :: d2 ++ u).dropWhile isDig = '.' :: (d2 ++ u) := by
      rw [List.append_assoc, List.dropWhile_append_of_pos h1]; simp [hdot]
    have e3 : fracDigits ('.' :: (d2 ++ u)) = d2 := by
      simp only [fracDigits, if_true]
      rw [List.takeWhile_append_of_pos h2, takeWhile_nodigit hu]; simp
    rw [e1, e2, e3]
    simp only [hd2, ne_eq, not_false_eq_true, if_true, List.tail_cons]
    rw [List.dropWhile_append_of_pos h2, dropWhile_nodigit hu]

theorem ulit_ne_nil {d1 d2 : List Char} (hne : d1 ≠ [] ∨ d2 ≠ []) : ulit d1 d2 ≠ [] := by
  unfold ulit
  rcases hne with h | h
  · simp [h]
  · simp [h]

theorem ulit_head_ne_minus {d1 d2 : List Char} (h1 : ∀ c ∈ d1, isDig c = true) {c : Char} {t : List Char}
    (h : ulit d1 d2 = c :: t) : c ≠ '-' := by
  unfold ulit at h
  intro hc
  subst hc
  cases d1 with
  | nil =>
    by_cases hd2 : d2 = []
    · simp [hd2] at h
    · simp only [hd2, if_false, List.nil_append, List.cons.injEq] at h
      exact absurd h.1 (by decide)
  | cons a l =>
    simp only [List.cons_append, List.cons.injEq] at h
    have := h1 a (by simp)
    rw [h.1] at this
    exact absurd this (by decide)

theorem matchNum_ulit (d1 d2 u : List Char) (h1 : ∀ c ∈ d1, isDig c = true) (h2 : ∀ c ∈ d2, isDig c = true)
    (hne : d1 ≠ [] ∨ d2 ≠ []) (hu : ∀ c ∈ u, isDig c = false) :
    matchNum (ulit d1 d2 ++ u) = some (ulit d1 d2, u) := by
  obtain ⟨c, t, hct⟩ := List.exists_cons_of_ne_nil (ulit_ne_nil hne)
  have hm := matchBody_ulit d1 d2 u h1 h2 hne hu
  rw [hct] at hm ⊢
  simp only [List.cons_append, matchNum]
  rw [if_neg (ulit_head_ne_minus h1 hct)]
  exact hm

theorem matchNum_nodigit {u : List Char} (hu : ∀ c ∈ u, isDig c = false) : matchNum u = none := by
  cases h : matchNum u with
  | none => rfl
  | some mr =>
    obtain ⟨m, r⟩ := mr
    obtain ⟨e, _, c, hc, hd⟩ := matchNum_spec h
    have : c ∈ u := by rw [← e]; simp [hc]
    rw [hu c this] at hd
    exact absurd hd (by simp)

theorem scan_nodigit (n : ℕ) (u acc : List Char) (hu : ∀ c ∈ u, isDig c = false) (hn : u.length < n) :
    scan n u acc = [.txt (acc.reverse ++ u)] := by
  induction n generalizing u acc with
  | zero => omega
  | succ n ih =>
    cases u with
    | nil => simp [scan]
    | cons c t =>
      simp only [scan]
      rw [matchNum_nodigit hu]
      simp only
      rw [ih t (c :: acc) (fun x hx => hu x (by simp [hx])) (by simp at hn; omega)]
      simp

theorem splits_ulit (d1 d2 u : List Char) (h1 : ∀ c ∈ d1, isDig c = true) (h2 : ∀ c ∈ d2, isDig c = true)
    (hne : d1 ≠ [] ∨ d2 ≠ []) (hu : ∀ c ∈ u, isDig c = false) :
    splits (ulit d1 d2 ++ u) = if u = [] then [.num (ulit d1 d2)] else [.num (ulit d1 d2), .txt u] := by
  unfold splits reSplit
  obtain ⟨c, t, hct⟩ := List.exists_cons_of_ne_nil (ulit_ne_nil hne)
  have hm := matchNum_ulit d1 d2 u h1 h2 hne hu
  rw [hct] at hm
  simp only [List.cons_append] at hm
  have hlit : ulit d1 d2 ≠ [] := ulit_ne_nil hne
  rw [hct]
  simp only [List.cons_append, List.length_cons, scan, hm]
  rw [scan_nodigit _ u [] hu (by simp; omega)]
  rw [← hct]
  by_cases hu0 : u = []
  · subst hu0
    obtain ⟨a, l, hal⟩ := List.exists_cons_of_ne_nil hlit
    simp [Tok.chars, hal]
  · obtain ⟨a, l, hal⟩ := List.exists_cons_of_ne_nil hlit
    obtain ⟨b, k, hbk⟩ := List.exists_cons_of_ne_nil hu0
    simp [Tok.chars, hal, hbk]

/-- **reading of a well-formed string** (`parse_units`): a decimal literal followed by text without digits
    is rejected when the value is not positive or the normalised text is not a unit of the table, and
    otherwise converted with the table's factor (no text = the default unit) -/
theorem getDistance_ulit (rnd : Rat → Rat) (d1 d2 u : List Char) (h1 : ∀ c ∈ d1, isDig c = true) (h2 : ∀ c ∈ d2, isDig c = true)
    (hne : d1 ≠ [] ∨ d2 ≠ []) (hu : ∀ c ∈ u, isDig c = false) :
    getDistance rnd (ulit d1 d2 ++ u) =
      if rnd (decVal (ulit d1 d2)) ≤ 0 then .err "positive"
      else match lookupUnit (normUnit (if u = [] then Gen.default_unit.toList else u)) with
        | none => .err "unit"
        | some f => .val (.fin (rnd (rnd (decVal (ulit d1 d2)) * rnd f))) := by
  unfold getDistance
  simp only
  rw [splits_ulit d1 d2 u h1 h2 hne hu]
  have g0 : Gen.distance_allowed_lens = [1, 2] := by decide
  have g1 : Gen.distance_unit_guard = 2 := by decide
  have g2 : Gen.distance_unit_index = 1 := by decide
  have g3 : Gen.distance_number_index = 0 := by decide
  rw [g0, g1, g2, g3]
  by_cases hu0 : u = []
  · simp only [hu0, if_true, List.length_singleton, pyFloatTok, mulFactor]
    by_cases hp : rnd (decVal (ulit d1 d2)) ≤ 0
    · simp [hp, rejected_fin]
    · simp [hp, rejected_fin]
      cases lookupUnit (normUnit Gen.default_unit.toList) <;> rfl
  · simp only [hu0, if_false, List.length_cons, List.length_nil, pyFloatTok, mulFactor, Tok.chars]
    by_cases hp : rnd (decVal (ulit d1 d2)) ≤ 0
    · simp [hp, rejected_fin]
    · simp [hp, rejected_fin]
      cases lookupUnit (normUnit u) <;> rfl
end XrsVerif.DistStr
