import XrsVerif.Proofs.ILang
/-
  Proofs/ILangStrides.lean -- further generic lemmas about the ILang interpreter (used by Proofs/ILZonal.lean and
  Proofs/ILFocal.lean): sequencing with a known intermediate state, environments, up-counting ranges with
  arbitrary bounds.
-/
namespace XrsVerif.IL.Sd
open XrsVerif XrsVerif.IL
variable {F : Type} [Fl F]
set_option linter.unusedSectionVars false

/-- `a; b` when the state after `a` is known and still running -/
theorem exec_seq_eq (fuel : Nat) (a b : St) (s s1 : State F) (h : exec fuel a s = s1) (hc : s1.ctl = .run) :
    exec fuel (.seq a b) s = exec fuel b s1 := by
  simp only [exec, h, hc, if_true]

/-- `a; b` when `a` stops the program -/
theorem exec_seq_stop_eq (fuel : Nat) (a b : St) (s s1 : State F) (h : exec fuel a s = s1) (hc : s1.ctl ≠ .run) :
    exec fuel (.seq a b) s = s1 := by
  simp only [exec, h, hc, if_false]

theorem setS_self {α} (env : String → α) (v : String) : setS env v (env v) = env := by
  funext w; simp only [setS]; split <;> simp_all

theorem setS_setS {α} (env : String → α) (v : String) (x y : α) : setS (setS env v x) v y = setS env v y := by
  funext w; simp only [setS]; split <;> rfl

/-- `range(lo, hi)` with step 1 and `lo ≤ hi`, as `lo + 0, lo + 1, …` -/
theorem rangeList_from (lo : Int) (n : Nat) :
    rangeList lo (lo + n) 1 = (List.range n).map (fun (k : Nat) => lo + (k : Int)) := by
  unfold rangeList
  simp only [show (1 : Int) > 0 by decide, if_true]
  have : (lo + (n : Int) - lo + 1 - 1) / 1 = (n : Int) := by
    have : lo + (n : Int) - lo + 1 - 1 = (n : Int) := by omega
    rw [this]; simp
  rw [this]
  simp

/-- an empty `range(lo, hi)` (step 1) -/
theorem rangeList_empty (lo hi : Int) (h : hi ≤ lo) : rangeList lo hi 1 = [] := by
  unfold rangeList
  simp only [show (1 : Int) > 0 by decide, if_true]
  have : ((hi - lo + 1 - 1) / 1).toNat = 0 := by
    have : (hi - lo + 1 - 1) / 1 = hi - lo := by simp
    rw [this]; omega
  rw [this]; rfl

/-- `for v in range(0, hi)` / `range(hi)` with `hi = n ≥ 0` -/
theorem exec_forRange_up (fuel : Nat) (v : String) (hi : IE) (body : St) (s : State F) (n : Nat)
    (hok : hi.ok s = true) (hn : hi.eval s = (n : Int)) :
    exec fuel (.forRange v (.lit 0) hi (.lit 1) body) s =
      loopOver (fun st i => exec fuel body { st with ienv := setS st.ienv v i })
        ((List.range n).map (fun (k : Nat) => (k : Int))) s := by
  simp only [exec, IE.ok, IE.eval, hok, hn, rangeList_up]
  simp

/-- `for v in range(lo, hi, 1)` with `hi = lo + n` -/
theorem exec_forRange_from (fuel : Nat) (v : String) (lo hi : IE) (body : St) (s : State F) (n : Nat)
    (hlo : lo.ok s = true) (hok : hi.ok s = true) (hn : hi.eval s = lo.eval s + (n : Int)) :
    exec fuel (.forRange v lo hi (.lit 1) body) s =
      loopOver (fun st i => exec fuel body { st with ienv := setS st.ienv v i })
        ((List.range n).map (fun (k : Nat) => lo.eval s + (k : Int))) s := by
  simp only [exec, IE.ok, IE.eval, hlo, hok, hn, rangeList_from]
  simp

/-- `for v in range(lo, hi, 1)` with `hi ≤ lo`: no iteration -/
theorem exec_forRange_empty (fuel : Nat) (v : String) (lo hi : IE) (body : St) (s : State F)
    (hlo : lo.ok s = true) (hok : hi.ok s = true) (hn : hi.eval s ≤ lo.eval s) (hc : s.ctl = .run) :
    exec fuel (.forRange v lo hi (.lit 1) body) s = s := by
  simp only [exec, IE.ok, IE.eval, hlo, hok, rangeList_empty _ _ hn]
  simp [hc]

/-- `range(lo, hi)` with step 1, any bounds: `lo, lo + 1, …` (`(hi - lo).toNat` numbers) -/
theorem rangeList_step1 (lo hi : Int) :
    rangeList lo hi 1 = (List.range (hi - lo).toNat).map (fun (k : Nat) => lo + (k : Int)) := by
  unfold rangeList
  simp only [show (1 : Int) > 0 by decide, if_true]
  have : (hi - lo + 1 - 1) / 1 = hi - lo := by
    have : hi - lo + 1 - 1 = hi - lo := by omega
    rw [this]; simp
  rw [this]
  simp

/-- `for v in range(lo, hi, 1)`, any bounds -/
theorem exec_forRange_step1 (fuel : Nat) (v : String) (lo hi : IE) (body : St) (s : State F)
    (hlo : lo.ok s = true) (hok : hi.ok s = true) :
    exec fuel (.forRange v lo hi (.lit 1) body) s =
      loopOver (fun st i => exec fuel body { st with ienv := setS st.ienv v i })
        ((List.range (hi.eval s - lo.eval s).toNat).map (fun (k : Nat) => lo.eval s + (k : Int))) s := by
  simp only [exec, IE.ok, IE.eval, hlo, hok, rangeList_step1]
  simp

/-- a loop without early exit as a fold: every iteration started in a running state that is `Good` ends running and
    `Good`, and changes the observed value `val` by `g` -/
theorem loopOver_foldl {α β} (f : State F → α → State F) (xs : List α) (Good : State F → Prop)
    (val : State F → β) (g : β → α → β)
    (hstep : ∀ st x, x ∈ xs → st.ctl = .run → Good st →
      (f st x).ctl = .run ∧ Good (f st x) ∧ val (f st x) = g (val st) x)
    (s : State F) (h0 : s.ctl = .run) (hg : Good s) :
    (loopOver f xs s).ctl = .run ∧ Good (loopOver f xs s) ∧ val (loopOver f xs s) = xs.foldl g (val s) := by
  induction xs generalizing s with
  | nil => simp [h0, hg]
  | cons x xs ih =>
    obtain ⟨hc, hgd, hv⟩ := hstep s x (by simp) h0 hg
    rw [loopOver_cons _ _ _ _ h0, afterBody_run _ hc]
    simp only [hc, if_true, List.foldl_cons]
    rw [← hv]
    exact ih (fun st y hy => hstep st y (by simp [hy])) _ hc hgd

theorem afterBody_err (s : State F) (m : String) (h : s.ctl = .err m) : afterBody s = s := by
  simp [afterBody, h]

theorem afterLoop_err (s : State F) (m : String) (h : s.ctl = .err m) : afterLoop s = s := by
  simp [afterLoop, h]

/-- a loop whose iterations `0 … m-1` run normally (keeping `Good`) and whose iteration `m` stops the program with
    an error ends with that error -/
theorem loopOver_err {α} (f : State F → α → State F) (xs : List α) (Good : State F → Prop) (msg : String)
    (m : Nat) (hm : m < xs.length)
    (hstep : ∀ (st : State F) (i : Nat) (hi : i < m), st.ctl = .run → Good st →
      (f st (xs[i]'(Nat.lt_trans hi hm))).ctl = .run ∧ Good (f st (xs[i]'(Nat.lt_trans hi hm))))
    (herr : ∀ st : State F, st.ctl = .run → Good st → (f st xs[m]).ctl = .err msg)
    (s : State F) (h0 : s.ctl = .run) (hg : Good s) :
    (loopOver f xs s).ctl = .err msg := by
  induction xs generalizing m s with
  | nil => simp at hm
  | cons x xs ih =>
    rw [loopOver_cons _ _ _ _ h0]
    cases m with
    | zero =>
      have he := herr s h0 hg
      simp only [List.getElem_cons_zero] at he
      rw [afterBody_err _ _ he]
      simp only [he]
      rw [afterLoop_err _ _ he]; exact he
    | succ m =>
      obtain ⟨hc, hgd⟩ := hstep s 0 (by omega) h0 hg
      simp only [List.getElem_cons_zero] at hc hgd
      rw [afterBody_run _ hc]
      simp only [hc, if_true]
      exact ih m (by simpa using hm)
        (fun st i hi hst hgs => by
          have := hstep st (i + 1) (by omega) hst hgs
          simpa using this)
        (fun st hst hgs => by
          have := herr st hst hgs
          simpa using this)
        _ hc hgd

/-! ### non-negative integer indices -/

theorem normIdx_nonneg (i : Int) (n : Nat) (h : 0 ≤ i) : normIdx i n = i := by
  unfold normIdx; simp; omega

theorem inRange_of_nonneg_lt (i : Int) (n : Nat) (h0 : 0 ≤ i) (h1 : i < n) : inRange i n = true := by
  unfold inRange; rw [normIdx_nonneg i n h0]; simp; omega

theorem off2_nonneg (r c : Nat) (i j : Int) (hi : 0 ≤ i) (hj : 0 ≤ j) :
    off2 [r, c] i j = i.toNat * c + j.toNat := by
  unfold off2; simp [normIdx_nonneg, hi, hj]

/-- an index at or beyond the extent is out of range (numba does not wrap it) -/
theorem inRange_ge (i : Int) (n : Nat) (h : (n : Int) ≤ i) : inRange i n = false := by
  unfold inRange normIdx
  have : ¬ i < 0 := by omega
  simp only [this, if_false]
  simp; omega

end XrsVerif.IL.Sd
