import XrsVerif.Proofs.ILViewshedArr
/-
  Proofs/ILViewshedRot.lean -- refinement of the two generated rotations `Gen.IL.vsLeftRotate`, `vsRightRotate`
  (`_left_rotate` / `_right_rotate` of xrspatial/viewshed.py with `_find_value_min_value` inlined) to the hand
  model's `rotL` / `rotR` (Model/Viewshed.lean), stored maxima included, for every `[Fl F]`.

  Each program is cut into the augmentation repair (`lrotItems`: two recomputed maxima written to `tree_vals`)
  and the pointer surgery (`lrotB`: six link cells of `tree_nodes`, among them the parent cell of the NIL row when
  the middle subtree is empty); `vsLeftRotate_body` ties the cut to the regenerated program by `rfl`.
-/
set_option linter.unusedSectionVars false
set_option linter.unusedVariables false
set_option linter.unusedSimpArgs false
namespace XrsVerif.ILVs
open XrsVerif XrsVerif.IL XrsVerif.Viewshed
variable {F : Type} [Fl F]

def lrotItems : List St :=
  [(.setI "y" (.ld2 "tree_nodes" (.var "x") (.lit 2))),
   (.setI "x_left" (.ld2 "tree_nodes" (.var "x") (.lit 1))),
   (.setI "y_left" (.ld2 "tree_nodes" (.var "y") (.lit 1))),
   (selMax "tmp_max" (.ld2 "tree_vals" (.var "x_left") (.lit 7)) (.ld2 "tree_vals" (.var "y_left") (.lit 7))),
   (.setI "_find_value_min_value1$node_id" (.var "x")),
   (minvScope "_find_value_min_value1$node_id" "_find_value_min_value1$ret0"),
   (.setF "min_value" (.var "_find_value_min_value1$ret0")),
   (stMax "tree_vals" (.var "x") (.lit 7) (.var "tmp_max") (.var "min_value")),
   (.setI "y_right" (.ld2 "tree_nodes" (.var "y") (.lit 2))),
   (selMax "tmp_max" (.ld2 "tree_vals" (.var "x") (.lit 7)) (.ld2 "tree_vals" (.var "y_right") (.lit 7))),
   (.setI "_find_value_min_value2$node_id" (.var "y")),
   (minvScope "_find_value_min_value2$node_id" "_find_value_min_value2$ret0"),
   (.setF "min_value" (.var "_find_value_min_value2$ret0")),
   (stMax "tree_vals" (.var "y") (.lit 7) (.var "tmp_max") (.var "min_value"))]

def lrotB : St :=
  (.seq (.stI2 "tree_nodes" (.var "x") (.lit 2) (.ld2 "tree_nodes" (.var "y") (.lit 1)))
  (.seq (.setI "y_left" (.ld2 "tree_nodes" (.var "y") (.lit 1)))
  (.seq (.stI2 "tree_nodes" (.var "y_left") (.lit 3) (.var "x"))
  (.seq (.stI2 "tree_nodes" (.var "y") (.lit 3) (.ld2 "tree_nodes" (.var "x") (.lit 3)))
  (.seq (.ite (.cmpI .eq (.ld2 "tree_nodes" (.var "x") (.lit 3)) (.lit (-1)))
      (.setI "root" (.var "y"))
      (.seq (.setI "x_parent" (.ld2 "tree_nodes" (.var "x") (.lit 3)))
      (.ite (.cmpI .eq (.var "x") (.ld2 "tree_nodes" (.var "x_parent") (.lit 1)))
        (.stI2 "tree_nodes" (.var "x_parent") (.lit 1) (.var "y"))
        (.stI2 "tree_nodes" (.var "x_parent") (.lit 2) (.var "y")))))
  (.seq (.stI2 "tree_nodes" (.var "y") (.lit 1) (.var "x"))
  (.seq (.stI2 "tree_nodes" (.var "x") (.lit 3) (.var "y")) (.seq (.setI "ret0" (.var "root")) .ret))))))))

theorem vsLeftRotate_body : Gen.IL.vsLeftRotate.body = seqK lrotItems lrotB := rfl

/-- a row pointer of a linked subtree may be dereferenced -/
theorem Linked.inRange {N : List Int} {n : Nat} {par : Int} {sh : Sh} (h : Linked N n par sh) (hn : 0 < n) :
    inRange sh.ptr n = true := inRange_ptr n _ (h.ptrOK hn) hn

theorem rowOf_ptr_lt {N : List Int} {n : Nat} {par : Int} {sh : Sh} (h : Linked N n par sh) (hn : 0 < n) :
    rowOf n sh.ptr < n := rowOf_lt n _ (h.ptrOK hn) hn

/-- the stored maxima `_left_rotate` writes: `x` first, then `y` (which reads the new value of `x`) -/
def lrotXm (V : List F) (n : Nat) (xl : Sh) (x : Nat) (yl : Sh) : Fv F :=
  mx2 (mx2 (mxAt V n xl.ptr) (mxAt V n yl.ptr)) (minv (nodeAt V x))
def lrotYm (V : List F) (n : Nat) (xl : Sh) (x : Nat) (yl : Sh) (y : Nat) (yr : Sh) : Fv F :=
  mx2 (mx2 (lrotXm V n xl x yl) (mxAt V n yr.ptr)) (minv (nodeAt V y))

theorem lrotA_spec (fuel n : Nat) (s : State F) (hv : VS s n) (hrun : s.ctl = .run) (xl : Sh) (x : Nat) (yl : Sh) (y : Nat)
    (yr : Sh) (par : Int) (hl : Linked (s.ia "tree_nodes") n par (.node xl x (.node yl y yr)))
    (hn : (Sh.node xl x (.node yl y yr)).idxs.Nodup) (hx : s.ienv "x" = x) :
    let q := exec fuel (seqL lrotItems) s
    q.ctl = .run ∧
      q.fa = setS s.fa "tree_vals" (((s.fa "tree_vals").set (x * 8 + 7) (lrotXm (s.fa "tree_vals") n xl x yl).v).set
        (y * 8 + 7) (lrotYm (s.fa "tree_vals") n xl x yl y yr).v) ∧
      q.ia = s.ia ∧ q.shp = s.shp ∧ q.ienv "x" = x ∧ q.ienv "y" = y ∧ q.ienv "root" = s.ienv "root" := by
  obtain ⟨hxn, hxL, hxR, hxP, hlxl, hly⟩ := hl
  obtain ⟨hyn, hyL, hyR, hyP, hlyl, hlyr⟩ := hly
  simp only [Sh.ptr] at hxR
  have hinx : inRange (x : Int) n = true := inRange_ptr n _ (by omega) hv.pos
  have hiny : inRange (y : Int) n = true := inRange_ptr n _ (by omega) hv.pos
  have hinxl := hlxl.inRange hv.pos
  have hinyl := hlyl.inRange hv.pos
  have hinyr := hlyr.inRange hv.pos
  have eN := fun (s' : State F) => evalN s' n
  have oN := fun (s' : State F) => okN s' n
  have eV := fun (s' : State F) => evalV s' n
  have oV := fun (s' : State F) => okV s' n
  have mS := fun (a b : String) (s' : State F) => minvScope_spec a b fuel n s'
  have sM := fun (s' : State F) => stMax_spec fuel s' n
  have hlen : x * 8 + 7 < (s.fa "tree_vals").length := by rw [hv.lenV]; omega
  -- the second repair reads rows other than `x` except for the new maximum of `x`
  have hd := Sh.ptr_ne_of_nodup xl (.node yl y yr) x hn
  have hxy : x ≠ y := fun e => hd.2.2.2.2.2 (by simp [Sh.idxs, e])
  have hyrx : rowOf n yr.ptr ≠ x := by
    cases yr with
    | nil => simp only [Sh.ptr, rowOf_neg_one]; omega
    | node a b c =>
      simp only [Sh.ptr, rowOf_nat]
      intro e
      exact hd.2.2.2.2.2 (by simp [Sh.idxs, e])
  intro q
  simp [q, lrotItems, seqL, exec, selMax_spec, mS, sM, eN, oN, eV, oV, hv.shpN, hv.shpV, hx, hinx, hiny, hinxl, hinyl, hinyr,
    hxL, hxR, hyL, hyR, IE.ok_var, IE.eval_var, FE.ok_var, FE.eval_var, setS, hrun, vAt_set, hlen, hxy, hxy.symm, hyrx,
    nodeAt_set7, setS_setS_same, lrotXm, lrotYm, mxAt]

/-- what the pointer surgery of `_left_rotate` establishes, cell by cell -/
structure LRotCells (N N' : List Int) (n : Nat) (xl : Sh) (x : Nat) (yl : Sh) (y : Nat) (yr : Sh) (par : Int) : Prop where
  len : N'.length = N.length
  y1 : nAt N' y 1 = x
  y2 : nAt N' y 2 = yr.ptr
  y3 : nAt N' y 3 = par
  x1 : nAt N' x 1 = xl.ptr
  x2 : nAt N' x 2 = yl.ptr
  x3 : nAt N' x 3 = y
  yl3 : nAt N' (rowOf n yl.ptr) 3 = x
  col0 : ∀ i, nAt N' i 0 = nAt N i 0
  other12 : ∀ i, i ≠ x → i ≠ y → (par < 0 ∨ (i : Int) ≠ par) → nAt N' i 1 = nAt N i 1 ∧ nAt N' i 2 = nAt N i 2
  other3 : ∀ i, i ≠ x → i ≠ y → i ≠ rowOf n yl.ptr → nAt N' i 3 = nAt N i 3
  parent : ∀ p : Nat, par = (p : Int) →
    (nAt N p 1 = x → nAt N' p 1 = y ∧ nAt N' p 2 = nAt N p 2) ∧
    (nAt N p 1 ≠ x → nAt N' p 2 = y ∧ nAt N' p 1 = nAt N p 1)

theorem lrotB_spec (fuel n : Nat) (s : State F) (hv : VS s n) (hrun : s.ctl = .run) (xl : Sh) (x : Nat) (yl : Sh) (y : Nat)
    (yr : Sh) (par : Int) (hl : Linked (s.ia "tree_nodes") n par (.node xl x (.node yl y yr)))
    (hn : (Sh.node xl x (.node yl y yr)).idxs.Nodup) (hx : s.ienv "x" = x) (hy : s.ienv "y" = y)
    (hpar : par = -1 ∨ ∃ p : Nat, par = (p : Int) ∧ p + 1 < n ∧ p ∉ (Sh.node xl x (.node yl y yr)).idxs) :
    let q := exec fuel lrotB s
    q.ctl = .ret ∧ q.fa = s.fa ∧ q.shp = s.shp ∧
      q.ienv "ret0" = (if par = -1 then (y : Int) else s.ienv "root") ∧
      (∀ a, a ≠ "tree_nodes" → q.ia a = s.ia a) ∧
      LRotCells (s.ia "tree_nodes") (q.ia "tree_nodes") n xl x yl y yr par := by
  obtain ⟨hxn, hxL, hxR, hxP, hlxl, hly⟩ := hl
  obtain ⟨hyn, hyL, hyR, hyP, hlyl, hlyr⟩ := hly
  simp only [Sh.ptr] at hxR
  have hinx : inRange (x : Int) n = true := inRange_ptr n _ (by omega) hv.pos
  have hiny : inRange (y : Int) n = true := inRange_ptr n _ (by omega) hv.pos
  have hinyl := hlyl.inRange hv.pos
  have hylr := rowOf_ptr_lt hlyl hv.pos
  have eN := fun (s' : State F) => evalN s' n
  have oN := fun (s' : State F) => okN s' n
  have sN := fun (s' : State F) => exec_stN fuel s' n
  have hd := Sh.ptr_ne_of_nodup xl (.node yl y yr) x hn
  have hd2 := Sh.ptr_ne_of_nodup yl yr y hd.2.2.2.1
  have hxy : x ≠ y := fun e => hd.2.2.2.2.2 (by simp [Sh.idxs, e])
  have hylx : rowOf n yl.ptr ≠ x := by
    cases yl with
    | nil => simp only [Sh.ptr, rowOf_neg_one]; omega
    | node a b c =>
      simp only [Sh.ptr, rowOf_nat]
      intro e
      exact hd.2.2.2.2.2 (by simp [Sh.idxs, e])
  have hyly : rowOf n yl.ptr ≠ y := by
    cases yl with
    | nil => simp only [Sh.ptr, rowOf_neg_one]; omega
    | node a b c =>
      simp only [Sh.ptr, rowOf_nat]
      intro e
      exact hd2.2.2.2.2.1 (by simp [Sh.idxs, e])
  have hL : (s.ia "tree_nodes").length = n * 4 := hv.lenN
  have l1 : x * 4 + 2 < (s.ia "tree_nodes").length := by omega
  have l2 : rowOf n yl.ptr * 4 + 3 < (s.ia "tree_nodes").length := by omega
  have l3 : y * 4 + 3 < (s.ia "tree_nodes").length := by omega
  have l4 : y * 4 + 1 < (s.ia "tree_nodes").length := by omega
  have l5 : x * 4 + 3 < (s.ia "tree_nodes").length := by omega
  intro q
  rcases hpar with hp | ⟨p, hp, hpn, hpi⟩
  · subst hp
    have hne : ¬ ((x : Int) = -1) := by omega
    simp [q, lrotB, exec, sN, eN, oN, hv.shpN, hx, hy, hinx, hiny, hinyl, hxL, hxR, hyL, hyR, hxP, IE.ok_var, IE.eval_var,
      IE.ok_lit, IE.eval_lit, BE.ok, BE.eval, cmpInt, setS, hrun, nAt_set, l1, l2, l3, l4, l5, hxy, hxy.symm, hylx, hyly,
      hylx.symm, hyly.symm]
    refine ⟨fun a ha => by simp [ha], ?_⟩
    constructor
    · simp
    · simp [nAt_set, l1, l2, l3, l4, l5, hxy, hxy.symm, hylx, hyly, hylx.symm, hyly.symm]
    · simp [nAt_set, l1, l2, l3, l4, l5, hxy, hxy.symm, hylx, hyly, hylx.symm, hyly.symm, hyR]
    · simp [nAt_set, l1, l2, l3, l4, l5, hxy, hxy.symm, hylx, hyly, hylx.symm, hyly.symm]
    · simp [nAt_set, l1, l2, l3, l4, l5, hxy, hxy.symm, hylx, hyly, hylx.symm, hyly.symm, hxL]
    · simp [nAt_set, l1, l2, l3, l4, l5, hxy, hxy.symm, hylx, hyly, hylx.symm, hyly.symm]
    · simp [nAt_set, l1, l2, l3, l4, l5, hxy, hxy.symm, hylx, hyly, hylx.symm, hyly.symm]
    · simp [nAt_set, l1, l2, l3, l4, l5, hxy, hxy.symm, hylx, hyly, hylx.symm, hyly.symm]
    · intro i; simp [nAt_set, l1, l2, l3, l4, l5]
    · intro i h1 h2 _; simp [nAt_set, l1, l2, l3, l4, l5, h1, h2]
    · intro i h1 h2 h3; simp [nAt_set, l1, l2, l3, l4, l5, h1, h2, h3]
    · intro p hp; omega
  · subst hp
    have hne : ¬ ((p : Int) = -1) := by omega
    have hinp : inRange (p : Int) n = true := inRange_ptr n _ (by omega) hv.pos
    have hpx : p ≠ x := fun e => hpi (by simp [Sh.idxs, e])
    have hpy : p ≠ y := fun e => hpi (by simp [Sh.idxs, e])
    have hpyl : rowOf n yl.ptr ≠ p := by
      cases yl with
      | nil => simp only [Sh.ptr, rowOf_neg_one]; omega
      | node a b c =>
        simp only [Sh.ptr, rowOf_nat]
        intro e
        exact hpi (by simp [Sh.idxs, e])
    have l6 : p * 4 + 1 < (s.ia "tree_nodes").length := by omega
    have l7 : p * 4 + 2 < (s.ia "tree_nodes").length := by omega
    by_cases hc : nAt (s.ia "tree_nodes") p 1 = (x : Int)
    · simp [q, lrotB, exec, sN, eN, oN, hv.shpN, hx, hy, hinx, hiny, hinyl, hinp, hxL, hxR, hyL, hyR, hxP, IE.ok_var,
        IE.eval_var, IE.ok_lit, IE.eval_lit, BE.ok, BE.eval, cmpInt, setS, hrun, nAt_set, l1, l2, l3, l4, l5, l6, l7, hxy,
        hxy.symm, hylx, hyly, hylx.symm, hyly.symm, hne, hpx, hpy, hpx.symm, hpy.symm, hpyl, hpyl.symm, hc]
      refine ⟨fun a ha => by simp [ha], ?_⟩
      constructor
      · simp
      · simp [nAt_set, l1, l2, l3, l4, l5, l6, l7, hxy, hxy.symm, hylx, hyly, hylx.symm, hyly.symm, hpx, hpy, hpx.symm, hpy.symm]
      · simp [nAt_set, l1, l2, l3, l4, l5, l6, l7, hxy, hxy.symm, hylx, hyly, hylx.symm, hyly.symm, hyR, hpx, hpy, hpx.symm, hpy.symm]
      · simp [nAt_set, l1, l2, l3, l4, l5, l6, l7, hxy, hxy.symm, hylx, hyly, hylx.symm, hyly.symm, hpx, hpy, hpx.symm, hpy.symm]
      · simp [nAt_set, l1, l2, l3, l4, l5, l6, l7, hxy, hxy.symm, hylx, hyly, hylx.symm, hyly.symm, hxL, hpx, hpy, hpx.symm, hpy.symm]
      · simp [nAt_set, l1, l2, l3, l4, l5, l6, l7, hxy, hxy.symm, hylx, hyly, hylx.symm, hyly.symm, hpx, hpy, hpx.symm, hpy.symm]
      · simp [nAt_set, l1, l2, l3, l4, l5, l6, l7, hxy, hxy.symm, hylx, hyly, hylx.symm, hyly.symm, hpx, hpy, hpx.symm, hpy.symm]
      · simp [nAt_set, l1, l2, l3, l4, l5, l6, l7, hxy, hxy.symm, hylx, hyly, hylx.symm, hyly.symm, hpx, hpy, hpx.symm, hpy.symm, hpyl, hpyl.symm]
      · intro i; simp [nAt_set, l1, l2, l3, l4, l5, l6, l7]
      · intro i h1 h2 h3
        have h3' : i ≠ p := by rcases h3 with h3 | h3 <;> omega
        simp [nAt_set, l1, l2, l3, l4, l5, l6, l7, h1, h2, h3']
      · intro i h1 h2 h3; simp [nAt_set, l1, l2, l3, l4, l5, l6, l7, h1, h2, h3]
      · intro p' hp'
        have : p' = p := by omega
        subst this
        refine ⟨fun _ => ?_, fun h => absurd hc h⟩
        simp [nAt_set, l1, l2, l3, l4, l5, l6, l7, hpx, hpy, hpx.symm, hpy.symm, hpyl, hpyl.symm]
    · simp [q, lrotB, exec, sN, eN, oN, hv.shpN, hx, hy, hinx, hiny, hinyl, hinp, hxL, hxR, hyL, hyR, hxP, IE.ok_var,
        IE.eval_var, IE.ok_lit, IE.eval_lit, BE.ok, BE.eval, cmpInt, setS, hrun, nAt_set, l1, l2, l3, l4, l5, l6, l7, hxy,
        hxy.symm, hylx, hyly, hylx.symm, hyly.symm, hne, hpx, hpy, hpx.symm, hpy.symm, hpyl, hpyl.symm, hc, Ne.symm hc]
      refine ⟨fun a ha => by simp [ha], ?_⟩
      constructor
      · simp
      · simp [nAt_set, l1, l2, l3, l4, l5, l6, l7, hxy, hxy.symm, hylx, hyly, hylx.symm, hyly.symm, hpx, hpy, hpx.symm, hpy.symm]
      · simp [nAt_set, l1, l2, l3, l4, l5, l6, l7, hxy, hxy.symm, hylx, hyly, hylx.symm, hyly.symm, hyR, hpx, hpy, hpx.symm, hpy.symm]
      · simp [nAt_set, l1, l2, l3, l4, l5, l6, l7, hxy, hxy.symm, hylx, hyly, hylx.symm, hyly.symm, hpx, hpy, hpx.symm, hpy.symm]
      · simp [nAt_set, l1, l2, l3, l4, l5, l6, l7, hxy, hxy.symm, hylx, hyly, hylx.symm, hyly.symm, hxL, hpx, hpy, hpx.symm, hpy.symm]
      · simp [nAt_set, l1, l2, l3, l4, l5, l6, l7, hxy, hxy.symm, hylx, hyly, hylx.symm, hyly.symm, hpx, hpy, hpx.symm, hpy.symm]
      · simp [nAt_set, l1, l2, l3, l4, l5, l6, l7, hxy, hxy.symm, hylx, hyly, hylx.symm, hyly.symm, hpx, hpy, hpx.symm, hpy.symm]
      · simp [nAt_set, l1, l2, l3, l4, l5, l6, l7, hxy, hxy.symm, hylx, hyly, hylx.symm, hyly.symm, hpx, hpy, hpx.symm, hpy.symm, hpyl, hpyl.symm]
      · intro i; simp [nAt_set, l1, l2, l3, l4, l5, l6, l7]
      · intro i h1 h2 h3
        have h3' : i ≠ p := by rcases h3 with h3 | h3 <;> omega
        simp [nAt_set, l1, l2, l3, l4, l5, l6, l7, h1, h2, h3']
      · intro i h1 h2 h3; simp [nAt_set, l1, l2, l3, l4, l5, l6, l7, h1, h2, h3]
      · intro p' hp'
        have : p' = p := by omega
        subst this
        refine ⟨fun h => absurd h hc, fun _ => ?_⟩
        simp [nAt_set, l1, l2, l3, l4, l5, l6, l7, hpx, hpy, hpx.symm, hpy.symm, hpyl, hpyl.symm]

/-- the row behind the pointer of a linked subtree is a row of the subtree, or the NIL row -/
theorem rowOf_ptr_cases {N : List Int} {n : Nat} {par : Int} {sh : Sh} (h : Linked N n par sh) :
    rowOf n sh.ptr = n - 1 ∨ rowOf n sh.ptr ∈ sh.idxs := by
  cases sh with
  | nil => left; simp [Sh.ptr]
  | node l i r => right; simp [Sh.ptr, Sh.idxs]

/-- **Refinement of `_left_rotate`** at the node `x` whose right child is `y`: the links afterwards spell out the
    rotated shape under the same parent, the abstraction of the new shape is the hand model's `rotL` (both recomputed
    maxima included) of the abstraction of the old one, the returned root is `y` exactly when `x` was the root, and
    nothing else is touched but the child cell of `x`'s parent and the parent cell of the NIL row (`LRotCells`). -/
theorem vsLeftRotate_refines (s : State F) (fuel n : Nat) (hv : VS s n) (hrun : s.ctl = .run) (xl : Sh) (x : Nat)
    (yl : Sh) (y : Nat) (yr : Sh) (par : Int)
    (hl : Linked (s.ia "tree_nodes") n par (.node xl x (.node yl y yr)))
    (hn : (Sh.node xl x (.node yl y yr)).idxs.Nodup) (hx : s.ienv "x" = x)
    (hpar : par = -1 ∨ ∃ p : Nat, par = (p : Int) ∧ p + 1 < n ∧ p ∉ (Sh.node xl x (.node yl y yr)).idxs) :
    let q := Gen.IL.vsLeftRotate.run s fuel
    let S : Fv F := vAt (s.fa "tree_vals") (n - 1) 7
    q.ctl = .ret ∧ VS q n ∧
      q.ienv "ret0" = (if par = -1 then (y : Int) else s.ienv "root") ∧
      Linked (q.ia "tree_nodes") n par (.node (.node xl x yl) y yr) ∧
      absT (q.fa "tree_vals") (q.ia "tree_nodes") (.node (.node xl x yl) y yr) =
        rotL S (absT (s.fa "tree_vals") (s.ia "tree_nodes") (.node xl x (.node yl y yr))) ∧
      vAt (q.fa "tree_vals") (n - 1) 7 = S ∧
      (∀ i, i ≠ x → i ≠ y → ∀ c, c < 8 → vAt (q.fa "tree_vals") i c = vAt (s.fa "tree_vals") i c) ∧
      LRotCells (s.ia "tree_nodes") (q.ia "tree_nodes") n xl x yl y yr par := by
  intro q S
  have hA := lrotA_spec fuel n s hv hrun xl x yl y yr par hl hn hx
  obtain ⟨a1, a2, a3, a4, a5, a6, a7⟩ := hA
  generalize hsA : exec fuel (seqL lrotItems) s = sA at a1 a2 a3 a4 a5 a6 a7
  obtain ⟨hxn, hxL, hxR, hxP, hlxl, hly⟩ := id hl
  obtain ⟨hyn, hyL, hyR, hyP, hlyl, hlyr⟩ := hly
  have hlenV : (s.fa "tree_vals").length = n * 8 := hv.lenV
  have hvA : VS sA n := by
    refine ⟨by rw [a4]; exact hv.shpV, by rw [a4]; exact hv.shpN, ?_, by rw [a3]; exact hv.lenN, hv.pos⟩
    rw [a2]; simp [setS, hv.lenV]
  have hB := lrotB_spec fuel n sA hvA a1 xl x yl y yr par (by rw [a3]; exact hl) hn a5 a6 hpar
  obtain ⟨b1, b2, b3, b4, b5, b6⟩ := hB
  have hq : q = exec fuel lrotB sA := by
    simp only [q, Prog.run, vsLeftRotate_body, lrotItems]
    rw [exec_seqK, ← hsA, exec_seq_run _ _ _ _ (by rw [← lrotItems, hsA]; exact a1)]
    rfl
  rw [← hq] at b1 b2 b3 b4 b5 b6
  rw [a3] at b6
  rw [a7] at b4
  -- distinctness
  have hd := Sh.ptr_ne_of_nodup xl (.node yl y yr) x hn
  have hd2 := Sh.ptr_ne_of_nodup yl yr y hd.2.2.2.1
  have hxy : x ≠ y := fun e => hd.2.2.2.2.2 (by simp [Sh.idxs, e])
  have hlx : x * 8 + 7 < (s.fa "tree_vals").length := by omega
  have hly' : y * 8 + 7 < ((s.fa "tree_vals").set (x * 8 + 7) (lrotXm (s.fa "tree_vals") n xl x yl).v).length := by
    simp; omega
  have hqV : q.fa "tree_vals" = ((s.fa "tree_vals").set (x * 8 + 7) (lrotXm (s.fa "tree_vals") n xl x yl).v).set
      (y * 8 + 7) (lrotYm (s.fa "tree_vals") n xl x yl y yr).v := by rw [b2, a2]; simp [setS]
  have hVother : ∀ i, i ≠ x → i ≠ y → ∀ c, c < 8 → vAt (q.fa "tree_vals") i c = vAt (s.fa "tree_vals") i c := by
    intro i h1 h2 c hc
    rw [hqV, vAt_set _ _ _ _ _ _ (by decide) hc hly', vAt_set _ _ _ _ _ _ (by decide) hc hlx]
    simp [h1, h2]
  have hVx : vAt (q.fa "tree_vals") x 7 = lrotXm (s.fa "tree_vals") n xl x yl := by
    rw [hqV, vAt_set _ _ _ _ _ _ (by decide) (by decide) hly', vAt_set _ _ _ _ _ _ (by decide) (by decide) hlx]
    simp [hxy]
  have hVy : vAt (q.fa "tree_vals") y 7 = lrotYm (s.fa "tree_vals") n xl x yl y yr := by
    rw [hqV, vAt_set _ _ _ _ _ _ (by decide) (by decide) hly']
    simp
  have hndx : nodeAt (q.fa "tree_vals") x = nodeAt (s.fa "tree_vals") x := by rw [hqV, nodeAt_set7, nodeAt_set7]
  have hndy : nodeAt (q.fa "tree_vals") y = nodeAt (s.fa "tree_vals") y := by rw [hqV, nodeAt_set7, nodeAt_set7]
  -- rows of the three subtrees are none of x, y, the parent, the NIL row
  have hrow : ∀ (sub : Sh) (pp : Int), Linked (s.ia "tree_nodes") n pp sub → (∀ i ∈ sub.idxs, i ≠ x ∧ i ≠ y) →
      (∀ i ∈ sub.idxs, i ∈ (Sh.node xl x (.node yl y yr)).idxs) →
      ∀ i ∈ sub.idxs, i ≠ x ∧ i ≠ y ∧ (par < 0 ∨ (i : Int) ≠ par) ∧ i + 1 < n := by
    intro sub pp hls hxy' hmem i hi
    refine ⟨(hxy' i hi).1, (hxy' i hi).2, ?_, hls.idx_lt i hi⟩
    rcases hpar with hp | ⟨p, hp, _, hpi⟩
    · left; omega
    · right; intro e; rw [hp] at e
      have : i = p := by omega
      exact hpi (this ▸ hmem i hi)
  have hxl := hrow xl _ hlxl (fun i hi => ⟨fun e => hd.2.2.2.2.1 (e ▸ hi),
    fun e => (List.nodup_append.mp (by simpa [Sh.idxs] using hn)).2.2 i hi y (by simp [Sh.idxs]) e⟩)
    (fun i hi => by simp [Sh.idxs, hi])
  have hyl := hrow yl _ hlyl (fun i hi => ⟨fun e => hd.2.2.2.2.2 (by simp [Sh.idxs, e ▸ hi]),
    fun e => hd2.2.2.2.2.1 (e ▸ hi)⟩) (fun i hi => by simp [Sh.idxs, hi])
  have hyr := hrow yr _ hlyr (fun i hi => ⟨fun e => hd.2.2.2.2.2 (by simp [Sh.idxs, e ▸ hi]),
    fun e => hd2.2.2.2.2.2 (e ▸ hi)⟩) (fun i hi => by simp [Sh.idxs, hi])
  -- the NIL row / root of yl is in none of xl, yr, and is not a non-root row of yl
  have hylrow := rowOf_ptr_cases hlyl
  have hne_ylr : ∀ (sub : Sh), (∀ i ∈ sub.idxs, i + 1 < n) → (∀ i ∈ sub.idxs, i ∉ yl.idxs) →
      ∀ i ∈ sub.idxs, i ≠ rowOf n yl.ptr := by
    intro sub h1 h2 i hi e
    rcases hylrow with h | h
    · have := h1 i hi; omega
    · exact h2 i hi (e ▸ h)
  have hdis := List.nodup_append.mp (by simpa [Sh.idxs] using hn)
  have hxl_yl : ∀ i ∈ xl.idxs, i ∉ yl.idxs := fun i hi h' => hdis.2.2 i hi i (by simp [Sh.idxs, h']) rfl
  have hyr_yl : ∀ i ∈ yr.idxs, i ∉ yl.idxs := fun i hi h' =>
    (List.nodup_append.mp (by simpa [Sh.idxs] using hd.2.2.2.1)).2.2 i h' i (by simp [hi]) rfl
  refine ⟨b1, ?_, b4, ?_, ?_, ?_, hVother, b6⟩
  · exact ⟨by rw [b3, a4]; exact hv.shpV, by rw [b3, a4]; exact hv.shpN, by rw [hqV]; simp [hv.lenV],
      by rw [b6.len]; exact hv.lenN, hv.pos⟩
  · -- the links
    refine ⟨hyn, b6.y1, b6.y2, b6.y3, ⟨hxn, b6.x1, b6.x2, b6.x3, ?_, ?_⟩, ?_⟩
    · refine hlxl.congr (fun i hi => ?_)
      obtain ⟨h1, h2, h3, h4⟩ := hxl i hi
      obtain ⟨c1, c2⟩ := b6.other12 i h1 h2 h3
      exact ⟨c1, c2, b6.other3 i h1 h2 (hne_ylr xl (fun j hj => (hxl j hj).2.2.2) hxl_yl i hi)⟩
    · refine hlyl.reparent hd2.2.2.1 (fun i hi => ?_) (fun i hi hne => ?_) (fun i hi => ?_)
      · obtain ⟨h1, h2, h3, h4⟩ := hyl i hi
        exact b6.other12 i h1 h2 h3
      · obtain ⟨h1, h2, h3, h4⟩ := hyl i hi
        refine b6.other3 i h1 h2 (fun e => hne ?_)
        cases yl with
        | nil => simp [Sh.idxs] at hi
        | node a b c => simp only [Sh.ptr, rowOf_nat] at e ⊢; omega
      · have := b6.yl3; rw [hi, rowOf_nat] at this; exact this
    · refine hlyr.congr (fun i hi => ?_)
      obtain ⟨h1, h2, h3, h4⟩ := hyr i hi
      obtain ⟨c1, c2⟩ := b6.other12 i h1 h2 h3
      exact ⟨c1, c2, b6.other3 i h1 h2 (hne_ylr yr (fun j hj => (hyr j hj).2.2.2) hyr_yl i hi)⟩
  · -- the abstraction
    have hcg : ∀ (sub : Sh), (∀ i ∈ sub.idxs, i ≠ x ∧ i ≠ y ∧ (par < 0 ∨ (i : Int) ≠ par) ∧ i + 1 < n) →
        absT (q.fa "tree_vals") (q.ia "tree_nodes") sub = absT (s.fa "tree_vals") (s.ia "tree_nodes") sub :=
      fun sub h => absT_congr sub (fun i hi => ⟨fun c hc => hVother i (h i hi).1 (h i hi).2.1 c hc, b6.col0 i⟩)
    simp only [absT, rotL, hcg xl hxl, hcg yl hyl, hcg yr hyr, hndx, hndy, hVx, hVy, b6.col0, recomp, recompM, lrotXm, lrotYm,
      mxAt_absT _ (s.ia "tree_nodes")]
    rfl
  · rw [hqV, vAt_set _ _ _ _ _ _ (by decide) (by decide) hly', vAt_set _ _ _ _ _ _ (by decide) (by decide) hlx]
    have : ¬ (n - 1 = y) := by omega
    have : ¬ (n - 1 = x) := by omega
    simp [*]
    rfl

end XrsVerif.ILVs
