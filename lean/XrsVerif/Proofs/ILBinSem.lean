import XrsVerif.Proofs.ILBinEmpty
import XrsVerif.Proofs.NV
/-
  Proofs/ILBinSem.lean -- from the number type `[Fl F]` the generated program `Gen.IL.cpuBin` runs on to the value
  domain `Ext K` (NaN, -inf, finite `K`, +inf over a linear order) the C12 theorems are stated in.

  `ExtSem e`: `e : F → Ext K` reads the numbers of `F` as extended values and the three primitives the program
  uses (`Fl.lt`, `Fl.le`, `Fl.isfinite`; `Fl.nan`) are the IEEE ones of `Ext K`.  Under such a reading the generic
  cell model `Bin.cellG` is the `Ext` model `Bin.cell` (`cellG_sem`).

  Two instances (non-vacuity): `NV K` (`none` = NaN, no ±inf; the domain of the kernel theorems) with `nvRead`, and
  `cmpFl K` -- `Ext K` itself as a *comparison-only* number type (arithmetic not interpreted: every operation
  returns NaN; `_cpu_bin` uses none) with `e = id`, which has ±inf.
-/
set_option linter.unusedSectionVars false
set_option linter.unusedVariables false
namespace XrsVerif.ILBin
open XrsVerif XrsVerif.IL XrsVerif.Bin

section wf
variable {F : Type} [Fl F]

/-- the inputs of `_cpu_bin` in an ILang state: a `rows x cols` raster, `nb` bins, `nv` new values (flat arrays
    whose lengths are the products of their shapes), control `run` -/
structure WellFormed (s : State F) (rows cols nb nv : Nat) : Prop where
  run : s.ctl = .run
  dshp : s.shp "data" = [rows, cols]
  dlen : (s.fa "data").length = rows * cols
  bshp : s.shp "bins" = [nb]
  blen : (s.fa "bins").length = nb
  nshp : s.shp "new_values" = [nv]
  nlen : (s.fa "new_values").length = nv

/-- the state that holds nothing but the three arguments -/
def mkState (rows cols : Nat) (data bins newv : List F) : State F :=
  { (State.empty : State F) with
    fa := setS (setS (setS (fun _ => []) "data" data) "bins" bins) "new_values" newv
    shp := setS (setS (setS (fun _ => []) "data" [rows, cols]) "bins" [bins.length]) "new_values" [newv.length] }

theorem mkState_wf (rows cols : Nat) (data bins newv : List F) (h : data.length = rows * cols) :
    WellFormed (mkState rows cols data bins newv) rows cols bins.length newv.length := by
  refine ⟨rfl, ?_, ?_, ?_, ?_, ?_, ?_⟩ <;> simp [mkState, setS, h]

@[simp] theorem mkState_data (rows cols : Nat) (data bins newv : List F) :
    (mkState rows cols data bins newv).fa "data" = data := by simp [mkState, setS]
@[simp] theorem mkState_bins (rows cols : Nat) (data bins newv : List F) :
    (mkState rows cols data bins newv).fa "bins" = bins := by simp [mkState, setS]
@[simp] theorem mkState_newv (rows cols : Nat) (data bins newv : List F) :
    (mkState rows cols data bins newv).fa "new_values" = newv := by simp [mkState, setS]

end wf

section sem
variable {F : Type} [Fl F] {K : Type} [LinearOrder K]

/-- `e` reads `F` as extended values and the comparisons / finiteness test of `F` are the IEEE ones -/
structure ExtSem (e : F → Ext K) : Prop where
  lt : ∀ a b : F, Fl.lt a b = Ext.lt (e a) (e b)
  le : ∀ a b : F, Fl.le a b = Ext.le (e a) (e b)
  fin : ∀ a : F, Fl.isfinite a = (e a).isFinite
  nan : e (Fl.nan : F) = .nan

theorem getD_map' {α β : Type} (f : α → β) (d : α) (l : List α) (n : Nat) :
    (l.map f).getD n (f d) = f (l.getD n d) := by
  simp only [List.getD_eq_getElem?_getD, List.getElem?_map]
  cases l[n]? <;> rfl

theorem getW_map {α β : Type} (f : α → β) (d : α) (l : List α) (i : Int) :
    getW (f d) (l.map f) i = f (getW d l i) := by
  unfold getW
  simp only [List.length_map, getD_map']
  split <;> split <;> rfl

theorem search_sem (e : F → Ext K) (he : ExtSem e) (B : List F) (v : F) :
    search Fl.lt Fl.le Fl.nan B v = search Ext.lt Ext.le .nan (B.map e) (e v) := by
  unfold search
  rw [List.length_map]
  congr 1
  · funext i; rw [he.lt, ← he.nan, getW_map]
  · funext i; rw [he.le, ← he.nan, getW_map]

/-- under an `Ext` reading the generic cell model is the `Ext` cell model -/
theorem cellG_sem (e : F → Ext K) (he : ExtSem e) (B NV : List F) (v : F) :
    e (cellG Fl.lt Fl.le Fl.isfinite Fl.nan B NV v) = cell (B.map e) (NV.map e) (e v) := by
  unfold cellG cell
  rw [he.fin, search_sem e he]
  split
  · simp only []
    split
    · rw [← he.nan, getW_map]
    · exact he.nan
  · exact he.nan

/-- a NaN-free ascending bin list (as read by `e`) is totally comparable with every finite value ... -/
theorem sem_total (e : F → Ext K) (he : ExtSem e) (B : List F) (hasc : ExtAscending (B.map e)) (v : F)
    (hv : Fl.isfinite v = true) : ∀ b ∈ B, Fl.lt b v = !Fl.le v b := by
  intro b hb
  rw [he.lt, he.le]
  rw [he.fin] at hv
  cases hev : e v with
  | fin x => exact Ext.lt_eq_not_le _ x (hasc.1 _ (List.mem_map_of_mem hb))
  | nan => rw [hev] at hv; cases hv
  | ninf => rw [hev] at hv; cases hv
  | pinf => rw [hev] at hv; cases hv

/-- ... and `v <= ·` is upward closed along it -/
theorem sem_mono (e : F → Ext K) (he : ExtSem e) (B : List F) (hasc : ExtAscending (B.map e)) (v : F)
    (hv : Fl.isfinite v = true) : B.Pairwise (fun a b => Fl.le v a = true → Fl.le v b = true) := by
  rw [he.fin] at hv
  have h2 := hasc.2
  rw [List.pairwise_map] at h2
  refine h2.imp ?_
  intro a b hab h
  rw [he.le] at h ⊢
  cases hev : e v with
  | fin x => rw [hev] at h; exact Ext.le_trans_fin x _ _ h hab
  | nan => rw [hev] at hv; cases hv
  | ninf => rw [hev] at hv; cases hv
  | pinf => rw [hev] at hv; cases hv

end sem

/-! ### instances -/

section nv
variable {K : Type} [Field K] [LinearOrder K] [IsStrictOrderedRing K] [Trig K]

/-- `NV K` read as extended values (`none` = NaN; there is no ±inf in `NV`) -/
def nvRead : NV K → Ext K
  | none => .nan
  | some x => .fin x

theorem nvRead_sem : ExtSem (nvRead : NV K → Ext K) where
  lt := by intro a b; cases a <;> cases b <;> rfl
  le := by intro a b; cases a <;> cases b <;> rfl
  fin := by intro a; cases a <;> rfl
  nan := rfl

end nv

section cmp
variable (K : Type) [LinearOrder K]

/-- `Ext K` as a comparison-only number type: IEEE `<`, `<=`, `==`, `isnan`, `isfinite`; arithmetic is not
    interpreted (NaN).  Enough for programs that only compare, like `_cpu_bin`. -/
@[instance_reducible] def cmpFl : Fl (Ext K) where
  lit _ _ := .nan
  nan := .nan
  add _ _ := .nan
  sub _ _ := .nan
  mul _ _ := .nan
  div _ _ := .nan
  neg _ := .nan
  abs _ := .nan
  lt := Ext.lt
  le := Ext.le
  eq a b := Ext.le a b && Ext.le b a
  isnan := Ext.isNaN
  isfinite := Ext.isFinite
  sqrt _ := .nan
  atan _ := .nan
  atan2 _ _ := .nan
  exp _ := .nan
  sin _ := .nan
  cos _ := .nan
  asin _ := .nan

theorem cmpFl_sem : @ExtSem (Ext K) (cmpFl K) K _ id :=
  @ExtSem.mk (Ext K) (cmpFl K) K _ id (fun _ _ => rfl) (fun _ _ => rfl) (fun _ => rfl) rfl

end cmp

end XrsVerif.ILBin
