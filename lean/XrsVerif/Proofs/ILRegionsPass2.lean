import XrsVerif.Proofs.ILRegionsMerge
/-
  Proofs/ILRegionsPass2.lean -- step 4 of the refinement of `Gen.IL.areaConnectivity`: the second pass.

  * `exec_merge`: the merge loop = fold of the model's `inner` over the captured labels;
  * `cell2_step`: one cell step of the generated second pass = `Regions.step2` (on the labels);
  * `pass2_refines`: the two nested loops = the fold of `step2` over `gridCells` (`Regions.pass2St`).
-/
namespace XrsVerif.IL.Rg
open XrsVerif XrsVerif.IL XrsVerif.Regions
variable {F : Type} [Fl F]
set_option linter.unusedSectionVars false
set_option linter.unusedVariables false
set_option linter.unusedSimpArgs false

/-- what the merge loop leaves alone -/
structure MKeepJ (s t : State F) : Prop where
  shp : t.shp = s.shp
  ia : t.ia = s.ia
  fa : ∀ a, a ≠ "out" → t.fa a = s.fa a
  ienv : ∀ v, v ∉ ["j", "y1", "x1"] → t.ienv v = s.ienv v

theorem take_succ_getD (l : List Nat) (i : Nat) (h : i < l.length) : l.take (i + 1) = l.take i ++ [l.getD i 0] := by
  rw [List.take_add_one]
  simp [List.getD_eq_getElem?_getD, List.getElem?_eq_getElem h]

/-- the merge loop -/
theorem exec_merge (laws : LabelLaws F) (fuel rows cols n : Nat) (D : List F) (idx : List Nat) (AW : List F)
    (hAW : AW.length = n) (hidx : ∀ k ∈ idx, k < n) (cap : Nat → Nat)
    (hcap : ∀ k ∈ idx, AW.getD k Fl.nan = lab (cap k)) (S : State F) (hl : MLoc rows cols n idx AW S)
    (L : Cell → Nat) (hrel : Rel rows cols D (S.fa "out") L) (hnan : NaNKeep rows cols D (S.fa "out"))
    (hol : (S.fa "out").length = rows * cols) :
    (exec fuel merge S).ctl = .run ∧ MKeepJ S (exec fuel merge S) ∧
    Rel rows cols D ((exec fuel merge S).fa "out") ((idx.map cap).foldl inner (L, none)).1 ∧
    NaNKeep rows cols D ((exec fuel merge S).fa "out") ∧
    ((exec fuel merge S).fa "out").length = rows * cols := by
  let S1 : State F := { S with benv := setS S.benv "assigned_values_min$some" false }
  have hS1 : exec fuel (.setB "assigned_values_min$some" .ff) S = S1 := by
    rw [exec_setB]; simp only [BE.ok, BE.eval, if_true]; rfl
  have hl1 : MLoc rows cols n idx AW S1 :=
    ⟨hl.run, hl.rv, hl.cv, hl.oshp, hl.nshp, hl.nia, hl.ashp, hl.afa⟩
  have hloop : exec fuel (.forRange "j" (.lit 0) (.dim "neighbor_matches" 0) (.lit 1) mergeBody) S1 =
      loopOver (fun st i => exec fuel mergeBody { st with ienv := setS st.ienv "j" i })
        ((List.range idx.length).map (fun (k : Nat) => (k : Int))) S1 :=
    exec_forRange_nat fuel "j" _ _ S1 idx.length (by simp [IE.ok, hl1.nshp]) (by simp [IE.eval, hl1.nshp])
  have := loopOver_inv (fun st i => exec fuel mergeBody { st with ienv := setS st.ienv "j" i })
    ((List.range idx.length).map (fun (k : Nat) => (k : Int)))
    (fun i st => MLoc rows cols n idx AW st ∧ MKeepJ S st ∧
      MSem rows cols D st (((idx.take i).map cap).foldl inner (L, none)).1
        (((idx.take i).map cap).foldl inner (L, none)).2)
    S1 hl1.run
    ⟨hl1, ⟨rfl, rfl, fun _ _ => rfl, fun _ _ => rfl⟩,
      { rel := hrel, nan := hnan, olen := hol, flag := by simp [S1], amin := by intro m hm; simp at hm }⟩
    (by
      intro i hi st hst hP
      obtain ⟨hloc, hkeep, hsem⟩ := hP
      have hi' : i < idx.length := by simpa using hi
      have hxs : ((List.range idx.length).map (fun (k : Nat) => (k : Int)))[i] = (i : Int) := by simp
      rw [hxs]
      have hloc' : MLoc rows cols n idx AW { st with ienv := setS st.ienv "j" (i : Int) } :=
        ⟨hloc.run, by simp [setS, hloc.rv], by simp [setS, hloc.cv], hloc.oshp, hloc.nshp, hloc.nia, hloc.ashp,
          hloc.afa⟩
      have hsem' : MSem rows cols D { st with ienv := setS st.ienv "j" (i : Int) }
          (((idx.take i).map cap).foldl inner (L, none)).1 (((idx.take i).map cap).foldl inner (L, none)).2 :=
        ⟨hsem.rel, hsem.nan, hsem.olen, hsem.flag, hsem.amin⟩
      obtain ⟨hc, hk, hs'⟩ := mergeBody_step laws fuel rows cols n D idx AW hAW hidx cap hcap i hi'
        { st with ienv := setS st.ienv "j" (i : Int) } hloc' (by simp [setS]) _ _ hsem'
      rw [afterBody_run _ hc]
      refine ⟨hc, hk.loc hc hloc', ?_, ?_⟩
      · exact { shp := by rw [hk.shp]; exact hkeep.shp
                ia := by rw [hk.ia]; exact hkeep.ia
                fa := by intro a ha; rw [hk.fa a ha]; exact hkeep.fa a ha
                ienv := by
                  intro v hv
                  have h1 : v ∉ ["y1", "x1"] := by
                    intro e; apply hv; simp at e ⊢; rcases e with e | e <;> simp [e]
                  have h2 : v ≠ "j" := by intro e; apply hv; simp [e]
                  rw [hk.ienv v h1]
                  show setS st.ienv "j" (i : Int) v = _
                  rw [setS_other _ _ _ _ h2]; exact hkeep.ienv v hv }
      · rw [take_succ_getD idx i hi', List.map_append, List.foldl_append]
        exact hs')
  unfold merge
  rw [exec_seq, hS1, if_pos (by exact hl.run), hloop]
  obtain ⟨hc, hloc, hkeep, hsem⟩ := this
  simp only [List.length_map, List.length_range, List.take_length] at hsem
  exact ⟨hc, hkeep, hsem.rel, hsem.nan, hsem.olen⟩

/-- **step 4b**: one cell step of the generated second pass is the model's `step2` (on the labels) -/
theorem cell2_step (laws : LabelLaws F) (fuel rows cols n : Nat) (hn : n = 4 ∨ n = 8) (D : List F)
    (y x : Nat) (hy : y < rows) (hx : x < cols) (s : State F) (g : Geo rows cols n D s)
    (hyv : s.ienv "y" = (y : Int)) (hxv : s.ienv "x" = (x : Int))
    (L : Cell → Nat) (o : Option Nat) (hrel : Rel rows cols D (s.fa "out") L)
    (hnk : NaNKeep rows cols D (s.fa "out")) :
    let t := afterBody (exec fuel cell2 s)
    Geo rows cols n D t ∧ t.ienv "y" = (y : Int) ∧
      Rel rows cols D (t.fa "out")
        (step2 (gridNbrs rows cols (decide (n = 8))) closeF (dataOf cols D) (L, o) (y, x)).1 ∧
      NaNKeep rows cols D (t.fa "out") := by
  intro t
  have hl := gridNbrs_length rows cols n hn (y, x)
  cases hnan : Fl.isnan (at_ cols D (y, x)) with
  | true =>
    have ht : t = _ := cell2_nan fuel rows cols n hn D y x hy hx s g hyv hxv hnan
    have hr : step2 (gridNbrs rows cols (decide (n = 8))) closeF (dataOf cols D) (L, o) (y, x) = (L, o) := by
      simp only [step2, dataOf_none cols D (y, x) hnan]
    have hto : t.fa "out" = s.fa "out" := by rw [ht]; simp [setS]
    have htd : t.fa "data" = s.fa "data" := by rw [ht]; simp [setS]
    have hts : (t.fa "src_window").length = n := by rw [ht]; simp [setS, hl]
    have hta : (t.fa "area_window").length = n := by rw [ht]; simp [setS, hl]
    have hti : t.ienv = s.ienv := by rw [ht]
    have hth : t.shp = s.shp := by rw [ht]
    have htc : t.ctl = s.ctl := by rw [ht]
    rw [hr, hto]
    refine ⟨?_, by rw [hti]; exact hyv, hrel, hnk⟩
    exact { run := by rw [htc]; exact g.run
            rv := by rw [hti]; exact g.rv
            cv := by rw [hti]; exact g.cv
            nv := by rw [hti]; exact g.nv
            dshp := by rw [hth]; exact g.dshp
            oshp := by rw [hth]; exact g.oshp
            sshp := by rw [hth]; exact g.sshp
            ashp := by rw [hth]; exact g.ashp
            dat := by rw [htd]; exact g.dat
            olen := by rw [hto]; exact g.olen
            slen := hts
            alen := hta }
  | false =>
    obtain ⟨ie', hie, hfront⟩ := cell2_front fuel rows cols n hn D y x hy hx s g hyv hxv hnan
    let nbrs := gridNbrs rows cols (decide (n = 8)) (y, x)
    have hl' : nbrs.length = n := hl
    have hin : ∀ q ∈ nbrs, q.1 < rows ∧ q.2 < cols := nbrs_in_grid rows cols _ y x hy hx
    obtain ⟨hlt, hlab, hfil, _, hmapL⟩ :=
      window_model laws rows cols D (s.fa "out") L hrel nbrs hin (at_ cols D (y, x))
    let S5 := afterMatch s ie' (at_ cols D (y, x)) (nbrs.map (at_ cols D)) (nbrs.map (at_ cols (s.fa "out")))
    let idx := matchIdx (closeF (at_ cols D (y, x))) (nbrs.map (at_ cols D))
    have hS5out : S5.fa "out" = s.fa "out" := afterMatch_fa _ _ _ _ _ _ (by decide) (by decide)
    have hloc : MLoc rows cols n idx (nbrs.map (at_ cols (s.fa "out"))) S5 :=
      { run := g.run
        rv := by show ie' "rows" = _; rw [hie _ (by decide) (by decide) (by decide)]; exact g.rv
        cv := by show ie' "cols" = _; rw [hie _ (by decide) (by decide) (by decide)]; exact g.cv
        oshp := by rw [afterMatch_shp _ _ _ _ _ _ (by decide) (by decide)]; exact g.oshp
        nshp := afterMatch_shp_nm _ _ _ _ _
        nia := afterMatch_ia_nm _ _ _ _ _
        ashp := by rw [afterMatch_shp _ _ _ _ _ _ (by decide) (by decide)]; exact g.ashp
        afa := afterMatch_fa_aw _ _ _ _ _ }
    obtain ⟨hc, hkeep, hrel', hnan', holen'⟩ := exec_merge laws fuel rows cols n D idx
      (nbrs.map (at_ cols (s.fa "out"))) (by simp [hl']) (fun k hk => by have := hlt k hk; omega)
      (fun k => L (nb nbrs k)) hlab S5 hloc L (by rw [hS5out]; exact hrel) (by rw [hS5out]; exact hnk)
      (by rw [hS5out]; exact g.olen)
    have ht : t = exec fuel merge S5 := by
      show afterBody (exec fuel cell2 s) = _
      rw [hfront]; exact afterBody_run _ hc
    have hfr : ∀ v, v ∉ ["j", "y1", "x1"] → v ≠ "elem3$k" → v ≠ "where4$n" → v ≠ "where4$k" →
        t.ienv v = s.ienv v := by
      intro v h1 h3 h4 h5
      rw [ht, hkeep.ienv v h1]
      show ie' v = _
      exact hie v h3 h4 h5
    have hr : (step2 (gridNbrs rows cols (decide (n = 8))) closeF (dataOf cols D) (L, o) (y, x)).1 =
        ((idx.map fun k => L (nb nbrs k)).foldl inner (L, none)).1 := by
      simp only [step2, dataOf_some cols D (y, x) hnan, matchesOf]
      show ((List.map L (List.filter (matched closeF (dataOf cols D) (at_ cols D (y, x))) nbrs)).foldl inner
        (L, none)).1 = _
      rw [hmapL]
    rw [hr]
    refine ⟨?_, ?_, by rw [ht]; exact hrel', by rw [ht]; exact hnan'⟩
    · exact { run := by rw [ht]; exact hc
              rv := by rw [hfr _ (by simp) (by decide) (by decide) (by decide)]; exact g.rv
              cv := by rw [hfr _ (by simp) (by decide) (by decide) (by decide)]; exact g.cv
              nv := by rw [hfr _ (by simp) (by decide) (by decide) (by decide)]; exact g.nv
              dshp := by rw [ht, hkeep.shp, afterMatch_shp _ _ _ _ _ _ (by decide) (by decide)]; exact g.dshp
              oshp := by rw [ht, hkeep.shp, afterMatch_shp _ _ _ _ _ _ (by decide) (by decide)]; exact g.oshp
              sshp := by rw [ht, hkeep.shp, afterMatch_shp _ _ _ _ _ _ (by decide) (by decide)]; exact g.sshp
              ashp := by rw [ht, hkeep.shp, afterMatch_shp _ _ _ _ _ _ (by decide) (by decide)]; exact g.ashp
              dat := by rw [ht, hkeep.fa _ (by decide), afterMatch_fa _ _ _ _ _ _ (by decide) (by decide)]; exact g.dat
              olen := by rw [ht]; exact holen'
              slen := by rw [ht, hkeep.fa _ (by decide), afterMatch_fa_sw]; simp [hl']
              alen := by rw [ht, hkeep.fa _ (by decide), afterMatch_fa_aw]; simp [hl'] }
    · rw [hfr _ (by simp) (by decide) (by decide) (by decide)]; exact hyv

/-! ### the loops -/

/-- what the second pass has established after the cells `cs` -/
def P2 (rows cols n : Nat) (D : List F) (L1 : Cell → Nat) (cs : List Cell) (st : State F) : Prop :=
  Geo rows cols n D st ∧
  Rel rows cols D (st.fa "out")
    (cs.foldl (step2 (gridNbrs rows cols (decide (n = 8))) closeF (dataOf cols D)) (L1, none)).1 ∧
  NaNKeep rows cols D (st.fa "out")

/-- one row of the second pass -/
theorem row2_refines (laws : LabelLaws F) (fuel rows cols n : Nat) (hn : n = 4 ∨ n = 8) (D : List F)
    (L1 : Cell → Nat) (y : Nat) (hy : y < rows) (s : State F) (hyv : s.ienv "y" = (y : Int))
    (hP : P2 rows cols n D L1 (gridCells y cols) s) :
    let t := exec fuel (passRow cell2) s
    t.ctl = .run ∧ P2 rows cols n D L1 (gridCells (y + 1) cols) t := by
  intro t
  have hrun := hP.1.run
  have ht : t = loopOver (fun st i => exec fuel cell2 { st with ienv := setS st.ienv "x" i })
      ((List.range cols).map (fun (k : Nat) => (k : Int))) s := by
    show exec fuel (passRow cell2) s = _
    unfold passRow
    exact exec_forRange_nat fuel "x" _ _ s cols (by simp [IE.ok]) (by simp [IE.eval, hP.1.cv])
  have := loopOver_inv (fun st i => exec fuel cell2 { st with ienv := setS st.ienv "x" i })
    ((List.range cols).map (fun (k : Nat) => (k : Int)))
    (fun i st => st.ienv "y" = (y : Int) ∧ P2 rows cols n D L1 (gridCells y cols ++ rowCells y i) st)
    s hrun ⟨hyv, by simpa [rowCells] using hP⟩
    (by
      intro i hi st hst hPi
      obtain ⟨hyst, hg, hr, hd⟩ := hPi
      have hi' : i < cols := by simpa using hi
      have hxs : ((List.range cols).map (fun (k : Nat) => (k : Int)))[i] = (i : Int) := by simp
      rw [hxs]
      have hg' := hg.set_ienv "x" (i : Int) (by decide) (by decide) (by decide)
      have := cell2_step laws fuel rows cols n hn D y i hy hi' { st with ienv := setS st.ienv "x" (i : Int) } hg'
        (by simp [setS, hyst]) (by simp [setS])
        ((gridCells y cols ++ rowCells y i).foldl
          (step2 (gridNbrs rows cols (decide (n = 8))) closeF (dataOf cols D)) (L1, none)).1
        ((gridCells y cols ++ rowCells y i).foldl
          (step2 (gridNbrs rows cols (decide (n = 8))) closeF (dataOf cols D)) (L1, none)).2
        hr hd
      obtain ⟨g2, hy2, hr2, hd2⟩ := this
      refine ⟨g2.run, hy2, g2, ?_, hd2⟩
      rw [rowCells_succ, ← List.append_assoc, List.foldl_append]; exact hr2)
  rw [← ht] at this
  obtain ⟨hc, _, hP'⟩ := this
  refine ⟨hc, ?_⟩
  simp only [List.length_map, List.length_range] at hP'
  rw [gridCells_succ']
  exact hP'

/-- **step 4c**: the second pass of the generated program = the fold of the model's `step2` -/
theorem pass2_refines (laws : LabelLaws F) (fuel rows cols n : Nat) (hn : n = 4 ∨ n = 8) (D : List F)
    (L1 : Cell → Nat) (s : State F) (hP : P2 rows cols n D L1 [] s) :
    let t := exec fuel (pass cell2) s
    t.ctl = .run ∧ P2 rows cols n D L1 (gridCells rows cols) t := by
  intro t
  have hrun := hP.1.run
  have ht : t = loopOver (fun st i => exec fuel (passRow cell2) { st with ienv := setS st.ienv "y" i })
      ((List.range rows).map (fun (k : Nat) => (k : Int))) s := by
    show exec fuel (pass cell2) s = _
    unfold pass
    exact exec_forRange_nat fuel "y" _ _ s rows (by simp [IE.ok]) (by simp [IE.eval, hP.1.rv])
  have := loopOver_inv (fun st i => exec fuel (passRow cell2) { st with ienv := setS st.ienv "y" i })
    ((List.range rows).map (fun (k : Nat) => (k : Int)))
    (fun i st => P2 rows cols n D L1 (gridCells i cols) st)
    s hrun (by simpa [gridCells] using hP)
    (by
      intro i hi st hst hPi
      have hi' : i < rows := by simpa using hi
      have hxs : ((List.range rows).map (fun (k : Nat) => (k : Int)))[i] = (i : Int) := by simp
      rw [hxs]
      obtain ⟨hg, hr, hd⟩ := hPi
      have hg' := hg.set_ienv "y" (i : Int) (by decide) (by decide) (by decide)
      have := row2_refines laws fuel rows cols n hn D L1 i hi' { st with ienv := setS st.ienv "y" (i : Int) }
        (by simp [setS]) ⟨hg', hr, hd⟩
      obtain ⟨hc, hP'⟩ := this
      rw [afterBody_run _ hc]
      exact ⟨hc, hP'⟩)
  rw [← ht] at this
  obtain ⟨hc, hP'⟩ := this
  simp only [List.length_map, List.length_range] at hP'
  exact ⟨hc, hP'⟩

end XrsVerif.IL.Rg
