import XrsVerif.Proofs.ILVsSweepEnter
/-
  Proofs/ILVsSweepFill.lean -- one iteration of the initial fill of the generated sweep (`for i in range(vp_col + 1, n_cols)`):
  the node of the observer-row cell from the three elevations in `data` (`fillNode_exec`), the assertion on the centre
  bearing, the `- 2π` adjustment, `_pop`, the inlined `_insert_into_tree` (contract `InsContract`): `fillBody_exec`; the
  loop visits exactly the model's initial status set `initialCols` (`fill_range`).
-/
namespace XrsVerif.ILSw
open XrsVerif XrsVerif.IL XrsVerif.ILVs XrsVerif.Viewshed XrsVerif.ViewshedEvents
variable {F : Type} [Fl F]
set_option linter.unusedSectionVars false
set_option linter.unusedSimpArgs false
set_option linter.unusedVariables false

/-- **the node of an initial cell**: the observer-row cell `(vr, c)` with the three elevations `data[0..2][c]` -/
theorem fillNode_exec (hH : HalfOK F) (rest : St) (s : State F) (fuel : Nat) (c vr vc : Int) (el0 el1 el2 : F)
    (e0 e1 e2 e3 e4 e5 e6 : F)
    (hs : s.ctl = .run) (shN : s.shp "status_node" = [7]) (hE : s.fa "status_node" = [e0, e1, e2, e3, e4, e5, e6])
    (her : s.ienv "e_row" = vr) (hec : s.ienv "e_col" = c) (hsr : s.ienv "status_row" = vr) (hsc : s.ienv "status_col" = c)
    (hvr : s.ienv "vp_row" = vr) (hvc : s.ienv "vp_col" = vc)
    (h0 : s.fenv "e_elev_0" = el0) (h1 : s.fenv "e_elev_1" = el1) (h2 : s.fenv "e_elev_2" = el2) :
    ∃ s' : State F, exec fuel (fillNode rest) s = exec fuel rest s' ∧ s'.ctl = .run ∧ s'.ia = s.ia ∧ s'.shp = s.shp ∧
      s'.ext = s.ext ∧
      s'.fa = setS s.fa "status_node" (enterNodeF vr c vr vc
          (angF (halfF c (posOff 1 (vr - vr) (c - vc)).2) (halfF vr (posOff 1 (vr - vr) (c - vc)).1) (Fl.lit vc 1) (Fl.lit vr 1))
          el0 el1 el2 (s.fenv "vp_elev") (s.fenv "ew_res") (s.fenv "ns_res")) ∧
      (∀ v ∈ swLiveI, s'.ienv v = s.ienv v) ∧ (∀ v ∈ swLiveF, s'.fenv v = s.fenv v) := by
  obtain ⟨ie, fe, be, ia, fa, shp, ext, ctl⟩ := s
  simp only at hs shN hE her hec hsr hsc hvr hvc h0 h1 h2; subst hs
  have hpb1 := fun s => posBody_int (F := F) hH "_calc_event_pos5$" s fuel
  have hpb2 := fun s => posBody_int (F := F) hH "_calc_event_pos8$" s fuel
  have hpb3 := fun s => posBody_int (F := F) hH "_calc_event_pos11$" s fuel
  have hab0 := fun s => angBody_exec (F := F) "_calculate_angle6$" s fuel
  have hab1 := fun s => angBody_exec (F := F) "_calculate_angle9$" s fuel
  have hab2 := fun s => angBody_exec (F := F) "_calculate_angle12$" s fuel
  have hgb1 := fun s => gradBody_exec (F := F) "_calc_event_grad7$" s fuel
  have hgb2 := fun s => gradBody_exec (F := F) "_calc_event_grad13$" s fuel
  have hdb := fun s => distBody_exec (F := F) "_calc_dist_n_grad10$" s fuel
  have n0 : inRange (0 : Int) 7 = true := by decide
  have n1 : inRange (1 : Int) 7 = true := by decide
  have n2 : inRange (2 : Int) 7 = true := by decide
  have n3 : inRange (3 : Int) 7 = true := by decide
  have n4 : inRange (4 : Int) 7 = true := by decide
  have n5 : inRange (5 : Int) 7 = true := by decide
  have n6 : inRange (6 : Int) 7 = true := by decide
  have m0 : off1 [7] (0 : Int) = 0 := by decide
  have m1 : off1 [7] (1 : Int) = 1 := by decide
  have m2 : off1 [7] (2 : Int) = 2 := by decide
  have m3 : off1 [7] (3 : Int) = 3 := by decide
  have m4 : off1 [7] (4 : Int) = 4 := by decide
  have m5 : off1 [7] (5 : Int) = 5 := by decide
  have m6 : off1 [7] (6 : Int) = 6 := by decide
  simp [fillNode, posCallI, angCall, gradCall, distCall, exec, IE.ok, IE.eval, FE.ok, FE.eval, shN, hE,
    setS_apply, setS_setS, n0, n1, n2, n3, n4, n5, n6, m0, m1, m2, m3, m4, m5, m6, hpb1, hpb2, hpb3, hab0, hab1, hab2, hgb1, hgb2, hdb,
    posEnv_apply, angEnv_apply, gradEnv_apply, distEnv_apply, posS', her, hec, hsr, hsc, hvr, hvc, h0, h1, h2]
  refine ⟨_, rfl, rfl, rfl, rfl, rfl, ?_, ?_, ?_⟩
  · dsimp only
    simp [enterNodeF, keyF, gradEventF, gradCellF, ptDist2]
  · intro v hv
    simp [swLiveI] at hv
    rcases hv with rfl | rfl | rfl | rfl | rfl | rfl | rfl | rfl <;> simp [setS_apply]
  · intro v hv
    dsimp only
    simp [swLiveF] at hv
    rcases hv with rfl | rfl | rfl | rfl <;>
      simp [gradEnv_apply, angEnv_apply, distEnv_apply, posEnv_apply, setS_apply]

/-- the prefix of the inlined insertion of the initial fill -/
def iP0 : String := "_insert_into_tree15$"

/-- the entering bearing of an initial cell lies below the east ray: it is moved to `a0 - 2π` when it exceeds the centre's -/
def adjustFill (k g0 g1 g2 a0 a1 a2 : F) : List F :=
  if Fl.lt a1 a0 = true then [k, g0, g1, g2, Fl.sub a0 twoPi, a1, a2] else [k, g0, g1, g2, a0, a1, a2]

/-- **the tail of an initial insertion**: the assertion `status_node[TN_ANG_1] == 0`, the `- 2π` adjustment, `_pop`, the
    insertion (contract `InsContract`), `root` -/
theorem fillTail_exec (hi : InsContract F insFill iP0) (s : State F) (fuel n : Nat) (sh : Sh) (top nid : Nat)
    (kk g0 g1 g2 a0 a1 a2 : F) (hs : s.ctl = .run) (hv : SVS s n)
    (hL : Linked (s.ia "status_struct") n (-1) sh) (hN : sh.idxs.Nodup) (hne : sh ≠ .nil) (hroot : s.ienv "root" = sh.ptr)
    (hS : vAt (s.fa "status_values") (n - 1) 7 = smallest)
    (hfuel : 2 * sh.height + sh.size + 4 ≤ fuel) (shN : s.shp "status_node" = [7])
    (hE : s.fa "status_node" = [kk, g0, g1, g2, a0, a1, a2]) (hassert : Fl.eq a1 (Fl.lit 0 1) = true)
    (shI : s.shp "idle" = [n]) (lenI : (s.ia "idle").length = n)
    (htop : (s.ia "idle").getD 0 0 = top) (htn : top < n) (ht0 : 0 < top)
    (hnid : (s.ia "idle").getD top 0 = nid) (hnn : nid + 1 < n) (hfresh : nid ∉ sh.idxs) :
    ∃ (s' : State F) (sh' : Sh), exec fuel (fillTail insFill) s = s' ∧ s'.ctl = .run ∧ SVS s' n ∧
      Linked (s'.ia "status_struct") n (-1) sh' ∧ sh'.idxs.Nodup ∧ s'.ienv "root" = sh'.ptr ∧
      sh'.idxs.Perm (nid :: sh.idxs) ∧ vAt (s'.fa "status_values") (n - 1) 7 = smallest ∧
      Rebal smallest (leafInsert (nodeOfList (adjustFill kk g0 g1 g2 a0 a1 a2))
        (absT (s.fa "status_values") (s.ia "status_struct") sh)) (absT (s'.fa "status_values") (s'.ia "status_struct") sh') ∧
      s'.ia "idle" = (s.ia "idle").set 0 ((top : Int) - 1) ∧
      (∀ a, a ≠ "status_values" → a ≠ "status_node" → s'.fa a = s.fa a) ∧
      (∀ a, a ≠ "status_struct" → a ≠ "idle" → s'.ia a = s.ia a) ∧ s'.shp = s.shp ∧
      (∀ v ∈ swLiveI, v ≠ "root" → s'.ienv v = s.ienv v) ∧ (∀ v ∈ swLiveF, s'.fenv v = s.fenv v) := by
  obtain ⟨ie, fe, be, ia, fa, shp, ext, ctl⟩ := s
  simp only at hs hv hL hN hroot hS shN hE shI lenI htop hnid; subst hs
  have n4 : inRange (4 : Int) 7 = true := by decide
  have n5 : inRange (5 : Int) 7 = true := by decide
  have m4 : off1 [7] (4 : Int) = 4 := by decide
  have m5 : off1 [7] (5 : Int) = 5 := by decide
  have i0 : inRange (0 : Int) n = true := inRange_of_lt 0 n (by omega)
  have o0 : off1 [n] (0 : Int) = 0 := off1_nat n 0
  have htop' : (ia "idle")[0]?.getD 0 = (top : Int) := by simpa using htop
  have it : inRange (top : Int) n = true := inRange_of_lt top n htn
  have ot : off1 [n] (top : Int) = top := off1_nat n top
  have hnid' : (ia "idle")[top]?.getD 0 = (nid : Int) := by simpa using hnid
  have hpre : ∃ ie1, exec fuel (fillTail insFill) (⟨ie, fe, be, ia, fa, shp, ext, .run⟩ : State F) =
      exec fuel (insCall "_insert_into_tree15$" insFill) ⟨ie1, fe, be, setS ia "idle" ((ia "idle").set 0 ((top : Int) - 1)),
        setS fa "status_node" (adjustFill kk g0 g1 g2 a0 a1 a2), shp, ext, .run⟩ ∧
      ie1 "id" = nid ∧ (∀ v ∈ swLiveI, ie1 v = ie v) := by
    simp only [fillTail, popCall]
    have hfa : setS fa "status_node" [kk, g0, g1, g2, a0, a1, a2] = fa := by rw [← hE]; exact setS_self' _ _
    cases hc2 : Fl.lt a1 a0 <;>
    simp [exec, IE.ok, IE.eval, FE.ok, FE.eval, BE.ok, BE.eval, CmpOp.eval, BinOp.eval, IOp.eval, shN, shI, hE,
      n4, n5, m4, m5, i0, o0, htop', it, ot, hnid', setS_apply, setS_setS, adjustFill, twoPi, piF, hc2, hfa, hassert] <;>
    refine ⟨_, rfl, by simp [setS_apply], ?_⟩ <;>
    (intro v hv; simp [swLiveI] at hv; rcases hv with rfl | rfl | rfl | rfl | rfl | rfl | rfl | rfl <;> simp [setS_apply])
  obtain ⟨ie1, hp, hid, hlive⟩ := hpre
  rw [hp]
  let adj := adjustFill kk g0 g1 g2 a0 a1 a2
  have hadjlen : adj.length = 7 := by
    simp only [adj, adjustFill]; split <;> rfl
  let s1 : State F := ⟨setS (setS ie1 "_insert_into_tree15$root" (ie1 "root")) "_insert_into_tree15$node_id" (ie1 "id"), fe, be,
    setS ia "idle" ((ia "idle").set 0 ((top : Int) - 1)), setS fa "status_node" adj, shp, ext, .run⟩
  obtain ⟨s2, sh', hex, fr, hv2, hL2, hN2, hr0, hperm, hS2, hmodel⟩ := hi s1 fuel n sh nid rfl
    ⟨hv.shpV, hv.shpN, by simpa [s1, setS_apply] using hv.lenV, by simpa [s1, setS_apply] using hv.lenN, hv.pos⟩
    (by simpa [s1, setS_apply] using hL) hN hne
    (by simp [s1, iP0, setS_apply, hlive "root" (by simp [swLiveI]), hroot]) (by simpa [s1, setS_apply] using hS)
    (by simp [s1, iP0, setS_apply, hid]) hnn hfresh shN (by simp [s1, setS_apply, hadjlen]) hfuel
  simp only [insCall]
  have h12 : exec fuel (.seq (.setI ("_insert_into_tree15$" ++ "root") (.var "root")) (.setI ("_insert_into_tree15$" ++ "node_id") (.var "id")))
      (⟨ie1, fe, be, setS ia "idle" ((ia "idle").set 0 ((top : Int) - 1)), setS fa "status_node" adj, shp, ext, .run⟩ : State F) = s1 := by
    simp [exec, IE.ok, IE.eval, s1, setS_apply]
  rw [ILVs.exec_seq_assoc, exec_seq_eq _ _ _ _ _ h12 rfl, exec_seq_eq _ _ _ _ _ hex fr.ctl]
  obtain ⟨hc2, hsh2, hext2, hfa2, hia2, hie2, hfe2⟩ := fr
  rw [ILVs.exec_setI _ _ _ _ (by simp [IE.ok])]
  obtain ⟨ie2, fe2, be2, ia2, fa2, shp2, ext2, ctl2⟩ := s2
  simp only at hc2 hsh2 hext2 hfa2 hia2 hie2 hfe2 hv2 hL2 hN2 hr0 hS2 hmodel; subst hc2 hsh2 hext2
  simp only [iP0] at hr0
  refine ⟨_, sh', rfl, rfl, ⟨hv2.shpV, hv2.shpN, hv2.lenV, hv2.lenN, hv2.pos⟩, hL2, hN2, ?_, hperm, hS2, ?_, ?_, ?_, ?_, rfl, ?_, ?_⟩
  · simp [IE.eval, setS_apply]; exact hr0
  · simpa [s1, setS_apply, adj] using hmodel
  · simp only []; rw [hia2 _ (by decide)]; simp [s1, setS_apply]
  · intro a h1 h2; simp only []; rw [hfa2 a h1]; simp [s1, setS_apply, h2]
  · intro a h1 h2; simp only []; rw [hia2 a h1]; simp [s1, setS_apply, h2]
  · intro v hv hne'
    simp [setS_apply, hne']
    simp [swLiveI] at hv
    have l1 := hlive "vp_row" (by simp [swLiveI]); have l2 := hlive "vp_col" (by simp [swLiveI])
    have l3 := hlive "i" (by simp [swLiveI]); have l4 := hlive "n_rows" (by simp [swLiveI])
    have l5 := hlive "n_cols" (by simp [swLiveI]); have l6 := hlive "num_nodes" (by simp [swLiveI])
    have l7 := hlive "nevents" (by simp [swLiveI])
    rcases hv with rfl | rfl | rfl | rfl | rfl | rfl | rfl | rfl <;> simp at hne' ⊢ <;> rw [hie2 _ (by decide)] <;>
      simp [s1, setS_apply, l1, l2, l3, l4, l5, l6, l7]
  · intro v hv
    simp only []
    simp [swLiveF] at hv
    rcases hv with rfl | rfl | rfl | rfl <;> rw [hfe2 _ (by decide)]

/-- `data[t][c]` -/
def dataAt (s : State F) (w t c : Nat) : F := (s.fa "data").getD (t * w + c) Fl.nan

/-- the node the initial fill inserts for the observer-row cell `(vr, c)` -/
def fillNodeAdj (c vr vc : Int) (el0 el1 el2 ve ew ns : F) : List F :=
  adjustFill (keyF vr c vr vc ew ns)
    (gradEventF (halfF vr (posOff 1 (vr - vr) (c - vc)).1) (halfF c (posOff 1 (vr - vr) (c - vc)).2) el0 vr vc ve ew ns)
    (gradCellF vr c el1 vr vc ve ew ns)
    (gradEventF (halfF vr (posOff (-1) (vr - vr) (c - vc)).1) (halfF c (posOff (-1) (vr - vr) (c - vc)).2) el2 vr vc ve ew ns)
    (angF (halfF c (posOff 1 (vr - vr) (c - vc)).2) (halfF vr (posOff 1 (vr - vr) (c - vc)).1) (Fl.lit vc 1) (Fl.lit vr 1))
    (angF (halfF c (posOff 0 (vr - vr) (c - vc)).2) (halfF vr (posOff 0 (vr - vr) (c - vc)).1) (Fl.lit vc 1) (Fl.lit vr 1))
    (angF (halfF c (posOff (-1) (vr - vr) (c - vc)).2) (halfF vr (posOff (-1) (vr - vr) (c - vc)).1) (Fl.lit vc 1) (Fl.lit vr 1))

/-- **one iteration of the initial fill** (the insertion a black box with contract `InsContract`): for the observer-row cell
    in column `c` whose centre elevation `data[1][c]` is not NaN, the node built from the three elevations of `data` -- the
    corner elevations `_init_event_list` left there -- is inserted in the row popped from the idle stack; for a NaN cell
    nothing is inserted.  (The centre of such a cell lies due east: its bearing must compare equal to 0, `hassert`.) -/
theorem fillBody_exec (hH : HalfOK F) (hi : InsContract F insFill iP0) (s : State F) (fuel n w : Nat) (sh : Sh) (c top nid : Nat)
    (hs : s.ctl = .run) (shN : s.shp "status_node" = [7]) (lenN : (s.fa "status_node").length = 7)
    (shD : s.shp "data" = [3, w]) (hcw : c < w) (hi' : s.ienv "i" = c) (hv : SVS s n)
    (hL : Linked (s.ia "status_struct") n (-1) sh) (hN : sh.idxs.Nodup) (hne : sh ≠ .nil) (hroot : s.ienv "root" = sh.ptr)
    (hS : vAt (s.fa "status_values") (n - 1) 7 = smallest)
    (shI : s.shp "idle" = [n]) (lenI : (s.ia "idle").length = n) (htop : (s.ia "idle").getD 0 0 = top) (htn : top < n)
    (ht0 : 0 < top) (hnid : (s.ia "idle").getD top 0 = nid) (hnn : nid + 1 < n) (hfresh : nid ∉ sh.idxs)
    (hfuel : 2 * sh.height + sh.size + 4 ≤ fuel) :
    let vr := s.ienv "vp_row"
    let vc := s.ienv "vp_col"
    let node := fillNodeAdj c vr vc (dataAt s w 0 c) (dataAt s w 1 c) (dataAt s w 2 c) (s.fenv "vp_elev") (s.fenv "ew_res") (s.fenv "ns_res")
    (Fl.isnan (dataAt s w 1 c) = false →
      Fl.eq (angF (halfF (c : Int) (posOff 0 (vr - vr) ((c : Int) - vc)).2 : F) (halfF vr (posOff 0 (vr - vr) ((c : Int) - vc)).1)
        (Fl.lit vc 1) (Fl.lit vr 1)) (Fl.lit 0 1) = true →
      ∃ (s' : State F) (sh' : Sh), exec fuel (fillBody insFill) s = s' ∧ s'.ctl = .run ∧ SVS s' n ∧
        Linked (s'.ia "status_struct") n (-1) sh' ∧ sh'.idxs.Nodup ∧ s'.ienv "root" = sh'.ptr ∧
        sh'.idxs.Perm (nid :: sh.idxs) ∧ vAt (s'.fa "status_values") (n - 1) 7 = smallest ∧
        Rebal smallest (leafInsert (nodeOfList node) (absT (s.fa "status_values") (s.ia "status_struct") sh))
          (absT (s'.fa "status_values") (s'.ia "status_struct") sh') ∧
        s'.ia "idle" = (s.ia "idle").set 0 ((top : Int) - 1) ∧
        (∀ a, a ≠ "status_values" → a ≠ "status_node" → s'.fa a = s.fa a) ∧
        (∀ a, a ≠ "status_struct" → a ≠ "idle" → s'.ia a = s.ia a) ∧ s'.shp = s.shp ∧
        (∀ v ∈ swLiveI, v ≠ "root" → s'.ienv v = s.ienv v) ∧ (∀ v ∈ swLiveF, s'.fenv v = s.fenv v)) ∧
    (Fl.isnan (dataAt s w 1 c) = true →
      ∃ ie' fe' sn, exec fuel (fillBody insFill) s = ⟨ie', fe', s.benv, s.ia, setS s.fa "status_node" sn, s.shp, s.ext, .run⟩ ∧
        (∀ v ∈ swLiveI, ie' v = s.ienv v) ∧ (∀ v ∈ swLiveF, fe' v = s.fenv v)) := by
  intro vr vc node
  obtain ⟨e0, e1, e2, e3, e4, e5, e6, hE⟩ := list7 _ lenN
  have n0 : inRange (0 : Int) 7 = true := by decide
  have n1 : inRange (1 : Int) 7 = true := by decide
  have n2 : inRange (2 : Int) 7 = true := by decide
  have n3 : inRange (3 : Int) 7 = true := by decide
  have n4 : inRange (4 : Int) 7 = true := by decide
  have n5 : inRange (5 : Int) 7 = true := by decide
  have n6 : inRange (6 : Int) 7 = true := by decide
  have m0 : off1 [7] (0 : Int) = 0 := by decide
  have m1 : off1 [7] (1 : Int) = 1 := by decide
  have m2 : off1 [7] (2 : Int) = 2 := by decide
  have m3 : off1 [7] (3 : Int) = 3 := by decide
  have m4 : off1 [7] (4 : Int) = 4 := by decide
  have m5 : off1 [7] (5 : Int) = 5 := by decide
  have m6 : off1 [7] (6 : Int) = 6 := by decide
  have ic : inRange (c : Int) w = true := inRange_of_lt c w hcw
  have d0 : inRange (0 : Int) 3 = true := by decide
  have d1 : inRange (1 : Int) 3 = true := by decide
  have d2 : inRange (2 : Int) 3 = true := by decide
  have o0 : off2 [3, w] (0 : Int) (c : Int) = 0 * w + c := off2_nat 3 w 0 c
  have o1 : off2 [3, w] (1 : Int) (c : Int) = 1 * w + c := off2_nat 3 w 1 c
  have o2 : off2 [3, w] (2 : Int) (c : Int) = 2 * w + c := off2_nat 3 w 2 c
  obtain ⟨ie, fe, be, ia, fa, shp, ext, ctl⟩ := s
  simp only at hs shN hE shD hi' hv hL hN hroot hS shI lenI htop hnid; subst hs
  -- the statements before the NaN test
  let s1 : State F := ⟨setS (setS (setS (setS ie "status_row" (ie "vp_row")) "status_col" c) "e_row" (ie "vp_row")) "e_col" c,
    setS (setS (setS fe "e_elev_0" ((fa "data").getD c Fl.nan)) "e_elev_1" ((fa "data").getD (w + c) Fl.nan)) "e_elev_2"
      ((fa "data").getD (2 * w + c) Fl.nan), be, ia,
    setS fa "status_node" [Fl.lit (-1) 1, Fl.nan, Fl.nan, Fl.nan, Fl.nan, Fl.nan, Fl.nan], shp, ext, .run⟩
  have hpre : exec fuel (fillBody insFill) (⟨ie, fe, be, ia, fa, shp, ext, .run⟩ : State F) =
      if Fl.isnan ((fa "data").getD (w + c) Fl.nan) = true then s1 else exec fuel (fillCore insFill) s1 := by
    simp only [fillBody, initNode]
    cases hnan : Fl.isnan ((fa "data").getD (w + c) Fl.nan) <;>
    (have hnan' := hnan; simp only [List.getD_eq_getElem?_getD] at hnan') <;>
    simp [exec, IE.ok, IE.eval, FE.ok, FE.eval, BE.ok, BE.eval, shN, shD, hE, hi', setS_apply, setS_setS, n0, n1, n2, n3, n4, n5, n6,
      m0, m1, m2, m3, m4, m5, m6, ic, d0, d1, d2, o0, o1, o2, hnan, hnan', s1]
  constructor
  · intro hnan hassert
    simp only [dataAt, Nat.one_mul] at hnan
    rw [hpre]
    simp only [hnan, Bool.false_eq_true, if_false, fillCore]
    obtain ⟨s2, hex2, c_ctl, c_ia, c_shp, c_ext, c_fa, c_li, c_lf⟩ := fillNode_exec hH (fillTail insFill) s1 fuel c vr vc
      ((fa "data").getD c Fl.nan) ((fa "data").getD (w + c) Fl.nan) ((fa "data").getD (2 * w + c) Fl.nan)
      (Fl.lit (-1) 1) Fl.nan Fl.nan Fl.nan Fl.nan Fl.nan Fl.nan rfl shN (by simp [s1, setS_apply])
      (by simp [s1, setS_apply, vr]) (by simp [s1, setS_apply]) (by simp [s1, setS_apply, vr]) (by simp [s1, setS_apply])
      (by simp [s1, setS_apply, vr]) (by simp [s1, setS_apply, vc]) (by simp [s1, setS_apply]) (by simp [s1, setS_apply])
      (by simp [s1, setS_apply])
    rw [hex2]
    simp only [s1, setS_setS] at c_fa c_ia c_shp c_li c_lf
    have f1 : (setS (setS (setS fe "e_elev_0" ((fa "data").getD c Fl.nan)) "e_elev_1" ((fa "data").getD (w + c) Fl.nan)) "e_elev_2"
        ((fa "data").getD (2 * w + c) Fl.nan)) "vp_elev" = fe "vp_elev" := by simp [setS_apply]
    have f2 : (setS (setS (setS fe "e_elev_0" ((fa "data").getD c Fl.nan)) "e_elev_1" ((fa "data").getD (w + c) Fl.nan)) "e_elev_2"
        ((fa "data").getD (2 * w + c) Fl.nan)) "ew_res" = fe "ew_res" := by simp [setS_apply]
    have f3 : (setS (setS (setS fe "e_elev_0" ((fa "data").getD c Fl.nan)) "e_elev_1" ((fa "data").getD (w + c) Fl.nan)) "e_elev_2"
        ((fa "data").getD (2 * w + c) Fl.nan)) "ns_res" = fe "ns_res" := by simp [setS_apply]
    simp only [f1, f2, f3] at c_fa
    obtain ⟨x0, x1, x2, x3, x4, x5, x6, hx⟩ : ∃ x0 x1 x2 x3 x4 x5 x6, enterNodeF vr c vr vc
        (angF (halfF (c : Int) (posOff 1 (vr - vr) ((c : Int) - vc)).2) (halfF vr (posOff 1 (vr - vr) ((c : Int) - vc)).1) (Fl.lit vc 1) (Fl.lit vr 1))
        ((fa "data").getD c Fl.nan) ((fa "data").getD (w + c) Fl.nan) ((fa "data").getD (2 * w + c) Fl.nan)
        (fe "vp_elev") (fe "ew_res") (fe "ns_res") = [x0, x1, x2, x3, x4, x5, x6] := ⟨_, _, _, _, _, _, _, rfl⟩
    rw [hx] at c_fa
    have hx5 : x5 = angF (halfF (c : Int) (posOff 0 (vr - vr) ((c : Int) - vc)).2) (halfF vr (posOff 0 (vr - vr) ((c : Int) - vc)).1)
        (Fl.lit vc 1) (Fl.lit vr 1) := by
      simp only [enterNodeF, List.cons.injEq, and_true] at hx; exact hx.2.2.2.2.2.1.symm
    obtain ⟨s3, sh', e3, d1, d2, d3, d4, d5, d6, d7, d8, d9, d10, d11, d12, d13, d14⟩ := fillTail_exec hi s2 fuel n sh top nid
      x0 x1 x2 x3 x4 x5 x6 c_ctl ⟨by rw [c_shp]; exact hv.shpV, by rw [c_shp]; exact hv.shpN,
        by rw [c_fa]; simpa [setS_apply] using hv.lenV, by rw [c_ia]; exact hv.lenN, hv.pos⟩ (by rw [c_ia]; exact hL) hN hne
      (by rw [c_li _ (by simp [swLiveI])]; simpa [setS_apply] using hroot)
      (by rw [c_fa]; simpa [setS_apply] using hS) hfuel (by rw [c_shp]; exact shN) (by rw [c_fa]; simp [setS_apply])
      (by rw [hx5]; exact hassert) (by rw [c_shp]; exact shI) (by rw [c_ia]; exact lenI) (by rw [c_ia]; exact htop) htn ht0
      (by rw [c_ia]; exact hnid) hnn hfresh
    refine ⟨s3, sh', e3, d1, d2, d3, d4, d5, d6, d7, ?_, ?_, ?_, ?_, ?_, ?_, ?_⟩
    · rw [c_fa, c_ia] at d8
      simp only [enterNodeF, List.cons.injEq, and_true] at hx
      obtain ⟨rfl, rfl, rfl, rfl, rfl, rfl, rfl⟩ := hx
      simpa [setS_apply, node, fillNodeAdj, dataAt] using d8
    · rw [d9, c_ia]
    · intro a h1 h2; rw [d10 a h1 h2, c_fa]; simp [setS_apply, h2]
    · intro a h1 h2; rw [d11 a h1 h2, c_ia]
    · rw [d12, c_shp]
    · intro v hv hne'
      rw [d13 v hv hne', c_li v hv]
      simp [swLiveI] at hv
      rcases hv with rfl | rfl | rfl | rfl | rfl | rfl | rfl | rfl <;> simp [setS_apply]
    · intro v hv
      rw [d14 v hv, c_lf v hv]
      simp [swLiveF] at hv
      rcases hv with rfl | rfl | rfl | rfl <;> simp [setS_apply]
  · intro hnan
    simp only [dataAt, Nat.one_mul] at hnan
    rw [hpre]
    simp only [hnan, if_true]
    refine ⟨_, _, _, rfl, ?_, ?_⟩
    · intro v hv
      simp [swLiveI] at hv
      rcases hv with rfl | rfl | rfl | rfl | rfl | rfl | rfl | rfl <;> simp [setS_apply]
    · intro v hv
      simp [swLiveF] at hv
      rcases hv with rfl | rfl | rfl | rfl <;> simp [setS_apply]

/-- **the initial fill visits the model's initial status set**: the loop range `range(vp_col + 1, n_cols)` is the list
    `initialCols` of Model/ViewshedEvents.lean (the observer's row, strictly east, from west to east) -/
theorem fill_range (w vc : Nat) (hvc : vc < w) : rangeList ((vc : Int) + 1) (w : Int) 1 = initialCols w vc := by
  unfold rangeList initialCols
  simp only [show (1 : Int) > 0 by decide, if_true]
  have e1 : (((w : Int) - ((vc : Int) + 1) + 1 - 1) / 1).toNat = w - (vc + 1) := by
    have : ((w : Int) - ((vc : Int) + 1) + 1 - 1) / 1 = ((w - (vc + 1) : Nat) : Int) := by
      rw [Int.ediv_one]; omega
    rw [this]; simp
  rw [e1]
  apply List.ext_getElem?
  intro k
  have hsplit : List.range w = List.range (vc + 1) ++ (List.range (w - (vc + 1))).map (fun j => vc + 1 + j) := by
    have : w = (vc + 1) + (w - (vc + 1)) := by omega
    conv_lhs => rw [this, List.range_add]
  rw [hsplit, List.map_append, List.filter_append]
  have h1 : ((List.range (vc + 1)).map fun (j : Nat) => (j : Int)).filter (fun j => decide ((vc : Int) < j)) = [] := by
    rw [List.filter_eq_nil_iff]
    intro x hx
    simp only [List.mem_map, List.mem_range] at hx
    obtain ⟨j, hj, rfl⟩ := hx
    simp; omega
  have h2 : (((List.range (w - (vc + 1))).map (fun j => vc + 1 + j)).map fun (j : Nat) => (j : Int)).filter
      (fun j => decide ((vc : Int) < j)) = ((List.range (w - (vc + 1))).map (fun j => vc + 1 + j)).map fun (j : Nat) => (j : Int) := by
    rw [List.filter_eq_self]
    intro x hx
    simp only [List.mem_map, List.mem_range] at hx
    obtain ⟨j, ⟨i, hi, rfl⟩, rfl⟩ := hx
    simp; omega
  rw [h1, h2, List.nil_append]
  simp only [List.getElem?_map, List.map_map]
  cases h : (List.range (w - (vc + 1)))[k]? with
  | none => simp
  | some j => simp

end XrsVerif.ILSw
