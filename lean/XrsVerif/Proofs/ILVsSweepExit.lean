import XrsVerif.Proofs.ILVsSweepCenter
/-
  Proofs/ILVsSweepExit.lean -- one EXIT event of the generated sweep: the inlined `_delete_from_tree` as a black box with
  the contract `DelContract` (the hand model's `delCore` up to rebalancing), then `_push(idle, deleted)`.
  `evBody_exit`: the whole loop body for an event of type EXIT.
-/
namespace XrsVerif.ILSw
open XrsVerif XrsVerif.IL XrsVerif.ILVs XrsVerif.Viewshed
variable {F : Type} [Fl F]
set_option linter.unusedSectionVars false
set_option linter.unusedSimpArgs false
set_option linter.unusedVariables false

/-- arrays and scalars an inlined status-tree routine (locals prefixed `P`) must leave alone -/
structure TreeFrame (P : String) (s s' : State F) : Prop where
  ctl : s'.ctl = .run
  shp : s'.shp = s.shp
  ext : s'.ext = s.ext
  fa : ∀ a, a ≠ "status_values" → s'.fa a = s.fa a
  ia : ∀ a, a ≠ "status_struct" → s'.ia a = s.ia a
  ienv : ∀ v, P.isPrefixOf v = false → s'.ienv v = s.ienv v
  fenv : ∀ v, P.isPrefixOf v = false → s'.fenv v = s.fenv v

/-- **contract of an inlined `_delete_from_tree`** (locals prefixed `P`; what the hand model's `delCore` followed by the
    colour fixup does, `Rebal`): the key being in the tree, the arrays afterwards hold a well-linked tree whose abstraction is
    the model's deletion up to rebalancing, one row -- returned as `ret1` -- is no longer used, `ret0` is the new root -/
def DelContract (F : Type) [Fl F] (del : St) (P : String) : Prop :=
  ∀ (s : State F) (fuel n : Nat) (sh : Sh), s.ctl = .run → SVS s n →
    Linked (s.ia "status_struct") n (-1) sh → sh.idxs.Nodup → s.ienv (P ++ "root") = sh.ptr →
    vAt (s.fa "status_values") (n - 1) 7 = smallest →
    (absT (s.fa "status_values") (s.ia "status_struct") sh).contains ⟨s.fenv (P ++ "key")⟩ = true →
    2 * sh.height + sh.size + 4 ≤ fuel →
    ∃ (s' : State F) (sh' : Sh) (d : Nat), exec fuel (.scope del) s = s' ∧ TreeFrame P s s' ∧ SVS s' n ∧
      Linked (s'.ia "status_struct") n (-1) sh' ∧ sh'.idxs.Nodup ∧ s'.ienv (P ++ "ret0") = sh'.ptr ∧
      s'.ienv (P ++ "ret1") = d ∧ d ∈ sh.idxs ∧ sh'.idxs.Perm (sh.idxs.erase d) ∧
      vAt (s'.fa "status_values") (n - 1) 7 = smallest ∧
      ∃ c, delCore smallest ⟨s.fenv (P ++ "key")⟩ (absT (s.fa "status_values") (s.ia "status_struct") sh) = some c ∧
        Rebal smallest c (absT (s'.fa "status_values") (s'.ia "status_struct") sh')

/-- the prefix of the inlined deletion in the sweep -/
def dP : String := "_delete_from_tree64$"

/-- **one EXIT event, after the common prefix** (the deletion a black box with contract `DelContract`): the node with the
    cell's key is deleted -- the arrays then hold the model's `delCore` of the tree up to rebalancing -- `root` is updated
    and the freed row is pushed onto the idle stack -/
theorem exitBranch_exec (hd : DelContract F delLoop dP) (s : State F) (fuel n : Nat) (sh : Sh)
    (key e1 e2 e3 e4 e5 e6 : F) (top : Nat) (hs : s.ctl = .run) (hv : SVS s n)
    (hL : Linked (s.ia "status_struct") n (-1) sh) (hN : sh.idxs.Nodup) (hroot : s.ienv "root" = sh.ptr)
    (hS : vAt (s.fa "status_values") (n - 1) 7 = smallest)
    (hin : (absT (s.fa "status_values") (s.ia "status_struct") sh).contains ⟨key⟩ = true)
    (hfuel : 2 * sh.height + sh.size + 4 ≤ fuel) (shN : s.shp "status_node" = [7])
    (hE : s.fa "status_node" = [key, e1, e2, e3, e4, e5, e6]) (shI : s.shp "idle" = [n]) (lenI : (s.ia "idle").length = n)
    (htop : (s.ia "idle").getD 0 0 = top) (htn : top + 1 < n) :
    ∃ (s' : State F) (sh' : Sh) (d : Nat), exec fuel (exitBranch delLoop) s = s' ∧ s'.ctl = .run ∧ SVS s' n ∧
      Linked (s'.ia "status_struct") n (-1) sh' ∧ sh'.idxs.Nodup ∧ s'.ienv "root" = sh'.ptr ∧
      d ∈ sh.idxs ∧ sh'.idxs.Perm (sh.idxs.erase d) ∧ vAt (s'.fa "status_values") (n - 1) 7 = smallest ∧
      (∃ c, delCore smallest ⟨key⟩ (absT (s.fa "status_values") (s.ia "status_struct") sh) = some c ∧
        Rebal smallest c (absT (s'.fa "status_values") (s'.ia "status_struct") sh')) ∧
      s'.ia "idle" = ((s.ia "idle").set 0 ((top : Int) + 1)).set (top + 1) (d : Int) ∧
      (∀ a, a ≠ "status_values" → s'.fa a = s.fa a) ∧ (∀ a, a ≠ "status_struct" → a ≠ "idle" → s'.ia a = s.ia a) ∧
      s'.shp = s.shp ∧ (∀ v ∈ swLiveI, v ≠ "root" → s'.ienv v = s.ienv v) ∧ (∀ v ∈ swLiveF, s'.fenv v = s.fenv v) := by
  obtain ⟨ie, fe, be, ia, fa, shp, ext, ctl⟩ := s
  simp only at hs hv hL hN hroot hS hin shN hE shI lenI htop; subst hs
  have n0 : inRange (0 : Int) 7 = true := by decide
  have m0 : off1 [7] (0 : Int) = 0 := by decide
  let s1 : State F := ⟨setS ie "_delete_from_tree64$root" (ie "root"), setS fe "_delete_from_tree64$key" key, be, ia, fa, shp, ext, .run⟩
  obtain ⟨s2, sh', d, hex, fr, hv2, hL2, hN2, hr0, hr1, hd1, hperm, hS2, hmodel⟩ := hd s1 fuel n sh rfl
    ⟨hv.shpV, hv.shpN, hv.lenV, hv.lenN, hv.pos⟩ hL hN (by simp [s1, dP, setS_apply, hroot]) hS
    (by simpa [s1, dP, setS_apply] using hin) hfuel
  simp only [exitBranch]
  have h12 : exec fuel (.seq (.setI "_delete_from_tree64$root" (.var "root")) (.setF "_delete_from_tree64$key" (.ld1 "status_node" (.lit 0))))
      (⟨ie, fe, be, ia, fa, shp, ext, .run⟩ : State F) = s1 := by
    simp [exec, IE.ok, IE.eval, FE.ok, FE.eval, shN, hE, n0, m0, s1]
  rw [ILVs.exec_seq_assoc, exec_seq_eq _ _ _ _ _ h12 rfl, exec_seq_eq _ _ _ _ _ hex fr.ctl]
  obtain ⟨hc2, hsh2, hext2, hfa2, hia2, hie2, hfe2⟩ := fr
  obtain ⟨ie2, fe2, be2, ia2, fa2, shp2, ext2, ctl2⟩ := s2
  simp only at hc2 hsh2 hext2 hfa2 hia2 hie2 hfe2 hv2 hL2 hN2 hr0 hr1 hS2 hmodel; subst hc2 hsh2 hext2
  have hidle : ia2 "idle" = ia "idle" := by rw [hia2 _ (by decide)]
  have i0 : inRange (0 : Int) n = true := inRange_of_lt 0 n (by omega)
  have o0 : off1 [n] (0 : Int) = 0 := off1_nat n 0
  have htop' : (ia "idle")[0]?.getD 0 = (top : Int) := by simpa using htop
  have it : inRange ((top : Int) + 1) n = true := by
    have := inRange_of_lt (top + 1) n htn; simpa using this
  have ot : off1 [n] ((top : Int) + 1) = top + 1 := by
    have := off1_nat n (top + 1); simpa using this
  have hset : ((ia "idle").set 0 ((top : Int) + 1))[0]?.getD 0 = (top : Int) + 1 := by
    have : 0 < (ia "idle").length := by omega
    simp [this]
  simp [exec, IE.ok, IE.eval, IOp.eval, shI, hidle, i0, o0, htop', it, ot, setS_apply, dP, hset, setS_setS] at hr0 hr1 ⊢
  refine ⟨⟨hv2.shpV, hv2.shpN, hv2.lenV, by simpa [setS_apply] using hv2.lenN, hv2.pos⟩, sh', hL2, hN2, hr0, d, hd1, hperm, hS2,
    ?_, ?_, hfa2, ?_, ?_, ?_⟩
  · obtain ⟨c, hc1, hc2⟩ := hmodel
    exact ⟨c, by simpa [s1, dP, setS_apply] using hc1, hc2⟩
  · rw [hr1]
  · intro a h1 h2; simp [h2]; exact hia2 a h1
  · intro v hv hne
    simp [swLiveI] at hv
    rcases hv with rfl | rfl | rfl | rfl | rfl | rfl | rfl | rfl <;> simp at hne ⊢ <;> rw [hie2 _ (by decide)] <;> simp [s1, setS_apply]
  · intro v hv
    simp [swLiveF] at hv
    rcases hv with rfl | rfl | rfl | rfl <;> rw [hfe2 _ (by decide)] <;> simp [s1, setS_apply]

/-- **one iteration of the event loop for an EXIT event** (the deletion a black box with contract `DelContract`): the node
    with the key of the event's cell is deleted from the status structure -- the model's `delCore` up to rebalancing -- and
    its row is pushed onto the idle stack; the visibility grid and the event arrays are unchanged -/
theorem evBody_exit (hd : DelContract F delLoop dP) (ins qry : St) (s : State F) (fuel n ne : Nat) (sh : Sh) (k top : Nat)
    (inv : EvInv s ne k) (hv : SVS s n)
    (hL : Linked (s.ia "status_struct") n (-1) sh) (hN : sh.idxs.Nodup) (hroot : s.ienv "root" = sh.ptr)
    (hS : vAt (s.fa "status_values") (n - 1) 7 = smallest) (hty : rctAt s k 2 = -1)
    (shI : s.shp "idle" = [n]) (lenI : (s.ia "idle").length = n) (htop : (s.ia "idle").getD 0 0 = top) (htn : top + 1 < n)
    (hfuel : 2 * sh.height + sh.size + 4 ≤ fuel) :
    let key := keyF (rctAt s k 0) (rctAt s k 1) (s.ienv "vp_row") (s.ienv "vp_col") (s.fenv "ew_res") (s.fenv "ns_res")
    (absT (s.fa "status_values") (s.ia "status_struct") sh).contains ⟨key⟩ = true →
    ∃ (s' : State F) (sh' : Sh) (d : Nat), exec fuel (evBody ins delLoop qry) s = s' ∧ s'.ctl = .run ∧ SVS s' n ∧
      Linked (s'.ia "status_struct") n (-1) sh' ∧ sh'.idxs.Nodup ∧ s'.ienv "root" = sh'.ptr ∧
      d ∈ sh.idxs ∧ sh'.idxs.Perm (sh.idxs.erase d) ∧ vAt (s'.fa "status_values") (n - 1) 7 = smallest ∧
      (∃ c, delCore smallest ⟨key⟩ (absT (s.fa "status_values") (s.ia "status_struct") sh) = some c ∧
        Rebal smallest c (absT (s'.fa "status_values") (s'.ia "status_struct") sh')) ∧
      s'.ia "idle" = ((s.ia "idle").set 0 ((top : Int) + 1)).set (top + 1) (d : Int) ∧
      s'.fa "visibility_grid" = s.fa "visibility_grid" ∧ s'.fa "event_aes" = s.fa "event_aes" ∧
      s'.ia "event_rcts" = s.ia "event_rcts" ∧ s'.shp = s.shp ∧
      (∀ v ∈ swLiveI, v ≠ "root" → s'.ienv v = s.ienv v) ∧ (∀ v ∈ swLiveF, s'.fenv v = s.fenv v) := by
  intro key hin
  obtain ⟨ie1, fe1, hex, p1, p2, p3, p4, p5, p6, p7⟩ := evPrefix_exec
    (.ite (.cmpI .eq (.var "etype") (.lit 1)) (enterBranch ins)
    (.ite (.cmpI .eq (.var "etype") (.lit (-1))) (exitBranch delLoop)
    (.ite (.cmpI .eq (.var "etype") (.lit 0)) (centerBranch qry) .skip))) s fuel ne k inv
  rw [hty] at p3
  rw [evBody, hex, ILVs.exec_ite_false _ _ _ _ _ (by simp [BE.ok, IE.ok]) (by simp [BE.eval, IE.eval, cmpInt, p3]),
    ILVs.exec_ite_true _ _ _ _ _ (by simp [BE.ok, IE.ok]) (by simp [BE.eval, IE.eval, cmpInt, p3])]
  have q_rt : ie1 "root" = s.ienv "root" := p6 _ (by simp [swLiveI])
  obtain ⟨s', sh', d, e1, c1, c2, c3, c4, c5, c6, c7, c8, c9, c10, c11, c12, c13, c14, c15⟩ := exitBranch_exec hd
    ⟨ie1, fe1, s.benv, s.ia, setS s.fa "status_node" [key, Fl.nan,
      gradCellF (rctAt s k 0) (rctAt s k 1) (Fl.add (aeAt s k 2) (s.fenv "vp_target")) (s.ienv "vp_row") (s.ienv "vp_col")
        (s.fenv "vp_elev") (s.fenv "ew_res") (s.fenv "ns_res"), Fl.nan, Fl.nan, Fl.nan, Fl.nan], s.shp, s.ext, .run⟩
    fuel n sh key Fl.nan (gradCellF (rctAt s k 0) (rctAt s k 1) (Fl.add (aeAt s k 2) (s.fenv "vp_target")) (s.ienv "vp_row") (s.ienv "vp_col")
        (s.fenv "vp_elev") (s.fenv "ew_res") (s.fenv "ns_res")) Fl.nan Fl.nan Fl.nan Fl.nan top rfl ⟨hv.shpV, hv.shpN, by simpa [setS_apply] using hv.lenV, hv.lenN, hv.pos⟩ hL hN
    (q_rt.trans hroot) (by simpa [setS_apply] using hS) (by simpa [setS_apply] using hin) hfuel inv.shN (by simp [setS_apply])
    shI lenI htop htn
  simp only [setS_apply] at c9 c11 c12 c13 c14 c15
  refine ⟨s', sh', d, e1, c1, c2, c3, c4, c5, c6, c7, c8, ?_, c10, ?_, ?_, c12 _ (by decide) (by decide), c13, ?_, ?_⟩
  · simpa [setS_apply] using c9
  · rw [c11 _ (by decide)]; simp
  · rw [c11 _ (by decide)]; simp
  · intro v hv hne; exact (c14 v hv hne).trans (p6 v hv)
  · intro v hv; exact (c15 v hv).trans (p7 v hv)
end XrsVerif.ILSw
