import XrsVerif.Model.Effects
/-
  Proofs/Effects -- the refinement behind C11: a call whose summary passes `noStale W` observes the same
  values from any library state reachable through calls that write only inside `W`.
  Invariant `InvE` (what every reachable state satisfies) and relation `Rel` (two runs of the same
  call, one after a history and one in a fresh interpreter).  Core Lean only.
-/
set_option linter.unusedVariables false
namespace XrsVerif.Effects
variable {A V R : Type}

/-- a dispatcher whose compiled code can safely be reused: it captures only cells nobody writes -/
def goodDisp (W : List Cell) (d : Disp) : Bool :=
  d.caps.all fun
    | .cell c => !W.contains c
    | .arg _ => false

/-- every reachable library state: cells outside `W` still hold their initial value, and every
    reusable-and-good dispatcher froze exactly the initial values -/
structure InvE (W : List Cell) (c0 : Cell → V) (e : Env V) : Prop where
  cells_eq : ∀ c, W.contains c = false → e.cells c = c0 c
  disp_ok : ∀ d k vs, e.disp d k = some vs → goodDisp W d = true →
    ∀ f : String → V, vs = d.caps.map (capVal f c0)

theorem good_caps (W : List Cell) (c0 cells : Cell → V) (d : Disp) (hg : goodDisp W d = true)
    (hc : ∀ c, W.contains c = false → cells c = c0 c) (f f' : String → V) :
    d.caps.map (capVal f cells) = d.caps.map (capVal f' c0) := by
  apply List.map_congr_left
  intro cap hcap
  have h := (List.all_eq_true.mp hg) cap hcap
  cases cap with
  | arg n => simp at h
  | cell c =>
    simp only [Bool.not_eq_true'] at h
    simp only [capVal]
    exact hc c h

theorem upd_other (f : Cell → V) (c k : Cell) (v : V) (h : k ≠ c) : upd f c v k = f k := by
  simp [upd, h]

theorem upd_same (f : Cell → V) (c : Cell) (v : V) : upd f c v c = v := by
  simp [upd]

theorem ne_of_contains (W : List Cell) (c k : Cell) (hc : W.contains c = true)
    (hk : W.contains k = false) : k ≠ c := by
  intro h; subst h; rw [hc] at hk; cases hk

theorem atom_inv (W : List Cell) (c0 : Cell → V) (sem : Sem A V R) (args : A) (a : Atom) (e : Env V)
    (ha : atomConf W a = true) (hi : InvE W c0 e) : InvE W c0 (execAtom sem args a e) := by
  cases a with
  | seed c =>
    refine ⟨fun k hk => ?_, hi.disp_ok⟩
    simp only [execAtom]
    rw [upd_other _ _ _ _ (ne_of_contains W c k ha hk)]; exact hi.cells_eq k hk
  | read c => exact ⟨hi.cells_eq, hi.disp_ok⟩
  | draw c =>
    refine ⟨fun k hk => ?_, hi.disp_ok⟩
    simp only [execAtom]
    rw [upd_other _ _ _ _ (ne_of_contains W c k ha hk)]; exact hi.cells_eq k hk
  | mutate c =>
    refine ⟨fun k hk => ?_, hi.disp_ok⟩
    simp only [execAtom]
    rw [upd_other _ _ _ _ (ne_of_contains W c k ha hk)]; exact hi.cells_eq k hk
  | jit d =>
    simp only [execAtom]
    split
    · split
      · exact ⟨hi.cells_eq, hi.disp_ok⟩
      · refine ⟨hi.cells_eq, ?_⟩
        intro d' k' vs hvs hg f
        simp only [updDisp] at hvs
        split at hvs
        · rename_i hdk
          injection hvs with hvs
          subst hvs
          rw [hdk.1] at hg ⊢
          exact good_caps W c0 e.cells d hg hi.cells_eq _ f
        · exact hi.disp_ok d' k' vs hvs hg f
    · exact ⟨hi.cells_eq, hi.disp_ok⟩

theorem iter_pres {α} (P : α → Prop) (f : α → α) (hf : ∀ x, P x → P (f x)) :
    ∀ n x, P x → P (iter f n x)
  | 0, x, h => h
  | n + 1, x, h => iter_pres P f hf n (f x) (hf x h)

theorem exec_inv (W : List Cell) (c0 : Cell → V) (sem : Sem A V R) (args : A) :
    ∀ (p : Prog) (e : Env V), confined W p = true → InvE W c0 e → InvE W c0 (exec sem args p e) := by
  intro p
  induction p with
  | nil => intro e _ hi; exact hi
  | op a rest ih =>
    intro e hc hi
    simp only [confined, Bool.and_eq_true] at hc
    exact ih _ hc.2 (atom_inv W c0 sem args a e hc.1 hi)
  | block body rest ihb ihr =>
    intro e hc hi
    simp only [confined, Bool.and_eq_true] at hc
    exact ihr _ hc.2 (iter_pres (InvE W c0) _ (fun x hx => ihb x hc.1 hx) _ e hi)

/-- two runs of the same call: `S` = cells both runs have overwritten identically -/
structure Rel (W S : List Cell) (c0 : Cell → V) (e e' : Env V) : Prop where
  inv : InvE W c0 e
  inv' : InvE W c0 e'
  agree : ∀ c, S.contains c = true → e.cells c = e'.cells c
  trace : e.trace = e'.trace

theorem capOk_conf (W S : List Cell) (a : Atom) (h : atomOk W S a = true) : atomConf W a = true := by
  cases a <;> simp_all [atomOk, atomConf]

theorem noStale_confined (W : List Cell) : ∀ (p : Prog) (S : List Cell), noStale W S p = true → confined W p = true := by
  intro p
  induction p with
  | nil => intro _ _; rfl
  | op a rest ih =>
    intro S h
    simp only [noStale, Bool.and_eq_true] at h
    simp only [confined, Bool.and_eq_true]
    exact ⟨capOk_conf W S a h.1, ih _ h.2⟩
  | block body rest ihb ihr =>
    intro S h
    simp only [noStale, Bool.and_eq_true] at h
    simp only [confined, Bool.and_eq_true]
    exact ⟨ihb _ h.1, ihr _ h.2⟩

theorem Rel.weaken {W S S' : List Cell} {c0 : Cell → V} {e e' : Env V} (h : Rel W S' c0 e e')
    (hs : ∀ c, S.contains c = true → S'.contains c = true) : Rel W S c0 e e' :=
  ⟨h.inv, h.inv', fun c hc => h.agree c (hs c hc), h.trace⟩

theorem seeds_mono (S : List Cell) (a : Atom) (c : Cell) (h : S.contains c = true) :
    (seeds S a).contains c = true := by
  cases a <;> simp_all [seeds]

/-- the value a run observes in cell `c` is the same in both runs when `c` is outside `W` or in `S` -/
theorem Rel.cell_eq {W S : List Cell} {c0 : Cell → V} {e e' : Env V} (h : Rel W S c0 e e') (c : Cell)
    (hc : (!W.contains c || S.contains c) = true) : e.cells c = e'.cells c := by
  simp only [Bool.or_eq_true, Bool.not_eq_true'] at hc
  cases hc with
  | inl hw => rw [h.inv.cells_eq c hw, h.inv'.cells_eq c hw]
  | inr hs => exact h.agree c hs

/-- what the compiled code of `d` sees of its captured variables -/
def jitObs (sem : Sem A V R) (args : A) (d : Disp) (e : Env V) : List V :=
  if d.reuses then
    match e.disp d (sem.sig args d) with
    | some frozen => frozen
    | none => d.caps.map (capVal (sem.capArg args) e.cells)
  else d.caps.map (capVal (sem.capArg args) e.cells)

theorem jit_trace (sem : Sem A V R) (args : A) (d : Disp) (e : Env V) :
    (execAtom sem args (.jit d) e).trace = e.trace ++ jitObs sem args d e := by
  simp only [execAtom, jitObs]
  cases hr : d.reuses
  · simp
  · cases hd : e.disp d (sem.sig args d) <;> simp

theorem atom_rel (W S : List Cell) (c0 : Cell → V) (sem : Sem A V R) (args : A) (a : Atom) (e e' : Env V)
    (ha : atomOk W S a = true) (h : Rel W S c0 e e') :
    Rel W (seeds S a) c0 (execAtom sem args a e) (execAtom sem args a e') := by
  have hi := atom_inv W c0 sem args a e (capOk_conf W S a ha) h.inv
  have hi' := atom_inv W c0 sem args a e' (capOk_conf W S a ha) h.inv'
  refine ⟨hi, hi', ?_, ?_⟩
  · -- agreement on the overwritten cells
    cases a with
    | seed c =>
      intro k hk
      simp only [execAtom, h.trace]
      by_cases hkc : k = c
      · subst hkc; simp [upd]
      · rw [upd_other _ _ _ _ hkc, upd_other _ _ _ _ hkc]
        apply h.agree
        simpa [seeds, hkc] using hk
    | read c => intro k hk; exact h.agree k hk
    | draw c =>
      intro k hk
      simp only [atomOk, Bool.and_eq_true] at ha
      simp only [execAtom]
      by_cases hkc : k = c
      · subst hkc; simp only [upd_same]; rw [h.agree k ha.2]
      · rw [upd_other _ _ _ _ hkc, upd_other _ _ _ _ hkc]; exact h.agree k hk
    | mutate c =>
      intro k hk
      simp only [execAtom, h.trace]
      by_cases hkc : k = c
      · subst hkc; simp only [upd_same]; rw [h.agree k hk]
      · rw [upd_other _ _ _ _ hkc, upd_other _ _ _ _ hkc]; exact h.agree k hk
    | jit d =>
      intro k hk
      have hk' : S.contains k = true := hk
      have := h.agree k hk'
      simp only [execAtom]
      split <;> (try split) <;> (try split) <;> exact this
  · -- the observations
    cases a with
    | seed c => exact h.trace
    | read c =>
      simp only [execAtom, h.trace]
      rw [h.cell_eq c ha]
    | draw c =>
      simp only [atomOk, Bool.and_eq_true] at ha
      simp only [execAtom, h.trace]
      rw [h.agree c ha.2]
    | mutate c => exact h.trace
    | jit d =>
      simp only [atomOk] at ha
      rw [jit_trace, jit_trace, h.trace]
      congr 1
      simp only [jitObs]
      by_cases hr : d.reuses = true
      · -- compiled code may be reused: it captured only cells nobody writes
        have hg : goodDisp W d = true := by
          apply List.all_eq_true.mpr
          intro cap hcap
          have := (List.all_eq_true.mp ha) cap hcap
          cases cap with
          | arg n => simp [capOk, hr] at this
          | cell c => simpa [capOk, hr] using this
        have hobs : ∀ (x : Env V), InvE W c0 x →
            (match x.disp d (sem.sig args d) with
              | some frozen => frozen
              | none => d.caps.map (capVal (sem.capArg args) x.cells)) =
            d.caps.map (capVal (sem.capArg args) c0) := by
          intro x hx
          split
          · rename_i frozen hf
            exact hx.disp_ok d _ frozen hf hg _
          · exact good_caps W c0 x.cells d hg hx.cells_eq _ _
        simp only [hr, if_true]
        rw [hobs e h.inv, hobs e' h.inv']
      · -- a dispatcher created by this very call sees the current values
        have hr' : d.reuses = false := by simpa using hr
        simp only [hr', Bool.false_eq_true, if_false]
        apply List.map_congr_left
        intro cap hcap
        have := (List.all_eq_true.mp ha) cap hcap
        cases cap with
        | arg n => rfl
        | cell c =>
          simp only [capVal]
          apply h.cell_eq c
          simpa [capOk, hr'] using this

theorem exec_rel (W : List Cell) (c0 : Cell → V) (sem : Sem A V R) (args : A) :
    ∀ (p : Prog) (S : List Cell) (e e' : Env V), noStale W S p = true → Rel W S c0 e e' →
      Rel W S c0 (exec sem args p e) (exec sem args p e') := by
  intro p
  induction p with
  | nil => intro S e e' _ h; exact h
  | op a rest ih =>
    intro S e e' hn h
    simp only [noStale, Bool.and_eq_true] at hn
    exact (ih _ _ _ hn.2 (atom_rel W S c0 sem args a e e' hn.1 h)).weaken (seeds_mono S a)
  | block body rest ihb ihr =>
    intro S e e' hn h
    simp only [noStale, Bool.and_eq_true] at hn
    simp only [exec]
    apply ihr _ _ _ hn.2
    rw [h.trace]
    generalize sem.iters args e'.trace = n
    induction n generalizing e e' with
    | zero => exact h
    | succ n ihn => exact ihn _ _ (ihb _ _ _ hn.1 h)

theorem step_inv (W : List Cell) (c0 : Cell → V) (s : Lib V) (c : Call A V R)
    (hc : confined W c.prog = true) (hi : InvE W c0 ⟨s.cells, s.disp, []⟩) :
    InvE W c0 ⟨(step s c).1.cells, (step s c).1.disp, []⟩ := by
  have := exec_inv W c0 c.sem c.args c.prog ⟨s.cells, s.disp, []⟩ hc hi
  exact ⟨this.cells_eq, this.disp_ok⟩

theorem runHist_inv (W : List Cell) (c0 : Cell → V) (h : List (Call A V R)) :
    ∀ (s : Lib V), (∀ p ∈ h, confined W p.prog = true) → InvE W c0 ⟨s.cells, s.disp, []⟩ →
      InvE W c0 ⟨(runHist s h).cells, (runHist s h).disp, []⟩ := by
  induction h with
  | nil => intro s _ hi; exact hi
  | cons p ps ih =>
    intro s hh hi
    simp only [runHist, List.foldl_cons]
    exact ih _ (fun q hq => hh q (List.mem_cons_of_mem _ hq))
      (step_inv W c0 s p (hh p (List.mem_cons_self)) hi)

theorem fresh_inv (W : List Cell) (cells : Cell → V) :
    InvE W cells ⟨(Lib.fresh cells).cells, (Lib.fresh cells).disp, []⟩ :=
  ⟨fun _ _ => rfl, fun _ _ _ h => by simp [Lib.fresh] at h⟩

/-- the refinement: from two states satisfying the invariant, a `noStale` call yields the same result -/
theorem step_result_eq (W : List Cell) (c0 : Cell → V) (s s' : Lib V) (c : Call A V R)
    (hc : noStale W [] c.prog = true)
    (hi : InvE W c0 ⟨s.cells, s.disp, []⟩) (hi' : InvE W c0 ⟨s'.cells, s'.disp, []⟩) :
    (step s c).2 = (step s' c).2 := by
  have hr : Rel W [] c0 (⟨s.cells, s.disp, []⟩ : Env V) ⟨s'.cells, s'.disp, []⟩ :=
    ⟨hi, hi', fun c h => by simp at h, rfl⟩
  have := exec_rel W c0 c.sem c.args c.prog [] _ _ hc hr
  simp only [step, this.trace]

end XrsVerif.Effects
