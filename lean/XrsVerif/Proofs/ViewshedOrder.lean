import XrsVerif.Proofs.ViewshedEvents
import Mathlib.Tactic.Ring
import Mathlib.Tactic.Linarith
/-
  C05 -- the event order of the sweep (Model/ViewshedEvents.lean: `evLe`, `sortedEvents`) is a total preorder; within a
  cell ENTER < CENTER < EXIT in that order, except on the east ray where CENTER (bearing 0) < EXIT < ENTER.
-/
set_option linter.unusedTactic false
set_option linter.unreachableTactic false
namespace XrsVerif.ViewshedEvents

/-- the half-open upper half plane: bearings in [0, π) -/
def UH (x y : Int) : Prop := 0 < y ∨ (y = 0 ∧ 0 < x)

theorem half_zero_iff (x y : Int) : half x y = 0 ↔ UH x y := by
  unfold half UH
  by_cases h : 0 < y ∨ (y = 0 ∧ 0 < x)
  · simp [h]
  · simp only [h, if_false, iff_false]
    split <;> omega

theorem half_one_iff (x y : Int) : half x y = 1 ↔ UH (-x) (-y) := by
  unfold half UH
  by_cases h : 0 < y ∨ (y = 0 ∧ 0 < x)
  · simp only [h, if_true]
    constructor
    · intro h'; omega
    · intro h'; omega
  · simp only [h, if_false]
    by_cases h2 : y < 0 ∨ (y = 0 ∧ x < 0)
    · simp only [h2, if_true, true_iff]; omega
    · simp only [h2, if_false]
      constructor
      · intro h'; omega
      · intro h'; omega

theorem half_two_iff (x y : Int) : half x y = 2 ↔ (x = 0 ∧ y = 0) := by
  unfold half
  by_cases h : 0 < y ∨ (y = 0 ∧ 0 < x)
  · rw [if_pos h]; constructor <;> intro h' <;> omega
  · rw [if_neg h]
    by_cases h2 : y < 0 ∨ (y = 0 ∧ x < 0)
    · rw [if_pos h2]; constructor <;> intro h' <;> omega
    · rw [if_neg h2]; constructor <;> intro h' <;> omega

theorem half_cases (x y : Int) : half x y = 0 ∨ half x y = 1 ∨ half x y = 2 := by
  unfold half; split <;> [skip; split] <;> simp

theorem cross_neg (a b c d : Int) : cross (-a) (-b) (-c) (-d) = cross a b c d := by unfold cross; ring
theorem cross_antisymm (a b c d : Int) : cross c d a b = -cross a b c d := by unfold cross; ring
theorem cross_self (a b : Int) : cross a b a b = 0 := by unfold cross; ring

/-- the y-component of `cross(p,q) r + cross(q,r) p + cross(r,p) q = 0` -/
theorem cross_identity (px py qx qy rx ry : Int) :
    qy * cross px py rx ry = ry * cross px py qx qy + py * cross qx qy rx ry := by unfold cross; ring

theorem cross_identity_x (px py qx qy rx ry : Int) :
    qx * cross px py rx ry = rx * cross px py qx qy + px * cross qx qy rx ry := by unfold cross; ring

/-- on the upper half plane "counter-clockwise or parallel" is transitive -/
theorem UH_trans_le {px py qx qy rx ry : Int} (hp : UH px py) (hq : UH qx qy) (hr : UH rx ry)
    (h1 : 0 ≤ cross px py qx qy) (h2 : 0 ≤ cross qx qy rx ry) : 0 ≤ cross px py rx ry := by
  have id := cross_identity px py qx qy rx ry
  rcases hq with hq | ⟨hq0, hqx⟩
  · -- qy > 0
    have hry : 0 ≤ ry := by rcases hr with h | ⟨h, _⟩ <;> omega
    have hpy : 0 ≤ py := by rcases hp with h | ⟨h, _⟩ <;> omega
    have : 0 ≤ qy * cross px py rx ry := by rw [id]; exact add_nonneg (mul_nonneg hry h1) (mul_nonneg hpy h2)
    by_contra hneg
    have : qy * cross px py rx ry < 0 := mul_neg_of_pos_of_neg hq (by omega)
    omega
  · -- q on the positive x axis
    subst hq0
    have c1 : cross px py qx 0 = -(py * qx) := by unfold cross; ring
    have hpy : 0 ≤ py := by rcases hp with h | ⟨h, _⟩ <;> omega
    have : py * qx ≤ 0 := by rw [c1] at h1; omega
    have hpy0 : py = 0 := by
      by_contra hne
      have : 0 < py * qx := mul_pos (by omega) hqx
      omega
    subst hpy0
    have hpx : 0 < px := by rcases hp with h | ⟨_, h⟩ <;> omega
    have hry : 0 ≤ ry := by rcases hr with h | ⟨h, _⟩ <;> omega
    have : cross px 0 rx ry = px * ry := by unfold cross; ring
    rw [this]; exact mul_nonneg (by omega) hry

theorem UH_cross_pos_right {px py qx qy : Int} (hp : UH px py) (hq : UH qx qy) (h : 0 < cross px py qx qy) : 0 < qy := by
  rcases hq with hq | ⟨hq0, hqx⟩
  · exact hq
  · subst hq0
    have c1 : cross px py qx 0 = -(py * qx) := by unfold cross; ring
    have hpy : 0 ≤ py := by rcases hp with h | ⟨h, _⟩ <;> omega
    have : 0 ≤ py * qx := mul_nonneg hpy (by omega)
    rw [c1] at h; omega

theorem UH_trans_lt_le {px py qx qy rx ry : Int} (hp : UH px py) (hq : UH qx qy) (hr : UH rx ry)
    (h1 : 0 < cross px py qx qy) (h2 : 0 ≤ cross qx qy rx ry) : 0 < cross px py rx ry := by
  have id := cross_identity px py qx qy rx ry
  have hqy := UH_cross_pos_right hp hq h1
  have hpy : 0 ≤ py := by rcases hp with h | ⟨h, _⟩ <;> omega
  rcases hr with hr | ⟨hr0, hrx⟩
  · have : 0 < qy * cross px py rx ry := by
      rw [id]; exact add_pos_of_pos_of_nonneg (mul_pos hr h1) (mul_nonneg hpy h2)
    by_contra hneg
    have : qy * cross px py rx ry ≤ 0 := mul_nonpos_of_nonneg_of_nonpos (by omega) (by omega)
    omega
  · subst hr0
    have c1 : cross qx qy rx 0 = -(qy * rx) := by unfold cross; ring
    have : 0 < qy * rx := mul_pos hqy hrx
    rw [c1] at h2; omega

theorem UH_trans_le_lt {px py qx qy rx ry : Int} (hp : UH px py) (hq : UH qx qy) (hr : UH rx ry)
    (h1 : 0 ≤ cross px py qx qy) (h2 : 0 < cross qx qy rx ry) : 0 < cross px py rx ry := by
  -- mirror: reflect in the y axis direction by swapping roles: cross(r', q') etc.  Direct proof instead.
  have id := cross_identity px py qx qy rx ry
  have hry := UH_cross_pos_right hq hr h2
  have hpy : 0 ≤ py := by rcases hp with h | ⟨h, _⟩ <;> omega
  rcases hq with hq | ⟨hq0, hqx⟩
  · rcases Int.lt_or_eq_of_le h1 with h1 | h1
    · have : 0 < qy * cross px py rx ry := by
        rw [id]; exact add_pos_of_pos_of_nonneg (mul_pos hry h1) (mul_nonneg hpy (by omega))
      by_contra hneg
      have : qy * cross px py rx ry ≤ 0 := mul_nonpos_of_nonneg_of_nonpos (by omega) (by omega)
      omega
    · -- p parallel to q, both in UH, qy > 0: then py > 0
      have hpy' : 0 < py := by
        by_contra hne
        have hpy0 : py = 0 := by omega
        subst hpy0
        have hpx : 0 < px := by rcases hp with h | ⟨_, h⟩ <;> omega
        have c1 : cross px 0 qx qy = px * qy := by unfold cross; ring
        have : 0 < px * qy := mul_pos hpx hq
        rw [c1] at h1; omega
      have : 0 < qy * cross px py rx ry := by
        rw [id, ← h1]; simp only [mul_zero, zero_add]; exact mul_pos hpy' h2
      by_contra hneg
      have : qy * cross px py rx ry ≤ 0 := mul_nonpos_of_nonneg_of_nonpos (by omega) (by omega)
      omega
  · subst hq0
    have c1 : cross px py qx 0 = -(py * qx) := by unfold cross; ring
    have hpy0 : py = 0 := by
      by_contra hne
      have : 0 < py * qx := mul_pos (by omega) hqx
      rw [c1] at h1; omega
    subst hpy0
    have hpx : 0 < px := by rcases hp with h | ⟨_, h⟩ <;> omega
    have : cross px 0 rx ry = px * ry := by unfold cross; ring
    rw [this]; exact mul_pos hpx hry

/-! ### the same within any one class of `half` -/

theorem same_half_trans_le {px py qx qy rx ry : Int} (h1 : half px py = half qx qy) (h2 : half qx qy = half rx ry)
    (c1 : 0 ≤ cross px py qx qy) (c2 : 0 ≤ cross qx qy rx ry) : 0 ≤ cross px py rx ry := by
  rcases half_cases qx qy with hq | hq | hq
  · exact UH_trans_le ((half_zero_iff _ _).mp (h1.trans hq)) ((half_zero_iff _ _).mp hq)
      ((half_zero_iff _ _).mp (h2.symm.trans hq)) c1 c2
  · have := UH_trans_le ((half_one_iff _ _).mp (h1.trans hq)) ((half_one_iff _ _).mp hq)
      ((half_one_iff _ _).mp (h2.symm.trans hq)) (by rw [cross_neg]; exact c1) (by rw [cross_neg]; exact c2)
    rwa [cross_neg] at this
  · obtain ⟨rfl, rfl⟩ := (half_two_iff _ _).mp (h1.trans hq)
    simp [cross]

theorem same_half_trans_lt_le {px py qx qy rx ry : Int} (h1 : half px py = half qx qy) (h2 : half qx qy = half rx ry)
    (c1 : 0 < cross px py qx qy) (c2 : 0 ≤ cross qx qy rx ry) : 0 < cross px py rx ry := by
  rcases half_cases qx qy with hq | hq | hq
  · exact UH_trans_lt_le ((half_zero_iff _ _).mp (h1.trans hq)) ((half_zero_iff _ _).mp hq)
      ((half_zero_iff _ _).mp (h2.symm.trans hq)) c1 c2
  · have := UH_trans_lt_le ((half_one_iff _ _).mp (h1.trans hq)) ((half_one_iff _ _).mp hq)
      ((half_one_iff _ _).mp (h2.symm.trans hq)) (by rw [cross_neg]; exact c1) (by rw [cross_neg]; exact c2)
    rwa [cross_neg] at this
  · obtain ⟨rfl, rfl⟩ := (half_two_iff _ _).mp hq
    simp [cross] at c1

theorem same_half_trans_le_lt {px py qx qy rx ry : Int} (h1 : half px py = half qx qy) (h2 : half qx qy = half rx ry)
    (c1 : 0 ≤ cross px py qx qy) (c2 : 0 < cross qx qy rx ry) : 0 < cross px py rx ry := by
  rcases half_cases qx qy with hq | hq | hq
  · exact UH_trans_le_lt ((half_zero_iff _ _).mp (h1.trans hq)) ((half_zero_iff _ _).mp hq)
      ((half_zero_iff _ _).mp (h2.symm.trans hq)) c1 c2
  · have := UH_trans_le_lt ((half_one_iff _ _).mp (h1.trans hq)) ((half_one_iff _ _).mp hq)
      ((half_one_iff _ _).mp (h2.symm.trans hq)) (by rw [cross_neg]; exact c1) (by rw [cross_neg]; exact c2)
    rwa [cross_neg] at this
  · obtain ⟨rfl, rfl⟩ := (half_two_iff _ _).mp hq
    simp [cross] at c2

theorem same_half_trans_eq {px py qx qy rx ry : Int} (h1 : half px py = half qx qy) (h2 : half qx qy = half rx ry)
    (c1 : cross px py qx qy = 0) (c2 : cross qx qy rx ry = 0) : cross px py rx ry = 0 := by
  have a := same_half_trans_le h1 h2 (by omega) (by omega)
  have b := same_half_trans_le (px := rx) (py := ry) (qx := qx) (qy := qy) (rx := px) (ry := py) h2.symm h1.symm
    (by rw [cross_antisymm]; omega) (by rw [cross_antisymm]; omega)
  rw [cross_antisymm] at b
  omega

/-! ### `evLe` is a total preorder -/

/-- `evLe` spelled out -/
theorem evLe_iff (vr vc : Int) (a b : Event) :
    evLe vr vc a b = true ↔
      half (a.px vc) (a.py vr) < half (b.px vc) (b.py vr) ∨
      (half (a.px vc) (a.py vr) = half (b.px vc) (b.py vr) ∧
        (0 < cross (a.px vc) (a.py vr) (b.px vc) (b.py vr) ∨
         (cross (a.px vc) (a.py vr) (b.px vc) (b.py vr) = 0 ∧ a.ty ≤ b.ty))) := by
  simp only [evLe, angLt, angEq, Bool.or_eq_true, Bool.and_eq_true, decide_eq_true_eq]
  tauto

theorem evLe_trans (vr vc : Int) (a b c : Event) (h1 : evLe vr vc a b = true) (h2 : evLe vr vc b c = true) :
    evLe vr vc a c = true := by
  rw [evLe_iff] at h1 h2 ⊢
  rcases h1 with h1 | ⟨e1, h1⟩
  · rcases h2 with h2 | ⟨e2, _⟩
    · left; omega
    · left; omega
  · rcases h2 with h2 | ⟨e2, h2⟩
    · left; omega
    · right
      refine ⟨e1.trans e2, ?_⟩
      rcases h1 with h1 | ⟨h1, t1⟩
      · left
        rcases h2 with h2 | ⟨h2, _⟩
        · exact same_half_trans_lt_le e1 e2 h1 (by omega)
        · exact same_half_trans_lt_le e1 e2 h1 (by omega)
      · rcases h2 with h2 | ⟨h2, t2⟩
        · left; exact same_half_trans_le_lt e1 e2 (by omega) h2
        · right; exact ⟨same_half_trans_eq e1 e2 h1 h2, by omega⟩

theorem evLe_total (vr vc : Int) (a b : Event) : (evLe vr vc a b || evLe vr vc b a) = true := by
  rw [Bool.or_eq_true, evLe_iff, evLe_iff]
  have anti := cross_antisymm (a.px vc) (a.py vr) (b.px vc) (b.py vr)
  rcases Int.lt_trichotomy (half (a.px vc) (a.py vr)) (half (b.px vc) (b.py vr)) with h | h | h
  · left; left; exact h
  · rcases Int.lt_trichotomy (cross (a.px vc) (a.py vr) (b.px vc) (b.py vr)) 0 with c | c | c
    · right; right; exact ⟨h.symm, Or.inl (by omega)⟩
    · rcases Int.le_total a.ty b.ty with t | t
      · left; right; exact ⟨h, Or.inr ⟨c, t⟩⟩
      · right; right; exact ⟨h.symm, Or.inr ⟨by omega, t⟩⟩
    · left; right; exact ⟨h, Or.inl c⟩
  · right; left; exact h

/-- the sorted event list is sorted ... -/
theorem sortedEvents_pairwise (T : Int → Int → Rat) (h w : Nat) (vr vc : Int) :
    (sortedEvents T h w vr vc).Pairwise (fun a b => evLe vr vc a b = true) :=
  List.pairwise_mergeSort (evLe_trans vr vc) (evLe_total vr vc) _

/-- ... and a permutation of the generated one -/
theorem sortedEvents_perm (T : Int → Int → Rat) (h w : Nat) (vr vc : Int) :
    (sortedEvents T h w vr vc).Perm (eventList T h w vr vc) := List.mergeSort_perm _ _

/-! ### the order within one cell -/

/-- strictly smaller bearing -/
def slt (px py qx qy : Int) : Prop :=
  half px py < half qx qy ∨ (half px py = half qx qy ∧ 0 < cross px py qx qy)

theorem slt_UH {px py qx qy : Int} (hp : UH px py) (hq : UH qx qy) (hc : 0 < cross px py qx qy) : slt px py qx qy :=
  Or.inr ⟨by rw [(half_zero_iff _ _).mpr hp, (half_zero_iff _ _).mpr hq], hc⟩

theorem slt_LH {px py qx qy : Int} (hp : UH (-px) (-py)) (hq : UH (-qx) (-qy)) (hc : 0 < cross px py qx qy) :
    slt px py qx qy :=
  Or.inr ⟨by rw [(half_one_iff _ _).mpr hp, (half_one_iff _ _).mpr hq], hc⟩

theorem slt_UL {px py qx qy : Int} (hp : UH px py) (hq : UH (-qx) (-qy)) : slt px py qx qy :=
  Or.inl (by rw [(half_zero_iff _ _).mpr hp, (half_one_iff _ _).mpr hq]; decide)

/-- a strictly smaller bearing puts an event strictly first, whatever the types -/
theorem evLe_of_slt (vr vc : Int) (a b : Event) (h : slt (a.px vc) (a.py vr) (b.px vc) (b.py vr)) :
    evLe vr vc a b = true ∧ evLe vr vc b a = false := by
  constructor
  · rw [evLe_iff]
    rcases h with h | ⟨h, c⟩
    · exact Or.inl h
    · exact Or.inr ⟨h, Or.inl c⟩
  · rw [Bool.eq_false_iff, Ne, evLe_iff]
    have anti := cross_antisymm (a.px vc) (a.py vr) (b.px vc) (b.py vr)
    rcases h with h | ⟨h, c⟩
    · rintro (h' | ⟨h', _⟩) <;> omega
    · rintro (h' | ⟨_, h' | ⟨h', _⟩⟩) <;> omega

/-- **ENTER, CENTER, EXIT of one cell in bearing order**: entering corner < centre < exiting corner in [0, 2π) for every
    cell that is not on the east ray; for a cell on the east ray the centre has bearing 0 and the order is
    centre < exiting corner (just above 0) < entering corner (just below 2π) -/
theorem cell_bearing_order (dr dc : Int) (hne : dr ≠ 0 ∨ dc ≠ 0) :
    let ex := 2 * dc + (posOff 1 dr dc).2
    let ey := -(2 * dr + (posOff 1 dr dc).1)
    let cx := 2 * dc + (posOff 0 dr dc).2
    let cy := -(2 * dr + (posOff 0 dr dc).1)
    let xx := 2 * dc + (posOff (-1) dr dc).2
    let xy := -(2 * dr + (posOff (-1) dr dc).1)
    if dr = 0 ∧ 0 < dc then slt cx cy xx xy ∧ slt xx xy ex ey ∧ slt cx cy ex ey
    else slt ex ey cx cy ∧ slt cx cy xx xy ∧ slt ex ey xx xy := by
  intro ex ey cx cy xx xy
  rcases posOff_cases dr dc with ⟨hr, hc, e1, e2⟩ | ⟨hr, hc, e1, e2⟩ | ⟨hr, hc, e1, e2⟩ | ⟨hr, hc, e1, e2⟩ |
      ⟨hr, hc, e1, e2⟩ | ⟨hr, hc, e1, e2⟩ | ⟨hr, hc, e1, e2⟩ | ⟨hr, hc, e1, e2⟩ | ⟨hr, hc, e1, e2⟩ <;>
  first
  | (exfalso; omega)
  | (simp only [ex, ey, cx, cy, xx, xy, e1, e2, posOff_centre]
     first
     | (rw [if_pos (by omega)]
        refine ⟨?_, ?_, ?_⟩ <;>
        first
        | exact slt_UH (by unfold UH; omega) (by unfold UH; omega) (by rw [cross_corner_corner]; omega)
        | exact slt_LH (by unfold UH; omega) (by unfold UH; omega) (by rw [cross_corner_corner]; omega)
        | exact slt_UL (by unfold UH; omega) (by unfold UH; omega))
     | (rw [if_neg (by omega)]
        refine ⟨?_, ?_, ?_⟩ <;>
        first
        | exact slt_UH (by unfold UH; omega) (by unfold UH; omega) (by rw [cross_corner_corner]; omega)
        | exact slt_LH (by unfold UH; omega) (by unfold UH; omega) (by rw [cross_corner_corner]; omega)
        | exact slt_UL (by unfold UH; omega) (by unfold UH; omega)))

theorem mkEvent_px (T : Int → Int → Rat) (h w vr vc row col ty : Int) :
    (mkEvent T h w vr vc row col ty).px vc = 2 * (col - vc) + (posOff ty (row - vr) (col - vc)).2 := by
  simp only [mkEvent, Event.px]; ring

theorem mkEvent_py (T : Int → Int → Rat) (h w vr vc row col ty : Int) :
    (mkEvent T h w vr vc row col ty).py vr = -(2 * (row - vr) + (posOff ty (row - vr) (col - vc)).1) := by
  simp only [mkEvent, Event.py]; ring

/-- the events of one cell, strictly ordered -/
theorem cell_events_strict (T : Int → Int → Rat) (h w vr vc r c : Int) (hne : r ≠ vr ∨ c ≠ vc) :
    let E := mkEvent T h w vr vc r c 1
    let C := mkEvent T h w vr vc r c 0
    let X := mkEvent T h w vr vc r c (-1)
    if r = vr ∧ vc < c then
      (evLe vr vc C X = true ∧ evLe vr vc X C = false) ∧ (evLe vr vc X E = true ∧ evLe vr vc E X = false) ∧
      (evLe vr vc C E = true ∧ evLe vr vc E C = false)
    else
      (evLe vr vc E C = true ∧ evLe vr vc C E = false) ∧ (evLe vr vc C X = true ∧ evLe vr vc X C = false) ∧
      (evLe vr vc E X = true ∧ evLe vr vc X E = false) := by
  intro E C X
  have key := cell_bearing_order (r - vr) (c - vc) (by omega)
  simp only at key
  by_cases he : r = vr ∧ vc < c
  · rw [if_pos he]
    rw [if_pos (by omega)] at key
    obtain ⟨k1, k2, k3⟩ := key
    refine ⟨evLe_of_slt vr vc C X ?_, evLe_of_slt vr vc X E ?_, evLe_of_slt vr vc C E ?_⟩ <;>
      simp only [E, C, X, mkEvent_px, mkEvent_py] <;> assumption
  · rw [if_neg he]
    rw [if_neg (by omega)] at key
    obtain ⟨k1, k2, k3⟩ := key
    refine ⟨evLe_of_slt vr vc E C ?_, evLe_of_slt vr vc C X ?_, evLe_of_slt vr vc E X ?_⟩ <;>
      simp only [E, C, X, mkEvent_px, mkEvent_py] <;> assumption

theorem evLe_refl (vr vc : Int) (a : Event) : evLe vr vc a a = true := by
  rw [evLe_iff]; right; exact ⟨rfl, Or.inr ⟨cross_self _ _, Int.le_refl _⟩⟩

/-- **in the sorted event list the three events of a cell appear as ENTER, CENTER, EXIT** -- except for the cells on the
    east ray, whose CENTER (bearing 0) comes first, then EXIT, and ENTER at the very end of the sweep -/
theorem sortedEvents_filter_cell (T : Int → Int → Rat) (h w : Nat) (vr vc : Int) (r c : Nat)
    (hin : r < h ∧ c < w ∧ ¬((r : Int) = vr ∧ (c : Int) = vc)) :
    (sortedEvents T h w vr vc).filter (ofCell r c) =
      if (r : Int) = vr ∧ vc < (c : Int)
      then [mkEvent T h w vr vc r c 0, mkEvent T h w vr vc r c (-1), mkEvent T h w vr vc r c 1]
      else [mkEvent T h w vr vc r c 1, mkEvent T h w vr vc r c 0, mkEvent T h w vr vc r c (-1)] := by
  have hperm : ((sortedEvents T h w vr vc).filter (ofCell r c)).Perm (cellEvents T h w vr vc r c) := by
    have := (sortedEvents_perm T h w vr vc).filter (ofCell r c)
    rwa [eventList_filter_cell, if_pos hin] at this
  have hpw : ((sortedEvents T h w vr vc).filter (ofCell r c)).Pairwise (fun a b => evLe vr vc a b = true) :=
    (sortedEvents_pairwise T h w vr vc).filter _
  have strict := cell_events_strict T h w vr vc r c (by omega)
  simp only at strict
  by_cases he : (r : Int) = vr ∧ vc < (c : Int)
  · rw [if_pos he]
    rw [if_pos he] at strict
    obtain ⟨⟨a1, a2⟩, ⟨b1, b2⟩, ⟨c1, c2⟩⟩ := strict
    refine List.Perm.eq_of_pairwise ?_ hpw ?_ (hperm.trans ?_)
    · intro a b ha hb hab hba
      have ha' := hperm.mem_iff.mp ha
      simp only [cellEvents, List.mem_cons, List.not_mem_nil, or_false] at ha' hb
      rcases ha' with rfl | rfl | rfl <;> rcases hb with rfl | rfl | rfl <;> simp_all
    · simp only [List.pairwise_cons, List.mem_cons, List.not_mem_nil, or_false, forall_eq_or_imp, forall_eq,
        List.Pairwise.nil, and_true, IsEmpty.forall_iff, implies_true]
      exact ⟨⟨a1, c1⟩, b1⟩
    · exact (List.perm_append_comm (l₁ := [mkEvent T h w vr vc r c 1])
        (l₂ := [mkEvent T h w vr vc r c 0, mkEvent T h w vr vc r c (-1)]))
  · rw [if_neg he]
    rw [if_neg he] at strict
    obtain ⟨⟨a1, a2⟩, ⟨b1, b2⟩, ⟨c1, c2⟩⟩ := strict
    refine List.Perm.eq_of_pairwise ?_ hpw ?_ hperm
    · intro a b ha hb hab hba
      have ha' := hperm.mem_iff.mp ha
      simp only [cellEvents, List.mem_cons, List.not_mem_nil, or_false] at ha' hb
      rcases ha' with rfl | rfl | rfl <;> rcases hb with rfl | rfl | rfl <;> simp_all
    · simp only [List.pairwise_cons, List.mem_cons, List.not_mem_nil, or_false, forall_eq_or_imp, forall_eq,
        List.Pairwise.nil, and_true, IsEmpty.forall_iff, implies_true]
      exact ⟨⟨a1, c1⟩, b1⟩

end XrsVerif.ViewshedEvents
