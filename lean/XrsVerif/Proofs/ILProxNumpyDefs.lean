import XrsVerif.Proofs.ILangProx
/-
  Proofs/ILProxNumpyDefs.lean -- the generated `_process._process_numpy` cut into named pieces.

  `Gen.IL.processNumpy.body` is a 470-line term: the body of `_process_proximity_line` is inlined four times
  (`.scope`, locals prefixed `_process_proximity_line<k>$`, k = 1, 3, 5, 7) and `_calc_direction` four times
  (k = 2, 4, 6, 8).  Here the same term is written with the line function as `lineBody (NL k)` (template of
  Proofs/ILangProx.lean), the direction function as `dirBody (D k)`, and one definition per loop;
  `processNumpy_is_template : Gen.IL.processNumpy.body = pnBody` is checked by `rfl`, so any edit of
  `_process_numpy`, `_process_proximity_line` or `_calc_direction` in /repo breaks it.
-/
namespace XrsVerif.IL.Px
open XrsVerif

/-! ### `_calc_direction` over a prefix -/

/-- the body of `_calc_direction` with every local prefixed by `D` -/
def dirBody (D : String) : St :=
  (.seq (.ite (.and (.cmpF .eq (.var (D ++ "x1")) (.var (D ++ "x2"))) (.cmpF .eq (.var (D ++ "y1")) (.var (D ++ "y2"))))
    (.seq (.setF (D ++ "ret0") (.ofInt (.lit 0)))
    .ret)
    .skip)
  (.seq (.setF (D ++ "x") (.bin .sub (.var (D ++ "x2")) (.var (D ++ "x1"))))
  (.seq (.setF (D ++ "y") (.bin .sub (.var (D ++ "y2")) (.var (D ++ "y1"))))
  (.seq (.setF (D ++ "d") (.bin .mul (.bin .atan2 (.un .neg (.var (D ++ "y"))) (.var (D ++ "x"))) (.lit 2864789 50000)))
  (.seq (.ite (.cmpF .lt (.var (D ++ "d")) (.ofInt (.lit 0)))
    (.setF (D ++ "d") (.bin .sub (.lit 90 1) (.var (D ++ "d"))))
    (.ite (.cmpF .gt (.var (D ++ "d")) (.lit 90 1))
      (.setF (D ++ "d") (.bin .add (.bin .sub (.lit 360 1) (.var (D ++ "d"))) (.lit 90 1)))
      (.setF (D ++ "d") (.bin .sub (.lit 90 1) (.var (D ++ "d"))))))
  (.seq (.setF (D ++ "ret0") (.var (D ++ "d")))
  .ret))))))

/-- **the generated `_calc_direction` is `dirBody` at the empty prefix** -/
theorem calcDirection_is_template : Gen.IL.calcDirection.body = dirBody "" := rfl

/-- `output_img[line][i] = _calc_direction(x_coords[line, i], x_coords[ny[i], nx[i]], y_coords[line, i], y_coords[ny[i], nx[i]])` -/
def dirCall (D : String) : St :=
  (.seq (.setF (D ++ "x1") (.ld2 "x_coords" (.var "line") (.var "i")))
  (.seq (.setF (D ++ "x2") (.ld2 "x_coords" (.ld1 "nearest_ys" (.var "i")) (.ld1 "nearest_xs" (.var "i"))))
  (.seq (.setF (D ++ "y1") (.ld2 "y_coords" (.var "line") (.var "i")))
  (.seq (.setF (D ++ "y2") (.ld2 "y_coords" (.ld1 "nearest_ys" (.var "i")) (.ld1 "nearest_xs" (.var "i"))))
  (.seq (.scope (dirBody D))
  (.stF2 "output_img" (.var "line") (.var "i") (.var (D ++ "ret0"))))))))

/-- `if nearest_xs[i] != -1 and line_proximity[i] >= 0: <write output_img[line][i] in ALLOCATION / DIRECTION mode>` -/
def mergeStmt (D : String) : St :=
  .ite (.and (.cmpI .ne (.ld1 "nearest_xs" (.var "i")) (.lit (-1))) (.cmpF .ge (.ld1 "line_proximity" (.var "i")) (.ofInt (.lit 0))))
    (.ite (.cmpI .eq (.var "process_mode") (.lit 1))
      (.stF2 "output_img" (.var "line") (.var "i") (.ld2 "img" (.ld1 "nearest_ys" (.var "i")) (.ld1 "nearest_xs" (.var "i"))))
      (.ite (.cmpI .eq (.var "process_mode") (.lit 2))
        (dirCall D)
        .skip))
    .skip

def D (k : String) : String := "_calc_direction" ++ k ++ "$"

/-! ### the four inlined copies of the line function -/

/-- the naming of the k-th inlined call -/
def NL (k : String) : Names :=
  Names.pfx ("_process_proximity_line" ++ k ++ "$") "scan_line" "x_coords" "y_coords" "target_values"

theorem NL_wf (k : String) : (NL k).WF := Names.pfx_wf _ _ _ _ _ (by decide) (by decide) (by decide) (by decide)

/-- argument passing + the inlined body + the rest of the caller -/
def callLine (N : Names) (fwd : BE) (rest : St) : St :=
  (.seq (.setB (N.nm .isForward) fwd)
  (.seq (.setI (N.nm .lineId) (.var "line"))
  (.seq (.setI (N.nm .width) (.var "width"))
  (.seq (.setF (N.nm .maxDistance) (.var "max_distance"))
  (.seq (.setI (N.nm .distanceMetric) (.var "distance_metric"))
  (.seq (.scope (lineBody N))
  rest))))))

/-! ### the loops of `_process_numpy` -/

def resetPanBody : St :=
    (.seq (.stI1 "pan_near_x" (.var "i") (.lit (-1)))
    (.stI1 "pan_near_y" (.var "i") (.lit (-1))))

/-- `for i in range(width): pan_near_x[i] = -1; pan_near_y[i] = -1` -/
def resetPan : St :=
  .forRange "i" (.lit 0) (.var "width") (.lit 1) (resetPanBody)

def resetNearestBody : St :=
    (.seq (.stI1 "nearest_xs" (.var "i") (.lit (-1)))
    (.stI1 "nearest_ys" (.var "i") (.lit (-1))))

/-- `for i in range(width): nearest_xs[i] = -1; nearest_ys[i] = -1` -/
def resetNearest : St :=
  .forRange "i" (.lit 0) (.var "width") (.lit 1) (resetNearestBody)

def readLineBody : St :=
    (.stF1 "scan_line" (.var "i") (.ld2 "img" (.var "line") (.var "i")))

/-- `for i in range(width): scan_line[i] = img[line][i]` -/
def readLine : St :=
  .forRange "i" (.lit 0) (.var "width") (.lit 1) (readLineBody)

def resetLineBody : St :=
    (.seq (.stF1 "line_proximity" (.var "i") (.un .neg (.lit 1 1)))
    (.seq (.stI1 "nearest_xs" (.var "i") (.lit (-1)))
    (.stI1 "nearest_ys" (.var "i") (.lit (-1)))))

/-- `for i in range(width): line_proximity[i] = -1.0; nearest_xs[i] = -1; nearest_ys[i] = -1` -/
def resetLine : St :=
  .forRange "i" (.lit 0) (.var "width") (.lit 1) (resetLineBody)

/-- the merge loop after a sweep -/
def mergeLoop (D : String) : St :=
  .forRange "i" (.lit 0) (.var "width") (.lit 1) (mergeStmt D)

def storeMergeLoopBody (D : String) : St :=
    (.seq (.stF2 "img_distance" (.var "line") (.var "i") (.ld1 "line_proximity" (.var "i")))
    (mergeStmt D))

/-- the last loop of a top-down line: store the distances, then merge -/
def storeMergeLoop (D : String) : St :=
  .forRange "i" (.lit 0) (.var "width") (.lit 1) (storeMergeLoopBody D)

def readDistanceBody : St :=
    (.stF1 "line_proximity" (.var "i") (.ld2 "img_distance" (.var "line") (.var "i")))

/-- `for i in range(width): line_proximity[i] = img_distance[line][i]` -/
def readDistance : St :=
  .forRange "i" (.lit 0) (.var "width") (.lit 1) (readDistanceBody)

def finalLoopBody (D : String) : St :=
    (.ite (.cmpF .lt (.ld1 "line_proximity" (.var "i")) (.ofInt (.lit 0)))
      (.stF1 "line_proximity" (.var "i") .nan)
      (mergeStmt D))

/-- "final post processing of distances" -/
def finalLoop (D : String) : St :=
  .forRange "i" (.lit 0) (.var "width") (.lit 1) (finalLoopBody D)

def storeDistanceBody : St :=
    (.stF2 "img_distance" (.var "line") (.var "i") (.ld1 "line_proximity" (.var "i")))

/-- `for i in range(width): img_distance[line][i] = line_proximity[i]` -/
def storeDistance : St :=
  .forRange "i" (.lit 0) (.var "width") (.lit 1) (storeDistanceBody)

/-- one line of the top-down pass -/
def tdLine : St :=
  (.seq readLine
  (.seq (.allocF "line_proximity" [(.var "width")] (.lit 0 1))
  (.seq resetLine
  (callLine (NL "1") .tt
  (.seq (mergeLoop (D "2"))
  (.seq resetNearest
  (callLine (NL "3") .ff
  (storeMergeLoop (D "4")))))))))

/-- one line of the bottom-up pass -/
def buLine : St :=
  (.seq readDistance
  (.seq readLine
  (.seq resetNearest
  (callLine (NL "5") .ff
  (.seq (mergeLoop (D "6"))
  (.seq resetNearest
  (callLine (NL "7") .tt
  (.seq (finalLoop (D "8"))
  storeDistance))))))))

def tdPass : St := .forRange "line" (.lit 0) (.var "height") (.lit 1) tdLine
def buPass : St := .forRange "line" (.bin .sub (.var "height") (.lit 1)) (.lit (-1)) (.lit (-1)) buLine

/-- allocations and the first reset -/
def pnInit (rest : St) : St :=
  (.seq (.setI "height" (.dim "img" 0))
  (.seq (.setI "width" (.dim "img" 1))
  (.seq (.allocI "pan_near_x" [(.var "width")] (.lit 0))
  (.seq (.allocI "pan_near_y" [(.var "width")] (.lit 0))
  (.seq (.allocF "output_img" [(.var "height"), (.var "width")] .nan)
  (.seq (.allocF "img_distance" [(.var "height"), (.var "width")] (.lit 0 1))
  (.seq resetPan
  (.seq (.allocF "scan_line" [(.var "width")] (.lit 0 1))
  (.seq (.allocI "nearest_xs" [(.var "width")] (.lit 0))
  (.seq (.allocI "nearest_ys" [(.var "width")] (.lit 0))
  rest))))))))))

/-- `_process_numpy` -/
def pnBody : St :=
  pnInit
  (.seq tdPass
  (.seq resetPan
  (.seq buPass
  (.ite (.cmpI .eq (.var "process_mode") (.lit 0)) .ret .ret))))

/-- **the generated `_process._process_numpy` is `pnBody`** (the four `.scope`s are `lineBody (NL k)`) -/
theorem processNumpy_is_template : Gen.IL.processNumpy.body = pnBody := by rfl

end XrsVerif.IL.Px
