import XrsVerif.Proofs.ILViewshedDelSplice
/-
  Proofs/ILViewshedDelLoops.lean -- the recomputation loops of `_delete_from_tree` on the arrays:

  * `recompLoop_spec`   the recomputation shared by the loops L1 and L2 (`left`, `right`, `min_value`): the stored
                        maximum of the node becomes `mx2 (minv node) (mx2 left right)`;
  * `delL1_spec`        loop L1 = the pass `scanArr (l1Step …)` up the context of the spliced-out node;
  * `recompFix_spec`    the recomputation F1 / C;
  * `delL2_spec`        loop L2 = the pass `scanArr (l2Step …)` up the context of `z`.
-/
set_option linter.unusedSectionVars false
set_option linter.unusedVariables false
set_option linter.unusedSimpArgs false
namespace XrsVerif.ILVs
open XrsVerif XrsVerif.IL XrsVerif.Viewshed
variable {F : Type} [Fl F]

theorem exec_ldVf (fuel n : Nat) (s : State F) (hs : s.shp "tree_vals" = [n, 8]) (v x : String) (c : Int)
    (hc : 0 ≤ c ∧ c < 8) (hin : inRange (s.ienv x) n = true) :
    exec fuel (.setF v (.ld2 "tree_vals" (.var x) (.lit c))) s =
      { s with fenv := setS s.fenv v (vAt (s.fa "tree_vals") (rowOf n (s.ienv x)) c.toNat).v } := by
  rw [exec_setF _ _ _ _ (by rw [okV s n hs x c hc]; exact hin), evalV s n hs x c hc.1]

/-- `_find_max_value(tree_vals[row])` inlined: `ret := tree_vals[row][7]` -/
theorem fmvScope_spec (fuel n : Nat) (s : State F) (hs : s.shp "tree_vals" = [n, 8]) (hrun : s.ctl = .run) (ret row : String)
    (hin : inRange (s.ienv row) n = true) :
    exec fuel (.scope (.seq (.setF ret (.ld2 "tree_vals" (.var row) (.lit 7))) .ret)) s =
      { s with fenv := setS s.fenv ret (mxAt (s.fa "tree_vals") n (s.ienv row)).v } := by
  rw [exec_scope, exec_seq, exec_ldVf fuel n s hs ret row 7 (by decide) hin]
  simp [hrun, exec_ret, mxAt]

/-- the value the loops L1 / L2 store: `m = left if left > right else right; if minv > m: m = minv` -/
def loopMax (V : List F) (n : Nat) (P : Nat) (Lp Rp : Int) : Fv F :=
  mx2 (minv (nodeAt V P)) (mx2 (mxAt V n Lp) (mxAt V n Rp))

theorem loopMax_v (V : List F) (n : Nat) (P : Nat) (Lp Rp : Int) :
    (loopMax V n P Lp Rp).v =
      if Fl.lt (mx2 (mxAt V n Lp) (mxAt V n Rp)).v (minv (nodeAt V P)).v = true then (minv (nodeAt V P)).v
      else (mx2 (mxAt V n Lp) (mxAt V n Rp)).v := by
  unfold loopMax; rw [mx2_v]

/- the recomputation of the loops L1 / L2 at the node `P` with children pointers `Lp`, `Rp` (proved for the two
   instances of the generated program by the same script) -/
set_option hygiene false in
macro "recomp_loop_tac" : tactic => `(tactic| (
  intro V q
  have hinP : inRange (P : Int) n = true := inRange_ptr n _ (by omega) hv.pos
  have hinL : inRange Lp n = true := inRange_ptr n _ hLp hv.pos
  have hinR : inRange Rp n = true := inRange_ptr n _ hRp hv.pos
  have hlen : P * 8 + 7 < (s.fa "tree_vals").length := by rw [hv.lenV]; omega
  have eV := fun (s' : State F) => evalV s' n
  have oV := fun (s' : State F) => okV s' n
  have sV := fun (s' : State F) => exec_stV fuel s' n
  have sM := fun (s' : State F) => stMax_spec fuel s' n
  have mS := fun (a b : String) (s' : State F) => minvScope_spec a b fuel n s'
  by_cases hlt : Fl.lt (mx2 (vAt (s.fa "tree_vals") (rowOf n Lp) 7) (vAt (s.fa "tree_vals") (rowOf n Rp) 7)).v
      (minv (nodeAt (s.fa "tree_vals") P)).v = true
  · simp [q, V, recompLoop, exec, sV, sM, mS, eV, oV, hv.shpV, ep, el, er, hinP, hinL, hinR, IE.ok_var, IE.eval_var,
      FE.ok_var, FE.eval_var, BE.ok, BE.eval, CmpOp.eval, setS, hrun, vAt_set, hlen, nodeAt_set7, mxAt, loopMax_v, hlt,
      List.set_set]
    try (intro a ha; simp [ha])
  · simp [q, V, recompLoop, exec, sV, sM, mS, eV, oV, hv.shpV, ep, el, er, hinP, hinL, hinR, IE.ok_var, IE.eval_var,
      FE.ok_var, FE.eval_var, BE.ok, BE.eval, CmpOp.eval, setS, hrun, vAt_set, hlen, nodeAt_set7, mxAt, loopMax_v, hlt]
    try (intro a ha; simp [ha])))

theorem recompLoop1_spec (fuel n : Nat) (s : State F) (hv : VS s n) (hrun : s.ctl = .run)
    (P : Nat) (Lp Rp : Int) (hP : P + 1 < n) (hLp : PtrOK n Lp) (hRp : PtrOK n Rp)
    (ep : s.ienv "cur_parent" = P) (el : s.ienv "cur_parent_left" = Lp) (er : s.ienv "cur_parent_right" = Rp) :
    let V := s.fa "tree_vals"
    let q := exec fuel (recompLoop "cur_parent" "cur_parent_left" "cur_parent_right" "7" "8" "9") s
    q.ctl = .run ∧ q.ia = s.ia ∧ q.shp = s.shp ∧ q.fa "tree_vals" = V.set (P * 8 + 7) (loopMax V n P Lp Rp).v ∧
      (∀ a, a ≠ "tree_vals" → q.fa a = s.fa a) := by
  recomp_loop_tac

theorem recompLoop2_spec (fuel n : Nat) (s : State F) (hv : VS s n) (hrun : s.ctl = .run)
    (P : Nat) (Lp Rp : Int) (hP : P + 1 < n) (hLp : PtrOK n Lp) (hRp : PtrOK n Rp)
    (ep : s.ienv "z_parent" = P) (el : s.ienv "z_parent_left" = Lp) (er : s.ienv "z_parent_right" = Rp) :
    let V := s.fa "tree_vals"
    let q := exec fuel (recompLoop "z_parent" "z_parent_left" "z_parent_right" "14" "15" "16") s
    q.ctl = .run ∧ q.ia = s.ia ∧ q.shp = s.shp ∧ q.fa "tree_vals" = V.set (P * 8 + 7) (loopMax V n P Lp Rp).v ∧
      (∀ a, a ≠ "tree_vals" → q.fa a = s.fa a) := by
  recomp_loop_tac

/-! ### loop L1 -/

theorem PtrOK.of_linked {N : List Int} {n : Nat} {par : Int} {sh : Sh} (h : Linked N n par sh) (hn : 0 < n) : PtrOK n sh.ptr :=
  h.ptrOK hn

/-- one iteration of loop L1 at the ancestor `p` of the current node `cr` -/
theorem delL1Body_spec (fuel n : Nat) (s : State F) (hv : VS s n) (hrun : s.ctl = .run) (cr p y : Nat) (hcr : cr + 1 < n)
    (hp : p + 1 < n) (hyn : y + 1 < n) (ecur : s.ienv "cur_node" = cr) (ey : s.ienv "y" = y)
    (hpar : nAt (s.ia "tree_nodes") cr 3 = (p : Int))
    (hLp : PtrOK n (nAt (s.ia "tree_nodes") p 1)) (hRp : PtrOK n (nAt (s.ia "tree_nodes") p 2)) :
    let V := s.fa "tree_vals"
    let N := s.ia "tree_nodes"
    let r := exec fuel delL1Body s
    r.ia = s.ia ∧ r.shp = s.shp ∧ (∀ a, a ≠ "tree_vals" → r.fa a = s.fa a) ∧
      (feq (vAt V p 7) (minv (nodeAt V y)) = true →
        r.ctl = .run ∧ r.fa "tree_vals" = V.set (p * 8 + 7) (loopMax V n p (nAt N p 1) (nAt N p 2)).v ∧
          r.ienv "cur_node" = p) ∧
      (feq (vAt V p 7) (minv (nodeAt V y)) = false → r.ctl = .brk ∧ r.fa = s.fa) := by
  intro V N r
  have hincr : inRange (cr : Int) n = true := inRange_ptr n _ (by omega) hv.pos
  have hinp : inRange (p : Int) n = true := inRange_ptr n _ (by omega) hv.pos
  have hiny : inRange (y : Int) n = true := inRange_ptr n _ (by omega) hv.pos
  have eN := fun (s' : State F) => evalN s' n
  have oN := fun (s' : State F) => okN s' n
  have eV := fun (s' : State F) => evalV s' n
  have oV := fun (s' : State F) => okV s' n
  have mS := fun (a b : String) (s' : State F) => minvScope_spec a b fuel n s'
  by_cases hq : Fl.eq (vAt (s.fa "tree_vals") p 7).v (minv (nodeAt (s.fa "tree_vals") y)).v = true
  · -- the state in which the recomputation starts
    have h1 : r = exec fuel (.setI "cur_node" (.var "cur_parent"))
        (exec fuel (recompLoop "cur_parent" "cur_parent_left" "cur_parent_right" "7" "8" "9")
          { s with ienv := setS (setS (setS (setS s.ienv "cur_parent" (p : Int)) "_find_value_min_value6$node_id" (y : Int))
                      "cur_parent_left" (nAt (s.ia "tree_nodes") p 1)) "cur_parent_right" (nAt (s.ia "tree_nodes") p 2),
                   fenv := setS s.fenv "_find_value_min_value6$ret0" (minv (nodeAt (s.fa "tree_vals") y)).v,
                   ctl := .run }) := by
      have hrc := recompLoop1_spec fuel n
        { s with ienv := setS (setS (setS (setS s.ienv "cur_parent" (p : Int)) "_find_value_min_value6$node_id" (y : Int))
                    "cur_parent_left" (nAt (s.ia "tree_nodes") p 1)) "cur_parent_right" (nAt (s.ia "tree_nodes") p 2),
                 fenv := setS s.fenv "_find_value_min_value6$ret0" (minv (nodeAt (s.fa "tree_vals") y)).v,
                 ctl := .run }
        (hv.of_eq rfl rfl rfl) rfl p _ _ hp hLp hRp (by simp [setS]) (by simp [setS]) (by simp [setS])
      simp [r, delL1Body, exec, mS, eN, oN, eV, oV, hv.shpN, hv.shpV, ecur, ey, hincr, hinp, hiny, hpar, IE.ok_var, IE.eval_var,
        FE.ok_var, FE.eval_var, BE.ok, BE.eval, CmpOp.eval, setS, hrun, hq, hrc.1]
    have hrc := recompLoop1_spec fuel n
      { s with ienv := setS (setS (setS (setS s.ienv "cur_parent" (p : Int)) "_find_value_min_value6$node_id" (y : Int))
                  "cur_parent_left" (nAt (s.ia "tree_nodes") p 1)) "cur_parent_right" (nAt (s.ia "tree_nodes") p 2),
               fenv := setS s.fenv "_find_value_min_value6$ret0" (minv (nodeAt (s.fa "tree_vals") y)).v,
               ctl := .run }
      (hv.of_eq rfl rfl rfl) rfl p _ _ hp hLp hRp (by simp [setS]) (by simp [setS]) (by simp [setS])
    obtain ⟨c1, c2, c3, c4, c5⟩ := hrc
    have hfr := exec_frame fuel (recompLoop "cur_parent" "cur_parent_left" "cur_parent_right" "7" "8" "9")
      { s with ienv := setS (setS (setS (setS s.ienv "cur_parent" (p : Int)) "_find_value_min_value6$node_id" (y : Int))
                  "cur_parent_left" (nAt (s.ia "tree_nodes") p 1)) "cur_parent_right" (nAt (s.ia "tree_nodes") p 2),
               fenv := setS s.fenv "_find_value_min_value6$ret0" (minv (nodeAt (s.fa "tree_vals") y)).v,
               ctl := .run }
    generalize hs2 : exec fuel (recompLoop "cur_parent" "cur_parent_left" "cur_parent_right" "7" "8" "9")
      { s with ienv := setS (setS (setS (setS s.ienv "cur_parent" (p : Int)) "_find_value_min_value6$node_id" (y : Int))
                  "cur_parent_left" (nAt (s.ia "tree_nodes") p 1)) "cur_parent_right" (nAt (s.ia "tree_nodes") p 2),
               fenv := setS s.fenv "_find_value_min_value6$ret0" (minv (nodeAt (s.fa "tree_vals") y)).v,
               ctl := .run } = s2 at h1 c1 c2 c3 c4 c5 hfr
    have ecp : s2.ienv "cur_parent" = p := by rw [hfr.ienv _ (by decide)]; simp [setS]
    rw [exec_setI _ _ _ _ (IE.ok_var _ _), IE.eval_var, ecp] at h1
    rw [h1]
    refine ⟨c2, c3, c5, fun _ => ⟨c1, c4, by simp [setS]⟩, fun hne => ?_⟩
    simp only [feq, V] at hne
    rw [hq] at hne; exact absurd hne (by simp)
  · have hq' : Fl.eq (vAt (s.fa "tree_vals") p 7).v (minv (nodeAt (s.fa "tree_vals") y)).v = false := by
      cases h : Fl.eq (vAt (s.fa "tree_vals") p 7).v (minv (nodeAt (s.fa "tree_vals") y)).v
      · rfl
      · exact absurd h hq
    have h1 : r = { s with ienv := setS (setS s.ienv "cur_parent" (p : Int)) "_find_value_min_value6$node_id" (y : Int),
                           fenv := setS s.fenv "_find_value_min_value6$ret0" (minv (nodeAt (s.fa "tree_vals") y)).v,
                           ctl := .brk } := by
      simp [r, delL1Body, exec, mS, eN, oN, eV, oV, hv.shpN, hv.shpV, ecur, ey, hincr, hinp, hiny, hpar, IE.ok_var, IE.eval_var,
        FE.ok_var, FE.eval_var, BE.ok, BE.eval, CmpOp.eval, setS, hrun, hq']
    rw [h1]
    refine ⟨rfl, rfl, fun _ _ => rfl, fun he => ?_, fun _ => ⟨rfl, rfl⟩⟩
    simp only [feq, V] at he
    rw [hq'] at he; exact absurd he (by simp)

/-- the recomputation of a frame read off the arrays is the value the loops store -/
theorem recompL_absFr (V : List F) (N : List Int) (n : Nat) (c : Int) (fr : Fr) (rest : Ctx)
    (hc : CtxLinked N n c (fr :: rest)) :
    (absFr V N fr).recompL (vAt V (n - 1) 7) (mxAt V n c) = loopMax V n fr.idx (nAt N fr.idx 1) (nAt N fr.idx 2) ∧
    ((absFr V N fr).kids (vAt V (n - 1) 7) (mxAt V n c)).1 = mxAt V n (nAt N fr.idx 1) := by
  cases fr with
  | L p sib =>
    obtain ⟨_, h1, h2, _⟩ := hc
    simp only [absFr, TFr.recompL, TFr.kids, TFr.nd, loopMax, Fr.idx, h1, h2, mxAt_absT V N n sib, and_self]
  | R sib p =>
    obtain ⟨_, h1, h2, _⟩ := hc
    simp only [absFr, TFr.recompL, TFr.kids, TFr.nd, loopMax, Fr.idx, h1, h2, mxAt_absT V N n sib, and_self]

theorem CtxLinked.kidsOK {N : List Int} {n : Nat} {c : Int} {fr : Fr} {rest : Ctx} (hc : CtxLinked N n c (fr :: rest))
    (hcp : PtrOK n c) (hn : 0 < n) : PtrOK n (nAt N fr.idx 1) ∧ PtrOK n (nAt N fr.idx 2) := by
  cases fr with
  | L p sib =>
    obtain ⟨_, h1, h2, _, _, hl, _⟩ := hc
    simp only [Fr.idx, h1, h2]
    exact ⟨hcp, hl.ptrOK hn⟩
  | R sib p =>
    obtain ⟨_, h1, h2, _, _, hl, _⟩ := hc
    simp only [Fr.idx, h1, h2]
    exact ⟨hl.ptrOK hn, hcp⟩

/-- **loop L1 on the arrays**: the pass `scanArr (l1Step …)` up the context of the spliced-out node -/
theorem delL1_spec (n y : Nat) (hyn : y + 1 < n) : ∀ (ctx : Ctx) (c : Int) (cr : Nat) (fuel : Nat) (s : State F),
    VS s n → s.ctl = .run → CtxLinked (s.ia "tree_nodes") n c ctx → nAt (s.ia "tree_nodes") cr 3 = ctxPar ctx →
    cr + 1 < n → PtrOK n c → s.ienv "cur_node" = cr → s.ienv "y" = y → ctx.length < fuel →
    let V := s.fa "tree_vals"
    let r := exec fuel delL1 s
    r.ctl = .run ∧ r.ia = s.ia ∧ r.shp = s.shp ∧
      r.fa "tree_vals" = scanArr (l1Step feq (vAt V (n - 1) 7) (minv (nodeAt V y))) n (s.ia "tree_nodes") V c ctx ∧
      (∀ a, a ≠ "tree_vals" → r.fa a = s.fa a) := by
  intro ctx
  induction ctx with
  | nil =>
    intro c cr fuel s hv hrun hc hpar hcr hcp ecur ey hf
    obtain ⟨fuel, rfl⟩ : ∃ f, fuel = f + 1 := ⟨fuel - 1, by omega⟩
    intro V r
    have hin : inRange (s.ienv "cur_node") n = true := by rw [ecur]; exact inRange_ptr n _ (by omega) hv.pos
    have hr : r = s := by
      simp only [r, delL1]
      rw [exec_while_exit]
      · rw [BE.ok_cmpI, okN s n hv.shpN _ 3 (by decide), hin, IE.ok_lit]; rfl
      · rw [BE.eval_cmpI, evalN s n hv.shpN _ 3 (by decide), ecur, rowOf_nat, IE.eval_lit]
        simp [ctxPar, cmpInt, hpar]
    rw [hr]
    exact ⟨hrun, rfl, rfl, rfl, fun _ _ => rfl⟩
  | cons fr rest ih =>
    intro c cr fuel s hv hrun hc hpar hcr hcp ecur ey hf
    obtain ⟨fuel, rfl⟩ : ∃ f, fuel = f + 1 := ⟨fuel - 1, by omega⟩
    intro V r
    rw [ctxPar_cons] at hpar
    obtain ⟨hpn, hp3, hcrest⟩ := hc.step
    obtain ⟨hk1, hk2⟩ := hc.kidsOK hcp hv.pos
    have hin : inRange (s.ienv "cur_node") n = true := by rw [ecur]; exact inRange_ptr n _ (by omega) hv.pos
    have hok : BE.ok s (.cmpI .ne (.ld2 "tree_nodes" (.var "cur_node") (.lit 3)) (.lit (-1))) = true := by
      rw [BE.ok_cmpI, okN s n hv.shpN _ 3 (by decide), hin, IE.ok_lit]; rfl
    have hev : BE.eval s (.cmpI .ne (.ld2 "tree_nodes" (.var "cur_node") (.lit 3)) (.lit (-1))) = true := by
      rw [BE.eval_cmpI, evalN s n hv.shpN _ 3 (by decide), ecur, rowOf_nat, IE.eval_lit]
      simp only [cmpInt, show (3 : Int).toNat = 3 from rfl, hpar]
      simp
    obtain ⟨b1, b2, b3, b4, b5⟩ := delL1Body_spec fuel n s hv hrun cr fr.idx y hcr hpn hyn ecur ey hpar hk1 hk2
    obtain ⟨hrl, hkid⟩ := recompL_absFr V (s.ia "tree_nodes") n c fr rest hc
    by_cases hq : feq (vAt V fr.idx 7) (minv (nodeAt V y)) = true
    · obtain ⟨d1, d2, d3⟩ := b4 hq
      generalize hs1 : exec fuel delL1Body s = s1 at b1 b2 b3 d1 d2 d3
      have hr : r = exec fuel delL1 s1 := by
        simp only [r, delL1]
        rw [exec_while_step _ _ _ _ hok hev (by rw [hs1]; exact d1), hs1]
      have hlen : fr.idx * 8 + 7 < V.length := by simp only [V]; rw [hv.lenV]; omega
      have hv1 : VS s1 n := ⟨by rw [b2]; exact hv.shpV, by rw [b2]; exact hv.shpN, by rw [d2]; simp [V, hv.lenV],
        by rw [b1]; exact hv.lenN, hv.pos⟩
      have hS1 : vAt (s1.fa "tree_vals") (n - 1) 7 = vAt V (n - 1) 7 := by
        rw [d2, vAt_set _ _ _ _ _ _ (by decide) (by decide) hlen]
        have : ¬ (n - 1 = fr.idx) := by omega
        simp [this]
      have hy1 : nodeAt (s1.fa "tree_vals") y = nodeAt V y := by rw [d2, nodeAt_set7]
      have hey1 : s1.ienv "y" = y := by
        have hfr := exec_frame fuel delL1Body s
        rw [hs1] at hfr
        rw [hfr.ienv _ (by decide)]; exact ey
      have := ih (fr.idx : Int) fr.idx fuel s1 hv1 d1 (by rw [b1]; exact hcrest) (by rw [b1]; exact hp3) hpn
        (by simp only [PtrOK]; omega) d3 hey1 (by simp only [List.length_cons] at hf; omega)
      simp only [← hr, hS1, hy1, b1, d2] at this
      obtain ⟨e1, e2, e3, e4, e5⟩ := this
      refine ⟨e1, e2, e3.trans b2, ?_, fun a ha => (e5 a ha).trans (b3 a ha)⟩
      rw [d2] at hS1 hy1
      rw [e4, hS1, hy1]
      simp only [scanArr, l1Step, absFr_mx, hq, if_true, hrl]
      rfl
    · have hq' : feq (vAt V fr.idx 7) (minv (nodeAt V y)) = false := by
        cases h : feq (vAt V fr.idx 7) (minv (nodeAt V y))
        · rfl
        · exact absurd h hq
      obtain ⟨d1, d2⟩ := b5 hq'
      have hr : r = { exec fuel delL1Body s with ctl := .run } := by
        simp only [r, delL1]
        rw [exec_while_brk _ _ _ _ hok hev d1]
      rw [hr]
      refine ⟨rfl, b1, b2, ?_, b3⟩
      show (exec fuel delL1Body s).fa "tree_vals" = _
      rw [d2]
      simp only [scanArr, l1Step, absFr_mx, hq', Bool.false_eq_true, if_false]
      rfl

/-! ### the recomputation F1 / C -/

/-- the value F1 / C store: `tmp = left if left > right else right; m = tmp if tmp > minv else minv` -/
def fixMax (V : List F) (n : Nat) (P : Nat) (Lp Rp : Int) : Fv F :=
  mx2 (mx2 (mxAt V n Lp) (mxAt V n Rp)) (minv (nodeAt V P))

set_option hygiene false in
macro "recomp_fix_tac" : tactic => `(tactic| (
  intro V N q
  have hinP : inRange (P : Int) n = true := inRange_ptr n _ (by omega) hv.pos
  have hinL : inRange (nAt (s.ia "tree_nodes") P 1) n = true := inRange_ptr n _ hLp hv.pos
  have hinR : inRange (nAt (s.ia "tree_nodes") P 2) n = true := inRange_ptr n _ hRp hv.pos
  have eN := fun (s' : State F) => evalN s' n
  have oN := fun (s' : State F) => okN s' n
  have eV := fun (s' : State F) => evalV s' n
  have oV := fun (s' : State F) => okV s' n
  have sM := fun (s' : State F) => stMax_spec fuel s' n
  have sX := fun (t : String) (A B : FE) (s' : State F) => selMax_spec fuel t A B s'
  have mS := fun (a b : String) (s' : State F) => minvScope_spec a b fuel n s'
  simp [q, V, N, recompFixItems, seqL, exec, sM, sX, mS, eN, oN, eV, oV, hv.shpN, hv.shpV, ep, hinP, hinL, hinR, IE.ok_var,
    IE.eval_var, FE.ok_var, FE.eval_var, setS, hrun, mxAt, fixMax]
  try (intro a ha; simp [ha])))

theorem recompFix10_spec (fuel n : Nat) (s : State F) (hv : VS s n) (hrun : s.ctl = .run) (P : Nat) (hP : P + 1 < n)
    (hLp : PtrOK n (nAt (s.ia "tree_nodes") P 1)) (hRp : PtrOK n (nAt (s.ia "tree_nodes") P 2))
    (ep : s.ienv "to_fix" = P) :
    let V := s.fa "tree_vals"
    let N := s.ia "tree_nodes"
    let q := exec fuel (seqL (recompFixItems "10")) s
    q.ctl = .run ∧ q.ia = s.ia ∧ q.shp = s.shp ∧
      q.fa "tree_vals" = V.set (P * 8 + 7) (fixMax V n P (nAt N P 1) (nAt N P 2)).v ∧
      (∀ a, a ≠ "tree_vals" → q.fa a = s.fa a) := by
  recomp_fix_tac

theorem recompFix12_spec (fuel n : Nat) (s : State F) (hv : VS s n) (hrun : s.ctl = .run) (P : Nat) (hP : P + 1 < n)
    (hLp : PtrOK n (nAt (s.ia "tree_nodes") P 1)) (hRp : PtrOK n (nAt (s.ia "tree_nodes") P 2))
    (ep : s.ienv "to_fix" = P) :
    let V := s.fa "tree_vals"
    let N := s.ia "tree_nodes"
    let q := exec fuel (seqL (recompFixItems "12")) s
    q.ctl = .run ∧ q.ia = s.ia ∧ q.shp = s.shp ∧
      q.fa "tree_vals" = V.set (P * 8 + 7) (fixMax V n P (nAt N P 1) (nAt N P 2)).v ∧
      (∀ a, a ≠ "tree_vals" → q.fa a = s.fa a) := by
  recomp_fix_tac

/-! ### the successor copy -/

/-- row `z` gets the seven node fields of row `y` -/
def copyArr (V : List F) (y z : Nat) : List F :=
  ((((((V.set (z * 8) (vAt V y 0).v).set (z * 8 + 1) (vAt V y 1).v).set (z * 8 + 2) (vAt V y 2).v).set (z * 8 + 3)
    (vAt V y 3).v).set (z * 8 + 4) (vAt V y 4).v).set (z * 8 + 5) (vAt V y 5).v).set (z * 8 + 6) (vAt V y 6).v

theorem copyArr_length (V : List F) (y z : Nat) : (copyArr V y z).length = V.length := by simp [copyArr]

theorem copyArr_get (V : List F) (y z : Nat) (hz : z * 8 + 7 < V.length) (i c : Nat) (hc : c < 8) :
    vAt (copyArr V y z) i c = if i = z ∧ c < 7 then vAt V y c else vAt V i c := by
  have h0 : z * 8 < V.length := by omega
  unfold copyArr
  rw [vAt_set _ _ _ _ _ _ (by decide) hc (by simp; omega), vAt_set _ _ _ _ _ _ (by decide) hc (by simp; omega),
    vAt_set _ _ _ _ _ _ (by decide) hc (by simp; omega), vAt_set _ _ _ _ _ _ (by decide) hc (by simp; omega),
    vAt_set _ _ _ _ _ _ (by decide) hc (by simp; omega), vAt_set _ _ _ _ _ _ (by decide) hc (by simp; omega),
    vAt_set0 _ _ _ _ _ hc h0]
  by_cases hi : i = z
  · subst hi
    rcases (by omega : c = 0 ∨ c = 1 ∨ c = 2 ∨ c = 3 ∨ c = 4 ∨ c = 5 ∨ c = 6 ∨ c = 7) with
      rfl | rfl | rfl | rfl | rfl | rfl | rfl | rfl <;> simp
  · simp [hi]

theorem delCopyCols_spec (fuel n : Nat) (s : State F) (hv : VS s n) (hrun : s.ctl = .run) (y z : Nat) (hyn : y + 1 < n)
    (hzn : z + 1 < n) (hyz : y ≠ z) (ey : s.ienv "y" = y) (ez : s.ienv "z" = z) :
    let q := exec fuel (seqL delCopyColsItems) s
    q = { s with fa := setS s.fa "tree_vals" (copyArr (s.fa "tree_vals") y z) } := by
  intro q
  have hiny : inRange (y : Int) n = true := inRange_ptr n _ (by omega) hv.pos
  have hinz : inRange (z : Int) n = true := inRange_ptr n _ (by omega) hv.pos
  have eV := fun (s' : State F) => evalV s' n
  have oV := fun (s' : State F) => okV s' n
  have sV := fun (s' : State F) => exec_stV fuel s' n
  have hL : (s.fa "tree_vals").length = n * 8 := hv.lenV
  have l0 : z * 8 < (s.fa "tree_vals").length := by omega
  have l1 : z * 8 + 1 < (s.fa "tree_vals").length := by omega
  have l2 : z * 8 + 2 < (s.fa "tree_vals").length := by omega
  have l3 : z * 8 + 3 < (s.fa "tree_vals").length := by omega
  have l4 : z * 8 + 4 < (s.fa "tree_vals").length := by omega
  have l5 : z * 8 + 5 < (s.fa "tree_vals").length := by omega
  have l6 : z * 8 + 6 < (s.fa "tree_vals").length := by omega
  simp [q, delCopyColsItems, seqL, exec, sV, eV, oV, hv.shpV, ey, ez, hiny, hinz, setS, hrun, vAt_set, vAt_set0, l0, l1, l2, l3,
    l4, l5, l6, hyz, copyArr, setS_setS_same]

end XrsVerif.ILVs
