import XrsVerif.Model.ViewshedFix
/-!
  C05 helper lemmas: the colour fix-ups of `Model/ViewshedFix.lean` only rotate and recolour -- their result is
  `Rebal`-related to their argument, so everything `Rebal` preserves (node list, BST, AugLe, AugLeQ, Exact;
  Proofs/ViewshedSweep.lean) is preserved by the complete `_insert_into_tree` / `_delete_from_tree`.
  No order laws are used: the lemmas hold over any `<` (the refinement proofs use them over `Fv F`).
-/
set_option linter.unusedSectionVars false
set_option linter.unusedVariables false
namespace XrsVerif.Viewshed

variable {α : Type} [LT α] [DecidableLT α] [LE α] [DecidableLE α]

theorem Rebal.trans {S : α} {t u v : Tree α} (h1 : Rebal S t u) (h2 : Rebal S u v) : Rebal S t v := by
  induction h1 with
  | refl t => exact h2
  | rotL p _ ih => exact Rebal.rotL p (ih h2)
  | rotR p _ ih => exact Rebal.rotR p (ih h2)
  | colour f _ ih => exact Rebal.colour f (ih h2)

/-- a colouring that is the identity at and below `pre` changes nothing there -/
theorem recolour_id (f : List Dir → Bool → Bool) : ∀ (t : Tree α) (pre : List Dir),
    (∀ q c, f (pre ++ q) c = c) → recolour f pre t = t := by
  intro t
  induction t with
  | nil => intro pre _; rfl
  | node l n mx c r ihl ihr =>
    intro pre h
    have h0 : f pre c = c := by simpa using h [] c
    simp only [recolour, h0]
    rw [ihl (pre ++ [Dir.L]) (fun q c => by rw [List.append_assoc]; exact h _ c),
      ihr (pre ++ [Dir.R]) (fun q c => by rw [List.append_assoc]; exact h _ c)]

/-- setting the colour of the node at a path is a recolouring -/
theorem recolour_point (c0 : Bool) : ∀ (p pre : List Dir) (t : Tree α),
    recolour (fun q c => if q = pre ++ p then c0 else c) pre t = atPath (setCol c0) p t := by
  intro p
  induction p with
  | nil =>
    intro pre t
    cases t with
    | nil => rfl
    | node l n mx c r =>
      simp only [recolour, List.append_nil, if_true, atPath, setCol]
      rw [recolour_id _ l (pre ++ [Dir.L]) (fun q c => by simp),
        recolour_id _ r (pre ++ [Dir.R]) (fun q c => by simp)]
  | cons d p ih =>
    intro pre t
    cases t with
    | nil => cases d <;> rfl
    | node l n mx c r =>
      have hne : ¬ (pre = pre ++ d :: p) := by
        intro e
        have := congrArg List.length e
        simp at this
      have hfun : (fun (q : List Dir) (c : Bool) => if q = pre ++ d :: p then c0 else c) =
          (fun q c => if q = (pre ++ [d]) ++ p then c0 else c) := by
        funext q c; simp
      cases d with
      | L =>
        simp only [recolour, hne, if_false, atPath]
        rw [recolour_id _ r (pre ++ [Dir.R]) (fun q c => by simp), hfun, ih (pre ++ [Dir.L]) l]
      | R =>
        simp only [recolour, hne, if_false, atPath]
        rw [recolour_id _ l (pre ++ [Dir.L]) (fun q c => by simp), hfun, ih (pre ++ [Dir.R]) r]

/-- one colour write is a `Rebal` step -/
theorem Rebal.col {S : α} (p : List Dir) (c : Bool) {t u : Tree α} (h : Rebal S (atPath (setCol c) p t) u) :
    Rebal S t u := by
  refine Rebal.colour (fun q c' => if q = [] ++ p then c else c') ?_
  rw [recolour_point c p [] t]
  exact h

theorem Rebal.rotD {S : α} (d : Dir) (p : List Dir) {t u : Tree α} (h : Rebal S (atPath (rotD S d) p t) u) :
    Rebal S t u := by
  cases d with
  | L => exact Rebal.rotL p h
  | R => exact Rebal.rotR p h

/-- **`_rb_insert_fixup`'s loop only rotates and recolours** -/
theorem insFixP_rebal (S : α) : ∀ (k : Nat) (rp : List Dir), rp.length ≤ k → ∀ (t : Tree α), Rebal S t (insFixP S rp t) := by
  intro k
  induction k with
  | zero =>
    intro rp h t
    have : rp = [] := List.length_eq_zero_iff.mp (Nat.le_zero.mp h)
    subst this
    simp only [insFixP]
    exact Rebal.refl t
  | succ k ih =>
    intro rp h t
    match rp, h with
    | [], _ => simp only [insFixP]; exact Rebal.refl t
    | [_], _ => simp only [insFixP]; exact Rebal.refl t
    | dz :: dp :: rq, h =>
      simp only [insFixP]
      split
      · split
        · refine Rebal.col (rq.reverse ++ [dp]) false (Rebal.col (rq.reverse ++ [dp.flip]) false
            (Rebal.col rq.reverse true ?_))
          exact ih rq (by simp only [List.length_cons] at h; omega) _
        · split
          · exact Rebal.col (rq.reverse ++ [dp]) false (Rebal.col rq.reverse true
              (Rebal.rotD dp.flip rq.reverse (Rebal.refl _)))
          · exact Rebal.rotD dp (rq.reverse ++ [dp]) (Rebal.col (rq.reverse ++ [dp]) false (Rebal.col rq.reverse true
              (Rebal.rotD dp.flip rq.reverse (Rebal.refl _))))
      · exact Rebal.refl t

theorem rbInsFix_rebal (S : α) (rp : List Dir) (t : Tree α) : Rebal S t (rbInsFix S rp t) := by
  unfold rbInsFix
  refine (insFixP_rebal S _ rp (Nat.le_refl _) t).trans ?_
  exact Rebal.col [] false (Rebal.refl _)

/-- **the complete `_insert_into_tree` is the leaf insertion followed by rotations and recolourings** -/
theorem rbInsert_rebal (S : α) (nn : Node α) (t : Tree α) : Rebal S (leafInsert nn t) (rbInsert S nn t) :=
  rbInsFix_rebal S _ _

/-! ### the cases of one iteration of `insFixP` -/

theorem insFixP_black (S : α) (dz dp : Dir) (rq : List Dir) (t : Tree α)
    (h : isRed (subAt (rq.reverse ++ [dp]) t) = false) : insFixP S (dz :: dp :: rq) t = t := by
  rw [insFixP]; simp [h]

theorem insFixP_recol (S : α) (dz dp : Dir) (rq : List Dir) (t : Tree α)
    (h1 : isRed (subAt (rq.reverse ++ [dp]) t) = true) (h2 : isRed (subAt (rq.reverse ++ [dp.flip]) t) = true) :
    insFixP S (dz :: dp :: rq) t =
      insFixP S rq (atPath (setCol true) rq.reverse (atPath (setCol false) (rq.reverse ++ [dp.flip])
        (atPath (setCol false) (rq.reverse ++ [dp]) t))) := by
  rw [insFixP]; simp [h1, h2]

theorem insFixP_outer (S : α) (dp : Dir) (rq : List Dir) (t : Tree α)
    (h1 : isRed (subAt (rq.reverse ++ [dp]) t) = true) (h2 : isRed (subAt (rq.reverse ++ [dp.flip]) t) = false) :
    insFixP S (dp :: dp :: rq) t =
      atPath (rotD S dp.flip) rq.reverse (atPath (setCol true) rq.reverse (atPath (setCol false) (rq.reverse ++ [dp]) t)) := by
  rw [insFixP]; simp [h1, h2]

theorem insFixP_inner (S : α) (dz dp : Dir) (rq : List Dir) (t : Tree α) (hne : dz ≠ dp)
    (h1 : isRed (subAt (rq.reverse ++ [dp]) t) = true) (h2 : isRed (subAt (rq.reverse ++ [dp.flip]) t) = false) :
    insFixP S (dz :: dp :: rq) t =
      atPath (rotD S dp.flip) rq.reverse (atPath (setCol true) rq.reverse (atPath (setCol false) (rq.reverse ++ [dp])
        (atPath (rotD S dp) (rq.reverse ++ [dp]) t))) := by
  rw [insFixP]; simp [h1, h2, hne]

theorem Rebal.snocCol {S : α} {t u : Tree α} (c : Bool) (p : List Dir) (h : Rebal S t u) :
    Rebal S t (atPath (setCol c) p u) := h.trans (Rebal.col p c (Rebal.refl _))

theorem Rebal.snocRot {S : α} {t u : Tree α} (d : Dir) (p : List Dir) (h : Rebal S t u) :
    Rebal S t (atPath (Viewshed.rotD S d) p u) := h.trans (Rebal.rotD d p (Rebal.refl _))

/-- **`_rb_delete_fixup`'s loop only rotates and recolours** -/
theorem delFixP_rebal (S : α) : ∀ (rp : List Dir) (t : Tree α), Rebal S t (delFixP S rp t).1 := by
  intro rp
  induction rp with
  | nil => intro t; simp only [delFixP]; exact Rebal.refl t
  | cons dx rq ih =>
    intro t
    have step : ∀ X, Rebal S t X → Rebal S t (delFixP S rq X).1 := fun X h => h.trans (ih X)
    simp only [delFixP, dfB]
    repeat (first
      | dsimp only
      | apply step
      | apply Rebal.snocCol
      | apply Rebal.snocRot
      | split
      | exact Rebal.refl t)

theorem rbDelFix_rebal (S : α) (rp : List Dir) (t : Tree α) : Rebal S t (rbDelFix S rp t) := by
  unfold rbDelFix
  exact (delFixP_rebal S rp t).trans (Rebal.col _ false (Rebal.refl _))

/-! ### the cases of one iteration of `delFixP` -/

theorem delFixP_nil (S : α) (t : Tree α) : delFixP S [] t = (t, []) := by simp [delFixP]

theorem delFixP_red (S : α) (dx : Dir) (rq : List Dir) (t : Tree α)
    (h : isRed (subAt (rq.reverse ++ [dx]) t) = true) : delFixP S (dx :: rq) t = (t, dx :: rq) := by
  rw [delFixP]; simp only [List.reverse_cons, h, if_true]

theorem delFixP_c1 (S : α) (dx : Dir) (rq : List Dir) (t : Tree α)
    (hx : isRed (subAt (rq.reverse ++ [dx]) t) = false) (hw : isRed (subAt (rq.reverse ++ [dx.flip]) t) = true) :
    delFixP S (dx :: rq) t = dfB S dx true (dx :: rq) (delFixP S rq)
      (atPath (rotD S dx) rq.reverse (atPath (setCol true) rq.reverse (atPath (setCol false) (rq.reverse ++ [dx.flip]) t))) := by
  rw [delFixP]; simp only [List.reverse_cons, hx, hw, Bool.false_eq_true, if_false, if_true]

theorem delFixP_c0 (S : α) (dx : Dir) (rq : List Dir) (t : Tree α)
    (hx : isRed (subAt (rq.reverse ++ [dx]) t) = false) (hw : isRed (subAt (rq.reverse ++ [dx.flip]) t) = false) :
    delFixP S (dx :: rq) t = dfB S dx false rq (delFixP S rq) t := by
  rw [delFixP]; simp only [List.reverse_cons, hx, hw, Bool.false_eq_true, if_false]

theorem dfB_nil (S : α) (dx : Dir) (c1 : Bool) (rq1 : List Dir) (k : Tree α → Tree α × List Dir) (t1 : Tree α)
    (h : subAt (rq1.reverse ++ [dx.flip]) t1 = .nil) : dfB S dx c1 rq1 k t1 = if c1 then (t1, rq1) else k t1 := by
  simp only [dfB, h]

theorem dfB_case2 (S : α) (dx : Dir) (c1 : Bool) (rq1 : List Dir) (k : Tree α → Tree α × List Dir) (t1 : Tree α)
    (wl : Tree α) (wn : Node α) (wm : α) (wc : Bool) (wr : Tree α)
    (h : subAt (rq1.reverse ++ [dx.flip]) t1 = .node wl wn wm wc wr)
    (h1 : isRed (match dx with | .L => wl | .R => wr) = false) (h2 : isRed (match dx with | .L => wr | .R => wl) = false) :
    dfB S dx c1 rq1 k t1 =
      if c1 then (atPath (setCol true) (rq1.reverse ++ [dx.flip]) t1, rq1)
      else k (atPath (setCol true) (rq1.reverse ++ [dx.flip]) t1) := by
  cases dx <;> simp_all [dfB]

theorem dfB_case4 (S : α) (dx : Dir) (c1 : Bool) (rq1 : List Dir) (k : Tree α → Tree α × List Dir) (t1 : Tree α)
    (wl : Tree α) (wn : Node α) (wm : α) (wc : Bool) (wr : Tree α)
    (h : subAt (rq1.reverse ++ [dx.flip]) t1 = .node wl wn wm wc wr)
    (h2 : isRed (match dx with | .L => wr | .R => wl) = true) :
    dfB S dx c1 rq1 k t1 =
      (atPath (rotD S dx) rq1.reverse (atPath (setCol false) (rq1.reverse ++ [dx.flip] ++ [dx.flip])
        (atPath (setCol false) rq1.reverse (atPath (setCol (isRed (subAt rq1.reverse t1))) (rq1.reverse ++ [dx.flip]) t1))), []) := by
  cases dx <;> simp_all [dfB]

theorem dfB_case3 (S : α) (dx : Dir) (c1 : Bool) (rq1 : List Dir) (k : Tree α → Tree α × List Dir) (t1 : Tree α)
    (wl : Tree α) (wn : Node α) (wm : α) (wc : Bool) (wr : Tree α)
    (h : subAt (rq1.reverse ++ [dx.flip]) t1 = .node wl wn wm wc wr)
    (h1 : isRed (match dx with | .L => wl | .R => wr) = true) (h2 : isRed (match dx with | .L => wr | .R => wl) = false) :
    dfB S dx c1 rq1 k t1 =
      (let t3 := atPath (rotD S dx.flip) (rq1.reverse ++ [dx.flip]) (atPath (setCol true) (rq1.reverse ++ [dx.flip])
          (atPath (setCol false) (rq1.reverse ++ [dx.flip] ++ [dx]) t1))
       (atPath (rotD S dx) rq1.reverse (atPath (setCol false) (rq1.reverse ++ [dx.flip] ++ [dx.flip])
        (atPath (setCol false) rq1.reverse (atPath (setCol (isRed (subAt rq1.reverse t3))) (rq1.reverse ++ [dx.flip]) t3))), [])) := by
  cases dx <;> simp_all [dfB]

/-! ### paths -/

theorem subAt_append : ∀ (p q : List Dir) (t : Tree α), subAt (p ++ q) t = subAt q (subAt p t) := by
  intro p
  induction p with
  | nil => intro q t; rfl
  | cons d p ih =>
    intro q t
    cases t with
    | nil => cases d <;> cases q <;> simp [subAt]
    | node l n mx c r => cases d <;> simp [subAt, ih]

theorem isRed_atPath (f : Tree α → Tree α) (p : List Dir) (hp : p ≠ []) (t : Tree α) :
    isRed (atPath f p t) = isRed t := by
  cases p with
  | nil => exact absurd rfl hp
  | cons d p =>
    cases t with
    | nil => rfl
    | node l n mx c r => cases d <;> rfl

theorem isRed_setCol (c : Bool) (t : Tree α) (h : t ≠ .nil) : isRed (setCol c t) = c := by
  cases t with
  | nil => exact absurd rfl h
  | node l n mx c' r => rfl

/-- the complete deletion is `delCore` followed by rotations and recolourings -/
theorem rbDelete_rebal (S k : α) (t t1 : Tree α) (h : rbDelete S k t = some t1) :
    ∃ c, delCore S k t = some c ∧ Rebal S c t1 := by
  unfold rbDelete at h
  cases hs : spliceInfo k t [] with
  | none => rw [hs] at h; simp at h
  | some p =>
    obtain ⟨rp, yred, xnil⟩ := p
    rw [hs] at h
    cases hc : delCore S k t with
    | none => rw [hc] at h; simp at h
    | some c =>
      rw [hc] at h
      simp only [Option.map_some, Option.some.injEq] at h
      refine ⟨c, rfl, ?_⟩
      rw [← h]
      split
      · exact rbDelFix_rebal S rp c
      · exact Rebal.refl c

end XrsVerif.Viewshed
