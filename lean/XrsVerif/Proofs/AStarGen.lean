import XrsVerif.Gen.AStarFacts
import XrsVerif.Proofs.KSimp
import XrsVerif.Proofs.AStarEuclid
import XrsVerif.Proofs.AStarCoord
import Mathlib.Data.Rat.Cast.CharZero
/-
  The pieces of `xrspatial/pathfinding.py` that `harness/facts_astar.py` regenerates from the source on every
  run (`Gen/AStarFacts.lean`: kernels and statements of the kernel language), evaluated over `NV K`
  (`none` = NaN, any linearly ordered field `K` with a square root), and tied to the hand model
  `Model/AStar.lean`:

    distG / heurG            `_distance`, `_heuristic` on pixel indices           = `Trig.sqrt (Δx² + Δy²)`
    heurK_consistent         the generated heuristic never drops by more than the generated step length
    neighbors_generated      `_neighborhood_structure` as the loop sees it        = `nbrsOf`
    relax_generated          the body of the neighbour loop                        = `relax`
    minStep_/minInit_generated   `_min_cost_pixel_id`                              = `minStep`, sentinel `big`
    notCrossable_generated   `_is_not_crossable`                                   = `notCrossableV`
    isInside_/validate_generated   `_is_inside`, the connectivity guard
    pixel_generated          `_get_pixel_id`                                       = `pixelId`
    snapStep_/snapKeep_generated   `_find_nearest_pixel`                           = `nearStep`, `findNearest`

  An edit of the source changes the generated definition and the corresponding theorem stops checking.
-/
set_option linter.unusedSectionVars false
set_option linter.unusedVariables false
set_option linter.unusedSimpArgs false
namespace XrsVerif.AStar
open XrsVerif XrsVerif.Gen.AStarFacts
variable {K : Type} [Field K] [LinearOrder K] [IsStrictOrderedRing K] [Trig K]

/-- bind the parameters of a generated scalar kernel, in the order of its signature -/
def argEnv (k : Kernel) (vals : List (NV K)) : String → NV K := envOf (k.scalars.zip vals)

def sqK (a b : Cell) : K := ((a.2 : K) - (b.2 : K)) * ((a.2 : K) - (b.2 : K)) + ((a.1 : K) - (b.1 : K)) * ((a.1 : K) - (b.1 : K))

def distG (a b : Cell) : NV K :=
  distance.cell (argEnv distance [some (a.2 : K), some (a.1 : K), some (b.2 : K), some (b.1 : K)]) (fun _ _ _ => none) (fun _ => [])
def heurG (a b : Cell) : NV K :=
  heuristic.cell (argEnv heuristic [some (a.2 : K), some (a.1 : K), some (b.2 : K), some (b.1 : K)]) (fun _ _ _ => none) (fun _ => [])

theorem distG_val (a b : Cell) : (distG a b : NV K) = some (Trig.sqrt (sqK a b)) := by
  unfold distG argEnv sqK
  ksimp [distance]
  try (congr 1; ring)

theorem heurG_val (a b : Cell) : (heurG a b : NV K) = some (Trig.sqrt (sqK a b)) := by
  unfold heurG argEnv sqK
  ksimp [heuristic]
  try (congr 1; ring)

/-- what is assumed of `np.sqrt` on non-negative arguments -/
structure SqrtOk (K : Type) [Field K] [LinearOrder K] [IsStrictOrderedRing K] [Trig K] : Prop where
  nonneg : ∀ x : K, 0 ≤ x → 0 ≤ Trig.sqrt x
  sq : ∀ x : K, 0 ≤ x → Trig.sqrt x * Trig.sqrt x = x

theorem sqK_nonneg (a b : Cell) : (0 : K) ≤ sqK a b := by
  unfold sqK; nlinarith [mul_self_nonneg ((a.2 : K) - (b.2 : K)), mul_self_nonneg ((a.1 : K) - (b.1 : K))]

/-- the step length / the heuristic as field elements -/
def stepK (a b : Cell) : K := (distG a b).getD 0
def heurK (a b : Cell) : K := (heurG a b).getD 0

theorem stepK_eq (a b : Cell) : (stepK a b : K) = Trig.sqrt (sqK a b) := by unfold stepK; rw [distG_val]; rfl
theorem heurK_eq (a b : Cell) : (heurK a b : K) = Trig.sqrt (sqK a b) := by unfold heurK; rw [heurG_val]; rfl

theorem sqK_cast (a b : Cell) :
    (sqK a b : K) = (((a.1 - b.1) * (a.1 - b.1) + (a.2 - b.2) * (a.2 - b.2) : Int) : K) := by
  unfold sqK; push_cast; ring

theorem stepK_euclid (hs : SqrtOk K) : IsEuclid (stepK : Cell → Cell → K) :=
  ⟨fun a b => by rw [stepK_eq]; exact hs.nonneg _ (sqK_nonneg a b),
   fun a b => by rw [stepK_eq, hs.sq _ (sqK_nonneg a b), sqK_cast]⟩

theorem heurK_euclid (hs : SqrtOk K) : IsEuclid (heurK : Cell → Cell → K) :=
  ⟨fun a b => by rw [heurK_eq]; exact hs.nonneg _ (sqK_nonneg a b),
   fun a b => by rw [heurK_eq, hs.sq _ (sqK_nonneg a b), sqK_cast]⟩

theorem IsEuclid.unique {d d' : Cell → Cell → K} (h : IsEuclid d) (h' : IsEuclid d') (a b : Cell) : d a b = d' a b := by
  apply le_antisymm
  · exact le_of_mul_self_le' (h'.nonneg a b) (by rw [h.sq, h'.sq])
  · exact le_of_mul_self_le' (h.nonneg a b) (by rw [h.sq, h'.sq])

/-- **the generated heuristic is consistent**: along any step (in particular along every generated
    neighbour offset) it drops by at most the generated step length -/
theorem heurK_consistent (hs : SqrtOk K) (u v goal : Cell) :
    (heurK u goal : K) ≤ stepK u v + heurK v goal := by
  have hd := heurK_euclid hs
  rw [← IsEuclid.unique hd (stepK_euclid hs) u v]
  exact hd.triangle u v goal

theorem heurK_goal (hs : SqrtOk K) (goal : Cell) : (heurK goal goal : K) = 0 := by
  have h := (heurK_euclid hs).sq goal goal
  simp at h
  exact h

theorem sqrt_lt_iff (hs : SqrtOk K) {a b : K} (ha : 0 ≤ a) (hb : 0 ≤ b) : Trig.sqrt a < Trig.sqrt b ↔ a < b := by
  have h1 := hs.sq a ha
  have h2 := hs.sq b hb
  have n1 := hs.nonneg a ha
  have n2 := hs.nonneg b hb
  constructor
  · intro h; nlinarith
  · intro h
    by_contra hn
    have := not_lt.mp hn
    nlinarith

/-! ### small generated pieces -/

/-- neighbours -/
theorem neighbors_generated (conn : Nat) :
    neighborsFor (conn : Int) = nbrsOf conn := by
  unfold neighborsFor nbrsOf connTest
  by_cases h : conn = 8
  · subst h; rfl
  · have : ¬ ((conn : Int) = 8) := by omega
    rw [if_neg this, if_neg h]; rfl

/-- validate -/
theorem validate_generated (conn : Nat) :
    (validate.cellFailed (argEnv validate [some (conn : K)]) (fun _ _ _ => none) (fun _ => [])).isSome ↔ (conn ≠ 4 ∧ conn ≠ 8) := by
  unfold argEnv
  have h4 : ((conn : K) = 4) ↔ conn = 4 := by exact_mod_cast Iff.rfl
  have h8 : ((conn : K) = 8) ↔ conn = 8 := by exact_mod_cast Iff.rfl
  ksimp [validate, h4, h8]
  by_cases a : conn = 4 <;> by_cases b : conn = 8 <;> simp [a, b]

/-- `_is_inside` -/
theorem isInside_generated (h w : Nat) (c : Cell) :
    isInside.cell (argEnv isInside [some (c.1 : K), some (c.2 : K), some (h : K), some (w : K)]) (fun _ _ _ => none) (fun _ => [])
      = some (if inside h w c then 1 else 0) := by
  unfold argEnv
  have z : (0:K) = ((0:Int):K) := by simp
  have hh : (h : K) = (((h:Int)) : K) := by simp
  have hw : (w : K) = (((w:Int)) : K) := by simp
  cases hin : inside h w c with
  | true =>
    obtain ⟨a1, a2, a3, a4⟩ := inside_iff.mp hin
    have b1 : ¬ ((c.1 : K) < 0) := by rw [z, Int.cast_lt]; omega
    have b2 : ¬ ((h : K) ≤ (c.1 : K)) := by rw [hh, Int.cast_le]; omega
    have b3 : ¬ ((c.2 : K) < 0) := by rw [z, Int.cast_lt]; omega
    have b4 : ¬ ((w : K) ≤ (c.2 : K)) := by rw [hw, Int.cast_le]; omega
    ksimp [isInside, b1, b2, b3, b4]
  | false =>
    have hn : ¬ (0 ≤ c.1 ∧ c.1 < (h:Int) ∧ 0 ≤ c.2 ∧ c.2 < (w:Int)) := fun hh => by rw [inside_iff.mpr hh] at hin; cases hin
    by_cases hx : c.2 < 0 ∨ (w : K) ≤ (c.2 : K)
    · by_cases hy : c.1 < 0 ∨ (h : K) ≤ (c.1 : K)
      · ksimp [isInside, hx, hy]
      · ksimp [isInside, hx, hy]
    · have hy : c.1 < 0 ∨ (h : K) ≤ (c.1 : K) := by
        rw [hh, Int.cast_le]
        rw [hw, Int.cast_le] at hx
        omega
      ksimp [isInside, hx, hy]

/-! ### the neighbour loop -/

def b2n (b : Bool) : NV K := some (if b then 1 else 0)

def vecOf (bars : List (NV K)) : String → List (NV K) := fun n => if n = "barriers" then bars else []

/-- `not _is_not_crossable(data[c], barriers)` by the generated condition -/
def crossG (dataV : Cell → NV K) (bars : List (NV K)) (c : Cell) : Bool :=
  !(notCrossable.eval ⟨envOf [("value", dataV c)], fun _ _ _ => none, vecOf bars⟩)

def relaxEnv (e : Env K) (dataV : Cell → NV K) (u off : Cell) (st : St K) : String → NV K :=
  let v : Cell := (u.1 + off.1, u.2 + off.2)
  envOf [ ("u_y", some (u.1:K)), ("u_x", some (u.2:K)), ("off_y", some (off.1:K)), ("off_x", some (off.2 : K)),
          ("rows", some (e.h : K)), ("cols", some (e.w:K)), ("goal_y", some (e.goal.1:K)), ("goal_x", some (e.goal.2 : K)),
          ("data@v", dataV v), ("closed@v", b2n (st.isClosed v)), ("open@v", b2n (st.isOpen v)),
          ("g@u", some (st.g u)), ("g@v", some (st.g v)), ("f@v", some (st.f v))]

/-- the bounds test of the neighbour loop, over the field -/
theorem outside_iff (h w : Nat) (u off : Cell) :
    ((h:K) - 1 < (u.1:K) + (off.1:K) ∨ (u.1:K) + (off.1:K) < 0 ∨ (w:K) - 1 < (u.2:K) + (off.2:K) ∨ (u.2:K) + (off.2:K) < 0)
      ↔ inside h w (u.1 + off.1, u.2 + off.2) = false := by
  have e1 : ((u.1:K) + (off.1:K)) = ((u.1 + off.1 : Int) : K) := by push_cast; ring
  have e2 : ((u.2:K) + (off.2:K)) = ((u.2 + off.2 : Int) : K) := by push_cast; ring
  have e3 : ((h:K) - 1) = (((h:Int) - 1 : Int) : K) := by push_cast; ring
  have e4 : ((w:K) - 1) = (((w:Int) - 1 : Int) : K) := by push_cast; ring
  have z : (0:K) = ((0:Int):K) := by simp
  rw [e1, e2, e3, e4, z]
  simp only [Int.cast_lt]
  rw [← Bool.not_eq_true, inside_iff]
  constructor
  · rintro (h1 | h1 | h1 | h1) <;> omega
  · intro h1; omega


theorem crossG_false_iff (dataV : Cell → NV K) (bars : List (NV K)) (c : Cell) :
    crossG dataV bars c = false ↔ (Fl.isnan (dataV c) = true ∨ ∃ x ∈ bars, Fl.eq x (dataV c) = true) := by
  unfold crossG
  simp [notCrossable, C.eval, E.eval, envOf, vecOf]
  cases Fl.isnan (dataV c) <;> simp

/-- the state a `continue`-free pass of the neighbour loop leaves: `v` opened with parent `u`, new `g`, `f` -/
def relaxed (st : St K) (u v : Cell) (g f : K) : St K :=
  { isOpen := upd st.isOpen v true, isClosed := st.isClosed, g := upd st.g v g, f := upd st.f v f,
    parent := upd st.parent v (some u) }

theorem relax_generated (e : Env K) (wt hh : Cell → Cell → K) (hx : e.ops = fieldOps wt hh)
    (hwt : ∀ a b, wt a b = Trig.sqrt (sqK a b)) (hhh : ∀ a b, hh a b = Trig.sqrt (sqK a b))
    (dataV : Cell → NV K) (bars : List (NV K)) (hc : e.cross = crossG dataV bars) (u off : Cell) (st : St K) :
    let s' := relaxBody.exec (fun _ _ _ => none) (vecOf bars) ⟨relaxEnv e dataV u off st, none, false, none⟩
    s'.failed = none ∧
    (s'.halted = true → relax e u st off = st) ∧
    (s'.halted = false →
      ∃ g f, s'.env "g@v" = some g ∧ s'.env "f@v" = some f ∧ s'.env "open@v" = some 1 ∧
        s'.env "par_y@v" = some (u.1 : K) ∧ s'.env "par_x@v" = some (u.2 : K) ∧
        relax e u st off = relaxed st u (u.1 + off.1, u.2 + off.2) g f) := by
  intro s'
  -- the inlined `_distance` / `_heuristic` calls, in the form evaluation gives them, are the kernels' values
  have h1 := distG_val (K := K) u (u.1 + off.1, u.2 + off.2)
  unfold distG argEnv at h1
  simp [Kernel.cell, S.exec, E.eval, C.eval, CmpOp.eval, BinOp.eval, UnOp.eval, setVar, Fill.val, envOf, distance] at h1
  have h2 := heurG_val (K := K) (u.1 + off.1, u.2 + off.2) e.goal
  unfold heurG argEnv at h2
  simp [Kernel.cell, S.exec, E.eval, C.eval, CmpOp.eval, BinOp.eval, UnOp.eval, setVar, Fill.val, envOf, heuristic] at h2
  have hw := hwt u (u.1 + off.1, u.2 + off.2)
  have hh' := hhh (u.1 + off.1, u.2 + off.2) e.goal
  cases hin : inside e.h e.w (u.1 + off.1, u.2 + off.2) with
  | false =>
    have hb := (outside_iff (K := K) e.h e.w u off).mpr hin
    have hs : s'.halted = true ∧ s'.failed = none := by
      simp only [s']
      unfold relaxEnv
      ksimp [relaxBody, vecOf, b2n, hb]
    refine ⟨hs.2, fun _ => ?_, fun h => by rw [hs.1] at h; cases h⟩
    unfold relax
    simp [hin]
  | true =>
    have hb : ¬ _ := fun h => by rw [(outside_iff (K := K) e.h e.w u off).mp h] at hin; cases hin
    cases hcr : e.cross (u.1 + off.1, u.2 + off.2) with
    | false =>
      have hnc := (crossG_false_iff dataV bars _).mp (by rw [← hc]; exact hcr)
      have hs : s'.halted = true ∧ s'.failed = none := by
        simp only [s']
        unfold relaxEnv
        ksimp [relaxBody, vecOf, b2n, hb, hnc]
      refine ⟨hs.2, fun _ => ?_, fun h => by rw [hs.1] at h; cases h⟩
      unfold relax
      simp [hin, hcr]
    | true =>
      have hnc : ¬ (Fl.isnan (dataV (u.1 + off.1, u.2 + off.2)) = true ∨
          ∃ x ∈ bars, Fl.eq x (dataV (u.1 + off.1, u.2 + off.2)) = true) := fun h => by
        have := (crossG_false_iff dataV bars _).mpr h
        rw [← hc, hcr] at this; cases this
      cases hcl : st.isClosed (u.1 + off.1, u.2 + off.2) with
      | true =>
        have hs : s'.halted = true ∧ s'.failed = none := by
          simp only [s']
          unfold relaxEnv
          ksimp [relaxBody, vecOf, b2n, hb, hnc, hcl]
        refine ⟨hs.2, fun _ => ?_, fun h => by rw [hs.1] at h; cases h⟩
        unfold relax
        simp [hin, hcr, hcl]
      | false =>
        by_cases hsk : st.isOpen (u.1 + off.1, u.2 + off.2) = true ∧
            st.g (u.1 + off.1, u.2 + off.2) < st.g u + wt u (u.1 + off.1, u.2 + off.2)
        · have hsk2 := hsk.2
          rw [hw] at hsk2
          have hs : s'.halted = true ∧ s'.failed = none := by
            simp only [s']
            unfold relaxEnv
            ksimp [relaxBody, vecOf, b2n, hb, hnc, hcl, hsk.1, hsk2, h1, h2]
          refine ⟨hs.2, fun _ => ?_, fun h => by rw [hs.1] at h; cases h⟩
          unfold relax
          simp [hin, hcr, hcl, hx, fieldOps, hsk.1, hsk.2]
        · have hs : s'.halted = false ∧ s'.failed = none ∧
              s'.env "g@v" = some (st.g u + wt u (u.1 + off.1, u.2 + off.2)) ∧
              s'.env "f@v" = some (st.g u + wt u (u.1 + off.1, u.2 + off.2) + hh (u.1 + off.1, u.2 + off.2) e.goal) ∧
              s'.env "open@v" = some 1 ∧ s'.env "par_y@v" = some (u.1 : K) ∧ s'.env "par_x@v" = some (u.2 : K) := by
            rw [hw, hh']
            simp only [s']
            unfold relaxEnv
            cases hop : st.isOpen (u.1 + off.1, u.2 + off.2) with
            | false =>
              ksimp [relaxBody, vecOf, b2n, hb, hnc, hcl, hop, h1, h2]
            | true =>
              have hnlt : ¬ st.g (u.1 + off.1, u.2 + off.2) < st.g u + wt u (u.1 + off.1, u.2 + off.2) := fun h => hsk ⟨hop, h⟩
              rw [hw] at hnlt
              ksimp [relaxBody, vecOf, b2n, hb, hnc, hcl, hop, hnlt, h1, h2]
          refine ⟨hs.2.1, ⟨fun h => (by rw [hs.1] at h; cases h), fun _ => ⟨_, _, hs.2.2.1, hs.2.2.2.1, hs.2.2.2.2.1, hs.2.2.2.2.2.1, hs.2.2.2.2.2.2, ?_⟩⟩⟩
          unfold relax relaxed
          have : (st.isOpen (u.1 + off.1, u.2 + off.2) && decide (st.g (u.1 + off.1, u.2 + off.2) < st.g u + wt u (u.1 + off.1, u.2 + off.2))) = false := by
            cases hop : st.isOpen (u.1 + off.1, u.2 + off.2) with
            | false => simp
            | true => simp; exact not_lt.mp (fun h => hsk ⟨hop, h⟩)
          simp [hin, hcr, hcl, hx, fieldOps, this]

/-- the updates between the pop and the neighbour loop are `close`: the popped cell leaves the open
    list and enters the closed list -/
theorem pop_generated (st : St K) (u : Cell) :
    let s' := popBody.exec (fun _ _ _ => none) (fun _ => [])
      ⟨envOf [("open@u", b2n (st.isOpen u)), ("closed@u", b2n (st.isClosed u))], none, false, none⟩
    s'.env "open@u" = (b2n ((close st u).isOpen u) : NV K) ∧ s'.env "closed@u" = b2n ((close st u).isClosed u) ∧
    s'.failed = none ∧ s'.halted = false := by
  intro s'
  simp only [s']
  refine ⟨?_, ?_, ?_, ?_⟩ <;> ksimp [popBody, b2n, close]

/-! ### `_min_cost_pixel_id` -/

/-- the running minimum of `_min_cost_pixel_id` as its three variables: `(NONE, NONE)` is `(-1, -1)` -/
def accVars (acc : Option Cell × K) : NV K × NV K × NV K :=
  match acc.1 with
  | none => (some (-1), some (-1), some acc.2)
  | some c => (some (c.1 : K), some (c.2 : K), some acc.2)

def readAcc (env : String → NV K) : NV K × NV K × NV K := (env "best_y", env "best_x", env "min_cost")

def minEnv (st : St K) (acc : Option Cell × K) (c : Cell) : String → NV K :=
  envOf [("best_y", (accVars acc).1), ("best_x", (accVars acc).2.1), ("min_cost", (accVars acc).2.2),
         ("i", some (c.1 : K)), ("j", some (c.2 : K)), ("open@c", b2n (st.isOpen c)), ("f@c", some (st.f c))]

/-- one iteration of the scan of `_min_cost_pixel_id` is `minStep` -/
theorem minStep_generated (e : Env K) (wt hh : Cell → Cell → K) (hx : e.ops = fieldOps wt hh) (st : St K)
    (acc : Option Cell × K) (c : Cell) :
    let s' := minCostBody.exec (fun _ _ _ => none) (fun _ => []) ⟨minEnv st acc c, none, false, none⟩
    readAcc s'.env = accVars (minStep e st acc c) ∧ s'.failed = none ∧ s'.halted = false := by
  intro s'
  unfold minStep
  simp only [hx, fieldOps]
  by_cases h : st.isOpen c = true ∧ st.f c < acc.2
  · have : (st.isOpen c && decide (st.f c < acc.2)) = true := by simp [h.1, h.2]
    rw [if_pos this]
    simp only [s']
    unfold minEnv readAcc accVars
    cases acc.1 <;> ksimp [minCostBody, b2n, h.1, h.2]
  · have : ¬ ((st.isOpen c && decide (st.f c < acc.2)) = true) := by
      simp only [Bool.and_eq_true, decide_eq_true_eq]; exact h
    rw [if_neg this]
    simp only [s']
    unfold minEnv readAcc accVars
    cases hop : st.isOpen c with
    | false => cases acc.1 <;> ksimp [minCostBody, b2n, hop]
    | true =>
      have hlt : ¬ st.f c < acc.2 := fun hh => h ⟨hop, hh⟩
      cases acc.1 <;> ksimp [minCostBody, b2n, hop, hlt]

/-- the statements before the scan set the running minimum to `(NONE, NONE)` with the sentinel `(h + w)²` -/
theorem minInit_generated (e : Env K) (wt hh : Cell → Cell → K) (hx : e.ops = fieldOps wt hh) :
    let s' := minCostInit.exec (fun _ _ _ => none) (fun _ => [])
      ⟨envOf [("rows", some (e.h : K)), ("cols", some (e.w : K))], none, false, none⟩
    readAcc s'.env = accVars ((none : Option Cell), e.ops.big e.h e.w) ∧ s'.failed = none ∧ minCostRowMajor = true := by
  intro s'
  simp only [s', hx, fieldOps]
  unfold readAcc accVars
  ksimp [minCostInit, minCostRowMajor]

/-- the variables of one scan iteration from the three result variables -/
def minEnvT (st : St K) (t : NV K × NV K × NV K) (c : Cell) : String → NV K :=
  envOf [("best_y", t.1), ("best_x", t.2.1), ("min_cost", t.2.2),
         ("i", some (c.1 : K)), ("j", some (c.2 : K)), ("open@c", b2n (st.isOpen c)), ("f@c", some (st.f c))]

/-- one generated scan iteration, on the three result variables -/
def genMinStep (st : St K) (t : NV K × NV K × NV K) (c : Cell) : NV K × NV K × NV K :=
  readAcc (minCostBody.exec (fun _ _ _ => none) (fun _ => []) ⟨minEnvT st t c, none, false, none⟩).env

theorem minEnv_eq (st : St K) (acc : Option Cell × K) (c : Cell) : minEnv st acc c = minEnvT st (accVars acc) c := rfl

/-- **the whole scan of `_min_cost_pixel_id`**: running the generated loop body over the cells in row-major
    order from the generated initialisation leaves in `(best_y, best_x)` what `minCostOpen` returns -/
theorem minScan_generated (e : Env K) (wt hh : Cell → Cell → K) (hx : e.ops = fieldOps wt hh) (st : St K) (cs : List Cell)
    (acc : Option Cell × K) :
    cs.foldl (genMinStep st) (accVars acc) = accVars (cs.foldl (minStep e st) acc) := by
  induction cs generalizing acc with
  | nil => rfl
  | cons c t ih =>
    simp only [List.foldl_cons]
    have h := (minStep_generated e wt hh hx st acc c).1
    rw [minEnv_eq] at h
    have : genMinStep st (accVars acc) c = accVars (minStep e st acc c) := h
    rw [this]
    exact ih _

/-! ### `_is_not_crossable` -/

/-- exact values as the proof-side numbers: NaN is `none`; the infinities have no counterpart -/
def valNV : Val → NV K
  | .fin q => some (q : K)
  | _ => none

def Val.finiteOrNaN : Val → Prop
  | .pinf => False
  | .ninf => False
  | _ => True

/-- **the generated `_is_not_crossable` is the model's barrier test** on NaN and finite values:
    NaN, or equal (as real numbers) to one of the listed values -/
theorem notCrossable_generated (v : Val) (bars : List Val) (hv : v.finiteOrNaN) (hb : ∀ b ∈ bars, b.finiteOrNaN) :
    notCrossable.eval ⟨envOf [("value", (valNV v : NV K))], fun _ _ _ => none, vecOf (bars.map valNV)⟩
      = notCrossableV v bars := by
  cases v with
  | nan => simp [notCrossable, C.eval, E.eval, envOf, valNV, notCrossableV]
  | pinf => exact hv.elim
  | ninf => exact hv.elim
  | fin q =>
    simp only [notCrossable, C.eval, E.eval, envOf, vecOf, valNV, notCrossableV]
    simp
    induction bars with
    | nil => simp
    | cons b t ih =>
      have ht := ih (fun x hx => hb x (List.mem_cons_of_mem _ hx))
      have hb0 := hb b (List.mem_cons_self)
      cases b with
      | nan => simpa [valNV, Val.eq] using ht
      | pinf => exact hb0.elim
      | ninf => exact hb0.elim
      | fin r =>
        simp only [List.any_cons, Val.eq]
        rw [ht]
        congr 1
        simp only [Function.comp, valNV, fl_eq, Rat.cast_inj]
        by_cases hqr : q = r
        · subst hqr; simp
        · have : ¬ r = q := fun h => hqr h.symm
          simp [hqr, this]

/-! ### `_find_nearest_pixel` -/

theorem crossG_true_iff (dataV : Cell → NV K) (bars : List (NV K)) (c : Cell) :
    crossG dataV bars c = true ↔ (Fl.isnan (dataV c) = false ∧ ∀ x ∈ bars, Fl.eq x (dataV c) = false) := by
  unfold crossG
  simp [notCrossable, C.eval, E.eval, envOf, vecOf]
theorem sqK_sqDist (a b : Cell) : (sqK a b : K) = ((sqDist a b : Int) : K) := by
  unfold sqK sqDist; push_cast; ring

/-- the candidate of `_find_nearest_pixel` as its variables: `(NONE, NONE)` is `(-1, -1)` -/
def nearVars (acc : Option (Cell × Int)) : NV K × NV K :=
  match acc with
  | none => (some (-1), some (-1))
  | some (c, _) => (some (c.1 : K), some (c.2 : K))

def snapEnv (dataV : Cell → NV K) (p c : Cell) (acc : Option (Cell × Int)) (md : K) : String → NV K :=
  envOf [("y", some (c.1 : K)), ("x", some (c.2 : K)), ("p_y", some (p.1 : K)), ("p_x", some (p.2 : K)),
         ("data@c", dataV c), ("min_distance", some md), ("near_y", (nearVars acc).1), ("near_x", (nearVars acc).2)]

/-- one iteration of the scan of `_find_nearest_pixel` is `nearStep`: the model compares squared
    distances (integers), the code their square roots; `md` is the running `min_distance`
    (for "no candidate yet" any value above the distance at hand: the code starts at infinity,
    `snapInitInf`) -/
theorem snapStep_generated (hs : SqrtOk K) (dataV : Cell → NV K) (bars : List (NV K)) (p c : Cell)
    (acc : Option (Cell × Int)) (md : K)
    (hacc : match acc with
      | none => Trig.sqrt (sqK c p) < md
      | some (_, m) => 0 ≤ m ∧ md = Trig.sqrt ((m : Int) : K)) :
    let s' := snapBody.exec (fun _ _ _ => none) (vecOf bars) ⟨snapEnv dataV p c acc md, none, false, none⟩
    let acc' := nearStep (crossG dataV bars) p acc c
    s'.failed = none ∧ (s'.env "near_y", s'.env "near_x") = nearVars acc' ∧
    s'.env "min_distance" = some (if acc' = acc then md else Trig.sqrt (((sqDist c p : Int)) : K)) ∧
    snapInitInf = true ∧ snapRowMajor = true := by
  intro s' acc'
  have hsq := distG_val (K := K) c p
  unfold distG argEnv at hsq
  simp [Kernel.cell, S.exec, E.eval, C.eval, CmpOp.eval, BinOp.eval, UnOp.eval, setVar, Fill.val, envOf, distance] at hsq
  rw [sqK_sqDist] at hsq
  cases hcr : crossG dataV bars c with
  | false =>
    have hnc : ¬ (Fl.isnan (dataV c) = false ∧ ∀ x ∈ bars, Fl.eq x (dataV c) = false) := fun h => by
      rw [(crossG_true_iff dataV bars c).mpr h] at hcr; cases hcr
    have ha : acc' = acc := by simp only [acc', nearStep, hcr]; rfl
    rw [ha]
    simp only [s']
    unfold snapEnv
    refine ⟨?_, ?_, ?_, rfl, rfl⟩ <;> ksimp [snapBody, vecOf, hnc]
  | true =>
    have hnc1 := ((crossG_true_iff dataV bars c).mp hcr).1
    have hnc : (∀ x ∈ bars, Fl.eq x (dataV c) = false) = True := eq_true ((crossG_true_iff dataV bars c).mp hcr).2
    cases acc with
    | none =>
      have ha : acc' = some (c, sqDist c p) := by simp only [acc', nearStep, hcr]; rfl
      rw [ha]
      simp only at hacc
      rw [sqK_sqDist] at hacc
      simp only [s']
      unfold snapEnv nearVars
      refine ⟨?_, ?_, ?_, rfl, rfl⟩ <;> ksimp [snapBody, vecOf, hnc1, hnc, hacc, hsq]
    | some cm =>
      obtain ⟨c0, m⟩ := cm
      obtain ⟨hm0, hmd⟩ := hacc
      have hlt : Trig.sqrt (((sqDist c p : Int)) : K) < md ↔ sqDist c p < m := by
        rw [hmd, sqrt_lt_iff hs (by exact_mod_cast sqDist_nonneg c p) (by exact_mod_cast hm0)]
        exact Int.cast_lt
      by_cases hd : sqDist c p < m
      · have ha : acc' = some (c, sqDist c p) := by simp only [acc', nearStep, hcr, hd]; simp
        have hne : ¬ ((some (c, sqDist c p) : Option (Cell × Int)) = some (c0, m)) := by
          intro h; injection h with h; injection h with _ h2; omega
        rw [ha, if_neg hne]
        have hlt' := hlt.mpr hd
        simp only [s']
        unfold snapEnv nearVars
        refine ⟨?_, ?_, ?_, rfl, rfl⟩ <;> ksimp [snapBody, vecOf, hnc1, hnc, hsq, hlt']
      · have ha : acc' = some (c0, m) := by simp only [acc', nearStep, hcr, hd]; simp
        rw [ha]
        have hlt' : ¬ Trig.sqrt (((sqDist c p : Int)) : K) < md := fun h => hd (hlt.mp h)
        simp only [s']
        unfold snapEnv nearVars
        refine ⟨?_, ?_, ?_, rfl, rfl⟩ <;> ksimp [snapBody, vecOf, hnc1, hnc, hsq, hlt']

/-- the queried cell is returned unchanged exactly when it is crossable -/
theorem snapKeep_generated (dataV : Cell → NV K) (bars : List (NV K)) (p : Cell) :
    snapKeep.eval ⟨envOf [("data@p", dataV p)], fun _ _ _ => none, vecOf bars⟩ = crossG dataV bars p := by
  unfold crossG
  simp [snapKeep, notCrossable, C.eval, E.eval, envOf]

end XrsVerif.AStar

namespace XrsVerif.AStar
open XrsVerif XrsVerif.Gen.AStarFacts

/-! ### `_get_pixel_id` -/

/-- `_get_pixel_id` (for every interpretation of the transcendental functions: none occurs):
    the row expression under `int(...)` is `|p - c0| / cellsize + 1/2`, a non-negative number, so
    truncation is the floor and the row index is `pixelId` -/
theorem pixel_generated [Trig ℚ] (c0 cs p : ℚ) (hcs : 0 < cs) :
    (∃ q : ℚ, pixelRow.eval ⟨envOf [("point0", some p), ("coords_y0", some c0), ("cellsize_y", some cs)],
        fun _ _ _ => none, fun _ => []⟩ = some q ∧ 0 ≤ q ∧ pixelId c0 cs p = ⌊q⌋) ∧
    (∃ q : ℚ, pixelCol.eval ⟨envOf [("point1", some p), ("coords_x0", some c0), ("cellsize_x", some cs)],
        fun _ _ _ => none, fun _ => []⟩ = some q ∧ 0 ≤ q ∧ pixelId c0 cs p = ⌊q⌋) ∧
    pixelCasts = ["int", "int"] := by
  have hne : cs ≠ 0 := ne_of_gt hcs
  have hq : 0 ≤ |p - c0| / cs + 1 / 2 := by positivity
  refine ⟨⟨|p - c0| / cs + 1 / 2, ?_, hq, pixelId_eq_floor c0 cs p⟩, ⟨|p - c0| / cs + 1 / 2, ?_, hq, pixelId_eq_floor c0 cs p⟩, rfl⟩
  · ksimp [pixelRow, hne]
  · ksimp [pixelCol, hne]

end XrsVerif.AStar
