import XrsVerif.Proofs.ILangVssweep
/-
  Proofs/ILVsInitDefs.lean -- the generated `_init_event_list` (`Gen.IL.vsInitEventList`, 600 lines) cut into named
  pieces: the row copies of the three-row ring buffer `inrast` (the translator turns `inrast[a] = b[c]` into a loop over
  the row and the *view* `tmprast = inrast[0]` into the row index `row$tmprast`), the two inlined `_calc_event_elev`
  (with `_calculate_event_row_col` inside), the three inlined `_calc_event_pos` + `_calculate_angle` + append-to-list.
  `vsInitEventList_is_template : Gen.IL.vsInitEventList.body = initBody` is checked by `rfl`.
-/
namespace XrsVerif.ILSw
open XrsVerif XrsVerif.IL

/-- `dst[<q>r] = src[sv]` (two 2-D arrays): `for <q>k in range(dst.shape[1]): dst[<q>r, <q>k] = src[sv, <q>k]` -/
def rowcp (q dst src sv : String) : St :=
  .forRange (q ++ "k") (.lit 0) (.dim dst 1) (.lit 1)
    (.stF2 dst (.var (q ++ "r")) (.var (q ++ "k")) (.ld2 src (.var sv) (.var (q ++ "k"))))

/-- `event_list[<q>r] = e` -/
def rowcpE (q : String) : St :=
  .forRange (q ++ "k") (.lit 0) (.dim "event_list" 1) (.lit 1)
    (.stF2 "event_list" (.var (q ++ "r")) (.var (q ++ "k")) (.ld1 "e" (.var (q ++ "k"))))

/-- the body of `_calc_event_elev` (locals prefixed `p`, the inlined `_calculate_event_row_col` prefixed `q`) -/
def elevBody (p q : String) : St :=
  (.seq (.setF (q ++ "event_type") (.var (p ++ "event_type")))
  (.seq (.setI (q ++ "event_row") (.var (p ++ "event_row")))
  (.seq (.setI (q ++ "event_col") (.var (p ++ "event_col")))
  (.seq (.setI (q ++ "viewpoint_row") (.var (p ++ "viewpoint_row")))
  (.seq (.setI (q ++ "viewpoint_col") (.var (p ++ "viewpoint_col")))
  (.seq (.scope (rcBody .num q))
  (.seq (.setI (p ++ "row1") (.var (q ++ "ret0")))
  (.seq (.setI (p ++ "col1") (.var (q ++ "ret1")))
  (.seq (.setF (p ++ "event_elev") (.ld2 "inrast" (.lit 1) (.var (p ++ "event_col"))))
  (.seq (.ite (.and (.and (.cmpI .le (.lit 0) (.var (p ++ "row1"))) (.cmpI .lt (.var (p ++ "row1")) (.var (p ++ "n_rows"))))
                    (.and (.cmpI .le (.lit 0) (.var (p ++ "col1"))) (.cmpI .lt (.var (p ++ "col1")) (.var (p ++ "n_cols")))))
    (.seq (.setF (p ++ "elev1") (.ld2 "inrast" (.bin .add (.bin .sub (.var (p ++ "row1")) (.var (p ++ "event_row"))) (.lit 1)) (.var (p ++ "col1"))))
    (.seq (.setF (p ++ "elev2") (.ld2 "inrast" (.bin .add (.bin .sub (.var (p ++ "row1")) (.var (p ++ "event_row"))) (.lit 1)) (.var (p ++ "event_col"))))
    (.seq (.setF (p ++ "elev3") (.ld2 "inrast" (.lit 1) (.var (p ++ "col1"))))
    (.seq (.setF (p ++ "elev4") (.ld2 "inrast" (.lit 1) (.var (p ++ "event_col"))))
    (.ite (.or (.isnan (.var (p ++ "elev1"))) (.or (.isnan (.var (p ++ "elev2"))) (.or (.isnan (.var (p ++ "elev3"))) (.isnan (.var (p ++ "elev4"))))))
      (.setF (p ++ "event_elev") (.ld2 "inrast" (.lit 1) (.var (p ++ "event_col"))))
      (.setF (p ++ "event_elev") (.bin .div (.bin .add (.bin .add (.bin .add (.var (p ++ "elev1")) (.var (p ++ "elev2"))) (.var (p ++ "elev3"))) (.var (p ++ "elev4"))) (.lit 4 1))))))))
    .skip)
  (.seq (.setF (p ++ "ret0") (.var (p ++ "event_elev")))
  .ret)))))))))))

/-- `e[E_TYPE_ID] = ty; e[idx] = _calc_event_elev(e[E_TYPE_ID], e_row, e_col, n_rows, n_cols, vp_row, vp_col, inrast)` -/
def elevCall (p q : String) (ty idx : Int) (rest : St) : St :=
  (.seq (.stF1 "e" (.lit 2) (.ofInt (.lit ty)))
  (.seq (.setF (p ++ "event_type") (.ld1 "e" (.lit 2)))
  (.seq (.setI (p ++ "event_row") (.var "e_row"))
  (.seq (.setI (p ++ "event_col") (.var "e_col"))
  (.seq (.setI (p ++ "n_rows") (.var "n_rows"))
  (.seq (.setI (p ++ "n_cols") (.var "n_cols"))
  (.seq (.setI (p ++ "viewpoint_row") (.var "vp_row"))
  (.seq (.setI (p ++ "viewpoint_col") (.var "vp_col"))
  (.seq (.scope (elevBody p q))
  (.seq (.stF1 "e" (.lit idx) (.var (p ++ "ret0")))
  rest))))))))))

/-- `e[E_TYPE_ID] = ty; ay, ax = _calc_event_pos(…); e[E_ANG_ID] = _calculate_angle(ax, ay, vp_col, vp_row)` -/
def posAng (p a : String) (ty : Int) (rest : St) : St :=
  (.seq (.stF1 "e" (.lit 2) (.ofInt (.lit ty)))
  (.seq (.setF (p ++ "event_type") (.ld1 "e" (.lit 2)))
  (.seq (.setI (p ++ "event_row") (.var "e_row"))
  (.seq (.setI (p ++ "event_col") (.var "e_col"))
  (.seq (.setI (p ++ "viewpoint_row") (.var "vp_row"))
  (.seq (.setI (p ++ "viewpoint_col") (.var "vp_col"))
  (.seq (.scope (posBody .num p))
  (.seq (.setF "ay" (.var (p ++ "ret0")))
  (.seq (.setF "ax" (.var (p ++ "ret1")))
  (.seq (.setF (a ++ "event_x") (.var "ax"))
  (.seq (.setF (a ++ "event_y") (.var "ay"))
  (.seq (.setI (a ++ "viewpoint_x") (.var "vp_col"))
  (.seq (.setI (a ++ "viewpoint_y") (.var "vp_row"))
  (.seq (.scope (angBody a))
  (.seq (.stF1 "e" (.lit 3) (.var (a ++ "ret0")))
  rest)))))))))))))))

/-- `event_list[count_event] = e` -/
def appendE (cp : String) (rest : St) : St :=
  (.seq (.setI (cp ++ "r") (.var "count_event"))
  (.seq (rowcpE cp)
  rest))

def countUp : St := .setI "count_event" (.bin .add (.var "count_event") (.lit 1))

/-- the three `data[k][j] = e[f k]` of the observer's row -/
def dataWrite (f0 f1 f2 : Int) : St :=
  .ite (.cmpI .eq (.var "i") (.var "vp_row"))
    (.seq (.stF2 "data" (.lit 0) (.var "j") (.ld1 "e" (.lit f0)))
    (.seq (.stF2 "data" (.lit 1) (.var "j") (.ld1 "e" (.lit f1)))
    (.stF2 "data" (.lit 2) (.var "j") (.ld1 "e" (.lit f2)))))
    .skip

/-- `if i == vp_row and j == vp_col: _set_visibility(visibility_grid, i, j, 180); continue` -/
def obsSkip : St :=
  .ite (.and (.cmpI .eq (.var "i") (.var "vp_row")) (.cmpI .eq (.var "j") (.var "vp_col")))
    (.seq (.setI "_set_visibility1$i" (.var "i"))
    (.seq (.setI "_set_visibility1$j" (.var "j"))
    (.seq (.setI "_set_visibility1$value" (.lit 180))
    (.seq (.scope (.seq (.stF2 "visibility_grid" (.var "_set_visibility1$i") (.var "_set_visibility1$j") (.ofInt (.var "_set_visibility1$value")))
    .ret))
    .cont))))
    .skip

/-- what follows the `continue`, from the back: the three events … -/
def ev9 : St := posAng "_calc_event_pos10$" "_calculate_angle11$" (-1) (appendE "rowcp8$" countUp)
def ev8 : St := .seq countUp ev9
def ev7 : St := posAng "_calc_event_pos8$" "_calculate_angle9$" 0 (appendE "rowcp7$" ev8)
def ev6 : St := .seq countUp ev7
def ev5 : St := posAng "_calc_event_pos6$" "_calculate_angle7$" 1 (appendE "rowcp6$" ev6)
/-- … the observer-row buffer … -/
def ev4 : St := .seq (dataWrite 4 5 6) ev5
/-- … the two corner elevations -/
def ev3 : St := elevCall "_calc_event_elev4$" "_calc_event_elev4$_calculate_event_row_col5$" (-1) 6 ev4
def cellEvents3 : St := elevCall "_calc_event_elev2$" "_calc_event_elev2$_calculate_event_row_col3$" 1 4 ev3

/-- the body of `for j in range(n_cols)` -/
def cellBody : St :=
  (.seq (.setI "e_row" (.var "i"))
  (.seq (.setI "e_col" (.var "j"))
  (.seq (.stF1 "e" (.lit 0) (.ofInt (.var "i")))
  (.seq (.stF1 "e" (.lit 1) (.ofInt (.var "j")))
  (.seq (.stF1 "e" (.lit 5) (.ld2 "inrast" (.lit 1) (.var "j")))
  (.seq (dataWrite 5 5 5)
  (.seq obsSkip
  cellEvents3)))))))

/-- the rotation of the ring buffer at the head of `for i in range(n_rows)` and the read of the next raster row -/
def ringStep : List St :=
  [.setI "row$tmprast" (.lit 0),
   .setI "rowcp2$r" (.lit 0), .setI "rowcp2$s" (.lit 1), rowcp "rowcp2$" "inrast" "inrast" "rowcp2$s",
   .setI "rowcp3$r" (.lit 1), .setI "rowcp3$s" (.lit 2), rowcp "rowcp3$" "inrast" "inrast" "rowcp3$s",
   .setI "rowcp4$r" (.lit 2), rowcp "rowcp4$" "inrast" "inrast" "row$tmprast",
   .ite (.cmpI .lt (.var "i") (.bin .sub (.var "n_rows") (.lit 1)))
     (.seq (.setI "rowcp5$r" (.lit 2))
     (.seq (.setI "rowcp5$s" (.bin .add (.var "i") (.lit 1)))
     (rowcp "rowcp5$" "inrast" "raster" "rowcp5$s")))
     (.forRange "j" (.lit 0) (.var "n_cols") (.lit 1) (.stF2 "inrast" (.lit 2) (.var "j") .nan))]

def cellLoop : St := .forRange "j" (.lit 0) (.var "n_cols") (.lit 1) cellBody

def rowBody : St := ILVs.seqK ringStep cellLoop

def initPrologue : List St :=
  [.setI "n_rows" (.dim "raster" 0), .setI "n_cols" (.dim "raster" 1),
   .allocF "inrast" [(.lit 3), (.var "n_cols")] (.lit 0 1),
   .allocF "inrast" [(.dim "inrast" 0), (.dim "inrast" 1)] .nan,
   .setI "rowcp1$r" (.lit 2), .setI "rowcp1$s" (.lit 0), rowcp "rowcp1$" "inrast" "raster" "rowcp1$s",
   .allocF "e" [(.lit 7)] (.lit 0 1),
   .setI "count_event" (.lit 0)]

def rowLoop : St := .forRange "i" (.lit 0) (.var "n_rows") (.lit 1) rowBody

def initBody : St := ILVs.seqK initPrologue (.seq rowLoop .ret)

/-- **the generated `_init_event_list` is this template** (every inlined callee an instance of its own template) -/
theorem vsInitEventList_is_template : Gen.IL.vsInitEventList.body = initBody := by rfl

end XrsVerif.ILSw
