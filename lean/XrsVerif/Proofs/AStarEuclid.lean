import XrsVerif.Proofs.AStarOpt
/-
  The Euclidean step length / heuristic of pathfinding.py (`_distance`, `_heuristic`) in an
  ordered field: any function `d` with `0 ≤ d a b` and `d a b ^ 2 = Δy² + Δx²`.  Such a `d`
  is consistent (triangle inequality), its steps are `1` or a square root of two, and it stays
  below `h + w` inside the raster -- the hypotheses of `search_exact`.
-/
set_option linter.unusedSectionVars false
set_option linter.unusedVariables false
namespace XrsVerif.AStar
variable {K : Type} [Field K] [LinearOrder K] [IsStrictOrderedRing K]

structure IsEuclid (d : Cell → Cell → K) : Prop where
  nonneg : ∀ a b, 0 ≤ d a b
  sq : ∀ a b, d a b * d a b =
    (((a.1 - b.1) * (a.1 - b.1) + (a.2 - b.2) * (a.2 - b.2) : Int) : K)

theorem le_of_mul_self_le' {a b : K} (hb : 0 ≤ b) (h : a * a ≤ b * b) : a ≤ b := by
  by_contra hlt
  have hlt' : b < a := not_le.mp hlt
  have : b * b < a * a := by nlinarith
  linarith

variable {d : Cell → Cell → K}

theorem IsEuclid.triangle (hd : IsEuclid d) (a b c : Cell) : d a c ≤ d a b + d b c := by
  have hq := hd.nonneg a b
  have hr := hd.nonneg b c
  apply le_of_mul_self_le' (by linarith)
  have e1 := hd.sq a c
  have e2 := hd.sq a b
  have e3 := hd.sq b c
  push_cast at e1 e2 e3
  -- coordinates in K
  generalize (a.1 : K) = a1 at *
  generalize (a.2 : K) = a2 at *
  generalize (b.1 : K) = b1 at *
  generalize (b.2 : K) = b2 at *
  generalize (c.1 : K) = c1 at *
  generalize (c.2 : K) = c2 at *
  -- Cauchy-Schwarz for the cross term
  have hcs : (a1 - b1) * (b1 - c1) + (a2 - b2) * (b2 - c2) ≤ d a b * d b c := by
    apply le_of_mul_self_le' (mul_nonneg hq hr)
    have : d a b * d b c * (d a b * d b c) = (d a b * d a b) * (d b c * d b c) := by ring
    rw [this, e2, e3]
    nlinarith [mul_self_nonneg ((a1 - b1) * (b2 - c2) - (a2 - b2) * (b1 - c1))]
  nlinarith

/-- a square root of two: the length of the diagonal step -/
def IsEuclid.sqrt2 (d : Cell → Cell → K) : K := d (0, 0) (1, 1)

theorem IsEuclid.sqrt2_sq (hd : IsEuclid d) : IsEuclid.sqrt2 d * IsEuclid.sqrt2 d = 2 := by
  have := hd.sq (0, 0) (1, 1)
  simp only [IsEuclid.sqrt2]
  rw [this]; norm_num

theorem IsEuclid.sqrt2_bounds (hd : IsEuclid d) : 1 < IsEuclid.sqrt2 d ∧ IsEuclid.sqrt2 d < 2 := by
  have h0 : 0 ≤ IsEuclid.sqrt2 d := hd.nonneg _ _
  have h2 := hd.sqrt2_sq
  constructor
  · by_contra h; have := not_lt.mp h; nlinarith
  · by_contra h; have := not_lt.mp h; nlinarith

/-- the length of one allowed step: `1` along a row or column, a square root of two diagonally -/
theorem IsEuclid.step_len (hd : IsEuclid d) (u off : Cell) (hoff : off ∈ nbrs8) :
    (d u (u.1 + off.1, u.2 + off.2) = 1 ∧ (off.1 = 0 ∨ off.2 = 0)) ∨
    (d u (u.1 + off.1, u.2 + off.2) = IsEuclid.sqrt2 d ∧ off.1 ≠ 0 ∧ off.2 ≠ 0) := by
  have hnn := hd.nonneg u (u.1 + off.1, u.2 + off.2)
  have hsq := hd.sq u (u.1 + off.1, u.2 + off.2)
  have h2 := hd.sqrt2_sq
  have h20 : 0 ≤ IsEuclid.sqrt2 d := hd.nonneg _ _
  have e : ∀ x : Int, (x - (x + off.1)) * (x - (x + off.1)) = off.1 * off.1 := by intro x; ring
  have e' : ∀ x : Int, (x - (x + off.2)) * (x - (x + off.2)) = off.2 * off.2 := by intro x; ring
  simp only [e, e'] at hsq
  have one : ∀ x : K, 0 ≤ x → x * x = 1 → x = 1 := by
    intro x hx hxx
    have : (x - 1) * (x + 1) = 0 := by ring_nf; linarith
    rcases mul_eq_zero.mp this with h | h
    · linarith
    · linarith
  have two : ∀ x : K, 0 ≤ x → x * x = 2 → x = IsEuclid.sqrt2 d := by
    intro x hx hxx
    apply le_antisymm
    · exact le_of_mul_self_le' h20 (by rw [hxx, h2])
    · exact le_of_mul_self_le' hx (by rw [hxx, h2])
  simp only [nbrs8, List.mem_cons, List.mem_nil_iff, or_false] at hoff
  rcases hoff with rfl | rfl | rfl | rfl | rfl | rfl | rfl | rfl
  · right; exact ⟨two _ hnn (by rw [hsq]; norm_num), by simp⟩
  · left; exact ⟨one _ hnn (by rw [hsq]; norm_num), by simp⟩
  · right; exact ⟨two _ hnn (by rw [hsq]; norm_num), by simp⟩
  · left; exact ⟨one _ hnn (by rw [hsq]; norm_num), by simp⟩
  · left; exact ⟨one _ hnn (by rw [hsq]; norm_num), by simp⟩
  · right; exact ⟨two _ hnn (by rw [hsq]; norm_num), by simp⟩
  · left; exact ⟨one _ hnn (by rw [hsq]; norm_num), by simp⟩
  · right; exact ⟨two _ hnn (by rw [hsq]; norm_num), by simp⟩

theorem nbrs4_sub_nbrs8 {off : Cell} (h : off ∈ nbrs4) : off ∈ nbrs8 := by
  simp only [nbrs4, List.mem_cons, List.mem_nil_iff, or_false] at h
  rcases h with rfl | rfl | rfl | rfl <;> simp [nbrs8]

theorem nbrsOf_sub_nbrs8 {conn : Nat} {off : Cell} (h : off ∈ nbrsOf conn) : off ∈ nbrs8 := by
  unfold nbrsOf at h
  split at h
  · exact h
  · exact nbrs4_sub_nbrs8 h

/-- with 4-connectivity every step is along a row or a column -/
theorem nbrs4_straight {off : Cell} (h : off ∈ nbrs4) : off.1 = 0 ∨ off.2 = 0 := by
  simp only [nbrs4, List.mem_cons, List.mem_nil_iff, or_false] at h
  rcases h with rfl | rfl | rfl | rfl <;> simp

/-- inside the raster the Euclidean heuristic stays below `h + w` -/
theorem IsEuclid.le_h_add_w (hd : IsEuclid d) {h w : Nat} {a b : Cell}
    (ha : inside h w a = true) (hb : inside h w b = true) : d a b ≤ (h : K) + (w : K) := by
  obtain ⟨a1, a2, a3, a4⟩ := inside_iff.mp ha
  obtain ⟨b1, b2, b3, b4⟩ := inside_iff.mp hb
  have hH : (0 : K) ≤ (h : K) := by positivity
  have hW : (0 : K) ≤ (w : K) := by positivity
  apply le_of_mul_self_le' (by linarith)
  rw [hd.sq]
  have i1 : (a.1 - b.1) * (a.1 - b.1) ≤ (h : Int) * (h : Int) := by nlinarith
  have i2 : (a.2 - b.2) * (a.2 - b.2) ≤ (w : Int) * (w : Int) := by nlinarith
  have i3 : (((a.1 - b.1) * (a.1 - b.1) + (a.2 - b.2) * (a.2 - b.2) : Int) : K) ≤
      (((h : Int) * (h : Int) + (w : Int) * (w : Int) : Int) : K) := by
    exact_mod_cast add_le_add i1 i2
  push_cast at i3 ⊢
  nlinarith

end XrsVerif.AStar
