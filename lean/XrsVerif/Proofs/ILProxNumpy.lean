import XrsVerif.Proofs.ILProxLines
/-
  Proofs/ILProxNumpy.lean -- step 4 (end): the two passes of the generated `_process._process_numpy` are the model's
  `tdN` / `buN`, the whole program refines `Prox.run`; `proxAt` / `allocAt` are read off `img_distance` / `output_img`.
-/
namespace XrsVerif.IL.Px
open XrsVerif XrsVerif.Prox
variable {F : Type} [Fl F]
set_option linter.unusedSectionVars false
set_option linter.unusedSimpArgs false
attribute [-simp] List.getD_eq_getElem?_getD
attribute [local simp] List.getD_cons_zero List.getD_cons_succ

/-- **hypotheses on the inputs of `_process_numpy`** (state `s0` at entry), for a model configuration `c`, an
    embedding `emb` of squared distances and a target predicate `tg` -/
structure PNInput (c : Cfg) (emb : Nat → F) (tg : Nat → Nat → Bool) (s0 : State F) : Prop where
  run : s0.ctl = .run
  /-- well-formed arrays: `img`, `x_coords`, `y_coords` of shape `H × W`, `target_values` 1-D -/
  img : s0.shp "img" = [c.H, c.W]
  xc : s0.shp "x_coords" = [c.H, c.W]
  yc : s0.shp "y_coords" = [c.H, c.W]
  tv : s0.shp "target_values" = [(s0.fa "target_values").length]
  /-- the number domain (`Arith`) for `max_distance` -/
  arith : Arith c emb (s0.fenv "max_distance")
  /-- the `-1.0` every line starts with is negative -/
  neg1 : Fl.lt (Fl.neg (Fl.lit 1 1) : F) (Fl.lit 0 1) = true
  /-- `_distance` on the coordinate grids, squared, is the model's `dist2` -/
  d2 : ∀ tr tc r p, tr < c.H → tc < c.W → r < c.H → p < c.W → pnDist2 c.W s0 tr tc r p = emb (dist2 c tr tc r p)
  /-- the target test on the raster is the model's target predicate -/
  tgt : ∀ r p, r < c.H → p < c.W →
    targetTest ((s0.fa "img").getD (r * c.W + p) Fl.nan) (s0.fa "target_values") = tg r p

/-- what holds of every state between the lines of the passes -/
structure PNStatic (c : Cfg) (s0 st : State F) : Prop where
  run : st.ctl = .run
  px : st.shp "pan_near_x" = [c.W]
  py : st.shp "pan_near_y" = [c.W]
  nx : st.shp "nearest_xs" = [c.W]
  ny : st.shp "nearest_ys" = [c.W]
  scan : st.shp "scan_line" = [c.W]
  img : st.shp "img" = [c.H, c.W]
  xc : st.shp "x_coords" = [c.H, c.W]
  yc : st.shp "y_coords" = [c.H, c.W]
  out : st.shp "output_img" = [c.H, c.W]
  dist : st.shp "img_distance" = [c.H, c.W]
  tv : st.shp "target_values" = [(s0.fa "target_values").length]
  lpx : (st.ia "pan_near_x").length = c.W
  lpy : (st.ia "pan_near_y").length = c.W
  lnx : (st.ia "nearest_xs").length = c.W
  lny : (st.ia "nearest_ys").length = c.W
  lscan : (st.fa "scan_line").length = c.W
  lout : (st.fa "output_img").length = c.H * c.W
  ldist : (st.fa "img_distance").length = c.H * c.W
  height : st.ienv "height" = c.H
  width : st.ienv "width" = c.W
  mode : st.ienv "process_mode" = s0.ienv "process_mode"
  metric : st.ienv "distance_metric" = s0.ienv "distance_metric"
  maxd : st.fenv "max_distance" = s0.fenv "max_distance"
  fimg : st.fa "img" = s0.fa "img"
  fxc : st.fa "x_coords" = s0.fa "x_coords"
  fyc : st.fa "y_coords" = s0.fa "y_coords"
  ftv : st.fa "target_values" = s0.fa "target_values"
  ext : st.ext = s0.ext

variable {c : Cfg} {emb : Nat → F} {tg : Nat → Nat → Bool}

theorem PNStatic.lineCtx {s0 st : State F} (inp : PNInput c emb tg s0) (h : PNStatic c s0 st) (n : Nat) (hn : n < c.H)
    (hline : st.ienv "line" = n) : LineCtx c emb tg n st := by
  refine ⟨h.run, hn, hline, h.width, h.px, h.py, h.nx, h.ny, h.scan, h.img, h.xc, h.yc, h.out, h.dist,
    by rw [h.tv, h.ftv], h.lpx, h.lpy, h.lnx, h.lny, h.lscan, h.lout, h.ldist, by rw [h.maxd]; exact inp.arith, ?_, ?_,
    inp.neg1⟩
  · intro tr tc r p h1 h2 h3 h4
    have := inp.d2 tr tc r p h1 h2 h3 h4
    simpa [pnDist2, h.fxc, h.fyc, h.ext, h.metric] using this
  · intro p hp
    rw [h.fimg, h.ftv]; exact inp.tgt n p hn hp

/-- setting the loop variable `line` -/
theorem PNStatic.setLine {s0 st : State F} (h : PNStatic c s0 st) (v : Int) :
    PNStatic c s0 { st with ienv := setS st.ienv "line" v } := by
  refine ⟨h.run, h.px, h.py, h.nx, h.ny, h.scan, h.img, h.xc, h.yc, h.out, h.dist, h.tv, h.lpx, h.lpy, h.lnx, h.lny,
    h.lscan, h.lout, h.ldist, ?_, ?_, ?_, ?_, h.maxd, h.fimg, h.fxc, h.fyc, h.ftv, h.ext⟩
  · simpa [setS] using h.height
  · simpa [setS] using h.width
  · simpa [setS] using h.mode
  · simpa [setS] using h.metric

theorem PNStatic.of_pass {s0 st r : State F} (h : PNStatic c s0 st) (f : PassFrame c.W st r) (hr : r.ctl = .run)
    (lout : (r.fa "output_img").length = c.H * c.W) (ldist : (r.fa "img_distance").length = c.H * c.W) :
    PNStatic c s0 r := by
  refine ⟨hr, by rw [f.shp _ (by decide)]; exact h.px, by rw [f.shp _ (by decide)]; exact h.py,
    by rw [f.shp _ (by decide)]; exact h.nx, by rw [f.shp _ (by decide)]; exact h.ny,
    by rw [f.shp _ (by decide)]; exact h.scan, by rw [f.shp _ (by decide)]; exact h.img,
    by rw [f.shp _ (by decide)]; exact h.xc, by rw [f.shp _ (by decide)]; exact h.yc,
    by rw [f.shp _ (by decide)]; exact h.out, by rw [f.shp _ (by decide)]; exact h.dist,
    by rw [f.shp _ (by decide)]; exact h.tv, f.lpx, f.lpy, f.lnx, f.lny, f.lscan, lout, ldist,
    by rw [f.ienv _ (by decide) (by decide)]; exact h.height, by rw [f.ienv _ (by decide) (by decide)]; exact h.width,
    by rw [f.ienv _ (by decide) (by decide)]; exact h.mode, by rw [f.ienv _ (by decide) (by decide)]; exact h.metric,
    by rw [f.fenv _ (by decide)]; exact h.maxd,
    by rw [f.fa _ (by decide) (by decide) (by decide) (by decide)]; exact h.fimg,
    by rw [f.fa _ (by decide) (by decide) (by decide) (by decide)]; exact h.fxc,
    by rw [f.fa _ (by decide) (by decide) (by decide) (by decide)]; exact h.fyc,
    by rw [f.fa _ (by decide) (by decide) (by decide) (by decide)]; exact h.ftv,
    by rw [f.ext]; exact h.ext⟩

/-! ### allocations -/

/-- the state after the six statements before the first `pan_near` reset -/
def initSt1 (s0 : State F) (H W : Nat) : State F :=
  { s0 with
    ienv := setS (setS s0.ienv "height" (H : Int)) "width" (W : Int)
    shp := setS (setS (setS (setS s0.shp "pan_near_x" [W]) "pan_near_y" [W]) "output_img" [H, W]) "img_distance" [H, W]
    ia := setS (setS s0.ia "pan_near_x" (List.replicate W 0)) "pan_near_y" (List.replicate W 0)
    fa := setS (setS s0.fa "output_img" (List.replicate (H * W) Fl.nan)) "img_distance" (List.replicate (H * W) (Fl.lit 0 1)) }

/-- the state after the three allocations that follow it -/
def initSt2 (s : State F) (W : Nat) : State F :=
  { s with
    shp := setS (setS (setS s.shp "scan_line" [W]) "nearest_xs" [W]) "nearest_ys" [W]
    ia := setS (setS s.ia "nearest_xs" (List.replicate W 0)) "nearest_ys" (List.replicate W 0)
    fa := setS s.fa "scan_line" (List.replicate W (Fl.lit 0 1)) }

/-- the allocations and the first reset establish the invariant of the passes -/
theorem pnInit_exec (s0 : State F) (fuel : Nat) (inp : PNInput c emb tg s0) (rest : St) :
    ∃ sI : State F, exec fuel (pnInit rest) s0 = exec fuel rest sI ∧ PNStatic c s0 sI ∧
      (∀ q, q < c.W → (sI.ia "pan_near_x").getD q 0 = -1) ∧
      (∀ j, j < c.H * c.W → (sI.fa "output_img").getD j Fl.nan = Fl.nan) := by
  have hs := inp.run
  -- up to the reset
  have h1 : ∀ tail : St, exec fuel
      (.seq (.setI "height" (.dim "img" 0))
      (.seq (.setI "width" (.dim "img" 1))
      (.seq (.allocI "pan_near_x" [(.var "width")] (.lit 0))
      (.seq (.allocI "pan_near_y" [(.var "width")] (.lit 0))
      (.seq (.allocF "output_img" [(.var "height"), (.var "width")] .nan)
      (.seq (.allocF "img_distance" [(.var "height"), (.var "width")] (.lit 0 1))
      tail)))))) s0 = exec fuel tail (initSt1 s0 c.H c.W) := by
    intro tail
    generalize hX : (exec fuel tail : State F → State F) = X
    simp [exec, exec_seq, hs, IE.ok, IE.eval, FE.ok, FE.eval, setS, inp.img, hX, initSt1]
  rw [pnInit, h1]
  generalize hA : initSt1 s0 c.H c.W = sA
  have eA : sA.ctl = .run ∧ sA.ienv "height" = c.H ∧ sA.ienv "width" = c.W ∧
      (∀ v, v ≠ "height" → v ≠ "width" → sA.ienv v = s0.ienv v) ∧ sA.fenv = s0.fenv ∧ sA.ext = s0.ext ∧
      sA.shp "pan_near_x" = [c.W] ∧ sA.shp "pan_near_y" = [c.W] ∧ sA.shp "output_img" = [c.H, c.W] ∧
      sA.shp "img_distance" = [c.H, c.W] ∧
      (∀ a, a ≠ "pan_near_x" → a ≠ "pan_near_y" → a ≠ "output_img" → a ≠ "img_distance" → sA.shp a = s0.shp a) ∧
      (sA.ia "pan_near_x").length = c.W ∧ (sA.ia "pan_near_y").length = c.W ∧
      sA.fa "output_img" = List.replicate (c.H * c.W) Fl.nan ∧
      (sA.fa "img_distance").length = c.H * c.W ∧
      (∀ a, a ≠ "output_img" → a ≠ "img_distance" → sA.fa a = s0.fa a) := by
    subst hA
    refine ⟨hs, by simp [initSt1, setS], by simp [initSt1, setS], fun v h1 h2 => by simp [initSt1, setS, h1, h2], rfl, rfl,
      by simp [initSt1, setS], by simp [initSt1, setS], by simp [initSt1, setS], by simp [initSt1, setS],
      fun a h1 h2 h3 h4 => by simp [initSt1, setS, h1, h2, h3, h4], by simp [initSt1, setS], by simp [initSt1, setS],
      by simp [initSt1, setS], by simp [initSt1, setS], fun a h1 h2 => by simp [initSt1, setS, h1, h2]⟩
  obtain ⟨cA, hA1, wA, iA, feA, exA, s1, s2, s3, s4, sO, l1, l2, fo, ld, fO⟩ := eA
  -- the reset
  obtain ⟨cB, fB, lB1, lB2, vB⟩ := resetPan_exec sA fuel c.W cA wA s1 s2 l1 l2
  rw [exec_seq_run _ _ _ _ cB]
  generalize hB : exec fuel resetPan sA = sB at cB fB lB1 lB2 vB
  -- scan_line, nearest_xs, nearest_ys
  have wB : sB.ienv "width" = c.W := by rw [fB.ienv _ (by decide)]; exact wA
  have h2 : exec fuel
      (.seq (.allocF "scan_line" [(.var "width")] (.lit 0 1))
      (.seq (.allocI "nearest_xs" [(.var "width")] (.lit 0))
      (.seq (.allocI "nearest_ys" [(.var "width")] (.lit 0))
      rest))) sB = exec fuel rest (initSt2 sB c.W) := by
    generalize hX : (exec fuel rest : State F → State F) = X
    simp [exec, exec_seq, cB, IE.ok, IE.eval, FE.ok, FE.eval, setS, wB, hX, initSt2]
  rw [h2]
  refine ⟨initSt2 sB c.W, rfl, ?_, ?_, ?_⟩
  · have shB : ∀ a, sB.shp a = sA.shp a := fun a => by rw [fB.shp]
    refine ⟨cB, by simp [initSt2, setS, shB, s1], by simp [initSt2, setS, shB, s2], by simp [initSt2, setS],
      by simp [initSt2, setS], by simp [initSt2, setS], by simp [initSt2, setS, shB, sO, inp.img],
      by simp [initSt2, setS, shB, sO, inp.xc], by simp [initSt2, setS, shB, sO, inp.yc], by simp [initSt2, setS, shB, s3],
      by simp [initSt2, setS, shB, s4], by simp [initSt2, setS, shB, sO, inp.tv], by simpa [initSt2, setS] using lB1,
      by simpa [initSt2, setS] using lB2, by simp [initSt2, setS], by simp [initSt2, setS], by simp [initSt2, setS],
      by simp [initSt2, setS, fB.fa, fo], by simpa [initSt2, setS, fB.fa] using ld,
      by simp [initSt2, fB.ienv, hA1], by simp [initSt2, wB],
      by simp [initSt2, fB.ienv, iA], by simp [initSt2, fB.ienv, iA], by simp [initSt2, fB.fenv, feA],
      by simp [initSt2, setS, fB.fa, fO], by simp [initSt2, setS, fB.fa, fO], by simp [initSt2, setS, fB.fa, fO],
      by simp [initSt2, setS, fB.fa, fO], by simp [initSt2, fB.ext, exA]⟩
  · intro q hq; simpa [initSt2, setS] using (vB q hq).1
  · intro j hj
    simp [initSt2, setS, fB.fa, fo, List.getD_eq_getElem?_getD, hj]

/-! ### the top-down pass -/

theorem idx_lt (r n W p : Nat) (h : r < n) (hp : p < W) : r * W + p < n * W := by
  have : (r + 1) * W ≤ n * W := Nat.mul_le_mul_right W h
  rw [Nat.add_mul] at this
  omega

theorem idx_ge (r n W p : Nat) (h : n < r) : n * W + W ≤ r * W + p := by
  have : (n + 1) * W ≤ r * W := Nat.mul_le_mul_right W h
  rw [Nat.add_mul] at this
  omega

/-- the rows the passes have produced, read with the blank row as default -/
abbrev rowOf (rows : List RowOut) (c : Cfg) (r : Nat) : RowOut := rows.getD r (blankRow c)

/-- invariant of the top-down pass after `n` lines -/
structure TDInv (c : Cfg) (emb : Nat → F) (tg : Nat → Nat → Bool) (s0 : State F) (n : Nat) (st : State F) : Prop where
  stat : PNStatic c s0 st
  pan : PanRel c st (tdN c tg n).1
  lp : 0 < n → st.shp "line_proximity" = [c.W] ∧ (st.fa "line_proximity").length = c.W
  len : (tdN c tg n).2.length = n
  rlen : ∀ r, r < n → (rowOf (tdN c tg n).2 c r).lp.length = c.W ∧ (rowOf (tdN c tg n).2 c r).al.length = c.W
  rows : ∀ r, r < n → ∀ p, p < c.W →
    lpRel emb ((st.fa "img_distance").getD (r * c.W + p) Fl.nan) ((rowOf (tdN c tg n).2 c r).lp.getD p none) ∧
    (st.fa "output_img").getD (r * c.W + p) Fl.nan =
      outVal (s0.ienv "process_mode") (s0.fa "img") (s0.fa "x_coords") (s0.fa "y_coords") c.W r p
        ((rowOf (tdN c tg n).2 c r).al.getD p none)
  fresh : ∀ r, n ≤ r → r < c.H → ∀ p, p < c.W → (st.fa "output_img").getD (r * c.W + p) Fl.nan = Fl.nan

/-- **the top-down pass is `Prox.tdN … c.H`** -/
theorem tdPass_refines (s0 st : State F) (fuel : Nat) (inp : PNInput c emb tg s0) (h0 : TDInv c emb tg s0 0 st) :
    (exec fuel tdPass st).ctl = .run ∧ TDInv c emb tg s0 c.H (exec fuel tdPass st) := by
  refine forRange_up "line" (.var "height") tdLine st fuel c.H h0.stat.run rfl (by simp [IE.eval, h0.stat.height])
    (fun n r => TDInv c emb tg s0 n r) h0 ?_
  intro n hn st1 hst1 inv
  generalize hst2 : ({ st1 with ienv := setS st1.ienv "line" (n : Int) } : State F) = st2
  have stat2 : PNStatic c s0 st2 := by subst hst2; exact inv.stat.setLine n
  have e2 : st2.ienv "line" = n ∧ st2.ia = st1.ia ∧ st2.fa = st1.fa := by subst hst2; exact ⟨by simp [setS], rfl, rfl⟩
  obtain ⟨l2, ia2, fa2⟩ := e2
  have cx := stat2.lineCtx inp n hn l2
  have hpan : PanRel c st2 (tdN c tg n).1 := by unfold PanRel; rw [ia2]; exact inv.pan
  have hout : ∀ p, p < c.W → (st2.fa "output_img").getD (n * c.W + p) Fl.nan = Fl.nan := by
    intro p hp; rw [fa2]; exact inv.fresh n (Nat.le_refl _) hn p hp
  obtain ⟨c3, f3, p3, ll3, la3, lo3, ld3, v3, o3⟩ := tdLine_refines st2 fuel n (tdN c tg n).1 cx hpan hout _ rfl _ rfl
  rw [afterBody_run _ c3]
  generalize hst3 : exec fuel tdLine st2 = st3 at c3 f3 p3 lo3 ld3 v3 o3
  generalize hrs : rowStep c tg true n (tdN c tg n).1 (blankRow c) = rs at p3 ll3 la3 v3
  have hsucc : tdN c tg (n + 1) = (rs.1, (tdN c tg n).2 ++ [rs.2]) := by rw [Prox.tdN_succ, hrs]
  have hold : ∀ r, r < n → rowOf (tdN c tg (n + 1)).2 c r = rowOf (tdN c tg n).2 c r := by
    intro r hr
    simp only [rowOf, hsucc]
    exact Prox.getD_append_left' _ _ _ _ (by rw [inv.len]; exact hr)
  have hnew : rowOf (tdN c tg (n + 1)).2 c n = rs.2 := by
    simp only [rowOf, hsucc]
    have := Prox.getD_append_single (tdN c tg n).2 rs.2 (blankRow c)
    rw [inv.len] at this; exact this
  refine ⟨c3, ⟨stat2.of_pass f3 c3 lo3 ld3, by rw [hsucc]; exact p3, fun _ => ⟨f3.shp_lp, f3.llp⟩,
    by rw [hsucc]; simp [inv.len], ?_, ?_, ?_⟩⟩
  · intro r hr
    by_cases hrn : r = n
    · subst hrn; rw [hnew]; exact ⟨ll3, la3⟩
    · rw [hold r (by omega)]; exact inv.rlen r (by omega)
  · intro r hr p hp
    by_cases hrn : r = n
    · subst hrn
      rw [hnew]
      obtain ⟨a, b⟩ := v3 p hp
      refine ⟨a, ?_⟩
      rw [b, stat2.mode, stat2.fimg, stat2.fxc, stat2.fyc]
    · have hr' : r < n := by omega
      rw [hold r hr']
      obtain ⟨a, b⟩ := o3 (r * c.W + p) (Or.inl (idx_lt r n c.W p hr' hp))
      rw [a, b, fa2]
      exact inv.rows r hr' p hp
  · intro r hr1 hr2 p hp
    obtain ⟨a, _⟩ := o3 (r * c.W + p) (Or.inr (idx_ge r n c.W p (by omega)))
    rw [a, fa2]
    exact inv.fresh r (by omega) hr2 p hp

/-! ### the bottom-up pass -/

/-- invariant of the bottom-up pass after the last `n` lines; `td` = the rows the top-down pass produced -/
structure BUInv (c : Cfg) (emb : Nat → F) (tg : Nat → Nat → Bool) (s0 : State F) (td : List RowOut) (n : Nat)
    (st : State F) : Prop where
  stat : PNStatic c s0 st
  pan : PanRel c st (buN c tg td n).1
  lp : 0 < c.H → st.shp "line_proximity" = [c.W] ∧ (st.fa "line_proximity").length = c.W
  len : (buN c tg td n).2.length = n
  done : ∀ r, c.H - n ≤ r → r < c.H → ∀ p, p < c.W →
    lpFin emb ((st.fa "img_distance").getD (r * c.W + p) Fl.nan)
      ((rowOf (buN c tg td n).2 c (r - (c.H - n))).lp.getD p none) ∧
    (st.fa "output_img").getD (r * c.W + p) Fl.nan =
      outVal (s0.ienv "process_mode") (s0.fa "img") (s0.fa "x_coords") (s0.fa "y_coords") c.W r p
        ((rowOf (buN c tg td n).2 c (r - (c.H - n))).al.getD p none)
  todo : ∀ r, r < c.H - n → ∀ p, p < c.W →
    lpRel emb ((st.fa "img_distance").getD (r * c.W + p) Fl.nan) ((rowOf td c r).lp.getD p none) ∧
    (st.fa "output_img").getD (r * c.W + p) Fl.nan =
      outVal (s0.ienv "process_mode") (s0.fa "img") (s0.fa "x_coords") (s0.fa "y_coords") c.W r p
        ((rowOf td c r).al.getD p none)

/-- **the bottom-up pass is `Prox.buN … c.H`** -/
theorem buPass_refines (s0 st : State F) (fuel : Nat) (inp : PNInput c emb tg s0) (td : List RowOut)
    (tdlen : ∀ r, r < c.H → (rowOf td c r).lp.length = c.W ∧ (rowOf td c r).al.length = c.W)
    (h0 : BUInv c emb tg s0 td 0 st) :
    (exec fuel buPass st).ctl = .run ∧ BUInv c emb tg s0 td c.H (exec fuel buPass st) := by
  refine forRange_down "line" (.bin .sub (.var "height") (.lit 1)) buLine st fuel c.H h0.stat.run rfl
    (by simp [IE.eval, IOp.eval, h0.stat.height])
    (fun n r => BUInv c emb tg s0 td n r) h0 ?_
  intro k hk st1 hst1 inv
  generalize hn : c.H - 1 - k = n
  have hnH : n < c.H := by omega
  generalize hst2 : ({ st1 with ienv := setS st1.ienv "line" (n : Int) } : State F) = st2
  have stat2 : PNStatic c s0 st2 := by subst hst2; exact inv.stat.setLine n
  have e2 : st2.ienv "line" = n ∧ st2.ia = st1.ia ∧ st2.fa = st1.fa ∧ st2.shp = st1.shp := by
    subst hst2; exact ⟨by simp [setS], rfl, rfl, rfl⟩
  obtain ⟨l2, ia2, fa2, sh2⟩ := e2
  have cx := stat2.lineCtx inp n hnH l2
  have hpan : PanRel c st2 (buN c tg td k).1 := by unfold PanRel; rw [ia2]; exact inv.pan
  obtain ⟨slp, llp⟩ := inv.lp (by omega)
  have hto := inv.todo n (by omega)
  obtain ⟨c3, f3, p3, lo3, ld3, v3, o3⟩ := buLine_refines st2 fuel n (buN c tg td k).1 (rowOf td c n) cx
    (by rw [sh2]; exact slp) (by rw [fa2]; exact llp) hpan (tdlen n hnH).1 (tdlen n hnH).2
    (fun p hp => by rw [fa2]; exact (hto p hp).1)
    (fun p hp => by rw [fa2, (hto p hp).2, stat2.mode, inv.stat.fimg, inv.stat.fxc, inv.stat.fyc]) _ rfl _ rfl
  rw [afterBody_run _ c3]
  generalize hst3 : exec fuel buLine st2 = st3 at c3 f3 p3 lo3 ld3 v3 o3
  generalize hrs : rowStep c tg false n (buN c tg td k).1 (rowOf td c n) = rs at p3 v3
  have hsucc : buN c tg td (k + 1) = (rs.1, rs.2 :: (buN c tg td k).2) := by
    rw [Prox.buN_succ, hn]; simp only [rowOf] at hrs; rw [hrs]
  refine ⟨c3, ⟨stat2.of_pass f3 c3 lo3 ld3, by rw [hsucc]; exact p3, fun _ => ⟨f3.shp_lp, f3.llp⟩,
    by rw [hsucc]; simp [inv.len], ?_, ?_⟩⟩
  · intro r hr1 hr2 p hp
    by_cases hrn : r = n
    · subst hrn
      have hi : r - (c.H - (k + 1)) = 0 := by omega
      simp only [rowOf, hsucc, hi, List.getD_cons_zero]
      obtain ⟨a, b⟩ := v3 p hp
      refine ⟨a, ?_⟩
      rw [b, stat2.mode, stat2.fimg, stat2.fxc, stat2.fyc]
    · have hr' : n < r := by omega
      have hi : r - (c.H - (k + 1)) = (r - (c.H - k)) + 1 := by omega
      simp only [rowOf, hsucc, hi, List.getD_cons_succ]
      obtain ⟨a, b⟩ := o3 (r * c.W + p) (Or.inr (idx_ge r n c.W p hr'))
      rw [a, b, fa2]
      exact inv.done r (by omega) hr2 p hp
  · intro r hr p hp
    have hr' : r < n := by omega
    obtain ⟨a, b⟩ := o3 (r * c.W + p) (Or.inl (idx_lt r n c.W p hr' hp))
    rw [a, b, fa2]
    exact inv.todo r (by omega) p hp

/-! ### the whole program -/

omit emb in
theorem tdN_zero (c : Cfg) (tg : Nat → Nat → Bool) : tdN c tg 0 = (List.replicate c.W none, []) := rfl

/-- **`_process_numpy` refines `Prox.run`** (template form) -/
theorem pnBody_refines (s0 : State F) (fuel : Nat) (inp : PNInput c emb tg s0) :
    (exec fuel pnBody s0).ctl = .ret ∧
    (exec fuel pnBody s0).shp "img_distance" = [c.H, c.W] ∧ (exec fuel pnBody s0).shp "output_img" = [c.H, c.W] ∧
    ((exec fuel pnBody s0).fa "img_distance").length = c.H * c.W ∧
    ((exec fuel pnBody s0).fa "output_img").length = c.H * c.W ∧
    ∀ r, r < c.H → ∀ p, p < c.W →
      lpFin emb (((exec fuel pnBody s0).fa "img_distance").getD (r * c.W + p) Fl.nan) (proxAt (run c tg) r p) ∧
      ((exec fuel pnBody s0).fa "output_img").getD (r * c.W + p) Fl.nan =
        outVal (s0.ienv "process_mode") (s0.fa "img") (s0.fa "x_coords") (s0.fa "y_coords") c.W r p
          (allocAt (run c tg) r p) := by
  obtain ⟨sI, hI, statI, panI, outI⟩ := pnInit_exec s0 fuel inp
    (.seq tdPass (.seq resetPan (.seq buPass (.ite (.cmpI .eq (.var "process_mode") (.lit 0)) .ret .ret))))
  rw [pnBody, hI]
  -- top-down
  have inv0 : TDInv c emb tg s0 0 sI :=
    ⟨statI, ⟨by simp [tdN_zero], fun q hq => by simp only [tdN_zero, Prox.getD_replicate_none]; exact panI q hq⟩,
     fun h => absurd h (Nat.lt_irrefl 0), rfl, fun r hr => absurd hr (Nat.not_lt_zero r),
     fun r hr => absurd hr (Nat.not_lt_zero r),
     fun r _ hr p hp => outI _ (idx_lt r c.H c.W p hr hp)⟩
  obtain ⟨c1, inv1⟩ := tdPass_refines s0 sI fuel inp inv0
  rw [exec_seq_run _ _ _ _ c1]
  generalize exec fuel tdPass sI = s1 at c1 inv1
  -- reset of pan_near
  obtain ⟨c2, f2, l2x, l2y, v2⟩ := resetPan_exec s1 fuel c.W c1 inv1.stat.width inv1.stat.px inv1.stat.py
    inv1.stat.lpx inv1.stat.lpy
  rw [exec_seq_run _ _ _ _ c2]
  generalize exec fuel resetPan s1 = s2 at c2 f2 l2x l2y v2
  have stat2 : PNStatic c s0 s2 := by
    have h := inv1.stat
    refine ⟨c2, by rw [f2.shp]; exact h.px, by rw [f2.shp]; exact h.py, by rw [f2.shp]; exact h.nx, by rw [f2.shp]; exact h.ny,
      by rw [f2.shp]; exact h.scan, by rw [f2.shp]; exact h.img, by rw [f2.shp]; exact h.xc, by rw [f2.shp]; exact h.yc,
      by rw [f2.shp]; exact h.out, by rw [f2.shp]; exact h.dist, by rw [f2.shp]; exact h.tv, l2x, l2y,
      by rw [f2.ia _ (by decide)]; exact h.lnx, by rw [f2.ia _ (by decide)]; exact h.lny,
      by rw [f2.fa _ (by simp)]; exact h.lscan, by rw [f2.fa _ (by simp)]; exact h.lout,
      by rw [f2.fa _ (by simp)]; exact h.ldist, by rw [f2.ienv _ (by decide)]; exact h.height,
      by rw [f2.ienv _ (by decide)]; exact h.width, by rw [f2.ienv _ (by decide)]; exact h.mode,
      by rw [f2.ienv _ (by decide)]; exact h.metric, by rw [f2.fenv]; exact h.maxd,
      by rw [f2.fa _ (by simp)]; exact h.fimg, by rw [f2.fa _ (by simp)]; exact h.fxc,
      by rw [f2.fa _ (by simp)]; exact h.fyc, by rw [f2.fa _ (by simp)]; exact h.ftv, by rw [f2.ext]; exact h.ext⟩
  -- bottom-up
  have invB0 : BUInv c emb tg s0 (tdN c tg c.H).2 0 s2 :=
    ⟨stat2, ⟨by simp [buN], fun q hq => by simp only [buN, Prox.getD_replicate_none]; exact (v2 q hq).1⟩,
     fun h => by rw [f2.shp, f2.fa _ (by simp)]; exact inv1.lp h, rfl,
     fun r hr1 hr2 => by omega,
     fun r hr p hp => by rw [f2.fa _ (by simp), f2.fa _ (by simp)]; exact inv1.rows r (by omega) p hp⟩
  obtain ⟨c3, inv3⟩ := buPass_refines s0 s2 fuel inp (tdN c tg c.H).2 inv1.rlen invB0
  rw [exec_seq_run _ _ _ _ c3]
  generalize exec fuel buPass s2 = s3 at c3 inv3
  have hfin : exec fuel (.ite (.cmpI .eq (.var "process_mode") (.lit 0)) .ret .ret) s3 = { s3 with ctl := .ret } := by
    rw [exec_ite _ _ _ _ _ rfl]
    split <;> simp [exec]
  rw [hfin]
  refine ⟨rfl, inv3.stat.dist, inv3.stat.out, inv3.stat.ldist, inv3.stat.lout, ?_⟩
  intro r hr p hp
  have := inv3.done r (by omega) hr p hp
  have hrow : rowAt (run c tg) r = rowOf (buN c tg (tdN c tg c.H).2 c.H).2 c (r - (c.H - c.H)) := by
    simp only [rowAt, rowOf, run, Nat.sub_self, Nat.sub_zero]
    exact Prox.getD_default_irrel _ _ _ _ (by rw [inv3.len]; exact hr)
  simp only [proxAt, allocAt, hrow]
  exact this

/-- **the generated `_process._process_numpy` refines `Prox.run`**: on inputs satisfying `PNInput` (well-formed
    arrays; `Arith` for the number domain; `_distance² = emb ∘ dist2`; target test = `tg`) the program returns,
    `img_distance` and `output_img` are `H × W`, and for every cell `(r, p)`:
    * `img_distance[r, p]` is NaN iff the model's `proxAt` is `none`, otherwise it is non-negative and its square is
      the embedded squared proximity of the model;
    * `output_img[r, p]` is the value `outVal` of the model's `allocAt`: NaN for `none`; in ALLOCATION mode the
      raster value at that target, in DIRECTION mode `dirF` (= `_calc_direction`) from the cell to that target. -/
theorem processNumpy_refines (s0 : State F) (fuel : Nat) (inp : PNInput c emb tg s0) :
    let r := Gen.IL.processNumpy.run s0 fuel
    r.ctl = .ret ∧ r.shp "img_distance" = [c.H, c.W] ∧ r.shp "output_img" = [c.H, c.W] ∧
    (r.fa "img_distance").length = c.H * c.W ∧ (r.fa "output_img").length = c.H * c.W ∧
    ∀ row, row < c.H → ∀ p, p < c.W →
      lpFin emb ((r.fa "img_distance").getD (row * c.W + p) Fl.nan) (proxAt (run c tg) row p) ∧
      (r.fa "output_img").getD (row * c.W + p) Fl.nan =
        outVal (s0.ienv "process_mode") (s0.fa "img") (s0.fa "x_coords") (s0.fa "y_coords") c.W row p
          (allocAt (run c tg) row p) := by
  simp only [Prog.run, processNumpy_is_template]
  exact pnBody_refines s0 fuel inp

end XrsVerif.IL.Px
