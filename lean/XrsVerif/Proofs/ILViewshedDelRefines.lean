import XrsVerif.Proofs.ILViewshedDelMain
/-
  Proofs/ILViewshedDelRefines.lean -- **`Gen.IL.vsDelete` (`_delete_from_tree`) complete**: the descent
  (`vsDelete_descent_refines`, Proofs/ILViewshedDel.lean), the position of the spliced-out node, then `delRest_spec`.

  * `splicePos l z r ctx`   with the key found at `(l, z, r, ctx)`: the subtree of `x`, the spliced-out row `y`, its
                            ancestors `cy` and how far above `z` sits (`none`: `y = z`);
  * `vsDelete_refines`      the arrays afterwards hold `rbDelFix` (if `y` was black and `x` is a node) of the pass-form
                            model `delPassArr`; the shape's rows are the old ones without `y`; `ret0` = the new root,
                            `ret1 = y`; NIL row, colour sanity, array shapes, other arrays kept.
-/
set_option linter.unusedSectionVars false
set_option linter.unusedVariables false
set_option linter.unusedSimpArgs false
namespace XrsVerif.ILVs
open XrsVerif XrsVerif.IL XrsVerif.Viewshed
variable {F : Type} [Fl F]

/-- the leftmost node of `.node rl m rr` below the context `acc`: its row, its right subtree, its ancestors -/
def leftmostZ : Sh → Nat → Sh → Ctx → Nat × Sh × Ctx
  | .nil, m, rr, acc => (m, rr, acc)
  | .node a b c, m, rr, acc => leftmostZ a b c (.L m rr :: acc)

theorem leftmostZ_spec : ∀ (rl : Sh) (m : Nat) (rr : Sh) (acc : Ctx),
    (leftmostZ rl m rr acc).1 = minIdx rl m ∧
    plug (.node .nil (leftmostZ rl m rr acc).1 (leftmostZ rl m rr acc).2.1) (leftmostZ rl m rr acc).2.2 =
      plug (.node rl m rr) acc ∧
    ∃ below, (leftmostZ rl m rr acc).2.2 = below ++ acc := by
  intro rl
  induction rl with
  | nil => intro m rr acc; exact ⟨rfl, rfl, [], rfl⟩
  | node a b c iha _ =>
    intro m rr acc
    obtain ⟨h1, h2, below, h3⟩ := iha b c (.L m rr :: acc)
    refine ⟨h1, h2, below ++ [.L m rr], ?_⟩
    show (leftmostZ a b c (.L m rr :: acc)).2.2 = _
    rw [h3]; simp

/-- the position at which `_delete_from_tree` works, the key found at `(l, z, r, ctx)`: (`x`'s subtree, `y`, the
    ancestors of `y`, the number of frames between `y` and `z`) -/
def splicePos (l : Sh) (z : Nat) (r : Sh) (ctx : Ctx) : Sh × Nat × Ctx × Option Nat :=
  match l, r with
  | .nil, r => (r, z, ctx, none)
  | .node a b c, .nil => (.node a b c, z, ctx, none)
  | .node a b c, .node rl m rr =>
    ((leftmostZ rl m rr (.R (.node a b c) z :: ctx)).2.1, (leftmostZ rl m rr (.R (.node a b c) z :: ctx)).1,
     (leftmostZ rl m rr (.R (.node a b c) z :: ctx)).2.2,
     some ((leftmostZ rl m rr (.R (.node a b c) z :: ctx)).2.2.length - (ctx.length + 1)))

/-- what `splicePos` is: `y` (with one NIL child, the other `x`'s subtree) at `cy` in the same tree, `y = spliceIdx`,
    and `z` is `y` or the frame `j` levels above -/
theorem splicePos_spec (l : Sh) (z : Nat) (r : Sh) (ctx : Ctx) :
    ∃ yl yr : Sh, (yl = .nil ∨ yr = .nil) ∧ (splicePos l z r ctx).1 = spliceSub yl yr ∧
      plug (.node yl (splicePos l z r ctx).2.1 yr) (splicePos l z r ctx).2.2.1 = plug (.node l z r) ctx ∧
      (splicePos l z r ctx).2.1 = spliceIdx l z r ∧
      (((splicePos l z r ctx).2.2.2 = none ∧ (splicePos l z r ctx).2.1 = z ∧ (splicePos l z r ctx).2.2.1 = ctx ∧
          yl = l ∧ yr = r) ∨
        (∃ below zf, (splicePos l z r ctx).2.2.2 = some below.length ∧
          (splicePos l z r ctx).2.2.1 = below ++ zf :: ctx ∧ zf.idx = z)) := by
  cases l with
  | nil => exact ⟨.nil, r, Or.inl rfl, rfl, rfl, rfl, Or.inl ⟨rfl, rfl, rfl, rfl, rfl⟩⟩
  | node a b c =>
    cases r with
    | nil => exact ⟨.node a b c, .nil, Or.inr rfl, rfl, rfl, rfl, Or.inl ⟨rfl, rfl, rfl, rfl, rfl⟩⟩
    | node rl m rr =>
      obtain ⟨h1, h2, below, h3⟩ := leftmostZ_spec rl m rr (.R (.node a b c) z :: ctx)
      refine ⟨.nil, (leftmostZ rl m rr (.R (.node a b c) z :: ctx)).2.1, Or.inl rfl, rfl, h2, h1,
        Or.inr ⟨below, .R (.node a b c) z, ?_, h3, rfl⟩⟩
      show some ((leftmostZ rl m rr (.R (.node a b c) z :: ctx)).2.2.length - (ctx.length + 1)) = _
      rw [h3]; simp

theorem vsDelete_wIA : ∀ a ∈ wIA Gen.IL.vsDelete.body, a = "tree_nodes" := by decide
theorem vsDelete_wFA : ∀ a ∈ wFA Gen.IL.vsDelete.body, a = "tree_vals" := by decide
theorem vsDelete_wSh : wSh Gen.IL.vsDelete.body = [] := by decide

/-- **`_delete_from_tree` refines the pass-form model**.  The key is in the tree, found at `(l, z, r, ctx)`; the tree is
    not the single node `z` (the status structure always holds its dummy root); the NIL row is black and every colour
    cell of the tree is `RB_RED` or `RB_BLACK`. -/
theorem vsDelete_refines (s : State F) (fuel n : Nat) (hv : VS s n) (hrun : s.ctl = .run) (sh : Sh)
    (hL : Linked (s.ia "tree_nodes") n (-1) sh) (hN : sh.idxs.Nodup) (hroot : s.ienv "root" = sh.ptr)
    (l : Sh) (z : Nat) (r : Sh) (ctx : Ctx)
    (hfind : findZ (s.fa "tree_vals") ⟨s.fenv "key"⟩ sh [] = some (l, z, r, ctx))
    (hbig : ¬ (l = .nil ∧ r = .nil ∧ ctx = []))
    (hnil : nAt (s.ia "tree_nodes") (n - 1) 0 = 1) (hcol : ∀ j ∈ sh.idxs, ColV (nAt (s.ia "tree_nodes") j 0))
    (hf : sh.height + 2 ≤ fuel) :
    let q := Gen.IL.vsDelete.run s fuel
    let P := splicePos l z r ctx
    let S : Fv F := vAt (s.fa "tree_vals") (n - 1) 7
    let t1 := delPassArr (s.fa "tree_vals") (s.ia "tree_nodes") n P.1 P.2.1 P.2.2.1 P.2.2.2
    q.ctl = .ret ∧ VS q n ∧ ∃ sh' : Sh, Linked (q.ia "tree_nodes") n (-1) sh' ∧ sh'.idxs.Nodup ∧
      (P.2.1 :: sh'.idxs).Perm sh.idxs ∧
      absT (q.fa "tree_vals") (q.ia "tree_nodes") sh' =
        (if nAt (s.ia "tree_nodes") P.2.1 0 = 1 ∧ P.1.ptr ≠ -1 then rbDelFix S (P.2.2.1.map Fr.dir) t1 else t1) ∧
      q.ienv "ret0" = sh'.ptr ∧ q.ienv "ret1" = P.2.1 ∧ vAt (q.fa "tree_vals") (n - 1) 7 = S ∧
      nAt (q.ia "tree_nodes") (n - 1) 0 = 1 ∧ (∀ j ∈ sh'.idxs, ColV (nAt (q.ia "tree_nodes") j 0)) ∧
      (∀ a, a ≠ "tree_nodes" → q.ia a = s.ia a) ∧ (∀ a, a ≠ "tree_vals" → q.fa a = s.fa a) ∧ q.shp = s.shp := by
  intro q P S t1
  obtain ⟨hp, hplug, _, _⟩ := findZ_some _ _ sh [] l z r ctx hfind
  simp only [plug] at hplug
  obtain ⟨sD, d1, d2, d3, d4, d5, d6, d7, d8⟩ := vsDelete_descent_refines s fuel n hv hrun sh hL hN hroot l z r ctx hfind
    (by omega)
  obtain ⟨yl, yr, hone, p1, p2, p3, p4⟩ := splicePos_spec l z r ctx
  have hfr := exec_frame fuel Gen.IL.vsDelete.body s
  generalize hxsh : P.1 = xsh at p1
  generalize hyv : P.2.1 = y at p2 p3 p4
  generalize hcyv : P.2.2.1 = cy at p2 p4
  generalize hjzv : P.2.2.2 = jz at p4
  have hpl : plug (.node yl y yr) cy = sh := by rw [p2, hplug]
  have hvD : VS sD n := hv.of_eq d5 d4 d3
  have hlen : cy.length + 1 ≤ sh.height := by
    have := plug_height cy (.node yl y yr)
    rw [hpl] at this; simp only [Sh.height] at this; omega
  have hNy : (plug (.node yl y yr) cy).idxs.Nodup := by rw [hpl]; exact hN
  have hspec := delRest_spec fuel n sD hvD d2 cy yl y yr xsh p1 hone (by rw [d3, hpl]; exact hL) hNy
    (by rw [d7, p3]) (by rw [d8, hroot, hpl]) (by
      intro hc
      rcases p4 with ⟨_, _, e3, e4, e5⟩ | ⟨below, zf, _, e2, _⟩
      · rw [p1, e4, e5]
        intro hx
        apply hbig
        rw [hc] at e3
        cases l with
        | nil => exact ⟨rfl, hx, e3.symm⟩
        | node a b c => simp [spliceSub] at hx
      · rw [hc] at e2; simp at e2)
    (by rw [d3]; exact hnil) (by rw [d3, hpl]; exact hcol) jz (by
      rcases p4 with ⟨e1, e2, _, _, _⟩ | ⟨below, zf, e1, e2, e3⟩
      · exact Or.inl ⟨e1, by rw [d6, e2]⟩
      · refine Or.inr ⟨below, zf, ctx, e1, e2, by rw [d6, e3], ?_⟩
        -- `y` is no ancestor of itself
        have hnd := (nodup_plug_iff cy (.node yl y yr)).mp hNy
        intro e
        refine (List.nodup_append.mp hnd).2.2 y (by simp [Sh.idxs]) y ?_ rfl
        rw [e2, ctxIdxs_append, ctxIdxs_cons, ← e]
        simp) (by omega)
  rw [← d1] at hspec
  rw [d3, d4] at hspec
  obtain ⟨c1, c2, sh', c3, c4, c5, c6, c7, c8, c9, c10⟩ := hspec
  have g := spliceArr_linked cy yl y yr hone (by rw [hpl]; exact hL) hNy hv.lenN hv.pos
  rw [← p1] at g
  obtain ⟨_, g2, _, _, _, _, _, g8, g9⟩ := g
  have hperm : (y :: sh'.idxs).Perm sh.idxs := by
    rw [c4, ← hpl]
    refine (List.Perm.cons y (idxs_plug_perm cy xsh)).trans ?_
    refine List.Perm.trans ?_ (idxs_plug_perm cy (.node yl y yr)).symm
    rw [p1]
    rcases hone with e | e
    · subst e
      simp only [spliceSub, Sh.idxs, List.nil_append, List.cons_append]
      exact List.Perm.refl _
    · subst e
      cases yl with
      | nil => simp only [spliceSub, Sh.idxs, List.nil_append, List.cons_append]; exact List.Perm.refl _
      | node a b c =>
        simp only [spliceSub, Sh.idxs, List.append_nil]
        have e : a.idxs ++ b :: c.idxs ++ [y] ++ ctxIdxs cy = (a.idxs ++ b :: c.idxs) ++ y :: ctxIdxs cy := by simp
        rw [e]; exact List.perm_middle.symm
  subst hxsh hyv hcyv hjzv
  exact ⟨c1, c2, sh', c3, by rw [c4]; exact g2, hperm, c5, c6, c7, c8, c9, c10,
    fun a ha => hfr.ia a (fun hmem => ha (vsDelete_wIA a hmem)),
    fun a ha => hfr.fa a (fun hmem => ha (vsDelete_wFA a hmem)), by
      funext a
      exact hfr.shp a (by rw [vsDelete_wSh]; simp)⟩

end XrsVerif.ILVs
