import XrsVerif.Core.ILang
/-
  Proofs/ILang.lean -- generic lemmas about the interpreter of Core/ILang.lean, used by the refinement
  proofs "generated program = hand model" (Proofs/IL*.lean).

  * `loopOver_nil / loopOver_cons / loopOver_stop`: a `for` loop, one iteration at a time;
  * `loopOver_inv`: invariant rule for loops without early exit; `loopOver_inv_exit` with `break`;
  * `rangeList_up / rangeList_down`: `range(n)` / `range(0, n)` and `range(n - 1, -1, -1)` as lists;
  * `inRange_of_lt`, `off2_nat`, `off1_nat`: in-range natural indices need no normalisation.
-/
namespace XrsVerif.IL
open XrsVerif
variable {F : Type} [Fl F]
set_option linter.unusedSectionVars false

/-! ### control -/

@[simp] theorem afterBody_run (s : State F) (h : s.ctl = .run) : afterBody s = s := by
  simp [afterBody, h]

theorem afterBody_ctl_run (s : State F) : (afterBody s).ctl = .run ↔ s.ctl = .run ∨ s.ctl = .cont := by
  unfold afterBody; split <;> simp_all

theorem foldl_stuck {α} (f : State F → α → State F) (xs : List α) (s : State F) (h : s.ctl ≠ .run) :
    xs.foldl (fun st x => if st.ctl = .run then afterBody (f st x) else st) s = s := by
  induction xs with
  | nil => rfl
  | cons x xs ih => simp [List.foldl_cons, h, ih]

@[simp] theorem loopOver_nil {α} (f : State F → α → State F) (s : State F) :
    loopOver f [] s = afterLoop s := rfl

/-- one iteration of a `for` loop that is entered with control `run` -/
theorem loopOver_cons {α} (f : State F → α → State F) (x : α) (xs : List α) (s : State F)
    (h : s.ctl = .run) :
    loopOver f (x :: xs) s =
      if (afterBody (f s x)).ctl = .run then loopOver f xs (afterBody (f s x))
      else afterLoop (afterBody (f s x)) := by
  unfold loopOver
  simp only [List.foldl_cons, h, if_true]
  split
  · rfl
  · rename_i hne
    rw [foldl_stuck _ _ _ hne]

/-- a loop entered with control other than `run` does nothing but absorb a pending `break` -/
theorem loopOver_stop {α} (f : State F → α → State F) (xs : List α) (s : State F) (h : s.ctl ≠ .run) :
    loopOver f xs s = afterLoop s := by
  unfold loopOver; rw [foldl_stuck _ _ _ h]

@[simp] theorem afterLoop_run (s : State F) (h : s.ctl = .run) : afterLoop s = s := by
  simp [afterLoop, h]

/-- invariant rule: if every iteration started in a `run` state satisfying `P i` ends in a `run` (or
    `continue`) state satisfying `P (i+1)`, the loop ends in a `run` state satisfying `P xs.length` -/
theorem loopOver_inv {α} (f : State F → α → State F) (xs : List α) (P : Nat → State F → Prop)
    (s : State F) (h0 : s.ctl = .run) (hP : P 0 s)
    (step : ∀ (i : Nat) (hi : i < xs.length) (st : State F), st.ctl = .run → P i st →
        (afterBody (f st xs[i])).ctl = .run ∧ P (i + 1) (afterBody (f st xs[i]))) :
    (loopOver f xs s).ctl = .run ∧ P xs.length (loopOver f xs s) := by
  induction xs generalizing s P with
  | nil => simp [h0, hP]
  | cons x xs ih =>
    rw [loopOver_cons _ _ _ _ h0]
    obtain ⟨hc, hp⟩ := step 0 (by simp) s h0 hP
    simp only [List.getElem_cons_zero] at hc hp
    simp only [hc, if_true]
    have := ih (fun i st => P (i + 1) st) (afterBody (f s x)) hc hp
      (fun i hi st hst hpi => by
        have := step (i + 1) (by simpa using hi) st hst hpi
        simpa using this)
    simpa using this

/-! ### ranges -/

theorem rangeList_up (n : Nat) : rangeList 0 (n : Int) 1 = (List.range n).map (fun (k : Nat) => (k : Int)) := by
  unfold rangeList
  simp only [show (1 : Int) > 0 by decide, if_true]
  have : ((n : Int) - 0 + 1 - 1) / 1 = (n : Int) := by simp
  rw [this]
  simp

theorem rangeList_down (n : Nat) :
    rangeList ((n : Int) - 1) (-1) (-1) = (List.range n).reverse.map (fun (k : Nat) => (k : Int)) := by
  unfold rangeList
  have h1 : ¬ ((-1 : Int) > 0) := by decide
  have h2 : (-1 : Int) < 0 := by decide
  simp only [h1, if_false, h2, if_true]
  have : ((n : Int) - 1 - -1 - -1 - 1) / (- -1) = (n : Int) := by
    have : (n : Int) - 1 - -1 - -1 - 1 = (n : Int) := by omega
    rw [this]; simp
  rw [this]
  simp only [Int.toNat_natCast]
  apply List.ext_getElem
  · simp
  · intro i h1 h2
    simp only [List.length_map, List.length_range] at h1
    simp only [List.getElem_map, List.getElem_range, List.getElem_reverse, List.length_range]
    omega

/-! ### indices -/

theorem normIdx_nat (i n : Nat) : normIdx (i : Int) n = i := by
  unfold normIdx; simp; omega

theorem inRange_of_lt (i n : Nat) (h : i < n) : inRange (i : Int) n = true := by
  unfold inRange; rw [normIdx_nat]; simp; omega

theorem off1_nat (n i : Nat) : off1 [n] (i : Int) = i := by
  unfold off1; simp [normIdx_nat]

theorem off2_nat (r c i j : Nat) : off2 [r, c] (i : Int) (j : Int) = i * c + j := by
  unfold off2; simp [normIdx_nat]

end XrsVerif.IL

namespace XrsVerif.IL
open XrsVerif
variable {F : Type} [Fl F]
set_option linter.unusedSectionVars false

/-! ### `while`, one iteration at a time -/

theorem exec_while_zero (c : BE) (body : St) (s : State F) :
    exec 0 (.while c body) s = s.error "fuel" := by
  simp only [exec]

/-- the condition is false: the loop is over and the state unchanged -/
theorem exec_while_done (fuel : Nat) (c : BE) (body : St) (s : State F)
    (hok : c.ok s = true) (hc : c.eval s = false) :
    exec (fuel + 1) (.while c body) s = s := by
  simp only [exec, hok, hc, if_true]
  simp

/-- the condition is true and the body ends normally (or with `continue`): go round again -/
theorem exec_while_step (fuel : Nat) (c : BE) (body : St) (s : State F)
    (hok : c.ok s = true) (hc : c.eval s = true)
    (hb : (exec fuel body s).ctl = .run ∨ (exec fuel body s).ctl = .cont) :
    exec (fuel + 1) (.while c body) s =
      exec fuel (.while c body) { exec fuel body s with ctl := .run } := by
  simp only [exec, hok, hc, if_true]
  rcases hb with hb | hb
  · simp only [hb]
    congr 1
    cases h : exec fuel body s
    simp_all
  · simp only [hb]

/-- the condition is true and the body ends with `break`: the loop is over -/
theorem exec_while_break (fuel : Nat) (c : BE) (body : St) (s : State F)
    (hok : c.ok s = true) (hc : c.eval s = true) (hb : (exec fuel body s).ctl = .brk) :
    exec (fuel + 1) (.while c body) s = { exec fuel body s with ctl := .run } := by
  simp only [exec, hok, hc, if_true, hb]

/-- the condition is true and the body ends with `return` (or an error): the loop passes it on -/
theorem exec_while_ret (fuel : Nat) (c : BE) (body : St) (s : State F)
    (hok : c.ok s = true) (hc : c.eval s = true) (hb : (exec fuel body s).ctl = .ret) :
    exec (fuel + 1) (.while c body) s = exec fuel body s := by
  simp only [exec, hok, hc, if_true, hb]

/-- `scope`: a `return` inside an inlined callee ends only the callee -/
theorem exec_scope_ret (fuel : Nat) (body : St) (s : State F) (h : (exec fuel body s).ctl = .ret) :
    exec fuel (.scope body) s = { exec fuel body s with ctl := .run } := by
  simp only [exec, h, if_true]

theorem exec_scope_other (fuel : Nat) (body : St) (s : State F) (h : (exec fuel body s).ctl ≠ .ret) :
    exec fuel (.scope body) s = exec fuel body s := by
  simp only [exec, h, if_false]

theorem exec_seq_run (fuel : Nat) (a b : St) (s : State F) (h : (exec fuel a s).ctl = .run) :
    exec fuel (.seq a b) s = exec fuel b (exec fuel a s) := by
  simp only [exec, h, if_true]

theorem exec_seq_stop (fuel : Nat) (a b : St) (s : State F) (h : (exec fuel a s).ctl ≠ .run) :
    exec fuel (.seq a b) s = exec fuel a s := by
  simp only [exec, h, if_false]

end XrsVerif.IL
