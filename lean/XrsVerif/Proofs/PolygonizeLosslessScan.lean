import XrsVerif.Proofs.PolygonizeLosslessScanHole
import XrsVerif.Proofs.PolygonizeLosslessRing
/-
  C15, losslessness: `_scan` on a region array whose ids are first-pixel ranks and whose regions are
  connected (`scan_lossless`): it succeeds, produces one polygon per region, the point-in-polygon test
  (inside the exterior ring, inside no hole ring; even-odd rule on the compressed rings) at a pixel centre
  holds exactly for the pixels of the region, and the column holds the value of the region's first pixel.
-/
set_option linter.unusedVariables false
namespace XrsVerif.Polygonize

theorem scan_inv {V : Type} (nx ny : Nat) (hnx : 0 < nx) (regs : Nat → Nat) (values : Nat → V)
    (hrank : Ranked regs (nx * ny)) :
    ∃ cyc fs, ScanInv nx ny regs values (nx * ny) (nx * ny)
      ((List.range (nx * ny)).foldl (scanStep nx ny regs values) ⟨[], [], 0, [], [], true⟩) cyc fs := by
  have key : ∀ (m : Nat) (st : Scan V) (k : Nat), k + m ≤ nx * ny →
      (∃ cyc fs, ScanInv nx ny regs values k k st cyc fs) →
      ∃ cyc fs, ScanInv nx ny regs values (k + m) (k + m)
        ((List.range' k m).foldl (scanStep nx ny regs values) st) cyc fs := by
    intro m
    induction m with
    | zero => intro st k _ h; simpa using h
    | succ m ih =>
      intro st k hk ⟨cyc, fs, h⟩
      rw [List.range'_succ, List.foldl_cons]
      obtain ⟨cyc1, fs1, h1⟩ := ext_part nx ny hnx regs values hrank (by omega) h
      obtain ⟨cyc2, h2⟩ := hole_part nx ny hnx regs values (by omega) h1
      have := ih (scanStep nx ny regs values st k) (k + 1) (by omega) ⟨cyc2, fs1, by rw [scanStep_eq]; exact h2⟩
      rw [show k + 1 + m = k + (m + 1) by omega] at this
      exact this
  have h0 : ScanInv nx ny regs values 0 0 (⟨[], [], 0, [], [], true⟩ : Scan V) (fun _ => []) (fun _ => 0) := by
    refine ⟨rfl, rfl, rfl, ?_, ?_, ?_, ?_, ?_⟩
    · intro p hp; omega
    · intro r h1 h2; simp only at h2; omega
    · intro q; simp only [List.not_mem_nil, false_iff]; intro ⟨_, _, h1, h2, _⟩; omega
    · intro q hq; simp only [List.not_mem_nil] at hq
    · intro q _ hq; omega
  have := key (nx * ny) _ 0 (by omega) ⟨_, _, h0⟩
  rw [Nat.zero_add] at this
  rw [List.range_eq_range']
  exact this

/-! ### point in polygon -/

theorem wcol_append (L M : List FSt) (x y : Int) : wcol (L ++ M) x y = wcol L x y + wcol M x y := by
  simp only [wcol, cE, cW, List.countP_append]; omega

theorem wcol_nil (x y : Int) : wcol [] x y = 0 := by simp [wcol, cE, cW]

theorem wcol_flatten_even (cs : List (List FSt)) (x y : Int) (h : ∀ c ∈ cs, wcol c x y % 2 = 0) :
    wcol cs.flatten x y % 2 = 0 := by
  induction cs with
  | nil => simp [wcol_nil]
  | cons c cs ih =>
    rw [List.flatten_cons, wcol_append]
    have h1 := h c List.mem_cons_self
    have h2 := ih fun c' hc' => h c' (List.mem_cons_of_mem _ hc')
    omega

/-- the even-odd test on the ring of a followed cycle is the parity of the winding number -/
theorem inRing_cyc {R : Int → Int → Bool} {nx ny : Nat} (hR : InRaster R nx ny) {c : List FSt}
    (hc : IsCyc R c) (x y : Int) : inRing (cycRing c) x y = true ↔ wcol c x y % 2 = 1 := by
  obtain ⟨hcl, m, start, hm, e, hit⟩ := hc
  have h1 := crossings_cycRing R x y m start hm hit
  have h2 := wrow_eq_wcol' hcl hR x y
  rw [← e] at h1
  simp only [inRing, h1, beq_iff_eq]
  unfold wrow at h2
  omega

section region
variable {V : Type} (nx ny : Nat) (hnx : 0 < nx) (regs : Nat → Nat) (conn8 : Bool)
  (E : Nat → Nat → Prop)
  (hE : ∀ p q, E p q → p < nx * ny ∧ q ∈ back nx conn8 p ∧ regs p = regs q)
  (hconn : ∀ p q, p < nx * ny → q < nx * ny → regs p = regs q → regs p ≠ 0 → Cl E p q)
include hnx hE hconn

/-- the winding number w.r.t. a closed list of boundary edges of region `r` is the same for all its pixels -/
theorem region_const {r f : Nat} (hr : r ≠ 0) (hf : f < nx * ny) (hfr : regs f = r) {L : List FSt}
    (hL : Closed (inRegion nx ny regs r) L) (p : Nat) (hp : p < nx * ny) (hpr : regs p = r) :
    wP nx L p = wP nx L f :=
  (chain_w hnx conn8 regs r hL E hE p f (hconn p f hp hf (hpr.trans hfr.symm) (by rw [hpr]; exact hr))).2 hpr

/-- **point in polygon = region membership**, for a followed region -/
theorem inPolygon_region {r f : Nat} {cs : List (List FSt)} (hr : 1 ≤ r) (hg : GoodReg nx ny regs r f cs)
    (hcov : ∀ X Y : Nat, X < nx → Y + 1 < ny → regs (X + Y * nx) = r → regs (X + (Y + 1) * nx) ≠ r →
      (⟨(X : Int), (Y : Int), .W⟩ : FSt) ∈ cs.flatten)
    (X Y : Nat) (hX : X < nx) (hY : Y < ny) :
    inPolygon (cs.map cycRing) (X : Int) (Y : Int) = (regs (X + Y * nx) == r) := by
  obtain ⟨c0, rest, hcs, hE0, _⟩ := hg.head
  have hR := inRegion_inRaster nx ny regs r
  have hp : X + Y * nx < nx * ny := by
    have : (Y + 1) * nx ≤ ny * nx := Nat.mul_le_mul_right nx hY
    rw [Nat.add_mul, Nat.mul_comm ny nx] at this; omega
  have hclosed : Closed (inRegion nx ny regs r) cs.flatten := closed_flatten _ (fun c hc => (hg.cyc c hc).1)
  have hnd := hg.nodup
  have hEf : Est nx f ∈ cs.flatten := by
    rw [hcs, List.flatten_cons]; exact List.mem_append_left _ hE0
  rw [hcs, List.map_cons]
  simp only [inPolygon, List.all_map]
  have hwP : ∀ L : List FSt, wP nx L (X + Y * nx) = wcol L (X : Int) (Y : Int) := by
    intro L; unfold wP; rw [(xy_of X Y hX).1, (xy_of X Y hX).2]
  by_cases hreg : regs (X + Y * nx) = r
  · -- a pixel of the region: winding number 1 around the exterior, 0 around every hole
    have hconst : ∀ c ∈ cs, wcol c (X : Int) (Y : Int) = (c.count (Est nx f) : Int) := by
      intro c hc
      have hcl := (hg.cyc c hc).1
      have := region_const nx ny hnx regs conn8 E hE hconn (by omega) hg.inr hg.reg hcl _ hp hreg
      rw [hwP, w_first hnx regs r hcl hg.first] at this
      exact this
    have hnd0 : (c0 ++ rest.flatten).Nodup := by rw [hcs, List.flatten_cons] at hnd; exact hnd
    obtain ⟨hn0, hnr, hdis⟩ := List.nodup_append.mp hnd0
    have h0 : inRing (cycRing c0) (X : Int) (Y : Int) = true := by
      rw [inRing_cyc hR (hg.cyc c0 (by rw [hcs]; exact List.mem_cons_self))]
      rw [hconst c0 (by rw [hcs]; exact List.mem_cons_self), hn0.count, if_pos hE0]; rfl
    have hrest : rest.all ((fun h => !inRing h (X : Int) (Y : Int)) ∘ cycRing) = true := by
      rw [List.all_eq_true]
      intro c hc
      have hc' : c ∈ cs := by rw [hcs]; exact List.mem_cons_of_mem _ hc
      have hnot : Est nx f ∉ c := fun hmem =>
        hdis _ hE0 _ (List.mem_flatten.mpr ⟨c, hc, hmem⟩) rfl
      have hw : wcol c (X : Int) (Y : Int) = 0 := by
        rw [hconst c hc', List.count_eq_zero_of_not_mem hnot]; rfl
      have := inRing_cyc hR (hg.cyc c hc') (X : Int) (Y : Int)
      simp only [Function.comp, Bool.not_eq_true']
      cases hin : inRing (cycRing c) (X : Int) (Y : Int) with
      | false => rfl
      | true => rw [hin, hw] at this; have := this.mp rfl; omega
    rw [h0, hrest]; simp [hreg]
  · -- a pixel outside the region: total winding number 0
    have hind := w_indicator hnx regs r hclosed (f := f)
      (fun p hp' hpr => region_const nx ny hnx regs conn8 E hE hconn (by omega) hg.inr hg.reg hclosed p hp' hpr)
      hg.first (by rw [hnd.count]; exact if_pos hEf)
      (fun X' Y' hX' hY' h1 h2 => by rw [hnd.count]; exact if_pos (hcov X' Y' hX' hY' h1 h2)) X hX Y hY
    rw [if_neg hreg, hcs, List.flatten_cons, wcol_append] at hind
    have hne : (regs (X + Y * nx) == r) = false := by simpa using hreg
    rw [hne]
    cases h0 : inRing (cycRing c0) (X : Int) (Y : Int) with
    | false => rfl
    | true =>
      rw [Bool.true_and]
      cases hall : rest.all ((fun h => !inRing h (X : Int) (Y : Int)) ∘ cycRing) with
      | false => rfl
      | true =>
        exfalso
        have hw0 := (inRing_cyc hR (hg.cyc c0 (by rw [hcs]; exact List.mem_cons_self)) (X : Int) (Y : Int)).mp h0
        have hev : wcol rest.flatten (X : Int) (Y : Int) % 2 = 0 := by
          apply wcol_flatten_even
          intro c hc
          have hc' : c ∈ cs := by rw [hcs]; exact List.mem_cons_of_mem _ hc
          have := List.all_eq_true.mp hall c hc
          simp only [Function.comp, Bool.not_eq_true'] at this
          have hiff := inRing_cyc hR (hg.cyc c hc') (X : Int) (Y : Int)
          rw [this] at hiff
          have : ¬ (wcol c (X : Int) (Y : Int) % 2 = 1) := fun h => by have := hiff.mpr h; cases this
          omega
        omega

/-- **even-odd rule over all rings of the polygon** (exterior and holes together): the total number of
    crossings is odd exactly for the pixels of the region -/
theorem evenodd_region {r f : Nat} {cs : List (List FSt)} (hr : 1 ≤ r) (hg : GoodReg nx ny regs r f cs)
    (hcov : ∀ X Y : Nat, X < nx → Y + 1 < ny → regs (X + Y * nx) = r → regs (X + (Y + 1) * nx) ≠ r →
      (⟨(X : Int), (Y : Int), .W⟩ : FSt) ∈ cs.flatten)
    (X Y : Nat) (hX : X < nx) (hY : Y < ny) :
    ((cs.map cycRing).map (fun ring => crossings ring (X : Int) (Y : Int))).sum % 2 =
      if regs (X + Y * nx) = r then 1 else 0 := by
  have hR := inRegion_inRaster nx ny regs r
  have hclosed : Closed (inRegion nx ny regs r) cs.flatten := closed_flatten _ (fun c hc => (hg.cyc c hc).1)
  have hnd := hg.nodup
  obtain ⟨c0, rest, hcs, hE0, _⟩ := hg.head
  have hEf : Est nx f ∈ cs.flatten := by
    rw [hcs, List.flatten_cons]; exact List.mem_append_left _ hE0
  have hind := w_indicator hnx regs r hclosed (f := f)
    (fun p hp' hpr => region_const nx ny hnx regs conn8 E hE hconn (by omega) hg.inr hg.reg hclosed p hp' hpr)
    hg.first (by rw [hnd.count]; exact if_pos hEf)
    (fun X' Y' hX' hY' h1 h2 => by rw [hnd.count]; exact if_pos (hcov X' Y' hX' hY' h1 h2)) X hX Y hY
  have key : ∀ ds : List (List FSt), (∀ c ∈ ds, IsCyc (inRegion nx ny regs r) c) →
      (((ds.map cycRing).map (fun ring => crossings ring (X : Int) (Y : Int))).sum : Int) % 2 =
        wcol ds.flatten (X : Int) (Y : Int) % 2 := by
    intro ds
    induction ds with
    | nil => intro _; simp [wcol_nil]
    | cons c ds ih =>
      intro h
      have ih' := ih fun c' hc' => h c' (List.mem_cons_of_mem _ hc')
      obtain ⟨hcl, m, start, hm, e, hit⟩ := h c List.mem_cons_self
      have h1 := crossings_cycRing (inRegion nx ny regs r) (X : Int) (Y : Int) m start hm hit
      have h2 := wrow_eq_wcol' hcl hR (X : Int) (Y : Int)
      rw [← e] at h1
      unfold wrow at h2
      simp only [List.map_cons, List.sum_cons, List.flatten_cons, wcol_append, h1]
      push_cast
      omega
  have := key cs hg.cyc
  rw [hind] at this
  split at this <;> split <;> omega

/-- **`_scan` is lossless** on a region array whose ids are first-pixel ranks and whose regions are connected -/
theorem scan_lossless (values : Nat → V) (hrank : Ranked regs (nx * ny)) :
    let sc := (List.range (nx * ny)).foldl (scanStep nx ny regs values) ⟨[], [], 0, [], [], true⟩
    sc.ok = true ∧ sc.polys.length = sc.regionDone ∧ sc.column.length = sc.regionDone ∧
    (∀ p, p < nx * ny → regs p ≤ sc.regionDone) ∧
    (∀ i, i < sc.regionDone → ∃ f, f < nx * ny ∧ regs f = i + 1 ∧ (∀ p, p < f → regs p ≠ i + 1) ∧
      sc.column.reverse[i]? = some (values f)) ∧
    (∀ i, i < sc.regionDone → ∀ X Y : Nat, X < nx → Y < ny →
      inPolygon (sc.polys.getD i []) (X : Int) (Y : Int) = (regs (X + Y * nx) == i + 1) ∧
      ((sc.polys.getD i []).map (fun ring => crossings ring (X : Int) (Y : Int))).sum % 2 =
        if regs (X + Y * nx) = i + 1 then 1 else 0) := by
  intro sc
  obtain ⟨cyc, fs, h0⟩ := scan_inv nx ny hnx regs values hrank
  have h : ScanInv nx ny regs values (nx * ny) (nx * ny) sc cyc fs := h0
  clear h0
  have hpol : ∀ i, i < sc.regionDone → sc.polys.getD i [] = (cyc (i + 1)).map cycRing := by
    intro i hi
    rw [List.getD_eq_getElem?_getD, h.polys, List.getElem?_map, List.getElem?_range hi]; rfl
  refine ⟨h.ok, by rw [h.polys, List.length_map, List.length_range],
    by rw [h.col, List.length_reverse, List.length_map, List.length_range], h.seen, ?_, ?_⟩
  · intro i hi
    obtain ⟨hg, _⟩ := h.good (i + 1) (by omega) (by omega)
    refine ⟨fs (i + 1), hg.inr, hg.reg, hg.first, ?_⟩
    rw [h.col, List.reverse_reverse, List.getElem?_map, List.getElem?_range hi]; rfl
  · intro i hi X Y hX hY
    obtain ⟨hg, _⟩ := h.good (i + 1) (by omega) (by omega)
    rw [hpol i hi]
    suffices hcov : ∀ X' Y' : Nat, X' < nx → Y' + 1 < ny → regs (X' + Y' * nx) = i + 1 →
        regs (X' + (Y' + 1) * nx) ≠ i + 1 → (⟨(X' : Int), (Y' : Int), .W⟩ : FSt) ∈ (cyc (i + 1)).flatten from
      ⟨inPolygon_region nx ny hnx regs conn8 E hE hconn (by omega) hg hcov X Y hX hY,
       evenodd_region nx ny hnx regs conn8 E hE hconn (by omega) hg hcov X Y hX hY⟩
    intro X' Y' hX' hY' h1 h2
    have hq : X' + (Y' + 1) * nx < nx * ny := by
      have : (Y' + 1 + 1) * nx ≤ ny * nx := Nat.mul_le_mul_right nx hY'
      rw [Nat.add_mul (Y' + 1) 1, Nat.mul_comm ny nx] at this; omega
    have hsub : X' + (Y' + 1) * nx - nx = X' + Y' * nx := by rw [Nat.add_mul]; omega
    have hmem := h.cov (X' + (Y' + 1) * nx) (by rw [Nat.add_mul]; omega) hq (by rw [hsub, h1]; exact h2)
      (by rw [hsub, h1]; omega)
    have := ((h.v2 _).mp hmem).2.2.2.2
    rw [hsub, h1] at this
    simp only [Wst, (xy_of X' Y' hX').1, (xy_of X' Y' hX').2] at this
    exact this

end region

end XrsVerif.Polygonize
