import XrsVerif.Proofs.ILangVsinsdel
import XrsVerif.Proofs.ILViewshedLift
import XrsVerif.Proofs.ViewshedFix
/-
  Proofs/ILViewshedFixRot.lean -- the rotations *as they are inlined* in `_rb_insert_fixup` / `_rb_delete_fixup`
  (name-generic), and the colour writes of the fix-ups, both at an arbitrary position of the whole tree.

  * `rotRen pre k1 k2`   the renaming of the locals of `_left_rotate` / `_right_rotate` in an inlined copy: the
                         translator's prefix, and the counters of the two inlined `_find_value_min_value` calls;
                         injective (`rotRen_inj`: a prefix after four transpositions);
  * `rotCall body ρ …`   `root = _rotate(tree_vals, tree_nodes, root, arg)` inlined: two parameter assignments, the
                         `scope` of the renamed body, the result assignment.  That the inlined copies of the
                         regenerated programs *are* `rotCall Gen.IL.vsLeftRotate.body …` is checked by `decide`
                         (Proofs/ILViewshedFixIns.lean, …FixDel.lean);
  * `lrotCall_at_path`, `rrotCall_at_path`   by the renaming theorem (`exec_ren`) the refinement theorems of the
                         stand-alone rotations (`vsLeftRotate_at_path`, …) hold for every inlined copy;
  * `stCol_at`           `tree_nodes[x][TN_COLOR_ID] = c` at a position = `atPath (setCol …)` of the model.
-/
set_option linter.unusedSectionVars false
set_option linter.unusedVariables false
set_option linter.unusedSimpArgs false
namespace XrsVerif.ILVs
open XrsVerif XrsVerif.IL XrsVerif.Viewshed
variable {F : Type} [Fl F]

/-! ### the renaming of an inlined rotation -/

/-- the renaming of the locals of a rotation inlined under the prefix `pre`, whose two inlined
    `_find_value_min_value` calls carry the counters `k1`, `k2` (1 and 2 in the stand-alone program) -/
def rotRen (pre k1 k2 : String) (v : String) : String :=
  pre ++ swapS "_find_value_min_value1$node_id" ("_find_value_min_value" ++ k1 ++ "$node_id")
    (swapS "_find_value_min_value1$ret0" ("_find_value_min_value" ++ k1 ++ "$ret0")
    (swapS "_find_value_min_value2$node_id" ("_find_value_min_value" ++ k2 ++ "$node_id")
    (swapS "_find_value_min_value2$ret0" ("_find_value_min_value" ++ k2 ++ "$ret0") v)))

theorem rotRen_inj (pre k1 k2 : String) : Inj (rotRen pre k1 k2) := by
  intro a b h
  unfold rotRen at h
  exact inj_swapS _ _ _ _ (inj_swapS _ _ _ _ (inj_swapS _ _ _ _ (inj_swapS _ _ _ _ (inj_pre pre _ _ h))))

/-- `root = _left_rotate(tree_vals, tree_nodes, root, arg)` (or `_right_rotate`) inlined: `body` is the callee's
    body, `param` the name of its last parameter (`x` / `y`) -/
def rotCall (body : St) (ρ : String → String) (param root arg : String) : St :=
  (.seq (.setI (ρ "root") (.var root))
  (.seq (.setI (ρ param) (.var arg))
  (.seq (.scope (renS ρ body))
  (.setI root (.var (ρ "ret0"))))))

/-- the state in which the callee starts, seen through the renaming -/
def callIn (ρ : String → String) (param root arg : String) (s : State F) : State F :=
  pull ρ { s with ienv := setS (setS s.ienv (ρ "root") (s.ienv root)) (ρ param) (s.ienv arg) }

theorem callIn_param (ρ : String → String) (param root arg : String) (s : State F) :
    (callIn ρ param root arg s).ienv param = s.ienv arg := by simp [callIn, setS]

theorem callIn_root (ρ : String → String) (hρ : Inj ρ) (param root arg : String) (hp : param ≠ "root") (s : State F) :
    (callIn ρ param root arg s).ienv "root" = s.ienv root := by
  have : ρ "root" ≠ ρ param := fun e => hp (hρ _ _ e).symm
  simp [callIn, setS, this]

/-- an inlined call acts on the arrays as the callee does; the result lands in `root` -/
theorem rotCall_exec (body : St) (ρ : String → String) (hρ : Inj ρ) (param root arg : String) (harg : arg ≠ ρ "root")
    (fuel : Nat) (s : State F) (hrun : s.ctl = .run)
    (hret : (exec fuel body (callIn ρ param root arg s)).ctl = .ret) :
    let q := exec fuel body (callIn ρ param root arg s)
    let r := exec fuel (rotCall body ρ param root arg) s
    r.ctl = .run ∧ r.ia = q.ia ∧ r.fa = q.fa ∧ r.shp = q.shp ∧ r.ienv root = q.ienv "ret0" := by
  intro q r
  have h1 : exec fuel (.setI (ρ "root") (.var root)) s = { s with ienv := setS s.ienv (ρ "root") (s.ienv root) } := by
    rw [exec_setI _ _ _ _ (IE.ok_var _ _), IE.eval_var]
  have h2 : exec fuel (.setI (ρ param) (.var arg)) { s with ienv := setS s.ienv (ρ "root") (s.ienv root) } =
      { s with ienv := setS (setS s.ienv (ρ "root") (s.ienv root)) (ρ param) (s.ienv arg) } := by
    rw [exec_setI _ _ _ _ (IE.ok_var _ _), IE.eval_var]
    simp [setS, harg]
  generalize hs2 : ({ s with ienv := setS (setS s.ienv (ρ "root") (s.ienv root)) (ρ param) (s.ienv arg) } : State F) = s2 at h2
  have hs2run : s2.ctl = .run := by rw [← hs2]; exact hrun
  have hpull : pull ρ (exec fuel (renS ρ body) s2) = q := by
    rw [exec_ren ρ hρ, ← hs2]; rfl
  generalize hr1 : exec fuel (renS ρ body) s2 = r1 at hpull
  have hc1 : r1.ctl = .ret := by
    have : (pull ρ r1).ctl = q.ctl := by rw [hpull]
    rw [pull_ctl] at this; rw [this]; exact hret
  have hr : r = { r1 with ctl := .run, ienv := setS r1.ienv root (r1.ienv (ρ "ret0")) } := by
    simp only [r, rotCall]
    rw [exec_seq_run _ _ _ _ (by rw [h1]; exact hrun), h1, exec_seq_run _ _ _ _ (by rw [h2]; exact hs2run), h2,
      exec_seq_run _ _ _ _ (by rw [exec_scope, hr1]; simp [hc1]), exec_scope, hr1]
    simp only [hc1, if_true]
    rw [exec_setI _ _ _ _ (IE.ok_var _ _), IE.eval_var]
  rw [hr]
  refine ⟨rfl, ?_, ?_, ?_, ?_⟩
  · show r1.ia = q.ia; rw [← hpull]; rfl
  · show r1.fa = q.fa; rw [← hpull]; rfl
  · show r1.shp = q.shp; rw [← hpull]; rfl
  · show setS r1.ienv root (r1.ienv (ρ "ret0")) root = q.ienv "ret0"
    rw [setS_same, ← hpull]; rfl

/-! ### paths of positions -/

def Fr.dir : Fr → Dir
  | .L _ _ => .L
  | .R _ _ => .R

theorem pathOf_eq : ∀ (ctx : Ctx), pathOf ctx = (ctx.map Fr.dir).reverse := by
  intro ctx
  induction ctx with
  | nil => rfl
  | cons fr rest ih => cases fr <;> simp [pathOf, Fr.dir, ih]

theorem pathOf_ne_nil (fr : Fr) (rest : Ctx) : pathOf (fr :: rest) ≠ [] := by
  cases fr <;> simp [pathOf]

theorem subAt_plugT {α : Type} [LT α] [DecidableLT α] [LE α] [DecidableLE α] : ∀ (tc : List (TFr α)) (t : Tree α),
    subAt ((tc.map TFr.dir).reverse) (plugT t tc) = t := by
  intro tc
  induction tc with
  | nil => intro t; rfl
  | cons fr rest ih =>
    intro t
    cases fr with
    | L n mx c r =>
      simp only [List.map_cons, List.reverse_cons, plugT, TFr.dir]
      rw [subAt_append, ih]; rfl
    | R l n mx c =>
      simp only [List.map_cons, List.reverse_cons, plugT, TFr.dir]
      rw [subAt_append, ih]; rfl

/-- the model subtree at the path of a position is the abstraction of the position's subtree -/
theorem subAt_plug (V : List F) (N : List Int) (ctx : Ctx) (sub : Sh) :
    subAt (pathOf ctx) (absT V N (plug sub ctx)) = absT V N sub := by
  rw [absT_plug, pathOf_absCtx V N ctx, subAt_plugT]

/-- the root pointer of a tree depends on the position's subtree only at the root position -/
theorem plug_ptr_cons (fr : Fr) (rest : Ctx) (a b : Sh) : (plug a (fr :: rest)).ptr = (plug b (fr :: rest)).ptr := by
  induction rest generalizing fr a b with
  | nil => cases fr <;> rfl
  | cons f2 rest ih => cases fr <;> exact ih _ _ _

/-! ### the rotations at a position, with the colour column -/

theorem vsLeftRotate_at_path' (s : State F) (fuel n : Nat) (hv : VS s n) (hrun : s.ctl = .run) (ctx : Ctx)
    (a : Sh) (x : Nat) (b : Sh) (y : Nat) (c : Sh)
    (hL : Linked (s.ia "tree_nodes") n (-1) (plug (.node a x (.node b y c)) ctx))
    (hN : (plug (.node a x (.node b y c)) ctx).idxs.Nodup) (hx : s.ienv "x" = x) :
    let q := Gen.IL.vsLeftRotate.run s fuel
    let S : Fv F := vAt (s.fa "tree_vals") (n - 1) 7
    q.ctl = .ret ∧ VS q n ∧ Linked (q.ia "tree_nodes") n (-1) (plug (.node (.node a x b) y c) ctx) ∧
      (plug (.node (.node a x b) y c) ctx).idxs.Nodup ∧
      absT (q.fa "tree_vals") (q.ia "tree_nodes") (plug (.node (.node a x b) y c) ctx) =
        atPath (rotL S) (pathOf ctx) (absT (s.fa "tree_vals") (s.ia "tree_nodes") (plug (.node a x (.node b y c)) ctx)) ∧
      q.ienv "ret0" = (if ctxPar ctx = -1 then (y : Int) else s.ienv "root") ∧
      vAt (q.fa "tree_vals") (n - 1) 7 = S ∧
      (∀ i, nAt (q.ia "tree_nodes") i 0 = nAt (s.ia "tree_nodes") i 0) := by
  intro q S
  obtain ⟨hlo, _, hno⟩ := unplug ctx _ hL hN
  have hpar := ctxPar_cases ctx _ hL hN
  obtain ⟨_, _, _, _, _, _, _, r8⟩ := vsLeftRotate_refines s fuel n hv hrun a x b y c (ctxPar ctx) hlo hno hx hpar
  obtain ⟨p1, p2, p3, p4, p5, p6, p7⟩ := vsLeftRotate_at_path s fuel n hv hrun ctx a x b y c hL hN hx
  exact ⟨p1, p2, p3, p4, p5, p6, p7, r8.col0⟩

theorem vsRightRotate_at_path' (s : State F) (fuel n : Nat) (hv : VS s n) (hrun : s.ctl = .run) (ctx : Ctx)
    (a : Sh) (x : Nat) (b : Sh) (y : Nat) (c : Sh)
    (hL : Linked (s.ia "tree_nodes") n (-1) (plug (.node (.node a x b) y c) ctx))
    (hN : (plug (.node (.node a x b) y c) ctx).idxs.Nodup) (hy : s.ienv "y" = y) :
    let q := Gen.IL.vsRightRotate.run s fuel
    let S : Fv F := vAt (s.fa "tree_vals") (n - 1) 7
    q.ctl = .ret ∧ VS q n ∧ Linked (q.ia "tree_nodes") n (-1) (plug (.node a x (.node b y c)) ctx) ∧
      (plug (.node a x (.node b y c)) ctx).idxs.Nodup ∧
      absT (q.fa "tree_vals") (q.ia "tree_nodes") (plug (.node a x (.node b y c)) ctx) =
        atPath (rotR S) (pathOf ctx) (absT (s.fa "tree_vals") (s.ia "tree_nodes") (plug (.node (.node a x b) y c) ctx)) ∧
      q.ienv "ret0" = (if ctxPar ctx = -1 then (x : Int) else s.ienv "root") ∧
      vAt (q.fa "tree_vals") (n - 1) 7 = S ∧
      (∀ i, nAt (q.ia "tree_nodes") i 0 = nAt (s.ia "tree_nodes") i 0) := by
  intro q S
  obtain ⟨hlo, _, hno⟩ := unplug ctx _ hL hN
  have hpar := ctxPar_cases ctx _ hL hN
  obtain ⟨_, _, _, _, _, _, _, r8⟩ := vsRightRotate_refines s fuel n hv hrun a x b y c (ctxPar ctx) hlo hno hy hpar
  obtain ⟨p1, p2, p3, p4, p5, p6, p7⟩ := vsRightRotate_at_path s fuel n hv hrun ctx a x b y c hL hN hy
  exact ⟨p1, p2, p3, p4, p5, p6, p7, r8.col0⟩

/-- **an inlined `_left_rotate` at a position of the whole tree is the model's `atPath (rotL S)`** -/
theorem lrotCall_at_path (ρ : String → String) (hρ : Inj ρ) (root arg : String) (harg : arg ≠ ρ "root")
    (s : State F) (fuel n : Nat) (hv : VS s n) (hrun : s.ctl = .run) (ctx : Ctx)
    (a : Sh) (x : Nat) (b : Sh) (y : Nat) (c : Sh)
    (hL : Linked (s.ia "tree_nodes") n (-1) (plug (.node a x (.node b y c)) ctx))
    (hN : (plug (.node a x (.node b y c)) ctx).idxs.Nodup) (hx : s.ienv arg = x) :
    let r := exec fuel (rotCall Gen.IL.vsLeftRotate.body ρ "x" root arg) s
    let S : Fv F := vAt (s.fa "tree_vals") (n - 1) 7
    r.ctl = .run ∧ VS r n ∧ Linked (r.ia "tree_nodes") n (-1) (plug (.node (.node a x b) y c) ctx) ∧
      (plug (.node (.node a x b) y c) ctx).idxs.Nodup ∧
      absT (r.fa "tree_vals") (r.ia "tree_nodes") (plug (.node (.node a x b) y c) ctx) =
        atPath (rotL S) (pathOf ctx) (absT (s.fa "tree_vals") (s.ia "tree_nodes") (plug (.node a x (.node b y c)) ctx)) ∧
      r.ienv root = (if ctxPar ctx = -1 then (y : Int) else s.ienv root) ∧
      vAt (r.fa "tree_vals") (n - 1) 7 = S ∧
      (∀ i, nAt (r.ia "tree_nodes") i 0 = nAt (s.ia "tree_nodes") i 0) := by
  intro r S
  have hvt : VS (callIn ρ "x" root arg s) n := hv.of_eq rfl rfl rfl
  have hxt : (callIn ρ "x" root arg s).ienv "x" = x := by rw [callIn_param]; exact hx
  obtain ⟨p1, p2, p3, p4, p5, p6, p7, p8⟩ :=
    vsLeftRotate_at_path' (callIn ρ "x" root arg s) fuel n hvt hrun ctx a x b y c hL hN hxt
  obtain ⟨c1, c2, c3, c4, c5⟩ := rotCall_exec Gen.IL.vsLeftRotate.body ρ hρ "x" root arg harg fuel s hrun p1
  rw [callIn_root ρ hρ "x" root arg (by decide)] at p6
  refine ⟨c1, ?_, by rw [c2]; exact p3, p4, by rw [c2, c3]; exact p5, by rw [c5]; exact p6, by rw [c3]; exact p7,
    by rw [c2]; exact p8⟩
  exact ⟨by rw [c4]; exact p2.shpV, by rw [c4]; exact p2.shpN, by rw [c3]; exact p2.lenV, by rw [c2]; exact p2.lenN, hv.pos⟩

/-- **an inlined `_right_rotate` at a position of the whole tree is the model's `atPath (rotR S)`** -/
theorem rrotCall_at_path (ρ : String → String) (hρ : Inj ρ) (root arg : String) (harg : arg ≠ ρ "root")
    (s : State F) (fuel n : Nat) (hv : VS s n) (hrun : s.ctl = .run) (ctx : Ctx)
    (a : Sh) (x : Nat) (b : Sh) (y : Nat) (c : Sh)
    (hL : Linked (s.ia "tree_nodes") n (-1) (plug (.node (.node a x b) y c) ctx))
    (hN : (plug (.node (.node a x b) y c) ctx).idxs.Nodup) (hy : s.ienv arg = y) :
    let r := exec fuel (rotCall Gen.IL.vsRightRotate.body ρ "y" root arg) s
    let S : Fv F := vAt (s.fa "tree_vals") (n - 1) 7
    r.ctl = .run ∧ VS r n ∧ Linked (r.ia "tree_nodes") n (-1) (plug (.node a x (.node b y c)) ctx) ∧
      (plug (.node a x (.node b y c)) ctx).idxs.Nodup ∧
      absT (r.fa "tree_vals") (r.ia "tree_nodes") (plug (.node a x (.node b y c)) ctx) =
        atPath (rotR S) (pathOf ctx) (absT (s.fa "tree_vals") (s.ia "tree_nodes") (plug (.node (.node a x b) y c) ctx)) ∧
      r.ienv root = (if ctxPar ctx = -1 then (x : Int) else s.ienv root) ∧
      vAt (r.fa "tree_vals") (n - 1) 7 = S ∧
      (∀ i, nAt (r.ia "tree_nodes") i 0 = nAt (s.ia "tree_nodes") i 0) := by
  intro r S
  have hvt : VS (callIn ρ "y" root arg s) n := hv.of_eq rfl rfl rfl
  have hyt : (callIn ρ "y" root arg s).ienv "y" = y := by rw [callIn_param]; exact hy
  obtain ⟨p1, p2, p3, p4, p5, p6, p7, p8⟩ :=
    vsRightRotate_at_path' (callIn ρ "y" root arg s) fuel n hvt hrun ctx a x b y c hL hN hyt
  obtain ⟨c1, c2, c3, c4, c5⟩ := rotCall_exec Gen.IL.vsRightRotate.body ρ hρ "y" root arg harg fuel s hrun p1
  rw [callIn_root ρ hρ "y" root arg (by decide)] at p6
  refine ⟨c1, ?_, by rw [c2]; exact p3, p4, by rw [c2, c3]; exact p5, by rw [c5]; exact p6, by rw [c3]; exact p7,
    by rw [c2]; exact p8⟩
  exact ⟨by rw [c4]; exact p2.shpV, by rw [c4]; exact p2.shpN, by rw [c3]; exact p2.lenV, by rw [c2]; exact p2.lenN, hv.pos⟩

/-! ### a colour write at a position -/

/-- the colour cell of the root of a position's subtree is overwritten: links untouched, the abstraction is the
    model's `atPath (setCol …)` -/
theorem setCol_arr {V : List F} {N : List Int} {n : Nat} (ctx : Ctx) (l : Sh) (i : Nat) (r : Sh) (c : Int)
    (hL : Linked N n (-1) (plug (.node l i r) ctx)) (hN : (plug (.node l i r) ctx).idxs.Nodup) (hlen : N.length = n * 4) :
    let N' := N.set (i * 4) c
    Linked N' n (-1) (plug (.node l i r) ctx) ∧
      absT V N' (plug (.node l i r) ctx) =
        atPath (setCol (decide (c = 0))) (pathOf ctx) (absT V N (plug (.node l i r) ctx)) ∧
      (∀ j k, k < 4 → ¬ (j = i ∧ k = 0) → nAt N' j k = nAt N j k) ∧ nAt N' i 0 = c ∧ N'.length = N.length := by
  intro N'
  have hi : i + 1 < n := Linked.idx_lt hL i (mem_plug _ ctx _ (by simp [Sh.idxs]))
  have hlt : i * 4 < N.length := by omega
  have hget : ∀ j k, k < 4 → nAt N' j k = if j = i ∧ k = 0 then c else nAt N j k :=
    fun j k hk => nAt_set0 N i c j k hk hlt
  have hoth : ∀ j k, k < 4 → ¬ (j = i ∧ k = 0) → nAt N' j k = nAt N j k := fun j k hk hne => by
    rw [hget j k hk, if_neg hne]
  have hnd := (nodup_plug_iff ctx (.node l i r)).mp hN
  obtain ⟨_, _, hns⟩ := unplug ctx _ hL hN
  have hd := Sh.ptr_ne_of_nodup l r i hns
  have hictx : i ∉ ctxIdxs ctx := fun h => (List.nodup_append.mp hnd).2.2 i (by simp [Sh.idxs]) i h rfl
  refine ⟨?_, ?_, hoth, by rw [hget i 0 (by decide)]; simp, by simp [N']⟩
  · exact hL.congr (fun j _ => ⟨hoth j 1 (by decide) (by simp), hoth j 2 (by decide) (by simp), hoth j 3 (by decide) (by simp)⟩)
  · rw [absT_plug, absT_plug, atPath_plugT _ _ _ _ (pathOf_absCtx V N ctx)]
    have hc : absCtx V N' ctx = absCtx V N ctx :=
      absCtx_congr ctx (fun j hj => ⟨fun _ _ => rfl, hoth j 0 (by decide) (fun e => hictx (e.1 ▸ hj))⟩)
    have hl : absT V N' l = absT V N l :=
      absT_congr l (fun j hj => ⟨fun _ _ => rfl, hoth j 0 (by decide) (fun e => hd.2.2.2.2.1 (e.1 ▸ hj))⟩)
    have hr : absT V N' r = absT V N r :=
      absT_congr r (fun j hj => ⟨fun _ _ => rfl, hoth j 0 (by decide) (fun e => hd.2.2.2.2.2 (e.1 ▸ hj))⟩)
    rw [hc]
    congr 1
    simp only [absT, hl, hr, setCol, hget i 0 (by decide), and_self, if_true]

/-- **`tree_nodes[x][TN_COLOR_ID] = c`** where `x` holds the root of the subtree at a position -/
theorem stCol_at (fuel n : Nat) (s : State F) (hv : VS s n) (hrun : s.ctl = .run) (xv : String) (c : Int) (ctx : Ctx)
    (l : Sh) (i : Nat) (r : Sh) (hL : Linked (s.ia "tree_nodes") n (-1) (plug (.node l i r) ctx))
    (hN : (plug (.node l i r) ctx).idxs.Nodup) (hx : s.ienv xv = i) :
    let q := exec fuel (.stI2 "tree_nodes" (.var xv) (.lit 0) (.lit c)) s
    q.ctl = .run ∧ VS q n ∧ q.ienv = s.ienv ∧ q.fa = s.fa ∧
      Linked (q.ia "tree_nodes") n (-1) (plug (.node l i r) ctx) ∧
      absT (q.fa "tree_vals") (q.ia "tree_nodes") (plug (.node l i r) ctx) =
        atPath (setCol (decide (c = 0))) (pathOf ctx)
          (absT (s.fa "tree_vals") (s.ia "tree_nodes") (plug (.node l i r) ctx)) ∧
      (∀ j k, k < 4 → ¬ (j = i ∧ k = 0) → nAt (q.ia "tree_nodes") j k = nAt (s.ia "tree_nodes") j k) ∧
      nAt (q.ia "tree_nodes") i 0 = c := by
  intro q
  have hi : i + 1 < n := Linked.idx_lt hL i (mem_plug _ ctx _ (by simp [Sh.idxs]))
  have hin : inRange (s.ienv xv) n = true := by rw [hx]; exact inRange_ptr n _ (by omega) hv.pos
  have hq : q = { s with ia := setS s.ia "tree_nodes" ((s.ia "tree_nodes").set (i * 4) c) } := by
    simp only [q]
    rw [exec_stN fuel s n hv.shpN xv 0 (.lit c) (by decide) hin (IE.ok_lit _ _), hx, rowOf_nat, IE.eval_lit]
    rfl
  obtain ⟨a1, a2, a3, a4, a5⟩ := setCol_arr (V := s.fa "tree_vals") ctx l i r c hL hN hv.lenN
  have hia : q.ia "tree_nodes" = (s.ia "tree_nodes").set (i * 4) c := by rw [hq]; simp [setS]
  refine ⟨by rw [hq]; exact hrun, ?_, by rw [hq], by rw [hq], by rw [hia]; exact a1, ?_, by rw [hia]; exact a3,
    by rw [hia]; exact a4⟩
  · exact ⟨by rw [hq]; exact hv.shpV, by rw [hq]; exact hv.shpN, by rw [hq]; exact hv.lenV,
      by rw [hia, a5]; exact hv.lenN, hv.pos⟩
  · rw [hia]; rw [hq]; exact a2

/-- **`tree_nodes[x][TN_COLOR_ID] = e`** (a colour read from elsewhere) where `x` holds the root of the subtree at a
    position -/
theorem stColE_at (fuel n : Nat) (s : State F) (hv : VS s n) (hrun : s.ctl = .run) (xv : String) (e : IE)
    (he : e.ok s = true) (ctx : Ctx)
    (l : Sh) (i : Nat) (r : Sh) (hL : Linked (s.ia "tree_nodes") n (-1) (plug (.node l i r) ctx))
    (hN : (plug (.node l i r) ctx).idxs.Nodup) (hx : s.ienv xv = i) :
    let q := exec fuel (.stI2 "tree_nodes" (.var xv) (.lit 0) e) s
    q.ctl = .run ∧ VS q n ∧ q.ienv = s.ienv ∧ q.fa = s.fa ∧
      Linked (q.ia "tree_nodes") n (-1) (plug (.node l i r) ctx) ∧
      absT (q.fa "tree_vals") (q.ia "tree_nodes") (plug (.node l i r) ctx) =
        atPath (setCol (decide (e.eval s = 0))) (pathOf ctx)
          (absT (s.fa "tree_vals") (s.ia "tree_nodes") (plug (.node l i r) ctx)) ∧
      (∀ j k, k < 4 → ¬ (j = i ∧ k = 0) → nAt (q.ia "tree_nodes") j k = nAt (s.ia "tree_nodes") j k) ∧
      nAt (q.ia "tree_nodes") i 0 = e.eval s := by
  intro q
  have hi : i + 1 < n := Linked.idx_lt hL i (mem_plug _ ctx _ (by simp [Sh.idxs]))
  have hin : inRange (s.ienv xv) n = true := by rw [hx]; exact inRange_ptr n _ (by omega) hv.pos
  have hq : q = { s with ia := setS s.ia "tree_nodes" ((s.ia "tree_nodes").set (i * 4) (e.eval s)) } := by
    simp only [q]
    rw [exec_stN fuel s n hv.shpN xv 0 e (by decide) hin he, hx, rowOf_nat]
    rfl
  obtain ⟨a1, a2, a3, a4, a5⟩ := setCol_arr (V := s.fa "tree_vals") ctx l i r (e.eval s) hL hN hv.lenN
  have hia : q.ia "tree_nodes" = (s.ia "tree_nodes").set (i * 4) (e.eval s) := by rw [hq]; simp [setS]
  refine ⟨by rw [hq]; exact hrun, ?_, by rw [hq], by rw [hq], by rw [hia]; exact a1, ?_, by rw [hia]; exact a3,
    by rw [hia]; exact a4⟩
  · exact ⟨by rw [hq]; exact hv.shpV, by rw [hq]; exact hv.shpN, by rw [hq]; exact hv.lenV,
      by rw [hia, a5]; exact hv.lenN, hv.pos⟩
  · rw [hia]; rw [hq]; exact a2

/-- a colour cell holds `RB_RED = 0` or `RB_BLACK = 1` -/
def ColV (c : Int) : Prop := c = 0 ∨ c = 1

/-- a colour write of 0 / 1 keeps every colour cell sane -/
theorem colV_of_store {N N' : List Int} {i : Nat} {c : Int} (hc : ColV c)
    (hoth : ∀ j k, k < 4 → ¬ (j = i ∧ k = 0) → nAt N' j k = nAt N j k) (hi : nAt N' i 0 = c) :
    ∀ j, ColV (nAt N j 0) → ColV (nAt N' j 0) := by
  intro j hj
  by_cases e : j = i
  · rw [e, hi]; exact hc
  · rw [hoth j 0 (by decide) (fun h => e h.1)]; exact hj

theorem colV_of_eq {N N' : List Int} (h : ∀ j, nAt N' j 0 = nAt N j 0) : ∀ j, ColV (nAt N j 0) → ColV (nAt N' j 0) :=
  fun j hj => by rw [h j]; exact hj

/-- the root row of a tree with a non-empty context is a frame row -/
theorem plug_ptr_mem : ∀ (rest : Ctx) (fr : Fr) (sub : Sh), ∃ j ∈ ctxIdxs (fr :: rest), (plug sub (fr :: rest)).ptr = (j : Int) := by
  intro rest
  induction rest with
  | nil =>
    intro fr sub
    cases fr with
    | L p pr => exact ⟨p, by simp [ctxIdxs], rfl⟩
    | R pl p => exact ⟨p, by simp [ctxIdxs], rfl⟩
  | cons f2 rest ih =>
    intro fr sub
    cases fr with
    | L p pr =>
      obtain ⟨j, hj, e⟩ := ih f2 (.node sub p pr)
      exact ⟨j, by simp only [ctxIdxs]; simp [hj], e⟩
    | R pl p =>
      obtain ⟨j, hj, e⟩ := ih f2 (.node pl p sub)
      exact ⟨j, by simp only [ctxIdxs]; simp [hj], e⟩

/-- the root of a tree is no row of a proper position's subtree -/
theorem plug_ptr_ne (fr : Fr) (rest : Ctx) (sub : Sh) (i : Nat) (hi : i ∈ sub.idxs)
    (hN : (plug sub (fr :: rest)).idxs.Nodup) : (plug sub (fr :: rest)).ptr ≠ (i : Int) := by
  obtain ⟨j, hj, e⟩ := plug_ptr_mem rest fr sub
  have hnd := (nodup_plug_iff (fr :: rest) sub).mp hN
  intro h
  have : j = i := by rw [e] at h; omega
  exact (List.nodup_append.mp hnd).2.2 i hi j hj this.symm

end XrsVerif.ILVs
