import XrsVerif.Proofs.ILProxBlocks
/-
  Proofs/ILProxRel.lean -- the abstraction relation between an ILang state of the generated line sweep and the
  hand model's `Prox.LineSt`, and the explicit hypotheses on the number domain.

  The model works with *squared distances as naturals* and the threshold `⌈2·max²⌉`.  The generated program
  works with numbers `F`: `dist = _distance(...)` (external), `dist ** 2`, `max_distance ** 2 * 2.0`,
  `sqrt(near_distance_square)`, and the comparisons `<`, `>=`.  `Arith c emb mx` lists what is assumed of `F`:
  an embedding `emb : Nat → F` of the model's squared distances under which the comparisons of the program
  are the comparisons of the model, and `sqrt` is exact on embedded values.  `SweepEnv.dist` is the hypothesis
  on `_distance` and the coordinate grids: the square of the external distance between two cells is the
  embedded `dist2` of the model.  Nothing else is assumed.
-/
namespace XrsVerif.IL.Px
open XrsVerif XrsVerif.Prox
variable {F : Type} [Fl F]
set_option linter.unusedSectionVars false
set_option linter.unusedSimpArgs false

/-! ### the number domain -/

/-- what the refinement assumes of the number type, for the model configuration `c`, the embedding `emb` of
    squared distances and the value `mx` of `max_distance` -/
structure Arith (c : Cfg) (emb : Nat → F) (mx : F) : Prop where
  /-- `<` on embedded squared distances is `<` on naturals -/
  lt_emb : ∀ a b, Fl.lt (emb a) (emb b) = decide (a < b)
  /-- `dist² < max_distance ** 2 * 2.0` is the model's `d < ⌈2·max²⌉` -/
  thr_lt : ∀ d, Fl.lt (emb d) (Fl.mul (Fl.mul mx mx) (Fl.lit 2 1)) = ltOpt d c.max2x2
  /-- `max_distance * max_distance >= dist²` is the model's `2·d ≤ ⌈2·max²⌉` -/
  thr_ge : ∀ d, Fl.le (emb d) (Fl.mul mx mx) = withinMax c d
  /-- `sqrt` is exact on embedded values, and non-negative -/
  sqrt_sq : ∀ d, Fl.mul (Fl.sqrt (emb d)) (Fl.sqrt (emb d)) = emb d
  sqrt_lt : ∀ d, Fl.lt (Fl.sqrt (emb d)) (Fl.lit 0 1) = false
  sqrt_le : ∀ d, Fl.le (Fl.lit 0 1) (Fl.sqrt (emb d)) = true
  /-- the literal `0.0` stored at a target pixel -/
  zero_sq : Fl.mul (Fl.lit 0 1 : F) (Fl.lit 0 1) = emb 0
  zero_lt : Fl.lt (Fl.lit 0 1 : F) (Fl.lit 0 1) = false
  zero_le : Fl.le (Fl.lit 0 1 : F) (Fl.lit 0 1) = true

/-- a stored `line_proximity` value against the model's squared proximity (`none` = "still -1") -/
def lpRel (emb : Nat → F) (y : F) : Option Nat → Prop
  | none => Fl.lt y (Fl.lit 0 1) = true
  | some d => Fl.lt y (Fl.lit 0 1) = false ∧ Fl.le (Fl.lit 0 1) y = true ∧ Fl.mul y y = emb d

/-- a pair `(pan_near_x[q], pan_near_y[q])` / `(nearest_xs[q], nearest_ys[q])` against a model target -/
def tgtRel (H W : Nat) (x y : Int) : Tgt → Prop
  | none => x = -1
  | some t => x = (t.2 : Int) ∧ y = (t.1 : Int) ∧ t.1 < H ∧ t.2 < W

/-- `near_distance_square` against the model's bound: still the threshold, or an embedded distance -/
def NdsOK (c : Cfg) (emb : Nat → F) (mx x : F) (n : Option Nat) : Prop :=
  (x = Fl.mul (Fl.mul mx mx) (Fl.lit 2 1) ∧ n = c.max2x2) ∨ ∃ d, n = some d ∧ x = emb d

theorem NdsOK.lt {c : Cfg} {emb : Nat → F} {mx x : F} {n : Option Nat} (ar : Arith c emb mx)
    (h : NdsOK c emb mx x n) (d : Nat) : Fl.lt (emb d) x = ltOpt d n := by
  rcases h with ⟨hx, hn⟩ | ⟨e, hn, hx⟩
  · rw [hx, hn, ar.thr_lt]
  · rw [hx, hn, ar.lt_emb]; rfl

/-! ### frames -/

/-- the scalars one pixel assigns -/
def LV.scratch : LV → Bool
  | .i | .isTarget | .nds | .x1 | .y1 | .x2 | .y2 | .dist | .distSqr | .last | .tr => true
  | _ => false

/-- the scalars the sweep loop assigns: the pixel's and the loop variable -/
def LV.sweepScratch (a : LV) : Bool := a.scratch || a == .pixel

/-- the scalars `_process_proximity_line` assigns -/
def LV.lineScratch (a : LV) : Bool :=
  a.sweepScratch || a == .start || a == .end_ || a == .step || a == .nValues

/-- what a piece of the line sweep leaves unchanged: shapes, `_distance`, every scalar outside `S`, every
    array but the five it writes -/
structure FrameS (S : LV → Bool) (N : Names) (s r : State F) : Prop where
  shp : r.shp = s.shp
  ext : r.ext = s.ext
  ienv : ∀ v, (∀ a : LV, S a = true → v ≠ N.nm a) → r.ienv v = s.ienv v
  fenv : ∀ v, (∀ a : LV, S a = true → v ≠ N.nm a) → r.fenv v = s.fenv v
  benv : ∀ v, (∀ a : LV, S a = true → v ≠ N.nm a) → r.benv v = s.benv v
  ia : ∀ a, a ≠ "pan_near_x" → a ≠ "pan_near_y" → a ≠ "nearest_xs" → a ≠ "nearest_ys" → r.ia a = s.ia a
  fa : ∀ a, a ≠ "line_proximity" → r.fa a = s.fa a

/-- what one pixel leaves unchanged -/
abbrev PixFrame (N : Names) (s r : State F) : Prop := FrameS LV.scratch N s r

theorem FrameS.refl (S : LV → Bool) (N : Names) (s : State F) : FrameS S N s s :=
  ⟨rfl, rfl, fun _ _ => rfl, fun _ _ => rfl, fun _ _ => rfl, fun _ _ _ _ _ => rfl, fun _ _ => rfl⟩

theorem FrameS.trans {S : LV → Bool} {N : Names} {s r t : State F} (h1 : FrameS S N s r) (h2 : FrameS S N r t) :
    FrameS S N s t :=
  ⟨h2.shp.trans h1.shp, h2.ext.trans h1.ext,
   fun v hv => (h2.ienv v hv).trans (h1.ienv v hv), fun v hv => (h2.fenv v hv).trans (h1.fenv v hv),
   fun v hv => (h2.benv v hv).trans (h1.benv v hv),
   fun a h1' h2' h3' h4' => (h2.ia a h1' h2' h3' h4').trans (h1.ia a h1' h2' h3' h4'),
   fun a ha => (h2.fa a ha).trans (h1.fa a ha)⟩

theorem FrameS.mono {S S' : LV → Bool} {N : Names} {s r : State F} (h : FrameS S N s r)
    (hS : ∀ a, S a = true → S' a = true) : FrameS S' N s r :=
  ⟨h.shp, h.ext, fun v hv => h.ienv v (fun a ha => hv a (hS a ha)), fun v hv => h.fenv v (fun a ha => hv a (hS a ha)),
   fun v hv => h.benv v (fun a ha => hv a (hS a ha)), h.ia, h.fa⟩

theorem PixFrame.refl (N : Names) (s : State F) : PixFrame N s s := FrameS.refl _ N s

theorem nm_ne_scratch {S : LV → Bool} {N : Names} (hN : N.WF) (b : LV) (hb : S b = false) :
    ∀ a : LV, S a = true → N.nm b ≠ N.nm a := by
  intro a ha e
  have := hN.inj _ _ e
  subst this
  rw [hb] at ha; cases ha

theorem FrameS.keepI {S : LV → Bool} {N : Names} {s r : State F} (hN : N.WF) (f : FrameS S N s r) (b : LV) (hb : S b = false) :
    r.ienv (N.nm b) = s.ienv (N.nm b) := f.ienv _ (nm_ne_scratch hN b hb)

theorem FrameS.keepF {S : LV → Bool} {N : Names} {s r : State F} (hN : N.WF) (f : FrameS S N s r) (b : LV) (hb : S b = false) :
    r.fenv (N.nm b) = s.fenv (N.nm b) := f.fenv _ (nm_ne_scratch hN b hb)

theorem FrameS.keepB {S : LV → Bool} {N : Names} {s r : State F} (hN : N.WF) (f : FrameS S N s r) (b : LV) (hb : S b = false) :
    r.benv (N.nm b) = s.benv (N.nm b) := f.benv _ (nm_ne_scratch hN b hb)

/-! projections of the explicit states -/
section proj
variable (N : Names) (W : Nat) (s : State F) (tr tc r p : Nat) (x y : Int) (d2 : F)

@[simp] theorem afterDist_ia : (afterDist N W s tr tc r p).ia = s.ia := rfl
@[simp] theorem afterDist_fa : (afterDist N W s tr tc r p).fa = s.fa := rfl
@[simp] theorem afterDist_shp : (afterDist N W s tr tc r p).shp = s.shp := rfl
@[simp] theorem afterDist_ext : (afterDist N W s tr tc r p).ext = s.ext := rfl
@[simp] theorem afterDist_ctl : (afterDist N W s tr tc r p).ctl = s.ctl := rfl
@[simp] theorem afterDist_ienv : (afterDist N W s tr tc r p).ienv = s.ienv := rfl
@[simp] theorem afterDist_benv : (afterDist N W s tr tc r p).benv = s.benv := rfl
@[simp] theorem setNds_ia : (setNds N s d2).ia = s.ia := rfl
@[simp] theorem setNds_fa : (setNds N s d2).fa = s.fa := rfl
@[simp] theorem setNds_shp : (setNds N s d2).shp = s.shp := rfl
@[simp] theorem setNds_ext : (setNds N s d2).ext = s.ext := rfl
@[simp] theorem setNds_ctl : (setNds N s d2).ctl = s.ctl := rfl
@[simp] theorem setNds_ienv : (setNds N s d2).ienv = s.ienv := rfl
@[simp] theorem setNds_benv : (setNds N s d2).benv = s.benv := rfl
@[simp] theorem setNds_nds : (setNds N s d2).fenv (N.nm .nds) = d2 := by simp [setNds]
@[simp] theorem setPan_fa : (setPan s p x y).fa = s.fa := rfl
@[simp] theorem setPan_shp : (setPan s p x y).shp = s.shp := rfl
@[simp] theorem setPan_ext : (setPan s p x y).ext = s.ext := rfl
@[simp] theorem setPan_ctl : (setPan s p x y).ctl = s.ctl := rfl
@[simp] theorem setPan_ienv : (setPan s p x y).ienv = s.ienv := rfl
@[simp] theorem setPan_fenv : (setPan s p x y).fenv = s.fenv := rfl
@[simp] theorem setPan_benv : (setPan s p x y).benv = s.benv := rfl
@[simp] theorem setPan_px : (setPan s p x y).ia "pan_near_x" = (s.ia "pan_near_x").set p x := by simp [setPan, setS]
@[simp] theorem setPan_py : (setPan s p x y).ia "pan_near_y" = (s.ia "pan_near_y").set p y := by simp [setPan, setS]
@[simp] theorem setPan_nx : (setPan s p x y).ia "nearest_xs" = s.ia "nearest_xs" := by simp [setPan, setS]
@[simp] theorem setPan_ny : (setPan s p x y).ia "nearest_ys" = s.ia "nearest_ys" := by simp [setPan, setS]

theorem afterDist_fenv_keep (hN : N.WF) (b : LV)
    (hb : b ≠ .x1 ∧ b ≠ .y1 ∧ b ≠ .x2 ∧ b ≠ .y2 ∧ b ≠ .dist ∧ b ≠ .distSqr) :
    (afterDist N W s tr tc r p).fenv (N.nm b) = s.fenv (N.nm b) := by
  simp [afterDist, setS, hN.nm_eq, hb]

theorem setNds_fenv_keep (hN : N.WF) (b : LV) (hb : b ≠ .nds) :
    (setNds N s d2).fenv (N.nm b) = s.fenv (N.nm b) := by
  simp [setNds, setS, hN.nm_eq, hb]

theorem afterDist_frame : PixFrame N s (afterDist N W s tr tc r p) := by
  refine ⟨rfl, rfl, fun _ _ => rfl, ?_, fun _ _ => rfl, fun _ _ _ _ _ => rfl, fun _ _ => rfl⟩
  intro v hv
  simp [afterDist, setS, hv .x1 rfl, hv .y1 rfl, hv .x2 rfl, hv .y2 rfl, hv .dist rfl, hv .distSqr rfl]

theorem setNds_frame : PixFrame N s (setNds N s d2) := by
  refine ⟨rfl, rfl, fun _ _ => rfl, ?_, fun _ _ => rfl, fun _ _ _ _ _ => rfl, fun _ _ => rfl⟩
  intro v hv
  simp [setNds, setS, hv .nds rfl]

theorem setPan_frame : PixFrame N s (setPan s p x y) := by
  refine ⟨rfl, rfl, fun _ _ => rfl, fun _ _ => rfl, fun _ _ => rfl, ?_, fun _ _ => rfl⟩
  intro a h1 h2 _ _
  simp [setPan, setS, h1, h2]

end proj

/-! ### the environment of one sweep and the relation of the line state -/

/-- the read-only part of a state during the sweep of line `row` in direction `fwd`, and the hypotheses that
    tie it to the model: configuration `c`, target predicate `tg`, distances `dist2 c` -/
structure SweepEnv (N : Names) (c : Cfg) (emb : Nat → F) (tg : Nat → Nat → Bool) (row : Nat) (fwd : Bool)
    (s : State F) : Prop where
  shp : LineShp N c.H c.W s
  vshp : s.shp N.vals = [(s.fa N.vals).length]
  nv : s.ienv (N.nm .nValues) = ((s.fa N.vals).length : Int)
  row_lt : row < c.H
  row_eq : s.ienv (N.nm .lineId) = (row : Int)
  start : s.ienv (N.nm .start) = if fwd then 0 else (c.W : Int) - 1
  end_ : s.ienv (N.nm .end_) = if fwd then (c.W : Int) else -1
  step : s.ienv (N.nm .step) = if fwd then 1 else -1
  /-- the number domain -/
  arith : Arith c emb (s.fenv (N.nm .maxDistance))
  /-- `_distance` on the coordinate grids, squared, is the model's `dist2` -/
  dist : ∀ tr tc r p, tr < c.H → tc < c.W → r < c.H → p < c.W →
    cellDist2 N c.W s tr tc r p = emb (dist2 c tr tc r p)
  /-- the target test on this line is the model's target predicate -/
  tgt : ∀ p, p < c.W → targetTest ((s.fa N.src).getD p Fl.nan) (s.fa N.vals) = tg row p

theorem SweepEnv.of_frame {N : Names} {c : Cfg} {emb : Nat → F} {tg : Nat → Nat → Bool} {row : Nat} {fwd : Bool}
    {s r : State F} (hN : N.WF) (h : SweepEnv N c emb tg row fwd s) (f : FrameS LV.sweepScratch N s r) :
    SweepEnv N c emb tg row fwd r := by
  have e1 : r.fa N.vals = s.fa N.vals := f.fa _ hN.vals_ne
  have e2 : r.fa N.src = s.fa N.src := f.fa _ hN.src_ne
  have e3 : r.fa N.xs = s.fa N.xs := f.fa _ hN.xs_ne
  have e4 : r.fa N.ys = s.fa N.ys := f.fa _ hN.ys_ne
  refine ⟨h.shp.of_shp f.shp, ?_, ?_, h.row_lt, ?_, ?_, ?_, ?_, ?_, ?_, ?_⟩
  · rw [f.shp, e1]; exact h.vshp
  · rw [f.keepI hN .nValues rfl, e1]; exact h.nv
  · rw [f.keepI hN .lineId rfl]; exact h.row_eq
  · rw [f.keepI hN .start rfl]; exact h.start
  · rw [f.keepI hN .end_ rfl]; exact h.end_
  · rw [f.keepI hN .step rfl]; exact h.step
  · rw [f.keepF hN .maxDistance rfl]; exact h.arith
  · intro tr tc r' p h1 h2 h3 h4
    have := h.dist tr tc r' p h1 h2 h3 h4
    simpa [cellDist2, cellDist, e3, e4, f.ext, f.keepI hN .distanceMetric rfl] using this
  · intro p hp
    rw [e1, e2]; exact h.tgt p hp

/-- the five arrays a sweep writes, against the model's line state -/
structure LineRel (c : Cfg) (emb : Nat → F) (s : State F) (m : LineSt) : Prop where
  len_px : (s.ia "pan_near_x").length = c.W
  len_py : (s.ia "pan_near_y").length = c.W
  len_nx : (s.ia "nearest_xs").length = c.W
  len_ny : (s.ia "nearest_ys").length = c.W
  len_lp : (s.fa "line_proximity").length = c.W
  mlen_pan : m.pan.length = c.W
  mlen_lp : m.lp.length = c.W
  mlen_nr : m.nr.length = c.W
  pan : ∀ q, q < c.W → tgtRel c.H c.W ((s.ia "pan_near_x").getD q 0) ((s.ia "pan_near_y").getD q 0) (m.pan.getD q none)
  nr : ∀ q, q < c.W → tgtRel c.H c.W ((s.ia "nearest_xs").getD q 0) ((s.ia "nearest_ys").getD q 0) (m.nr.getD q none)
  lp : ∀ q, q < c.W → lpRel emb ((s.fa "line_proximity").getD q Fl.nan) (m.lp.getD q none)
  /-- (model side) a pixel recorded in this sweep has a defined proximity -/
  nrlp : ∀ q, q < c.W → m.nr.getD q none ≠ none → m.lp.getD q none ≠ none

theorem SweepEnv.of_pix {N : Names} {c : Cfg} {emb : Nat → F} {tg : Nat → Nat → Bool} {row : Nat} {fwd : Bool}
    {s r : State F} (hN : N.WF) (h : SweepEnv N c emb tg row fwd s) (f : PixFrame N s r) :
    SweepEnv N c emb tg row fwd r :=
  h.of_frame hN (f.mono (fun a ha => by simp [LV.sweepScratch, ha]))

theorem LineRel.congr {c : Cfg} {emb : Nat → F} {s r : State F} {m : LineSt} (h : LineRel c emb s m)
    (e1 : r.ia = s.ia) (e2 : r.fa = s.fa) : LineRel c emb r m :=
  ⟨e1 ▸ h.len_px, e1 ▸ h.len_py, e1 ▸ h.len_nx, e1 ▸ h.len_ny, e2 ▸ h.len_lp, h.mlen_pan, h.mlen_lp, h.mlen_nr,
   e1 ▸ h.pan, e1 ▸ h.nr, e2 ▸ h.lp, h.nrlp⟩

end XrsVerif.IL.Px
