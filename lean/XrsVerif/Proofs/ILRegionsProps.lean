import XrsVerif.Proofs.ILRegions
import XrsVerif.Proofs.NV
import Mathlib.Tactic.Positivity
import Mathlib.Tactic.NormNum
/-
  Proofs/ILRegionsProps.lean -- what Props/C16.lean needs to restate the component theorems for the generated
  program `Gen.IL.areaConnectivity`:

  * `at_modelOut`: the value of the returned raster at a cell, in terms of `Regions.regions`;
  * `out_eq_iff`: two non-NaN raster cells hold the same number iff the model gives them the same label;
  * `regions_congr`: the model only looks at the match relation on pairs of values that occur in the raster;
  * `labelLaws_NV`: the number-type laws hold for exact arithmetic with NaN (`NV K`, any ordered field).
-/
namespace XrsVerif.IL.Rg
open XrsVerif XrsVerif.IL XrsVerif.Regions
set_option linter.unusedSectionVars false
set_option linter.unusedVariables false
set_option linter.unusedSimpArgs false

section generic
variable {F : Type} [Fl F]

theorem gridCells_length (rows cols : Nat) : (gridCells rows cols).length = rows * cols := by
  have := congrArg List.length (gridCells_map_pos rows cols)
  simpa using this

/-- the `pos c`-th cell in raster order is `c` -/
theorem gridCells_getD_pos (rows cols : Nat) (c : Cell) (h1 : c.1 < rows) (h2 : c.2 < cols) :
    (gridCells rows cols)[pos cols c]? = some c := by
  have hlt := pos_lt rows cols c h1 h2
  have hl := gridCells_length rows cols
  have hi : pos cols c < (gridCells rows cols).length := by omega
  rw [List.getElem?_eq_getElem hi]
  have hmem : (gridCells rows cols)[pos cols c] ∈ gridCells rows cols := List.getElem_mem hi
  obtain ⟨_, h4⟩ := mem_gridCells.mp hmem
  have hp : pos cols ((gridCells rows cols)[pos cols c]) = pos cols c := by
    have := congrArg (fun l => l[pos cols c]?) (gridCells_map_pos rows cols)
    simp only [List.getElem?_map, List.getElem?_eq_getElem hi, Option.map_some,
      List.getElem?_range hlt] at this
    exact Option.some.inj this
  rw [pos_inj cols _ c h4 h2 hp]

/-- a raster given cell by cell, read back at a cell -/
theorem at_map_cells (rows cols : Nat) (g : Cell → F) (c : Cell) (h1 : c.1 < rows) (h2 : c.2 < cols) :
    at_ cols ((gridCells rows cols).map g) c = g c := by
  unfold at_
  simp only [List.getD_eq_getElem?_getD, List.getElem?_map, gridCells_getD_pos rows cols c h1 h2,
    Option.map_some, Option.getD_some]

/-- the returned raster at a cell -/
theorem at_modelOut (rows cols n : Nat) (D : List F) (c : Cell) (h1 : c.1 < rows) (h2 : c.2 < cols) :
    at_ cols (modelOut rows cols n D) c = cellOut rows cols n D c := by
  unfold modelOut
  rw [at_map_cells rows cols _ c h1 h2]

theorem cellOut_some (rows cols n : Nat) (D : List F) (c : Cell) (k : Nat)
    (h : regions rows cols (decide (n = 8)) closeF (dataOf cols D) c = some k) : cellOut rows cols n D c = lab k := by
  simp only [cellOut, h]

theorem cellOut_none (rows cols n : Nat) (D : List F) (c : Cell)
    (h : regions rows cols (decide (n = 8)) closeF (dataOf cols D) c = none) :
    cellOut rows cols n D c = at_ cols D c := by
  simp only [cellOut, h]

theorem regions_some_of (rows cols : Nat) (n8 : Bool) (D : List F) (c : Cell)
    (hc : Fl.isnan (at_ cols D c) = false) :
    ∃ k, regions rows cols n8 closeF (dataOf cols D) c = some k := by
  simp only [regions, result, dataOf_some cols D c hc]; exact ⟨_, rfl⟩

/-- two non-NaN cells hold the same number iff the model gives them the same label -/
theorem out_eq_iff (laws : LabelLaws F) (rows cols n : Nat) (D : List F) (p q : Cell)
    (hp1 : p.1 < rows) (hp2 : p.2 < cols) (hq1 : q.1 < rows) (hq2 : q.2 < cols)
    (hp : Fl.isnan (at_ cols D p) = false) (hq : Fl.isnan (at_ cols D q) = false) :
    at_ cols (modelOut rows cols n D) p = at_ cols (modelOut rows cols n D) q ↔
      regions rows cols (decide (n = 8)) closeF (dataOf cols D) p =
        regions rows cols (decide (n = 8)) closeF (dataOf cols D) q := by
  obtain ⟨k1, e1⟩ := regions_some_of rows cols (decide (n = 8)) D p hp
  obtain ⟨k2, e2⟩ := regions_some_of rows cols (decide (n = 8)) D q hq
  rw [at_modelOut rows cols n D p hp1 hp2, at_modelOut rows cols n D q hq1 hq2, cellOut_some _ _ _ _ _ _ e1,
    cellOut_some _ _ _ _ _ _ e2, e1, e2]
  simp only [Option.some.injEq]
  exact ⟨lab_inj laws k1 k2, fun h => by rw [h]⟩

end generic

/-! ### the model depends on the match relation only through the values of the raster -/

section congr
variable {V : Type}

theorem foldl_congr_mem {α β : Type} (f g : β → α → β) (l : List α) (h : ∀ b, ∀ a ∈ l, f b a = g b a) (init : β) :
    l.foldl f init = l.foldl g init := by
  induction l generalizing init with
  | nil => rfl
  | cons a l ih =>
    simp only [List.foldl_cons]
    rw [h init a (by simp)]
    exact ih (fun b x hx => h b x (by simp [hx])) _

theorem regions_congr (rows cols : Nat) (n8 : Bool) (m m' : V → V → Bool) (data : Cell → Option V)
    (h : ∀ p q v w, p ∈ gridCells rows cols → q ∈ gridCells rows cols → data p = some v → data q = some w →
      m v w = m' v w) (c : Cell) :
    regions rows cols n8 m data c = regions rows cols n8 m' data c := by
  have hmo : ∀ p v, p ∈ gridCells rows cols → data p = some v →
      matchesOf (gridNbrs rows cols n8) m data v p = matchesOf (gridNbrs rows cols n8) m' data v p := by
    intro p v hp hv
    unfold matchesOf
    apply List.filter_congr
    intro q hq
    unfold matched
    cases hq' : data q with
    | none => rfl
    | some w => exact h p q v w hp (gridNbrs_closed rows cols n8 p hp q hq) hv hq'
  have h1 : ∀ st, ∀ p ∈ gridCells rows cols,
      step1 (gridNbrs rows cols n8) m data st p = step1 (gridNbrs rows cols n8) m' data st p := by
    intro st p hp
    unfold step1
    cases hv : data p with
    | none => rfl
    | some v => simp only [hmo p v hp hv]
  have h2 : ∀ st, ∀ p ∈ gridCells rows cols,
      step2 (gridNbrs rows cols n8) m data st p = step2 (gridNbrs rows cols n8) m' data st p := by
    intro st p hp
    unfold step2
    cases hv : data p with
    | none => rfl
    | some v => simp only [hmo p v hp hv]
  have hp1 : pass1 (gridCells rows cols) (gridNbrs rows cols n8) m data =
      pass1 (gridCells rows cols) (gridNbrs rows cols n8) m' data := by
    unfold pass1; exact foldl_congr_mem _ _ _ h1 _
  have hlab : label (gridCells rows cols) (gridNbrs rows cols n8) m data =
      label (gridCells rows cols) (gridNbrs rows cols n8) m' data := by
    unfold label pass2 pass2St
    rw [hp1, foldl_congr_mem _ _ _ h2 _]
  unfold regions result
  rw [hlab]

end congr

/-! ### exact arithmetic with NaN satisfies the laws -/

section nv
variable {K : Type} [Field K] [LinearOrder K] [IsStrictOrderedRing K] [Trig K]

theorem lab_NV (a : Nat) : (lab a : NV K) = some (a : K) := by
  simp [lab]

theorem labelLaws_NV : LabelLaws (NV K) :=
  { lt_lab := by intro a b; simp [lab_NV]
    eq_lab := by intro a b; simp [lab_NV]
    eq_nan := by
      intro x a hx
      cases x with
      | none => simp
      | some v => simp at hx
    close_nan := by
      intro v x hx
      cases x with
      | none => simp [closeF, closeT]
      | some w => simp at hx }

/-- on integer values of magnitude below 5·10⁴ the source's closeness test (`atol = 1e-08`, `rtol = 1e-05`) is
    equality -/
theorem closeF_int (a b : Int) (ha : |a| < 50000) :
    closeF (some (a : K) : NV K) (some (b : K)) = decide (a = b) := by
  have hK : |(a : K)| < 50000 := by
    have : ((|a| : Int) : K) < ((50000 : Int) : K) := Int.cast_lt.mpr ha
    simpa [Int.cast_abs] using this
  have h0 : (0 : K) ≤ |(a : K)| := abs_nonneg _
  by_cases hab : a = b
  · subst hab
    simp only [closeF, closeT, fl_lit, fl_sub, fl_abs, fl_mul, fl_add, fl_le, sub_self, abs_zero, decide_true,
      decide_eq_true_eq]
    have : (0 : K) ≤ ((1 : Int) : K) / ((100000 : Nat) : K) * |(a : K)| := by positivity
    have h2 : (0 : K) ≤ ((1 : Int) : K) / ((100000000 : Nat) : K) := by positivity
    linarith
  · have h1 : (1 : K) ≤ |(b : K) - (a : K)| := by
      have : (1 : Int) ≤ |b - a| := Int.one_le_abs (sub_ne_zero.mpr (Ne.symm hab))
      have : ((1 : Int) : K) ≤ ((|b - a| : Int) : K) := Int.cast_le.mpr this
      simpa [Int.cast_abs] using this
    simp only [closeF, closeT, fl_lit, fl_sub, fl_abs, fl_mul, fl_add, fl_le, hab, decide_false,
      decide_eq_false_iff_not, not_le]
    have e1 : ((1 : Int) : K) / ((100000000 : Nat) : K) = 1 / 100000000 := by norm_num
    have e2 : ((1 : Int) : K) / ((100000 : Nat) : K) = 1 / 100000 := by norm_num
    rw [e1, e2]
    have : (1 : K) / 100000 * |(a : K)| < 1 / 2 := by
      have : (1 : K) / 100000 * |(a : K)| < 1 / 100000 * 50000 := by
        apply mul_lt_mul_of_pos_left hK; norm_num
      have e : (1 : K) / 100000 * 50000 = 1 / 2 := by norm_num
      linarith
    have : (1 : K) / 100000000 < 1 / 2 := by norm_num
    linarith

end nv

end XrsVerif.IL.Rg
