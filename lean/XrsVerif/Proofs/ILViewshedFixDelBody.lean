import XrsVerif.Proofs.ILViewshedFixDelLoop
/-
  Proofs/ILViewshedFixDelBody.lean -- one iteration of the loop of `_rb_delete_fixup` = one unfolding of the model's
  `delFixP` (case 1 in front of `dfLeftB_spec` / `dfRightB_spec`), for both sides.
-/
set_option linter.unusedSectionVars false
set_option linter.unusedVariables false
set_option linter.unusedSimpArgs false
namespace XrsVerif.ILVs
open XrsVerif XrsVerif.IL XrsVerif.Viewshed
variable {F : Type} [Fl F]

/-- the test of case 1: `tree_nodes[w][TN_COLOR_ID] == RB_RED` (`w` may be NIL) -/
theorem dfCase1_test (n : Nat) (s : State F) (hv : VS s n) (wB : Sh) (par : Int)
    (hlw : Linked (s.ia "tree_nodes") n par wB) (hnil : nAt (s.ia "tree_nodes") (n - 1) 0 = 1)
    (ew : s.ienv "_rb_delete_fixup17$w" = wB.ptr) :
    BE.ok s (.cmpI .eq (.ld2 "tree_nodes" (.var "_rb_delete_fixup17$w") (.lit 0)) (.lit 0)) = true ∧
    BE.eval s (.cmpI .eq (.ld2 "tree_nodes" (.var "_rb_delete_fixup17$w") (.lit 0)) (.lit 0)) =
      isRed (absT (s.fa "tree_vals") (s.ia "tree_nodes") wB) := by
  constructor
  · simp [BE.ok, okN s n hv.shpN, ew, hlw.inRange hv.pos, IE.ok_lit]
  · simp only [BE.eval_cmpI, evalN s n hv.shpN _ 0 (by decide : (0 : Int) ≤ 0), ew, IE.eval_lit, cmpInt]
    rw [isRed_absT_ptr _ _ n wB par hlw hnil]; rfl

theorem DFStep.conv {S : Fv F} {s s' r : State F} {n : Nat} {xl : Sh} {x : Nat} {xr : Sh} {ctx ctx0 : Ctx} {bound bound0 : Nat}
    {m m0 : Tree (Fv F) × List Dir} (h : DFStep S s r n xl x xr ctx bound m)
    (hi : (plug (.node xl x xr) ctx).idxs = (plug (.node xl x xr) ctx0).idxs) (hm : m = m0)
    (hb : ∀ k, k < bound → k < bound0) : DFStep S s' r n xl x xr ctx0 bound0 m0 := by
  obtain ⟨a, xl', x', xr', ctx', b, c, d, e, f⟩ := h
  refine ⟨a, xl', x', xr', ctx', b, ?_, d.trans hi, e, f.trans hm⟩
  rcases c with c | c
  · exact Or.inl (hb _ c)
  · exact Or.inr c

/-- **one iteration, `x` a black left child** -/
theorem dfLeft_spec (fuel n : Nat) (s : State F) (xl : Sh) (x : Nat) (xr : Sh) (p : Nat) (wB : Sh) (rest : Ctx)
    (h : DFCore s n xl x xr (.L p wB :: rest)) (exp : s.ienv "_rb_delete_fixup17$x_parent" = p)
    (hxb : nAt (s.ia "tree_nodes") x 0 = 1) :
    DFStep (vAt (s.fa "tree_vals") (n - 1) 7) s (exec fuel dfLeft s) n xl x xr (.L p wB :: rest) (rest.length + 1)
      (delFixP (vAt (s.fa "tree_vals") (n - 1) 7) (Dir.L :: rest.map Fr.dir)
        (absT (s.fa "tree_vals") (s.ia "tree_nodes") (plug (.node xl x xr) (.L p wB :: rest)))) := by
  have h0 := h
  obtain ⟨hv, hrun, hL, hN, hx, hroot, hnil, hcol⟩ := h
  obtain ⟨hlx, hcx, _⟩ := unplug _ _ hL hN
  obtain ⟨hpn, _, hp2, _, _, hlw, _⟩ := hcx
  have hpg : (rest.map Fr.dir).reverse = pathOf rest := map_dir_reverse rest
  have hinp : inRange (p : Int) n = true := inRange_ptr n _ (by omega) hv.pos
  have h1 := exec_ldN fuel n s hv.shpN "_rb_delete_fixup17$w" "_rb_delete_fixup17$x_parent" 2 (by decide)
    (by rw [exp]; exact hinp) wB.ptr (by rw [exp, rowOf_nat]; exact hp2)
  generalize hs1 : ({ s with ienv := setS s.ienv "_rb_delete_fixup17$w" wB.ptr } : State F) = s1 at h1
  have hrun1 : s1.ctl = .run := by rw [← hs1]; exact hrun
  have hia1 : s1.ia = s.ia := by rw [← hs1]
  have hfa1 : s1.fa = s.fa := by rw [← hs1]
  have ew1 : s1.ienv "_rb_delete_fixup17$w" = wB.ptr := by rw [← hs1]; simp [setS]
  have exp1 : s1.ienv "_rb_delete_fixup17$x_parent" = p := by rw [← hs1]; simp [setS, exp]
  have hcore1 : DFCore s1 n xl x xr (.L p wB :: rest) :=
    DFCore.of_eq h0 (by rw [← hs1]) hfa1 hia1 hrun1 (by rw [← hs1]; simp [setS]) (by rw [← hs1]; simp [setS])
  obtain ⟨tok, tev⟩ := dfCase1_test n s1 hcore1.vs wB _ (by rw [hia1]; exact hlw) (by rw [hia1]; exact hnil) ew1
  rw [hfa1, hia1] at tev
  rw [dfLeft_eq, exec_seq_run _ _ _ _ (by rw [h1]; exact hrun1), h1]
  -- the model's tests
  have hxm : isRed (subAt ((rest.map Fr.dir).reverse ++ [Dir.L])
      (absT (s.fa "tree_vals") (s.ia "tree_nodes") (plug (.node xl x xr) (.L p wB :: rest)))) = false := by
    have hp : (rest.map Fr.dir).reverse ++ [Dir.L] = pathOf (.L p wB :: rest) := by rw [hpg]; rfl
    rw [hp, subAt_plug]
    simp [absT, isRed, hxb]
  have hwm : isRed (subAt ((rest.map Fr.dir).reverse ++ [Dir.L.flip])
      (absT (s.fa "tree_vals") (s.ia "tree_nodes") (plug (.node xl x xr) (.L p wB :: rest)))) =
      isRed (absT (s.fa "tree_vals") (s.ia "tree_nodes") wB) := by
    have hp : (rest.map Fr.dir).reverse ++ [Dir.L.flip] = pathOf (.R (.node xl x xr) p :: rest) := by rw [hpg]; rfl
    rw [hp]
    exact congrArg isRed (subAt_plug _ _ (.R (.node xl x xr) p :: rest) wB)
  by_cases hred : isRed (absT (s.fa "tree_vals") (s.ia "tree_nodes") wB) = true
  · -- case 1
    obtain ⟨wl, w, wr, rfl⟩ : ∃ wl w wr, wB = .node wl w wr := by
      cases wB with
      | nil => simp [absT, isRed] at hred
      | node a b c => exact ⟨a, b, c, rfl⟩
    obtain ⟨b1, b2, b3, b4, b5, b6, b7, b8, b9, b10, b11, b12, b13⟩ := dcase1L_spec fuel n s1 hcore1.vs hrun1 xl x xr p wl w wr rest
      hcore1.linked hN ew1 exp1 hcore1.hroot
    have hexec : exec fuel (.seq (dfCase1 2 dlrot18) dfLeftB) s1 = exec fuel dfLeftB (exec fuel (.seq (.stI2 "tree_nodes" (.var "_rb_delete_fixup17$w") (.lit 0) (.lit 1))
        (.seq (.stI2 "tree_nodes" (.var "_rb_delete_fixup17$x_parent") (.lit 0) (.lit 0))
        (dlrot18 (.setI "_rb_delete_fixup17$w" (.ld2 "tree_nodes" (.var "_rb_delete_fixup17$x_parent") (.lit 2)))))) s1) := by
      rw [exec_seq_run _ _ _ _ (by
        simp only [dfCase1]
        rw [exec_ite_true _ _ _ _ _ tok (by rw [tev]; exact hred)]; exact b1)]
      simp only [dfCase1]
      rw [exec_ite_true _ _ _ _ _ tok (by rw [tev]; exact hred)]
    rw [hexec]
    generalize hs2 : exec fuel (.seq (.stI2 "tree_nodes" (.var "_rb_delete_fixup17$w") (.lit 0) (.lit 1))
        (.seq (.stI2 "tree_nodes" (.var "_rb_delete_fixup17$x_parent") (.lit 0) (.lit 0))
        (dlrot18 (.setI "_rb_delete_fixup17$w" (.ld2 "tree_nodes" (.var "_rb_delete_fixup17$x_parent") (.lit 2)))))) s1 = s2
      at b1 b2 b3 b5 b6 b7 b8 b9 b10 b11 b12 b13
    rw [hfa1, hia1] at b5
    rw [hfa1] at b10
    rw [hia1] at b11 b12
    have hidx : (plug (.node xl x xr) (.L p wl :: .L w wr :: rest)).idxs = (plug (.node xl x xr) (.L p (.node wl w wr) :: rest)).idxs :=
      idxs_plug_congr rest (.node (.node (.node xl x xr) p wl) w wr) (.node (.node xl x xr) p (.node wl w wr)) (by simp [Sh.idxs])
    have hcore2 : DFCore s2 n xl x xr (.L p wl :: .L w wr :: rest) :=
      ⟨b2, b1, b3, b4, by rw [b8, ← hs1]; simp [setS, hx], b9, by rw [b11]; exact hnil,
        fun j hj => b12 j (hcol j (by rw [← hidx]; exact hj))⟩
    have hstep := dfLeftB_spec fuel n s2 xl x xr p wl (.L w wr :: rest) true 0 hcore2 b6 (fun _ => b13) (fun hh => by cases hh)
    rw [b10, b5] at hstep
    refine hstep.conv hidx ?_ (fun k hk => absurd hk (Nat.not_lt_zero _))
    rw [delFixP_c1 _ Dir.L _ _ hxm (by rw [hwm]; exact hred), hpg]
    exact dfB_k_irrel _ _ _ _ _ _
  · -- the sibling is black (or NIL)
    have hred' : isRed (absT (s.fa "tree_vals") (s.ia "tree_nodes") wB) = false := by
      cases hh : isRed (absT (s.fa "tree_vals") (s.ia "tree_nodes") wB)
      · rfl
      · exact absurd hh hred
    have hexec : exec fuel (.seq (dfCase1 2 dlrot18) dfLeftB) s1 = exec fuel dfLeftB s1 := by
      rw [exec_seq_run _ _ _ _ (by
        simp only [dfCase1]
        rw [exec_ite_false _ _ _ _ _ tok (by rw [tev]; exact hred'), exec_skip]; exact hrun1)]
      simp only [dfCase1]
      rw [exec_ite_false _ _ _ _ _ tok (by rw [tev]; exact hred'), exec_skip]
    rw [hexec]
    have hstep := dfLeftB_spec fuel n s1 xl x xr p wB rest false (rest.length + 1) hcore1 ew1 (fun hh => by cases hh)
      (fun _ => Nat.lt_succ_self _)
    rw [hfa1, hia1] at hstep
    refine hstep.conv rfl ?_ (fun k hk => hk)
    rw [delFixP_c0 _ Dir.L _ _ hxm (by rw [hwm]; exact hred')]

/-- **one iteration, `x` a black right child** -/
theorem dfRight_spec (fuel n : Nat) (s : State F) (xl : Sh) (x : Nat) (xr : Sh) (p : Nat) (wB : Sh) (rest : Ctx)
    (h : DFCore s n xl x xr (.R wB p :: rest)) (hxb : nAt (s.ia "tree_nodes") x 0 = 1) :
    DFStep (vAt (s.fa "tree_vals") (n - 1) 7) s (exec fuel dfRight s) n xl x xr (.R wB p :: rest) (rest.length + 1)
      (delFixP (vAt (s.fa "tree_vals") (n - 1) 7) (Dir.R :: rest.map Fr.dir)
        (absT (s.fa "tree_vals") (s.ia "tree_nodes") (plug (.node xl x xr) (.R wB p :: rest)))) := by
  have h0 := h
  obtain ⟨hv, hrun, hL, hN, hx, hroot, hnil, hcol⟩ := h
  obtain ⟨hlx, hcx, _⟩ := unplug _ _ hL hN
  have hx3 : nAt (s.ia "tree_nodes") x 3 = p := hlx.2.2.2.1
  have hxn : x + 1 < n := hlx.1
  obtain ⟨hpn, hp1, _, _, _, hlw, _⟩ := hcx
  have hpg : (rest.map Fr.dir).reverse = pathOf rest := map_dir_reverse rest
  have hinp : inRange (p : Int) n = true := inRange_ptr n _ (by omega) hv.pos
  have hinx : inRange (x : Int) n = true := inRange_ptr n _ (by omega) hv.pos
  have h0' := exec_ldN fuel n s hv.shpN "_rb_delete_fixup17$x_parent" "_rb_delete_fixup17$x" 3 (by decide)
    (by rw [hx]; exact hinx) p (by rw [hx, rowOf_nat]; exact hx3)
  generalize hs0 : ({ s with ienv := setS s.ienv "_rb_delete_fixup17$x_parent" (p : Int) } : State F) = s0 at h0'
  have hv0 : VS s0 n := by rw [← hs0]; exact hv.of_eq rfl rfl rfl
  have hrun0 : s0.ctl = .run := by rw [← hs0]; exact hrun
  have hia0 : s0.ia = s.ia := by rw [← hs0]
  have exp0 : s0.ienv "_rb_delete_fixup17$x_parent" = p := by rw [← hs0]; simp [setS]
  have h1 := exec_ldN fuel n s0 hv0.shpN "_rb_delete_fixup17$w" "_rb_delete_fixup17$x_parent" 1 (by decide)
    (by rw [exp0]; exact hinp) wB.ptr (by rw [exp0, rowOf_nat, hia0]; exact hp1)
  generalize hs1 : ({ s0 with ienv := setS s0.ienv "_rb_delete_fixup17$w" wB.ptr } : State F) = s1 at h1
  have hrun1 : s1.ctl = .run := by rw [← hs1]; exact hrun0
  have hia1 : s1.ia = s.ia := by rw [← hs1]; exact hia0
  have hfa1 : s1.fa = s.fa := by rw [← hs1, ← hs0]
  have ew1 : s1.ienv "_rb_delete_fixup17$w" = wB.ptr := by rw [← hs1]; simp [setS]
  have exp1 : s1.ienv "_rb_delete_fixup17$x_parent" = p := by rw [← hs1]; simp [setS, exp0]
  have hcore1 : DFCore s1 n xl x xr (.R wB p :: rest) :=
    DFCore.of_eq h0 (by rw [← hs1, ← hs0]) hfa1 hia1 hrun1 (by rw [← hs1, ← hs0]; simp [setS]) (by rw [← hs1, ← hs0]; simp [setS])
  obtain ⟨tok, tev⟩ := dfCase1_test n s1 hcore1.vs wB _ (by rw [hia1]; exact hlw) (by rw [hia1]; exact hnil) ew1
  rw [hfa1, hia1] at tev
  rw [dfRight_eq, exec_seq_run _ _ _ _ (by rw [h0']; exact hrun0), h0', exec_seq_run _ _ _ _ (by rw [h1]; exact hrun1), h1]
  -- the model's tests
  have hxm : isRed (subAt ((rest.map Fr.dir).reverse ++ [Dir.R])
      (absT (s.fa "tree_vals") (s.ia "tree_nodes") (plug (.node xl x xr) (.R wB p :: rest)))) = false := by
    have hp : (rest.map Fr.dir).reverse ++ [Dir.R] = pathOf (.R wB p :: rest) := by rw [hpg]; rfl
    rw [hp, subAt_plug]
    simp [absT, isRed, hxb]
  have hwm : isRed (subAt ((rest.map Fr.dir).reverse ++ [Dir.R.flip])
      (absT (s.fa "tree_vals") (s.ia "tree_nodes") (plug (.node xl x xr) (.R wB p :: rest)))) =
      isRed (absT (s.fa "tree_vals") (s.ia "tree_nodes") wB) := by
    have hp : (rest.map Fr.dir).reverse ++ [Dir.R.flip] = pathOf (.L p (.node xl x xr) :: rest) := by rw [hpg]; rfl
    rw [hp]
    exact congrArg isRed (subAt_plug _ _ (.L p (.node xl x xr) :: rest) wB)
  by_cases hred : isRed (absT (s.fa "tree_vals") (s.ia "tree_nodes") wB) = true
  · -- case 1
    obtain ⟨wl, w, wr, rfl⟩ : ∃ wl w wr, wB = .node wl w wr := by
      cases wB with
      | nil => simp [absT, isRed] at hred
      | node a b c => exact ⟨a, b, c, rfl⟩
    obtain ⟨b1, b2, b3, b4, b5, b6, b7, b8, b9, b10, b11, b12, b13⟩ := dcase1R_spec fuel n s1 hcore1.vs hrun1 xl x xr p wl w wr rest
      hcore1.linked hN ew1 exp1 hcore1.hroot
    have hexec : exec fuel (.seq (dfCase1 1 drrot27) dfRightB) s1 = exec fuel dfRightB (exec fuel (.seq (.stI2 "tree_nodes" (.var "_rb_delete_fixup17$w") (.lit 0) (.lit 1))
        (.seq (.stI2 "tree_nodes" (.var "_rb_delete_fixup17$x_parent") (.lit 0) (.lit 0))
        (drrot27 (.setI "_rb_delete_fixup17$w" (.ld2 "tree_nodes" (.var "_rb_delete_fixup17$x_parent") (.lit 1)))))) s1) := by
      rw [exec_seq_run _ _ _ _ (by
        simp only [dfCase1]
        rw [exec_ite_true _ _ _ _ _ tok (by rw [tev]; exact hred)]; exact b1)]
      simp only [dfCase1]
      rw [exec_ite_true _ _ _ _ _ tok (by rw [tev]; exact hred)]
    rw [hexec]
    generalize hs2 : exec fuel (.seq (.stI2 "tree_nodes" (.var "_rb_delete_fixup17$w") (.lit 0) (.lit 1))
        (.seq (.stI2 "tree_nodes" (.var "_rb_delete_fixup17$x_parent") (.lit 0) (.lit 0))
        (drrot27 (.setI "_rb_delete_fixup17$w" (.ld2 "tree_nodes" (.var "_rb_delete_fixup17$x_parent") (.lit 1)))))) s1 = s2
      at b1 b2 b3 b5 b6 b7 b8 b9 b10 b11 b12 b13
    rw [hfa1, hia1] at b5
    rw [hfa1] at b10
    rw [hia1] at b11 b12
    have hidx : (plug (.node xl x xr) (.R wr p :: .R wl w :: rest)).idxs = (plug (.node xl x xr) (.R (.node wl w wr) p :: rest)).idxs :=
      idxs_plug_congr rest (.node wl w (.node wr p (.node xl x xr))) (.node (.node wl w wr) p (.node xl x xr)) (by simp [Sh.idxs])
    have hcore2 : DFCore s2 n xl x xr (.R wr p :: .R wl w :: rest) :=
      ⟨b2, b1, b3, b4, by rw [b8, ← hs1, ← hs0]; simp [setS, hx], b9, by rw [b11]; exact hnil,
        fun j hj => b12 j (hcol j (by rw [← hidx]; exact hj))⟩
    have hstep := dfRightB_spec fuel n s2 xl x xr p wr (.R wl w :: rest) true 0 hcore2 b6 b7 (fun _ => b13) (fun hh => by cases hh)
    rw [b10, b5] at hstep
    refine hstep.conv hidx ?_ (fun k hk => absurd hk (Nat.not_lt_zero _))
    rw [delFixP_c1 _ Dir.R _ _ hxm (by rw [hwm]; exact hred), hpg]
    exact dfB_k_irrel _ _ _ _ _ _
  · -- the sibling is black (or NIL)
    have hred' : isRed (absT (s.fa "tree_vals") (s.ia "tree_nodes") wB) = false := by
      cases hh : isRed (absT (s.fa "tree_vals") (s.ia "tree_nodes") wB)
      · rfl
      · exact absurd hh hred
    have hexec : exec fuel (.seq (dfCase1 1 drrot27) dfRightB) s1 = exec fuel dfRightB s1 := by
      rw [exec_seq_run _ _ _ _ (by
        simp only [dfCase1]
        rw [exec_ite_false _ _ _ _ _ tok (by rw [tev]; exact hred'), exec_skip]; exact hrun1)]
      simp only [dfCase1]
      rw [exec_ite_false _ _ _ _ _ tok (by rw [tev]; exact hred'), exec_skip]
    rw [hexec]
    have hstep := dfRightB_spec fuel n s1 xl x xr p wB rest false (rest.length + 1) hcore1 ew1 exp1 (fun hh => by cases hh)
      (fun _ => Nat.lt_succ_self _)
    rw [hfa1, hia1] at hstep
    refine hstep.conv rfl ?_ (fun k hk => hk)
    rw [delFixP_c0 _ Dir.R _ _ hxm (by rw [hwm]; exact hred')]

/-- **one iteration of the loop of `_rb_delete_fixup`**: `x` black and not the root -/
theorem delFixBody_spec (fuel n : Nat) (s : State F) (xl : Sh) (x : Nat) (xr : Sh) (fr : Fr) (rest : Ctx)
    (h : DFCore s n xl x xr (fr :: rest)) (hxb : nAt (s.ia "tree_nodes") x 0 = 1) :
    DFStep (vAt (s.fa "tree_vals") (n - 1) 7) s (exec fuel delFixBody s) n xl x xr (fr :: rest) (rest.length + 1)
      (delFixP (vAt (s.fa "tree_vals") (n - 1) 7) ((fr :: rest).map Fr.dir)
        (absT (s.fa "tree_vals") (s.ia "tree_nodes") (plug (.node xl x xr) (fr :: rest)))) := by
  have h0 := h
  obtain ⟨hv, hrun, hL, hN, hx, hroot, hnil, hcol⟩ := h
  obtain ⟨hlx, hcx, _⟩ := unplug _ _ hL hN
  have hxn : x + 1 < n := hlx.1
  have hinx : inRange (x : Int) n = true := inRange_ptr n _ (by omega) hv.pos
  have hx3 : nAt (s.ia "tree_nodes") x 3 = (fr.idx : Int) := by rw [hlx.2.2.2.1, ctxPar_cons]
  have hpn : fr.idx + 1 < n := hcx.step.1
  have hinp : inRange (fr.idx : Int) n = true := inRange_ptr n _ (by omega) hv.pos
  have h1 := exec_ldN fuel n s hv.shpN "_rb_delete_fixup17$x_parent" "_rb_delete_fixup17$x" 3 (by decide)
    (by rw [hx]; exact hinx) fr.idx (by rw [hx, rowOf_nat]; exact hx3)
  generalize hs1 : ({ s with ienv := setS s.ienv "_rb_delete_fixup17$x_parent" (fr.idx : Int) } : State F) = s1 at h1
  have hv1 : VS s1 n := by rw [← hs1]; exact hv.of_eq rfl rfl rfl
  have hrun1 : s1.ctl = .run := by rw [← hs1]; exact hrun
  have hia1 : s1.ia = s.ia := by rw [← hs1]
  have hfa1 : s1.fa = s.fa := by rw [← hs1]
  have ex1 : s1.ienv "_rb_delete_fixup17$x" = x := by rw [← hs1]; simp [setS, hx]
  have exp1 : s1.ienv "_rb_delete_fixup17$x_parent" = fr.idx := by rw [← hs1]; simp [setS]
  have hcore1 : DFCore s1 n xl x xr (fr :: rest) :=
    DFCore.of_eq h0 (by rw [← hs1]) hfa1 hia1 hrun1 (by rw [← hs1]; simp [setS]) (by rw [← hs1]; simp [setS])
  have hok : BE.ok s1 (.cmpI .eq (.var "_rb_delete_fixup17$x") (.ld2 "tree_nodes" (.var "_rb_delete_fixup17$x_parent") (.lit 1))) = true := by
    simp [BE.ok, IE.ok_var, okN s1 n hv1.shpN, exp1, hinp]
  have hev : BE.eval s1 (.cmpI .eq (.var "_rb_delete_fixup17$x") (.ld2 "tree_nodes" (.var "_rb_delete_fixup17$x_parent") (.lit 1))) =
      decide ((x : Int) = nAt (s.ia "tree_nodes") fr.idx 1) := by
    simp only [BE.eval_cmpI, IE.eval_var, evalN s1 n hv1.shpN _ 1 (by decide : (0 : Int) ≤ 1), ex1, exp1, hia1, rowOf_nat, cmpInt]
    rfl
  simp only [delFixBody]
  rw [exec_seq_run _ _ _ _ (by rw [h1]; exact hrun1), h1]
  cases fr with
  | L p wB =>
    have hp1 : nAt (s.ia "tree_nodes") p 1 = (x : Int) := hcx.2.1
    rw [exec_ite_true _ _ _ _ _ hok (by rw [hev]; simp [Fr.idx, hp1])]
    have := dfLeft_spec fuel n s1 xl x xr p wB rest hcore1 exp1 (by rw [hia1]; exact hxb)
    rw [hfa1, hia1] at this
    exact this.conv rfl rfl (fun k hk => hk)
  | R wB p =>
    have hne : wB.ptr ≠ (x : Int) := hcx.2.2.2.1 (by simp [Sh.ptr])
    have hp1 : nAt (s.ia "tree_nodes") p 1 = wB.ptr := hcx.2.1
    rw [exec_ite_false _ _ _ _ _ hok (by rw [hev]; simp only [Fr.idx, hp1]; exact decide_eq_false (fun hh => hne hh.symm))]
    have := dfRight_spec fuel n s1 xl x xr p wB rest hcore1 (by rw [hia1]; exact hxb)
    rw [hfa1, hia1] at this
    exact this.conv rfl rfl (fun k hk => hk)

end XrsVerif.ILVs
