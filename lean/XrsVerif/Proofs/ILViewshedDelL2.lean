import XrsVerif.Proofs.ILViewshedDelLoops
/-
  Proofs/ILViewshedDelL2.lean -- loop L2 of `_delete_from_tree` on the arrays: for every ancestor of `z` (which now
  holds the successor's content), if its stored maximum equals the old `minv z` it is recomputed unless the tie test
  (`minv` of the ancestor, the left child's maximum and `x_parent_right`'s maximum) says otherwise, else it is raised
  to the child's maximum.  `delL2_spec`: the loop is the pass `scanArr (l2Step …)`.
-/
set_option linter.unusedSectionVars false
set_option linter.unusedVariables false
set_option linter.unusedSimpArgs false
namespace XrsVerif.ILVs
open XrsVerif XrsVerif.IL XrsVerif.Viewshed
variable {F : Type} [Fl F]

/-- the value loop L2 leaves at the ancestor `p` of the current node `cr` -/
def l2Val (V : List F) (n : Nat) (N : List Int) (p cr : Nat) (XR : Int) (zg : Fv F) : Fv F :=
  if feq (vAt V p 7) zg then
    (if !(feq (minv (nodeAt V p)) zg) && !(feq (mxAt V n (nAt N p 1)) zg && feq (mxAt V n XR) zg) then
      loopMax V n p (nAt N p 1) (nAt N p 2) else vAt V p 7)
  else (if vAt V p 7 < vAt V cr 7 then vAt V cr 7 else vAt V p 7)

theorem set_vAt_self (V : List F) (p : Nat) (hlen : p * 8 + 7 < V.length) : V.set (p * 8 + 7) (vAt V p 7).v = V := by
  unfold vAt
  apply List.ext_getElem
  · simp
  · intro i h1 h2
    by_cases hi : i = p * 8 + 7
    · subst hi; simp [List.getD_eq_getElem?_getD, List.getElem?_eq_getElem hlen]
    · rw [List.getElem_set_ne (by omega)]

/-- the state in which the tie test of loop L2 has been evaluated -/
def l2St (s : State F) (n p : Nat) (X : Int) : State F :=
  { s with
    ienv := (setS (setS (setS (setS (setS (setS s.ienv "z_parent" (p : Int)) "z_parent_left" (nAt (s.ia "tree_nodes") p 1)) "z_parent_right" (nAt (s.ia "tree_nodes") p 2)) "x_parent" (nAt (s.ia "tree_nodes") (rowOf n X) 3)) "x_parent_right" (nAt (s.ia "tree_nodes") (rowOf n (nAt (s.ia "tree_nodes") (rowOf n X) 3)) 2)) "_find_value_min_value13$node_id" (p : Int)),
    fenv := (setS s.fenv "_find_value_min_value13$ret0" (minv (nodeAt (s.fa "tree_vals") p)).v),
    ctl := .run }

/-- one iteration of loop L2 at the ancestor `p` of the current node `cr` -/
theorem delL2Body_spec (fuel n : Nat) (s : State F) (hv : VS s n) (hrun : s.ctl = .run) (cr p : Nat) (hcr : cr + 1 < n)
    (hp : p + 1 < n) (ez : s.ienv "z" = cr) (hpar : nAt (s.ia "tree_nodes") cr 3 = (p : Int))
    (X : Int) (ex : s.ienv "x" = X) (hX : PtrOK n X)
    (hXP : PtrOK n (nAt (s.ia "tree_nodes") (rowOf n X) 3))
    (hXR : PtrOK n (nAt (s.ia "tree_nodes") (rowOf n (nAt (s.ia "tree_nodes") (rowOf n X) 3)) 2))
    (hLp : PtrOK n (nAt (s.ia "tree_nodes") p 1)) (hRp : PtrOK n (nAt (s.ia "tree_nodes") p 2)) :
    let V := s.fa "tree_vals"
    let N := s.ia "tree_nodes"
    let XR := nAt N (rowOf n (nAt N (rowOf n X) 3)) 2
    let zg : Fv F := ⟨s.fenv "z_gradient"⟩
    let r := exec fuel delL2Body s
    r.ctl = .run ∧ r.ia = s.ia ∧ r.shp = s.shp ∧ (∀ a, a ≠ "tree_vals" → r.fa a = s.fa a) ∧
      r.fa "tree_vals" = V.set (p * 8 + 7) (l2Val V n N p cr XR zg).v ∧ r.ienv "z" = p ∧
      r.fenv "z_gradient" = s.fenv "z_gradient" ∧ r.ienv "x" = X := by
  intro V N XR zg r
  have hincr : inRange (cr : Int) n = true := inRange_ptr n _ (by omega) hv.pos
  have hinp : inRange (p : Int) n = true := inRange_ptr n _ (by omega) hv.pos
  have hinX : inRange X n = true := inRange_ptr n _ hX hv.pos
  have hinXP := inRange_ptr n _ hXP hv.pos
  have hinXR := inRange_ptr n _ hXR hv.pos
  have hinL := inRange_ptr n _ hLp hv.pos
  have hinR := inRange_ptr n _ hRp hv.pos
  have hlen : p * 8 + 7 < (s.fa "tree_vals").length := by rw [hv.lenV]; omega
  have eN := fun (s' : State F) => evalN s' n
  have oN := fun (s' : State F) => okN s' n
  have eV := fun (s' : State F) => evalV s' n
  have oV := fun (s' : State F) => okV s' n
  have sV := fun (s' : State F) => exec_stV fuel s' n
  have mS := fun (a b : String) (s' : State F) => minvScope_spec a b fuel n s'
  by_cases h1 : Fl.eq (vAt (s.fa "tree_vals") p 7).v (s.fenv "z_gradient") = true
  · have h1' : feq (vAt V p 7) zg = true := h1
    by_cases h2 : (!(Fl.eq (minv (nodeAt (s.fa "tree_vals") p)).v (s.fenv "z_gradient")) &&
        !(Fl.eq (vAt (s.fa "tree_vals") (rowOf n (nAt (s.ia "tree_nodes") p 1)) 7).v (s.fenv "z_gradient") &&
          Fl.eq (vAt (s.fa "tree_vals") (rowOf n (nAt (s.ia "tree_nodes") (rowOf n (nAt (s.ia "tree_nodes") (rowOf n X) 3)) 2)) 7).v
            (s.fenv "z_gradient"))) = true
    · have h2' : (!(feq (minv (nodeAt V p)) zg) && !(feq (mxAt V n (nAt N p 1)) zg && feq (mxAt V n XR) zg)) = true := h2
      have hrc := recompLoop2_spec fuel n
        (l2St s n p X)
        (hv.of_eq rfl rfl rfl) rfl p _ _ hp hLp hRp (by simp [setS, l2St]) (by simp [setS, l2St]) (by simp [setS, l2St])
      have hfr := exec_frame fuel (recompLoop "z_parent" "z_parent_left" "z_parent_right" "14" "15" "16")
        (l2St s n p X)
      have hP2 : Fl.eq (minv (nodeAt (s.fa "tree_vals") p)).v (s.fenv "z_gradient") = false ∧
          (Fl.eq (vAt (s.fa "tree_vals") (rowOf n (nAt (s.ia "tree_nodes") p 1)) 7).v (s.fenv "z_gradient") = false ∨
            Fl.eq (vAt (s.fa "tree_vals") (rowOf n (nAt (s.ia "tree_nodes") (rowOf n (nAt (s.ia "tree_nodes") (rowOf n X) 3)) 2)) 7).v
              (s.fenv "z_gradient") = false) := by
        simpa using h2
      have hc1 := hrc.1
      simp only [l2St] at hc1
      have hr1 : r = exec fuel (.setI "z" (.var "z_parent"))
          (exec fuel (recompLoop "z_parent" "z_parent_left" "z_parent_right" "14" "15" "16")
            (l2St s n p X)) := by
        simp [r, delL2Body, exec, mS, eN, oN, eV, oV, hv.shpN, hv.shpV, ez, ex, hincr, hinp, hinX, hinXP, hinXR, hinL, hinR, hpar,
          IE.ok_var, IE.eval_var, FE.ok_var, FE.eval_var, BE.ok, BE.eval, CmpOp.eval, setS, hrun, h1, hc1, l2St, hP2]
      obtain ⟨c1, c2, c3, c4, c5⟩ := hrc
      generalize hs2 : exec fuel (recompLoop "z_parent" "z_parent_left" "z_parent_right" "14" "15" "16")
            (l2St s n p X) = s2 at hr1 c1 c2 c3 c4 c5 hfr
      have ezp : s2.ienv "z_parent" = p := by rw [hfr.ienv _ (by decide)]; simp [setS, l2St]
      have exx : s2.ienv "x" = X := by rw [hfr.ienv _ (by decide)]; simp [setS, ex, l2St]
      have ezg : s2.fenv "z_gradient" = s.fenv "z_gradient" := by rw [hfr.fenv _ (by decide)]; simp [setS, l2St]
      rw [exec_setI _ _ _ _ (IE.ok_var _ _), IE.eval_var, ezp] at hr1
      rw [hr1]
      refine ⟨c1, c2, c3, c5, ?_, by simp [setS], ezg, by simp [setS, exx]⟩
      show s2.fa "tree_vals" = _
      rw [c4]
      simp only [l2Val, h1', h2', if_true]
      rfl
    · have h2f : (!(Fl.eq (minv (nodeAt (s.fa "tree_vals") p)).v (s.fenv "z_gradient")) &&
          !(Fl.eq (vAt (s.fa "tree_vals") (rowOf n (nAt (s.ia "tree_nodes") p 1)) 7).v (s.fenv "z_gradient") &&
            Fl.eq (vAt (s.fa "tree_vals") (rowOf n (nAt (s.ia "tree_nodes") (rowOf n (nAt (s.ia "tree_nodes") (rowOf n X) 3)) 2)) 7).v
              (s.fenv "z_gradient"))) = false := by
        cases h : (!(Fl.eq (minv (nodeAt (s.fa "tree_vals") p)).v (s.fenv "z_gradient")) &&
          !(Fl.eq (vAt (s.fa "tree_vals") (rowOf n (nAt (s.ia "tree_nodes") p 1)) 7).v (s.fenv "z_gradient") &&
            Fl.eq (vAt (s.fa "tree_vals") (rowOf n (nAt (s.ia "tree_nodes") (rowOf n (nAt (s.ia "tree_nodes") (rowOf n X) 3)) 2)) 7).v
              (s.fenv "z_gradient")))
        · rfl
        · exact absurd h h2
      have h2' : (!(feq (minv (nodeAt V p)) zg) && !(feq (mxAt V n (nAt N p 1)) zg && feq (mxAt V n XR) zg)) = false := h2f
      have hP2 : ¬ (Fl.eq (minv (nodeAt (s.fa "tree_vals") p)).v (s.fenv "z_gradient") = false ∧
          (Fl.eq (vAt (s.fa "tree_vals") (rowOf n (nAt (s.ia "tree_nodes") p 1)) 7).v (s.fenv "z_gradient") = false ∨
            Fl.eq (vAt (s.fa "tree_vals") (rowOf n (nAt (s.ia "tree_nodes") (rowOf n (nAt (s.ia "tree_nodes") (rowOf n X) 3)) 2)) 7).v
              (s.fenv "z_gradient") = false)) := by
        intro hh
        have : (!(Fl.eq (minv (nodeAt (s.fa "tree_vals") p)).v (s.fenv "z_gradient")) &&
          !(Fl.eq (vAt (s.fa "tree_vals") (rowOf n (nAt (s.ia "tree_nodes") p 1)) 7).v (s.fenv "z_gradient") &&
            Fl.eq (vAt (s.fa "tree_vals") (rowOf n (nAt (s.ia "tree_nodes") (rowOf n (nAt (s.ia "tree_nodes") (rowOf n X) 3)) 2)) 7).v
              (s.fenv "z_gradient"))) = true := by simpa using hh
        exact h2 this
      have hr1 : r = { (l2St s n p X) with ienv := setS (l2St s n p X).ienv "z" (p : Int), ctl := s.ctl } := by
        simp [r, delL2Body, exec, mS, eN, oN, eV, oV, hv.shpN, hv.shpV, ez, ex, hincr, hinp, hinX, hinXP, hinXR, hinL, hinR, hpar,
          IE.ok_var, IE.eval_var, FE.ok_var, FE.eval_var, BE.ok, BE.eval, CmpOp.eval, setS, hrun, h1, l2St, hP2]
      rw [hr1]
      refine ⟨hrun, rfl, rfl, fun _ _ => rfl, ?_, by simp [setS], by simp [setS, l2St], by simp [setS, ex, l2St]⟩
      show s.fa "tree_vals" = _
      simp only [l2Val, h1', h2', if_true, Bool.false_eq_true, if_false]
      exact (set_vAt_self _ _ hlen).symm
  · have h1f : Fl.eq (vAt (s.fa "tree_vals") p 7).v (s.fenv "z_gradient") = false := by
      cases h : Fl.eq (vAt (s.fa "tree_vals") p 7).v (s.fenv "z_gradient")
      · rfl
      · exact absurd h h1
    have h1' : feq (vAt V p 7) zg = false := h1f
    by_cases h3 : Fl.lt (vAt (s.fa "tree_vals") p 7).v (vAt (s.fa "tree_vals") cr 7).v = true
    · have h3' : vAt V p 7 < vAt V cr 7 := h3
      have hr1 : r = { s with ienv := setS (setS s.ienv "z_parent" (p : Int)) "z" (p : Int),
                              fa := (setS s.fa "tree_vals" ((s.fa "tree_vals").set (p * 8 + 7) (vAt (s.fa "tree_vals") cr 7).v)) } := by
        simp [r, delL2Body, exec, sV, eN, oN, eV, oV, hv.shpN, hv.shpV, ez, ex, hincr, hinp, hpar,
          IE.ok_var, IE.eval_var, FE.ok_var, FE.eval_var, BE.ok, BE.eval, CmpOp.eval, setS, hrun, h1f, h3]
      rw [hr1]
      refine ⟨hrun, rfl, rfl, fun a ha => by simp [setS, ha], ?_, by simp [setS], rfl, by simp [setS, ex]⟩
      simp only [setS, if_true, l2Val, h1', h3', Bool.false_eq_true, if_false]
      rfl
    · have h3' : ¬ vAt V p 7 < vAt V cr 7 := h3
      have h3f : Fl.lt (vAt (s.fa "tree_vals") p 7).v (vAt (s.fa "tree_vals") cr 7).v = false := by
        cases h : Fl.lt (vAt (s.fa "tree_vals") p 7).v (vAt (s.fa "tree_vals") cr 7).v
        · rfl
        · exact absurd h h3
      have hr1 : r = { s with ienv := setS (setS s.ienv "z_parent" (p : Int)) "z" (p : Int) } := by
        simp [r, delL2Body, exec, sV, eN, oN, eV, oV, hv.shpN, hv.shpV, ez, ex, hincr, hinp, hpar,
          IE.ok_var, IE.eval_var, FE.ok_var, FE.eval_var, BE.ok, BE.eval, CmpOp.eval, setS, hrun, h1f, h3f]
      rw [hr1]
      refine ⟨hrun, rfl, rfl, fun _ _ => rfl, ?_, by simp [setS], rfl, by simp [setS, ex]⟩
      show s.fa "tree_vals" = _
      simp only [l2Val, h1', h3', Bool.false_eq_true, if_false]
      exact (set_vAt_self _ _ hlen).symm

theorem absFr_nd (V : List F) (N : List Int) (fr : Fr) : (absFr V N fr).nd = nodeAt V fr.idx := by cases fr <;> rfl

/-- the step of loop L2 read off the arrays -/
theorem l2Step_absFr (V : List F) (N : List Int) (n : Nat) (cr : Nat) (fr : Fr) (rest : Ctx) (XR : Int) (zg : Fv F)
    (hc : CtxLinked N n (cr : Int) (fr :: rest)) :
    l2Step feq (vAt V (n - 1) 7) zg (mxAt V n XR) (mxAt V n (cr : Int)) (absFr V N fr) =
      some (l2Val V n N fr.idx cr XR zg) := by
  obtain ⟨hrl, hkid⟩ := recompL_absFr V N n (cr : Int) fr rest hc
  simp only [l2Step, l2Val, absFr_mx, absFr_nd, hrl, hkid]
  simp only [mxAt, rowOf_nat]

/-- **loop L2 on the arrays**: the pass `scanArr (l2Step …)` up the context of `z` -/
theorem delL2_spec (n : Nat) (X XR : Int) (hX : PtrOK n X) (hXR : PtrOK n XR) : ∀ (ctx : Ctx) (cr : Nat) (fuel : Nat)
    (s : State F), VS s n → s.ctl = .run → CtxLinked (s.ia "tree_nodes") n (cr : Int) ctx →
    nAt (s.ia "tree_nodes") cr 3 = ctxPar ctx → cr + 1 < n → s.ienv "z" = cr → s.ienv "x" = X →
    PtrOK n (nAt (s.ia "tree_nodes") (rowOf n X) 3) →
    nAt (s.ia "tree_nodes") (rowOf n (nAt (s.ia "tree_nodes") (rowOf n X) 3)) 2 = XR →
    rowOf n XR ∉ ctx.map Fr.idx → ctx.length < fuel →
    let V := s.fa "tree_vals"
    let zg : Fv F := ⟨s.fenv "z_gradient"⟩
    let r := exec fuel delL2 s
    r.ctl = .run ∧ r.ia = s.ia ∧ r.shp = s.shp ∧
      r.fa "tree_vals" = scanArr (l2Step feq (vAt V (n - 1) 7) zg (mxAt V n XR)) n (s.ia "tree_nodes") V (cr : Int) ctx ∧
      (∀ a, a ≠ "tree_vals" → r.fa a = s.fa a) := by
  intro ctx
  induction ctx with
  | nil =>
    intro cr fuel s hv hrun hc hpar hcr ez ex hXP hxr hnot hf
    obtain ⟨fuel, rfl⟩ : ∃ f, fuel = f + 1 := ⟨fuel - 1, by omega⟩
    intro V zg r
    have hin : inRange (s.ienv "z") n = true := by rw [ez]; exact inRange_ptr n _ (by omega) hv.pos
    have hr : r = s := by
      simp only [r, delL2]
      rw [exec_while_exit]
      · rw [BE.ok_cmpI, okN s n hv.shpN _ 3 (by decide), hin, IE.ok_lit]; rfl
      · rw [BE.eval_cmpI, evalN s n hv.shpN _ 3 (by decide), ez, rowOf_nat, IE.eval_lit]
        simp [ctxPar, cmpInt, hpar]
    rw [hr]
    exact ⟨hrun, rfl, rfl, rfl, fun _ _ => rfl⟩
  | cons fr rest ih =>
    intro cr fuel s hv hrun hc hpar hcr ez ex hXP hxr hnot hf
    obtain ⟨fuel, rfl⟩ : ∃ f, fuel = f + 1 := ⟨fuel - 1, by omega⟩
    intro V zg r
    rw [ctxPar_cons] at hpar
    obtain ⟨hpn, hp3, hcrest⟩ := hc.step
    obtain ⟨hk1, hk2⟩ := hc.kidsOK (by simp only [PtrOK]; omega) hv.pos
    have hin : inRange (s.ienv "z") n = true := by rw [ez]; exact inRange_ptr n _ (by omega) hv.pos
    have hok : BE.ok s (.cmpI .ne (.ld2 "tree_nodes" (.var "z") (.lit 3)) (.lit (-1))) = true := by
      rw [BE.ok_cmpI, okN s n hv.shpN _ 3 (by decide), hin, IE.ok_lit]; rfl
    have hev : BE.eval s (.cmpI .ne (.ld2 "tree_nodes" (.var "z") (.lit 3)) (.lit (-1))) = true := by
      rw [BE.eval_cmpI, evalN s n hv.shpN _ 3 (by decide), ez, rowOf_nat, IE.eval_lit]
      simp only [cmpInt, show (3 : Int).toNat = 3 from rfl, hpar]
      simp
    obtain ⟨b1, b2, b3, b4, b5, b6, b7, b8⟩ := delL2Body_spec fuel n s hv hrun cr fr.idx hcr hpn ez hpar X ex hX hXP
      (by rw [hxr]; exact hXR) hk1 hk2
    rw [hxr] at b5
    generalize hs1 : exec fuel delL2Body s = s1 at b1 b2 b3 b4 b5 b6 b7 b8
    have hr : r = exec fuel delL2 s1 := by
      simp only [r, delL2]
      rw [exec_while_step _ _ _ _ hok hev (by rw [hs1]; exact b1), hs1]
    have hlen : fr.idx * 8 + 7 < V.length := by simp only [V]; rw [hv.lenV]; omega
    have hv1 : VS s1 n := ⟨by rw [b3]; exact hv.shpV, by rw [b3]; exact hv.shpN, by rw [b5]; simp [V, hv.lenV],
      by rw [b2]; exact hv.lenN, hv.pos⟩
    have hS1 : vAt (V.set (fr.idx * 8 + 7) (l2Val V n (s.ia "tree_nodes") fr.idx cr XR zg).v) (n - 1) 7 = vAt V (n - 1) 7 := by
      rw [vAt_set _ _ _ _ _ _ (by decide) (by decide) hlen]
      have : ¬ (n - 1 = fr.idx) := by omega
      simp [this]
    have hXR1 : mxAt (V.set (fr.idx * 8 + 7) (l2Val V n (s.ia "tree_nodes") fr.idx cr XR zg).v) n XR = mxAt V n XR := by
      simp only [mxAt]
      rw [vAt_set _ _ _ _ _ _ (by decide) (by decide) hlen]
      have : ¬ (rowOf n XR = fr.idx) := fun e => hnot (by simp [e])
      simp [this]
    have := ih fr.idx fuel s1 hv1 b1 (by rw [b2]; exact hcrest) (by rw [b2]; exact hp3) hpn b6 b8
      (by rw [b2]; exact hXP) (by rw [b2]; exact hxr) (fun h => hnot (by simp [h]))
      (by simp only [List.length_cons] at hf; omega)
    simp only [← hr, b7, b2] at this
    obtain ⟨e1, e2, e3, e4, e5⟩ := this
    refine ⟨e1, e2, e3.trans b3, ?_, fun a ha => (e5 a ha).trans (b4 a ha)⟩
    rw [e4, b5, hS1, hXR1]
    simp only [scanArr, l2Step_absFr V (s.ia "tree_nodes") n cr fr rest XR zg hc]
    rfl

end XrsVerif.ILVs
