import XrsVerif.Proofs.ILRegionsCell
/-
  Proofs/ILRegionsPass1.lean -- step 3 of the refinement of `Gen.IL.areaConnectivity`: the first pass.

  * `window_model`: with `SW = nbrs.map data`, `AW = nbrs.map out` and `out ~ L` (`Rel`), the program's search
    over `neighbor_matches` is the model's `(matchesOf …).find? (0 < L ·)`, and the value it finds is `lab (L q)`;
  * `cell1_step`: one cell step of the generated first pass = `Regions.step1` (labels and uid), keeping `Geo`;
  * `pass1_refines`: the two nested loops = `Regions.pass1` (fold of `step1` over `gridCells`).
-/
namespace XrsVerif.IL.Rg
open XrsVerif XrsVerif.IL XrsVerif.Regions
variable {F : Type} [Fl F]
set_option linter.unusedSectionVars false
set_option linter.unusedVariables false
set_option linter.unusedSimpArgs false

/-! ### window positions and window cells -/

/-- the k-th window cell -/
def nb (l : List Cell) (k : Nat) : Cell := l.getD k (0, 0)

theorem list_eq_map_nb (l : List Cell) : l = (List.range l.length).map (nb l) := by
  apply List.ext_getElem
  · simp
  · intro i h1 h2; simp [nb, List.getD_eq_getElem?_getD, List.getElem?_eq_getElem h1]

theorem nb_mem (l : List Cell) (k : Nat) (h : k < l.length) : nb l k ∈ l := by
  simp only [nb, List.getD_eq_getElem?_getD, List.getElem?_eq_getElem h, Option.getD_some]
  exact List.getElem_mem h

theorem getD_map_nb (l : List Cell) (f : Cell → F) (k : Nat) (h : k < l.length) :
    (l.map f).getD k Fl.nan = f (nb l k) := by
  simp [nb, List.getD_eq_getElem?_getD, List.getElem?_eq_getElem h]

/-- filtering the window cells by a test on their values = the matching positions, mapped back to cells -/
theorem filter_cells (l : List Cell) (f : Cell → F) (c : F → Bool) :
    l.filter (fun q => c (f q)) = (matchIdx c (l.map f)).map (nb l) := by
  conv => lhs; rw [list_eq_map_nb l]
  rw [List.filter_map]
  congr 1
  unfold matchIdx
  rw [List.length_map]
  apply List.filter_congr
  intro k hk
  have hk' : k < l.length := by simpa using hk
  simp only [Function.comp, getD_map_nb l f k hk']

theorem find?_congr' {α : Type} (l : List α) (p q : α → Bool) (h : ∀ a ∈ l, p a = q a) :
    l.find? p = l.find? q := by
  induction l with
  | nil => rfl
  | cons a l ih =>
    simp only [List.find?_cons, h a (by simp)]
    rw [ih (fun b hb => h b (by simp [hb]))]

theorem isPos_lab (laws : LabelLaws F) (k : Nat) : isPos (lab k : F) = decide (0 < k) := by
  have := laws.lt_lab 0 k
  exact this

/-- the program's view of the window (positions, numbers) against the model's (cells, labels) -/
theorem window_model (laws : LabelLaws F) (rows cols : Nat) (D out : List F) (L : Cell → Nat)
    (hrel : Rel rows cols D out L) (nbrs : List Cell) (hin : ∀ q ∈ nbrs, q.1 < rows ∧ q.2 < cols) (v : F) :
    let idx := matchIdx (closeF v) (nbrs.map (at_ cols D))
    (∀ k ∈ idx, k < nbrs.length) ∧
    (∀ k ∈ idx, (nbrs.map (at_ cols out)).getD k Fl.nan = lab (L (nb nbrs k))) ∧
    nbrs.filter (matched closeF (dataOf cols D) v) = idx.map (nb nbrs) ∧
    (nbrs.filter (matched closeF (dataOf cols D) v)).find? (fun q => decide (0 < L q)) =
      (idx.find? (fun k => isPos ((nbrs.map (at_ cols out)).getD k Fl.nan))).map (nb nbrs) ∧
    (nbrs.filter (matched closeF (dataOf cols D) v)).map L = idx.map (fun k => L (nb nbrs k)) := by
  intro idx
  have hlt : ∀ k ∈ idx, k < nbrs.length := by
    intro k hk
    have := matchIdx_lt _ _ k hk
    simpa using this
  have hlab : ∀ k ∈ idx, (nbrs.map (at_ cols out)).getD k Fl.nan = lab (L (nb nbrs k)) := by
    intro k hk
    have hk' := hlt k hk
    rw [getD_map_nb nbrs _ k hk']
    have hmem := nb_mem nbrs k hk'
    obtain ⟨h1, h2⟩ := hin _ hmem
    apply hrel _ h1 h2
    -- a close window value is not NaN
    have hc : closeF v ((nbrs.map (at_ cols D)).getD k Fl.nan) = true := by
      simp only [idx, matchIdx, List.mem_filter] at hk; exact hk.2
    rw [getD_map_nb nbrs _ k hk'] at hc
    cases hn : Fl.isnan (at_ cols D (nb nbrs k)) with
    | false => rfl
    | true => rw [laws.close_nan v _ hn] at hc; cases hc
  have hfil : nbrs.filter (matched closeF (dataOf cols D) v) = idx.map (nb nbrs) := by
    have : (matched closeF (dataOf cols D) v) = fun q => closeF v (at_ cols D q) := by
      funext q; exact matched_eq laws cols D v q
    rw [this]
    exact filter_cells nbrs (at_ cols D) (closeF v)
  refine ⟨hlt, hlab, hfil, ?_, ?_⟩
  · rw [hfil, List.find?_map]
    congr 1
    apply find?_congr'
    intro k hk
    simp only [Function.comp, hlab k hk, isPos_lab laws]
  · rw [hfil, List.map_map]; rfl

/-! ### `Geo` under updates of scratch variables -/

theorem Geo.set_ienv {rows cols n : Nat} {D : List F} {s : State F} (g : Geo rows cols n D s) (v : String) (i : Int)
    (h1 : v ≠ "rows") (h2 : v ≠ "cols") (h3 : v ≠ "n") :
    Geo rows cols n D { s with ienv := setS s.ienv v i } :=
  { run := g.run
    rv := by show setS s.ienv v i "rows" = _; rw [setS_other _ _ _ _ (Ne.symm h1)]; exact g.rv
    cv := by show setS s.ienv v i "cols" = _; rw [setS_other _ _ _ _ (Ne.symm h2)]; exact g.cv
    nv := by show setS s.ienv v i "n" = _; rw [setS_other _ _ _ _ (Ne.symm h3)]; exact g.nv
    dshp := g.dshp, oshp := g.oshp, sshp := g.sshp, ashp := g.ashp, dat := g.dat, olen := g.olen
    slen := g.slen, alen := g.alen }

/-! ### one cell -/

theorem step1_some {α V : Type} [DecidableEq α] (nbrs : α → List α) (m : V → V → Bool) (data : α → Option V)
    (st : (α → Nat) × Nat) (p : α) (v : V) (q : α) (hv : data p = some v)
    (hf : (matchesOf nbrs m data v p).find? (fun q => 0 < st.1 q) = some q) :
    step1 nbrs m data st p = (setL st.1 p (st.1 q), st.2) := by
  simp only [step1, hv, hf]

theorem step1_none {α V : Type} [DecidableEq α] (nbrs : α → List α) (m : V → V → Bool) (data : α → Option V)
    (st : (α → Nat) × Nat) (p : α) (v : V) (hv : data p = some v)
    (hf : (matchesOf nbrs m data v p).find? (fun q => 0 < st.1 q) = none) :
    step1 nbrs m data st p = (setL st.1 p st.2, st.2 + 1) := by
  simp only [step1, hv, hf]

/-- **step 3a**: one cell step of the generated first pass is the model's `step1` -/
theorem cell1_step (laws : LabelLaws F) (fuel rows cols n : Nat) (hn : n = 4 ∨ n = 8) (D : List F)
    (y x : Nat) (hy : y < rows) (hx : x < cols) (s : State F) (g : Geo rows cols n D s)
    (hyv : s.ienv "y" = (y : Int)) (hxv : s.ienv "x" = (x : Int)) (uid : Nat) (huv : s.ienv "uid" = (uid : Int))
    (L : Cell → Nat) (hrel : Rel rows cols D (s.fa "out") L)
    (hnd : NaNDone rows cols D (s.fa "out") (pos cols (y, x))) :
    let t := afterBody (exec fuel cell1 s)
    let r := step1 (gridNbrs rows cols (decide (n = 8))) closeF (dataOf cols D) (L, uid) (y, x)
    Geo rows cols n D t ∧ t.ienv "y" = (y : Int) ∧ t.ienv "uid" = (r.2 : Int) ∧
      Rel rows cols D (t.fa "out") r.1 ∧ NaNDone rows cols D (t.fa "out") (pos cols (y, x) + 1) := by
  intro t r
  cases hnan : Fl.isnan (at_ cols D (y, x)) with
  | true =>
    have ht : t = _ := cell1_nan fuel rows cols n D y x hy hx s g hyv hxv hnan
    have hr : r = (L, uid) := by simp only [r, step1, dataOf_none cols D (y, x) hnan]
    have hto : t.fa "out" = (s.fa "out").set (pos cols (y, x)) (at_ cols D (y, x)) := by rw [ht]; simp [setS]
    have htf : ∀ a, a ≠ "out" → t.fa a = s.fa a := by intro a ha; rw [ht]; simp [setS, ha]
    have hti : t.ienv = s.ienv := by rw [ht]
    have hts : t.shp = s.shp := by rw [ht]
    have htc : t.ctl = s.ctl := by rw [ht]
    rw [hr]
    refine ⟨?_, by rw [hti]; exact hyv, by rw [hti]; exact huv, ?_, ?_⟩
    · exact { run := by rw [htc]; exact g.run
              rv := by rw [hti]; exact g.rv
              cv := by rw [hti]; exact g.cv
              nv := by rw [hti]; exact g.nv
              dshp := by rw [hts]; exact g.dshp
              oshp := by rw [hts]; exact g.oshp
              sshp := by rw [hts]; exact g.sshp
              ashp := by rw [hts]; exact g.ashp
              dat := by rw [htf _ (by decide)]; exact g.dat
              olen := by rw [hto, List.length_set]; exact g.olen
              slen := by rw [htf _ (by decide)]; exact g.slen
              alen := by rw [htf _ (by decide)]; exact g.alen }
    · intro c h1 h2 hc
      rw [hto, at_set rows cols _ (y, x) c _ g.olen hy hx h2]
      have : c ≠ (y, x) := by intro e; rw [e, hnan] at hc; cases hc
      rw [if_neg this]; exact hrel c h1 h2 hc
    · intro c h1 h2 hp hc
      rw [hto, at_set rows cols _ (y, x) c _ g.olen hy hx h2]
      by_cases hcp : c = (y, x)
      · rw [if_pos hcp, hcp]
      · rw [if_neg hcp]
        apply hnd c h1 h2 _ hc
        have : pos cols c ≠ pos cols (y, x) := fun e => hcp (pos_inj cols c (y, x) h2 hx e)
        omega
  | false =>
    obtain ⟨ie', hie, hfront⟩ := cell1_front fuel rows cols n hn D y x hy hx s g hyv hxv hnan
    let nbrs := gridNbrs rows cols (decide (n = 8)) (y, x)
    have hl : nbrs.length = n := gridNbrs_length rows cols n hn (y, x)
    have hin : ∀ q ∈ nbrs, q.1 < rows ∧ q.2 < cols := nbrs_in_grid rows cols _ y x hy hx
    obtain ⟨hlt, hlab, hfil, hfind, _⟩ :=
      window_model laws rows cols D (s.fa "out") L hrel nbrs hin (at_ cols D (y, x))
    let S5 := afterMatch s ie' (at_ cols D (y, x)) (nbrs.map (at_ cols D)) (nbrs.map (at_ cols (s.fa "out")))
    let idx := matchIdx (closeF (at_ cols D (y, x))) (nbrs.map (at_ cols D))
    have hS5aw : S5.fa "area_window" = nbrs.map (at_ cols (s.fa "out")) := afterMatch_fa_aw _ _ _ _ _
    obtain ⟨hc, hshp, hienv, hfa, hout, huid⟩ := exec_assign1 fuel rows cols n y x uid hy hx idx
      (fun k hk => by have := hlt k hk; omega) S5 g.run
      (by show ie' "y" = _; rw [hie _ (by decide) (by decide) (by decide)]; exact hyv)
      (by show ie' "x" = _; rw [hie _ (by decide) (by decide) (by decide)]; exact hxv)
      (by show ie' "uid" = _; rw [hie _ (by decide) (by decide) (by decide)]; exact huv)
      (by rw [afterMatch_shp _ _ _ _ _ _ (by decide) (by decide)]; exact g.oshp)
      (afterMatch_shp_nm _ _ _ _ _) (afterMatch_ia_nm _ _ _ _ _)
      (by rw [afterMatch_shp _ _ _ _ _ _ (by decide) (by decide)]; exact g.ashp)
      (by rw [hS5aw]; simp [hl])
    have ht : t = exec fuel assign1 S5 := by
      show afterBody (exec fuel cell1 s) = _
      rw [hfront]; exact afterBody_run _ hc
    rw [hS5aw] at hout huid
    have hS5out : S5.fa "out" = s.fa "out" := afterMatch_fa _ _ _ _ _ _ (by decide) (by decide)
    rw [hS5out] at hout
    -- the frame
    have hfr : ∀ v, v ≠ "j" → v ≠ "uid" → v ≠ "elem1$k" → v ≠ "where2$n" → v ≠ "where2$k" →
        t.ienv v = s.ienv v := by
      intro v h1 h2 h3 h4 h5
      rw [ht, hienv v h1 h2]
      show ie' v = _
      exact hie v h3 h4 h5
    have hgeo : Geo rows cols n D t :=
      { run := by rw [ht]; exact hc
        rv := by rw [hfr _ (by decide) (by decide) (by decide) (by decide) (by decide)]; exact g.rv
        cv := by rw [hfr _ (by decide) (by decide) (by decide) (by decide) (by decide)]; exact g.cv
        nv := by rw [hfr _ (by decide) (by decide) (by decide) (by decide) (by decide)]; exact g.nv
        dshp := by rw [ht, hshp, afterMatch_shp _ _ _ _ _ _ (by decide) (by decide)]; exact g.dshp
        oshp := by rw [ht, hshp, afterMatch_shp _ _ _ _ _ _ (by decide) (by decide)]; exact g.oshp
        sshp := by rw [ht, hshp, afterMatch_shp _ _ _ _ _ _ (by decide) (by decide)]; exact g.sshp
        ashp := by rw [ht, hshp, afterMatch_shp _ _ _ _ _ _ (by decide) (by decide)]; exact g.ashp
        dat := by rw [ht, hfa _ (by decide), afterMatch_fa _ _ _ _ _ _ (by decide) (by decide)]; exact g.dat
        olen := by rw [ht, hout, List.length_set]; exact g.olen
        slen := by rw [ht, hfa _ (by decide), afterMatch_fa_sw]; simp [hl]
        alen := by rw [ht, hfa _ (by decide), afterMatch_fa_aw]; simp [hl] }
    have hyt : t.ienv "y" = (y : Int) := by
      rw [hfr _ (by decide) (by decide) (by decide) (by decide) (by decide)]; exact hyv
    -- both cases of the search
    have key : ∀ (X : F) (lv : Nat), X = lab lv → t.fa "out" = (s.fa "out").set (pos cols (y, x)) X →
        Rel rows cols D (t.fa "out") (setL L (y, x) lv) ∧
        NaNDone rows cols D (t.fa "out") (pos cols (y, x) + 1) := by
      intro X lv hX hto
      constructor
      · intro c h1 h2 hcn
        rw [hto, at_set rows cols _ (y, x) c _ g.olen hy hx h2]
        by_cases hcp : c = (y, x)
        · rw [if_pos hcp, hX]; simp [setL, hcp]
        · rw [if_neg hcp]; simp only [setL, hcp, if_false]; exact hrel c h1 h2 hcn
      · intro c h1 h2 hp hcn
        rw [hto, at_set rows cols _ (y, x) c _ g.olen hy hx h2]
        have hcp : c ≠ (y, x) := by intro e; rw [e, hnan] at hcn; cases hcn
        rw [if_neg hcp]
        apply hnd c h1 h2 _ hcn
        have : pos cols c ≠ pos cols (y, x) := fun e => hcp (pos_inj cols c (y, x) h2 hx e)
        omega
    cases hf : idx.find? (fun k => isPos ((nbrs.map (at_ cols (s.fa "out"))).getD k Fl.nan)) with
    | some k =>
      have hf' : List.find? (fun k => isPos ((List.map (at_ cols (s.fa "out")) nbrs).getD k Fl.nan))
          (matchIdx (closeF (at_ cols D (y, x))) (List.map (at_ cols D) nbrs)) = some k := hf
      rw [hf'] at hfind hout huid
      have hr : r = (setL L (y, x) (L (nb nbrs k)), uid) :=
        step1_some _ _ _ (L, uid) (y, x) _ _ (dataOf_some cols D (y, x) hnan) hfind
      have hk : k ∈ idx := List.mem_of_find?_eq_some hf
      obtain ⟨h1, h2⟩ := key _ (L (nb nbrs k)) (hlab k hk) (by rw [ht]; exact hout)
      rw [hr]
      exact ⟨hgeo, hyt, by rw [ht]; exact huid, h1, h2⟩
    | none =>
      have hf' : List.find? (fun k => isPos ((List.map (at_ cols (s.fa "out")) nbrs).getD k Fl.nan))
          (matchIdx (closeF (at_ cols D (y, x))) (List.map (at_ cols D) nbrs)) = none := hf
      rw [hf'] at hfind hout huid
      have hr : r = (setL L (y, x) uid, uid + 1) :=
        step1_none _ _ _ (L, uid) (y, x) _ (dataOf_some cols D (y, x) hnan) hfind
      obtain ⟨h1, h2⟩ := key _ uid rfl (by rw [ht]; exact hout)
      rw [hr]
      refine ⟨hgeo, hyt, ?_, h1, h2⟩
      rw [ht, huid]; simp

/-! ### the loops -/

/-- the cells of row `y` up to column `i` -/
def rowCells (y i : Nat) : List Cell := (List.range i).map fun x => (y, x)

theorem rowCells_succ (y i : Nat) : rowCells y (i + 1) = rowCells y i ++ [(y, i)] := by
  simp [rowCells, List.range_succ]

theorem gridCells_succ' (rows cols : Nat) : gridCells (rows + 1) cols = gridCells rows cols ++ rowCells rows cols :=
  gridCells_succ rows cols

/-- what the first pass has established after the cells `cs` (raster order, `k` of them) -/
def P1 (rows cols n : Nat) (D : List F) (cs : List Cell) (k : Nat) (st : State F) : Prop :=
  Geo rows cols n D st ∧
  st.ienv "uid" = ((cs.foldl (step1 (gridNbrs rows cols (decide (n = 8))) closeF (dataOf cols D)) (fun _ => 0, 1)).2 : Int) ∧
  Rel rows cols D (st.fa "out")
    (cs.foldl (step1 (gridNbrs rows cols (decide (n = 8))) closeF (dataOf cols D)) (fun _ => 0, 1)).1 ∧
  NaNDone rows cols D (st.fa "out") k

/-- one row of the first pass -/
theorem row1_refines (laws : LabelLaws F) (fuel rows cols n : Nat) (hn : n = 4 ∨ n = 8) (D : List F)
    (y : Nat) (hy : y < rows) (s : State F) (hyv : s.ienv "y" = (y : Int))
    (hP : P1 rows cols n D (gridCells y cols) (y * cols) s) :
    let t := exec fuel (passRow cell1) s
    t.ctl = .run ∧ P1 rows cols n D (gridCells (y + 1) cols) ((y + 1) * cols) t := by
  intro t
  have hrun := hP.1.run
  have ht : t = loopOver (fun st i => exec fuel cell1 { st with ienv := setS st.ienv "x" i })
      ((List.range cols).map (fun (k : Nat) => (k : Int))) s := by
    show exec fuel (passRow cell1) s = _
    unfold passRow
    exact exec_forRange_nat fuel "x" _ _ s cols (by simp [IE.ok]) (by simp [IE.eval, hP.1.cv])
  have := loopOver_inv (fun st i => exec fuel cell1 { st with ienv := setS st.ienv "x" i })
    ((List.range cols).map (fun (k : Nat) => (k : Int)))
    (fun i st => st.ienv "y" = (y : Int) ∧ P1 rows cols n D (gridCells y cols ++ rowCells y i) (y * cols + i) st)
    s hrun ⟨hyv, by simpa [rowCells] using hP⟩
    (by
      intro i hi st hst hPi
      obtain ⟨hyst, hg, hu, hr, hd⟩ := hPi
      have hi' : i < cols := by simpa using hi
      have hxs : ((List.range cols).map (fun (k : Nat) => (k : Int)))[i] = (i : Int) := by simp
      rw [hxs]
      have hg' := hg.set_ienv "x" (i : Int) (by decide) (by decide) (by decide)
      have := cell1_step laws fuel rows cols n hn D y i hy hi' { st with ienv := setS st.ienv "x" (i : Int) } hg'
        (by simp [setS, hyst]) (by simp [setS])
        ((gridCells y cols ++ rowCells y i).foldl
          (step1 (gridNbrs rows cols (decide (n = 8))) closeF (dataOf cols D)) (fun _ => 0, 1)).2
        (by simp only [setS]; simpa using hu)
        ((gridCells y cols ++ rowCells y i).foldl
          (step1 (gridNbrs rows cols (decide (n = 8))) closeF (dataOf cols D)) (fun _ => 0, 1)).1
        hr (by simpa [pos] using hd)
      obtain ⟨g2, hy2, hu2, hr2, hd2⟩ := this
      refine ⟨g2.run, hy2, g2, ?_, ?_, ?_⟩
      · rw [rowCells_succ, ← List.append_assoc, List.foldl_append]; exact hu2
      · rw [rowCells_succ, ← List.append_assoc, List.foldl_append]; exact hr2
      · have : y * cols + (i + 1) = pos cols (y, i) + 1 := by simp [pos]; omega
        rw [this]; exact hd2)
  rw [← ht] at this
  obtain ⟨hc, _, hP'⟩ := this
  refine ⟨hc, ?_⟩
  simp only [List.length_map, List.length_range] at hP'
  rw [gridCells_succ']
  have : (y + 1) * cols = y * cols + cols := by rw [Nat.add_mul, Nat.one_mul]
  rw [this]; exact hP'

/-- **step 3b**: the first pass of the generated program = the model's `pass1` -/
theorem pass1_refines (laws : LabelLaws F) (fuel rows cols n : Nat) (hn : n = 4 ∨ n = 8) (D : List F)
    (s : State F) (hP : P1 rows cols n D [] 0 s) :
    let t := exec fuel (pass cell1) s
    t.ctl = .run ∧ P1 rows cols n D (gridCells rows cols) (rows * cols) t := by
  intro t
  have hrun := hP.1.run
  have ht : t = loopOver (fun st i => exec fuel (passRow cell1) { st with ienv := setS st.ienv "y" i })
      ((List.range rows).map (fun (k : Nat) => (k : Int))) s := by
    show exec fuel (pass cell1) s = _
    unfold pass
    exact exec_forRange_nat fuel "y" _ _ s rows (by simp [IE.ok]) (by simp [IE.eval, hP.1.rv])
  have := loopOver_inv (fun st i => exec fuel (passRow cell1) { st with ienv := setS st.ienv "y" i })
    ((List.range rows).map (fun (k : Nat) => (k : Int)))
    (fun i st => P1 rows cols n D (gridCells i cols) (i * cols) st)
    s hrun (by simpa [gridCells] using hP)
    (by
      intro i hi st hst hPi
      have hi' : i < rows := by simpa using hi
      have hxs : ((List.range rows).map (fun (k : Nat) => (k : Int)))[i] = (i : Int) := by simp
      rw [hxs]
      obtain ⟨hg, hu, hr, hd⟩ := hPi
      have hg' := hg.set_ienv "y" (i : Int) (by decide) (by decide) (by decide)
      have := row1_refines laws fuel rows cols n hn D i hi' { st with ienv := setS st.ienv "y" (i : Int) }
        (by simp [setS])
        ⟨hg', by simp only [setS]; simpa using hu, hr, hd⟩
      obtain ⟨hc, hP'⟩ := this
      rw [afterBody_run _ hc]
      exact ⟨hc, hP'⟩)
  rw [← ht] at this
  obtain ⟨hc, hP'⟩ := this
  simp only [List.length_map, List.length_range] at hP'
  exact ⟨hc, hP'⟩

end XrsVerif.IL.Rg
