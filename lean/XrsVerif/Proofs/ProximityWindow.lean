import XrsVerif.Proofs.Proximity
/-
  The four-sweep model on a *window* of the raster (what `da.map_overlap` hands to one block: the block's
  cells plus a halo, clipped at the raster edge) versus the model on the whole raster.  Helper lemmas for
  Props/C07.lean (core Lean only).

  * `Win`, `haloWin`: the window as a sub-grid; `Win.cfg` / `Win.tg` the configuration and target predicate
    the model is run with on the window (same steps, metric and threshold; targets read through the offset).
  * `HaloCovers c py px`: a cell within max_distance is at most `py` rows and `px` columns away
    (`haloCovers_of_bound`: true as soon as one more row / column is already beyond max_distance).
  * `exactCut_window`: the exact nearest target cut at max_distance is the same on the window and on the
    whole grid, at every cell of the block.
  * `noTarget_none`, `single_target_window`: the sweep itself agrees when the grid has at most one target.
  The general statement for the sweep is false: Props/C07.lean `window_sweep_eq_whole_false`.
-/
set_option linter.unusedVariables false
namespace XrsVerif.Prox

/-- a window of the grid: rows `[r0, r0+h)`, columns `[c0, c0+w)` -/
structure Win where
  r0 : Nat
  c0 : Nat
  h : Nat
  w : Nat

/-- the configuration the block function sees: same steps, metric, max_distance; the window's shape -/
def Win.cfg (v : Win) (c : Cfg) : Cfg := { c with H := v.h, W := v.w }

/-- the target predicate of the window (the window's cell (r, p) is the grid's cell (r0 + r, c0 + p)) -/
def Win.tg (v : Win) (tg : Nat → Nat → Bool) : Nat → Nat → Bool := fun r p => tg (v.r0 + r) (v.c0 + p)

/-- the window of the block rows `[a0, a1)` × columns `[b0, b1)` with a halo of `py` rows and `px` columns,
    clipped at the grid edge (the NaN cells dask pads beyond the edge are never targets and never remembered) -/
def haloWin (c : Cfg) (a0 a1 b0 b1 py px : Nat) : Win :=
  { r0 := a0 - py, c0 := b0 - px, h := min c.H (a1 + py) - (a0 - py), w := min c.W (b1 + px) - (b0 - px) }

/-- the halo covers max_distance: a cell within max_distance is at most `py` rows and `px` columns away -/
def HaloCovers (c : Cfg) (py px : Nat) : Prop :=
  ∀ r1 c1 r2 c2, withinMax c (dist2 c r1 c1 r2 c2) = true → adiff r1 r2 ≤ py ∧ adiff c1 c2 ≤ px

theorem adiff_shift (a x y : Nat) : adiff (a + x) (a + y) = adiff x y := by
  unfold adiff; omega

theorem withinMax_cfg (v : Win) (c : Cfg) (d : Nat) : withinMax (v.cfg c) d = withinMax c d := rfl

theorem withinMax_anti (c : Cfg) (d d' : Nat) (h : d ≤ d') (hw : withinMax c d' = true) : withinMax c d = true := by
  unfold withinMax at *
  cases hm : c.max2x2 with
  | none => rfl
  | some m =>
    rw [hm] at hw
    simp only [decide_eq_true_eq] at hw ⊢
    omega

/-- planar distances only depend on the offsets: the window measures the same distances as the grid -/
theorem dist2_shift (c : Cfg) (hpl : c.Planar) (v : Win) (r1 c1 r2 c2 : Nat) :
    dist2 (v.cfg c) r1 c1 r2 c2 = dist2 c (v.r0 + r1) (v.c0 + c1) (v.r0 + r2) (v.c0 + c2) := by
  unfold dist2 Win.cfg
  rcases hpl with h | h <;> simp only [h, adiff_shift]

/-- one more row (column) than the halo is already beyond max_distance => the halo covers max_distance -/
theorem haloCovers_of_bound (c : Cfg) (hpl : c.Planar) (m py px : Nat) (hm : c.max2x2 = some m)
    (hy : m < 2 * (((py + 1) * c.sy) * ((py + 1) * c.sy)))
    (hx : m < 2 * (((px + 1) * c.sx) * ((px + 1) * c.sx))) : HaloCovers c py px := by
  intro r1 c1 r2 c2 hw
  unfold withinMax at hw
  rw [hm] at hw
  simp only [decide_eq_true_eq] at hw
  have key : (adiff r1 r2 * c.sy) * (adiff r1 r2 * c.sy) ≤ dist2 c r1 c1 r2 c2 ∧
      (adiff c1 c2 * c.sx) * (adiff c1 c2 * c.sx) ≤ dist2 c r1 c1 r2 c2 := by
    unfold dist2
    rcases hpl with h | h
    · rw [h]; exact ⟨Nat.le_add_left _ _, Nat.le_add_right _ _⟩
    · rw [h]
      exact ⟨Nat.mul_le_mul (Nat.le_add_left _ _) (Nat.le_add_left _ _),
             Nat.mul_le_mul (Nat.le_add_right _ _) (Nat.le_add_right _ _)⟩
  constructor
  · apply Nat.le_of_lt_succ
    apply Nat.lt_of_not_le
    intro hge
    have h1 : (py + 1) * c.sy ≤ adiff r1 r2 * c.sy := Nat.mul_le_mul_right _ hge
    have h2 := Nat.mul_le_mul h1 h1
    have := key.1
    omega
  · apply Nat.le_of_lt_succ
    apply Nat.lt_of_not_le
    intro hge
    have h1 : (px + 1) * c.sx ≤ adiff c1 c2 * c.sx := Nat.mul_le_mul_right _ hge
    have h2 := Nat.mul_le_mul h1 h1
    have := key.2
    omega

/-! ### targets of the window and targets of the grid -/

/-- the window lies inside the grid -/
def Win.Inside (v : Win) (c : Cfg) : Prop := v.r0 + v.h ≤ c.H ∧ v.c0 + v.w ≤ c.W

/-- a target of the window is a target of the grid, at the same distance from every window cell -/
theorem win_target_is_grid_target (c : Cfg) (hpl : c.Planar) (tg : Nat → Nat → Bool) (v : Win) (hin : v.Inside c)
    (t : Nat × Nat) (ht : IsTarget (v.cfg c) (v.tg tg) t) (r p : Nat) :
    IsTarget c tg (v.r0 + t.1, v.c0 + t.2) ∧
      dT (v.cfg c) r p t = dT c (v.r0 + r) (v.c0 + p) (v.r0 + t.1, v.c0 + t.2) := by
  obtain ⟨h1, h2, h3⟩ := ht
  have h2' : t.1 < v.h := h2
  have h3' : t.2 < v.w := h3
  refine ⟨⟨h1, ?_, ?_⟩, ?_⟩
  · show v.r0 + t.1 < c.H
    have := hin.1; omega
  · show v.c0 + t.2 < c.W
    have := hin.2; omega
  · unfold dT
    exact dist2_shift c hpl v _ _ _ _

/-- a target of the grid that lies in the window is a target of the window -/
theorem grid_target_in_window (c : Cfg) (tg : Nat → Nat → Bool) (v : Win) (t : Nat × Nat) (ht : IsTarget c tg t)
    (h1 : v.r0 ≤ t.1) (h2 : t.1 < v.r0 + v.h) (h3 : v.c0 ≤ t.2) (h4 : t.2 < v.c0 + v.w) :
    IsTarget (v.cfg c) (v.tg tg) (t.1 - v.r0, t.2 - v.c0) := by
  refine ⟨?_, ?_, ?_⟩
  · show tg (v.r0 + (t.1 - v.r0)) (v.c0 + (t.2 - v.c0)) = true
    have e1 : v.r0 + (t.1 - v.r0) = t.1 := by omega
    have e2 : v.c0 + (t.2 - v.c0) = t.2 := by omega
    rw [e1, e2]; exact ht.1
  · show t.1 - v.r0 < v.h
    omega
  · show t.2 - v.c0 < v.w
    omega

/-- a grid target within max_distance of a block cell lies in the block's halo window -/
theorem covered_target_in_haloWin (c : Cfg) (a0 a1 b0 b1 py px : Nat) (hc : HaloCovers c py px)
    (r p : Nat) (hr0 : a0 ≤ r) (hr1 : r < a1) (hp0 : b0 ≤ p) (hp1 : p < b1) (hH : a1 ≤ c.H) (hW : b1 ≤ c.W)
    (t : Nat × Nat) (ht1 : t.1 < c.H) (ht2 : t.2 < c.W)
    (hw : withinMax c (dist2 c t.1 t.2 r p) = true) :
    (haloWin c a0 a1 b0 b1 py px).r0 ≤ t.1 ∧
    t.1 < (haloWin c a0 a1 b0 b1 py px).r0 + (haloWin c a0 a1 b0 b1 py px).h ∧
    (haloWin c a0 a1 b0 b1 py px).c0 ≤ t.2 ∧
    t.2 < (haloWin c a0 a1 b0 b1 py px).c0 + (haloWin c a0 a1 b0 b1 py px).w := by
  obtain ⟨h1, h2⟩ := hc t.1 t.2 r p hw
  unfold adiff at h1 h2
  simp only [haloWin]
  refine ⟨by omega, by omega, by omega, by omega⟩

theorem haloWin_inside (c : Cfg) (a0 a1 b0 b1 py px : Nat) (h0 : a0 < a1) (h1 : b0 < b1) (hH : a1 ≤ c.H) (hW : b1 ≤ c.W) :
    (haloWin c a0 a1 b0 b1 py px).Inside c := by
  unfold Win.Inside haloWin
  simp only
  constructor <;> omega

/-! ### the exact nearest target cut at max_distance is window independent -/

theorem exact_some_of_target (c : Cfg) (tg : Nat → Nat → Bool) (r p : Nat) (t : Nat × Nat) (ht : IsTarget c tg t) :
    ∃ e, exact c tg r p = some e := by
  obtain ⟨e, he, _⟩ := exact_le c tg r p t ht
  exact ⟨e, he⟩

/-- **halo theorem for the proximity specification**: on the halo window of a block the exact nearest-target distance
    cut at max_distance is, at every cell of the block, the one of the whole grid -/
theorem exactCut_window (c : Cfg) (hpl : c.Planar) (tg : Nat → Nat → Bool) (a0 a1 b0 b1 py px : Nat)
    (hc : HaloCovers c py px) (hH : a1 ≤ c.H) (hW : b1 ≤ c.W)
    (r p : Nat) (hr0 : a0 ≤ r) (hr1 : r < a1) (hp0 : b0 ≤ p) (hp1 : p < b1) :
    exactCut ((haloWin c a0 a1 b0 b1 py px).cfg c) ((haloWin c a0 a1 b0 b1 py px).tg tg)
      (r - (haloWin c a0 a1 b0 b1 py px).r0) (p - (haloWin c a0 a1 b0 b1 py px).c0) = exactCut c tg r p := by
  generalize hv : haloWin c a0 a1 b0 b1 py px = v
  have hin : v.Inside c := by rw [← hv]; exact haloWin_inside c a0 a1 b0 b1 py px (by omega) (by omega) hH hW
  have hr : v.r0 + (r - v.r0) = r := by rw [← hv]; simp only [haloWin]; omega
  have hp : v.c0 + (p - v.c0) = p := by rw [← hv]; simp only [haloWin]; omega
  -- distances from the cell, seen from the window
  have hA : ∀ t, IsTarget (v.cfg c) (v.tg tg) t →
      IsTarget c tg (v.r0 + t.1, v.c0 + t.2) ∧
        dT (v.cfg c) (r - v.r0) (p - v.c0) t = dT c r p (v.r0 + t.1, v.c0 + t.2) := by
    intro t ht
    have := win_target_is_grid_target c hpl tg v hin t ht (r - v.r0) (p - v.c0)
    rw [hr, hp] at this
    exact this
  have hB : ∀ t, IsTarget c tg t → withinMax c (dT c r p t) = true →
      ∃ t', IsTarget (v.cfg c) (v.tg tg) t' ∧ dT (v.cfg c) (r - v.r0) (p - v.c0) t' = dT c r p t := by
    intro t ht hw
    have hcov := covered_target_in_haloWin c a0 a1 b0 b1 py px hc r p hr0 hr1 hp0 hp1 hH hW t ht.2.1 ht.2.2 hw
    rw [hv] at hcov
    obtain ⟨g1, g2, g3, g4⟩ := hcov
    have ht' := grid_target_in_window c tg v t ht g1 g2 g3 g4
    refine ⟨_, ht', ?_⟩
    have := (hA _ ht').2
    rw [this]
    have e1 : v.r0 + (t.1 - v.r0) = t.1 := by omega
    have e2 : v.c0 + (t.2 - v.c0) = t.2 := by omega
    show dT c r p (v.r0 + (t.1 - v.r0), v.c0 + (t.2 - v.c0)) = dT c r p t
    rw [e1, e2]
  unfold exactCut
  cases hew : exact c tg r p with
  | none =>
    -- no target in the grid: none in the window
    have hnone := exact_none c tg r p hew
    cases hev : exact (v.cfg c) (v.tg tg) (r - v.r0) (p - v.c0) with
    | none => rfl
    | some e' =>
      obtain ⟨t', ht', _⟩ := exact_attained _ _ _ _ e' hev
      exact absurd (hA t' ht').1 (hnone _)
  | some e =>
    obtain ⟨t, ht, het⟩ := exact_attained c tg r p e hew
    by_cases hw : withinMax c e = true
    · -- the nearest target is within max_distance: it lies in the window and is nearest there too
      obtain ⟨t', ht', hd'⟩ := hB t ht (by rw [← het]; exact hw)
      obtain ⟨e', hev, hle⟩ := exact_le (v.cfg c) (v.tg tg) (r - v.r0) (p - v.c0) t' ht'
      obtain ⟨t'', ht'', het''⟩ := exact_attained _ _ _ _ e' hev
      obtain ⟨hg, hd''⟩ := hA t'' ht''
      obtain ⟨e0, he0, hle0⟩ := exact_le c tg r p _ hg
      rw [hew] at he0
      cases he0
      have hee : e' = e := by omega
      rw [hev]
      simp only [withinMax_cfg, hee, hw, if_true]
    · -- the nearest target is beyond max_distance: whatever the window's nearest target is, it is too
      simp only [hw]
      cases hev : exact (v.cfg c) (v.tg tg) (r - v.r0) (p - v.c0) with
      | none => rfl
      | some e' =>
        obtain ⟨t'', ht'', het''⟩ := exact_attained _ _ _ _ e' hev
        obtain ⟨hg, hd''⟩ := hA t'' ht''
        obtain ⟨e0, he0, hle0⟩ := exact_le c tg r p _ hg
        rw [hew] at he0
        cases he0
        have hno : ¬ withinMax (v.cfg c) e' = true := by
          intro h
          rw [withinMax_cfg] at h
          exact hw (withinMax_anti c e e' (by omega) h)
        simp only [hno]
        rfl

/-! ### grids with at most one target: the sweep itself is window independent -/

/-- no target: every output is NaN -/
theorem noTarget_none (c : Cfg) (hrefl : c.Refl) (tg : Nat → Nat → Bool) (hno : ∀ t, ¬ IsTarget c tg t)
    (r p : Nat) (hr : r < c.H) (hp : p < c.W) :
    proxAt (run c tg) r p = none ∧ allocAt (run c tg) r p = none := by
  have hs := run_cell_sound c tg hrefl r p hr hp
  have h1 : proxAt (run c tg) r p = none := by
    cases hl : proxAt (run c tg) r p with
    | none => rfl
    | some d =>
      obtain ⟨t, _, hT, _⟩ := hs.1 d hl
      exact absurd hT (hno t)
  exact ⟨h1, hs.2 h1⟩

/-- exactly one target `t0`, planar metric, positive steps: the sweep is exact (the argument of C06 `single_target_exact`,
    restated here so that Props/C07.lean does not depend on Props/C06.lean) -/
theorem single_target_cut (c : Cfg) (tg : Nat → Nat → Bool) (hpl : c.Planar) (hsx : 0 < c.sx) (hsy : 0 < c.sy)
    (t0 : Nat × Nat) (ht0 : IsTarget c tg t0) (huniq : ∀ t, IsTarget c tg t → t = t0)
    (r p : Nat) (hr : r < c.H) (hp : p < c.W) : proxAt (run c tg) r p = exactCut c tg r p := by
  have hrefl := planar_refl c hpl
  have hex : exact c tg r p = some (dist2 c t0.1 t0.2 r p) := by
    obtain ⟨e, he, _⟩ := exact_le c tg r p t0 ht0
    obtain ⟨t, hT, het⟩ := exact_attained c tg r p e he
    rw [huniq t hT] at het
    rw [he, het]; rfl
  have hcut : exactCut c tg r p =
      (if withinMax c (dist2 c t0.1 t0.2 r p) then some (dist2 c t0.1 t0.2 r p) else none) := by
    unfold exactCut; rw [hex]
  rw [hcut]
  cases hl : proxAt (run c tg) r p with
  | some d =>
    obtain ⟨t, _, hT, hd, hw⟩ := (run_cell_sound c tg hrefl r p hr hp).1 d hl
    rw [huniq t hT] at hd
    rw [hd] at hw ⊢
    unfold dT at hw ⊢
    simp [hw]
  | none =>
    by_cases hw : withinMax c (dist2 c t0.1 t0.2 r p) = true
    · exfalso
      have hne : ∃ d, proxAt (run c tg) r p = some d := by
        by_cases hself : dist2 c t0.1 t0.2 r p = 0
        · obtain ⟨h1, h2⟩ := planar_sep c hpl hsx hsy _ _ _ _ hself
          exact ⟨0, run_zero c tg r p hr hp (by rw [← h1, ← h2]; exact ht0.1)⟩
        · have hbound : ∀ row q, adiff t0.1 row ≤ adiff t0.1 r → adiff t0.2 q ≤ adiff t0.2 p →
              Good c tg row q := by
            intro row q h1 h2 t hT
            rw [huniq t hT]
            have hm' : dist2 c t0.1 t0.2 row q ≤ dist2 c t0.1 t0.2 r p := planar_mono c hpl _ _ _ _ _ _ h1 h2
            unfold withinMax at hw
            unfold ltOpt dT
            cases hm : c.max2x2 with
            | none => rfl
            | some m =>
              rw [hm] at hw
              simp only [decide_eq_true_eq] at hw ⊢
              omega
          apply run_reach c tg t0.1 t0.2 r p ht0 hr hp
          · intro q _ hq
            exact hbound t0.1 q (by rw [adiff_self]; exact Nat.zero_le _) (by unfold adiff; omega)
          · intro row hrow
            exact hbound row p (by unfold adiff; omega) (Nat.le_refl _)
          · intro t hT
            rw [huniq t hT]; exact hw
      obtain ⟨d, hd⟩ := hne
      rw [hl] at hd; cases hd
    · simp [hw]

/-- no target: the exact answer is NaN as well -/
theorem noTarget_exactCut (c : Cfg) (tg : Nat → Nat → Bool) (hno : ∀ t, ¬ IsTarget c tg t) (r p : Nat) :
    exactCut c tg r p = none := by
  unfold exactCut
  cases he : exact c tg r p with
  | none => rfl
  | some e =>
    obtain ⟨t, ht, _⟩ := exact_attained c tg r p e he
    exact absurd ht (hno t)

/-- at most one target in the window when the grid has exactly one: the sweep on the window is exact -/
theorem window_run_exact_of_single (c : Cfg) (tg : Nat → Nat → Bool) (hpl : c.Planar) (hsx : 0 < c.sx) (hsy : 0 < c.sy)
    (t0 : Nat × Nat) (huniq : ∀ t, IsTarget c tg t → t = t0) (v : Win) (hin : v.Inside c)
    (r p : Nat) (hr : r < v.h) (hp : p < v.w) :
    proxAt (run (v.cfg c) (v.tg tg)) r p = exactCut (v.cfg c) (v.tg tg) r p := by
  have hplv : (v.cfg c).Planar := hpl
  by_cases hex : ∃ t', IsTarget (v.cfg c) (v.tg tg) t'
  · obtain ⟨t', ht'⟩ := hex
    apply single_target_cut (v.cfg c) (v.tg tg) hplv hsx hsy t' ht' _ r p hr hp
    intro t ht
    have h1 := huniq _ (win_target_is_grid_target c hpl tg v hin t ht 0 0).1
    have h2 := huniq _ (win_target_is_grid_target c hpl tg v hin t' ht' 0 0).1
    have h3 : (v.r0 + t.1, v.c0 + t.2) = (v.r0 + t'.1, v.c0 + t'.2) := h1.trans h2.symm
    have h4 := (Prod.mk.injEq _ _ _ _).mp h3
    apply Prod.ext <;> omega
  · have hno : ∀ t, ¬ IsTarget (v.cfg c) (v.tg tg) t := fun t ht => hex ⟨t, ht⟩
    rw [(noTarget_none (v.cfg c) (planar_refl _ hplv) (v.tg tg) hno r p hr hp).1, noTarget_exactCut _ _ hno]

end XrsVerif.Prox
