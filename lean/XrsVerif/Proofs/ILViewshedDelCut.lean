import XrsVerif.Proofs.ILViewshedFixRot
import XrsVerif.Proofs.ILViewshedDel
/-
  Proofs/ILViewshedDelCut.lean -- the cut of `delRest` (everything `Gen.IL.vsDelete` does after the choice of the node
  `y` to splice out; Proofs/ILViewshedDel.lean) into the blocks the refinement proofs are about:

    `delSplice`   `deleted = y`, `x` = `y`'s only child, `x.parent = y.parent`, the child cell of `y`'s parent (or `root`);
    `delL1`       loop L1;                 `delF1`   the recomputation F1;
    `delCopy`     the successor copy C;    `delL2`   loop L2;
    `delFixLoop`  the loop of `_rb_delete_fixup` with its six inlined rotations written as renamed copies of the
                  stand-alone programs (`rotCall Gen.IL.vsLeftRotate.body …`);
  `delRest_eq : delRest = delRest'` checks the cut by `decide` against the regenerated program.
-/
set_option linter.unusedSectionVars false
set_option linter.unusedVariables false
namespace XrsVerif.ILVs
open XrsVerif XrsVerif.IL XrsVerif.Viewshed

/-! ### the splice -/

def delGuard : St := (.ite (.cmpI .eq (.var "y") (.lit (-1))) (.fail "ValueError") .skip)

def delPickX : St :=
  (.ite (.cmpI .ne (.ld2 "tree_nodes" (.var "y") (.lit 1)) (.lit (-1)))
      (.setI "x" (.ld2 "tree_nodes" (.var "y") (.lit 1)))
      (.setI "x" (.ld2 "tree_nodes" (.var "y") (.lit 2))))

def delRelink : St :=
  (.ite (.cmpI .eq (.ld2 "tree_nodes" (.var "y") (.lit 3)) (.lit (-1)))
      (.seq (.setI "root" (.var "x")) (.setI "to_fix" (.var "root")))
      (.seq (.setI "y_parent" (.ld2 "tree_nodes" (.var "y") (.lit 3)))
      (.seq (.ite (.cmpI .eq (.var "y") (.ld2 "tree_nodes" (.var "y_parent") (.lit 1)))
          (.stI2 "tree_nodes" (.var "y_parent") (.lit 1) (.var "x"))
          (.stI2 "tree_nodes" (.var "y_parent") (.lit 2) (.var "x")))
      (.setI "to_fix" (.var "y_parent")))))

def delSpliceItems : List St :=
  [(.setI "deleted" (.var "y")),
   delPickX,
   (.stI2 "tree_nodes" (.var "x") (.lit 3) (.ld2 "tree_nodes" (.var "y") (.lit 3))),
   delRelink,
   (.setI "cur_node" (.var "y"))]

/-! ### the four passes -/

/-- `left = max(tree_vals[l]); right = max(tree_vals[r]); m = left if left > right else right;
    if minv > m: m = minv` at the node `p` -- the recomputation of the loops L1 and L2 -/
def recompLoop (p l r : String) (k1 k2 k3 : String) : St :=
  (.seq (.setI ("_find_max_value" ++ k1 ++ "$row$tree_vals") (.var l))
  (.seq (.scope (.seq (.setF ("_find_max_value" ++ k1 ++ "$ret0") (.ld2 "tree_vals" (.var ("_find_max_value" ++ k1 ++ "$row$tree_vals")) (.lit 7)))
      .ret))
  (.seq (.setF "left" (.var ("_find_max_value" ++ k1 ++ "$ret0")))
  (.seq (.setI ("_find_max_value" ++ k2 ++ "$row$tree_vals") (.var r))
  (.seq (.scope (.seq (.setF ("_find_max_value" ++ k2 ++ "$ret0") (.ld2 "tree_vals" (.var ("_find_max_value" ++ k2 ++ "$row$tree_vals")) (.lit 7)))
      .ret))
  (.seq (.setF "right" (.var ("_find_max_value" ++ k2 ++ "$ret0")))
  (.seq (stMax "tree_vals" (.var p) (.lit 7) (.var "left") (.var "right"))
  (.seq (.setI ("_find_value_min_value" ++ k3 ++ "$node_id") (.var p))
  (.seq (minvScope ("_find_value_min_value" ++ k3 ++ "$node_id") ("_find_value_min_value" ++ k3 ++ "$ret0"))
  (.seq (.setF "min_value" (.var ("_find_value_min_value" ++ k3 ++ "$ret0")))
  (.ite (.cmpF .gt (.var "min_value") (.ld2 "tree_vals" (.var p) (.lit 7)))
    (.stF2 "tree_vals" (.var p) (.lit 7) (.var "min_value"))
    .skip)))))))))))

def delL1Body : St :=
  (.seq (.setI "cur_parent" (.ld2 "tree_nodes" (.var "cur_node") (.lit 3)))
  (.seq (.setI "_find_value_min_value6$node_id" (.var "y"))
  (.seq (minvScope "_find_value_min_value6$node_id" "_find_value_min_value6$ret0")
  (.seq (.ite (.cmpF .eq (.ld2 "tree_vals" (.var "cur_parent") (.lit 7)) (.var "_find_value_min_value6$ret0"))
      (.seq (.setI "cur_parent_left" (.ld2 "tree_nodes" (.var "cur_parent") (.lit 1)))
      (.seq (.setI "cur_parent_right" (.ld2 "tree_nodes" (.var "cur_parent") (.lit 2)))
      (recompLoop "cur_parent" "cur_parent_left" "cur_parent_right" "7" "8" "9")))
      .brk)
  (.setI "cur_node" (.var "cur_parent"))))))

def delL1 : St := .while (.cmpI .ne (.ld2 "tree_nodes" (.var "cur_node") (.lit 3)) (.lit (-1))) delL1Body

/-- `tmp_max = max of the children's maxima; tree_vals[to_fix][7] = tmp_max if tmp_max > minv else minv` -/
def recompFixItems (k : String) : List St :=
  [(.setI "to_fix_left" (.ld2 "tree_nodes" (.var "to_fix") (.lit 1))),
   (.setI "to_fix_right" (.ld2 "tree_nodes" (.var "to_fix") (.lit 2))),
   (selMax "tmp_max" (.ld2 "tree_vals" (.var "to_fix_left") (.lit 7)) (.ld2 "tree_vals" (.var "to_fix_right") (.lit 7))),
   (.setI ("_find_value_min_value" ++ k ++ "$node_id") (.var "to_fix")),
   (minvScope ("_find_value_min_value" ++ k ++ "$node_id") ("_find_value_min_value" ++ k ++ "$ret0")),
   (.setF "min_value" (.var ("_find_value_min_value" ++ k ++ "$ret0"))),
   (stMax "tree_vals" (.var "to_fix") (.lit 7) (.var "tmp_max") (.var "min_value"))]

def delCopyColsItems : List St :=
  [(.stF2 "tree_vals" (.var "z") (.lit 0) (.ld2 "tree_vals" (.var "y") (.lit 0))),
   (.stF2 "tree_vals" (.var "z") (.lit 1) (.ld2 "tree_vals" (.var "y") (.lit 1))),
   (.stF2 "tree_vals" (.var "z") (.lit 2) (.ld2 "tree_vals" (.var "y") (.lit 2))),
   (.stF2 "tree_vals" (.var "z") (.lit 3) (.ld2 "tree_vals" (.var "y") (.lit 3))),
   (.stF2 "tree_vals" (.var "z") (.lit 4) (.ld2 "tree_vals" (.var "y") (.lit 4))),
   (.stF2 "tree_vals" (.var "z") (.lit 5) (.ld2 "tree_vals" (.var "y") (.lit 5))),
   (.stF2 "tree_vals" (.var "z") (.lit 6) (.ld2 "tree_vals" (.var "y") (.lit 6)))]

def delL2Body : St :=
  (.seq (.setI "z_parent" (.ld2 "tree_nodes" (.var "z") (.lit 3)))
  (.seq (.ite (.cmpF .eq (.ld2 "tree_vals" (.var "z_parent") (.lit 7)) (.var "z_gradient"))
      (.seq (.setI "z_parent_left" (.ld2 "tree_nodes" (.var "z_parent") (.lit 1)))
      (.seq (.setI "z_parent_right" (.ld2 "tree_nodes" (.var "z_parent") (.lit 2)))
      (.seq (.setI "x_parent" (.ld2 "tree_nodes" (.var "x") (.lit 3)))
      (.seq (.setI "x_parent_right" (.ld2 "tree_nodes" (.var "x_parent") (.lit 2)))
      (.seq (.setI "_find_value_min_value13$node_id" (.var "z_parent"))
      (.seq (minvScope "_find_value_min_value13$node_id" "_find_value_min_value13$ret0")
      (.ite (.and (.cmpF .ne (.var "_find_value_min_value13$ret0") (.var "z_gradient")) (.not (.and (.cmpF .eq (.ld2 "tree_vals" (.var "z_parent_left") (.lit 7)) (.var "z_gradient")) (.cmpF .eq (.ld2 "tree_vals" (.var "x_parent_right") (.lit 7)) (.var "z_gradient")))))
        (recompLoop "z_parent" "z_parent_left" "z_parent_right" "14" "15" "16")
        .skip)))))))
      (.ite (.cmpF .gt (.ld2 "tree_vals" (.var "z") (.lit 7)) (.ld2 "tree_vals" (.var "z_parent") (.lit 7)))
        (.stF2 "tree_vals" (.var "z_parent") (.lit 7) (.ld2 "tree_vals" (.var "z") (.lit 7)))
        .skip))
  (.setI "z" (.var "z_parent"))))

def delL2 : St := .while (.cmpI .ne (.ld2 "tree_nodes" (.var "z") (.lit 3)) (.lit (-1))) delL2Body

def delCopy : St :=
  (.ite (.and (.cmpI .ne (.var "y") (.lit (-1))) (.cmpI .ne (.var "y") (.var "z")))
      (seqK [(.setI "_find_value_min_value11$node_id" (.var "z")),
             (minvScope "_find_value_min_value11$node_id" "_find_value_min_value11$ret0"),
             (.setF "z_gradient" (.var "_find_value_min_value11$ret0"))]
        (seqK delCopyColsItems
          (.seq (.setI "to_fix" (.var "z"))
          (seqK (recompFixItems "12") delL2))))
      .skip)

/-! ### `_rb_delete_fixup` -/

def dren18 : String → String := rotRen "_rb_delete_fixup17$_left_rotate18$" "19" "20"
def dren21 : String → String := rotRen "_rb_delete_fixup17$_right_rotate21$" "22" "23"
def dren24 : String → String := rotRen "_rb_delete_fixup17$_left_rotate24$" "25" "26"
def dren27 : String → String := rotRen "_rb_delete_fixup17$_right_rotate27$" "28" "29"
def dren30 : String → String := rotRen "_rb_delete_fixup17$_left_rotate30$" "31" "32"
def dren33 : String → String := rotRen "_rb_delete_fixup17$_right_rotate33$" "34" "35"

/-- an inlined rotation call followed by `k` (the translator nests to the right) -/
def rotCallK (body : St) (ρ : String → String) (param root arg : String) (k : St) : St :=
  (.seq (.setI (ρ "root") (.var root))
  (.seq (.setI (ρ param) (.var arg))
  (.seq (.scope (renS ρ body))
  (.seq (.setI root (.var (ρ "ret0"))) k))))

theorem exec_rotCallK {F : Type} [Fl F] (body : St) (ρ : String → String) (param root arg : String) (k : St) (fuel : Nat)
    (s : State F) : exec fuel (rotCallK body ρ param root arg k) s = exec fuel (.seq (rotCall body ρ param root arg) k) s := by
  simp only [rotCallK, rotCall, exec_seq]
  split <;> rename_i h1
  · split <;> rename_i h2
    · split <;> rename_i h3
      · simp [h1, h2, h3]
      · simp [h1, h2, h3]
    · simp [h1, h2]
  · simp [h1]

def dlrot18 (k : St) : St := rotCallK Gen.IL.vsLeftRotate.body dren18 "x" "_rb_delete_fixup17$root" "_rb_delete_fixup17$x_parent" k
def drrot21 (k : St) : St := rotCallK Gen.IL.vsRightRotate.body dren21 "y" "_rb_delete_fixup17$root" "_rb_delete_fixup17$w" k
def dlrot24 (k : St) : St := rotCallK Gen.IL.vsLeftRotate.body dren24 "x" "_rb_delete_fixup17$root" "_rb_delete_fixup17$x_parent" k
def drrot27 (k : St) : St := rotCallK Gen.IL.vsRightRotate.body dren27 "y" "_rb_delete_fixup17$root" "_rb_delete_fixup17$x_parent" k
def dlrot30 (k : St) : St := rotCallK Gen.IL.vsLeftRotate.body dren30 "x" "_rb_delete_fixup17$root" "_rb_delete_fixup17$w" k
def drrot33 (k : St) : St := rotCallK Gen.IL.vsRightRotate.body dren33 "y" "_rb_delete_fixup17$root" "_rb_delete_fixup17$x_parent" k

/-- case 1: the sibling `w` is red (`side` = the column of the sibling in the parent) -/
def dfCase1 (side : Int) (rot : St → St) : St :=
  (.ite (.cmpI .eq (.ld2 "tree_nodes" (.var "_rb_delete_fixup17$w") (.lit 0)) (.lit 0))
    (.seq (.stI2 "tree_nodes" (.var "_rb_delete_fixup17$w") (.lit 0) (.lit 1))
    (.seq (.stI2 "tree_nodes" (.var "_rb_delete_fixup17$x_parent") (.lit 0) (.lit 0))
    (rot
    (.setI "_rb_delete_fixup17$w" (.ld2 "tree_nodes" (.var "_rb_delete_fixup17$x_parent") (.lit side))))))
    .skip)

/-- case 2: both children of the sibling are black -/
def dfCase2L : St :=
  (.seq (.stI2 "tree_nodes" (.var "_rb_delete_fixup17$w") (.lit 0) (.lit 0))
  (.setI "_rb_delete_fixup17$x" (.ld2 "tree_nodes" (.var "_rb_delete_fixup17$x") (.lit 3))))

def dfCase2R : St :=
  (.seq (.stI2 "tree_nodes" (.var "_rb_delete_fixup17$w") (.lit 0) (.lit 0))
  (.setI "_rb_delete_fixup17$x" (.var "_rb_delete_fixup17$x_parent")))

def dfLeft : St :=
  (.seq (.setI "_rb_delete_fixup17$w" (.ld2 "tree_nodes" (.var "_rb_delete_fixup17$x_parent") (.lit 2)))
  (.seq (dfCase1 2 dlrot18)
  (.seq (.ite (.cmpI .eq (.var "_rb_delete_fixup17$w") (.lit (-1)))
      (.seq (.setI "_rb_delete_fixup17$x" (.ld2 "tree_nodes" (.var "_rb_delete_fixup17$x") (.lit 3)))
      .cont)
      .skip)
  (.seq (.setI "_rb_delete_fixup17$w_left" (.ld2 "tree_nodes" (.var "_rb_delete_fixup17$w") (.lit 1)))
  (.seq (.setI "_rb_delete_fixup17$w_right" (.ld2 "tree_nodes" (.var "_rb_delete_fixup17$w") (.lit 2)))
  (.ite (.and (.cmpI .eq (.ld2 "tree_nodes" (.var "_rb_delete_fixup17$w_left") (.lit 0)) (.lit 1)) (.cmpI .eq (.ld2 "tree_nodes" (.var "_rb_delete_fixup17$w_right") (.lit 0)) (.lit 1)))
    dfCase2L
    (.seq (.ite (.cmpI .eq (.ld2 "tree_nodes" (.var "_rb_delete_fixup17$w_right") (.lit 0)) (.lit 1))
        (.seq (.stI2 "tree_nodes" (.var "_rb_delete_fixup17$w_left") (.lit 0) (.lit 1))
        (.seq (.stI2 "tree_nodes" (.var "_rb_delete_fixup17$w") (.lit 0) (.lit 0))
        (drrot21
        (.seq (.setI "_rb_delete_fixup17$x_parent" (.ld2 "tree_nodes" (.var "_rb_delete_fixup17$x") (.lit 3)))
        (.setI "_rb_delete_fixup17$w" (.ld2 "tree_nodes" (.var "_rb_delete_fixup17$x_parent") (.lit 2)))))))
        .skip)
    (.seq (.setI "_rb_delete_fixup17$x_parent" (.ld2 "tree_nodes" (.var "_rb_delete_fixup17$x") (.lit 3)))
    (.seq (.setI "_rb_delete_fixup17$w_right" (.ld2 "tree_nodes" (.var "_rb_delete_fixup17$w") (.lit 2)))
    (.seq (.stI2 "tree_nodes" (.var "_rb_delete_fixup17$w") (.lit 0) (.ld2 "tree_nodes" (.var "_rb_delete_fixup17$x_parent") (.lit 0)))
    (.seq (.stI2 "tree_nodes" (.var "_rb_delete_fixup17$x_parent") (.lit 0) (.lit 1))
    (.seq (.stI2 "tree_nodes" (.var "_rb_delete_fixup17$w_right") (.lit 0) (.lit 1))
    (dlrot24
    (.setI "_rb_delete_fixup17$x" (.var "_rb_delete_fixup17$root")))))))))))))))

def dfRight : St :=
  (.seq (.setI "_rb_delete_fixup17$x_parent" (.ld2 "tree_nodes" (.var "_rb_delete_fixup17$x") (.lit 3)))
  (.seq (.setI "_rb_delete_fixup17$w" (.ld2 "tree_nodes" (.var "_rb_delete_fixup17$x_parent") (.lit 1)))
  (.seq (dfCase1 1 drrot27)
  (.seq (.ite (.cmpI .eq (.var "_rb_delete_fixup17$w") (.lit (-1)))
      (.seq (.setI "_rb_delete_fixup17$x" (.var "_rb_delete_fixup17$x_parent"))
      .cont)
      .skip)
  (.seq (.setI "_rb_delete_fixup17$w_left" (.ld2 "tree_nodes" (.var "_rb_delete_fixup17$w") (.lit 1)))
  (.seq (.setI "_rb_delete_fixup17$w_right" (.ld2 "tree_nodes" (.var "_rb_delete_fixup17$w") (.lit 2)))
  (.seq (.setI "_rb_delete_fixup17$x_parent" (.ld2 "tree_nodes" (.var "_rb_delete_fixup17$x") (.lit 3)))
  (.ite (.and (.cmpI .eq (.ld2 "tree_nodes" (.var "_rb_delete_fixup17$w_right") (.lit 0)) (.lit 1)) (.cmpI .eq (.ld2 "tree_nodes" (.var "_rb_delete_fixup17$w_left") (.lit 0)) (.lit 1)))
    dfCase2R
    (.seq (.ite (.cmpI .eq (.ld2 "tree_nodes" (.var "_rb_delete_fixup17$w_left") (.lit 0)) (.lit 1))
        (.seq (.stI2 "tree_nodes" (.var "_rb_delete_fixup17$w_right") (.lit 0) (.lit 1))
        (.seq (.stI2 "tree_nodes" (.var "_rb_delete_fixup17$w") (.lit 0) (.lit 0))
        (dlrot30
        (.setI "_rb_delete_fixup17$w" (.ld2 "tree_nodes" (.var "_rb_delete_fixup17$x_parent") (.lit 1))))))
        .skip)
    (.seq (.stI2 "tree_nodes" (.var "_rb_delete_fixup17$w") (.lit 0) (.ld2 "tree_nodes" (.var "_rb_delete_fixup17$x_parent") (.lit 0)))
    (.seq (.stI2 "tree_nodes" (.var "_rb_delete_fixup17$x_parent") (.lit 0) (.lit 1))
    (.seq (.setI "_rb_delete_fixup17$w_left" (.ld2 "tree_nodes" (.var "_rb_delete_fixup17$w") (.lit 1)))
    (.seq (.stI2 "tree_nodes" (.var "_rb_delete_fixup17$w_left") (.lit 0) (.lit 1))
    (drrot33
    (.setI "_rb_delete_fixup17$x" (.var "_rb_delete_fixup17$root"))))))))))))))))

def delFixBody : St :=
  (.seq (.setI "_rb_delete_fixup17$x_parent" (.ld2 "tree_nodes" (.var "_rb_delete_fixup17$x") (.lit 3)))
  (.ite (.cmpI .eq (.var "_rb_delete_fixup17$x") (.ld2 "tree_nodes" (.var "_rb_delete_fixup17$x_parent") (.lit 1)))
    dfLeft
    dfRight))

def delFixLoop : St :=
  .while (.and (.cmpI .ne (.var "_rb_delete_fixup17$x") (.var "_rb_delete_fixup17$root"))
    (.cmpI .eq (.ld2 "tree_nodes" (.var "_rb_delete_fixup17$x") (.lit 0)) (.lit 1))) delFixBody

def delFixEnd : St :=
  (.seq (.stI2 "tree_nodes" (.var "_rb_delete_fixup17$x") (.lit 0) (.lit 1))
  (.seq (.setI "_rb_delete_fixup17$ret0" (.var "_rb_delete_fixup17$root")) .ret))

def delFixCall : St :=
  (.ite (.and (.cmpI .eq (.ld2 "tree_nodes" (.var "y") (.lit 0)) (.lit 1)) (.cmpI .ne (.var "x") (.lit (-1))))
      (.seq (.setI "_rb_delete_fixup17$root" (.var "root"))
      (.seq (.setI "_rb_delete_fixup17$x" (.var "x"))
      (.seq (.scope (.seq delFixLoop delFixEnd))
      (.setI "root" (.var "_rb_delete_fixup17$ret0")))))
      .skip)

def delEnd : St := (.seq (.setI "ret0" (.var "root")) (.seq (.setI "ret1" (.var "deleted")) .ret))

def delRest' : St :=
  (.seq delGuard
  (seqK delSpliceItems
  (.seq delL1
  (seqK (recompFixItems "10")
  (.seq delCopy
  (.seq delFixCall
  delEnd))))))

set_option maxRecDepth 100000 in
/-- the cut is the regenerated program -/
theorem delRest_eq : delRest = delRest' := by decide

end XrsVerif.ILVs
