import XrsVerif.Proofs.ILVsInit
import XrsVerif.Proofs.ILVsVang
import XrsVerif.Proofs.NV
/-
  Proofs/ILVsNV.lean -- the refinement theorems of the generated event functions at the proof-side number domain
  `NV K` (`none` = NaN): the two laws `LitOK`, `HalfOK` hold there; on NaN-free terrains over ℚ the generated corner
  elevation is `Model/ViewshedEvents.cornerElev` and an event record is the model's `mkEvent`.
-/
namespace XrsVerif.ILSw
open XrsVerif XrsVerif.IL XrsVerif.ViewshedEvents
set_option linter.unusedSectionVars false
set_option linter.unusedSimpArgs false
set_option linter.unusedVariables false

section NV
variable {K : Type} [Field K] [LinearOrder K] [IsStrictOrderedRing K] [Trig K]

/-- the event codes compare as integers at the proof-side number domain -/
theorem litOK_NV : LitOK (NV K) := by
  intro ty hty
  rcases hty with rfl | rfl | rfl <;> simp
  intro h; have : (-1 : K) < 1 := by linarith [zero_lt_one (α := K)]
  rw [h] at this; exact lt_irrefl _ this

theorem halfF_NV (i o : Int) (ho : o = 1 ∨ o = 0 ∨ o = -1) : (halfF i o : NV K) = some ((2 * (i : K) + (o : K)) / 2) := by
  rcases ho with rfl | rfl | rfl <;> simp [halfF] <;> ring

/-- half a cell is less than a cell -/
theorem halfOK_NV : HalfOK (NV K) := by
  intro i o ho
  rw [halfF_NV i o ho]
  rcases ho with rfl | rfl | rfl <;> simp <;> rw [abs_lt] <;> constructor <;> linarith

end NV

section Rat
variable [Trig ℚ]

/-- a NaN-free terrain at the proof-side number domain -/
def embT (T : Int → Int → ℚ) : Int → Int → NV ℚ := fun r c => some (T r c)

/-- on NaN-free terrains the generated corner elevation is the model's `cornerElev` -/
theorem cornerElevF_model (T : Int → Int → ℚ) (h w : Nat) (vr vc ty row col : Int) :
    cornerElevF (embT T) h w vr vc ty row col = some (cornerElev T h w vr vc ty row col) := by
  unfold cornerElevF cornerElev
  by_cases hin : 0 ≤ row + (nbOff ty (row - vr) (col - vc)).1 ∧ row + (nbOff ty (row - vr) (col - vc)).1 < (h : Int) ∧
      0 ≤ col + (nbOff ty (row - vr) (col - vc)).2 ∧ col + (nbOff ty (row - vr) (col - vc)).2 < (w : Int)
  · simp only [hin, and_self, if_true]
    simp [cornerVal, embT]
  · simp only [hin, if_false]
    simp [embT]

/-- **the record the generated `_init_event_list` writes for an event is the model's event** `mkEvent`: row, column, type, the
    three elevations; its bearing field is `_calculate_angle` of the model's event point `(x2 / 2, y2 / 2)` -/
theorem evRowF_model (T : Int → Int → ℚ) (h w : Nat) (vr vc i j ty : Int) (hty : ty = 1 ∨ ty = 0 ∨ ty = -1) :
    let e := mkEvent T h w vr vc i j ty
    evRowF (embT T) h w vr vc i j ty =
      [some (e.row : ℚ), some (e.col : ℚ), some (e.ty : ℚ),
        angF (some ((e.x2 : ℚ) / 2)) (some ((e.y2 : ℚ) / 2)) (some (vc : ℚ)) (some (vr : ℚ)),
        some e.e0, some e.e1, some e.e2] := by
  have hm : ((posOff ty (i - vr) (j - vc)).1 = 1 ∨ (posOff ty (i - vr) (j - vc)).1 = 0 ∨ (posOff ty (i - vr) (j - vc)).1 = -1) ∧
      ((posOff ty (i - vr) (j - vc)).2 = 1 ∨ (posOff ty (i - vr) (j - vc)).2 = 0 ∨ (posOff ty (i - vr) (j - vc)).2 = -1) := by
    by_cases h0 : ty = 0
    · subst h0; simp [posOff_centre]
    · rw [posOff_eq_offOf _ _ _ h0]; exact offOf_mem _ _ _
  simp only [evRowF, mkEvent, bearingF, cornerElevF_model, halfF_NV _ _ hm.1, halfF_NV _ _ hm.2]
  simp [embT]
end Rat
end XrsVerif.ILSw
