import XrsVerif.Proofs.ILang
/-
  Proofs/ILangRegions.lean -- further generic lemmas about the ILang interpreter, used by the refinement proof
  of `Gen.IL.areaConnectivity` (Proofs/ILRegions*.lean).  Own namespace `XrsVerif.IL.Rg` so that nothing
  clashes with the lemma files of the other refinement proofs.

  * `exec_*`: the equation lemmas of `exec`, one per statement form, as rewrite rules;
  * `IE.eval_congr / IE.ok_congr`: an integer expression only sees `ienv`, `shp`, `ia`;
  * `seqL`: a right-nested sequence `a₀; (a₁; (… ; aₙ))` as a list;
  * `loopOver_foldl`: a loop without early exit as a fold over an abstraction of the state;
  * `exec_forRange_nat`: `for v in range(0, hi)` with `hi = n ≥ 0`;
  * index lemmas for non-negative integer indices.
-/
namespace XrsVerif.IL.Rg
open XrsVerif XrsVerif.IL
variable {F : Type} [Fl F]
set_option linter.unusedSectionVars false
set_option linter.unusedVariables false

/-! ### equation lemmas -/

theorem exec_skip (fuel : Nat) (s : State F) : exec fuel .skip s = s := by simp only [exec]

theorem exec_seq (fuel : Nat) (a b : St) (s : State F) :
    exec fuel (.seq a b) s = if (exec fuel a s).ctl = .run then exec fuel b (exec fuel a s) else exec fuel a s := by
  simp only [exec]

/-- `a; b` when the state after `a` is known and still running -/
theorem exec_seq_eq (fuel : Nat) (a b : St) (s s1 : State F) (h : exec fuel a s = s1) (hc : s1.ctl = .run) :
    exec fuel (.seq a b) s = exec fuel b s1 := by
  simp only [exec, h, hc, if_true]

theorem exec_seq_stop (fuel : Nat) (a b : St) (s s1 : State F) (h : exec fuel a s = s1) (hc : s1.ctl ≠ .run) :
    exec fuel (.seq a b) s = s1 := by
  simp only [exec, h, hc, if_false]

theorem exec_setI (fuel : Nat) (v : String) (e : IE) (s : State F) :
    exec fuel (.setI v e) s = if e.ok s then { s with ienv := setS s.ienv v (e.eval s) } else s.error "index" := by
  simp only [exec]

theorem exec_setF (fuel : Nat) (v : String) (e : FE) (s : State F) :
    exec fuel (.setF v e) s = if e.ok s then { s with fenv := setS s.fenv v (e.eval s) } else s.error "index" := by
  simp only [exec]

theorem exec_setB (fuel : Nat) (v : String) (c : BE) (s : State F) :
    exec fuel (.setB v c) s = if c.ok s then { s with benv := setS s.benv v (c.eval s) } else s.error "index" := by
  simp only [exec]

theorem exec_ite (fuel : Nat) (c : BE) (t f : St) (s : State F) :
    exec fuel (.ite c t f) s =
      if c.ok s then (if c.eval s then exec fuel t s else exec fuel f s) else s.error "index" := by
  simp only [exec]

theorem exec_brk (fuel : Nat) (s : State F) : exec fuel .brk s = { s with ctl := .brk } := by simp only [exec]
theorem exec_cont (fuel : Nat) (s : State F) : exec fuel .cont s = { s with ctl := .cont } := by simp only [exec]
theorem exec_ret (fuel : Nat) (s : State F) : exec fuel .ret s = { s with ctl := .ret } := by simp only [exec]

theorem exec_stF1 (fuel : Nat) (a : String) (i : IE) (e : FE) (s : State F) :
    exec fuel (.stF1 a i e) s =
      if i.ok s && e.ok s && decide ((s.shp a).length = 1) && inRange (i.eval s) ((s.shp a).getD 0 0) then
        { s with fa := setS s.fa a ((s.fa a).set (off1 (s.shp a) (i.eval s)) (e.eval s)) }
      else s.error "index" := by
  simp only [exec]

theorem exec_stF2 (fuel : Nat) (a : String) (i j : IE) (e : FE) (s : State F) :
    exec fuel (.stF2 a i j e) s =
      if i.ok s && j.ok s && e.ok s && decide ((s.shp a).length = 2) &&
          inRange (i.eval s) ((s.shp a).getD 0 0) && inRange (j.eval s) ((s.shp a).getD 1 0) then
        { s with fa := setS s.fa a ((s.fa a).set (off2 (s.shp a) (i.eval s) (j.eval s)) (e.eval s)) }
      else s.error "index" := by
  simp only [exec]

theorem exec_stI1 (fuel : Nat) (a : String) (i : IE) (e : IE) (s : State F) :
    exec fuel (.stI1 a i e) s =
      if i.ok s && e.ok s && decide ((s.shp a).length = 1) && inRange (i.eval s) ((s.shp a).getD 0 0) then
        { s with ia := setS s.ia a ((s.ia a).set (off1 (s.shp a) (i.eval s)) (e.eval s)) }
      else s.error "index" := by
  simp only [exec]

theorem exec_allocF (fuel : Nat) (a : String) (dims : List IE) (fill : FE) (s : State F) :
    exec fuel (.allocF a dims fill) s =
      if dims.all (·.ok s) && fill.ok s && dims.all (fun d => decide (0 ≤ d.eval s)) then
        { s with shp := setS s.shp a (dims.map fun d => (d.eval s).toNat),
                 fa := setS s.fa a (List.replicate ((dims.map fun d => (d.eval s).toNat).foldl (· * ·) 1) (fill.eval s)) }
      else s.error "alloc" := by
  simp only [exec]

theorem exec_allocI (fuel : Nat) (a : String) (dims : List IE) (fill : IE) (s : State F) :
    exec fuel (.allocI a dims fill) s =
      if dims.all (·.ok s) && fill.ok s && dims.all (fun d => decide (0 ≤ d.eval s)) then
        { s with shp := setS s.shp a (dims.map fun d => (d.eval s).toNat),
                 ia := setS s.ia a (List.replicate ((dims.map fun d => (d.eval s).toNat).foldl (· * ·) 1) (fill.eval s)) }
      else s.error "alloc" := by
  simp only [exec]

theorem exec_forRange (fuel : Nat) (v : String) (lo hi step : IE) (body : St) (s : State F) :
    exec fuel (.forRange v lo hi step body) s =
      if lo.ok s && hi.ok s && step.ok s && decide (step.eval s ≠ 0) then
        loopOver (fun st i => exec fuel body { st with ienv := setS st.ienv v i })
          (rangeList (lo.eval s) (hi.eval s) (step.eval s)) s
      else s.error "index" := by
  simp only [exec]

/-- `for v in range(0, hi)` with `hi = n ≥ 0` -/
theorem exec_forRange_nat (fuel : Nat) (v : String) (hi : IE) (body : St) (s : State F) (n : Nat)
    (hok : hi.ok s = true) (hn : hi.eval s = (n : Int)) :
    exec fuel (.forRange v (.lit 0) hi (.lit 1) body) s =
      loopOver (fun st i => exec fuel body { st with ienv := setS st.ienv v i })
        ((List.range n).map (fun (k : Nat) => (k : Int))) s := by
  simp only [exec, IE.ok, IE.eval, hok, hn, rangeList_up]
  simp

/-! ### environments -/

theorem setS_self {α} (env : String → α) (v : String) : setS env v (env v) = env := by
  funext w; simp only [setS]; split <;> simp_all

theorem setS_setS {α} (env : String → α) (v : String) (x y : α) : setS (setS env v x) v y = setS env v y := by
  funext w; simp only [setS]; split <;> rfl

/-! ### what an integer expression can see -/

theorem IE.eval_congr (e : IE) (s t : State F) (h1 : s.ienv = t.ienv) (h2 : s.shp = t.shp) (h3 : s.ia = t.ia) :
    e.eval s = e.eval t := by
  induction e with
  | lit n => rfl
  | var v => simp [IE.eval, h1]
  | bin op a b iha ihb => simp [IE.eval, iha, ihb]
  | neg a ih => simp [IE.eval, ih]
  | dim a k => simp [IE.eval, h2]
  | ld1 a i ih => simp [IE.eval, ih, h2, h3]
  | ld2 a i j ihi ihj => simp [IE.eval, ihi, ihj, h2, h3]
  | sum a => simp [IE.eval, h3]

theorem IE.ok_congr (e : IE) (s t : State F) (h1 : s.ienv = t.ienv) (h2 : s.shp = t.shp) (h3 : s.ia = t.ia) :
    e.ok s = e.ok t := by
  induction e with
  | lit n => rfl
  | var v => rfl
  | bin op a b iha ihb => simp [IE.ok, iha, ihb, IE.eval_congr b s t h1 h2 h3]
  | neg a ih => simp [IE.ok, ih]
  | dim a k => simp [IE.ok, h2]
  | ld1 a i ih => simp [IE.ok, ih, h2, IE.eval_congr i s t h1 h2 h3]
  | ld2 a i j ihi ihj =>
    simp [IE.ok, ihi, ihj, h2, IE.eval_congr i s t h1 h2 h3, IE.eval_congr j s t h1 h2 h3]
  | sum a => rfl

/-! ### right-nested sequences -/

/-- `a₀; (a₁; (… ; aₙ))` -/
def seqL : List St → St
  | [] => .skip
  | [a] => a
  | a :: b :: r => .seq a (seqL (b :: r))

theorem exec_seqL_cons (fuel : Nat) (a : St) (r : List St) (s : State F) :
    exec fuel (seqL (a :: r)) s =
      if (exec fuel a s).ctl = .run then exec fuel (seqL r) (exec fuel a s) else exec fuel a s := by
  cases r with
  | nil => simp only [seqL, exec_skip]; split <;> rfl
  | cons b r => simp only [seqL, exec_seq]

/-! ### loops -/

/-- a loop without early exit as a fold: every iteration started in a running state that is `Good` ends running and
    `Good`, and changes the observed value `val` by `g` -/
theorem loopOver_foldl {α β} (f : State F → α → State F) (xs : List α) (Good : State F → Prop)
    (val : State F → β) (g : β → α → β)
    (hstep : ∀ st x, x ∈ xs → st.ctl = .run → Good st →
      (afterBody (f st x)).ctl = .run ∧ Good (afterBody (f st x)) ∧ val (afterBody (f st x)) = g (val st) x)
    (s : State F) (h0 : s.ctl = .run) (hg : Good s) :
    (loopOver f xs s).ctl = .run ∧ Good (loopOver f xs s) ∧ val (loopOver f xs s) = xs.foldl g (val s) := by
  induction xs generalizing s with
  | nil => simp [h0, hg]
  | cons x xs ih =>
    obtain ⟨hc, hgd, hv⟩ := hstep s x (by simp) h0 hg
    rw [loopOver_cons _ _ _ _ h0]
    simp only [hc, if_true, List.foldl_cons]
    rw [← hv]
    exact ih (fun st y hy => hstep st y (by simp [hy])) _ hc hgd

/-! ### non-negative integer indices -/

theorem normIdx_nonneg (i : Int) (n : Nat) (h : 0 ≤ i) : normIdx i n = i := by
  unfold normIdx; simp; omega

theorem inRange_of_nonneg_lt (i : Int) (n : Nat) (h0 : 0 ≤ i) (h1 : i < n) : inRange i n = true := by
  unfold inRange; rw [normIdx_nonneg i n h0]; simp; omega

theorem off2_nonneg (r c : Nat) (i j : Int) (hi : 0 ≤ i) (hj : 0 ≤ j) :
    off2 [r, c] i j = i.toNat * c + j.toNat := by
  unfold off2; simp [normIdx_nonneg, hi, hj]

theorem off1_nonneg (n : Nat) (i : Int) (hi : 0 ≤ i) : off1 [n] i = i.toNat := by
  unfold off1; simp [normIdx_nonneg, hi]

/-! ### overwriting a stretch of a list -/

section put
variable {α : Type}

/-- `l[k + i] := vals[i]` -/
def putFrom (l : List α) : Nat → List α → List α
  | _, [] => l
  | k, v :: vs => putFrom (l.set k v) (k + 1) vs

theorem putFrom_length (l : List α) (k : Nat) (vs : List α) : (putFrom l k vs).length = l.length := by
  induction vs generalizing l k with
  | nil => rfl
  | cons v vs ih => simp [putFrom, ih]

theorem putFrom_getD_lt (l : List α) (k : Nat) (vs : List α) (i : Nat) (h : i < k) (d : α) :
    (putFrom l k vs).getD i d = l.getD i d := by
  induction vs generalizing l k with
  | nil => rfl
  | cons v vs ih =>
    simp only [putFrom]
    rw [ih _ _ (by omega)]
    simp only [List.getD_eq_getElem?_getD, List.getElem?_set]
    have : k ≠ i := by omega
    simp [this]

theorem putFrom_getD_ge (l : List α) (k : Nat) (vs : List α) (i : Nat) (h : k + i < l.length)
    (hi : i < vs.length) (d : α) : (putFrom l k vs).getD (k + i) d = vs.getD i d := by
  induction vs generalizing l k i with
  | nil => simp at hi
  | cons v vs ih =>
    simp only [putFrom]
    cases i with
    | zero =>
      rw [putFrom_getD_lt _ _ _ _ (by omega)]
      simp only [List.getD_eq_getElem?_getD, List.getElem?_set, Nat.add_zero] at h ⊢
      simp [h]
    | succ i =>
      have := ih (l.set k v) (k + 1) i (by simp; omega) (by simpa using hi)
      rw [show k + (i + 1) = k + 1 + i by omega, this]
      simp

/-- overwriting a whole list -/
theorem putFrom_all (l vs : List α) (h : vs.length = l.length) : putFrom l 0 vs = vs := by
  apply List.ext_getElem
  · rw [putFrom_length, h]
  · intro i h1 h2
    have := putFrom_getD_ge l 0 vs i (by rw [putFrom_length] at h1; omega) h2 (vs[i]'h2)
    simp only [Nat.zero_add, List.getD_eq_getElem?_getD] at this
    rw [List.getElem?_eq_getElem h1, List.getElem?_eq_getElem h2] at this
    simpa using this

end put

end XrsVerif.IL.Rg
