import XrsVerif.Model.Polygonize
/-
  Lemmas about the polygonize model (Model/Polygonize.lean), used by Props/C15.lean.  Core Lean only.
-/
set_option linter.unusedVariables false
namespace XrsVerif.Polygonize

/-! ### the follower -/

/-- a boundary-edge state: its pixel is in the region, the pixel on its right is not -/
def Valid (R : Int → Int → Bool) (s : FSt) : Prop :=
  R s.x s.y = true ∧ R s.rightCell.1 s.rightCell.2 = false

theorem step_cases (R : Int → Int → Bool) (s : FSt) :
    (R s.aheadRight.1 s.aheadRight.2 = true ∧ step R s = ⟨s.aheadRight.1, s.aheadRight.2, s.d.right⟩) ∨
    (R s.aheadRight.1 s.aheadRight.2 = false ∧ R s.ahead.1 s.ahead.2 = true ∧
        step R s = ⟨s.ahead.1, s.ahead.2, s.d⟩) ∨
    (R s.aheadRight.1 s.aheadRight.2 = false ∧ R s.ahead.1 s.ahead.2 = false ∧
        step R s = ⟨s.x, s.y, s.d.left⟩) := by
  unfold step
  by_cases h1 : R s.aheadRight.1 s.aheadRight.2 = true
  · simp [h1]
  · by_cases h2 : R s.ahead.1 s.ahead.2 = true
    · simp [h1, h2]
    · simp [h1, h2]

theorem step_valid (R : Int → Int → Bool) (s : FSt) (h : Valid R s) : Valid R (step R s) := by
  obtain ⟨x, y, d⟩ := s
  rcases step_cases R ⟨x, y, d⟩ with ⟨h1, e⟩ | ⟨h1, h2, e⟩ | ⟨h1, h2, e⟩ <;> rw [e] <;>
    unfold Valid at * <;> cases d <;>
    simp_all [FSt.ahead, FSt.aheadRight, FSt.rightCell, Dir.dx, Dir.dy, Dir.left, Dir.right] <;>
    grind

theorem corner_step (R : Int → Int → Bool) (s : FSt) :
    (step R s).corner = (s.corner.1 + s.d.dx, s.corner.2 + s.d.dy) := by
  obtain ⟨x, y, d⟩ := s
  rcases step_cases R ⟨x, y, d⟩ with ⟨h1, e⟩ | ⟨h1, h2, e⟩ | ⟨h1, h2, e⟩ <;> rw [e] <;> cases d <;>
    simp [FSt.ahead, FSt.aheadRight, FSt.corner, Dir.dx, Dir.dy, Dir.left, Dir.right] <;> omega

theorem step_injective (R : Int → Int → Bool) (s t : FSt) (hs : Valid R s) (ht : Valid R t)
    (h : step R s = step R t) : s = t := by
  obtain ⟨x, y, d⟩ := s
  obtain ⟨x', y', d'⟩ := t
  rcases step_cases R ⟨x, y, d⟩ with ⟨h1, e⟩ | ⟨h1, h2, e⟩ | ⟨h1, h2, e⟩ <;>
  rcases step_cases R ⟨x', y', d'⟩ with ⟨h1', e'⟩ | ⟨h1', h2', e'⟩ | ⟨h1', h2', e'⟩ <;>
    rw [e, e'] at h <;> unfold Valid at * <;> cases d <;> cases d' <;>
    simp [FSt.ahead, FSt.aheadRight, FSt.rightCell, Dir.dx, Dir.dy, Dir.left, Dir.right] at * <;>
    grind


/-- two points on a common horizontal or vertical line -/
def AxisPar (p q : Int × Int) : Prop := p.1 = q.1 ∨ p.2 = q.2

theorem AxisPar.symm {p q : Int × Int} (h : AxisPar p q) : AxisPar q p := by
  unfold AxisPar at *; omega

/-- consecutive points are joined by axis-parallel segments -/
def Rectilinear : List (Int × Int) → Prop
  | [] => True
  | [_] => True
  | p :: q :: rest => AxisPar p q ∧ Rectilinear (q :: rest)

theorem rect_snoc (l : List (Int × Int)) (p : Int × Int) :
    Rectilinear (l ++ [p]) ↔ Rectilinear l ∧ (∀ q, l.getLast? = some q → AxisPar q p) := by
  induction l with
  | nil => simp [Rectilinear]
  | cons a l ih =>
    cases l with
    | nil => simp [Rectilinear]
    | cons b l =>
      simp only [List.cons_append, Rectilinear] at ih ⊢
      rw [ih]
      simp [List.getLast?_cons_cons, and_assoc]

theorem rect_reverse (l : List (Int × Int)) : Rectilinear l.reverse ↔ Rectilinear l := by
  induction l with
  | nil => simp
  | cons a l ih =>
    rw [List.reverse_cons, rect_snoc, ih, List.getLast?_reverse]
    cases l with
    | nil => simp [Rectilinear]
    | cons b l =>
      simp only [List.head?_cons, Option.some.injEq, Rectilinear]
      constructor
      · intro ⟨h1, h2⟩; exact ⟨(h2 b rfl).symm, h1⟩
      · intro ⟨h1, h2⟩; exact ⟨h2, fun q hq => by subst hq; exact h1.symm⟩

/-- `L` and `C` lie on a line with heading `d` -/
def Along (d : Dir) (L C : Int × Int) : Prop :=
  match d with
  | .E | .W => L.2 = C.2
  | .N | .S => L.1 = C.1

theorem Along.axisPar {d : Dir} {L C : Int × Int} (h : Along d L C) : AxisPar L C := by
  cases d <;> simp [Along] at h <;> simp [AxisPar, h]

theorem along_step (R : Int → Int → Bool) (cur : FSt) (L : Int × Int) (h : Along cur.d L cur.corner) :
    Along cur.d L (step R cur).corner := by
  rw [corner_step]
  obtain ⟨x, y, d⟩ := cur
  cases d <;> simp [Along, Dir.dx, Dir.dy] at * <;> omega

theorem along_self_step (R : Int → Int → Bool) (cur : FSt) :
    Along cur.d cur.corner (step R cur).corner := by
  rw [corner_step]
  obtain ⟨x, y, d⟩ := cur
  cases d <;> simp [Along, Dir.dx, Dir.dy]

/-- invariant of the follow loop on the (reversed) list of recorded vertices -/
structure LoopInv (start cur : FSt) (prev : Option Dir) (acc : List (Int × Int)) : Prop where
  rect : Rectilinear acc
  first : prev = none → acc = [] ∧ cur = start
  along : ∀ d', prev = some d' → ∃ L rest, acc = L :: rest ∧ Along d' L cur.corner
  last : ∀ q, acc.getLast? = some q → q = start.corner

theorem followLoop_spec (R : Int → Int → Bool) (nx ny : Nat) (hole : Bool) (start : FSt) :
    ∀ (fuel : Nat) (cur : FSt) (prev : Option Dir) (tr res : Trace),
      LoopInv start cur prev tr.pts →
      followLoop R nx ny hole start fuel cur prev tr = some res →
      Rectilinear res.pts ∧ (∃ L rest, res.pts = L :: rest ∧ AxisPar L start.corner) ∧
        res.pts.getLast? = some start.corner := by
  intro fuel
  induction fuel with
  | zero => intro cur prev tr res _ h; simp [followLoop] at h
  | succ fuel ih =>
    intro cur prev tr res hinv h
    simp only [followLoop] at h
    -- the vertex list after this iteration
    generalize hpts : (if prev ≠ some cur.d then cur.corner :: tr.pts else tr.pts) = pts' at h
    -- facts about pts'
    have hrect : Rectilinear pts' := by
      rw [← hpts]; split
      · cases hp : prev with
        | none => rw [(hinv.first hp).1]; simp [Rectilinear]
        | some d' =>
          obtain ⟨L, rest, hacc, hal⟩ := hinv.along d' hp
          rw [hacc]; exact ⟨hal.axisPar.symm, by rw [← hacc]; exact hinv.rect⟩
      · exact hinv.rect
    have halong : ∃ L rest, pts' = L :: rest ∧ Along cur.d L (step R cur).corner := by
      rw [← hpts]; split
      · exact ⟨cur.corner, tr.pts, rfl, along_self_step R cur⟩
      · rename_i hne
        have hp : prev = some cur.d := by simpa using hne
        obtain ⟨L, rest, hacc, hal⟩ := hinv.along cur.d hp
        exact ⟨L, rest, hacc, along_step R cur L hal⟩
    have hlast : ∀ q, pts'.getLast? = some q → q = start.corner := by
      rw [← hpts]; split
      · intro q hq
        cases hacc : tr.pts with
        | nil =>
          rw [hacc] at hq; simp at hq; subst hq
          cases hp : prev with
          | none => rw [(hinv.first hp).2]
          | some d' =>
            obtain ⟨L, rest, hacc', _⟩ := hinv.along d' hp
            rw [hacc] at hacc'; cases hacc'
        | cons b l =>
          rw [hacc, List.getLast?_cons_cons] at hq
          exact hinv.last q (by rw [hacc]; exact hq)
      · exact hinv.last
    split at h
    · -- back at the start
      rename_i hstart
      simp only [Option.some.injEq] at h
      subst h
      obtain ⟨L, rest, hp', hal⟩ := halong
      refine ⟨hrect, ⟨L, rest, hp', ?_⟩, ?_⟩
      · rw [hstart] at hal; exact hal.axisPar
      · simp only
        rw [hp']
        have := hlast
        rw [hp'] at this
        cases hr : (L :: rest).getLast? with
        | none => simp at hr
        | some q => rw [this q hr]
    · rename_i hns
      refine ih (step R cur) (some cur.d) _ res ?_ h
      refine ⟨hrect, (by intro hh; cases hh), ?_, hlast⟩
      intro d' hd'
      simp only [Option.some.injEq] at hd'
      subst hd'
      exact halong


/-- the ring returned by `follow`: starts and ends at the start vertex, has at least two points, and
    consecutive points are joined by axis-parallel segments -/
theorem follow_ring (nx ny : Nat) (regs : Nat → Nat) (ij : Nat) (hole : Bool) (tr : Trace)
    (h : follow nx ny regs ij hole = some tr) :
    let start : FSt := ⟨(ij % nx : Nat), (ij / nx : Nat), if hole then .W else .E⟩
    Rectilinear tr.pts ∧ tr.pts.head? = some start.corner ∧ tr.pts.getLast? = some start.corner ∧
      2 ≤ tr.pts.length := by
  intro start
  unfold follow at h
  simp only at h
  split at h
  · cases h
  · rename_i res hres
    simp only [Option.some.injEq] at h
    subst h
    have hinv : LoopInv start start none ([] : List (Int × Int)) :=
      ⟨(by simp [Rectilinear]), fun _ => ⟨rfl, rfl⟩, (by intro d' hd'; cases hd'), (by intro q hq; simp at hq)⟩
    obtain ⟨hrect, ⟨L, rest, hpts, hax⟩, hlast⟩ :=
      followLoop_spec _ nx ny hole start _ start none ⟨[], [], []⟩ res hinv hres
    simp only
    -- res.pts.reverse starts with the start vertex
    have hhead : res.pts.reverse.head? = some start.corner := by rw [List.head?_reverse]; exact hlast
    obtain ⟨tl, htl⟩ : ∃ tl, res.pts.reverse = start.corner :: tl := by
      cases hr : res.pts.reverse with
      | nil => rw [hr] at hhead; simp at hhead
      | cons a tl => rw [hr] at hhead; simp at hhead; subst hhead; exact ⟨tl, rfl⟩
    rw [htl]
    simp only [List.take_succ_cons, List.take_zero]
    have hlastc : ∀ (a : Int × Int) (l : List (Int × Int)), (a :: l ++ [a]).getLast? = some a := by
      intro a l; rw [List.getLast?_append]; simp
    refine ⟨?_, by simp, hlastc _ _, by simp⟩
    rw [show start.corner :: tl ++ [start.corner] = res.pts.reverse ++ [start.corner] by rw [htl]]
    rw [rect_snoc, rect_reverse]
    refine ⟨hrect, ?_⟩
    intro q hq
    rw [List.getLast?_reverse, hpts] at hq
    simp at hq; subst hq; exact hax

/-! ### vertices are pixel corners of the raster -/

/-- a pixel corner of an `nx × ny` raster -/
def InBox (nx ny : Nat) (p : Int × Int) : Prop := 0 ≤ p.1 ∧ p.1 ≤ nx ∧ 0 ≤ p.2 ∧ p.2 ≤ ny

theorem corner_inBox {R : Int → Int → Bool} {nx ny : Nat}
    (hR : ∀ x y, R x y = true → 0 ≤ x ∧ x < nx ∧ 0 ≤ y ∧ y < ny) {s : FSt} (hs : Valid R s) :
    InBox nx ny s.corner := by
  obtain ⟨h0, h1, h2, h3⟩ := hR s.x s.y hs.1
  obtain ⟨x, y, d⟩ := s
  simp only at h0 h1 h2 h3
  cases d <;> simp [FSt.corner, InBox] <;> omega

theorem followLoop_inBox (R : Int → Int → Bool) (nx ny : Nat) (hole : Bool) (start : FSt)
    (hR : ∀ x y, R x y = true → 0 ≤ x ∧ x < nx ∧ 0 ≤ y ∧ y < ny) :
    ∀ (fuel : Nat) (cur : FSt) (prev : Option Dir) (tr res : Trace), Valid R cur →
      (∀ p ∈ tr.pts, InBox nx ny p) → followLoop R nx ny hole start fuel cur prev tr = some res →
      ∀ p ∈ res.pts, InBox nx ny p := by
  intro fuel
  induction fuel with
  | zero => intro cur prev tr res _ _ h; simp [followLoop] at h
  | succ fuel ih =>
    intro cur prev tr res hv hall h
    simp only [followLoop] at h
    have hpts : ∀ p ∈ (if prev ≠ some cur.d then cur.corner :: tr.pts else tr.pts), InBox nx ny p := by
      split
      · intro p hp
        rcases List.mem_cons.mp hp with e | e
        · subst e; exact corner_inBox hR hv
        · exact hall p e
      · exact hall
    split at h
    · simp only [Option.some.injEq] at h; subst h; exact hpts
    · exact ih _ _ _ res (step_valid R cur hv) hpts h

/-- every vertex of a ring returned by `follow` is a pixel corner of the raster -/
theorem follow_inBox (nx ny : Nat) (regs : Nat → Nat) (ij : Nat) (hole : Bool) (tr : Trace)
    (hstart : Valid (inRegion nx ny regs (regs ij)) ⟨(ij % nx : Nat), (ij / nx : Nat), if hole then .W else .E⟩)
    (h : follow nx ny regs ij hole = some tr) : ∀ p ∈ tr.pts, InBox nx ny p := by
  have hR : ∀ x y, inRegion nx ny regs (regs ij) x y = true → 0 ≤ x ∧ x < nx ∧ 0 ≤ y ∧ y < ny := by
    intro x y h
    simp only [inRegion, Bool.and_eq_true, decide_eq_true_eq] at h
    omega
  unfold follow at h
  simp only at h
  split at h
  · cases h
  · rename_i res hres
    simp only [Option.some.injEq] at h
    subst h
    have := followLoop_inBox _ nx ny hole _ hR _ _ none ⟨[], [], []⟩ res hstart (by intro p hp; simp at hp) hres
    intro p hp
    simp only [List.mem_append, List.mem_reverse] at hp
    rcases hp with hp | hp
    · exact this p hp
    · exact this p (List.mem_reverse.mp (List.mem_of_mem_take hp))


/-! ### where `_scan` starts a follow -/

theorem flat_xy (nx X Y : Nat) : ((X : Int) + (Y : Int) * (nx : Int)).toNat = X + Y * nx := by
  rw [← Int.natCast_mul, ← Int.natCast_add, Int.toNat_natCast]

theorem decode_ij (nx ij : Nat) : ij % nx + ij / nx * nx = ij := by
  rw [Nat.mul_comm]; exact Nat.mod_add_div ij nx

theorem valid_W (nx ny : Nat) (regs : Nat → Nat) (X Y : Nat) (hX : X < nx) (hY : Y < ny)
    (hne : regs (X + (Y + 1) * nx) ≠ regs (X + Y * nx)) :
    Valid (inRegion nx ny regs (regs (X + Y * nx))) ⟨(X : Int), (Y : Int), .W⟩ := by
  constructor
  · simp only [inRegion, Bool.and_eq_true, decide_eq_true_eq, beq_iff_eq]
    refine ⟨⟨⟨⟨by omega, by omega⟩, by omega⟩, by omega⟩, ?_⟩
    rw [flat_xy]
  · simp only [FSt.rightCell, Dir.left, Dir.dx, Dir.dy, inRegion]
    have e : ((X : Int) - 0 + ((Y : Int) - -1) * (nx : Int)) = ((X : Int) + ((Y + 1 : Nat) : Int) * (nx : Int)) := by
      rw [Int.sub_zero, Int.sub_neg]; rfl
    rw [e, flat_xy]
    simp [hne]

theorem valid_E (nx ny : Nat) (regs : Nat → Nat) (X Y : Nat) (hX : X < nx) (hY : Y < ny)
    (hne : 1 ≤ Y → regs (X + (Y - 1) * nx) ≠ regs (X + Y * nx)) :
    Valid (inRegion nx ny regs (regs (X + Y * nx))) ⟨(X : Int), (Y : Int), .E⟩ := by
  constructor
  · simp only [inRegion, Bool.and_eq_true, decide_eq_true_eq, beq_iff_eq]
    refine ⟨⟨⟨⟨by omega, by omega⟩, by omega⟩, by omega⟩, ?_⟩
    rw [flat_xy]
  · simp only [FSt.rightCell, Dir.left, Dir.dx, Dir.dy, inRegion]
    by_cases hY1 : 1 ≤ Y
    · have e : ((X : Int) - 0 + ((Y : Int) - 1) * (nx : Int)) = ((X : Int) + ((Y - 1 : Nat) : Int) * (nx : Int)) := by
        rw [Int.sub_zero]; congr 2; omega
      rw [e, flat_xy]
      simp [hne hY1]
    · have : Y = 0 := by omega
      subst this
      simp

/-- a hole is started on the N edge of pixel `ij - nx` (heading W) only when the pixel above it, `ij`,
    is in another region: that state is a boundary edge -/
theorem hole_start_valid (nx ny : Nat) (regs : Nat → Nat) (ij : Nat) (hnx : 0 < nx) (h1 : nx ≤ ij)
    (h2 : ij < nx * ny) (hne : regs ij ≠ regs (ij - nx)) :
    Valid (inRegion nx ny regs (regs (ij - nx))) ⟨((ij - nx) % nx : Nat), ((ij - nx) / nx : Nat), .W⟩ := by
  have hx : (ij - nx) % nx < nx := Nat.mod_lt _ hnx
  have hy : (ij - nx) / nx < ny := by
    rw [Nat.div_lt_iff_lt_mul hnx]; rw [Nat.mul_comm]; omega
  have hd := decode_ij nx (ij - nx)
  have hup : (ij - nx) % nx + ((ij - nx) / nx + 1) * nx = ij := by
    rw [Nat.add_mul, Nat.one_mul]; omega
  have := valid_W nx ny regs ((ij - nx) % nx) ((ij - nx) / nx) hx hy (by rw [hup, hd]; exact hne)
  rw [hd] at this
  exact this

/-- an exterior is started on the S edge of pixel `ij` (heading E); that state is a boundary edge when
    the pixel below is not in the same region -- true for the first pixel of a region in scan order -/
theorem exterior_start_valid (nx ny : Nat) (regs : Nat → Nat) (ij : Nat) (hnx : 0 < nx)
    (h2 : ij < nx * ny) (hfirst : nx ≤ ij → regs (ij - nx) ≠ regs ij) :
    Valid (inRegion nx ny regs (regs ij)) ⟨(ij % nx : Nat), (ij / nx : Nat), .E⟩ := by
  have hx : ij % nx < nx := Nat.mod_lt _ hnx
  have hy : ij / nx < ny := by
    rw [Nat.div_lt_iff_lt_mul hnx]; rw [Nat.mul_comm]; omega
  have hd := decode_ij nx ij
  have := valid_E nx ny regs (ij % nx) (ij / nx) hx hy (by
    intro hY
    have hrow : nx ≤ ij := by
      have : 1 * nx ≤ ij / nx * nx := Nat.mul_le_mul_right nx hY
      omega
    have hdown : ij % nx + (ij / nx - 1) * nx = ij - nx := by
      rw [Nat.sub_mul, Nat.one_mul]
      have : nx ≤ ij / nx * nx := by
        have : 1 * nx ≤ ij / nx * nx := Nat.mul_le_mul_right nx hY
        omega
      omega
    rw [hdown, hd]; exact hfirst hrow)
  rw [hd] at this
  exact this

/-! ### the full property as an executable specification -/

section spec
variable {V : Type}

def edgesOf (ring : Ring) : List ((Int × Int) × (Int × Int)) := ring.zip ring.tail

/-- even-odd rule for the centre of pixel `(i, j)`: vertical ring edges strictly to its right that
    span its height (coordinates doubled to stay integral) -/
def crossings (ring : Ring) (i j : Int) : Nat :=
  (edgesOf ring).countP fun e =>
    e.1.1 == e.2.1 && decide (2 * i + 1 < 2 * e.1.1) && decide (2 * min e.1.2 e.2.2 < 2 * j + 1)
      && decide (2 * j + 1 < 2 * max e.1.2 e.2.2)

def inRing (ring : Ring) (i j : Int) : Bool := crossings ring i j % 2 == 1

/-- inside the exterior (first ring) and inside none of the holes -/
def inPolygon (rings : List Ring) (i j : Int) : Bool :=
  match rings with
  | [] => false
  | ext :: holes => inRing ext i j && holes.all (fun h => !inRing h i j)

/-- twice the signed (shoelace) area; positive = anticlockwise with x to the right, y upwards -/
def area2 (ring : Ring) : Int := ((edgesOf ring).map fun e => e.1.1 * e.2.2 - e.2.1 * e.1.2).sum

def ringWellFormed (nx ny : Nat) (ring : Ring) : Bool :=
  decide (5 ≤ ring.length) && (ring.head? == ring.getLast?) &&
  ring.all (fun p => decide (0 ≤ p.1) && decide (p.1 ≤ nx) && decide (0 ≤ p.2) && decide (p.2 ≤ ny)) &&
  (edgesOf ring).all (fun e => (e.1.1 == e.2.1) != (e.1.2 == e.2.2))

/-- **The full statement of C15 for one raster**, as a decidable check of a result `(column, polys)`:
    every unmasked pixel centre lies in exactly one polygon (exterior minus holes, even-odd rule) and that
    polygon carries the pixel's value, masked pixels lie in none; two pixels lie in the same polygon
    exactly when they are in the same connected region of equal value (4- or 8-connectivity among unmasked
    pixels -- expressed through the C16 labelling, which Props/C16 proves to be the components); each
    polygon's area (exterior minus holes) is its pixel count; rings are closed, lie on pixel corners,
    have axis-parallel edges, exteriors anticlockwise and holes clockwise. -/
def losslessB (nx ny : Nat) (conn8 : Bool) (eqv : V → V → Bool) (values : Nat → V) (mask : Nat → Bool)
    (column : List V) (polys : List (List Ring)) : Bool :=
  let cells : List (Nat × Nat) := (List.range ny).flatMap fun j => (List.range nx).map fun i => (i, j)
  let owners : Nat × Nat → List Nat := fun c =>
    (List.range polys.length).filter fun k => inPolygon (polys.getD k []) c.1 c.2
  let comp : Nat × Nat → Option Nat :=
    Regions.regions ny nx conn8 eqv (fun c => if mask (c.2 + c.1 * nx) then some (values (c.2 + c.1 * nx)) else none)
  decide (column.length = polys.length) &&
  cells.all (fun c =>
    if mask (c.1 + c.2 * nx) then
      (match owners c with
       | [k] => (match column[k]? with | some v => eqv v (values (c.1 + c.2 * nx)) | none => false)
       | _ => false)
    else (owners c).isEmpty) &&
  cells.all (fun c => cells.all fun c' =>
    if mask (c.1 + c.2 * nx) && mask (c'.1 + c'.2 * nx) then
      (owners c == owners c') == (comp (c.2, c.1) == comp (c'.2, c'.1))
    else true) &&
  (List.range polys.length).all (fun k =>
    let rings := polys.getD k []
    ((rings.map area2).sum == 2 * ((cells.filter fun c => owners c == [k]).length : Int)) &&
    (match rings with
     | [] => false
     | ext :: holes => decide (0 < area2 ext) && holes.all (fun h => decide (area2 h < 0))) &&
    rings.all (ringWellFormed nx ny))

end spec

/-! ### the transform -/

/-- the affine map on rational points -/
def affineR (t : List Rat) (p : Rat × Rat) : Rat × Rat :=
  let g := fun k => t.getD k 0
  (g 0 * p.1 + g 1 * p.2 + g 2, g 3 * p.1 + g 4 * p.2 + g 5)

theorem affine_eq (t : List Rat) (p : Int × Int) : affine t p = affineR t (toRat p) := rfl

end XrsVerif.Polygonize
