import XrsVerif.Model.Polygonize
/-
  Lemmas about the polygonize model (Model/Polygonize.lean), used by Props/C15.lean.  Core Lean only.
-/
set_option linter.unusedVariables false
namespace XrsVerif.Polygonize

/-! ### the follower -/

/-- a boundary-edge state: its pixel is in the region, the pixel on its right is not -/
def Valid (R : Int → Int → Bool) (s : FSt) : Prop :=
  R s.x s.y = true ∧ R s.rightCell.1 s.rightCell.2 = false

theorem step_cases (R : Int → Int → Bool) (s : FSt) :
    (R s.aheadRight.1 s.aheadRight.2 = true ∧ step R s = ⟨s.aheadRight.1, s.aheadRight.2, s.d.right⟩) ∨
    (R s.aheadRight.1 s.aheadRight.2 = false ∧ R s.ahead.1 s.ahead.2 = true ∧
        step R s = ⟨s.ahead.1, s.ahead.2, s.d⟩) ∨
    (R s.aheadRight.1 s.aheadRight.2 = false ∧ R s.ahead.1 s.ahead.2 = false ∧
        step R s = ⟨s.x, s.y, s.d.left⟩) := by
  unfold step
  by_cases h1 : R s.aheadRight.1 s.aheadRight.2 = true
  · simp [h1]
  · by_cases h2 : R s.ahead.1 s.ahead.2 = true
    · simp [h1, h2]
    · simp [h1, h2]

theorem step_valid (R : Int → Int → Bool) (s : FSt) (h : Valid R s) : Valid R (step R s) := by
  obtain ⟨x, y, d⟩ := s
  rcases step_cases R ⟨x, y, d⟩ with ⟨h1, e⟩ | ⟨h1, h2, e⟩ | ⟨h1, h2, e⟩ <;> rw [e] <;>
    unfold Valid at * <;> cases d <;>
    simp_all [FSt.ahead, FSt.aheadRight, FSt.rightCell, Dir.dx, Dir.dy, Dir.left, Dir.right] <;>
    grind

theorem corner_step (R : Int → Int → Bool) (s : FSt) :
    (step R s).corner = (s.corner.1 + s.d.dx, s.corner.2 + s.d.dy) := by
  obtain ⟨x, y, d⟩ := s
  rcases step_cases R ⟨x, y, d⟩ with ⟨h1, e⟩ | ⟨h1, h2, e⟩ | ⟨h1, h2, e⟩ <;> rw [e] <;> cases d <;>
    simp [FSt.ahead, FSt.aheadRight, FSt.corner, Dir.dx, Dir.dy, Dir.left, Dir.right] <;> omega

theorem step_injective (R : Int → Int → Bool) (s t : FSt) (hs : Valid R s) (ht : Valid R t)
    (h : step R s = step R t) : s = t := by
  obtain ⟨x, y, d⟩ := s
  obtain ⟨x', y', d'⟩ := t
  rcases step_cases R ⟨x, y, d⟩ with ⟨h1, e⟩ | ⟨h1, h2, e⟩ | ⟨h1, h2, e⟩ <;>
  rcases step_cases R ⟨x', y', d'⟩ with ⟨h1', e'⟩ | ⟨h1', h2', e'⟩ | ⟨h1', h2', e'⟩ <;>
    rw [e, e'] at h <;> unfold Valid at * <;> cases d <;> cases d' <;>
    simp [FSt.ahead, FSt.aheadRight, FSt.rightCell, Dir.dx, Dir.dy, Dir.left, Dir.right] at * <;>
    grind

/-! ### the transform -/

/-- the affine map on rational points -/
def affineR (t : List Rat) (p : Rat × Rat) : Rat × Rat :=
  let g := fun k => t.getD k 0
  (g 0 * p.1 + g 1 * p.2 + g 2, g 3 * p.1 + g 4 * p.2 + g 5)

theorem affine_eq (t : List Rat) (p : Int × Int) : affine t p = affineR t (toRat p) := rfl

end XrsVerif.Polygonize
