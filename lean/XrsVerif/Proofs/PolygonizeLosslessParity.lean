import XrsVerif.Proofs.PolygonizeLosslessWinding
import XrsVerif.Proofs.PolygonizeRegions
/-
  C15, losslessness: the winding number w.r.t. the followed rings of a region is its indicator.

  `chain_w`      along a chain of W/S/SW/SE links between pixels of one region the winding number w.r.t. a
                 closed list of boundary edges of that region does not change;
  `w_first`      at the first pixel `f` of the region (scan order) the winding number is the number of
                 occurrences of `f`'s S edge (heading E) in the list: nothing of the region lies below `f`;
  `w_indicator`  if the list contains that edge once and every N edge (heading W) of the region whose
                 upper pixel is inside the raster once, and the region is connected, then the winding
                 number of every pixel of the raster is 1 inside the region and 0 outside (column parity:
                 going up a column the membership flips exactly at those edges).
  Core Lean only.
-/
set_option linter.unusedVariables false
namespace XrsVerif.Polygonize

theorem xy_of {nx : Nat} (X Y : Nat) (hX : X < nx) : (X + Y * nx) % nx = X ∧ (X + Y * nx) / nx = Y := by
  have hnx : 0 < nx := by omega
  constructor
  · rw [Nat.add_mul_mod_self_right]; exact Nat.mod_eq_of_lt hX
  · rw [Nat.add_mul_div_right _ _ hnx, Nat.div_eq_of_lt hX]; omega

theorem div_lt_ny {nx ny p : Nat} (hnx : 0 < nx) (hp : p < nx * ny) : p / nx < ny := by
  rw [Nat.div_lt_iff_lt_mul hnx, Nat.mul_comm]; exact hp

theorem inRegion_inRaster (nx ny : Nat) (regs : Nat → Nat) (r : Nat) : InRaster (inRegion nx ny regs r) nx ny := by
  intro x y h
  simp only [inRegion, Bool.and_eq_true, decide_eq_true_eq] at h
  omega

theorem inRegion_nat (nx ny : Nat) (regs : Nat → Nat) (r : Nat) (X Y : Nat) :
    inRegion nx ny regs r (X : Int) (Y : Int) = true ↔ X < nx ∧ Y < ny ∧ regs (X + Y * nx) = r := by
  simp only [inRegion, Bool.and_eq_true, decide_eq_true_eq, beq_iff_eq, flat_xy]
  omega

theorem inRegion_idx {nx ny : Nat} (hnx : 0 < nx) (regs : Nat → Nat) (r : Nat) {p : Nat} (hp : p < nx * ny) :
    inRegion nx ny regs r ((p % nx : Nat) : Int) ((p / nx : Nat) : Int) = true ↔ regs p = r := by
  rw [inRegion_nat, decode_ij]
  have := Nat.mod_lt p hnx
  have := div_lt_ny hnx hp
  constructor
  · intro h; exact h.2.2
  · intro h; exact ⟨by omega, by omega, h⟩

/-- winding number of the pixel with flat index `p` -/
def wP (nx : Nat) (L : List FSt) (p : Nat) : Int := wcol L ((p % nx : Nat) : Int) ((p / nx : Nat) : Int)

/-- coordinates of the earlier neighbours -/
theorem back_coords {nx : Nat} (hnx : 0 < nx) (conn8 : Bool) {p q : Nat} (h : q ∈ back nx conn8 p) :
    (((q % nx : Nat) : Int) = ((p % nx : Nat) : Int) - 1 ∧ ((q / nx : Nat) : Int) = ((p / nx : Nat) : Int)) ∨
    (((q % nx : Nat) : Int) = ((p % nx : Nat) : Int) ∧ ((q / nx : Nat) : Int) = ((p / nx : Nat) : Int) - 1) ∨
    (((q % nx : Nat) : Int) = ((p % nx : Nat) : Int) - 1 ∧ ((q / nx : Nat) : Int) = ((p / nx : Nat) : Int) - 1) ∨
    (((q % nx : Nat) : Int) = ((p % nx : Nat) : Int) + 1 ∧ ((q / nx : Nat) : Int) = ((p / nx : Nat) : Int) - 1) := by
  have hd := decode_ij nx p
  have hX := Nat.mod_lt p hnx
  generalize hXe : p % nx = X at *
  generalize hYe : p / nx = Y at *
  have hY1 : nx ≤ p → 1 ≤ Y := by
    intro h1
    cases Y with
    | zero => simp at hd; omega
    | succ Y => omega
  have hmul : nx ≤ p → (Y - 1) * nx + nx = Y * nx := by
    intro h1
    have := hY1 h1
    have : Y = (Y - 1) + 1 := by omega
    rw [this, Nat.add_mul]; simp
  rcases (mem_back nx conn8).mp h with ⟨h1, e⟩ | ⟨h1, e⟩ | ⟨_, h1, h2, e⟩ | ⟨_, h1, h2, e⟩
  · left
    have e2 : q = (X - 1) + Y * nx := by omega
    have := xy_of (nx := nx) (X - 1) Y (by omega)
    rw [e2, this.1, this.2]; omega
  · right; left
    have := hmul h1
    have e2 : q = X + (Y - 1) * nx := by omega
    have hxy := xy_of (nx := nx) X (Y - 1) (by omega)
    have := hY1 h1
    rw [e2, hxy.1, hxy.2]; omega
  · right; right; left
    have := hmul h1
    have e2 : q = (X - 1) + (Y - 1) * nx := by omega
    have hxy := xy_of (nx := nx) (X - 1) (Y - 1) (by omega)
    have := hY1 h1
    rw [e2, hxy.1, hxy.2]; omega
  · right; right; right
    have := hmul h1
    have e2 : q = (X + 1) + (Y - 1) * nx := by omega
    have hxy := xy_of (nx := nx) (X + 1) (Y - 1) (by omega)
    have := hY1 h1
    rw [e2, hxy.1, hxy.2]; omega

/-- along a chain of links inside one region the winding number does not change -/
theorem chain_w {nx ny : Nat} (hnx : 0 < nx) (conn8 : Bool) (regs : Nat → Nat) (r : Nat) {L : List FSt}
    (hL : Closed (inRegion nx ny regs r) L) (E : Nat → Nat → Prop)
    (hE : ∀ p q, E p q → p < nx * ny ∧ q ∈ back nx conn8 p ∧ regs p = regs q) :
    ∀ p q, Cl E p q → regs p = regs q ∧ (regs p = r → wP nx L p = wP nx L q) := by
  intro p q h
  induction h with
  | refl u => exact ⟨rfl, fun _ => rfl⟩
  | symm _ ih => exact ⟨ih.1.symm, fun h => (ih.2 (ih.1.trans h)).symm⟩
  | trans _ _ ih1 ih2 => exact ⟨ih1.1.trans ih2.1, fun h => (ih1.2 h).trans (ih2.2 (ih1.1.symm.trans h))⟩
  | base e =>
    rename_i p q
    obtain ⟨hp, hb, hreg⟩ := hE p q e
    refine ⟨hreg, fun hr => ?_⟩
    have hq : q < nx * ny := Nat.lt_trans (back_lt nx conn8 hnx hb) hp
    have hRp := (inRegion_idx hnx regs r hp).mpr hr
    have hRq := (inRegion_idx hnx regs r hq).mpr (hreg.symm.trans hr)
    have hadj := w_adjacent hL (inRegion_inRaster nx ny regs r) _ _ hRp
    unfold wP
    rcases back_coords hnx conn8 hb with ⟨e1, e2⟩ | ⟨e1, e2⟩ | ⟨e1, e2⟩ | ⟨e1, e2⟩ <;>
      rw [e1, e2] at hRq ⊢
    · exact (hadj.1 hRq).symm
    · exact (hadj.2.1 hRq).symm
    · exact (hadj.2.2.1 hRq).symm
    · exact (hadj.2.2.2 hRq).symm

/-- nothing of the region lies below its first pixel `f` in `f`'s column -/
theorem above_first {nx ny : Nat} (hnx : 0 < nx) (regs : Nat → Nat) (r : Nat) {f : Nat}
    (hfirst : ∀ p, p < f → regs p ≠ r) {x y : Int} (h : inRegion nx ny regs r x y = true)
    (hx : x = ((f % nx : Nat) : Int)) : ((f / nx : Nat) : Int) ≤ y := by
  obtain ⟨h0, h1, h2, h3⟩ := inRegion_inRaster nx ny regs r x y h
  obtain ⟨X, rfl⟩ := Int.eq_ofNat_of_zero_le h0
  obtain ⟨Y, rfl⟩ := Int.eq_ofNat_of_zero_le h2
  obtain ⟨_, _, hr⟩ := (inRegion_nat nx ny regs r X Y).mp h
  have hX : X = f % nx := by omega
  by_cases hlt : Y < f / nx
  · exfalso
    have hd := decode_ij nx f
    have : (Y + 1) * nx ≤ f / nx * nx := Nat.mul_le_mul_right nx hlt
    rw [Nat.add_mul] at this
    exact hfirst (X + Y * nx) (by omega) hr
  · omega

/-- at the first pixel of the region the winding number counts the occurrences of its S edge -/
theorem w_first {nx ny : Nat} (hnx : 0 < nx) (regs : Nat → Nat) (r : Nat) {L : List FSt}
    (hL : Closed (inRegion nx ny regs r) L) {f : Nat} (hfirst : ∀ p, p < f → regs p ≠ r) :
    wP nx L f = (L.count ⟨(f % nx : Nat), (f / nx : Nat), .E⟩ : Int) := by
  have key : ∀ s ∈ L, s.x = ((f % nx : Nat) : Int) → ((f / nx : Nat) : Int) ≤ s.y :=
    fun s hs hx => above_first hnx regs r hfirst (hL.valid s hs).1 hx
  have h1 : cE L ((f % nx : Nat) : Int) ((f / nx : Nat) : Int) = L.count ⟨(f % nx : Nat), (f / nx : Nat), .E⟩ := by
    unfold cE
    rw [List.count_eq_countP]
    apply List.countP_congr
    intro s hs
    have := key s hs
    obtain ⟨sx, sy, sd⟩ := s
    cases sd <;> simp at this ⊢ <;> grind
  have h2 : cW L ((f % nx : Nat) : Int) ((f / nx : Nat) : Int) = 0 := by
    unfold cW
    rw [List.countP_eq_zero]
    intro s hs
    have := key s hs
    simp
    intro _ hx
    have := this hx
    omega
  unfold wP wcol
  rw [h1, h2]; simp

/-- **column parity**: a closed list of boundary edges of a connected region that contains the S edge of the
    region's first pixel once, and once every N edge of the region whose upper pixel lies inside the
    raster, has winding number 1 around every pixel of the region and 0 around every other pixel of
    the raster -/
theorem w_indicator {nx ny : Nat} (hnx : 0 < nx) (regs : Nat → Nat) (r : Nat) {L : List FSt}
    (hL : Closed (inRegion nx ny regs r) L) {f : Nat}
    (hconn : ∀ p, p < nx * ny → regs p = r → wP nx L p = wP nx L f)
    (hfirst : ∀ p, p < f → regs p ≠ r)
    (hEf : L.count ⟨(f % nx : Nat), (f / nx : Nat), .E⟩ = 1)
    (hWs : ∀ X Y : Nat, X < nx → Y + 1 < ny → regs (X + Y * nx) = r → regs (X + (Y + 1) * nx) ≠ r →
      L.count ⟨(X : Int), (Y : Int), .W⟩ = 1)
    (X : Nat) (hX : X < nx) : ∀ Y : Nat, Y < ny →
      wcol L (X : Int) (Y : Int) = if regs (X + Y * nx) = r then 1 else 0 := by
  have hin : ∀ Y : Nat, Y < ny → regs (X + Y * nx) = r → wcol L (X : Int) (Y : Int) = 1 := by
    intro Y hY hr
    have hp : X + Y * nx < nx * ny := by
      have : (Y + 1) * nx ≤ ny * nx := Nat.mul_le_mul_right nx hY
      rw [Nat.add_mul, Nat.mul_comm ny nx] at this; omega
    have := hconn (X + Y * nx) hp hr
    rw [w_first hnx regs r hL hfirst, hEf] at this
    unfold wP at this
    rw [(xy_of X Y hX).1, (xy_of X Y hX).2] at this
    exact this
  have hR := inRegion_inRaster nx ny regs r
  intro Y
  induction Y with
  | zero =>
    intro hY
    by_cases hr : regs (X + 0 * nx) = r
    · rw [if_pos hr]; exact hin 0 hY hr
    · rw [if_neg hr]
      have e := wcol_succ L (X : Int) (-1)
      have z := wcol_below hL hR (X : Int) (-1) (by omega)
      have c1 : L.count ⟨(X : Int), -1 + 1, .E⟩ = 0 := by
        apply hL.count_invalid
        intro hv
        have h1 : inRegion nx ny regs r (X : Int) ((0 : Nat) : Int) = true := by
          have := hv.1; simpa using this
        exact hr ((inRegion_nat nx ny regs r X 0).mp h1).2.2
      have c2 : L.count ⟨(X : Int), -1, .W⟩ = 0 := by
        apply hL.count_invalid
        intro hv; have := hR _ _ hv.1; simp only at this; omega
      rw [z, c1, c2] at e
      simpa using e
  | succ Y ih =>
    intro hY
    by_cases hr : regs (X + (Y + 1) * nx) = r
    · rw [if_pos hr]; exact hin (Y + 1) hY hr
    · rw [if_neg hr]
      have e := wcol_succ L (X : Int) (Y : Int)
      rw [ih (by omega)] at e
      rw [hL.count_invalid (a := ⟨(X : Int), (Y : Int) + 1, .E⟩)] at e
      · rw [Int.natCast_add, Int.natCast_one, e]
        by_cases hr0 : regs (X + Y * nx) = r
        · rw [if_pos hr0, hWs X Y hX hY hr0 hr]; simp
        · rw [if_neg hr0, hL.count_invalid (a := ⟨(X : Int), (Y : Int), .W⟩)]
          · simp
          · intro hv; exact hr0 ((inRegion_nat nx ny regs r X Y).mp hv.1).2.2
      · intro hv
        have h1 := hv.1
        simp only at h1
        have := (inRegion_nat nx ny regs r X (Y + 1)).mp (by simpa using h1)
        exact hr this.2.2

end XrsVerif.Polygonize
