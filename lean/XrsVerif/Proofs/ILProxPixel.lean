import XrsVerif.Proofs.ILProxRel
import XrsVerif.Proofs.Proximity
/-
  Proofs/ILProxPixel.lean -- step 2: one pixel of the generated `_process_proximity_line` (`pixelBody N`) is
  the model's `Prox.pixel` under the abstraction relation `LineRel` (three candidate phases + update).
-/
namespace XrsVerif.IL.Px
open XrsVerif XrsVerif.Prox
variable {F : Type} [Fl F]
set_option linter.unusedSectionVars false
set_option linter.unusedSimpArgs false
attribute [-simp] List.getD_eq_getElem?_getD

/-- in the middle of the candidate phases of pixel `p`: `s0` = state at the start of the pixel,
    `(pan, n)` = the model's pair (remembered targets, bound) -/
structure CandRel (N : Names) (c : Cfg) (emb : Nat → F) (s0 s : State F) (pan : List Tgt) (n : Option Nat) : Prop where
  frame : PixFrame N s0 s
  ctl : s.ctl = .run
  nx : s.ia "nearest_xs" = s0.ia "nearest_xs"
  ny : s.ia "nearest_ys" = s0.ia "nearest_ys"
  lpa : s.fa "line_proximity" = s0.fa "line_proximity"
  len_px : (s.ia "pan_near_x").length = c.W
  len_py : (s.ia "pan_near_y").length = c.W
  mlen : pan.length = c.W
  pan : ∀ q, q < c.W → tgtRel c.H c.W ((s.ia "pan_near_x").getD q 0) ((s.ia "pan_near_y").getD q 0) (pan.getD q none)
  nds : NdsOK c emb (s.fenv (N.nm .maxDistance)) (s.fenv (N.nm .nds)) n

/-- a remembered target at `p` comes with its distance in `near_distance_square` -/
def HasD (N : Names) (emb : Nat → F) (p : Nat) (s : State F) (pan : List Tgt) (n : Option Nat) : Prop :=
  pan.getD p none ≠ none → ∃ d, n = some d ∧ s.fenv (N.nm .nds) = emb d

section phases
variable {N : Names} (hN : N.WF) {c : Cfg} {emb : Nat → F} {tg : Nat → Nat → Bool} {row : Nat} {fwd : Bool}
variable {s0 s : State F} (fuel : Nat) {p : Nat}
variable (env0 : SweepEnv N c emb tg row fwd s0) (hp : p < c.W) (hpix0 : s0.ienv (N.nm .pixel) = p)
include hN env0 hp hpix0

/-- "Are we near(er) to the closest target to the above (below) pixel?" = `Prox.fromAbove` -/
theorem cand_above {pan : List Tgt} {n : Option Nat} (h : CandRel N c emb s0 s pan n) :
    CandRel N c emb s0 (exec fuel (bAbove N) s) (fromAbove c row p pan n).1 (fromAbove c row p pan n).2 ∧
    HasD N emb p (exec fuel (bAbove N) s) (fromAbove c row p pan n).1 (fromAbove c row p pan n).2 := by
  have env := env0.of_pix hN h.frame
  have hpix : s.ienv (N.nm .pixel) = p := by rw [h.frame.keepI hN .pixel rfl, hpix0]
  have hrel := h.pan p hp
  cases hm : pan.getD p none with
  | none =>
    rw [hm] at hrel
    have hx : (s.ia "pan_near_x").getD p 0 = -1 := hrel
    rw [above_none N hN s fuel h.ctl c.H c.W row p env.shp env.row_lt hp env.row_eq hpix hx]
    have e : fromAbove c row p pan n = (pan, n) := by simp only [fromAbove, hm]
    rw [e]
    exact ⟨h, fun hne => absurd hm hne⟩
  | some t =>
    obtain ⟨tr, tc⟩ := t
    rw [hm] at hrel
    obtain ⟨hx, hy, htr, htc⟩ := hrel
    simp only at hx hy htr htc
    rw [above_some N hN s fuel h.ctl c.H c.W row p env.shp env.row_lt hp env.row_eq hpix tr tc htr htc hx hy,
      env.dist tr tc row p htr htc env.row_lt hp, h.nds.lt env.arith]
    cases hlt : ltOpt (dist2 c tr tc row p) n with
    | true =>
      have e : fromAbove c row p pan n = (pan, some (dist2 c tr tc row p)) := by simp only [fromAbove, hm, hlt, if_true, Bool.false_eq_true, if_false]
      rw [e]
      simp only [if_true]
      refine ⟨⟨h.frame.trans ((afterDist_frame ..).trans (setNds_frame ..)), h.ctl, h.nx, h.ny, h.lpa,
        h.len_px, h.len_py, h.mlen, h.pan, ?_⟩, ?_⟩
      · right
        exact ⟨_, rfl, by simp⟩
      · intro _
        exact ⟨_, rfl, by simp⟩
    | false =>
      have e : fromAbove c row p pan n = (pan.set p none, n) := by simp only [fromAbove, hm, hlt, if_true, Bool.false_eq_true, if_false]
      rw [e]
      simp only [Bool.false_eq_true, if_false]
      refine ⟨⟨h.frame.trans ((afterDist_frame ..).trans (setPan_frame ..)), h.ctl, by simpa using h.nx,
        by simpa using h.ny, h.lpa, by simpa using h.len_px, by simpa using h.len_py, by simpa using h.mlen, ?_, ?_⟩, ?_⟩
      · intro q hq
        by_cases hqp : p = q
        · subst hqp
          simp [getD_set, h.len_px, h.len_py, h.mlen, hp, tgtRel]
        · simp only [setPan_px, setPan_py, afterDist_ia, getD_set_ne _ _ _ _ _ hqp]
          exact h.pan q hq
      · simpa [afterDist_fenv_keep N c.W s tr tc row p hN .nds, afterDist_fenv_keep N c.W s tr tc row p hN .maxDistance]
          using h.nds
      · intro hne
        simp [getD_set, h.mlen, hp] at hne

/-- a neighbour phase = `Prox.stepNb` (skipped at the start / end of the line, else `Prox.fromNeighbour`) -/
theorem cand_nb {pan : List Tgt} {n : Option Nat} (h : CandRel N c emb s0 s pan n) (hd : HasD N emb p s pan n)
    (g q lim : LV) (skip : Bool) (qn : Nat)
    (hg : if skip then s.ienv (N.nm g) = s.ienv (N.nm lim)
          else (s.ienv (N.nm g) ≠ s.ienv (N.nm lim) ∧ s.ienv (N.nm q) = qn ∧ qn < c.W)) :
    CandRel N c emb s0 (exec fuel (bNb N g q lim) s) (stepNb c row p skip qn (pan, n)).1 (stepNb c row p skip qn (pan, n)).2 ∧
    HasD N emb p (exec fuel (bNb N g q lim) s) (stepNb c row p skip qn (pan, n)).1 (stepNb c row p skip qn (pan, n)).2 := by
  have env := env0.of_pix hN h.frame
  have hpix : s.ienv (N.nm .pixel) = p := by rw [h.frame.keepI hN .pixel rfl, hpix0]
  cases skip with
  | true =>
    simp only [if_true] at hg
    rw [nb_skip N hN s fuel h.ctl c.H c.W row p env.shp env.row_lt hp env.row_eq hpix g q lim hg]
    simp only [stepNb, if_true]
    exact ⟨h, hd⟩
  | false =>
    simp only [Bool.false_eq_true, if_false] at hg
    obtain ⟨hg, hqv, hq⟩ := hg
    simp only [stepNb, Bool.false_eq_true, if_false]
    have hrel := h.pan qn hq
    cases hm : pan.getD qn none with
    | none =>
      rw [hm] at hrel
      have hx : (s.ia "pan_near_x").getD qn 0 = -1 := hrel
      rw [nb_none N hN s fuel h.ctl c.H c.W row p env.shp env.row_lt hp env.row_eq hpix g q lim qn hq hqv hx]
      have e : fromNeighbour c row p qn pan n = (pan, n) := by simp only [fromNeighbour, hm]
      rw [e]
      exact ⟨h, hd⟩
    | some t =>
      obtain ⟨tr, tc⟩ := t
      rw [hm] at hrel
      obtain ⟨hx, hy, htr, htc⟩ := hrel
      simp only at hx hy htr htc
      rw [nb_some N hN s fuel h.ctl c.H c.W row p env.shp env.row_lt hp env.row_eq hpix g q lim hg qn tr tc hq htr htc
        hqv hx hy, env.dist tr tc row p htr htc env.row_lt hp, h.nds.lt env.arith]
      cases hlt : ltOpt (dist2 c tr tc row p) n with
      | true =>
        have e : fromNeighbour c row p qn pan n = (pan.set p (some (tr, tc)), some (dist2 c tr tc row p)) := by
          simp only [fromNeighbour, hm, hlt, if_true, Bool.false_eq_true, if_false]
        rw [e]
        simp only [if_true]
        refine ⟨⟨h.frame.trans ((afterDist_frame ..).trans ((setNds_frame ..).trans (setPan_frame ..))), h.ctl,
          by simpa using h.nx, by simpa using h.ny, h.lpa, by simpa using h.len_px, by simpa using h.len_py,
          by simpa using h.mlen, ?_, ?_⟩, ?_⟩
        · intro q' hq'
          by_cases hqp : p = q'
          · subst hqp
            simp [getD_set, h.len_px, h.len_py, h.mlen, hp, tgtRel, htr, htc]
          · simp only [setPan_px, setPan_py, setNds_ia, afterDist_ia, getD_set_ne _ _ _ _ _ hqp]
            exact h.pan q' hq'
        · right
          exact ⟨_, rfl, by simp⟩
        · intro _
          exact ⟨_, rfl, by simp⟩
      | false =>
        have e : fromNeighbour c row p qn pan n = (pan, n) := by simp only [fromNeighbour, hm, hlt, if_true, Bool.false_eq_true, if_false]
        rw [e]
        simp only [Bool.false_eq_true, if_false]
        refine ⟨⟨h.frame.trans (afterDist_frame ..), h.ctl, h.nx, h.ny, h.lpa, h.len_px, h.len_py, h.mlen, h.pan, ?_⟩, ?_⟩
        · simpa [afterDist_fenv_keep N c.W s tr tc row p hN .nds, afterDist_fenv_keep N c.W s tr tc row p hN .maxDistance]
            using h.nds
        · intro hne
          obtain ⟨d, h1, h2⟩ := hd hne
          exact ⟨d, h1, by simpa [afterDist_fenv_keep N c.W s tr tc row p hN .nds] using h2⟩

/-- an assignment to an integer scratch variable keeps the phase relation -/
theorem cand_setI {pan : List Tgt} {n : Option Nat} (h : CandRel N c emb s0 s pan n) (hd : HasD N emb p s pan n)
    (b : LV) (hb : b.scratch = true) (v : Int) :
    CandRel N c emb s0 { s with ienv := setS s.ienv (N.nm b) v } pan n ∧
    HasD N emb p { s with ienv := setS s.ienv (N.nm b) v } pan n := by
  refine ⟨⟨h.frame.trans ⟨rfl, rfl, ?_, fun _ _ => rfl, fun _ _ => rfl, fun _ _ _ _ _ => rfl, fun _ _ => rfl⟩,
    h.ctl, h.nx, h.ny, h.lpa, h.len_px, h.len_py, h.mlen, h.pan, h.nds⟩, hd⟩
  intro w hw
  simp [setS, hw b hb]

/-- "Update our proximity value." = `Prox.update` -/
theorem cand_upd {m : LineSt} (rel0 : LineRel c emb s0 m) {pan : List Tgt} {n : Option Nat}
    (h : CandRel N c emb s0 s pan n) (hd : HasD N emb p s pan n) :
    (exec fuel (bUpd N) s).ctl = .run ∧ PixFrame N s0 (exec fuel (bUpd N) s) ∧
    LineRel c emb (exec fuel (bUpd N) s) (update c m p pan n) := by
  have env := env0.of_pix hN h.frame
  have hpix : s.ienv (N.nm .pixel) = p := by rw [h.frame.keepI hN .pixel rfl, hpix0]
  rw [upd_exec N hN s fuel h.ctl c.H c.W p env.shp hp hpix]
  have base : LineRel c emb s { pan := pan, lp := m.lp, nr := m.nr } :=
    ⟨h.len_px, h.len_py, by rw [h.nx]; exact rel0.len_nx, by rw [h.ny]; exact rel0.len_ny,
     by rw [h.lpa]; exact rel0.len_lp, h.mlen, rel0.mlen_lp, rel0.mlen_nr, h.pan,
     by rw [h.nx, h.ny]; exact rel0.nr, by rw [h.lpa]; exact rel0.lp, rel0.nrlp⟩
  have hrel := h.pan p hp
  cases hm : pan.getD p none with
  | none =>
    rw [hm] at hrel
    have hx : (s.ia "pan_near_x").getD p 0 = -1 := hrel
    have hc : updCond N s p = false := by simp [updCond, hx]
    have e : update c m p pan n = { pan := pan, lp := m.lp, nr := m.nr } := by simp only [update, hm]
    rw [hc, e]
    exact ⟨h.ctl, h.frame, base⟩
  | some t =>
    rw [hm] at hrel
    obtain ⟨hx, hy, htr, htc⟩ := hrel
    obtain ⟨d, hn, hnds⟩ := hd (by rw [hm]; simp)
    have hx1 : (s.ia "pan_near_x").getD p 0 ≠ -1 := by rw [hx]; omega
    have hlp := rel0.lp p hp
    rw [← h.lpa] at hlp
    have hc : updCond N s p = (withinMax c d && better m.lp p d) := by
      simp only [updCond, hx1, ne_eq, not_false_eq_true, decide_true, Bool.true_and, hnds, env.arith.thr_ge]
      congr 1
      unfold better
      cases hl : m.lp.getD p none with
      | none =>
        rw [hl] at hlp
        have : Fl.lt ((s.fa "line_proximity").getD p Fl.nan) (Fl.lit 0 1) = true := hlp
        simp [this]
      | some old =>
        rw [hl] at hlp
        obtain ⟨h1, _, h3⟩ := hlp
        simp [h1, h3, env.arith.lt_emb]
    rw [hc]
    subst hn
    cases hb : (withinMax c d && better m.lp p d) with
    | false =>
      have e : update c m p pan (some d) = { pan := pan, lp := m.lp, nr := m.nr } := by simp only [update, hm, hb, if_true, Bool.false_eq_true, if_false]
      rw [e]
      exact ⟨h.ctl, h.frame, base⟩
    | true =>
      have e : update c m p pan (some d) = { pan := pan, lp := m.lp.set p (some d), nr := m.nr.set p (some t) } := by
        simp only [update, hm, hb, if_true, Bool.false_eq_true, if_false]
      rw [e]
      simp only [if_true]
      refine ⟨h.ctl, h.frame.trans ⟨rfl, rfl, fun _ _ => rfl, fun _ _ => rfl, fun _ _ => rfl, ?_, ?_⟩, ?_⟩
      · intro a _ _ h3 h4; simp [setS, h3, h4]
      · intro a ha; simp [setS, ha]
      · refine ⟨by simpa [setS] using h.len_px, by simpa [setS] using h.len_py,
          by simpa [setS] using base.len_nx, by simpa [setS] using base.len_ny, by simpa [setS] using base.len_lp,
          h.mlen, by simpa using rel0.mlen_lp, by simpa using rel0.mlen_nr, by simpa [setS] using h.pan, ?_, ?_, ?_⟩
        · intro q hq
          by_cases hqp : p = q
          · subst hqp
            simp [setS, getD_set, base.len_nx, base.len_ny, rel0.mlen_nr, hp, tgtRel, hx, hy, htr, htc]
          · simpa [setS, getD_set_ne _ _ _ _ _ hqp] using base.nr q hq
        · intro q hq
          by_cases hqp : p = q
          · subst hqp
            simp [setS, getD_set, base.len_lp, rel0.mlen_lp, hp, lpRel, hnds, env.arith.sqrt_sq, env.arith.sqrt_lt,
              env.arith.sqrt_le]
          · simpa [setS, getD_set_ne _ _ _ _ _ hqp] using base.lp q hq
        · intro q hq
          by_cases hqp : p = q
          · subst hqp
            simp [getD_set, rel0.mlen_lp, hp]
          · simpa [getD_set_ne _ _ _ _ _ hqp] using rel0.nrlp q hq

end phases

/-! ### one pixel -/

/-- **step 2**: one pixel of the generated line sweep (the `k`-th in sweep order) is `Prox.pixel` -/
theorem pixel_refines {N : Names} (hN : N.WF) {c : Cfg} {emb : Nat → F} {tg : Nat → Nat → Bool} {row : Nat} {fwd : Bool}
    (fuel : Nat) (s : State F) (m : LineSt) (k : Nat) (hk : k < c.W) (hs : s.ctl = .run)
    (env : SweepEnv N c emb tg row fwd s) (rel : LineRel c emb s m)
    (hpix : s.ienv (N.nm .pixel) = ((posOf c.W fwd k : Nat) : Int)) :
    ((exec fuel (pixelBody N) s).ctl = .run ∨ (exec fuel (pixelBody N) s).ctl = .cont) ∧
    PixFrame N s (exec fuel (pixelBody N) s) ∧
    LineRel c emb (exec fuel (pixelBody N) s) (pixel c tg row fwd m k) := by
  have hne := hN.nm_eq
  have hp : posOf c.W fwd k < c.W := posOf_lt c.W fwd k hk
  generalize hpdef : posOf c.W fwd k = p at hp hpix
  -- is_target = False
  rw [pixelBody, exec_seq_run _ _ _ _ (by rw [init_exec]; exact hs), init_exec]
  generalize hs1 : ({ s with benv := setS s.benv (N.nm .isTarget) false } : State F) = s1
  have f1 : PixFrame N s s1 := by
    subst hs1
    refine ⟨rfl, rfl, fun _ _ => rfl, fun _ _ => rfl, ?_, fun _ _ _ _ _ => rfl, fun _ _ => rfl⟩
    intro v hv; simp [setS, hv .isTarget rfl]
  have e1 : s1.ia = s.ia ∧ s1.fa = s.fa ∧ s1.ctl = .run ∧ s1.benv (N.nm .isTarget) = false := by
    subst hs1; exact ⟨rfl, rfl, hs, by simp [setS]⟩
  obtain ⟨e1i, e1f, c1, t1⟩ := e1
  have env1 := env.of_pix hN f1
  have hpix1 : s1.ienv (N.nm .pixel) = p := by rw [f1.keepI hN .pixel rfl, hpix]
  -- the target test
  obtain ⟨c2, t2, so2, fe2, ie2, be2⟩ := test_exec N hN s1 fuel c1 p c.W (s1.fa N.vals).length hp hpix1 env1.shp.src
    env1.vshp env1.nv rfl t1
  rw [exec_seq_run _ _ _ _ c2]
  generalize hs2 : exec fuel (bTest N) s1 = s2 at c2 t2 so2 fe2 ie2 be2
  rw [env1.tgt p hp] at t2
  have f12 : PixFrame N s1 s2 :=
    ⟨so2.shp, so2.ext, fun v hv => ie2 v (hv .i rfl), fun v _ => by rw [fe2], fun v hv => be2 v (hv .isTarget rfl),
     fun a _ _ _ _ => by rw [so2.ia], fun a _ => by rw [so2.fa]⟩
  have f2 : PixFrame N s s2 := f1.trans f12
  have env2 := env.of_pix hN f2
  have hpix2 : s2.ienv (N.nm .pixel) = p := by rw [f2.keepI hN .pixel rfl, hpix]
  have e2i : s2.ia = s.ia := by rw [so2.ia, e1i]
  have e2f : s2.fa = s.fa := by rw [so2.fa, e1f]
  cases htg : tg row p with
  | true =>
    rw [htg] at t2
    have hx := tgt_true N hN s2 fuel c2 c.H c.W p env2.shp hp hpix2 t2
    rw [exec_seq_stop _ _ _ _ (by rw [hx]; simp), hx]
    have em : pixel c tg row fwd m k =
        { pan := m.pan.set p (some (row, p)), lp := m.lp.set p (some 0), nr := m.nr.set p (some (row, p)) } := by
      simp only [pixel, hpdef, htg, if_true]
    rw [em, env2.row_eq, e2i, e2f]
    refine ⟨Or.inr rfl, f2.trans ⟨rfl, rfl, fun _ _ => rfl, fun _ _ => rfl, fun _ _ => rfl, ?_, ?_⟩, ?_⟩
    · intro a h1 h2 h3 h4; simp [setS, h1, h2, h3, h4, e2i]
    · intro a ha; simp [setS, ha, e2f]
    · refine ⟨by simpa [setS] using rel.len_px, by simpa [setS] using rel.len_py, by simpa [setS] using rel.len_nx,
        by simpa [setS] using rel.len_ny, by simpa [setS] using rel.len_lp, by simpa using rel.mlen_pan,
        by simpa using rel.mlen_lp, by simpa using rel.mlen_nr, ?_, ?_, ?_, ?_⟩
      · intro q hq
        by_cases hqp : p = q
        · subst hqp
          simp [setS, getD_set, rel.len_px, rel.len_py, rel.mlen_pan, hp, tgtRel, env.row_lt]
        · simpa [setS, getD_set_ne _ _ _ _ _ hqp] using rel.pan q hq
      · intro q hq
        by_cases hqp : p = q
        · subst hqp
          simp [setS, getD_set, rel.len_nx, rel.len_ny, rel.mlen_nr, hp, tgtRel, env.row_lt]
        · simpa [setS, getD_set_ne _ _ _ _ _ hqp] using rel.nr q hq
      · intro q hq
        by_cases hqp : p = q
        · subst hqp
          simp [setS, getD_set, rel.len_lp, rel.mlen_lp, hp, lpRel, env.arith.zero_sq, env.arith.zero_lt, env.arith.zero_le]
        · simpa [setS, getD_set_ne _ _ _ _ _ hqp] using rel.lp q hq
      · intro q hq
        by_cases hqp : p = q
        · subst hqp
          simp [getD_set, rel.mlen_lp, hp]
        · simpa [getD_set_ne _ _ _ _ _ hqp] using rel.nrlp q hq
  | false =>
    rw [htg] at t2
    rw [exec_seq_run _ _ _ _ (by rw [tgt_false N s2 fuel t2]; exact c2), tgt_false N s2 fuel t2]
    -- near_distance_square = max_distance ** 2 * 2.0
    rw [bCand, exec_seq_run _ _ _ _ (by rw [nds_exec]; exact c2), nds_exec]
    have h4 : CandRel N c emb s (setNds N s2 (Fl.mul (Fl.mul (s2.fenv (N.nm .maxDistance)) (s2.fenv (N.nm .maxDistance))) (Fl.lit 2 1)))
        m.pan c.max2x2 :=
      ⟨f2.trans (setNds_frame ..), c2, by simp [e2i], by simp [e2i], by simp [e2f],
       by simpa [e2i] using rel.len_px, by simpa [e2i] using rel.len_py, rel.mlen_pan,
       by simpa [e2i] using rel.pan,
       Or.inl ⟨by simp [setNds_fenv_keep N s2 _ hN .maxDistance], rfl⟩⟩
    generalize hs4 : setNds N s2 (Fl.mul (Fl.mul (s2.fenv (N.nm .maxDistance)) (s2.fenv (N.nm .maxDistance))) (Fl.lit 2 1)) = s4
      at h4
    -- above
    obtain ⟨h5, d5⟩ := cand_above hN fuel env hp hpix h4
    rw [exec_seq_run _ _ _ _ h5.ctl]
    generalize hs5 : exec fuel (bAbove N) s4 = s5 at h5 d5
    generalize ha : fromAbove c row p m.pan c.max2x2 = a at h5 d5
    -- last = pixel - step
    have hl : exec fuel (bLastSet N) s5 =
        { s5 with ienv := setS s5.ienv (N.nm .last) (s5.ienv (N.nm .pixel) - s5.ienv (N.nm .step)) } := by
      simp [bLastSet, exec, IE.ok, IE.eval, IOp.eval]
    obtain ⟨h6, d6⟩ := cand_setI hN env hp hpix h5 d5 .last rfl (s5.ienv (N.nm .pixel) - s5.ienv (N.nm .step))
    rw [exec_seq_run _ _ _ _ (by rw [hl]; exact h5.ctl), hl]
    have hv6 : s5.ienv (N.nm .pixel) - s5.ienv (N.nm .step) = (p : Int) - (if fwd then 1 else -1) := by
      rw [h5.frame.keepI hN .pixel rfl, h5.frame.keepI hN .step rfl, hpix, env.step]
    rw [hv6] at h6 d6 ⊢
    generalize hs6 : ({ s5 with ienv := setS s5.ienv (N.nm .last) ((p : Int) - (if fwd then 1 else -1)) } : State F) = s6
      at h6 d6
    have hlast : s6.ienv (N.nm .last) = (p : Int) - (if fwd then 1 else -1) := by subst hs6; simp
    have hg6 : if (k == 0) then s6.ienv (N.nm .pixel) = s6.ienv (N.nm .start)
        else (s6.ienv (N.nm .pixel) ≠ s6.ienv (N.nm .start) ∧ s6.ienv (N.nm .last) = ((posOf c.W fwd (k - 1) : Nat) : Int) ∧
          posOf c.W fwd (k - 1) < c.W) := by
      rw [h6.frame.keepI hN .pixel rfl, h6.frame.keepI hN .start rfl, hpix, env.start, hlast, ← hpdef]
      unfold posOf
      by_cases hk0 : k = 0 <;> cases fwd <;> simp [hk0] <;> omega
    obtain ⟨h7, d7⟩ := cand_nb hN fuel env hp hpix h6 d6 .pixel .last .start (k == 0) (posOf c.W fwd (k - 1)) hg6
    rw [exec_seq_run _ _ _ _ h7.ctl]
    generalize hs7 : exec fuel (bNb N .pixel .last .start) s6 = s7 at h7 d7
    have hab : (a.1, a.2) = a := rfl
    rw [hab] at h7 d7
    generalize hb : stepNb c row p (k == 0) (posOf c.W fwd (k - 1)) a = b at h7 d7
    -- tr = pixel + step
    have htr : exec fuel (bTrSet N) s7 =
        { s7 with ienv := setS s7.ienv (N.nm .tr) (s7.ienv (N.nm .pixel) + s7.ienv (N.nm .step)) } := by
      simp [bTrSet, exec, IE.ok, IE.eval, IOp.eval]
    obtain ⟨h8, d8⟩ := cand_setI hN env hp hpix h7 d7 .tr rfl (s7.ienv (N.nm .pixel) + s7.ienv (N.nm .step))
    rw [exec_seq_run _ _ _ _ (by rw [htr]; exact h7.ctl), htr]
    have hv8 : s7.ienv (N.nm .pixel) + s7.ienv (N.nm .step) = (p : Int) + (if fwd then 1 else -1) := by
      rw [h7.frame.keepI hN .pixel rfl, h7.frame.keepI hN .step rfl, hpix, env.step]
    rw [hv8] at h8 d8 ⊢
    generalize hs8 : ({ s7 with ienv := setS s7.ienv (N.nm .tr) ((p : Int) + (if fwd then 1 else -1)) } : State F) = s8
      at h8 d8
    have htrv : s8.ienv (N.nm .tr) = (p : Int) + (if fwd then 1 else -1) := by subst hs8; simp
    have hg8 : if (k + 1 == c.W) then s8.ienv (N.nm .tr) = s8.ienv (N.nm .end_)
        else (s8.ienv (N.nm .tr) ≠ s8.ienv (N.nm .end_) ∧ s8.ienv (N.nm .tr) = ((posOf c.W fwd (k + 1) : Nat) : Int) ∧
          posOf c.W fwd (k + 1) < c.W) := by
      rw [h8.frame.keepI hN .end_ rfl, env.end_, htrv, ← hpdef]
      unfold posOf
      by_cases hk1 : k + 1 = c.W <;> cases fwd <;> simp [hk1] <;> omega
    obtain ⟨h9, d9⟩ := cand_nb hN fuel env hp hpix h8 d8 .tr .tr .end_ (k + 1 == c.W) (posOf c.W fwd (k + 1)) hg8
    rw [exec_seq_run _ _ _ _ h9.ctl]
    generalize hs9 : exec fuel (bNb N .tr .tr .end_) s8 = s9 at h9 d9
    have hbb : (b.1, b.2) = b := rfl
    rw [hbb] at h9 d9
    -- update
    obtain ⟨c10, f10, r10⟩ := cand_upd hN fuel env hp hpix rel h9 d9
    have em : pixel c tg row fwd m k =
        update c m p (stepNb c row p (k + 1 == c.W) (posOf c.W fwd (k + 1)) b).1
          (stepNb c row p (k + 1 == c.W) (posOf c.W fwd (k + 1)) b).2 := by
      simp only [pixel, hpdef, htg, Bool.false_eq_true, if_false, ha, hb]
    rw [em]
    exact ⟨Or.inl c10, f10, r10⟩

end XrsVerif.IL.Px
