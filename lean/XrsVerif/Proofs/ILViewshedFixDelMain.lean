import XrsVerif.Proofs.ILViewshedFixDelBody
/-
  Proofs/ILViewshedFixDelMain.lean -- the loop of `_rb_delete_fixup` (inlined in `Gen.IL.vsDelete`) computes the
  model's `delFixP`, and the whole fix-up (loop, `x` blackened, the root returned) the model's `rbDelFix`.
-/
set_option linter.unusedSectionVars false
set_option linter.unusedVariables false
set_option linter.unusedSimpArgs false
namespace XrsVerif.ILVs
open XrsVerif XrsVerif.IL XrsVerif.Viewshed
variable {F : Type} [Fl F]

/-- one iteration whose body ends normally or with `continue` -/
theorem exec_while_rc (fuel : Nat) (c : BE) (b : St) (s : State F) (hok : c.ok s = true) (hc : c.eval s = true)
    (hb : (exec fuel b s).ctl = .run ∨ (exec fuel b s).ctl = .cont) :
    exec (fuel + 1) (.while c b) s = exec fuel (.while c b) (runOf (exec fuel b s)) := by
  simp only [exec, hok, hc, if_true, runOf]
  rcases hb with hb | hb
  · simp only [hb]
    congr 1
    cases h : exec fuel b s
    simp_all
  · simp only [hb]

/-- the loop test `x != root and tree_nodes[x][TN_COLOR_ID] == RB_BLACK` -/
theorem delFixLoop_test (n : Nat) (s : State F) (xl : Sh) (x : Nat) (xr : Sh) (ctx : Ctx) (h : DFCore s n xl x xr ctx) :
    BE.ok s (.and (.cmpI .ne (.var "_rb_delete_fixup17$x") (.var "_rb_delete_fixup17$root"))
      (.cmpI .eq (.ld2 "tree_nodes" (.var "_rb_delete_fixup17$x") (.lit 0)) (.lit 1))) = true ∧
    BE.eval s (.and (.cmpI .ne (.var "_rb_delete_fixup17$x") (.var "_rb_delete_fixup17$root"))
      (.cmpI .eq (.ld2 "tree_nodes" (.var "_rb_delete_fixup17$x") (.lit 0)) (.lit 1))) =
      (decide (ctx ≠ []) && decide (nAt (s.ia "tree_nodes") x 0 = 1)) := by
  have hxn : x + 1 < n := Linked.idx_lt h.linked x (mem_plug _ ctx _ (by simp [Sh.idxs]))
  have hinx : inRange (x : Int) n = true := inRange_ptr n _ (by omega) h.vs.pos
  constructor
  · simp [BE.ok, IE.ok_var, okN s n h.vs.shpN, h.hx, hinx, IE.ok_lit]
  · simp only [BE.eval_and, BE.eval_cmpI, IE.eval_var, evalN s n h.vs.shpN _ 0 (by decide : (0 : Int) ≤ 0), h.hx, h.hroot,
      IE.eval_lit, rowOf_nat, cmpInt]
    congr 1
    cases ctx with
    | nil => simp [plug, Sh.ptr]
    | cons fr rest =>
      have := plug_ptr_ne fr rest (.node xl x xr) x (by simp [Sh.idxs]) h.nodup
      simp only [ne_eq, reduceCtorEq, not_false_eq_true, decide_true]
      exact decide_eq_true (fun e => this e.symm)

/-- **the loop of `_rb_delete_fixup`** = the model's `delFixP` -/
theorem delFixLoop_spec (n : Nat) : ∀ (k : Nat) (ctx : Ctx) (xl : Sh) (x : Nat) (xr : Sh) (fuel : Nat) (s : State F),
    DFCore s n xl x xr ctx → (ctx.length ≤ k ∨ ctx = [] ∨ nAt (s.ia "tree_nodes") x 0 = 0) → k + 1 ≤ fuel →
    let r := exec fuel delFixLoop s
    r.ctl = .run ∧ ∃ (xl' : Sh) (x' : Nat) (xr' : Sh) (ctx' : Ctx), DFCore r n xl' x' xr' ctx' ∧
      (plug (.node xl' x' xr') ctx').idxs = (plug (.node xl x xr) ctx).idxs ∧
      vAt (r.fa "tree_vals") (n - 1) 7 = vAt (s.fa "tree_vals") (n - 1) 7 ∧
      (absT (r.fa "tree_vals") (r.ia "tree_nodes") (plug (.node xl' x' xr') ctx'), ctx'.map Fr.dir) =
        delFixP (vAt (s.fa "tree_vals") (n - 1) 7) (ctx.map Fr.dir)
          (absT (s.fa "tree_vals") (s.ia "tree_nodes") (plug (.node xl x xr) ctx)) := by
  intro k
  induction k with
  | zero =>
    intro ctx xl x xr fuel s h hk hf
    obtain ⟨fuel, rfl⟩ : ∃ f, fuel = f + 1 := ⟨fuel - 1, by omega⟩
    intro r
    have hstop : ctx = [] ∨ nAt (s.ia "tree_nodes") x 0 = 0 := by
      rcases hk with hk | hk
      · exact Or.inl (List.length_eq_zero_iff.mp (Nat.le_zero.mp hk))
      · exact hk
    obtain ⟨tok, tev⟩ := delFixLoop_test n s xl x xr ctx h
    have hr : r = s := by
      simp only [r, delFixLoop]
      rw [exec_while_exit _ _ _ _ tok (by
        rw [tev]; rcases hstop with e | e
        · simp [e]
        · simp [e])]
    rw [hr]
    exact ⟨h.run, xl, x, xr, ctx, h, rfl, rfl, (delFixP_stop _ _ _ _ _ _ _ hstop).symm⟩
  | succ k ih =>
    intro ctx xl x xr fuel s h hk hf
    obtain ⟨fuel, rfl⟩ : ∃ f, fuel = f + 1 := ⟨fuel - 1, by omega⟩
    intro r
    obtain ⟨tok, tev⟩ := delFixLoop_test n s xl x xr ctx h
    by_cases hstop : ctx = [] ∨ nAt (s.ia "tree_nodes") x 0 = 0
    · have hr : r = s := by
        simp only [r, delFixLoop]
        rw [exec_while_exit _ _ _ _ tok (by
          rw [tev]; rcases hstop with e | e
          · simp [e]
          · simp [e])]
      rw [hr]
      exact ⟨h.run, xl, x, xr, ctx, h, rfl, rfl, (delFixP_stop _ _ _ _ _ _ _ hstop).symm⟩
    · have hne : ctx ≠ [] := fun e => hstop (Or.inl e)
      have hx0 : ¬ nAt (s.ia "tree_nodes") x 0 = 0 := fun e => hstop (Or.inr e)
      have hxb : nAt (s.ia "tree_nodes") x 0 = 1 :=
        (colV_black (h.colOK x (mem_plug _ ctx _ (by simp [Sh.idxs])))).mpr hx0
      have hlen : ctx.length ≤ k + 1 := by
        rcases hk with hk | hk | hk
        · exact hk
        · exact absurd hk hne
        · exact absurd hk hx0
      obtain ⟨fr, rest, rfl⟩ : ∃ fr rest, ctx = fr :: rest := by
        cases ctx with
        | nil => exact absurd rfl hne
        | cons a b => exact ⟨a, b, rfl⟩
      obtain ⟨b1, xl1, x1, xr1, ctx1, b2, b3, b4, b5, b6⟩ := delFixBody_spec fuel n s xl x xr fr rest h hxb
      generalize hs1 : exec fuel delFixBody s = s1 at b1 b2 b3 b4 b5 b6
      have hr : r = exec fuel delFixLoop (runOf s1) := by
        simp only [r, delFixLoop]
        rw [exec_while_rc _ _ _ _ tok (by rw [tev]; simp [hxb]) (by rw [hs1]; exact b1), hs1]
      obtain ⟨c1, xl2, x2, xr2, ctx2, c2, c3, c4, c5⟩ := ih ctx1 xl1 x1 xr1 fuel (runOf s1) b2 (by
        rcases b3 with b3 | b3
        · simp only [List.length_cons] at hlen; exact Or.inl (by omega)
        · exact Or.inr b3) (by omega)
      rw [← hr] at c1 c2 c4 c5
      have e5 : vAt ((runOf s1).fa "tree_vals") (n - 1) 7 = vAt (s.fa "tree_vals") (n - 1) 7 := b5
      refine ⟨c1, xl2, x2, xr2, ctx2, c2, c3.trans b4, c4.trans e5, ?_⟩
      rw [c5, e5]
      exact b6

end XrsVerif.ILVs
