import XrsVerif.Proofs.ILViewshedFixDelBody
/-
  Proofs/ILViewshedFixDelMain.lean -- the loop of `_rb_delete_fixup` (inlined in `Gen.IL.vsDelete`) computes the
  model's `delFixP`, and the whole fix-up (loop, `x` blackened, the root returned) the model's `rbDelFix`.
-/
set_option linter.unusedSectionVars false
set_option linter.unusedVariables false
set_option linter.unusedSimpArgs false
namespace XrsVerif.ILVs
open XrsVerif XrsVerif.IL XrsVerif.Viewshed
variable {F : Type} [Fl F]

/-- one iteration whose body ends normally or with `continue` -/
theorem exec_while_rc (fuel : Nat) (c : BE) (b : St) (s : State F) (hok : c.ok s = true) (hc : c.eval s = true)
    (hb : (exec fuel b s).ctl = .run ∨ (exec fuel b s).ctl = .cont) :
    exec (fuel + 1) (.while c b) s = exec fuel (.while c b) (runOf (exec fuel b s)) := by
  simp only [exec, hok, hc, if_true, runOf]
  rcases hb with hb | hb
  · simp only [hb]
    congr 1
    cases h : exec fuel b s
    simp_all
  · simp only [hb]

/-- the loop test `x != root and tree_nodes[x][TN_COLOR_ID] == RB_BLACK` -/
theorem delFixLoop_test (n : Nat) (s : State F) (xl : Sh) (x : Nat) (xr : Sh) (ctx : Ctx) (h : DFCore s n xl x xr ctx) :
    BE.ok s (.and (.cmpI .ne (.var "_rb_delete_fixup17$x") (.var "_rb_delete_fixup17$root"))
      (.cmpI .eq (.ld2 "tree_nodes" (.var "_rb_delete_fixup17$x") (.lit 0)) (.lit 1))) = true ∧
    BE.eval s (.and (.cmpI .ne (.var "_rb_delete_fixup17$x") (.var "_rb_delete_fixup17$root"))
      (.cmpI .eq (.ld2 "tree_nodes" (.var "_rb_delete_fixup17$x") (.lit 0)) (.lit 1))) =
      (decide (ctx ≠ []) && decide (nAt (s.ia "tree_nodes") x 0 = 1)) := by
  have hxn : x + 1 < n := Linked.idx_lt h.linked x (mem_plug _ ctx _ (by simp [Sh.idxs]))
  have hinx : inRange (x : Int) n = true := inRange_ptr n _ (by omega) h.vs.pos
  constructor
  · simp [BE.ok, IE.ok_var, okN s n h.vs.shpN, h.hx, hinx, IE.ok_lit]
  · simp only [BE.eval_and, BE.eval_cmpI, IE.eval_var, evalN s n h.vs.shpN _ 0 (by decide : (0 : Int) ≤ 0), h.hx, h.hroot,
      IE.eval_lit, rowOf_nat, cmpInt]
    congr 1
    cases ctx with
    | nil => simp [plug, Sh.ptr]
    | cons fr rest =>
      have := plug_ptr_ne fr rest (.node xl x xr) x (by simp [Sh.idxs]) h.nodup
      simp only [ne_eq, reduceCtorEq, not_false_eq_true, decide_true]
      exact decide_eq_true (fun e => this e.symm)

/-- **the loop of `_rb_delete_fixup`** = the model's `delFixP` -/
theorem delFixLoop_spec (n : Nat) : ∀ (k : Nat) (ctx : Ctx) (xl : Sh) (x : Nat) (xr : Sh) (fuel : Nat) (s : State F),
    DFCore s n xl x xr ctx → (ctx.length ≤ k ∨ ctx = [] ∨ nAt (s.ia "tree_nodes") x 0 = 0) → k + 1 ≤ fuel →
    let r := exec fuel delFixLoop s
    r.ctl = .run ∧ ∃ (xl' : Sh) (x' : Nat) (xr' : Sh) (ctx' : Ctx), DFCore r n xl' x' xr' ctx' ∧
      (plug (.node xl' x' xr') ctx').idxs = (plug (.node xl x xr) ctx).idxs ∧
      vAt (r.fa "tree_vals") (n - 1) 7 = vAt (s.fa "tree_vals") (n - 1) 7 ∧
      (absT (r.fa "tree_vals") (r.ia "tree_nodes") (plug (.node xl' x' xr') ctx'), ctx'.map Fr.dir) =
        delFixP (vAt (s.fa "tree_vals") (n - 1) 7) (ctx.map Fr.dir)
          (absT (s.fa "tree_vals") (s.ia "tree_nodes") (plug (.node xl x xr) ctx)) := by
  intro k
  induction k with
  | zero =>
    intro ctx xl x xr fuel s h hk hf
    obtain ⟨fuel, rfl⟩ : ∃ f, fuel = f + 1 := ⟨fuel - 1, by omega⟩
    intro r
    have hstop : ctx = [] ∨ nAt (s.ia "tree_nodes") x 0 = 0 := by
      rcases hk with hk | hk
      · exact Or.inl (List.length_eq_zero_iff.mp (Nat.le_zero.mp hk))
      · exact hk
    obtain ⟨tok, tev⟩ := delFixLoop_test n s xl x xr ctx h
    have hr : r = s := by
      simp only [r, delFixLoop]
      rw [exec_while_exit _ _ _ _ tok (by
        rw [tev]; rcases hstop with e | e
        · simp [e]
        · simp [e])]
    rw [hr]
    exact ⟨h.run, xl, x, xr, ctx, h, rfl, rfl, (delFixP_stop _ _ _ _ _ _ _ hstop).symm⟩
  | succ k ih =>
    intro ctx xl x xr fuel s h hk hf
    obtain ⟨fuel, rfl⟩ : ∃ f, fuel = f + 1 := ⟨fuel - 1, by omega⟩
    intro r
    obtain ⟨tok, tev⟩ := delFixLoop_test n s xl x xr ctx h
    by_cases hstop : ctx = [] ∨ nAt (s.ia "tree_nodes") x 0 = 0
    · have hr : r = s := by
        simp only [r, delFixLoop]
        rw [exec_while_exit _ _ _ _ tok (by
          rw [tev]; rcases hstop with e | e
          · simp [e]
          · simp [e])]
      rw [hr]
      exact ⟨h.run, xl, x, xr, ctx, h, rfl, rfl, (delFixP_stop _ _ _ _ _ _ _ hstop).symm⟩
    · have hne : ctx ≠ [] := fun e => hstop (Or.inl e)
      have hx0 : ¬ nAt (s.ia "tree_nodes") x 0 = 0 := fun e => hstop (Or.inr e)
      have hxb : nAt (s.ia "tree_nodes") x 0 = 1 :=
        (colV_black (h.colOK x (mem_plug _ ctx _ (by simp [Sh.idxs])))).mpr hx0
      have hlen : ctx.length ≤ k + 1 := by
        rcases hk with hk | hk | hk
        · exact hk
        · exact absurd hk hne
        · exact absurd hk hx0
      obtain ⟨fr, rest, rfl⟩ : ∃ fr rest, ctx = fr :: rest := by
        cases ctx with
        | nil => exact absurd rfl hne
        | cons a b => exact ⟨a, b, rfl⟩
      obtain ⟨b1, xl1, x1, xr1, ctx1, b2, b3, b4, b5, b6⟩ := delFixBody_spec fuel n s xl x xr fr rest h hxb
      generalize hs1 : exec fuel delFixBody s = s1 at b1 b2 b3 b4 b5 b6
      have hr : r = exec fuel delFixLoop (runOf s1) := by
        simp only [r, delFixLoop]
        rw [exec_while_rc _ _ _ _ tok (by rw [tev]; simp [hxb]) (by rw [hs1]; exact b1), hs1]
      obtain ⟨c1, xl2, x2, xr2, ctx2, c2, c3, c4, c5⟩ := ih ctx1 xl1 x1 xr1 fuel (runOf s1) b2 (by
        rcases b3 with b3 | b3
        · simp only [List.length_cons] at hlen; exact Or.inl (by omega)
        · exact Or.inr b3) (by omega)
      rw [← hr] at c1 c2 c4 c5
      have e5 : vAt ((runOf s1).fa "tree_vals") (n - 1) 7 = vAt (s.fa "tree_vals") (n - 1) 7 := b5
      refine ⟨c1, xl2, x2, xr2, ctx2, c2, c3.trans b4, c4.trans e5, ?_⟩
      rw [c5, e5]
      exact b6

/-! ### the whole fix-up -/

/-- the call of `_rb_delete_fixup(tree_vals, tree_nodes, root, x)` (the branch taken when a black node was spliced
    out and `x` is not NIL) -/
def delFixThen : St :=
  (.seq (.setI "_rb_delete_fixup17$root" (.var "root"))
  (.seq (.setI "_rb_delete_fixup17$x" (.var "x"))
  (.seq (.scope (.seq delFixLoop delFixEnd))
  (.setI "root" (.var "_rb_delete_fixup17$ret0")))))

theorem delFixCall_eq : delFixCall =
    .ite (.and (.cmpI .eq (.ld2 "tree_nodes" (.var "y") (.lit 0)) (.lit 1)) (.cmpI .ne (.var "x") (.lit (-1))))
      delFixThen .skip := rfl

/-- **`_rb_delete_fixup` inlined**, started with `x` at the position `ctx` of a well-linked tree with sane colour
    cells: the arrays afterwards hold `rbDelFix` of the abstraction; linkage, the NIL row and the colour sanity are
    kept -/
theorem delFixThen_spec (fuel n : Nat) (s : State F) (xl : Sh) (x : Nat) (xr : Sh) (ctx : Ctx) (hv : VS s n)
    (hrun : s.ctl = .run) (hL : Linked (s.ia "tree_nodes") n (-1) (plug (.node xl x xr) ctx))
    (hN : (plug (.node xl x xr) ctx).idxs.Nodup) (hx : s.ienv "x" = x)
    (hroot : s.ienv "root" = (plug (.node xl x xr) ctx).ptr) (hnil : nAt (s.ia "tree_nodes") (n - 1) 0 = 1)
    (hcol : ∀ j ∈ (plug (.node xl x xr) ctx).idxs, ColV (nAt (s.ia "tree_nodes") j 0))
    (hf : ctx.length + 2 ≤ fuel) :
    let r := exec fuel delFixThen s
    let S : Fv F := vAt (s.fa "tree_vals") (n - 1) 7
    r.ctl = .run ∧ VS r n ∧ ∃ sh' : Sh, Linked (r.ia "tree_nodes") n (-1) sh' ∧
      sh'.idxs = (plug (.node xl x xr) ctx).idxs ∧
      absT (r.fa "tree_vals") (r.ia "tree_nodes") sh' =
        rbDelFix S (ctx.map Fr.dir) (absT (s.fa "tree_vals") (s.ia "tree_nodes") (plug (.node xl x xr) ctx)) ∧
      r.ienv "root" = sh'.ptr ∧ vAt (r.fa "tree_vals") (n - 1) 7 = S ∧
      nAt (r.ia "tree_nodes") (n - 1) 0 = 1 ∧ (∀ j ∈ sh'.idxs, ColV (nAt (r.ia "tree_nodes") j 0)) := by
  intro r S
  have h1 : exec fuel (.setI "_rb_delete_fixup17$root" (.var "root")) s =
      { s with ienv := setS s.ienv "_rb_delete_fixup17$root" (plug (.node xl x xr) ctx).ptr } := by
    rw [exec_setI _ _ _ _ (IE.ok_var _ _), IE.eval_var, hroot]
  generalize hs1 : ({ s with ienv := setS s.ienv "_rb_delete_fixup17$root" (plug (.node xl x xr) ctx).ptr } : State F) = s1 at h1
  have h2 : exec fuel (.setI "_rb_delete_fixup17$x" (.var "x")) s1 =
      { s1 with ienv := setS s1.ienv "_rb_delete_fixup17$x" (x : Int) } := by
    rw [exec_setI _ _ _ _ (IE.ok_var _ _), IE.eval_var, ← hs1]; simp [setS, hx]
  generalize hs2 : ({ s1 with ienv := setS s1.ienv "_rb_delete_fixup17$x" (x : Int) } : State F) = s2 at h2
  have hv2 : VS s2 n := by rw [← hs2, ← hs1]; exact hv.of_eq rfl rfl rfl
  have hrun2 : s2.ctl = .run := by rw [← hs2, ← hs1]; exact hrun
  have hia2 : s2.ia = s.ia := by rw [← hs2, ← hs1]
  have hfa2 : s2.fa = s.fa := by rw [← hs2, ← hs1]
  have hcore2 : DFCore s2 n xl x xr ctx :=
    ⟨hv2, hrun2, by rw [hia2]; exact hL, hN, by rw [← hs2]; simp [setS], by rw [← hs2, ← hs1]; simp [setS],
     by rw [hia2]; exact hnil, by rw [hia2]; exact hcol⟩
  -- the loop
  obtain ⟨fuel, rfl⟩ : ∃ f, fuel = f + 1 := ⟨fuel - 1, by omega⟩
  obtain ⟨c1, xl4, x4, xr4, ctx4, c2, c3, c4, c5⟩ := delFixLoop_spec n ctx.length ctx xl x xr (fuel + 1) s2 hcore2
    (Or.inl (Nat.le_refl _)) (by omega)
  generalize hs4 : exec (fuel + 1) delFixLoop s2 = s4 at c1 c2 c4 c5
  rw [hfa2] at c4 c5
  rw [hia2] at c5
  -- `x` is blackened
  obtain ⟨d1, d2, d3, d4, d5, d6, d7, d8⟩ := stCol_at (fuel + 1) n s4 c2.vs c2.run "_rb_delete_fixup17$x" 1 ctx4 xl4 x4 xr4
    c2.linked c2.nodup c2.hx
  generalize hs5 : exec (fuel + 1) (.stI2 "tree_nodes" (.var "_rb_delete_fixup17$x") (.lit 0) (.lit 1)) s4 = s5 at d1 d2 d3 d4 d5 d6 d7 d8
  have hx4n : x4 + 1 < n := Linked.idx_lt c2.linked x4 (mem_plug _ ctx4 _ (by simp [Sh.idxs]))
  have hend : exec (fuel + 1) delFixEnd s4 =
      { s5 with ienv := setS s5.ienv "_rb_delete_fixup17$ret0" (plug (.node xl4 x4 xr4) ctx4).ptr, ctl := .ret } := by
    simp only [delFixEnd]
    rw [exec_seq_run _ _ _ _ (by rw [hs5]; exact d1), hs5, exec_seq_run _ _ _ _ (by
      rw [exec_setI _ _ _ _ (IE.ok_var _ _)]; exact d1), exec_setI _ _ _ _ (IE.ok_var _ _), IE.eval_var, exec_ret, d3, c2.hroot]
  have hscope : exec (fuel + 1) (.scope (.seq delFixLoop delFixEnd)) s2 =
      { s5 with ienv := setS s5.ienv "_rb_delete_fixup17$ret0" (plug (.node xl4 x4 xr4) ctx4).ptr, ctl := .run } := by
    rw [exec_scope, exec_seq_run _ _ _ _ (by rw [hs4]; exact c1), hs4, hend]
    simp
  have hr : r = { s5 with
      ienv := (setS (setS s5.ienv "_rb_delete_fixup17$ret0" (plug (.node xl4 x4 xr4) ctx4).ptr) "root" (plug (.node xl4 x4 xr4) ctx4).ptr),
      ctl := .run } := by
    simp only [r, delFixThen]
    rw [exec_seq_run _ _ _ _ (by rw [h1, ← hs1]; exact hrun), h1, exec_seq_run _ _ _ _ (by rw [h2]; exact hrun2), h2,
      exec_seq_run _ _ _ _ (by rw [hscope]), hscope, exec_setI _ _ _ _ (IE.ok_var _ _), IE.eval_var]
    simp [setS]
  have hd1 : decide ((1 : Int) = 0) = false := by decide
  rw [hd1] at d6
  rw [hr]
  refine ⟨rfl, ⟨d2.shpV, d2.shpN, d2.lenV, d2.lenN, d2.pos⟩, plug (.node xl4 x4 xr4) ctx4, d5, c3, ?_, by simp [setS], ?_, ?_, ?_⟩
  · show absT (s5.fa "tree_vals") (s5.ia "tree_nodes") _ = _
    rw [d6]
    unfold rbDelFix
    rw [← c5]
    show _ = atPath (setCol false) (ctx4.map Fr.dir).reverse _
    rw [map_dir_reverse]
  · show vAt (s5.fa "tree_vals") (n - 1) 7 = S
    rw [d4, c4]
  · show nAt (s5.ia "tree_nodes") (n - 1) 0 = 1
    rw [d7 _ 0 (by decide) (by omega)]
    exact c2.nilBlack
  · intro j hj
    show ColV (nAt (s5.ia "tree_nodes") j 0)
    by_cases hj4 : j = x4
    · rw [hj4, d8]; exact colV_one
    · rw [d7 j 0 (by decide) (fun e => hj4 e.1)]
      exact c2.colOK j hj

end XrsVerif.ILVs
