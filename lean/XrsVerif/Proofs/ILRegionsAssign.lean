import XrsVerif.Proofs.ILRegionsFind
/-
  Proofs/ILRegionsAssign.lean -- the end of a first-pass cell step of `Gen.IL.areaConnectivity`:

      if len(neighbor_matches) > 0:
          <search loop>
          if assigned_value is not None: out[y, x] = assigned_value
          else: out[y, x] = uid; uid += 1
      else:
          out[y, x] = uid; uid += 1

  `exec_assign1`: `out[y, x]` becomes `area_window[k]` for the first matching window position `k` whose
  `area_window[k] > 0`, else the number `uid` (and `uid` is incremented); nothing else of interest changes.
-/
namespace XrsVerif.IL.Rg
open XrsVerif XrsVerif.IL XrsVerif.Regions
variable {F : Type} [Fl F]
set_option linter.unusedSectionVars false
set_option linter.unusedVariables false
set_option linter.unusedSimpArgs false

/-- `out[y, x] = <numeric variable>` -/
theorem exec_store_out (fuel rows cols y x : Nat) (hy : y < rows) (hx : x < cols) (e : FE) (s : State F)
    (he : e.ok s = true) (hyv : s.ienv "y" = (y : Int)) (hxv : s.ienv "x" = (x : Int))
    (hos : s.shp "out" = [rows, cols]) :
    exec fuel (.stF2 "out" (.var "y") (.var "x") e) s =
      { s with fa := setS s.fa "out" ((s.fa "out").set (pos cols (y, x)) (e.eval s)) } := by
  rw [exec_stF2]
  simp only [IE.ok, IE.eval, he, hyv, hxv, hos, List.length_cons, List.length_nil, List.getD_cons_zero,
    List.getD_cons_succ, decide_true, Bool.and_true, Bool.true_and, inRange_of_lt _ _ hy, inRange_of_lt _ _ hx,
    off2_nat, if_true, pos]

/-- `out[y, x] = uid; uid += 1` -/
theorem exec_freshUid (fuel rows cols y x uid : Nat) (hy : y < rows) (hx : x < cols) (s : State F)
    (hrun : s.ctl = .run) (hyv : s.ienv "y" = (y : Int)) (hxv : s.ienv "x" = (x : Int))
    (huv : s.ienv "uid" = (uid : Int)) (hos : s.shp "out" = [rows, cols]) :
    exec fuel freshUid s =
      { s with
        ienv := setS s.ienv "uid" ((uid : Int) + 1),
        fa := setS s.fa "out" ((s.fa "out").set (pos cols (y, x)) (lab uid)) } := by
  unfold freshUid
  rw [exec_seq, exec_store_out fuel rows cols y x hy hx _ s (by simp [FE.ok, IE.ok]) hyv hxv hos,
    if_pos (by exact hrun), exec_setI]
  simp only [IE.ok, IE.eval, IOp.eval, FE.eval, huv, Bool.and_true, if_true, lab]

/-- the end of a first-pass cell step -/
theorem exec_assign1 (fuel rows cols n y x uid : Nat) (hy : y < rows) (hx : x < cols) (idx : List Nat)
    (hidx : ∀ k ∈ idx, k < n) (s : State F) (hrun : s.ctl = .run) (hyv : s.ienv "y" = (y : Int))
    (hxv : s.ienv "x" = (x : Int)) (huv : s.ienv "uid" = (uid : Int)) (hos : s.shp "out" = [rows, cols])
    (hns : s.shp "neighbor_matches" = [idx.length]) (hni : s.ia "neighbor_matches" = idx.map natCast)
    (has : s.shp "area_window" = [n]) (hal : (s.fa "area_window").length = n) :
    (exec fuel assign1 s).ctl = .run ∧ (exec fuel assign1 s).shp = s.shp ∧
    (∀ v, v ≠ "j" → v ≠ "uid" → (exec fuel assign1 s).ienv v = s.ienv v) ∧
    (∀ a, a ≠ "out" → (exec fuel assign1 s).fa a = s.fa a) ∧
    (exec fuel assign1 s).fa "out" = (s.fa "out").set (pos cols (y, x))
      (match idx.find? (fun k => isPos ((s.fa "area_window").getD k Fl.nan)) with
       | some k => (s.fa "area_window").getD k Fl.nan
       | none => lab uid) ∧
    (exec fuel assign1 s).ienv "uid" =
      (match idx.find? (fun k => isPos ((s.fa "area_window").getD k Fl.nan)) with
       | some _ => (uid : Int)
       | none => (uid : Int) + 1) := by
  unfold assign1
  rw [exec_ite]
  simp only [BE.ok, IE.ok, BE.eval, IE.eval, cmpInt, hns, List.length_cons, List.length_nil, List.getD_cons_zero,
    Nat.lt_add_one, decide_true, Bool.and_true, if_true]
  by_cases hlen : idx.length = 0
  · -- no matching window cell at all (cannot happen: the cell sees itself; the code has the branch)
    have hnil : idx = [] := List.eq_nil_of_length_eq_zero hlen
    have hnp : ¬ ((0 : Int) < ((idx.length : Nat) : Int)) := by omega
    simp only [hnp, decide_false, Bool.false_eq_true, if_false]
    rw [exec_freshUid fuel rows cols y x uid hy hx s hrun hyv hxv huv hos]
    subst hnil
    refine ⟨hrun, rfl, fun v h1 h2 => setS_other _ _ _ _ h2, fun a ha => setS_other _ _ _ _ ha, ?_, ?_⟩
    · simp only [List.find?_nil]; exact setS_same _ _ _
    · simp only [List.find?_nil]; exact setS_same _ _ _
  · have hpos : (0 : Int) < (idx.length : Int) := by omega
    simp only [hpos, decide_true, if_true]
    -- `assigned_value = None`
    let s1 : State F := { s with benv := setS s.benv "assigned_value$some" false }
    rw [exec_seq, exec_setB]
    simp only [BE.ok, BE.eval, if_true]
    rw [if_pos (by exact hrun)]
    -- the search
    obtain ⟨ie', fe', hie, hfe, hfound, heq⟩ := exec_findLoop fuel n idx s1 hrun hidx hns hni has hal
    rw [exec_seq]
    rw [show ({ s with benv := setS s.benv "assigned_value$some" false } : State F) = s1 from rfl, heq,
      if_pos (by exact hrun), exec_ite]
    simp only [BE.ok, BE.eval, if_true]
    cases hf : idx.find? (fun k => isPos ((s.fa "area_window").getD k Fl.nan)) with
    | some k =>
      have hf1 : idx.find? (fun k => isPos ((s1.fa "area_window").getD k Fl.nan)) = some k := hf
      simp only [hf1, Option.isSome_some, if_true, setS_same]
      rw [exec_store_out fuel rows cols y x hy hx _ _ (by simp [FE.ok])
        (by show ie' "y" = _; rw [hie _ (by decide)]; exact hyv)
        (by show ie' "x" = _; rw [hie _ (by decide)]; exact hxv) (by exact hos)]
      refine ⟨hrun, rfl, fun v h1 h2 => hie v h1, fun a ha => setS_other _ _ _ _ ha, ?_, ?_⟩
      · simp only [FE.eval]
        rw [hfound k hf1]
        exact setS_same _ _ _
      · show ie' "uid" = _
        rw [hie _ (by decide)]; exact huv
    | none =>
      have hf1 : idx.find? (fun k => isPos ((s1.fa "area_window").getD k Fl.nan)) = none := hf
      have hb : s1.benv "assigned_value$some" = false := by
        show setS s.benv "assigned_value$some" false "assigned_value$some" = false
        exact setS_same _ _ _
      simp only [hf1, Option.isSome_none, Bool.false_eq_true, if_false, hb]
      rw [exec_freshUid fuel rows cols y x uid hy hx _ (by exact hrun)
        (by show ie' "y" = _; rw [hie _ (by decide)]; exact hyv)
        (by show ie' "x" = _; rw [hie _ (by decide)]; exact hxv)
        (by show ie' "uid" = _; rw [hie _ (by decide)]; exact huv) (by exact hos)]
      refine ⟨hrun, rfl, fun v h1 h2 => ?_, fun a ha => setS_other _ _ _ _ ha, ?_, ?_⟩
      · show setS ie' "uid" _ v = _
        rw [setS_other _ _ _ _ h2, hie v h1]
      · simp only [setS_same]; rfl
      · simp only [setS_same]

end XrsVerif.IL.Rg
