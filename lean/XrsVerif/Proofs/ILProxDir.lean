import XrsVerif.Proofs.ILProxMerge
import XrsVerif.Proofs.KSimp
/-
  Proofs/ILProxDir.lean -- the two translations of `_calc_direction` agree: the ILang program `Gen.IL.calcDirection`
  (layer T3, `dirF`) and the KLang kernel `Gen.calc_direction` (layer T1, `Prox.bearing`, the function the bearing
  theorems of Props/C06.lean are about) compute the same function on every number type.
-/
namespace XrsVerif.IL.Px
open XrsVerif XrsVerif.Prox
variable {F : Type} [Fl F]

theorem dirF_eq_bearing (x1 x2 y1 y2 : F) : dirF x1 x2 y1 y2 = bearing x1 x2 y1 y2 := by
  unfold dirF
  cases h0 : (Fl.eq x1 x2 && Fl.eq y1 y2) with
  | true =>
    simp at h0
    ksimp [bearing, Gen.calc_direction, dirEnv, h0]
  | false =>
    have h0' : ¬ (Fl.eq x1 x2 = true ∧ Fl.eq y1 y2 = true) := by simpa using h0
    generalize hd : Fl.mul (Fl.atan2 (Fl.neg (Fl.sub y2 y1)) (Fl.sub x2 x1)) (Fl.lit 2864789 50000) = d
    cases h1 : Fl.lt d (Fl.lit 0 1) with
    | true => ksimp [bearing, Gen.calc_direction, dirEnv, h0', hd, h1, setVar]
    | false =>
      cases h2 : Fl.lt (Fl.lit 90 1) d with
      | true => ksimp [bearing, Gen.calc_direction, dirEnv, h0', hd, h1, h2, setVar]
      | false => ksimp [bearing, Gen.calc_direction, dirEnv, h0', hd, h1, h2, setVar]

end XrsVerif.IL.Px
