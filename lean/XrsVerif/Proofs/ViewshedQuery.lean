import XrsVerif.Proofs.Viewshed
import Mathlib.Algebra.Order.Field.Basic
import Mathlib.Tactic.Ring
import Mathlib.Tactic.FieldSimp
/-!
  C05 helper lemmas, part 2: the interpolation over a linearly ordered field and `query_decides`.
-/
set_option linter.unusedSectionVars false
set_option linter.unusedVariables false
namespace XrsVerif.Viewshed

variable {α : Type} [Field α] [LinearOrder α] [IsStrictOrderedRing α]

theorem spans_iff (n : Node α) (ang : α) : spans n ang = true ↔ n.a0 ≤ ang ∧ ang ≤ n.a2 := by
  simp [spans]

/-- a convex combination lies above the smaller end point -/
private theorem lerp_ge (a b t : α) (h0 : 0 ≤ t) (h1 : t ≤ 1) : min b a ≤ a + (b - a) * t := by
  rcases le_total a b with h | h
  · rw [min_eq_right h]
    have : 0 ≤ (b - a) * t := mul_nonneg (sub_nonneg.mpr h) h0
    linarith
  · rw [min_eq_left h]
    have : (a - b) * t ≤ (a - b) * 1 := mul_le_mul_of_nonneg_left h1 (sub_nonneg.mpr h)
    nlinarith

/-- the interpolated gradient of a node spanning the bearing is never below the node's minimum
    gradient (so a stored maximum of minima that does not overestimate cannot hide a visible cell) -/
theorem minv_le_itp (n : Node α) (ang : α) (h : spans n ang = true) : minv n ≤ itp n ang := by
  rw [spans_iff] at h
  obtain ⟨h0, h2⟩ := h
  rw [minv_eq]
  unfold itp
  split
  · rename_i hlt
    have hd : 0 < n.a1 - n.a0 := by linarith
    have ht0 : 0 ≤ (n.a1 - ang) / (n.a1 - n.a0) := div_nonneg (by linarith) (le_of_lt hd)
    have ht1 : (n.a1 - ang) / (n.a1 - n.a0) ≤ 1 := (div_le_one hd).mpr (by linarith)
    rw [mul_div_assoc]
    exact le_trans (min_le_left _ _) (lerp_ge n.g1 n.g0 _ ht0 ht1)
  · split
    · rename_i hnl hlt
      have hd : 0 < n.a2 - n.a1 := by linarith
      have ht0 : 0 ≤ (ang - n.a1) / (n.a2 - n.a1) := div_nonneg (by linarith) (le_of_lt hd)
      have ht1 : (ang - n.a1) / (n.a2 - n.a1) ≤ 1 := (div_le_one hd).mpr (by linarith)
      rw [mul_div_assoc]
      refine le_trans ?_ (lerp_ge n.g1 n.g2 _ ht0 ht1)
      rw [min_comm n.g2 n.g1]
      exact le_min (le_trans (min_le_left _ _) (min_le_right _ _)) (min_le_right _ _)
    · exact le_trans (min_le_left _ _) (min_le_right _ _)

/-- at the centre bearing the interpolation is the centre gradient; at the corners the corner gradients -/
theorem itp_centre (n : Node α) : itp n n.a1 = n.g1 := by simp [itp]

theorem itp_enter (n : Node α) (h : n.a0 < n.a1) : itp n n.a0 = n.g0 := by
  have hd : n.a1 - n.a0 ≠ 0 := ne_of_gt (sub_pos.mpr h)
  simp only [itp, h, if_true]
  field_simp
  ring

theorem itp_exit (n : Node α) (h : n.a1 < n.a2) : itp n n.a2 = n.g2 := by
  have hd : n.a2 - n.a1 ≠ 0 := ne_of_gt (sub_pos.mpr h)
  simp only [itp, not_lt_of_gt h, if_false, h, if_true]
  field_simp
  ring

/-- **the two-phase query decides line of sight.**  For every tree with strictly ordered keys whose
    stored maxima never overestimate, a query key present in the tree, and every nearer node either
    spanning the query bearing or having a minimum gradient that is at most `g` (the sentinel dummy):
    the caller's test `query ≤ g` holds exactly when no nearer node spanning the bearing has a
    greater interpolated gradient. -/
theorem query_decides' {S : α} {t : Tree α} (K ang g : α) (hS : S ≤ g) (hb : BST t) (ha : AugLeQ S t)
    (hK : ∃ n ∈ t.toList, n.key = K)
    (hact : ∀ n ∈ t.toList, n.key < K → spans n ang = true ∨ minv n ≤ g) :
    query S t K ang g ≤ g ↔ ∀ n ∈ t.toList, n.key < K → spans n ang = true → itp n ang ≤ g := by
  unfold query
  rw [if_pos ((contains_iff hb K).mpr hK)]
  simp only
  constructor
  · intro h
    by_cases hs : g < short S t K
    · rw [if_pos hs] at h; exact absurd h (not_le.mpr hs)
    · rw [if_neg hs, walk_le_iff] at h
      intro n hn hk hsp
      exact h.2 n (by simp [hn, hk]) hsp
  · intro hall
    have hs : ¬ g < short S t K := not_lt.mpr (short_le_Q K g hS hb ha (fun n hn hk => by
      rcases hact n hn hk with hsp | hle
      · exact le_trans (minv_le_itp n ang hsp) (hall n hn hk hsp)
      · exact hle))
    rw [if_neg hs, walk_le_iff]
    refine ⟨hS, fun n hn hsp => ?_⟩
    simp only [List.mem_reverse, List.mem_filter, decide_eq_true_eq] at hn
    exact hall n hn.1 hn.2 hsp

end XrsVerif.Viewshed
