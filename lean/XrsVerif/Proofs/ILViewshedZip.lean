import XrsVerif.Proofs.ILViewshedSmall
/-
  Proofs/ILViewshedZip.lean -- positions in the status tree (zippers), for the routines that walk *up* the
  parent pointers (`_find_max_value_within_key`, `_tree_successor`, the loops of insertion and deletion).

  A position is a subtree together with its context `ctx : List Fr` (innermost frame first): `Fr.L i r` = "we
  are the left child of row `i`, whose right subtree is `r`", `Fr.R l i` = "the right child of `i`, left
  subtree `l`".  `plug sub ctx` is the whole tree.  `unplug`: on a well-linked tree without repeated rows every
  position is locally well-linked (`Linked` below, `CtxLinked` above) -- so the loop lemmas only need
  `plug sub ctx = sh`.

  Pure lemmas tie the zipper functions to the hand model's top-down recursions:
    `findZ`      the search with its path                    (`findZ_ptr`, `findZ_plug`, `findZ_none`)
    `shortCtx`   phase 1 of the query, bottom-up             (`shortCtx_findZ` : = `short S (absT sh) K`)
    `predsCtx`   the in-order predecessors above a position  (`preds_findZ`    : = `predsOf (absT sh) K`)
-/
set_option linter.unusedSectionVars false
set_option linter.unusedVariables false
namespace XrsVerif.ILVs
open XrsVerif XrsVerif.IL XrsVerif.Viewshed
variable {F : Type} [Fl F]

inductive Fr where
  | L (i : Nat) (r : Sh) : Fr
  | R (l : Sh) (i : Nat) : Fr
  deriving Repr, DecidableEq

abbrev Ctx := List Fr

/-- the row of a frame -/
def Fr.idx : Fr → Nat
  | .L i _ => i
  | .R _ i => i

def plug : Sh → Ctx → Sh
  | t, [] => t
  | t, .L i r :: c => plug (.node t i r) c
  | t, .R l i :: c => plug (.node l i t) c

/-- the parent pointer a context prescribes -/
def ctxPar : Ctx → Int
  | [] => -1
  | .L i _ :: _ => (i : Int)
  | .R _ i :: _ => (i : Int)

/-- the link columns spell out the context above the pointer `c` -/
def CtxLinked (nodes : List Int) (n : Nat) : Int → Ctx → Prop
  | _, [] => True
  | c, .L i r :: rest =>
    i + 1 < n ∧ nAt nodes i 1 = c ∧ nAt nodes i 2 = r.ptr ∧ (0 ≤ c → r.ptr ≠ c) ∧ nAt nodes i 3 = ctxPar rest ∧
      Linked nodes n (i : Int) r ∧ CtxLinked nodes n (i : Int) rest
  | c, .R l i :: rest =>
    i + 1 < n ∧ nAt nodes i 1 = l.ptr ∧ nAt nodes i 2 = c ∧ (0 ≤ c → l.ptr ≠ c) ∧ nAt nodes i 3 = ctxPar rest ∧
      Linked nodes n (i : Int) l ∧ CtxLinked nodes n (i : Int) rest

theorem ctxPar_cons (fr : Fr) (rest : Ctx) : ctxPar (fr :: rest) = (fr.idx : Int) := by cases fr <;> rfl

theorem CtxLinked.step {nodes : List Int} {n : Nat} {c : Int} {fr : Fr} {rest : Ctx}
    (h : CtxLinked nodes n c (fr :: rest)) :
    fr.idx + 1 < n ∧ nAt nodes fr.idx 3 = ctxPar rest ∧ CtxLinked nodes n (fr.idx : Int) rest := by
  cases fr with
  | L p pr => exact ⟨h.1, h.2.2.2.2.1, h.2.2.2.2.2.2⟩
  | R pl p => exact ⟨h.1, h.2.2.2.2.1, h.2.2.2.2.2.2⟩

theorem Sh.ptr_mem : ∀ (sh : Sh) (j : Nat), sh.ptr = (j : Int) → j ∈ sh.idxs := by
  intro sh j h
  cases sh with
  | nil => simp only [Sh.ptr] at h; omega
  | node l i r =>
    simp only [Sh.ptr] at h
    have : i = j := by omega
    simp [Sh.idxs, this]

theorem Sh.ptr_ne_of_nodup (l r : Sh) (i : Nat) (h : (Sh.node l i r).idxs.Nodup) :
    (0 ≤ l.ptr → r.ptr ≠ l.ptr) ∧ (0 ≤ r.ptr → l.ptr ≠ r.ptr) ∧ l.idxs.Nodup ∧ r.idxs.Nodup ∧
      i ∉ l.idxs ∧ i ∉ r.idxs := by
  simp only [Sh.idxs] at h
  rw [List.nodup_append] at h
  obtain ⟨h1, h2, h3⟩ := h
  rw [List.nodup_cons] at h2
  have hd : ∀ j, j ∈ l.idxs → j ∈ r.idxs → False := fun j a b => h3 j a j (List.mem_cons_of_mem _ b) rfl
  refine ⟨?_, ?_, h1, h2.2, fun hi => h3 i hi i List.mem_cons_self rfl, h2.1⟩
  · intro h0 he
    obtain ⟨j, hj⟩ := Int.eq_ofNat_of_zero_le h0
    exact hd j (Sh.ptr_mem l j hj) (Sh.ptr_mem r j (he.trans hj))
  · intro h0 he
    obtain ⟨j, hj⟩ := Int.eq_ofNat_of_zero_le h0
    exact hd j (Sh.ptr_mem l j (he.trans hj)) (Sh.ptr_mem r j hj)

/-- every position of a well-linked tree without repeated rows is locally well-linked -/
theorem unplug {nodes : List Int} {n : Nat} : ∀ (ctx : Ctx) (sub : Sh),
    Linked nodes n (-1) (plug sub ctx) → (plug sub ctx).idxs.Nodup →
    Linked nodes n (ctxPar ctx) sub ∧ CtxLinked nodes n sub.ptr ctx ∧ sub.idxs.Nodup := by
  intro ctx
  induction ctx with
  | nil => intro sub h1 h2; exact ⟨h1, trivial, h2⟩
  | cons fr rest ih =>
    intro sub h1 h2
    cases fr with
    | L i r =>
      obtain ⟨hl, hc, hn⟩ := ih (.node sub i r) h1 h2
      obtain ⟨hi, hL, hR, hP, hlL, hlR⟩ := hl
      have hd := Sh.ptr_ne_of_nodup sub r i hn
      exact ⟨hlL, ⟨hi, hL, hR, hd.1, hP, hlR, hc⟩, hd.2.2.1⟩
    | R l i =>
      obtain ⟨hl, hc, hn⟩ := ih (.node l i sub) h1 h2
      obtain ⟨hi, hL, hR, hP, hlL, hlR⟩ := hl
      have hd := Sh.ptr_ne_of_nodup l sub i hn
      exact ⟨hlR, ⟨hi, hL, hR, hd.2.1, hP, hlL, hc⟩, hd.2.2.2.1⟩

/-- the rows of a position's subtree are rows of the whole tree -/
theorem mem_plug (j : Nat) : ∀ (ctx : Ctx) (sub : Sh), j ∈ sub.idxs → j ∈ (plug sub ctx).idxs := by
  intro ctx
  induction ctx with
  | nil => intro sub h; exact h
  | cons fr rest ih =>
    intro sub h
    cases fr with
    | L i r => exact ih _ (by simp [Sh.idxs, h])
    | R l i => exact ih _ (by simp [Sh.idxs, h])

/-! ### the search with its path -/

def findZ (vals : List F) (K : Fv F) : Sh → Ctx → Option (Sh × Nat × Sh × Ctx)
  | .nil, _ => none
  | .node l i r, c =>
    if K < vAt vals i 0 then findZ vals K l (.L i r :: c)
    else if vAt vals i 0 < K then findZ vals K r (.R l i :: c)
    else some (l, i, r, c)

theorem findZ_none (vals : List F) (K : Fv F) : ∀ (sh : Sh) (c : Ctx), findZ vals K sh c = none → findPtr vals K sh = -1 := by
  intro sh
  induction sh with
  | nil => intro c _; rfl
  | node l i r ihl ihr =>
    intro c h
    simp only [findZ] at h
    simp only [findPtr]
    split
    · rename_i h1; simp only [h1, if_true] at h; exact ihl _ h
    · rename_i h1
      simp only [h1, if_false] at h
      split
      · rename_i h2; simp only [h2, if_true] at h; exact ihr _ h
      · rename_i h2; simp [h2] at h

theorem findZ_some (vals : List F) (K : Fv F) : ∀ (sh : Sh) (c : Ctx) (l : Sh) (i : Nat) (r : Sh) (c' : Ctx),
    findZ vals K sh c = some (l, i, r, c') →
    findPtr vals K sh = (i : Int) ∧ plug (.node l i r) c' = plug sh c ∧ ¬ K < vAt vals i 0 ∧ ¬ vAt vals i 0 < K := by
  intro sh
  induction sh with
  | nil => intro c l i r c' h; simp [findZ] at h
  | node sl j sr ihl ihr =>
    intro c l i r c' h
    simp only [findZ] at h
    simp only [findPtr]
    split
    · rename_i h1
      simp only [h1, if_true] at h
      have := ihl _ l i r c' h
      exact ⟨this.1, by rw [this.2.1]; rfl, this.2.2⟩
    · rename_i h1
      simp only [h1, if_false] at h
      split
      · rename_i h2
        simp only [h2, if_true] at h
        have := ihr _ l i r c' h
        exact ⟨this.1, by rw [this.2.1]; rfl, this.2.2⟩
      · rename_i h2
        simp only [h2, if_false, Option.some.injEq, Prod.mk.injEq] at h
        obtain ⟨rfl, rfl, rfl, rfl⟩ := h
        exact ⟨rfl, rfl, h1, h2⟩

/-! ### phase 1 of the query along a context -/

/-- the stored maximum `tree_vals[p][TN_MAX_GRAD_ID]` behind a pointer (NIL = the last row) -/
def mxAt (vals : List F) (n : Nat) (p : Int) : Fv F := vAt vals (rowOf n p) 7

/-- the stored maximum behind the pointer of a shape is the model's `mxOf`, the NIL row holding the sentinel -/
theorem mxAt_absT (vals : List F) (nodes : List Int) (n : Nat) (sh : Sh) :
    mxAt vals n sh.ptr = mxOf (vAt vals (n - 1) 7) (absT vals nodes sh) := by
  cases sh with
  | nil => simp [mxAt, Sh.ptr, absT, mxOf]
  | node l i r => simp [mxAt, Sh.ptr, absT, mxOf]

/-- the loop `while tree_nodes[cur][TN_PARENT_ID] != NIL_ID` of `_find_max_value_within_key`, frame by frame -/
def shortCtx (vals : List F) (n : Nat) : Fv F → Ctx → Fv F
  | acc, [] => acc
  | acc, .L _ _ :: rest => shortCtx vals n acc rest
  | acc, .R l i :: rest => shortCtx vals n (mx2 (minv (nodeAt vals i)) (mx2 (mxAt vals n l.ptr) acc)) rest

/-- ... computes the hand model's `short` -/
theorem shortCtx_findZ (vals : List F) (nodes : List Int) (n : Nat) (K : Fv F) (S : Fv F) (hS : vAt vals (n - 1) 7 = S) :
    ∀ (sh : Sh) (c : Ctx) (l : Sh) (i : Nat) (r : Sh) (c' : Ctx), findZ vals K sh c = some (l, i, r, c') →
    shortCtx vals n S c' = shortCtx vals n (short S (absT vals nodes sh) K) c := by
  intro sh
  induction sh with
  | nil => intro c l i r c' h; simp [findZ] at h
  | node sl j sr ihl ihr =>
    intro c l i r c' h
    simp only [findZ] at h
    simp only [absT, short, nodeAt]
    split
    · rename_i h1
      simp only [h1, if_true] at h
      rw [ihl _ l i r c' h]; rfl
    · rename_i h1
      simp only [h1, if_false] at h
      split
      · rename_i h2
        simp only [h2, if_true] at h
        rw [ihr _ l i r c' h]
        simp only [shortCtx, mxAt_absT vals nodes, hS, nodeAt]
      · rename_i h2
        simp only [h2, if_false, Option.some.injEq, Prod.mk.injEq] at h
        obtain ⟨rfl, rfl, rfl, rfl⟩ := h
        rfl

/-! ### the in-order predecessors -/

/-- the rows of a shape in reverse in-order -/
def Sh.rev : Sh → List Nat
  | .nil => []
  | .node l i r => r.rev ++ i :: l.rev

theorem Sh.rev_eq (sh : Sh) : sh.rev = sh.idxs.reverse := by
  induction sh with
  | nil => rfl
  | node l i r ihl ihr => simp [Sh.rev, Sh.idxs, ihl, ihr]

/-- the in-order predecessors that lie above a position, nearest first -/
def predsCtx : Ctx → List Nat
  | [] => []
  | .L _ _ :: rest => predsCtx rest
  | .R l i :: rest => i :: l.rev ++ predsCtx rest

theorem absT_toList (vals : List F) (nodes : List Int) (sh : Sh) :
    (absT vals nodes sh).toList = sh.idxs.map (nodeAt vals) := by
  induction sh with
  | nil => rfl
  | node l i r ihl ihr => simp [absT, Tree.toList, Sh.idxs, ihl, ihr]

/-- the in-order predecessors of the node `_search_for_node` finds, nearest first (top-down recursion) -/
def predsOf {α : Type} [LT α] [DecidableLT α] : Tree α → α → List (Node α)
  | .nil, _ => []
  | .node l n _ _ r, K =>
    if K < n.key then predsOf l K
    else if n.key < K then predsOf r K ++ n :: l.toList.reverse
    else l.toList.reverse

theorem preds_findZ (vals : List F) (nodes : List Int) (K : Fv F) :
    ∀ (sh : Sh) (c : Ctx) (l : Sh) (i : Nat) (r : Sh) (c' : Ctx), findZ vals K sh c = some (l, i, r, c') →
    (l.rev ++ predsCtx c').map (nodeAt vals) = predsOf (absT vals nodes sh) K ++ (predsCtx c).map (nodeAt vals) := by
  intro sh
  induction sh with
  | nil => intro c l i r c' h; simp [findZ] at h
  | node sl j sr ihl ihr =>
    intro c l i r c' h
    simp only [findZ] at h
    simp only [absT, predsOf, nodeAt]
    split
    · rename_i h1
      simp only [h1, if_true] at h
      rw [ihl _ l i r c' h]; rfl
    · rename_i h1
      simp only [h1, if_false] at h
      split
      · rename_i h2
        simp only [h2, if_true] at h
        rw [ihr _ l i r c' h]
        simp [predsCtx, absT_toList, Sh.rev_eq, nodeAt]
      · rename_i h2
        simp only [h2, if_false, Option.some.injEq, Prod.mk.injEq] at h
        obtain ⟨rfl, rfl, rfl, rfl⟩ := h
        simp [absT_toList, Sh.rev_eq]

/-- every predecessor row is a row of the whole tree other than the position's own row, when no row repeats -/
theorem predsCtx_mem (j : Nat) : ∀ (ctx : Ctx) (sub : Sh), j ∈ predsCtx ctx → j ∈ (plug sub ctx).idxs := by
  intro ctx
  induction ctx with
  | nil => intro sub h; simp [predsCtx] at h
  | cons fr rest ih =>
    intro sub h
    cases fr with
    | L i r => exact ih _ h
    | R l i =>
      simp only [predsCtx, List.mem_cons, List.mem_append, Sh.rev_eq, List.mem_reverse] at h
      rcases h with (rfl | h) | h
      · exact mem_plug _ rest _ (by simp [Sh.idxs])
      · exact mem_plug _ rest _ (by simp [Sh.idxs, h])
      · exact ih _ h

theorem nodup_of_plug : ∀ (ctx : Ctx) (sub : Sh), (plug sub ctx).idxs.Nodup → sub.idxs.Nodup := by
  intro ctx
  induction ctx with
  | nil => intro sub h; exact h
  | cons fr rest ih =>
    intro sub h
    cases fr with
    | L i r => exact (Sh.ptr_ne_of_nodup sub r i (ih _ h)).2.2.1
    | R l i => exact (Sh.ptr_ne_of_nodup l sub i (ih _ h)).2.2.2.1

theorem predsCtx_ne (k : Nat) : ∀ (ctx : Ctx) (sub : Sh), k ∈ sub.idxs → (plug sub ctx).idxs.Nodup →
    ∀ j ∈ predsCtx ctx, j ≠ k := by
  intro ctx
  induction ctx with
  | nil => intro sub _ _ j h; simp [predsCtx] at h
  | cons fr rest ih =>
    intro sub hk hn j h
    cases fr with
    | L i r => exact ih (.node sub i r) (by simp [Sh.idxs, hk]) hn j h
    | R l i =>
      simp only [predsCtx, List.mem_cons, List.mem_append, Sh.rev_eq, List.mem_reverse] at h
      have hn' : (Sh.node l i sub).idxs.Nodup := nodup_of_plug rest _ hn
      simp only [Sh.idxs] at hn'
      rw [List.nodup_append] at hn'
      obtain ⟨_, h2, h3⟩ := hn'
      rw [List.nodup_cons] at h2
      rcases h with (rfl | h) | h
      · intro e; subst e; exact h2.1 hk
      · intro e; subst e; exact h3 j h j (List.mem_cons_of_mem _ hk) rfl
      · exact ih (.node l i sub) (by simp [Sh.idxs, hk]) hn j h

/-! ### the in-order predecessor walk of phase 2 -/

/-- descend to the rightmost node of the subtree `node l i r` -/
def rightmostZ : Sh → Nat → Sh → Ctx → Sh × Nat × Sh × Ctx
  | l, i, .nil, c => (l, i, .nil, c)
  | l, i, .node rl m rr, c => rightmostZ rl m rr (.R l i :: c)

/-- index of the rightmost node of the tree `node _ i r` -/
def maxIdx : Sh → Nat → Nat
  | .nil, i => i
  | .node _ m rr, _ => maxIdx rr m

def Sh.rheight : Sh → Nat
  | .nil => 0
  | .node _ _ r => r.rheight + 1

theorem rightmostZ_idx : ∀ (r l : Sh) (i : Nat) (c : Ctx), (rightmostZ l i r c).2.1 = maxIdx r i := by
  intro r
  induction r with
  | nil => intro l i c; rfl
  | node rl m rr _ ih => intro l i c; simp only [rightmostZ, maxIdx]; exact ih rl m _

theorem rightmostZ_spec : ∀ (r l : Sh) (i : Nat) (c : Ctx),
    let q := rightmostZ l i r c
    plug (.node q.1 q.2.1 q.2.2.1) q.2.2.2 = plug (.node l i r) c ∧
      q.2.1 :: q.1.rev ++ predsCtx q.2.2.2 = (Sh.node l i r).rev ++ predsCtx c := by
  intro r
  induction r with
  | nil => intro l i c; simp [rightmostZ, Sh.rev]
  | node rl m rr _ ih =>
    intro l i c
    have := ih rl m (.R l i :: c)
    simp only [rightmostZ]
    refine ⟨this.1, ?_⟩
    rw [this.2]
    simp [Sh.rev, predsCtx]

/-- climb while we come from a left child; stop at the first ancestor reached from its right child -/
def climbZ : Sh → Ctx → Option (Sh × Nat × Sh × Ctx)
  | _, [] => none
  | t, .L p pr :: rest => climbZ (.node t p pr) rest
  | t, .R lsib q :: rest => some (lsib, q, t, rest)

def climbPtr : Ctx → Int
  | [] => -1
  | .L _ _ :: rest => climbPtr rest
  | .R _ q :: _ => (q : Int)

theorem climbZ_ptr : ∀ (ctx : Ctx) (t : Sh),
    climbPtr ctx = match climbZ t ctx with | none => -1 | some (_, q, _, _) => (q : Int) := by
  intro ctx
  induction ctx with
  | nil => intro t; rfl
  | cons fr rest ih =>
    intro t
    cases fr with
    | L p pr => simp only [climbPtr, climbZ]; exact ih _
    | R lsib q => rfl

theorem climbZ_some : ∀ (ctx : Ctx) (t lsib : Sh) (q : Nat) (t' : Sh) (rest : Ctx),
    climbZ t ctx = some (lsib, q, t', rest) →
    plug (.node lsib q t') rest = plug t ctx ∧ q :: lsib.rev ++ predsCtx rest = predsCtx ctx := by
  intro ctx
  induction ctx with
  | nil => intro t lsib q t' rest h; simp [climbZ] at h
  | cons fr rest' ih =>
    intro t lsib q t' rest h
    cases fr with
    | L p pr =>
      simp only [climbZ] at h
      have := ih _ lsib q t' rest h
      exact ⟨this.1, this.2⟩
    | R ls q' =>
      simp only [climbZ, Option.some.injEq, Prod.mk.injEq] at h
      obtain ⟨rfl, rfl, rfl, rfl⟩ := h
      exact ⟨rfl, rfl⟩

theorem climbZ_none : ∀ (ctx : Ctx) (t : Sh), climbZ t ctx = none → predsCtx ctx = [] := by
  intro ctx
  induction ctx with
  | nil => intro t _; rfl
  | cons fr rest ih =>
    intro t h
    cases fr with
    | L p pr => simp only [climbZ] at h; exact ih _ h
    | R ls q => simp [climbZ] at h

/-- the position of the in-order predecessor -/
def predPos : Sh → Nat → Sh → Ctx → Option (Sh × Nat × Sh × Ctx)
  | .node ll m lr, j, r, ctx => some (rightmostZ ll m lr (.L j r :: ctx))
  | .nil, j, r, ctx => climbZ (.node .nil j r) ctx

def predPtr (l : Sh) (ctx : Ctx) : Int :=
  match l with
  | .node _ m lr => (maxIdx lr m : Int)
  | .nil => climbPtr ctx

theorem predPos_ptr (l : Sh) (j : Nat) (r : Sh) (ctx : Ctx) :
    predPtr l ctx = match predPos l j r ctx with | none => -1 | some (_, q, _, _) => (q : Int) := by
  cases l with
  | nil => simp only [predPtr, predPos]; exact climbZ_ptr ctx _
  | node ll m lr => simp only [predPtr, predPos, rightmostZ_idx]

theorem predPos_some (l : Sh) (j : Nat) (r : Sh) (ctx : Ctx) (l' : Sh) (j' : Nat) (r' : Sh) (c' : Ctx)
    (h : predPos l j r ctx = some (l', j', r', c')) :
    plug (.node l' j' r') c' = plug (.node l j r) ctx ∧ j' :: l'.rev ++ predsCtx c' = l.rev ++ predsCtx ctx := by
  cases l with
  | nil =>
    simp only [predPos] at h
    have := climbZ_some ctx _ l' j' r' c' h
    exact ⟨this.1, by simpa [Sh.rev] using this.2⟩
  | node ll m lr =>
    simp only [predPos, Option.some.injEq] at h
    have := rightmostZ_spec lr ll m (.L j r :: ctx)
    rw [h] at this
    exact ⟨this.1, by simpa [predsCtx] using this.2⟩

theorem predPos_none (l : Sh) (j : Nat) (r : Sh) (ctx : Ctx) (h : predPos l j r ctx = none) :
    l.rev ++ predsCtx ctx = [] := by
  cases l with
  | nil => simp only [predPos] at h; simp [Sh.rev, climbZ_none ctx _ h]
  | node ll m lr => simp [predPos] at h

/-- the walk of phase 2 with its exit flag: `(value, left through the early return)` -/
def walkE {α : Type} [LT α] [DecidableLT α] [LE α] [DecidableLE α] (ang g : α) (itp : Node α → α) :
    List (Node α) → α → α × Bool
  | [], acc => (acc, false)
  | n :: ns, acc =>
    if spans n ang then
      let acc' := mx2 (itp n) acc
      if g < acc' then (acc', true) else walkE ang g itp ns acc'
    else walkE ang g itp ns acc

theorem walkE_fst {α : Type} [LT α] [DecidableLT α] [LE α] [DecidableLE α] (ang g : α) (itp : Node α → α)
    (ns : List (Node α)) (acc : α) : (walkE ang g itp ns acc).1 = walk ang g itp ns acc := by
  induction ns generalizing acc with
  | nil => rfl
  | cons n ns ih =>
    simp only [walkE, walk]
    split
    · split
      · rfl
      · exact ih _
    · exact ih _

/-- a position sits at most `height` levels deep and its subtree fits below -/
theorem plug_height : ∀ (ctx : Ctx) (sub : Sh), ctx.length + sub.height ≤ (plug sub ctx).height := by
  intro ctx
  induction ctx with
  | nil => intro sub; simp [plug]
  | cons fr rest ih =>
    intro sub
    cases fr with
    | L i r => have := ih (.node sub i r); simp only [plug, Sh.height, List.length_cons] at this ⊢; omega
    | R l i => have := ih (.node l i sub); simp only [plug, Sh.height, List.length_cons] at this ⊢; omega

theorem Sh.rheight_le (sh : Sh) : sh.rheight ≤ sh.height := by
  induction sh with
  | nil => simp [Sh.rheight, Sh.height]
  | node l i r _ ih => simp only [Sh.rheight, Sh.height]; omega

theorem Sh.lheight_le (sh : Sh) : sh.lheight ≤ sh.height := by
  induction sh with
  | nil => simp [Sh.lheight, Sh.height]
  | node l i r ih _ => simp only [Sh.lheight, Sh.height]; omega

theorem Sh.rev_length (sh : Sh) : sh.rev.length = sh.size := by
  induction sh with
  | nil => rfl
  | node l i r ihl ihr => simp only [Sh.rev, Sh.size, List.length_append, List.length_cons, ihl, ihr]; omega

theorem Sh.idxs_length (sh : Sh) : sh.idxs.length = sh.size := by
  rw [← Sh.rev_length, Sh.rev_eq, List.length_reverse]

theorem predsCtx_length : ∀ (ctx : Ctx) (sub : Sh), sub.size + (predsCtx ctx).length ≤ (plug sub ctx).size := by
  intro ctx
  induction ctx with
  | nil => intro sub; simp [predsCtx, plug]
  | cons fr rest ih =>
    intro sub
    cases fr with
    | L i r => have := ih (.node sub i r); simp only [plug, predsCtx, Sh.size] at this ⊢; omega
    | R l i =>
      have := ih (.node l i sub)
      simp only [plug, predsCtx, Sh.size, List.length_cons, List.length_append, Sh.rev_length] at this ⊢; omega

theorem Sh.height_le_size (sh : Sh) : sh.height ≤ sh.size := by
  induction sh with
  | nil => simp [Sh.height, Sh.size]
  | node l i r ihl ihr => simp only [Sh.height, Sh.size]; omega

end XrsVerif.ILVs
