import XrsVerif.Core.Fl
import XrsVerif.Model.Trim
/-
  Proofs/NumFl.lean -- the exact extended numbers `Wire.Num` (NaN, ±inf, rationals) read as a number type `Fl`,
  so that a generated ILang program (generic in `[Fl F]`) can be run, in theorems, on the very values the hand
  models of Model/Trim.lean are about.

  Comparisons and the NaN / finiteness tests are the IEEE ones (NaN compares false with everything, `inf == inf`);
  `+ - * / neg abs` are the IEEE operations on extended rationals without signed zeros (`0/0`, `inf - inf`,
  `0 * inf` are NaN; `x/0` is ±inf).  The irrational functions are not representable and return NaN: nothing that is
  proved through this instance may depend on them -- the refinement theorems of `_trim` / `_crop` hold for *every*
  instance of `Fl` and use only `Fl.eq` and `Fl.isnan`.
-/
namespace XrsVerif
open XrsVerif.Wire

namespace NumFl

def sgn (q : Rat) : Int := if q < 0 then -1 else if 0 < q then 1 else 0

/-- `±inf` by sign, NaN for sign 0 -/
def infOf (sg : Int) : Num := if sg < 0 then .ninf else if 0 < sg then .pinf else .nan

def sgnN : Num → Int
  | .nan => 0 | .pinf => 1 | .ninf => -1 | .fin q => sgn q

def add : Num → Num → Num
  | .nan, _ | _, .nan => .nan
  | .pinf, .ninf | .ninf, .pinf => .nan
  | .pinf, _ | _, .pinf => .pinf
  | .ninf, _ | _, .ninf => .ninf
  | .fin a, .fin b => .fin (a + b)

def neg : Num → Num
  | .nan => .nan | .pinf => .ninf | .ninf => .pinf | .fin q => .fin (-q)

def mul : Num → Num → Num
  | .nan, _ | _, .nan => .nan
  | .fin a, .fin b => .fin (a * b)
  | a, b => infOf (sgnN a * sgnN b)

/-- a zero divisor counts as positive (no signed zeros) -/
def div : Num → Num → Num
  | .nan, _ | _, .nan => .nan
  | .fin a, .fin b => if b = 0 then infOf (sgn a) else .fin (a / b)
  | .fin _, .pinf | .fin _, .ninf => .fin 0
  | .pinf, .fin b => if b < 0 then .ninf else .pinf
  | .ninf, .fin b => if b < 0 then .pinf else .ninf
  | _, _ => .nan

def lt : Num → Num → Bool
  | .nan, _ | _, .nan => false
  | .fin a, .fin b => decide (a < b)
  | .ninf, .ninf | .pinf, _ => false
  | .ninf, _ => true
  | .fin _, .pinf => true
  | .fin _, .ninf => false

end NumFl

instance numFl : Fl Num where
  lit n d := .fin ((n : Rat) / (d : Rat))
  nan := .nan
  add := NumFl.add
  sub a b := NumFl.add a (NumFl.neg b)
  mul := NumFl.mul
  div := NumFl.div
  neg := NumFl.neg
  abs a := if NumFl.sgnN a < 0 then NumFl.neg a else a
  lt := NumFl.lt
  le a b := NumFl.lt a b || Trim.ieeeEq a b
  eq := Trim.ieeeEq
  isnan a := a == .nan
  isfinite a := match a with | .fin _ => true | _ => false
  sqrt _ := .nan
  atan _ := .nan
  atan2 _ _ := .nan
  exp _ := .nan
  sin _ := .nan
  cos _ := .nan
  asin _ := .nan

@[simp] theorem numFl_eq (a b : Num) : (Fl.eq a b : Bool) = Trim.ieeeEq a b := rfl
@[simp] theorem numFl_isnan (a : Num) : (Fl.isnan a : Bool) = (a == Num.nan) := rfl

end XrsVerif
