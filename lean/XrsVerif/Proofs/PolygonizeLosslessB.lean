import XrsVerif.Proofs.PolygonizeLossless
import XrsVerif.Proofs.PolygonizeLosslessC16
/-
  C15: **`losslessB` holds for the output of `scan` on every raster** (`scan_losslessB`) -- the complete
  statement of the property as one Boolean, assembled from the cell assignment (`scan_regions_lossless`),
  the agreement with the C16 components (`comp_iff_region`), area and orientation (`scan_regions_area`) and
  ring well-formedness (`scan_regions_wf`).
-/
set_option linter.unusedVariables false
set_option linter.unusedSimpArgs false
namespace XrsVerif.Polygonize

/-- the pixels as `losslessB` enumerates them: `(column, row)` -/
def cellsOf (nx ny : Nat) : List (Nat × Nat) :=
  (List.range ny).flatMap fun j => (List.range nx).map fun i => (i, j)

theorem mem_cellsOf {nx ny : Nat} {c : Nat × Nat} : c ∈ cellsOf nx ny ↔ c.1 < nx ∧ c.2 < ny := by
  obtain ⟨i, j⟩ := c
  simp [cellsOf, List.mem_flatMap, List.mem_map, List.mem_range]
  omega

theorem cellsOf_succ (nx ny : Nat) :
    cellsOf nx (ny + 1) = cellsOf nx ny ++ (List.range nx).map fun i => (i, ny) := by
  simp [cellsOf, List.range_succ, List.flatMap_append]

theorem filter_range_beq (n r : Nat) :
    (List.range n).filter (fun k => r == k + 1) = if 1 ≤ r ∧ r ≤ n then [r - 1] else [] := by
  induction n with
  | zero => simp; omega
  | succ n ih =>
    rw [List.range_succ, List.filter_append, ih]
    by_cases h1 : r = n + 1
    · subst h1
      rw [if_neg (by omega), if_pos (by omega)]
      simp
    · have : (r == n + 1) = false := by simpa using h1
      simp only [List.filter_cons, this, List.filter_nil, List.append_nil, Bool.false_eq_true, if_false]
      by_cases h2 : 1 ≤ r ∧ r ≤ n
      · rw [if_pos h2, if_pos (by omega)]
      · rw [if_neg h2, if_neg (by omega)]

/-- counting pixels through `cellsOf` or through the flat indices is the same -/
theorem countP_cellsOf (nx ny : Nat) (g : Nat → Bool) :
    (cellsOf nx ny).countP (fun c => g (c.1 + c.2 * nx)) = (List.range (nx * ny)).countP g := by
  have key : (((cellsOf nx ny).countP (fun c => g (c.1 + c.2 * nx)) : Nat) : Int) =
      sumN ny (fun y => sumN nx (fun x => if g (x + y * nx) = true then 1 else 0)) := by
    induction ny with
    | zero => simp [cellsOf, sumN]
    | succ ny ih =>
      rw [cellsOf_succ, List.countP_append, Int.natCast_add, ih]
      simp only [sumN]
      congr 1
      rw [List.countP_map, ← countP_range]
      rfl
  have h2 := countP_range (nx * ny) g
  rw [sumN_flat] at h2
  have := key.trans h2.symm
  exact Int.natCast_inj.mp this

section main
variable {V : Type} (nx ny : Nat) (conn8 : Bool) (close : V → V → Bool) (values : Nat → V) (mask : Nat → Bool)
  (hnx : 0 < nx) (hrefl : ∀ a, close a a = true) (hsymm : ∀ a b, close a b = true → close b a = true)
  (htrans : ∀ a b c, close a b = true → close b c = true → close a c = true)
include hnx hsymm htrans

/-- the polygons a pixel lies in -/
theorem owners_eq (sc : Scan V) (hsc : scan nx ny conn8 close values mask = sc) {c : Nat × Nat}
    (hc : c ∈ cellsOf nx ny) :
    ((List.range sc.polys.length).filter fun k => inPolygon (sc.polys.getD k []) (c.1 : Int) (c.2 : Int)) =
      if mask (c.1 + c.2 * nx) = true then [regionId nx ny conn8 close values mask (c.1 + c.2 * nx) - 1] else [] := by
  subst hsc
  obtain ⟨hc1, hc2⟩ := mem_cellsOf.mp hc
  obtain ⟨_, h2, _, h4, _, h6⟩ := scan_regions_lossless nx ny conn8 close values mask hnx hsymm htrans
  have hp := pix_lt hc1 hc2
  have sp := regionId_spec nx ny conn8 close values mask hnx hsymm htrans hp hp
  have e : ((List.range (scan nx ny conn8 close values mask).polys.length).filter
        fun k => inPolygon ((scan nx ny conn8 close values mask).polys.getD k []) (c.1 : Int) (c.2 : Int)) =
      (List.range (scan nx ny conn8 close values mask).polys.length).filter
        (fun k => regionId nx ny conn8 close values mask (c.1 + c.2 * nx) == k + 1) := by
    apply List.filter_congr
    intro k hk
    have hk' := List.mem_range.mp hk
    exact (h6 k (by omega) c.1 c.2 hc1 hc2).1
  rw [e, filter_range_beq]
  have hle := h4 _ hp
  by_cases hm : mask (c.1 + c.2 * nx) = true
  · have := sp.2.1 hm
    rw [if_pos hm, if_pos (by omega)]
  · have hm' : mask (c.1 + c.2 * nx) = false := by simpa using hm
    have := sp.1 hm'
    rw [if_neg hm, if_neg (by omega)]

include hrefl in
/-- **the complete statement of C15 holds for the output of `scan` on every raster** -/
theorem scan_losslessB (sc : Scan V) (hsc : scan nx ny conn8 close values mask = sc) :
    losslessB nx ny conn8 close values mask sc.column.reverse sc.polys = true := by
  have F1 := scan_cells_lossless nx ny conn8 close values mask hnx hrefl hsymm htrans sc hsc
  have F2 := scan_regions_area nx ny conn8 close values mask hnx hsymm htrans sc hsc
  have F3 := scan_regions_wf nx ny conn8 close values mask hnx hsymm htrans sc hsc
  have hown := fun c hc => owners_eq nx ny conn8 close values mask hnx hsymm htrans sc hsc (c := c) hc
  have hrid : ∀ c ∈ cellsOf nx ny, mask (c.1 + c.2 * nx) = true →
      1 ≤ regionId nx ny conn8 close values mask (c.1 + c.2 * nx) := by
    intro c hc hm
    obtain ⟨hc1, hc2⟩ := mem_cellsOf.mp hc
    have hp := pix_lt hc1 hc2
    exact (regionId_spec nx ny conn8 close values mask hnx hsymm htrans hp hp).2.1 hm
  unfold losslessB
  dsimp only
  have hcells : ((List.range ny).flatMap fun j => (List.range nx).map fun i => (i, j)) = cellsOf nx ny := rfl
  rw [hcells]
  rw [Bool.and_eq_true, Bool.and_eq_true, Bool.and_eq_true]
  refine ⟨⟨⟨?_, ?_⟩, ?_⟩, ?_⟩
  · -- lengths
    rw [decide_eq_true_eq, List.length_reverse]; exact F1.2.1
  · -- cell assignment
    rw [List.all_eq_true]
    intro c hc
    obtain ⟨hc1, hc2⟩ := mem_cellsOf.mp hc
    rw [hown c hc]
    by_cases hm : mask (c.1 + c.2 * nx) = true
    · obtain ⟨k, _, hk1, _, v, hv, hcl⟩ := (F1.2.2 c.1 c.2 hc1 hc2).2 hm
      have hk : regionId nx ny conn8 close values mask (c.1 + c.2 * nx) - 1 = k := by omega
      simp only [hm, if_true, hk, hv, hcl]
    · simp only [hm, Bool.false_eq_true, if_false, List.isEmpty_nil]
  · -- same polygon iff same C16 component
    rw [List.all_eq_true]
    intro c hc
    rw [List.all_eq_true]
    intro c' hc'
    obtain ⟨hc1, hc2⟩ := mem_cellsOf.mp hc
    obtain ⟨hc1', hc2'⟩ := mem_cellsOf.mp hc'
    by_cases hm : mask (c.1 + c.2 * nx) = true
    · by_cases hm' : mask (c'.1 + c'.2 * nx) = true
      · rw [hown c hc, hown c' hc']
        simp only [hm, hm', Bool.and_self, if_true]
        have hb := comp_iff_region nx ny conn8 close values mask hnx hsymm htrans hc1 hc2 hc1' hc2' hm hm'
        have h1 := hrid c hc hm
        have h1' := hrid c' hc' hm'
        rw [beq_iff_eq, Bool.eq_iff_iff, beq_iff_eq, beq_iff_eq]
        unfold gdata at hb
        rw [hb]
        simp only [List.cons.injEq, and_true]
        omega
      · simp only [hm', Bool.and_false, Bool.false_eq_true, if_false]
    · simp only [hm, Bool.false_and, Bool.false_eq_true, if_false]
  · -- per polygon: area, orientation, well-formed rings
    rw [List.all_eq_true]
    intro k hk
    have hk' := List.mem_range.mp hk
    obtain ⟨harea, ext, holes, hrings, hpos, hneg⟩ := F2 k hk'
    rw [Bool.and_eq_true, Bool.and_eq_true]
    refine ⟨⟨?_, ?_⟩, ?_⟩
    · rw [beq_iff_eq, harea]
      congr 2
      rw [← List.countP_eq_length_filter, ← countP_cellsOf nx ny]
      apply List.countP_congr
      intro c hc
      rw [hown c hc]
      by_cases hm : mask (c.1 + c.2 * nx) = true
      · have := hrid c hc hm
        simp only [hm, if_true, beq_iff_eq, List.cons.injEq, and_true]
        omega
      · have hm' : mask (c.1 + c.2 * nx) = false := by simpa using hm
        obtain ⟨hc1, hc2⟩ := mem_cellsOf.mp hc
        have hp := pix_lt hc1 hc2
        have := (regionId_spec nx ny conn8 close values mask hnx hsymm htrans hp hp).1 hm'
        simp only [hm, Bool.false_eq_true, if_false, this]
        simp
    · rw [hrings]
      simp only [Bool.and_eq_true, decide_eq_true_eq, List.all_eq_true]
      exact ⟨hpos, hneg⟩
    · rw [List.all_eq_true]
      exact F3 k hk'

end main

end XrsVerif.Polygonize
