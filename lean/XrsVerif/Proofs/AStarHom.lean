import XrsVerif.Proofs.AStarOpt
/-
  Transfer along a homomorphism of cost structures: if `φ : C → K` commutes with all operations of
  `Ops`, the search over `C` and the search over `K` take the same decisions and `φ` maps the
  costs of the first to the costs of the second.  Used to carry the exact-field theorems to the
  executable exact instance `opsQ2` (costs `a + b√2` as pairs of naturals) that the driver runs.
-/
set_option linter.unusedSectionVars false
set_option linter.unusedVariables false
namespace XrsVerif.AStar
variable {C K : Type}

structure OpsHom (φ : C → K) (o : Ops C) (o' : Ops K) : Prop where
  zero : φ o.zero = o'.zero
  add : ∀ a b, φ (o.add a b) = o'.add (φ a) (φ b)
  lt : ∀ a b, o.lt a b = o'.lt (φ a) (φ b)
  step : ∀ u v, φ (o.step u v) = o'.step u v
  heur : ∀ u v, φ (o.heur u v) = o'.heur u v
  big : ∀ h w, φ (o.big h w) = o'.big h w

/-- the same search problem with other costs -/
def Env.withOps (e : Env C) (o' : Ops K) : Env K :=
  { ops := o', h := e.h, w := e.w, cross := e.cross, nbrs := e.nbrs, start := e.start, goal := e.goal }

def St.map (φ : C → K) (st : St C) : St K :=
  { isOpen := st.isOpen, isClosed := st.isClosed, g := fun c => φ (st.g c), f := fun c => φ (st.f c),
    parent := st.parent }

def LoopEnd.map (φ : C → K) : LoopEnd C → LoopEnd K
  | .found st => .found (st.map φ)
  | .exhausted st => .exhausted (st.map φ)
  | .sentinel st => .sentinel (st.map φ)
  | .fuel st => .fuel (st.map φ)

def Outcome.map (φ : C → K) : Outcome C → Outcome K
  | .path chain g => .path chain (fun c => φ (g c))
  | .noPath => .noPath
  | .anomaly w => .anomaly w

theorem map_upd (φ : C → K) (g : Cell → C) (v : Cell) (d : C) :
    (fun c => φ (upd g v d c)) = upd (fun c => φ (g c)) v (φ d) := by
  funext c; unfold upd; split <;> rfl

section
variable {φ : C → K} {e : Env C} {o' : Ops K}

theorem init_map (hom : OpsHom φ e.ops o') : (init e).map φ = init (e.withOps o') := by
  unfold init
  simp only [Env.withOps]
  by_cases hc : e.cross e.start = true
  · simp only [hc, if_true, St.map, map_upd, hom.zero, hom.add, hom.heur]
  · have hc' : e.cross e.start = false := by simpa using hc
    simp only [hc', Bool.false_eq_true, if_false, St.map, hom.zero]

theorem minFold_map (hom : OpsHom φ e.ops o') (st : St C) :
    ∀ (l : List Cell) (acc : Option Cell × C),
      l.foldl (minStep (e.withOps o') (st.map φ)) (acc.1, φ acc.2) =
        ((l.foldl (minStep e st) acc).1, φ (l.foldl (minStep e st) acc).2)
  | [], acc => rfl
  | x :: l, acc => by
    simp only [List.foldl_cons]
    have : minStep (e.withOps o') (st.map φ) (acc.1, φ acc.2) x =
        ((minStep e st acc x).1, φ (minStep e st acc x).2) := by
      unfold minStep
      simp only [St.map, Env.withOps, ← hom.lt]
      split <;> rfl
    rw [this]
    exact minFold_map hom st l _

theorem minCostOpen_map (hom : OpsHom φ e.ops o') (st : St C) :
    minCostOpen (e.withOps o') (st.map φ) = minCostOpen e st := by
  unfold minCostOpen
  have := minFold_map hom st (cells e.h e.w) (none, e.ops.big e.h e.w)
  simp only [hom.big] at this
  simp only [Env.withOps] at this ⊢
  rw [this]

theorem anyOpen_map (st : St C) : anyOpen (e.withOps o') (st.map φ) = anyOpen e st := rfl

theorem relax_map (hom : OpsHom φ e.ops o') (u : Cell) (st : St C) (off : Cell) :
    (relax e u st off).map φ = relax (e.withOps o') u (st.map φ) off := by
  unfold relax
  simp only [Env.withOps, St.map, ← hom.add, ← hom.step, ← hom.heur, ← hom.lt]
  split
  · rfl
  · split
    · rfl
    · split
      · rfl
      · split
        · rfl
        · simp only [map_upd]

theorem close_map (st : St C) (u : Cell) : (close st u).map φ = close (st.map φ) u := rfl

theorem foldl_relax_map (hom : OpsHom φ e.ops o') (u : Cell) :
    ∀ (l : List Cell) (st : St C),
      (l.foldl (relax e u) st).map φ = l.foldl (relax (e.withOps o') u) (st.map φ)
  | [], st => rfl
  | x :: l, st => by
    simp only [List.foldl_cons]
    rw [foldl_relax_map hom u l, relax_map hom]

theorem expand_map (hom : OpsHom φ e.ops o') (st : St C) (u : Cell) :
    (expand e st u).map φ = expand (e.withOps o') (st.map φ) u := by
  unfold expand
  rw [foldl_relax_map hom u, close_map]
  rfl

theorem loop_map (hom : OpsHom φ e.ops o') :
    ∀ (n : Nat) (st : St C), (loop e n st).map φ = loop (e.withOps o') n (st.map φ)
  | 0, st => rfl
  | n + 1, st => by
    unfold loop
    rw [anyOpen_map, minCostOpen_map hom]
    split
    · rfl
    · cases minCostOpen e st with
      | none => rfl
      | some u =>
        simp only
        have hg : (e.withOps o').goal = e.goal := rfl
        rw [hg]
        split
        · rfl
        · rw [← expand_map hom]; exact loop_map hom n _

theorem search_map (hom : OpsHom φ e.ops o') : (search e).map φ = search (e.withOps o') := by
  unfold search
  have h1 := loop_map hom (e.h * e.w + 1) (init e)
  rw [init_map hom] at h1
  have hh : (e.withOps o').h = e.h := rfl
  have hw : (e.withOps o').w = e.w := rfl
  have hs : (e.withOps o').start = e.start := rfl
  have hg : (e.withOps o').goal = e.goal := rfl
  rw [hh, hw, hs, hg, ← h1]
  cases loop e (e.h * e.w + 1) (init e) with
  | found st =>
    simp only [LoopEnd.map]
    have : (st.map φ).parent = st.parent := rfl
    rw [this]
    cases walk st.parent e.start (e.h * e.w) e.goal with
    | none => rfl
    | some chain => rfl
  | exhausted st => rfl
  | sentinel st => rfl
  | fuel st => rfl

end
end XrsVerif.AStar
