import XrsVerif.Proofs.ILVsSweepExit
/-
  Proofs/ILVsSweepEnter.lean -- one ENTER event of the generated sweep: the node of the entering cell (`enterNode_exec`: three
  inlined `_calc_event_pos`, two `_calculate_angle`, two `_calc_event_grad`, one `_calc_dist_n_grad`, the event type in
  `event_rcts` flipped to CENTER, EXIT and back), the bearing adjustments across the east ray, `_pop(idle)`, and the inlined
  `_insert_into_tree` as a black box with the contract `InsContract` (the hand model's `leafInsert` up to rebalancing).
  `evBody_enter`: the whole loop body for an event of type ENTER.
-/
namespace XrsVerif.ILSw
open XrsVerif XrsVerif.IL XrsVerif.ILVs XrsVerif.Viewshed XrsVerif.ViewshedEvents
variable {F : Type} [Fl F]
set_option linter.unusedSectionVars false
set_option linter.unusedSimpArgs false
set_option linter.unusedVariables false

theorem posBody_int (hH : HalfOK F) (p : String) (s : State F) (fuel : Nat) (hs : s.ctl = .run) :
    exec fuel (posBody .int p) s = { s with fenv := posEnv p s (s.ienv (p ++ "event_type")), ctl := .ret } :=
  posBody_exec hH .int p s fuel hs (s.ienv (p ++ "event_type")) rfl

theorem posEnv_apply (p : String) (s : State F) (ty : Int) (v : String) :
    posEnv p s ty v =
      if v = p ++ "ret1" then halfF (s.ienv (p ++ "event_col")) (posS' p s ty).2
      else if v = p ++ "ret0" then halfF (s.ienv (p ++ "event_row")) (posS' p s ty).1
      else if v = p ++ "x" then halfF (s.ienv (p ++ "event_col")) (posS' p s ty).2
      else if v = p ++ "y" then halfF (s.ienv (p ++ "event_row")) (posS' p s ty).1 else s.fenv v := by
  simp only [posEnv, setS_apply]

theorem angEnv_apply (p : String) (s : State F) (v : String) :
    angEnv p s v =
      if v = p ++ "ret0" then angF (s.fenv (p ++ "event_x")) (s.fenv (p ++ "event_y")) (Fl.lit (s.ienv (p ++ "viewpoint_x")) 1)
        (Fl.lit (s.ienv (p ++ "viewpoint_y")) 1)
      else if v = p ++ "ang" then
        (if angAxis (s.fenv (p ++ "event_x")) (s.fenv (p ++ "event_y")) (Fl.lit (s.ienv (p ++ "viewpoint_x")) 1)
            (Fl.lit (s.ienv (p ++ "viewpoint_y")) 1) = true then s.fenv (p ++ "ang")
         else angAcute (s.fenv (p ++ "event_x")) (s.fenv (p ++ "event_y")) (Fl.lit (s.ienv (p ++ "viewpoint_x")) 1)
            (Fl.lit (s.ienv (p ++ "viewpoint_y")) 1))
      else s.fenv v := by
  simp only [angEnv, setS_apply]

theorem gradEnv_apply (p : String) (s : State F) (v : String) :
    gradEnv p s v =
      let de := Fl.sub (s.fenv (p ++ "elev")) (s.fenv (p ++ "viewpoint_elev"))
      let dx := Fl.mul (Fl.sub (s.fenv (p ++ "col")) (Fl.lit (s.ienv (p ++ "viewpoint_col")) 1)) (s.fenv (p ++ "ew_res"))
      let dy := Fl.mul (Fl.sub (s.fenv (p ++ "row")) (Fl.lit (s.ienv (p ++ "viewpoint_row")) 1)) (s.fenv (p ++ "ns_res"))
      if v = p ++ "ret0" then gradOf de (dist2F dx dy)
      else if v = p ++ "gradient" then gradOf de (dist2F dx dy)
      else if v = p ++ "distance_to_viewpoint" then dist2F dx dy
      else if v = p ++ "dy" then dy else if v = p ++ "dx" then dx else if v = p ++ "diff_elev" then de else s.fenv v := by
  simp only [gradEnv, setS_apply]

theorem distEnv_apply (p : String) (s : State F) (v : String) :
    distEnv p s v =
      let de := Fl.sub (s.fenv (p ++ "elev")) (s.fenv (p ++ "viewpoint_elev"))
      let dx := Fl.mul (Fl.lit (s.ienv (p ++ "status_node_col") - s.ienv (p ++ "viewpoint_col")) 1) (s.fenv (p ++ "ew_res"))
      let dy := Fl.mul (Fl.lit (s.ienv (p ++ "status_node_row") - s.ienv (p ++ "viewpoint_row")) 1) (s.fenv (p ++ "ns_res"))
      if v = p ++ "ret1" then gradOf de (dist2F dx dy)
      else if v = p ++ "ret0" then dist2F dx dy
      else if v = p ++ "gradient" then gradOf de (dist2F dx dy)
      else if v = p ++ "distance_to_viewpoint" then dist2F dx dy
      else if v = p ++ "dy" then dy else if v = p ++ "dx" then dx else if v = p ++ "diff_elev" then de else s.fenv v := by
  simp only [distEnv, setS_apply]

/-- the node of the cell `(r, c)` the ENTER branch builds from its event record `(ang, elev0, elev1, elev2)`:
    key, the gradients at the entering corner / centre / exiting corner, the stored entering bearing and the recomputed
    centre and exiting bearings (before the adjustments across the east ray) -/
def enterNodeF (r c vr vc : Int) (ang el0 el1 el2 ve ew ns : F) : List F :=
  [keyF r c vr vc ew ns,
   gradEventF (halfF r (posOff 1 (r - vr) (c - vc)).1) (halfF c (posOff 1 (r - vr) (c - vc)).2) el0 vr vc ve ew ns,
   gradCellF r c el1 vr vc ve ew ns,
   gradEventF (halfF r (posOff (-1) (r - vr) (c - vc)).1) (halfF c (posOff (-1) (r - vr) (c - vc)).2) el2 vr vc ve ew ns,
   ang,
   angF (halfF c (posOff 0 (r - vr) (c - vc)).2) (halfF r (posOff 0 (r - vr) (c - vc)).1) (Fl.lit vc 1) (Fl.lit vr 1),
   angF (halfF c (posOff (-1) (r - vr) (c - vc)).2) (halfF r (posOff (-1) (r - vr) (c - vc)).1) (Fl.lit vc 1) (Fl.lit vr 1)]

theorem enterNode_exec (hH : HalfOK F) (rest : St) (s : State F) (fuel ne k : Nat) (r c vr vc : Int) (e0 e1 e2 e3 e4 e5 e6 : F)
    (hs : s.ctl = .run) (shN : s.shp "status_node" = [7]) (hE : s.fa "status_node" = [e0, e1, e2, e3, e4, e5, e6])
    (shR : s.shp "event_rcts" = [ne, 3]) (lenR : (s.ia "event_rcts").length = ne * 3) (shA : s.shp "event_aes" = [ne, 4])
    (hk : k < ne) (hrk : s.ienv "row$e_rct" = k) (hak : s.ienv "row$e_ae" = k)
    (hr : rctAt s k 0 = r) (hc : rctAt s k 1 = c) (hty : rctAt s k 2 = 1)
    (hsr : s.ienv "status_row" = r) (hsc : s.ienv "status_col" = c) (hvr : s.ienv "vp_row" = vr) (hvc : s.ienv "vp_col" = vc) :
    ∃ s' : State F, exec fuel (enterNode rest) s = exec fuel rest s' ∧ s'.ctl = .run ∧ s'.ia = s.ia ∧ s'.shp = s.shp ∧
      s'.ext = s.ext ∧
      s'.fa = setS s.fa "status_node" (enterNodeF r c vr vc (aeAt s k 0) (aeAt s k 1) (aeAt s k 2) (aeAt s k 3)
          (s.fenv "vp_elev") (s.fenv "ew_res") (s.fenv "ns_res")) ∧
      (∀ v ∈ swLiveI, s'.ienv v = s.ienv v) ∧ s'.ienv "row$e_ae" = k ∧ (∀ v ∈ swLiveF, s'.fenv v = s.fenv v) := by
  obtain ⟨ie, fe, be, ia, fa, shp, ext, ctl⟩ := s
  simp only at hs shN hE shR lenR shA hrk hak hr hc hty hsr hsc hvr hvc; subst hs
  simp [rctAt] at hr hc hty
  have hpb1 := fun s => posBody_int (F := F) hH "_calc_event_pos36$" s fuel
  have hpb2 := fun s => posBody_int (F := F) hH "_calc_event_pos38$" s fuel
  have hpb3 := fun s => posBody_int (F := F) hH "_calc_event_pos41$" s fuel
  have hab1 := fun s => angBody_exec (F := F) "_calculate_angle39$" s fuel
  have hab2 := fun s => angBody_exec (F := F) "_calculate_angle42$" s fuel
  have hgb1 := fun s => gradBody_exec (F := F) "_calc_event_grad37$" s fuel
  have hgb2 := fun s => gradBody_exec (F := F) "_calc_event_grad43$" s fuel
  have hdb := fun s => distBody_exec (F := F) "_calc_dist_n_grad40$" s fuel
  have ik : inRange (k : Int) ne = true := inRange_of_lt k ne hk
  have o30 : off2 [ne, 3] (k : Int) (0 : Int) = k * 3 + 0 := off2_nat ne 3 k 0
  have o31 : off2 [ne, 3] (k : Int) (1 : Int) = k * 3 + 1 := off2_nat ne 3 k 1
  have o32 : off2 [ne, 3] (k : Int) (2 : Int) = k * 3 + 2 := off2_nat ne 3 k 2
  have o40 : off2 [ne, 4] (k : Int) (0 : Int) = k * 4 + 0 := off2_nat ne 4 k 0
  have o41 : off2 [ne, 4] (k : Int) (1 : Int) = k * 4 + 1 := off2_nat ne 4 k 1
  have o42 : off2 [ne, 4] (k : Int) (2 : Int) = k * 4 + 2 := off2_nat ne 4 k 2
  have o43 : off2 [ne, 4] (k : Int) (3 : Int) = k * 4 + 3 := off2_nat ne 4 k 3
  have j30 : inRange (0 : Int) 3 = true := by decide
  have j31 : inRange (1 : Int) 3 = true := by decide
  have j32 : inRange (2 : Int) 3 = true := by decide
  have j40 : inRange (0 : Int) 4 = true := by decide
  have j41 : inRange (1 : Int) 4 = true := by decide
  have j42 : inRange (2 : Int) 4 = true := by decide
  have j43 : inRange (3 : Int) 4 = true := by decide
  have n0 : inRange (0 : Int) 7 = true := by decide
  have n1 : inRange (1 : Int) 7 = true := by decide
  have n2 : inRange (2 : Int) 7 = true := by decide
  have n3 : inRange (3 : Int) 7 = true := by decide
  have n4 : inRange (4 : Int) 7 = true := by decide
  have n5 : inRange (5 : Int) 7 = true := by decide
  have n6 : inRange (6 : Int) 7 = true := by decide
  have m0 : off1 [7] (0 : Int) = 0 := by decide
  have m1 : off1 [7] (1 : Int) = 1 := by decide
  have m2 : off1 [7] (2 : Int) = 2 := by decide
  have m3 : off1 [7] (3 : Int) = 3 := by decide
  have m4 : off1 [7] (4 : Int) = 4 := by decide
  have m5 : off1 [7] (5 : Int) = 5 := by decide
  have m6 : off1 [7] (6 : Int) = 6 := by decide
  have hl2 : k * 3 + 2 < (ia "event_rcts").length := by omega
  simp [enterNode, posCallI, angCall, gradCall, distCall, rct, ae, exec, IE.ok, IE.eval, FE.ok, FE.eval, shN, shR, shA, hE, hrk, hak,
    setS_apply, setS_setS, ik, o30, o31, o32, o40, o41, o42, o43, j30, j31, j32, j40, j41, j42, j43,
    n0, n1, n2, n3, n4, n5, n6, m0, m1, m2, m3, m4, m5, m6, hpb1, hpb2, hpb3, hab1, hab2, hgb1, hgb2, hdb, hl2, hr, hc, hty,
    posEnv_apply, angEnv_apply, gradEnv_apply, distEnv_apply, posS', hsr, hsc, hvr, hvc]
  have hty' : (ia "event_rcts")[k * 3 + 2] = 1 := by
    have := hty
    rw [List.getElem?_eq_getElem hl2] at this
    simpa using this
  refine ⟨_, rfl, rfl, ?_, rfl, rfl, ?_, ?_, ?_, ?_⟩
  · dsimp only
    have : (ia "event_rcts").set (k * 3 + 2) 1 = ia "event_rcts" := by
      rw [← hty']; exact List.set_getElem_self hl2
    rw [this]; exact setS_self' _ _
  · dsimp only
    rw [hty']
    simp [enterNodeF, keyF, gradEventF, gradCellF, ptDist2, aeAt]
  · intro v hv
    simp [swLiveI] at hv
    rcases hv with rfl | rfl | rfl | rfl | rfl | rfl | rfl | rfl <;> simp [setS_apply]
  · simp [setS_apply, hak]
  · intro v hv
    dsimp only
    simp [swLiveF] at hv
    rcases hv with rfl | rfl | rfl | rfl <;>
      simp [gradEnv_apply, angEnv_apply, distEnv_apply, posEnv_apply, setS_apply]

/-- the node held by the seven-entry buffer `status_node` -/
def nodeOfList (l : List F) : Node (Fv F) :=
  ⟨⟨l.getD 0 Fl.nan⟩, ⟨l.getD 1 Fl.nan⟩, ⟨l.getD 2 Fl.nan⟩, ⟨l.getD 3 Fl.nan⟩, ⟨l.getD 4 Fl.nan⟩, ⟨l.getD 5 Fl.nan⟩, ⟨l.getD 6 Fl.nan⟩⟩

/-- **contract of an inlined `_insert_into_tree`** (locals prefixed `P`; the hand model's `leafInsert` followed by the colour
    fixup, `Rebal`): a fresh row `node_id` receives the node held by `status_node`; the arrays afterwards hold a well-linked
    tree over the old rows and the new one whose abstraction is the model's insertion up to rebalancing; `ret0` is the root -/
def InsContract (F : Type) [Fl F] (ins : St) (P : String) : Prop :=
  ∀ (s : State F) (fuel n : Nat) (sh : Sh) (nid : Nat), s.ctl = .run → SVS s n →
    Linked (s.ia "status_struct") n (-1) sh → sh.idxs.Nodup → sh ≠ .nil → s.ienv (P ++ "root") = sh.ptr →
    vAt (s.fa "status_values") (n - 1) 7 = smallest → s.ienv (P ++ "node_id") = nid → nid + 1 < n → nid ∉ sh.idxs →
    s.shp "status_node" = [7] → (s.fa "status_node").length = 7 → 2 * sh.height + sh.size + 4 ≤ fuel →
    ∃ (s' : State F) (sh' : Sh), exec fuel (.scope ins) s = s' ∧ TreeFrame P s s' ∧ SVS s' n ∧
      Linked (s'.ia "status_struct") n (-1) sh' ∧ sh'.idxs.Nodup ∧ s'.ienv (P ++ "ret0") = sh'.ptr ∧
      sh'.idxs.Perm (nid :: sh.idxs) ∧ vAt (s'.fa "status_values") (n - 1) 7 = smallest ∧
      Rebal smallest (leafInsert (nodeOfList (s.fa "status_node")) (absT (s.fa "status_values") (s.ia "status_struct") sh))
        (absT (s'.fa "status_values") (s'.ia "status_struct") sh')

/-- `2π` as the program computes it -/
def twoPi : F := Fl.mul (Fl.lit 2 1) piF

/-- the bearing adjustments of an entering node across the east ray: an event in the upper half plane whose entering
    bearing exceeds the centre bearing gets `a0 - 2π`; in the lower half plane the centre and exiting bearings get `+ 2π` -/
def adjustEnter (ang k g0 g1 g2 a0 a1 a2 : F) : List F :=
  if Fl.lt ang piF = true then (if Fl.lt a1 a0 = true then [k, g0, g1, g2, Fl.sub a0 twoPi, a1, a2] else [k, g0, g1, g2, a0, a1, a2])
  else (if Fl.lt a1 a0 = true then [k, g0, g1, g2, a0, Fl.add a1 twoPi, Fl.add a2 twoPi] else [k, g0, g1, g2, a0, a1, a2])

/-- the prefix of the inlined insertion of the event loop -/
def iP : String := "_insert_into_tree45$"

/-- **the tail of an ENTER event** (the insertion a black box with contract `InsContract`): the bearings are adjusted, a row
    is popped from the idle stack, the node is inserted -- the arrays then hold the model's `leafInsert` up to rebalancing --
    and `root` is updated -/
theorem enterTail_exec (hi : InsContract F insLoop iP) (s : State F) (fuel n ne : Nat) (sh : Sh) (k top nid : Nat)
    (kk g0 g1 g2 a0 a1 a2 : F) (hs : s.ctl = .run) (hv : SVS s n)
    (hL : Linked (s.ia "status_struct") n (-1) sh) (hN : sh.idxs.Nodup) (hne : sh ≠ .nil) (hroot : s.ienv "root" = sh.ptr)
    (hS : vAt (s.fa "status_values") (n - 1) 7 = smallest)
    (hfuel : 2 * sh.height + sh.size + 4 ≤ fuel) (shN : s.shp "status_node" = [7])
    (hE : s.fa "status_node" = [kk, g0, g1, g2, a0, a1, a2]) (shA : s.shp "event_aes" = [ne, 4]) (hk : k < ne)
    (hak : s.ienv "row$e_ae" = k) (shI : s.shp "idle" = [n]) (lenI : (s.ia "idle").length = n)
    (htop : (s.ia "idle").getD 0 0 = top) (htn : top < n) (ht0 : 0 < top)
    (hnid : (s.ia "idle").getD top 0 = nid) (hnn : nid + 1 < n) (hfresh : nid ∉ sh.idxs) :
    ∃ (s' : State F) (sh' : Sh), exec fuel (enterTail insLoop) s = s' ∧ s'.ctl = .run ∧ SVS s' n ∧
      Linked (s'.ia "status_struct") n (-1) sh' ∧ sh'.idxs.Nodup ∧ s'.ienv "root" = sh'.ptr ∧
      sh'.idxs.Perm (nid :: sh.idxs) ∧ vAt (s'.fa "status_values") (n - 1) 7 = smallest ∧
      Rebal smallest (leafInsert (nodeOfList (adjustEnter (aeAt s k 0) kk g0 g1 g2 a0 a1 a2))
        (absT (s.fa "status_values") (s.ia "status_struct") sh)) (absT (s'.fa "status_values") (s'.ia "status_struct") sh') ∧
      s'.ia "idle" = (s.ia "idle").set 0 ((top : Int) - 1) ∧
      (∀ a, a ≠ "status_values" → a ≠ "status_node" → s'.fa a = s.fa a) ∧
      (∀ a, a ≠ "status_struct" → a ≠ "idle" → s'.ia a = s.ia a) ∧ s'.shp = s.shp ∧
      (∀ v ∈ swLiveI, v ≠ "root" → s'.ienv v = s.ienv v) ∧ (∀ v ∈ swLiveF, s'.fenv v = s.fenv v) := by
  obtain ⟨ie, fe, be, ia, fa, shp, ext, ctl⟩ := s
  simp only at hs hv hL hN hroot hS shN hE shA hak shI lenI htop hnid; subst hs
  have ik : inRange (k : Int) ne = true := inRange_of_lt k ne hk
  have o40 : off2 [ne, 4] (k : Int) (0 : Int) = k * 4 + 0 := off2_nat ne 4 k 0
  have j40 : inRange (0 : Int) 4 = true := by decide
  have n4 : inRange (4 : Int) 7 = true := by decide
  have n5 : inRange (5 : Int) 7 = true := by decide
  have n6 : inRange (6 : Int) 7 = true := by decide
  have m4 : off1 [7] (4 : Int) = 4 := by decide
  have m5 : off1 [7] (5 : Int) = 5 := by decide
  have m6 : off1 [7] (6 : Int) = 6 := by decide
  have i0 : inRange (0 : Int) n = true := inRange_of_lt 0 n (by omega)
  have o0 : off1 [n] (0 : Int) = 0 := off1_nat n 0
  have htop' : (ia "idle")[0]?.getD 0 = (top : Int) := by simpa using htop
  have it : inRange (top : Int) n = true := inRange_of_lt top n htn
  have ot : off1 [n] (top : Int) = top := off1_nat n top
  have hnid' : (ia "idle")[top]?.getD 0 = (nid : Int) := by simpa using hnid
  -- the adjustments and the pop, as a closed form
  have hpre : ∃ ie1, exec fuel (enterTail insLoop) (⟨ie, fe, be, ia, fa, shp, ext, .run⟩ : State F) =
      exec fuel (insCall "_insert_into_tree45$" insLoop) ⟨ie1, fe, be, setS ia "idle" ((ia "idle").set 0 ((top : Int) - 1)),
        setS fa "status_node" (adjustEnter ((fa "event_aes").getD (k * 4 + 0) Fl.nan) kk g0 g1 g2 a0 a1 a2), shp, ext, .run⟩ ∧
      ie1 "id" = nid ∧ (∀ v ∈ swLiveI, ie1 v = ie v) := by
    simp only [enterTail, popCall]
    have hfa : setS fa "status_node" [kk, g0, g1, g2, a0, a1, a2] = fa := by rw [← hE]; exact setS_self' _ _
    cases hc1 : Fl.lt ((fa "event_aes")[k * 4]?.getD Fl.nan) (Fl.mul (Fl.lit 4 1) (Fl.atan (Fl.lit 1 1))) <;>
    cases hc2 : Fl.lt a1 a0 <;>
    simp [exec, IE.ok, IE.eval, FE.ok, FE.eval, BE.ok, BE.eval, CmpOp.eval, BinOp.eval, IOp.eval, ae, shN, shA, shI, hE, hak, ik, o40, j40,
      n4, n5, n6, m4, m5, m6, i0, o0, htop', it, ot, hnid', setS_apply, setS_setS, adjustEnter, twoPi, piF, hc1, hc2, hfa] <;>
    refine ⟨_, rfl, by simp [setS_apply], ?_⟩ <;>
    (intro v hv; simp [swLiveI] at hv; rcases hv with rfl | rfl | rfl | rfl | rfl | rfl | rfl | rfl <;> simp [setS_apply])
  obtain ⟨ie1, hp, hid, hlive⟩ := hpre
  rw [hp]
  let adj := adjustEnter ((fa "event_aes").getD (k * 4 + 0) Fl.nan) kk g0 g1 g2 a0 a1 a2
  have hadjlen : adj.length = 7 := by
    simp only [adj, adjustEnter]; split <;> split <;> rfl
  let s1 : State F := ⟨setS (setS ie1 "_insert_into_tree45$root" (ie1 "root")) "_insert_into_tree45$node_id" (ie1 "id"), fe, be,
    setS ia "idle" ((ia "idle").set 0 ((top : Int) - 1)), setS fa "status_node" adj, shp, ext, .run⟩
  obtain ⟨s2, sh', hex, fr, hv2, hL2, hN2, hr0, hperm, hS2, hmodel⟩ := hi s1 fuel n sh nid rfl
    ⟨hv.shpV, hv.shpN, by simpa [s1, setS_apply] using hv.lenV, by simpa [s1, setS_apply] using hv.lenN, hv.pos⟩
    (by simpa [s1, setS_apply] using hL) hN hne
    (by simp [s1, iP, setS_apply, hlive "root" (by simp [swLiveI]), hroot]) (by simpa [s1, setS_apply] using hS)
    (by simp [s1, iP, setS_apply, hid]) hnn hfresh shN (by simp [s1, setS_apply, hadjlen]) hfuel
  simp only [insCall]
  have h12 : exec fuel (.seq (.setI ("_insert_into_tree45$" ++ "root") (.var "root")) (.setI ("_insert_into_tree45$" ++ "node_id") (.var "id")))
      (⟨ie1, fe, be, setS ia "idle" ((ia "idle").set 0 ((top : Int) - 1)), setS fa "status_node" adj, shp, ext, .run⟩ : State F) = s1 := by
    simp [exec, IE.ok, IE.eval, s1, setS_apply]
  rw [ILVs.exec_seq_assoc, exec_seq_eq _ _ _ _ _ h12 rfl, exec_seq_eq _ _ _ _ _ hex fr.ctl]
  obtain ⟨hc2, hsh2, hext2, hfa2, hia2, hie2, hfe2⟩ := fr
  rw [ILVs.exec_setI _ _ _ _ (by simp [IE.ok])]
  obtain ⟨ie2, fe2, be2, ia2, fa2, shp2, ext2, ctl2⟩ := s2
  simp only at hc2 hsh2 hext2 hfa2 hia2 hie2 hfe2 hv2 hL2 hN2 hr0 hS2 hmodel; subst hc2 hsh2 hext2
  simp only [iP] at hr0
  refine ⟨_, sh', rfl, rfl, ⟨hv2.shpV, hv2.shpN, hv2.lenV, hv2.lenN, hv2.pos⟩, hL2, hN2, ?_, hperm, hS2, ?_, ?_, ?_, ?_, rfl, ?_, ?_⟩
  · simp [IE.eval, setS_apply]; exact hr0
  · simpa [s1, setS_apply, adj, aeAt] using hmodel
  · simp only []; rw [hia2 _ (by decide)]; simp [s1, setS_apply]
  · intro a h1 h2; simp only []; rw [hfa2 a h1]; simp [s1, setS_apply, h2]
  · intro a h1 h2; simp only []; rw [hia2 a h1]; simp [s1, setS_apply, h2]
  · intro v hv hne'
    simp [setS_apply, hne']
    simp [swLiveI] at hv
    have l1 := hlive "vp_row" (by simp [swLiveI]); have l2 := hlive "vp_col" (by simp [swLiveI])
    have l3 := hlive "i" (by simp [swLiveI]); have l4 := hlive "n_rows" (by simp [swLiveI])
    have l5 := hlive "n_cols" (by simp [swLiveI]); have l6 := hlive "num_nodes" (by simp [swLiveI])
    have l7 := hlive "nevents" (by simp [swLiveI])
    rcases hv with rfl | rfl | rfl | rfl | rfl | rfl | rfl | rfl <;> simp at hne' ⊢ <;> rw [hie2 _ (by decide)] <;>
      simp [s1, setS_apply, l1, l2, l3, l4, l5, l6, l7]
  · intro v hv
    simp only []
    simp [swLiveF] at hv
    rcases hv with rfl | rfl | rfl | rfl <;> rw [hfe2 _ (by decide)]

theorem aeAt_of_fa (s s' : State F) (k c : Nat) (h : s'.fa "event_aes" = s.fa "event_aes") : aeAt s' k c = aeAt s k c := by
  simp [aeAt, h]

/-- the node an ENTER event inserts: `enterNodeF` with the bearings adjusted across the east ray -/
def enterNodeAdj (r c vr vc : Int) (ang el0 el1 el2 ve ew ns : F) : List F :=
  adjustEnter ang (keyF r c vr vc ew ns)
    (gradEventF (halfF r (posOff 1 (r - vr) (c - vc)).1) (halfF c (posOff 1 (r - vr) (c - vc)).2) el0 vr vc ve ew ns)
    (gradCellF r c el1 vr vc ve ew ns)
    (gradEventF (halfF r (posOff (-1) (r - vr) (c - vc)).1) (halfF c (posOff (-1) (r - vr) (c - vc)).2) el2 vr vc ve ew ns)
    ang
    (angF (halfF c (posOff 0 (r - vr) (c - vc)).2) (halfF r (posOff 0 (r - vr) (c - vc)).1) (Fl.lit vc 1) (Fl.lit vr 1))
    (angF (halfF c (posOff (-1) (r - vr) (c - vc)).2) (halfF r (posOff (-1) (r - vr) (c - vc)).1) (Fl.lit vc 1) (Fl.lit vr 1))

/-- **one iteration of the event loop for an ENTER event** (the insertion a black box with contract `InsContract`): the node of
    the event's cell -- key, the gradients of the model's entering corner, centre, exiting corner, the stored entering
    bearing and the recomputed centre / exiting bearings, adjusted across the east ray -- is inserted into the status
    structure (the model's `leafInsert` up to rebalancing) in the row popped from the idle stack; the visibility grid
    and the event arrays are unchanged -/
theorem evBody_enter (hH : HalfOK F) (hi : InsContract F insLoop iP) (del qry : St) (s : State F) (fuel n ne : Nat) (sh : Sh)
    (k top nid : Nat) (inv : EvInv s ne k) (lenR : (s.ia "event_rcts").length = ne * 3) (hv : SVS s n)
    (hL : Linked (s.ia "status_struct") n (-1) sh) (hN : sh.idxs.Nodup) (hne : sh ≠ .nil) (hroot : s.ienv "root" = sh.ptr)
    (hS : vAt (s.fa "status_values") (n - 1) 7 = smallest) (hty : rctAt s k 2 = 1)
    (shI : s.shp "idle" = [n]) (lenI : (s.ia "idle").length = n) (htop : (s.ia "idle").getD 0 0 = top) (htn : top < n)
    (ht0 : 0 < top) (hnid : (s.ia "idle").getD top 0 = nid) (hnn : nid + 1 < n) (hfresh : nid ∉ sh.idxs)
    (hfuel : 2 * sh.height + sh.size + 4 ≤ fuel) :
    let node := enterNodeAdj (rctAt s k 0) (rctAt s k 1) (s.ienv "vp_row") (s.ienv "vp_col") (aeAt s k 0) (aeAt s k 1) (aeAt s k 2)
      (aeAt s k 3) (s.fenv "vp_elev") (s.fenv "ew_res") (s.fenv "ns_res")
    ∃ (s' : State F) (sh' : Sh), exec fuel (evBody insLoop del qry) s = s' ∧ s'.ctl = .run ∧ SVS s' n ∧
      Linked (s'.ia "status_struct") n (-1) sh' ∧ sh'.idxs.Nodup ∧ s'.ienv "root" = sh'.ptr ∧
      sh'.idxs.Perm (nid :: sh.idxs) ∧ vAt (s'.fa "status_values") (n - 1) 7 = smallest ∧
      Rebal smallest (leafInsert (nodeOfList node) (absT (s.fa "status_values") (s.ia "status_struct") sh))
        (absT (s'.fa "status_values") (s'.ia "status_struct") sh') ∧
      s'.ia "idle" = (s.ia "idle").set 0 ((top : Int) - 1) ∧
      s'.fa "visibility_grid" = s.fa "visibility_grid" ∧ s'.fa "event_aes" = s.fa "event_aes" ∧
      s'.ia "event_rcts" = s.ia "event_rcts" ∧ s'.shp = s.shp ∧
      (∀ v ∈ swLiveI, v ≠ "root" → s'.ienv v = s.ienv v) ∧ (∀ v ∈ swLiveF, s'.fenv v = s.fenv v) := by
  intro node
  obtain ⟨ie1, fe1, hex, p1, p2, p3, p4, p5, p6, p7⟩ := evPrefix_exec
    (.ite (.cmpI .eq (.var "etype") (.lit 1)) (enterBranch insLoop)
    (.ite (.cmpI .eq (.var "etype") (.lit (-1))) (exitBranch del)
    (.ite (.cmpI .eq (.var "etype") (.lit 0)) (centerBranch qry) .skip))) s fuel ne k inv
  rw [hty] at p3
  rw [evBody, hex, ILVs.exec_ite_true _ _ _ _ _ (by simp [BE.ok, IE.ok]) (by simp [BE.eval, IE.eval, cmpInt, p3]), enterBranch]
  have q_vr : ie1 "vp_row" = s.ienv "vp_row" := p6 _ (by simp [swLiveI])
  have q_vc : ie1 "vp_col" = s.ienv "vp_col" := p6 _ (by simp [swLiveI])
  have q_rt : ie1 "root" = s.ienv "root" := p6 _ (by simp [swLiveI])
  obtain ⟨s2, hex2, c_ctl, c_ia, c_shp, c_ext, c_fa, c_li, c_ae, c_lf⟩ := enterNode_exec hH (enterTail insLoop)
    ⟨ie1, fe1, s.benv, s.ia, setS s.fa "status_node"
      [keyF (rctAt s k 0) (rctAt s k 1) (s.ienv "vp_row") (s.ienv "vp_col") (s.fenv "ew_res") (s.fenv "ns_res"), Fl.nan,
       gradCellF (rctAt s k 0) (rctAt s k 1) (Fl.add (aeAt s k 2) (s.fenv "vp_target")) (s.ienv "vp_row") (s.ienv "vp_col")
         (s.fenv "vp_elev") (s.fenv "ew_res") (s.fenv "ns_res"), Fl.nan, Fl.nan, Fl.nan, Fl.nan], s.shp, s.ext, .run⟩
    fuel ne k (rctAt s k 0) (rctAt s k 1) (s.ienv "vp_row") (s.ienv "vp_col")
    (keyF (rctAt s k 0) (rctAt s k 1) (s.ienv "vp_row") (s.ienv "vp_col") (s.fenv "ew_res") (s.fenv "ns_res")) Fl.nan
    (gradCellF (rctAt s k 0) (rctAt s k 1) (Fl.add (aeAt s k 2) (s.fenv "vp_target")) (s.ienv "vp_row") (s.ienv "vp_col")
         (s.fenv "vp_elev") (s.fenv "ew_res") (s.fenv "ns_res")) Fl.nan Fl.nan Fl.nan Fl.nan rfl inv.shN (by simp [setS_apply])
    inv.shR lenR inv.shA inv.hk p4 p5 rfl rfl hty p1 p2 q_vr q_vc
  rw [hex2]
  have hae : ∀ c', aeAt (⟨ie1, fe1, s.benv, s.ia, setS s.fa "status_node"
      [keyF (rctAt s k 0) (rctAt s k 1) (s.ienv "vp_row") (s.ienv "vp_col") (s.fenv "ew_res") (s.fenv "ns_res"), Fl.nan,
       gradCellF (rctAt s k 0) (rctAt s k 1) (Fl.add (aeAt s k 2) (s.fenv "vp_target")) (s.ienv "vp_row") (s.ienv "vp_col")
         (s.fenv "vp_elev") (s.fenv "ew_res") (s.fenv "ns_res"), Fl.nan, Fl.nan, Fl.nan, Fl.nan], s.shp, s.ext, .run⟩ : State F) k c' =
      aeAt s k c' := fun c' => aeAt_of_fa _ _ _ _ (by simp [setS_apply])
  simp only [hae, setS_setS] at c_fa
  simp only [p7 "vp_elev" (by simp [swLiveF]), p7 "ew_res" (by simp [swLiveF]), p7 "ns_res" (by simp [swLiveF])] at c_fa
  obtain ⟨x0, x1, x2, x3, x4, x5, x6, hx⟩ : ∃ x0 x1 x2 x3 x4 x5 x6, enterNodeF (rctAt s k 0) (rctAt s k 1) (s.ienv "vp_row") (s.ienv "vp_col")
      (aeAt s k 0) (aeAt s k 1) (aeAt s k 2) (aeAt s k 3) (s.fenv "vp_elev") (s.fenv "ew_res") (s.fenv "ns_res") =
      [x0, x1, x2, x3, x4, x5, x6] := ⟨_, _, _, _, _, _, _, rfl⟩
  rw [hx] at c_fa
  obtain ⟨s3, sh', e3, d1, d2, d3, d4, d5, d6, d7, d8, d9, d10, d11, d12, d13, d14⟩ := enterTail_exec hi s2 fuel n ne sh k top nid
    x0 x1 x2 x3 x4 x5 x6 c_ctl ⟨by rw [c_shp]; exact hv.shpV, by rw [c_shp]; exact hv.shpN, by rw [c_fa]; simpa [setS_apply] using hv.lenV,
      by rw [c_ia]; exact hv.lenN, hv.pos⟩ (by rw [c_ia]; exact hL) hN hne (by rw [c_li _ (by simp [swLiveI])]; exact q_rt.trans hroot)
    (by rw [c_fa]; simpa [setS_apply] using hS) hfuel (by rw [c_shp]; exact inv.shN) (by rw [c_fa]; simp [setS_apply])
    (by rw [c_shp]; exact inv.shA) inv.hk c_ae (by rw [c_shp]; exact shI) (by rw [c_ia]; exact lenI) (by rw [c_ia]; exact htop) htn ht0
    (by rw [c_ia]; exact hnid) hnn hfresh
  refine ⟨s3, sh', e3, d1, d2, d3, d4, d5, d6, d7, ?_, ?_, ?_, ?_, ?_, ?_, ?_, ?_⟩
  · have : aeAt s2 k 0 = aeAt s k 0 := aeAt_of_fa _ _ _ _ (by rw [c_fa]; simp [setS_apply])
    rw [this, c_fa, c_ia] at d8
    simp only [enterNodeF, List.cons.injEq, and_true] at hx
    obtain ⟨rfl, rfl, rfl, rfl, rfl, rfl, rfl⟩ := hx
    simpa [setS_apply, node, enterNodeAdj] using d8
  · rw [d9, c_ia]
  · rw [d10 _ (by decide) (by decide), c_fa]; simp [setS_apply]
  · rw [d10 _ (by decide) (by decide), c_fa]; simp [setS_apply]
  · rw [d11 _ (by decide) (by decide), c_ia]
  · rw [d12, c_shp]
  · intro v hv hne'; rw [d13 v hv hne', c_li v hv]; exact p6 v hv
  · intro v hv; rw [d14 v hv, c_lf v hv]; exact p7 v hv
end XrsVerif.ILSw
