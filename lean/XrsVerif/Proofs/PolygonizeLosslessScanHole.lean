import XrsVerif.Proofs.PolygonizeLosslessScanExt
/-
  C15, losslessness: the hole half of a `_scan` step preserves the invariant (`hole_part`).
  A hole is started on the N edge of pixel `ij - nx` only if that edge has not been flagged, i.e. lies on
  no cycle followed so far for that region; the new cycle is then disjoint from all of them (two cycles with
  a common state coincide), and its polygon exists because the region's first pixel precedes `ij - nx`.
-/
set_option linter.unusedVariables false
namespace XrsVerif.Polygonize

theorem hole_part {V : Type} (nx ny : Nat) (hnx : 0 < nx) (regs : Nat → Nat) (values : Nat → V)
    {k : Nat} (hk : k < nx * ny) {st1 : Scan V}
    {cyc : Nat → List (List FSt)} {fs : Nat → Nat} (h : ScanInv nx ny regs values (k + 1) k st1 cyc fs) :
    ∃ cyc', ScanInv nx ny regs values (k + 1) (k + 1) (holePart nx ny regs st1 k) cyc' fs := by
  by_cases hc : nx ≤ k ∧ regs k ≠ regs (k - nx) ∧ regs (k - nx) ≠ 0 ∧ k ∉ st1.v2
  · obtain ⟨h1, hne, hn0, hv⟩ := hc
    have hcond : (decide (nx ≤ k) && !(st1.v2.contains k) && regs k != regs (k - nx) && regs (k - nx) != 0) = true := by
      have : st1.v2.contains k = false := by
        cases hcc : st1.v2.contains k with
        | false => rfl
        | true => exact absurd (List.contains_iff_mem.mp hcc) hv
      rw [this]; simp [h1, hne, hn0]
    have hr1 : 1 ≤ regs (k - nx) := by omega
    have hr2 : regs (k - nx) ≤ st1.regionDone := h.seen (k - nx) (by omega)
    have hstart : Valid (inRegion nx ny regs (regs (k - nx)))
        ⟨((k - nx) % nx : Nat), ((k - nx) / nx : Nat), if true then .W else .E⟩ :=
      hole_start_valid nx ny regs k hnx h1 hk hne
    have hsome := follow_isSome nx ny regs (k - nx) true hstart
    obtain ⟨tr, hf⟩ := Option.isSome_iff_exists.mp hsome
    obtain ⟨c, hcl, hnd, ⟨m, hm, hcm, hit⟩, hpts, hv2, hv1⟩ := follow_char nx ny regs (k - nx) true tr hstart hf
    have hW : Wst nx (k - nx) ∈ c := by
      rw [hcm]; exact mem_orbitL.mpr ⟨0, by omega, rfl⟩
    obtain ⟨hg, hfs⟩ := h.good _ hr1 hr2
    refine ⟨fun r => if r = regs (k - nx) then cyc r ++ [c] else cyc r, ?_⟩
    unfold holePart
    rw [if_pos hcond, hf]
    simp only
    constructor
    · simp only
      rw [h.ok, h.polys, List.length_map, List.length_range]
      simp; omega
    · simp only
      unfold appendAt
      rw [h.polys, modify_range_map]
      apply List.map_congr_left
      intro i hi
      have := List.mem_range.mp hi
      by_cases hir : i = regs (k - nx) - 1
      · rw [if_pos hir, if_pos (by omega), List.map_append, hir, show regs (k - nx) - 1 + 1 = regs (k - nx) by omega]
        simp [hpts]
      · rw [if_neg hir, if_neg (by omega)]
    · exact h.col
    · exact h.seen
    · intro r hr1' hr2'
      simp only at hr2'
      have hold := h.good r hr1' hr2'
      by_cases hr : r = regs (k - nx)
      · subst hr
        simp only [if_true]
        refine ⟨⟨hg.inr, hg.reg, hg.first, ?_, ?_, ?_⟩, hold.2⟩
        · obtain ⟨c0, rest, e, hm0, hh⟩ := hg.head
          refine ⟨c0, rest ++ [c], by rw [e]; rfl, hm0, ?_⟩
          intro c' hc'
          rcases List.mem_append.mp hc' with hc' | hc'
          · exact hh c' hc'
          · rw [List.mem_singleton.mp hc']
            exact ⟨k, h1, hk, hne, hW⟩
        · intro c' hc'
          rcases List.mem_append.mp hc' with hc' | hc'
          · exact hg.cyc c' hc'
          · rw [List.mem_singleton.mp hc']
            exact ⟨hcl, m, _, hm, hcm, hit⟩
        · rw [List.flatten_append, List.nodup_append]
          refine ⟨hg.nodup, by simpa using hnd, ?_⟩
          intro a ha b hb hab
          simp only [List.flatten_cons, List.flatten_nil, List.append_nil] at hb
          subst hab
          -- the start of the new cycle would lie on an old cycle, hence be flagged
          have hclosed : Closed (inRegion nx ny regs (regs (k - nx))) (cyc (regs (k - nx))).flatten :=
            closed_flatten _ (fun c' hc' => (hg.cyc c' hc').1)
          have hb' : a ∈ orbitL (step (inRegion nx ny regs (regs (k - nx)))) m
              ⟨((k - nx) % nx : Nat), ((k - nx) / nx : Nat), if true then .W else .E⟩ := by
            rw [← hcm]; exact hb
          have := start_mem_of_common hclosed hit hb' ha
          exact hv ((h.v2 k).mpr ⟨h1, hk, hr1, hr2, this⟩)
      · simp only [if_neg hr]
        exact hold
    · intro q
      simp only
      rw [List.mem_append, hv2 q, trv2_iff hnx hcl.valid q, h.v2 q]
      by_cases hq : regs (q - nx) = regs (k - nx)
      · simp only [hq, if_true, List.flatten_append, List.flatten_cons, List.flatten_nil, List.append_nil,
          List.mem_append]
        constructor
        · rintro (⟨a, b, _, d⟩ | ⟨a, b, c1, e, d⟩)
          · exact ⟨a, b, hr1, hr2, Or.inr d⟩
          · exact ⟨a, b, c1, e, Or.inl d⟩
        · rintro ⟨a, b, c1, e, d | d⟩
          · exact Or.inr ⟨a, b, c1, e, d⟩
          · exact Or.inl ⟨a, b, trivial, d⟩
      · simp only [if_neg hq]
        constructor
        · rintro (⟨_, _, e, _⟩ | hh)
          · exact absurd e hq
          · exact hh
        · intro hh; exact Or.inr hh
    · intro q hq
      simp only at hq ⊢
      rcases List.mem_append.mp hq with hq | hq
      · obtain ⟨s, hs, _, e⟩ := hv1 q hq
        obtain ⟨_, _, _, e4⟩ := state_coords (hcl.valid s hs).1
        rw [e, e4]; omega
      · exact h.v1 q hq
    · intro q hq1 hq2 hq3 hq4
      simp only
      by_cases hqk : q = k
      · subst hqk
        apply List.mem_append_left
        rw [hv2 q, trv2_iff hnx hcl.valid q]
        exact ⟨h1, hk, rfl, hW⟩
      · exact List.mem_append_right _ (h.cov q hq1 (by omega) hq3 hq4)
  · -- no hole starts here
    have hcond : (decide (nx ≤ k) && !(st1.v2.contains k) && regs k != regs (k - nx) && regs (k - nx) != 0) = false := by
      cases hcc : (decide (nx ≤ k) && !(st1.v2.contains k) && regs k != regs (k - nx) && regs (k - nx) != 0) with
      | false => rfl
      | true =>
        exfalso; apply hc
        simp only [Bool.and_eq_true, decide_eq_true_eq, Bool.not_eq_true', bne_iff_ne, ne_eq] at hcc
        obtain ⟨⟨⟨a, b⟩, c1⟩, d⟩ := hcc
        refine ⟨a, c1, d, ?_⟩
        intro hmem
        have := List.contains_iff_mem.mpr hmem
        rw [this] at b; cases b
    refine ⟨cyc, ?_⟩
    unfold holePart
    rw [hcond]
    simp only [Bool.false_eq_true, if_false]
    refine ⟨h.ok, h.polys, h.col, h.seen, h.good, h.v2, h.v1, ?_⟩
    intro q hq1 hq2 hq3 hq4
    by_cases hqk : q = k
    · subst hqk
      by_cases hmem : q ∈ st1.v2
      · exact hmem
      · exact absurd ⟨hq1, hq3, hq4, hmem⟩ hc
    · exact h.cov q hq1 (by omega) hq3 hq4

end XrsVerif.Polygonize
