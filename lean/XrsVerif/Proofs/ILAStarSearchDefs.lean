import XrsVerif.Proofs.ILAStarSnap
import XrsVerif.Proofs.ILAStarPath
/-
  Proofs/ILAStarSearchDefs.lean -- the text of the generated `_a_star_search` (`Gen.IL.aStarSearch`) cut into named
  pieces (`aStarSearch_body`, by `rfl`: any edit of the source changes the generated text and breaks it), the
  abstraction of the program state to the state of the hand model (`SrchConst`, `SrchAbs`), and the array lemmas
  for one relaxation (`SrchAbs.relaxed`) and for popping a cell (`SrchAbs.closed`).
-/
namespace XrsVerif.IL
open XrsVerif XrsVerif.AStar
variable {F : Type} [Fl F]
set_option linter.unusedSectionVars false
set_option linter.unusedVariables false
set_option linter.unusedSimpArgs false

/-- renaming of the locals of the inlined `_min_cost_pixel_id` / `_reconstruct_path` -/
def q4 : String → String := fun a => "_min_cost_pixel_id4$" ++ a
def q5 : String → String := fun a => "_reconstruct_path5$" ++ a
theorem q4_ren : Ren q4 := Ren.pre _
theorem q5_ren : Ren q5 := Ren.pre _

def rx5 : St :=
  (.seq (.stF2 "d_from_start" (.var "neighbor_y") (.var "neighbor_x") (.var "d"))
  (.seq (.setI "_heuristic8$x1" (.var "neighbor_x"))
  (.seq (.setI "_heuristic8$y1" (.var "neighbor_y"))
  (.seq (.setI "_heuristic8$x2" (.var "goal_px"))
  (.seq (.setI "_heuristic8$y2" (.var "goal_py"))
  (.seq (.scope (.seq (.setI "_heuristic8$_distance9$x1" (.var "_heuristic8$x1"))
  (.seq (.setI "_heuristic8$_distance9$y1" (.var "_heuristic8$y1"))
  (.seq (.setI "_heuristic8$_distance9$x2" (.var "_heuristic8$x2"))
  (.seq (.setI "_heuristic8$_distance9$y2" (.var "_heuristic8$y2"))
  (.seq (.scope (.seq (.setF "_heuristic8$_distance9$ret0" (.un .sqrt (.ofInt (.bin .add (.bin .mul (.bin .sub (.var "_heuristic8$_distance9$x1") (.var "_heuristic8$_distance9$x2")) (.bin .sub (.var "_heuristic8$_distance9$x1") (.var "_heuristic8$_distance9$x2"))) (.bin .mul (.bin .sub (.var "_heuristic8$_distance9$y1") (.var "_heuristic8$_distance9$y2")) (.bin .sub (.var "_heuristic8$_distance9$y1") (.var "_heuristic8$_distance9$y2")))))))
  .ret))
  (.seq (.setF "_heuristic8$ret0" (.var "_heuristic8$_distance9$ret0"))
  .ret)))))))
  (.seq (.setF "d_to_goal" (.var "_heuristic8$ret0"))
  (.seq (.stF2 "cost" (.var "neighbor_y") (.var "neighbor_x") (.bin .add (.ld2 "d_from_start" (.var "neighbor_y") (.var "neighbor_x")) (.var "d_to_goal")))
  (.seq (.stI2 "is_open" (.var "neighbor_y") (.var "neighbor_x") (.lit 1))
  (.seq (.stI2 "parent_ys" (.var "neighbor_y") (.var "neighbor_x") (.var "py"))
  (.stI2 "parent_xs" (.var "neighbor_y") (.var "neighbor_x") (.var "px"))))))))))))

def rx4 : St :=
  (.seq (.ite (.and (.cmpI .ne (.ld2 "is_open" (.var "neighbor_y") (.var "neighbor_x")) (.lit 0)) (.cmpF .gt (.var "d") (.ld2 "d_from_start" (.var "neighbor_y") (.var "neighbor_x"))))
  .cont
  .skip)
  rx5)

def rx3 : St :=
  (.seq (.setI "_distance7$x1" (.var "px"))
  (.seq (.setI "_distance7$y1" (.var "py"))
  (.seq (.setI "_distance7$x2" (.var "neighbor_x"))
  (.seq (.setI "_distance7$y2" (.var "neighbor_y"))
  (.seq (.scope (.seq (.setF "_distance7$ret0" (.un .sqrt (.ofInt (.bin .add (.bin .mul (.bin .sub (.var "_distance7$x1") (.var "_distance7$x2")) (.bin .sub (.var "_distance7$x1") (.var "_distance7$x2"))) (.bin .mul (.bin .sub (.var "_distance7$y1") (.var "_distance7$y2")) (.bin .sub (.var "_distance7$y1") (.var "_distance7$y2")))))))
  .ret))
  (.seq (.setF "d" (.bin .add (.ld2 "d_from_start" (.var "py") (.var "px")) (.var "_distance7$ret0")))
  rx4))))))

def rx2 : St :=
  (.seq (.ite (.var "_is_not_crossable6$ret0")
  .cont
  .skip)
  (.seq (.ite (.cmpI .ne (.ld2 "is_closed" (.var "neighbor_y") (.var "neighbor_x")) (.lit 0))
  .cont
  .skip)
  rx3))

def rx1 : St :=
  (.seq (.ite (.or (.cmpI .gt (.var "neighbor_y") (.bin .sub (.var "height") (.lit 1))) (.or (.cmpI .lt (.var "neighbor_y") (.lit 0)) (.or (.cmpI .gt (.var "neighbor_x") (.bin .sub (.var "width") (.lit 1))) (.cmpI .lt (.var "neighbor_x") (.lit 0)))))
  .cont
  .skip)
  (.seq (.setF "_is_not_crossable6$cell_value" (.ld2 "data" (.var "neighbor_y") (.var "neighbor_x")))
  (.seq (.scope (ncSt "_is_not_crossable6$cell_value" "_is_not_crossable6$i" "_is_not_crossable6$ret0"))
  rx2)))

def rxBody : St :=
  (.seq (.setI "y" (.ld1 "neighbor_ys" (.var "zip1$k")))
  (.seq (.setI "x" (.ld1 "neighbor_xs" (.var "zip1$k")))
  (.seq (.setI "neighbor_y" (.bin .add (.var "py") (.var "y")))
  (.seq (.setI "neighbor_x" (.bin .add (.var "px") (.var "x")))
  rx1))))

def rxLoop : St :=
  (.forRange "zip1$k" (.lit 0) (.bin .min (.dim "neighbor_ys" 0) (.dim "neighbor_xs" 0)) (.lit 1)
  rxBody)

def goalSt : St :=
  (.ite (.and (.cmpI .eq (.var "py") (.var "goal_py")) (.cmpI .eq (.var "px") (.var "goal_px")))
  (.seq (.setI "_reconstruct_path5$start_py" (.var "start_py"))
  (.seq (.setI "_reconstruct_path5$start_px" (.var "start_px"))
  (.seq (.setI "_reconstruct_path5$goal_py" (.var "goal_py"))
  (.seq (.setI "_reconstruct_path5$goal_px" (.var "goal_px"))
  (.seq (.scope (rcSt q5 "d_from_start"))
  .ret)))))
  .skip)

def wbTail : St :=
  (.seq rxLoop
  (.setI "num_open" (.sum "is_open")))

def wbGoal : St :=
  (.seq goalSt
  wbTail)

def wbPop : St :=
  (.seq (.setI "py" (.var "_min_cost_pixel_id4$ret0"))
  (.seq (.setI "px" (.var "_min_cost_pixel_id4$ret1"))
  (.seq (.stI2 "is_open" (.var "py") (.var "px") (.lit 0))
  (.seq (.stI2 "is_closed" (.var "py") (.var "px") (.lit 1))
  wbGoal))))

def whileBody : St :=
  (.seq (.scope (mcSt q4))
  wbPop)

def mainLoop : St :=
  (.while (.cmpI .gt (.var "num_open") (.lit 0))
  whileBody)

def initOpen : St :=
  (.ite (.not (.var "_is_not_crossable1$ret0"))
  (.seq (.stI2 "is_open" (.var "start_py") (.var "start_px") (.lit 1))
  (.seq (.stF2 "d_from_start" (.var "start_py") (.var "start_px") (.ofInt (.lit 0)))
  (.seq (.setI "_heuristic2$x1" (.var "start_px"))
  (.seq (.setI "_heuristic2$y1" (.var "start_py"))
  (.seq (.setI "_heuristic2$x2" (.var "goal_px"))
  (.seq (.setI "_heuristic2$y2" (.var "goal_py"))
  (.seq (.scope (.seq (.setI "_heuristic2$_distance3$x1" (.var "_heuristic2$x1"))
  (.seq (.setI "_heuristic2$_distance3$y1" (.var "_heuristic2$y1"))
  (.seq (.setI "_heuristic2$_distance3$x2" (.var "_heuristic2$x2"))
  (.seq (.setI "_heuristic2$_distance3$y2" (.var "_heuristic2$y2"))
  (.seq (.scope (.seq (.setF "_heuristic2$_distance3$ret0" (.un .sqrt (.ofInt (.bin .add (.bin .mul (.bin .sub (.var "_heuristic2$_distance3$x1") (.var "_heuristic2$_distance3$x2")) (.bin .sub (.var "_heuristic2$_distance3$x1") (.var "_heuristic2$_distance3$x2"))) (.bin .mul (.bin .sub (.var "_heuristic2$_distance3$y1") (.var "_heuristic2$_distance3$y2")) (.bin .sub (.var "_heuristic2$_distance3$y1") (.var "_heuristic2$_distance3$y2")))))))
  .ret))
  (.seq (.setF "_heuristic2$ret0" (.var "_heuristic2$_distance3$ret0"))
  .ret)))))))
  (.stF2 "cost" (.var "start_py") (.var "start_px") (.bin .add (.ld2 "d_from_start" (.var "start_py") (.var "start_px")) (.var "_heuristic2$ret0"))))))))))
  .skip)

def searchTail : St :=
  (.seq mainLoop
  .ret)

def searchC : St :=
  (.seq initOpen
  (.seq (.setI "num_open" (.sum "is_open"))
  searchTail))

def searchB : St :=
  (.seq (.setF "_is_not_crossable1$cell_value" (.ld2 "data" (.var "start_py") (.var "start_px")))
  (.seq (.scope (ncSt "_is_not_crossable1$cell_value" "_is_not_crossable1$i" "_is_not_crossable1$ret0"))
  searchC))

def searchSt : St :=
  (.seq (.setI "height" (.dim "data" 0))
  (.seq (.setI "width" (.dim "data" 1))
  (.seq (.allocI "parent_ys" [(.var "height"), (.var "width")] (.lit (-1)))
  (.seq (.allocI "parent_xs" [(.var "height"), (.var "width")] (.lit (-1)))
  (.seq (.stI2 "parent_ys" (.var "start_py") (.var "start_px") (.var "start_py"))
  (.seq (.stI2 "parent_xs" (.var "start_py") (.var "start_px") (.var "start_px"))
  (.seq (.allocF "d_from_start" [(.dim "data" 0), (.dim "data" 1)] (.lit 0 1))
  (.seq (.allocF "cost" [(.dim "data" 0), (.dim "data" 1)] (.lit 0 1))
  (.seq (.allocI "is_open" [(.dim "data" 0), (.dim "data" 1)] (.lit 0))
  (.seq (.allocI "is_closed" [(.dim "data" 0), (.dim "data" 1)] (.lit 0))
  searchB))))))))))

/-! ### the abstraction: program state ↦ model state -/

/-- the cost operations `_a_star_search` performs, on the number type `F`: `+`, `<`, the Euclidean distance of
    pixel indices for both the step length and the heuristic, `(h + w)^2` as the bound of `_min_cost_pixel_id` -/
def flOps : Ops F where
  zero := Fl.lit 0 1
  add := Fl.add
  lt := Fl.lt
  step := flDist
  heur := flDist
  big h w := Fl.lit (((h : Int) + (w : Int)) * ((h : Int) + (w : Int))) 1

/-- the inputs of the search and what stays constant while it runs: `e` is the environment of the hand model that
    the arrays `data`, `barriers`, `neighbor_ys/xs` and the scalar parameters describe -/
structure SrchConst (e : Env F) (s : State F) : Prop where
  ops : e.ops = flOps
  s_data : s.shp "data" = [e.h, e.w]
  s_bars : (s.shp "barriers").length = 1
  s_nys : s.shp "neighbor_ys" = [(s.ia "neighbor_ys").length]
  s_nxs : s.shp "neighbor_xs" = [(s.ia "neighbor_xs").length]
  s_open : s.shp "is_open" = [e.h, e.w]
  s_closed : s.shp "is_closed" = [e.h, e.w]
  s_g : s.shp "d_from_start" = [e.h, e.w]
  s_f : s.shp "cost" = [e.h, e.w]
  s_py : s.shp "parent_ys" = [e.h, e.w]
  s_px : s.shp "parent_xs" = [e.h, e.w]
  s_path : s.shp "path_img" = [e.h, e.w]
  nbrs : e.nbrs = (s.ia "neighbor_ys").zip (s.ia "neighbor_xs")
  cross : ∀ c, inside e.h e.w c = true →
    e.cross c = !notCross ((s.fa "data").getD (cidx e.w c) Fl.nan) (s.fa "barriers")
  height : s.ienv "height" = (e.h : Int)
  width : s.ienv "width" = (e.w : Int)
  gy : s.ienv "goal_py" = e.goal.1
  gx : s.ienv "goal_px" = e.goal.2
  sy : s.ienv "start_py" = e.start.1
  sx : s.ienv "start_px" = e.start.2
  start_in : inside e.h e.w e.start = true

theorem SrchConst.of_frame {e : Env F} {s r : State F} (hc : SrchConst e s) (hshp : r.shp = s.shp)
    (hd : r.fa "data" = s.fa "data") (hb : r.fa "barriers" = s.fa "barriers")
    (hn1 : r.ia "neighbor_ys" = s.ia "neighbor_ys") (hn2 : r.ia "neighbor_xs" = s.ia "neighbor_xs")
    (h1 : r.ienv "height" = s.ienv "height") (h2 : r.ienv "width" = s.ienv "width")
    (h3 : r.ienv "goal_py" = s.ienv "goal_py") (h4 : r.ienv "goal_px" = s.ienv "goal_px")
    (h5 : r.ienv "start_py" = s.ienv "start_py") (h6 : r.ienv "start_px" = s.ienv "start_px") : SrchConst e r :=
  ⟨hc.ops, by rw [hshp]; exact hc.s_data, by rw [hshp]; exact hc.s_bars, by rw [hshp, hn1]; exact hc.s_nys,
   by rw [hshp, hn2]; exact hc.s_nxs, by rw [hshp]; exact hc.s_open, by rw [hshp]; exact hc.s_closed,
   by rw [hshp]; exact hc.s_g, by rw [hshp]; exact hc.s_f, by rw [hshp]; exact hc.s_py,
   by rw [hshp]; exact hc.s_px, by rw [hshp]; exact hc.s_path, by rw [hn1, hn2]; exact hc.nbrs,
   by rw [hd, hb]; exact hc.cross, by rw [h1]; exact hc.height, by rw [h2]; exact hc.width,
   by rw [h3]; exact hc.gy, by rw [h4]; exact hc.gx, by rw [h5]; exact hc.sy, by rw [h6]; exact hc.sx,
   hc.start_in⟩

/-- the six work arrays of the search represent the state `mst` of the hand model (on the cells of the raster) -/
structure SrchAbs (e : Env F) (s : State F) (mst : AStar.St F) : Prop where
  l_open : (s.ia "is_open").length = e.h * e.w
  l_closed : (s.ia "is_closed").length = e.h * e.w
  l_g : (s.fa "d_from_start").length = e.h * e.w
  l_f : (s.fa "cost").length = e.h * e.w
  l_py : (s.ia "parent_ys").length = e.h * e.w
  l_px : (s.ia "parent_xs").length = e.h * e.w
  open01 : ∀ x ∈ s.ia "is_open", x = 0 ∨ x = 1
  isOpen : ∀ c, inside e.h e.w c = true → mst.isOpen c = decide ((s.ia "is_open").getD (cidx e.w c) 0 ≠ 0)
  isClosed : ∀ c, inside e.h e.w c = true → mst.isClosed c = decide ((s.ia "is_closed").getD (cidx e.w c) 0 ≠ 0)
  g : ∀ c, inside e.h e.w c = true → mst.g c = (s.fa "d_from_start").getD (cidx e.w c) Fl.nan
  f : ∀ c, inside e.h e.w c = true → mst.f c = (s.fa "cost").getD (cidx e.w c) Fl.nan
  parent : ∀ c, inside e.h e.w c = true →
    mst.parent c = parentOf (s.ia "parent_ys") (s.ia "parent_xs") e.w c
  /-- the start cell always has a back pointer (it is its own parent from the beginning) -/
  pstart : parentOf (s.ia "parent_ys") (s.ia "parent_xs") e.w e.start ≠ none

theorem SrchAbs.of_eq {e : Env F} {s r : State F} {mst : AStar.St F} (ha : SrchAbs e s mst)
    (hia : r.ia = s.ia) (hfa : r.fa = s.fa) : SrchAbs e r mst := by
  constructor <;> (try rw [hia]) <;> (try rw [hfa])
  exacts [ha.l_open, ha.l_closed, ha.l_g, ha.l_f, ha.l_py, ha.l_px, ha.open01, ha.isOpen, ha.isClosed, ha.g, ha.f,
    ha.parent, ha.pstart]

theorem SrchAbs.mcAbs {e : Env F} {s : State F} {mst : AStar.St F} (hc : SrchConst e s) (ha : SrchAbs e s mst) :
    McAbs e mst s :=
  ⟨by rw [hc.ops]; rfl, by rw [hc.ops]; rfl, hc.s_open, hc.s_f, ha.isOpen, ha.f⟩

theorem getD_set_cell {α} (h w : Nat) (l : List α) (hl : l.length = h * w) (v c : Cell)
    (hv : inside h w v = true) (hc : inside h w c = true) (x d : α) :
    (l.set (cidx w v) x).getD (cidx w c) d = if c = v then x else l.getD (cidx w c) d := by
  by_cases he : c = v
  · subst he; rw [getD_set_same _ _ _ _ (by rw [hl]; exact cidx_lt h w c hc)]; simp
  · have : cidx w v ≠ cidx w c := fun e => he (cidx_inj h w c v hc hv e.symm)
    rw [getD_set_other _ _ _ _ _ this]; simp [he]

theorem mem_set_01 (l : List Int) (k : Nat) (x : Int) (hx : x = 0 ∨ x = 1) (hl : ∀ y ∈ l, y = 0 ∨ y = 1) :
    ∀ y ∈ l.set k x, y = 0 ∨ y = 1 := by
  intro y hy
  rcases List.mem_or_eq_of_mem_set hy with h | h
  · exact hl y h
  · rw [h]; exact hx

/-- popping `u`: `is_open[u] = 0`, `is_closed[u] = 1` is the model's `close` -/
theorem SrchAbs.closed {e : Env F} {s r : State F} {mst : AStar.St F} (ha : SrchAbs e s mst) (u : Cell)
    (hu : inside e.h e.w u = true)
    (h1 : r.ia "is_open" = (s.ia "is_open").set (cidx e.w u) 0)
    (h2 : r.ia "is_closed" = (s.ia "is_closed").set (cidx e.w u) 1)
    (h3 : r.ia "parent_ys" = s.ia "parent_ys") (h4 : r.ia "parent_xs" = s.ia "parent_xs")
    (h5 : r.fa "d_from_start" = s.fa "d_from_start") (h6 : r.fa "cost" = s.fa "cost") :
    SrchAbs e r (close mst u) := by
  refine ⟨by rw [h1]; simp [ha.l_open], by rw [h2]; simp [ha.l_closed], by rw [h5]; exact ha.l_g,
    by rw [h6]; exact ha.l_f, by rw [h3]; exact ha.l_py, by rw [h4]; exact ha.l_px,
    by rw [h1]; exact mem_set_01 _ _ _ (Or.inl rfl) ha.open01, ?_, ?_, by rw [h5]; exact ha.g,
    by rw [h6]; exact ha.f, by rw [h3, h4]; exact ha.parent, by rw [h3, h4]; exact ha.pstart⟩
  · intro c hc
    rw [h1, getD_set_cell e.h e.w _ ha.l_open u c hu hc]
    simp only [close, upd]
    split
    · simp
    · exact ha.isOpen c hc
  · intro c hc
    rw [h2, getD_set_cell e.h e.w _ ha.l_closed u c hu hc]
    simp only [close, upd]
    split
    · simp
    · exact ha.isClosed c hc

/-- the model state after a successful relaxation of `v` from `u` -/
def relaxedSt (mst : AStar.St F) (u v : Cell) (d fv : F) : AStar.St F :=
  { isOpen := upd mst.isOpen v true, isClosed := mst.isClosed, g := upd mst.g v d, f := upd mst.f v fv,
    parent := upd mst.parent v (some u) }

/-- the five stores at the end of the neighbour loop are the model's update -/
theorem SrchAbs.relaxed {e : Env F} {s r : State F} {mst : AStar.St F} (ha : SrchAbs e s mst) (u v : Cell)
    (hu : inside e.h e.w u = true) (hv : inside e.h e.w v = true) (hstart : inside e.h e.w e.start = true) (d fv : F)
    (h1 : r.ia "is_open" = (s.ia "is_open").set (cidx e.w v) 1)
    (h2 : r.ia "is_closed" = s.ia "is_closed")
    (h3 : r.ia "parent_ys" = (s.ia "parent_ys").set (cidx e.w v) u.1)
    (h4 : r.ia "parent_xs" = (s.ia "parent_xs").set (cidx e.w v) u.2)
    (h5 : r.fa "d_from_start" = (s.fa "d_from_start").set (cidx e.w v) d)
    (h6 : r.fa "cost" = (s.fa "cost").set (cidx e.w v) fv) :
    SrchAbs e r (relaxedSt mst u v d fv) := by
  have hu' := (inside_iff e.h e.w u).1 hu
  refine ⟨by rw [h1]; simp [ha.l_open], by rw [h2]; exact ha.l_closed, by rw [h5]; simp [ha.l_g],
    by rw [h6]; simp [ha.l_f], by rw [h3]; simp [ha.l_py], by rw [h4]; simp [ha.l_px],
    by rw [h1]; exact mem_set_01 _ _ _ (Or.inr rfl) ha.open01, ?_, by rw [h2]; exact ha.isClosed, ?_, ?_, ?_, ?_⟩
  · intro c hc
    rw [h1, getD_set_cell e.h e.w _ ha.l_open v c hv hc]
    simp only [relaxedSt, upd]
    split
    · simp
    · exact ha.isOpen c hc
  · intro c hc
    rw [h5, getD_set_cell e.h e.w _ ha.l_g v c hv hc]
    simp only [relaxedSt, upd]
    split
    · rfl
    · exact ha.g c hc
  · intro c hc
    rw [h6, getD_set_cell e.h e.w _ ha.l_f v c hv hc]
    simp only [relaxedSt, upd]
    split
    · rfl
    · exact ha.f c hc
  · intro c hc
    rw [h3, h4]
    unfold parentOf
    rw [getD_set_cell e.h e.w _ ha.l_py v c hv hc, getD_set_cell e.h e.w _ ha.l_px v c hv hc]
    simp only [relaxedSt, upd]
    split
    · have h1 : u.1 ≠ -1 := by omega
      have h2 : u.2 ≠ -1 := by omega
      simp [h1, h2]
    · have := ha.parent c hc
      unfold parentOf at this
      exact this
  · rw [h3, h4]
    unfold parentOf
    rw [getD_set_cell e.h e.w _ ha.l_py v _ hv hstart, getD_set_cell e.h e.w _ ha.l_px v _ hv hstart]
    split
    · have h1 : u.1 ≠ -1 := by omega
      have h2 : u.2 ≠ -1 := by omega
      simp [h1, h2]
    · have := ha.pstart
      unfold parentOf at this
      exact this

theorem aStarSearch_body : Gen.IL.aStarSearch.body = searchSt := by rfl

end XrsVerif.IL
