import XrsVerif.Model.Viewshed
import Mathlib.Order.Lattice
import Mathlib.Order.MinMax
import Mathlib.Tactic.Linarith
/-!
  C05 helper lemmas, part 1: the status tree over any linear order
  (`trueMax`, the query, Bool checkers = the invariants).
-/
set_option linter.unusedSectionVars false
set_option linter.unusedVariables false
namespace XrsVerif.Viewshed

variable {α : Type} [LinearOrder α]

@[simp] theorem mx2_eq_max (a b : α) : mx2 a b = max a b := by
  unfold mx2
  split
  · rename_i h; exact (max_eq_left (le_of_lt h)).symm
  · rename_i h; exact (max_eq_right (not_lt.mp h)).symm

@[simp] theorem mn2_eq_min (a b : α) : mn2 a b = min a b := by
  unfold mn2
  split
  · rename_i h; exact (min_eq_right (le_of_lt h)).symm
  · rename_i h; exact (min_eq_left (not_lt.mp h)).symm

@[simp] theorem eqv_iff (a b : α) : eqv a b = true ↔ a = b := by
  unfold eqv
  simp only [Bool.and_eq_true, Bool.not_eq_eq_eq_not, Bool.not_true, decide_eq_false_iff_not, not_lt]
  constructor
  · rintro ⟨h1, h2⟩; exact le_antisymm h2 h1
  · rintro rfl; exact ⟨le_refl _, le_refl _⟩

@[simp] theorem recompM_eq (a b m : α) : recompM a b m = max (max a b) m := by simp [recompM]

theorem minv_eq (n : Node α) : minv n = min (min n.g0 n.g1) n.g2 := by simp [minv]

/-! ### trueMax -/

theorem trueMax_le_iff (S : α) (t : Tree α) (g : α) :
    trueMax S t ≤ g ↔ S ≤ g ∧ ∀ n ∈ t.toList, minv n ≤ g := by
  induction t with
  | nil => simp [trueMax, Tree.toList]
  | node l n mx c r ihl ihr =>
    simp only [trueMax, mx2_eq_max, max_le_iff, ihl, ihr, Tree.toList, List.mem_append, List.mem_cons]
    constructor
    · rintro ⟨⟨⟨hS, hl⟩, hn⟩, _, hr⟩
      refine ⟨hS, fun a ha => ?_⟩
      rcases ha with ha | rfl | ha
      · exact hl a ha
      · exact hn
      · exact hr a ha
    · rintro ⟨hS, h⟩
      exact ⟨⟨⟨hS, fun a ha => h a (Or.inl ha)⟩, h n (Or.inr (Or.inl rfl))⟩, hS, fun a ha => h a (Or.inr (Or.inr ha))⟩

theorem S_le_trueMax (S : α) (t : Tree α) : S ≤ trueMax S t :=
  ((trueMax_le_iff S t _).mp (le_refl _)).1

theorem minv_le_trueMax (S : α) (t : Tree α) {n : Node α} (h : n ∈ t.toList) : minv n ≤ trueMax S t :=
  ((trueMax_le_iff S t _).mp (le_refl _)).2 n h

/-- `trueMax` only depends on the set of nodes -/
theorem trueMax_congr (S : α) {t t' : Tree α} (h : ∀ n, n ∈ t.toList ↔ n ∈ t'.toList) :
    trueMax S t = trueMax S t' := by
  apply le_antisymm
  · rw [trueMax_le_iff]; exact ⟨S_le_trueMax S t', fun n hn => minv_le_trueMax S t' ((h n).mp hn)⟩
  · rw [trueMax_le_iff]; exact ⟨S_le_trueMax S t, fun n hn => minv_le_trueMax S t ((h n).mpr hn)⟩

theorem trueMax_node (S : α) (l : Tree α) (n : Node α) (mx : α) (c : Bool) (r : Tree α) :
    trueMax S (.node l n mx c r) = max (max (trueMax S l) (minv n)) (trueMax S r) := by
  simp [trueMax]

theorem Exact.augLe {S : α} {t : Tree α} (h : Exact S t) : AugLe S t := by
  induction t with
  | nil => trivial
  | node l n mx c r ihl ihr => exact ⟨le_of_eq h.1, ihl h.2.1, ihr h.2.2⟩

theorem AugLe.mxOf_le {S : α} {t : Tree α} (h : AugLe S t) : mxOf S t ≤ trueMax S t := by
  cases t with
  | nil => simp [mxOf, trueMax]
  | node l n mx c r => exact h.1

theorem Exact.mxOf_eq {S : α} {t : Tree α} (h : Exact S t) : mxOf S t = trueMax S t := by
  cases t with
  | nil => simp [mxOf, trueMax]
  | node l n mx c r => exact h.1

/-! ### the Bool checkers run by the driver are the invariants -/

theorem all_iff (p : Node α → Bool) (t : Tree α) : t.all p = true ↔ ∀ n ∈ t.toList, p n = true := by
  induction t with
  | nil => simp [Tree.all, Tree.toList]
  | node l n mx c r ihl ihr =>
    simp only [Tree.all, Bool.and_eq_true, ihl, ihr, Tree.toList, List.mem_append, List.mem_cons]
    constructor
    · rintro ⟨⟨hl, hn⟩, hr⟩ a (ha | rfl | ha)
      · exact hl a ha
      · exact hn
      · exact hr a ha
    · intro h
      exact ⟨⟨fun a ha => h a (Or.inl ha), h n (Or.inr (Or.inl rfl))⟩, fun a ha => h a (Or.inr (Or.inr ha))⟩

theorem bstB_iff (t : Tree α) : bstB t = true ↔ BST t := by
  induction t with
  | nil => simp [bstB, BST]
  | node l n mx c r ihl ihr =>
    simp only [bstB, BST, Bool.and_eq_true, all_iff, decide_eq_true_eq, ihl, ihr]
    tauto

theorem augLeB_iff (S : α) (t : Tree α) : augLeB S t = true ↔ AugLe S t := by
  induction t with
  | nil => simp [augLeB, AugLe]
  | node l n mx c r ihl ihr =>
    simp only [augLeB, AugLe, Bool.and_eq_true, Bool.not_eq_eq_eq_not, Bool.not_true,
      decide_eq_false_iff_not, not_lt, ihl, ihr]
    tauto

theorem AugLe.toQ {S : α} {t : Tree α} (h : AugLe S t) : AugLeQ S t := by
  cases t with
  | nil => trivial
  | node l n mx c r => exact ⟨h.2.1, h.2.2⟩

theorem augLeQB_iff (S : α) (t : Tree α) : augLeQB S t = true ↔ AugLeQ S t := by
  cases t with
  | nil => simp [augLeQB, AugLeQ]
  | node l n mx c r => simp only [augLeQB, AugLeQ, Bool.and_eq_true, augLeB_iff]

theorem exactB_iff (S : α) (t : Tree α) : exactB S t = true ↔ Exact S t := by
  induction t with
  | nil => simp [exactB, Exact]
  | node l n mx c r ihl ihr =>
    simp only [exactB, Exact, Bool.and_eq_true, eqv_iff, ihl, ihr]
    tauto


/-! ### the query -/

theorem walk_le_iff (ang g : α) (f : Node α → α) (ns : List (Node α)) (acc : α) :
    walk ang g f ns acc ≤ g ↔ acc ≤ g ∧ ∀ n ∈ ns, spans n ang = true → f n ≤ g := by
  induction ns generalizing acc with
  | nil => simp [walk]
  | cons n ns ih =>
    simp only [walk, mx2_eq_max, List.mem_cons, forall_eq_or_imp]
    by_cases hs : spans n ang = true
    · simp only [hs, if_true, true_implies]
      by_cases hlt : g < max (f n) acc
      · simp only [hlt, if_true]
        constructor
        · intro h; exact absurd h (not_le.mpr hlt)
        · rintro ⟨hacc, hn, _⟩; exact absurd (max_le hn hacc) (not_le.mpr hlt)
      · simp only [hlt, if_false, ih, max_le_iff]
        tauto
    · simp only [hs, Bool.false_eq_true, if_false, ih, false_implies, true_and]

theorem contains_iff {t : Tree α} (hb : BST t) (K : α) :
    t.contains K = true ↔ ∃ n ∈ t.toList, n.key = K := by
  induction t with
  | nil => simp [Tree.contains, Tree.toList]
  | node l n mx c r ihl ihr =>
    obtain ⟨hl, hr, hbl, hbr⟩ := hb
    simp only [Tree.contains, Tree.toList, List.mem_append, List.mem_cons]
    split
    · rename_i h
      rw [ihl hbl]
      constructor
      · rintro ⟨a, ha, rfl⟩; exact ⟨a, Or.inl ha, rfl⟩
      · rintro ⟨a, ha | rfl | ha, rfl⟩
        · exact ⟨a, ha, rfl⟩
        · exact absurd h (lt_irrefl _)
        · exact absurd (lt_trans h (hr a ha)) (lt_irrefl _)
    · rename_i h
      split
      · rename_i h2
        rw [ihr hbr]
        constructor
        · rintro ⟨a, ha, rfl⟩; exact ⟨a, Or.inr (Or.inr ha), rfl⟩
        · rintro ⟨a, ha | rfl | ha, rfl⟩
          · exact absurd (lt_trans (hl a ha) h2) (lt_irrefl _)
          · exact absurd h2 (lt_irrefl _)
          · exact ⟨a, ha, rfl⟩
      · rename_i h2
        simp only [true_iff]
        exact ⟨n, Or.inr (Or.inl rfl), le_antisymm (not_lt.mp h) (not_lt.mp h2)⟩

/-- phase 1 never exceeds `g` when every nearer node's minimum gradient is at most `g`:
    this is where `AugLe` (no overestimate) is used -/
theorem short_le {S : α} {t : Tree α} (K g : α) (hS : S ≤ g) (hb : BST t) (ha : AugLe S t)
    (hall : ∀ n ∈ t.toList, n.key < K → minv n ≤ g) : short S t K ≤ g := by
  induction t with
  | nil => simpa [short] using hS
  | node l n mx c r ihl ihr =>
    obtain ⟨hl, hr, hbl, hbr⟩ := hb
    obtain ⟨_, hal, har⟩ := ha
    simp only [short, mx2_eq_max]
    split
    · exact ihl hbl hal (fun a h => hall a (by simp [Tree.toList, h]))
    · split
      · rename_i h1 h2
        have hr' := ihr hbr har (fun a h => hall a (by simp [Tree.toList, h]))
        have hn : minv n ≤ g := hall n (by simp [Tree.toList]) h2
        have hlmax : mxOf S l ≤ g :=
          le_trans hal.mxOf_le ((trueMax_le_iff S l g).mpr ⟨hS, fun a h =>
            hall a (by simp [Tree.toList, h]) (lt_trans (hl a h) h2)⟩)
        exact max_le hn (max_le hlmax hr')
      · exact hS

/-- the same when only the subtrees below the root are free of overestimates: the root's own stored
    maximum is never read -/
theorem short_le_Q {S : α} {t : Tree α} (K g : α) (hS : S ≤ g) (hb : BST t) (ha : AugLeQ S t)
    (hall : ∀ n ∈ t.toList, n.key < K → minv n ≤ g) : short S t K ≤ g := by
  cases t with
  | nil => simpa [short] using hS
  | node l n mx c r =>
    obtain ⟨hl, hr, hbl, hbr⟩ := hb
    obtain ⟨hal, har⟩ := ha
    simp only [short, mx2_eq_max]
    split
    · exact short_le K g hS hbl hal (fun a h => hall a (by simp [Tree.toList, h]))
    · split
      · rename_i h1 h2
        have hr' := short_le K g hS hbr har (fun a h => hall a (by simp [Tree.toList, h]))
        have hn : minv n ≤ g := hall n (by simp [Tree.toList]) h2
        have hlmax : mxOf S l ≤ g :=
          le_trans hal.mxOf_le ((trueMax_le_iff S l g).mpr ⟨hS, fun a h =>
            hall a (by simp [Tree.toList, h]) (lt_trans (hl a h) h2)⟩)
        exact max_le hn (max_le hlmax hr')
      · exact hS

end XrsVerif.Viewshed
