import XrsVerif.Model.PolygonizeGlue
import XrsVerif.Proofs.Polygonize
/-!
  Lemmas about the wrapper glue of `polygonize()` (Model/PolygonizeGlue.lean): the integer part of `keepsValues` is
  exactly "the C conversion `wrapTo` is the identity on the source range", and `wrapperModel` collapses to
  `polygonizeNumpy` on the caller's own values and transform when the facts contain no noticeable cast and no drop.
-/
namespace XrsVerif.Polygonize

/-- integer -> integer: when `keepsValues s t`, the conversion returns every value of `s` unchanged -/
theorem wrapTo_keeps (s t : DType) (hs : s.isInt = true) (ht : t.isInt = true) (h : keepsValues s t = true)
    (v : Int) (hv : s.inRange v = true) : wrapTo t v = v := by
  cases s <;> cases t <;>
    simp [DType.isInt, keepsValues, DType.lo, DType.hi, DType.signed, DType.bits, DType.inRange, wrapTo] at * <;>
    first | omega | (split <;> omega)

/-- ... and when `keepsValues s t` fails there is a value of `s` the conversion changes (so the table is not
    stricter than needed): the greatest or the least value of `s` -/
theorem wrapTo_loses (s t : DType) (hs : s.isInt = true) (ht : t.isInt = true) (h : keepsValues s t = false) :
    ∃ v, s.inRange v = true ∧ wrapTo t v ≠ v := by
  by_cases hhi : wrapTo t s.hi ≠ s.hi
  · exact ⟨s.hi, by cases s <;> simp [DType.isInt] at hs <;> decide, hhi⟩
  · refine ⟨s.lo, by cases s <;> simp [DType.isInt] at hs <;> decide, ?_⟩
    revert hhi h
    cases s <;> cases t <;> simp [DType.isInt] at hs ht <;> decide

/-- with no drop condition a supplied transform reaches the kernel -/
theorem bind_noDrop (dropIf : String → List Rat → Bool) (transform : Option (List Rat)) :
    (transform.bind fun t => if ([] : List String).any (fun c => dropIf c t) then none else some t) = transform := by
  cases transform <;> simp

end XrsVerif.Polygonize
