import XrsVerif.Proofs.ZonalReduce
import XrsVerif.Proofs.Crosstab
/-
  Proofs/ZonalDask.lean -- helper lemmas for C03:
  * a block function sees exactly the cells of its block (`Block.fn` bridge);
  * reducer / partition algebra: combining the per-block partials (max of maxes, min of mins, sums of
    sums / counts / squares, NaN for a zone absent from a block) over *any* split of a cell list gives
    the whole-list aggregate -- exact for max / min / count, over the field for sum / sum of squares;
  * the dask chunk grid is a partition of the raster (`gridBlocks_perm`).
-/
set_option linter.unusedSectionVars false
set_option linter.unusedVariables false
namespace XrsVerif.Zonal

variable {κ : Type} [LinearOrder κ]

/-! ### a block sees its own cells -/

theorem map_getD_range {α : Type} (l : List α) (d : α) :
    (List.range l.length).map (fun j => l.getD j d) = l := by
  apply List.ext_getElem
  · simp
  · intro i h1 h2
    simp [List.getD_eq_getElem?_getD, List.getElem?_eq_getElem h2]

theorem range_map_getD {α β : Type} (l : List α) (d : α) (f : α → β) :
    (List.range l.length).map (fun k => f (l.getD k d)) = l.map f := by
  have := congrArg (List.map f) (map_getD_range l d)
  rwa [List.map_map] at this

theorem zoneCells_comp {ν : Type} (zones : Nat → X κ) (values : Nat → ν) (valid : ν → Bool) (g : Nat → Nat)
    (order : List Nat) (u : κ) :
    zoneCells (fun j => zones (g j)) (fun j => values (g j)) valid order u
      = zoneCells zones values valid (order.map g) u := by
  unfold zoneCells
  induction order with
  | nil => rfl
  | cons i l ih =>
    simp only [List.map_cons, List.filter_cons]
    by_cases hz : (zones (g i) == X.fin u) = true
    · simp only [hz, if_true, List.map_cons, List.filter_cons]
      by_cases hv : valid (values (g i)) = true
      · simp only [hv, if_true]; rw [ih]
      · simp only [hv]; exact ih
    · simp only [hz]; exact ih

/-- the valid values of zone `u` a block function sees are those of the block's cells -/
theorem zoneCells_block {ν : Type} (zones : Nat → X κ) (values : Nat → ν) (valid : ν → Bool) (zc : List Nat) (u : κ) :
    zoneCells (Block.fn zc zones) (Block.fn zc values) valid (List.range zc.length) u
      = zoneCells zones values valid zc u := by
  have h := zoneCells_comp zones values valid (fun j => zc.getD j 0) (List.range zc.length) u
  rw [map_getD_range] at h
  exact h

theorem block_covers (zones : Nat → X κ) (cells zc : List Nat) (uniq : List κ)
    (hu : CoversCells zones cells uniq) (hsub : ∀ g ∈ zc, g ∈ cells) :
    CoversCells (Block.fn zc zones) (List.range zc.length) uniq where
  sorted := hu.sorted
  cover := by
    intro i hi k hk
    have hi' : i < zc.length := List.mem_range.mp hi
    apply hu.cover (zc.getD i 0) (hsub _ ?_) k hk
    rw [List.getD_eq_getElem?_getD, List.getElem?_eq_getElem hi']
    exact List.getElem_mem hi'

/-! ### zone cells over a concatenation of blocks -/

theorem zoneCells_append {ν : Type} (zones : Nat → X κ) (values : Nat → ν) (valid : ν → Bool) (a b : List Nat) (u : κ) :
    zoneCells zones values valid (a ++ b) u = zoneCells zones values valid a u ++ zoneCells zones values valid b u := by
  simp [zoneCells]

theorem zoneCells_flatten {ν : Type} (zones : Nat → X κ) (values : Nat → ν) (valid : ν → Bool)
    (bs : List (List Nat)) (u : κ) :
    zoneCells zones values valid bs.flatten u = (bs.map (fun b => zoneCells zones values valid b u)).flatten := by
  induction bs with
  | nil => rfl
  | cons b bs ih => simp [zoneCells_append, ih]

/-! ### partial aggregates and their combiners -/

section algebra
variable {F : Type} [Field F] [LinearOrder F] [IsStrictOrderedRing F]

/-- a per-block partial: NaN for an empty selection, else the aggregate -/
def partOf (agg : List F → F) (l : List F) : Option F := if l = [] then none else some (agg l)

/-- **partition invariance**: if `agg` of a concatenation of two non-empty lists is `op` of the
    two aggregates, then folding the partials of any list of blocks (NaN for empty ones) gives the
    partial of the concatenation of all blocks -/
theorem nanFold_parts (agg : List F → F) (op : F → F → F)
    (happ : ∀ a b : List F, a ≠ [] → b ≠ [] → agg (a ++ b) = op (agg a) (agg b)) (ls : List (List F)) :
    nanFold op (ls.map (partOf agg)) = partOf agg ls.flatten := by
  induction ls with
  | nil => rfl
  | cons l ls ih =>
    simp only [List.map_cons, List.flatten_cons]
    by_cases hl : l = []
    · subst hl
      simp only [partOf, if_true, nanFold, List.nil_append]
      exact ih
    · have hp : partOf agg l = some (agg l) := by simp [partOf, hl]
      rw [hp]
      simp only [nanFold, ih]
      by_cases hr : ls.flatten = []
      · simp [partOf, hr, hl]
      · simp only [partOf, hr, if_false]
        have : l ++ ls.flatten ≠ [] := by simp [hl]
        simp only [this, if_false]
        rw [happ l ls.flatten hl hr]

theorem comb_max (ls : List (List F)) :
    Comb.nanmax.eval (ls.map (partOf rmax)) = partOf rmax ls.flatten :=
  nanFold_parts rmax _ (fun a b ha hb => rmax_append a b ha hb) ls

theorem comb_min (ls : List (List F)) :
    Comb.nanmin.eval (ls.map (partOf rmin)) = partOf rmin ls.flatten :=
  nanFold_parts rmin _ (fun a b ha hb => rmin_append a b ha hb) ls

theorem comb_sum (ls : List (List F)) :
    Comb.nansumNaN.eval (ls.map (partOf rsum)) = partOf rsum ls.flatten :=
  nanFold_parts rsum _ (fun a b _ _ => rsum_append a b) ls

theorem comb_count (ls : List (List F)) :
    Comb.nansumNaN.eval (ls.map (partOf rcount)) = partOf rcount ls.flatten :=
  nanFold_parts rcount _ (fun a b _ _ => rcount_append a b) ls

theorem comb_sumsq (ls : List (List F)) :
    Comb.nansumNaN.eval (ls.map (partOf rsumsq)) = partOf rsumsq ls.flatten :=
  nanFold_parts rsumsq _ (fun a b _ _ => rsumsq_append a b) ls

/-- the repaired combiners (`Gen.Zonal.comb` on a tree without defect D2) -/
def fixedComb : BStat → Comb
  | .max => .nanmax
  | .min => .nanmin
  | _ => .nansumNaN

theorem comb_fixed (s : BStat) (ls : List (List F)) :
    (fixedComb s).eval (ls.map (partOf s.eval)) = partOf s.eval ls.flatten := by
  cases s
  · exact comb_max ls
  · exact comb_min ls
  · exact comb_sum ls
  · exact comb_count ls
  · exact comb_sumsq ls

theorem partOf_perm (s : BStat) (l l' : List F) (h : l.Perm l') : partOf s.eval l = partOf s.eval l' := by
  have he : (l = []) ↔ (l' = []) := by
    constructor
    · intro e; subst e; exact List.Perm.nil_eq h ▸ rfl
    · intro e; subst e; exact h.eq_nil
  unfold partOf
  by_cases hl : l = []
  · simp [hl, he.mp hl]
  · have hl' : l' ≠ [] := fun e => hl (he.mpr e)
    simp only [hl, hl', if_false]
    congr 1
    cases s
    · exact rmax_perm l l' h
    · exact rmin_perm l l' h
    · exact rsum_perm l l' h
    · exact rcount_perm l l' h
    · exact rsumsq_perm l l' h

theorem BStat.func_permInv (s : BStat) : PermInv (BStat.func s : List (X F) → Option F) := by
  intro l l' h
  unfold BStat.func
  have hp := h.filterMap (X.toFin? : X F → Option F)
  cases s <;> simp only [BStat.eval]
  · rw [rmax_perm _ _ hp]
  · rw [rmin_perm _ _ hp]
  · rw [rsum_perm _ _ hp]
  · rw [rcount_perm _ _ hp]
  · rw [rsumsq_perm _ _ hp]

end algebra

/-! ### the dask table of `stats` -/

section table
variable {F : Type} [Field F] [LinearOrder F] [IsStrictOrderedRing F]

/-- what is assumed about the blocks: the values block of every pair covers the same cells as the
    zones block (the rechunk), the zones blocks partition the cells, and every block was sorted by a
    permutation meeting argsort's contract -/
structure GoodBlocks (zones : Nat → X κ) (cells : List Nat) (blocks : List Block) : Prop where
  aligned : ∀ b ∈ blocks, b.vc = b.zc
  part : (blocks.map (fun b => b.zc)).flatten.Perm cells
  sorts : ∀ b ∈ blocks, SortsCells (Block.fn b.zc zones) (List.range b.zc.length) b.perm

theorem GoodBlocks.sub {zones : Nat → X κ} {cells : List Nat} {blocks : List Block}
    (h : GoodBlocks zones cells blocks) : ∀ b ∈ blocks, ∀ g ∈ b.zc, g ∈ cells := by
  intro b hb g hg
  apply h.part.subset
  rw [List.mem_flatten]
  exact ⟨b.zc, List.mem_map.mpr ⟨b, hb, rfl⟩, hg⟩

/-- the finite valid values of zone `u` among the cells `order` -/
def finCells (zones : Nat → X κ) (values : Nat → X F) (valid : X F → Bool) (order : List Nat) (u : κ) : List F :=
  (zoneCells zones values valid order u).filterMap X.toFin?

theorem filterMap_toFin_eq_nil (l : List (X F)) (h : ∀ v ∈ l, v.isFin = true) :
    l.filterMap X.toFin? = [] ↔ l = [] := by
  cases l with
  | nil => simp
  | cons a l =>
    have ha := h a (by simp)
    cases a <;> simp_all [X.isFin, X.toFin?]

theorem zoneStat_eq_partOf (zones : Nat → X κ) (values : Nat → X F) (valid : X F → Bool)
    (hfin : ∀ v, valid v = true → v.isFin = true) (agg : List F → F) (order : List Nat) (u : κ) :
    zoneStat zones values valid (none : Option F) (fun l => some (agg (l.filterMap X.toFin?))) order u
      = partOf agg (finCells zones values valid order u) := by
  unfold zoneStat partOf finCells
  have hall : ∀ v ∈ zoneCells zones values valid order u, v.isFin = true := by
    intro v hv
    exact hfin v (List.mem_filter.mp hv).2
  by_cases he : zoneCells zones values valid order u = []
  · simp [he]
  · have : (zoneCells zones values valid order u).filterMap X.toFin? ≠ [] :=
      fun e => he ((filterMap_toFin_eq_nil _ hall).mp e)
    simp [he, this]

theorem finCells_flatten (zones : Nat → X κ) (values : Nat → X F) (valid : X F → Bool)
    (bs : List (List Nat)) (u : κ) :
    finCells zones values valid bs.flatten u = (bs.map (fun b => finCells zones values valid b u)).flatten := by
  unfold finCells
  rw [zoneCells_flatten]
  induction bs with
  | nil => rfl
  | cons b bs ih => simp [List.filterMap_append, ih]

theorem finCells_perm (zones : Nat → X κ) (values : Nat → X F) (valid : X F → Bool) (o₁ o₂ : List Nat)
    (h : o₁.Perm o₂) (u : κ) : (finCells zones values valid o₁ u).Perm (finCells zones values valid o₂ u) :=
  (zoneCells_perm zones values valid o₁ o₂ h u).filterMap _

/-- `_single_stats_func` on one good block: the partials of exactly the block's cells -/
theorem blockStats_fixed (zones : Nat → X κ) (values : Nat → X F) (valid : X F → Bool)
    (hfin : ∀ v, valid v = true → v.isFin = true) (cells : List Nat) (uniq : List κ) (sel : κ → Bool)
    (s : BStat) (b : Block) (hu : CoversCells zones cells uniq)
    (hal : b.vc = b.zc) (hsub : ∀ g ∈ b.zc, g ∈ cells)
    (hs : SortsCells (Block.fn b.zc zones) (List.range b.zc.length) b.perm) :
    blockStats true zones values valid uniq sel s b
      = uniq.map (fun u => if sel u then partOf s.eval (finCells zones values valid b.zc u) else none) := by
  unfold blockStats
  rw [hal, calcStats_fixed (Block.fn b.zc zones) (Block.fn b.zc values) (List.range b.zc.length) b.perm uniq
    valid none s.func sel hs (block_covers zones cells b.zc uniq hu hsub)]
  apply List.map_congr_left
  intro u _
  by_cases hsel : sel u = true
  · simp only [hsel, if_true]
    rw [zoneStat_perm _ _ valid none s.func (BStat.func_permInv s) b.perm (List.range b.zc.length) hs.isPerm u]
    have := zoneStat_eq_partOf (Block.fn b.zc zones) (Block.fn b.zc values) valid hfin s.eval (List.range b.zc.length) u
    unfold BStat.func
    rw [this]
    unfold finCells
    rw [zoneCells_block]
  · simp [hsel]

theorem comb_all_none (s : BStat) (n : List Block) :
    (fixedComb s).eval (n.map (fun _ => (none : Option F))) = none := by
  have : ∀ (op : F → F → F), nanFold op (n.map (fun _ => (none : Option F))) = none := by
    intro op
    induction n with
    | nil => rfl
    | cons b n ih => simpa [nanFold] using ih
  cases s <;> simp only [fixedComb, Comb.eval] <;> exact this _

/-- one basis column: per zone, the aggregate over *all* blocks' cells of that zone -/
theorem basisCol_fixed (zones : Nat → X κ) (values : Nat → X F) (valid : X F → Bool)
    (hfin : ∀ v, valid v = true → v.isFin = true) (cells : List Nat) (uniq : List κ) (sel : κ → Bool)
    (blocks : List Block) (s : BStat) (hu : CoversCells zones cells uniq) (hb : GoodBlocks zones cells blocks) :
    basisCol true fixedComb zones values valid uniq sel blocks s
      = uniq.map (fun u => if sel u then partOf s.eval (finCells zones values valid cells u) else none) := by
  unfold basisCol
  simp only
  have hper : blocks.map (blockStats true zones values valid uniq sel s)
      = blocks.map (fun b => uniq.map (fun u =>
          if sel u then partOf s.eval (finCells zones values valid b.zc u) else none)) := by
    apply List.map_congr_left
    intro b hbm
    exact blockStats_fixed zones values valid hfin cells uniq sel s b hu (hb.aligned b hbm) (hb.sub b hbm) (hb.sorts b hbm)
  rw [hper]
  apply List.ext_getElem
  · simp
  · intro i h1 h2
    have hi : i < uniq.length := by simpa using h1
    simp only [List.getElem_map, List.getElem_range, List.map_map, Function.comp_def]
    have hcol : ∀ b : Block, (uniq.map (fun u =>
          if sel u then partOf s.eval (finCells zones values valid b.zc u) else none)).getD i none
        = (if sel uniq[i] then partOf s.eval (finCells zones values valid b.zc uniq[i]) else none) := by
      intro b
      rw [List.getD_eq_getElem?_getD, List.getElem?_map, List.getElem?_eq_getElem hi]
      rfl
    simp only [hcol]
    by_cases hsel : sel uniq[i] = true
    · simp only [hsel, if_true]
      have := comb_fixed s (blocks.map (fun b => finCells zones values valid b.zc uniq[i]))
      rw [List.map_map] at this
      simp only [Function.comp_def] at this
      rw [this]
      have hf := finCells_flatten zones values valid (blocks.map (fun b => b.zc)) uniq[i]
      rw [List.map_map] at hf
      simp only [Function.comp_def] at hf
      rw [← hf]
      exact partOf_perm s _ _ (finCells_perm zones values valid _ _ hb.part uniq[i])
    · simp only [hsel, Bool.false_eq_true, if_false]
      exact comb_all_none s blocks

/-- NumPy's entry for a built-in statistic, as a function of the zone's finite valid values -/
def statOpt (sqrt : F → F) (s : Stat) (l : List F) : Option F := if l = [] then none else some (s.eval sqrt l)

theorem numpy_entry (sqrt : F → F) (s : Stat) (zones : Nat → X κ) (values : Nat → X F) (valid : X F → Bool)
    (hfin : ∀ v, valid v = true → v.isFin = true) (order : List Nat) (u : κ) :
    zoneStat zones values valid (none : Option F) (Stat.func sqrt s) order u
      = statOpt sqrt s (finCells zones values valid order u) :=
  zoneStat_eq_partOf zones values valid hfin (s.eval sqrt) order u

theorem zipWith_map_map {α β γ δ : Type} (l : List α) (f : β → γ → δ) (a : α → β) (b : α → γ) :
    List.zipWith f (l.map a) (l.map b) = l.map (fun u => f (a u) (b u)) := by
  induction l with
  | nil => rfl
  | cons x l ih => simp [ih]

theorem zipWith3_map {α β γ δ ε : Type} (l : List α) (f : β → γ → δ → ε) (a : α → β) (b : α → γ) (c : α → δ) :
    zipWith3' f (l.map a) (l.map b) (l.map c) = l.map (fun u => f (a u) (b u) (c u)) := by
  induction l with
  | nil => rfl
  | cons x l ih => simp [zipWith3', ih]

theorem length_cast_ne_zero (l : List F) (hl : l ≠ []) : (rcount l) ≠ 0 := by
  have : 0 < l.length := List.length_pos_iff.mpr hl
  exact Nat.cast_ne_zero.mpr (by omega)

/-- the documented formulas on the combined partials are the NumPy statistics -/
theorem daskCol_fixed (sqrt : F → F) (uniq : List κ) (sel : κ → Bool) (fc : κ → List F) (st : Stat) :
    daskCol sqrt (fun s => uniq.map (fun u => if sel u then partOf s.eval (fc u) else none)) st
      = uniq.map (fun u => if sel u then statOpt sqrt st (fc u) else none) := by
  cases st
  · -- mean
    simp only [daskCol]
    rw [zipWith_map_map]
    apply List.map_congr_left
    intro u _
    by_cases hs : sel u = true
    · simp only [hs, if_true, partOf, statOpt, BStat.eval]
      by_cases hl : fc u = []
      · simp [hl, daskMean, oDiv]
      · simp only [hl, if_false, daskMean, oDiv, length_cast_ne_zero (fc u) hl]
        rfl
    · simp [hs, daskMean, oDiv]
  · rfl
  · rfl
  · rfl
  · -- std
    simp only [daskCol]
    rw [List.map_map, zipWith3_map]
    apply List.map_congr_left
    intro u _
    by_cases hs : sel u = true
    · simp only [hs, if_true, partOf, statOpt, BStat.eval, Function.comp]
      by_cases hl : fc u = []
      · simp [hl, daskStd, daskVar, oDiv, oSub, oMul]
      · simp only [hl, if_false, daskStd, daskVar, oDiv, oSub, oMul, length_cast_ne_zero (fc u) hl,
          Option.map_some, Stat.eval]
        rw [dask_var_eq (fc u) hl]
    · simp [hs, daskStd, daskVar, oDiv, oSub, oMul]
  · -- var
    simp only [daskCol]
    rw [List.map_map, zipWith3_map]
    apply List.map_congr_left
    intro u _
    by_cases hs : sel u = true
    · simp only [hs, if_true, partOf, statOpt, BStat.eval, Function.comp]
      by_cases hl : fc u = []
      · simp [hl, daskVar, oDiv, oSub, oMul]
      · simp only [hl, if_false, daskVar, oDiv, oSub, oMul, length_cast_ne_zero (fc u) hl, Stat.eval]
        rw [dask_var_eq (fc u) hl]
    · simp [hs, daskVar, oDiv, oSub, oMul]
  · rfl

theorem keepRow_eq_wanted (zoneIds : Option (List κ)) : keepRow zoneIds = wanted zoneIds := by
  funext u; cases zoneIds <;> rfl

theorem blocks_ok (blocks : List Block) (h : ∀ b ∈ blocks, b.vc = b.zc) :
    blocks.any (fun b => !b.ok) = false := by
  rw [List.any_eq_false]
  intro b hb
  simp [Block.ok, h b hb]

/-- **the dask table equals the NumPy table** (repaired gather, repaired combiners): for every
    good family of blocks, every request with at least one existing zone, every list of statistics -/
theorem daskStats_fixed (sqrt : F → F) (zones : Nat → X κ) (values : Nat → X F) (valid : X F → Bool)
    (hfin : ∀ v, valid v = true → v.isFin = true) (cells : List Nat) (blocks : List Block)
    (stats : List Stat) (zoneIds : Option (List κ)) (hb : GoodBlocks zones cells blocks)
    (hreq : zoneIds = none ∨ wantedZones zones cells zoneIds ≠ []) :
    daskStats true fixedComb sqrt zones values cells valid blocks stats zoneIds
      = some { zone := wantedZones zones cells zoneIds
               cols := stats.map (fun s => (wantedZones zones cells zoneIds).map
                  (fun u => statOpt sqrt s (finCells zones values valid cells u))) } := by
  have hu := uniqueZones_covers zones cells
  unfold daskStats
  rw [if_neg (by rw [blocks_ok blocks hb.aligned]; simp)]
  simp only [keepRow_eq_wanted]
  have hW : List.filter (wanted zoneIds) (uniqueZones zones cells) = wantedZones zones cells zoneIds := rfl
  rw [hW]
  have hne : (zoneIds.isSome && (wantedZones zones cells zoneIds).isEmpty) = false := by
    rcases hreq with h | h
    · simp [h]
    · cases hw : wantedZones zones cells zoneIds with
      | nil => exact absurd hw h
      | cons a l => simp
  rw [if_neg (by rw [hne]; simp)]
  congr 2
  apply List.map_congr_left
  intro s _
  have hbasis : basisCol true fixedComb zones values valid (uniqueZones zones cells)
        (fun u => (zoneIds.getD (uniqueZones zones cells)).contains u) blocks
      = fun bs => (uniqueZones zones cells).map (fun u =>
          if (zoneIds.getD (uniqueZones zones cells)).contains u then
            partOf bs.eval (finCells zones values valid cells u) else none) := by
    funext bs
    exact basisCol_fixed zones values valid hfin cells _ _ blocks bs hu hb
  rw [hbasis, daskCol_fixed, zip_map_self, List.filter_map, List.map_map]
  rw [show (List.filter ((fun p : κ × Option F => wanted zoneIds p.1) ∘ fun u =>
        (u, if (zoneIds.getD (uniqueZones zones cells)).contains u = true then
              statOpt sqrt s (finCells zones values valid cells u) else none)) (uniqueZones zones cells))
      = wantedZones zones cells zoneIds from rfl]
  apply List.map_congr_left
  intro u hu'
  have hm := List.mem_filter.mp hu'
  have hsel : (zoneIds.getD (uniqueZones zones cells)).contains u = true := by
    cases zoneIds with
    | none => simpa using hm.1
    | some r => simpa [wanted] using hm.2
  simp only [Function.comp_def, hsel, if_true]

end table

end XrsVerif.Zonal
