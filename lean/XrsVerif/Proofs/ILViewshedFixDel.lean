import XrsVerif.Proofs.ILViewshedDelCut
import XrsVerif.Proofs.ILViewshedFixInsLoop
/-
  Proofs/ILViewshedFixDel.lean -- the blocks of one iteration of `_rb_delete_fixup` (inlined in `Gen.IL.vsDelete`;
  the cut is Proofs/ILViewshedDelCut.lean) at a position of the whole tree, `x` the LEFT child of its parent; each is
  a few steps of the model (`atPath` of a rotation / a colour write):

    `dcase1L_spec`   red sibling: sibling black, parent red, left rotation at the parent, the new sibling;
    `dcase2L_spec`   both children of the sibling black: sibling red, `x` moves to its parent;
    `dnilL_spec`     NIL sibling: `x` moves to its parent (`continue`);
    `dcase3L_spec`   black far child: near child black, sibling red, right rotation at the sibling;
    `dcase4L_spec`   sibling takes the parent's colour, parent and far child black, left rotation at the parent,
                     `x = root`.
-/
set_option linter.unusedSectionVars false
set_option linter.unusedVariables false
set_option linter.unusedSimpArgs false
namespace XrsVerif.ILVs
open XrsVerif XrsVerif.IL XrsVerif.Viewshed
variable {F : Type} [Fl F]

theorem colV_one : ColV 1 := Or.inr rfl
theorem colV_zero : ColV 0 := Or.inl rfl

/-! ### case 1: red sibling -/

theorem dcase1L_spec (fuel n : Nat) (s : State F) (hv : VS s n) (hrun : s.ctl = .run)
    (xl : Sh) (x : Nat) (xr : Sh) (p : Nat) (wl : Sh) (w : Nat) (wr : Sh) (rest : Ctx)
    (hL : Linked (s.ia "tree_nodes") n (-1) (plug (.node xl x xr) (.L p (.node wl w wr) :: rest)))
    (hN : (plug (.node xl x xr) (.L p (.node wl w wr) :: rest)).idxs.Nodup)
    (ew : s.ienv "_rb_delete_fixup17$w" = w) (exp : s.ienv "_rb_delete_fixup17$x_parent" = p)
    (hroot : s.ienv "_rb_delete_fixup17$root" = (plug (.node xl x xr) (.L p (.node wl w wr) :: rest)).ptr) :
    let r := exec fuel (.seq (.stI2 "tree_nodes" (.var "_rb_delete_fixup17$w") (.lit 0) (.lit 1))
      (.seq (.stI2 "tree_nodes" (.var "_rb_delete_fixup17$x_parent") (.lit 0) (.lit 0))
      (dlrot18 (.setI "_rb_delete_fixup17$w" (.ld2 "tree_nodes" (.var "_rb_delete_fixup17$x_parent") (.lit 2)))))) s
    let T := absT (s.fa "tree_vals") (s.ia "tree_nodes") (plug (.node xl x xr) (.L p (.node wl w wr) :: rest))
    let S : Fv F := vAt (s.fa "tree_vals") (n - 1) 7
    r.ctl = .run ∧ VS r n ∧
      Linked (r.ia "tree_nodes") n (-1) (plug (.node xl x xr) (.L p wl :: .L w wr :: rest)) ∧
      (plug (.node xl x xr) (.L p wl :: .L w wr :: rest)).idxs.Nodup ∧
      absT (r.fa "tree_vals") (r.ia "tree_nodes") (plug (.node xl x xr) (.L p wl :: .L w wr :: rest)) =
        atPath (rotL S) (pathOf rest) (atPath (setCol true) (pathOf rest)
          (atPath (setCol false) (pathOf rest ++ [Dir.R]) T)) ∧
      r.ienv "_rb_delete_fixup17$w" = wl.ptr ∧ r.ienv "_rb_delete_fixup17$x_parent" = p ∧
      r.ienv "_rb_delete_fixup17$x" = s.ienv "_rb_delete_fixup17$x" ∧
      r.ienv "_rb_delete_fixup17$root" = (plug (.node xl x xr) (.L p wl :: .L w wr :: rest)).ptr ∧
      vAt (r.fa "tree_vals") (n - 1) 7 = S ∧ nAt (r.ia "tree_nodes") (n - 1) 0 = nAt (s.ia "tree_nodes") (n - 1) 0 ∧
      (∀ j, ColV (nAt (s.ia "tree_nodes") j 0) → ColV (nAt (r.ia "tree_nodes") j 0)) ∧
      nAt (r.ia "tree_nodes") p 0 = 0 := by
  intro r T S
  have hwn : w + 1 < n := Linked.idx_lt hL w (by
    have : w ∈ (plug (Sh.node (Sh.node xl x xr) p (Sh.node wl w wr)) rest).idxs := mem_plug _ rest _ (by simp [Sh.idxs])
    exact this)
  have hpn : p + 1 < n := Linked.idx_lt hL p (by
    have : p ∈ (plug (Sh.node (Sh.node xl x xr) p (Sh.node wl w wr)) rest).idxs := mem_plug _ rest _ (by simp [Sh.idxs])
    exact this)
  -- the sibling becomes black
  obtain ⟨a1, a2, a3, a4, a5, a6, a7, a8⟩ := stCol_at fuel n s hv hrun "_rb_delete_fixup17$w" 1
    (.R (.node xl x xr) p :: rest) wl w wr hL hN ew
  generalize hs1 : exec fuel (.stI2 "tree_nodes" (.var "_rb_delete_fixup17$w") (.lit 0) (.lit 1)) s = s1 at a1 a2 a3 a4 a5 a6 a7 a8
  -- the parent red
  obtain ⟨b1, b2, b3, b4, b5, b6, b7, b8⟩ := stCol_at fuel n s1 a2 a1 "_rb_delete_fixup17$x_parent" 0
    rest (.node xl x xr) p (.node wl w wr) a5 hN (by rw [a3]; exact exp)
  generalize hs2 : exec fuel (.stI2 "tree_nodes" (.var "_rb_delete_fixup17$x_parent") (.lit 0) (.lit 0)) s1 = s2 at b1 b2 b3 b4 b5 b6 b7 b8
  -- the rotation at the parent
  obtain ⟨c1, c2, c3, c4, c5, c6, c7, c8⟩ := lrotCall_at_path dren18 (rotRen_inj _ _ _) "_rb_delete_fixup17$root"
    "_rb_delete_fixup17$x_parent" (by decide) s2 fuel n b2 b1 rest (.node xl x xr) p wl w wr b5 hN
    (by rw [b3, a3]; exact exp)
  have hfr := exec_frame fuel (rotCall Gen.IL.vsLeftRotate.body dren18 "x" "_rb_delete_fixup17$root"
    "_rb_delete_fixup17$x_parent") s2
  generalize hs3 : exec fuel (rotCall Gen.IL.vsLeftRotate.body dren18 "x" "_rb_delete_fixup17$root"
    "_rb_delete_fixup17$x_parent") s2 = s3 at c1 c2 c3 c5 c6 c7 c8 hfr
  have exp3 : s3.ienv "_rb_delete_fixup17$x_parent" = p := by rw [hfr.ienv _ (by decide), b3, a3]; exact exp
  -- the new sibling
  obtain ⟨hlp, _, _⟩ := unplug (.L w wr :: rest) (.node (.node xl x xr) p wl) c3 c4
  have hp2 : nAt (s3.ia "tree_nodes") p 2 = wl.ptr := hlp.2.2.1
  have h4 := exec_ldN fuel n s3 c2.shpN "_rb_delete_fixup17$w" "_rb_delete_fixup17$x_parent" 2 (by decide)
    (by rw [exp3]; exact inRange_ptr n _ (by omega) hv.pos) wl.ptr (by rw [exp3, rowOf_nat]; exact hp2)
  have hr : r = { s3 with ienv := setS s3.ienv "_rb_delete_fixup17$w" wl.ptr } := by
    simp only [r, dlrot18]
    rw [exec_seq_run _ _ _ _ (by rw [hs1]; exact a1), hs1, exec_seq_run _ _ _ _ (by rw [hs2]; exact b1), hs2,
      exec_rotCallK, exec_seq_run _ _ _ _ (by rw [hs3]; exact c1), hs3, h4]
  have hd1 : decide ((1 : Int) = 0) = false := by decide
  have hd0 : decide ((0 : Int) = 0) = true := by decide
  rw [hd1] at a6
  rw [hd0] at b6
  have hwp : w ≠ p := by
    obtain ⟨_, _, hng⟩ := unplug rest (.node (.node xl x xr) p (.node wl w wr)) hL hN
    have := (Sh.ptr_ne_of_nodup _ _ _ hng).2.2.2.2.2
    intro e; exact this (by simp [Sh.idxs, e])
  rw [hr]
  refine ⟨c1, ⟨c2.shpV, c2.shpN, c2.lenV, c2.lenN, c2.pos⟩, c3, c4, ?_, by simp [setS], by simp [setS, exp3], ?_, ?_, ?_, ?_, ?_, ?_⟩
  · show absT (s3.fa "tree_vals") (s3.ia "tree_nodes") _ = _
    have a6' : absT (s1.fa "tree_vals") (s1.ia "tree_nodes") (plug (.node (.node xl x xr) p (.node wl w wr)) rest) =
        atPath (setCol false) (pathOf rest ++ [Dir.R]) T := a6
    refine c5.trans ?_
    rw [b6, a6', b4, a4]
  · show setS s3.ienv "_rb_delete_fixup17$w" wl.ptr "_rb_delete_fixup17$x" = _
    rw [setS_ne _ _ _ _ (by decide), hfr.ienv _ (by decide), b3, a3]
  · show setS s3.ienv "_rb_delete_fixup17$w" wl.ptr "_rb_delete_fixup17$root" = _
    rw [setS_ne _ _ _ _ (by decide), c6, b3, a3, hroot]
    cases rest with
    | nil => simp [ctxPar, plug, Sh.ptr]
    | cons f rs =>
      have : ¬ (ctxPar (f :: rs) = -1) := by rw [ctxPar_eq_neg_one]; simp
      rw [if_neg this]
      exact plug_ptr_cons f rs _ _
  · show vAt (s3.fa "tree_vals") (n - 1) 7 = S
    rw [c7, b4, a4]
  · show nAt (s3.ia "tree_nodes") (n - 1) 0 = _
    rw [c8, b7 _ 0 (by decide) (by omega), a7 _ 0 (by decide) (by omega)]
  · intro j hj
    show ColV (nAt (s3.ia "tree_nodes") j 0)
    rw [c8]
    exact colV_of_store colV_zero b7 b8 j (colV_of_store colV_one a7 a8 j hj)
  · show nAt (s3.ia "tree_nodes") p 0 = 0
    rw [c8, b8]

/-! ### case 2: both children of the sibling black -/

theorem dcase2L_spec (fuel n : Nat) (s : State F) (hv : VS s n) (hrun : s.ctl = .run)
    (xl : Sh) (x : Nat) (xr : Sh) (p : Nat) (wl : Sh) (w : Nat) (wr : Sh) (rest : Ctx)
    (hL : Linked (s.ia "tree_nodes") n (-1) (plug (.node xl x xr) (.L p (.node wl w wr) :: rest)))
    (hN : (plug (.node xl x xr) (.L p (.node wl w wr) :: rest)).idxs.Nodup)
    (ew : s.ienv "_rb_delete_fixup17$w" = w) (ex : s.ienv "_rb_delete_fixup17$x" = x) :
    let r := exec fuel dfCase2L s
    let T := absT (s.fa "tree_vals") (s.ia "tree_nodes") (plug (.node xl x xr) (.L p (.node wl w wr) :: rest))
    r.ctl = .run ∧ VS r n ∧ r.fa = s.fa ∧
      Linked (r.ia "tree_nodes") n (-1) (plug (.node xl x xr) (.L p (.node wl w wr) :: rest)) ∧
      absT (r.fa "tree_vals") (r.ia "tree_nodes") (plug (.node xl x xr) (.L p (.node wl w wr) :: rest)) =
        atPath (setCol true) (pathOf rest ++ [Dir.R]) T ∧
      r.ienv "_rb_delete_fixup17$x" = p ∧
      r.ienv "_rb_delete_fixup17$root" = s.ienv "_rb_delete_fixup17$root" ∧
      nAt (r.ia "tree_nodes") (n - 1) 0 = nAt (s.ia "tree_nodes") (n - 1) 0 ∧
      (∀ j, ColV (nAt (s.ia "tree_nodes") j 0) → ColV (nAt (r.ia "tree_nodes") j 0)) ∧
      nAt (r.ia "tree_nodes") p 0 = nAt (s.ia "tree_nodes") p 0 := by
  intro r T
  have hwn : w + 1 < n := Linked.idx_lt hL w (by
    have : w ∈ (plug (Sh.node (Sh.node xl x xr) p (Sh.node wl w wr)) rest).idxs := mem_plug _ rest _ (by simp [Sh.idxs])
    exact this)
  obtain ⟨hlx, _, _⟩ := unplug _ _ hL hN
  have hx3 : nAt (s.ia "tree_nodes") x 3 = p := hlx.2.2.2.1
  have hxn : x + 1 < n := hlx.1
  obtain ⟨a1, a2, a3, a4, a5, a6, a7, a8⟩ := stCol_at fuel n s hv hrun "_rb_delete_fixup17$w" 0
    (.R (.node xl x xr) p :: rest) wl w wr hL hN ew
  generalize hs1 : exec fuel (.stI2 "tree_nodes" (.var "_rb_delete_fixup17$w") (.lit 0) (.lit 0)) s = s1 at a1 a2 a3 a4 a5 a6 a7 a8
  have h2 := exec_ldN fuel n s1 a2.shpN "_rb_delete_fixup17$x" "_rb_delete_fixup17$x" 3 (by decide)
    (by rw [a3, ex]; exact inRange_ptr n _ (by omega) hv.pos) p
    (by rw [a3, ex, rowOf_nat]; show nAt (s1.ia "tree_nodes") x 3 = _; rw [a7 x 3 (by decide) (by simp)]; exact hx3)
  have hr : r = { s1 with ienv := setS s1.ienv "_rb_delete_fixup17$x" (p : Int) } := by
    simp only [r, dfCase2L]
    rw [exec_seq_run _ _ _ _ (by rw [hs1]; exact a1), hs1, h2]
  have hd0 : decide ((0 : Int) = 0) = true := by decide
  rw [hd0] at a6
  have hwp : w ≠ p := by
    obtain ⟨_, _, hng⟩ := unplug rest (.node (.node xl x xr) p (.node wl w wr)) hL hN
    have := (Sh.ptr_ne_of_nodup _ _ _ hng).2.2.2.2.2
    intro e; exact this (by simp [Sh.idxs, e])
  rw [hr]
  exact ⟨a1, ⟨a2.shpV, a2.shpN, a2.lenV, a2.lenN, a2.pos⟩, a4, a5, a6, by simp [setS], by simp [setS, a3],
    a7 _ 0 (by decide) (by omega), colV_of_store colV_zero a7 a8, a7 p 0 (by decide) (by simp [Ne.symm hwp])⟩

/-! ### NIL sibling -/

theorem dnilL_spec (fuel n : Nat) (s : State F) (hv : VS s n) (hrun : s.ctl = .run) (x p : Nat) (hxn : x + 1 < n)
    (hx3 : nAt (s.ia "tree_nodes") x 3 = (p : Int)) (ex : s.ienv "_rb_delete_fixup17$x" = x) :
    exec fuel (.seq (.setI "_rb_delete_fixup17$x" (.ld2 "tree_nodes" (.var "_rb_delete_fixup17$x") (.lit 3))) .cont) s =
      { s with ienv := setS s.ienv "_rb_delete_fixup17$x" (p : Int), ctl := .cont } := by
  have h1 := exec_ldN fuel n s hv.shpN "_rb_delete_fixup17$x" "_rb_delete_fixup17$x" 3 (by decide)
    (by rw [ex]; exact inRange_ptr n _ (by omega) hv.pos) p (by rw [ex, rowOf_nat]; exact hx3)
  rw [exec_seq_run _ _ _ _ (by rw [h1]; exact hrun), h1]
  simp only [exec]

/-! ### case 3: black far child -/

theorem dcase3L_spec (fuel n : Nat) (s : State F) (hv : VS s n) (hrun : s.ctl = .run)
    (xl : Sh) (x : Nat) (xr : Sh) (p : Nat) (a : Sh) (b : Nat) (c : Sh) (w : Nat) (wr : Sh) (rest : Ctx)
    (hL : Linked (s.ia "tree_nodes") n (-1) (plug (.node xl x xr) (.L p (.node (.node a b c) w wr) :: rest)))
    (hN : (plug (.node xl x xr) (.L p (.node (.node a b c) w wr) :: rest)).idxs.Nodup)
    (ew : s.ienv "_rb_delete_fixup17$w" = w) (ewl : s.ienv "_rb_delete_fixup17$w_left" = b)
    (ex : s.ienv "_rb_delete_fixup17$x" = x)
    (hroot : s.ienv "_rb_delete_fixup17$root" = (plug (.node xl x xr) (.L p (.node (.node a b c) w wr) :: rest)).ptr) :
    let r := exec fuel (.seq (.stI2 "tree_nodes" (.var "_rb_delete_fixup17$w_left") (.lit 0) (.lit 1))
        (.seq (.stI2 "tree_nodes" (.var "_rb_delete_fixup17$w") (.lit 0) (.lit 0))
        (drrot21
        (.seq (.setI "_rb_delete_fixup17$x_parent" (.ld2 "tree_nodes" (.var "_rb_delete_fixup17$x") (.lit 3)))
        (.setI "_rb_delete_fixup17$w" (.ld2 "tree_nodes" (.var "_rb_delete_fixup17$x_parent") (.lit 2))))))) s
    let T := absT (s.fa "tree_vals") (s.ia "tree_nodes") (plug (.node xl x xr) (.L p (.node (.node a b c) w wr) :: rest))
    let S : Fv F := vAt (s.fa "tree_vals") (n - 1) 7
    r.ctl = .run ∧ VS r n ∧
      Linked (r.ia "tree_nodes") n (-1) (plug (.node xl x xr) (.L p (.node a b (.node c w wr)) :: rest)) ∧
      (plug (.node xl x xr) (.L p (.node a b (.node c w wr)) :: rest)).idxs.Nodup ∧
      absT (r.fa "tree_vals") (r.ia "tree_nodes") (plug (.node xl x xr) (.L p (.node a b (.node c w wr)) :: rest)) =
        atPath (rotR S) (pathOf rest ++ [Dir.R]) (atPath (setCol true) (pathOf rest ++ [Dir.R])
          (atPath (setCol false) (pathOf rest ++ [Dir.R] ++ [Dir.L]) T)) ∧
      r.ienv "_rb_delete_fixup17$w" = b ∧ r.ienv "_rb_delete_fixup17$x_parent" = p ∧
      r.ienv "_rb_delete_fixup17$x" = x ∧
      r.ienv "_rb_delete_fixup17$root" = (plug (.node xl x xr) (.L p (.node a b (.node c w wr)) :: rest)).ptr ∧
      vAt (r.fa "tree_vals") (n - 1) 7 = S ∧ nAt (r.ia "tree_nodes") (n - 1) 0 = nAt (s.ia "tree_nodes") (n - 1) 0 ∧
      (∀ j, ColV (nAt (s.ia "tree_nodes") j 0) → ColV (nAt (r.ia "tree_nodes") j 0)) ∧
      nAt (r.ia "tree_nodes") p 0 = nAt (s.ia "tree_nodes") p 0 ∧ nAt (r.ia "tree_nodes") w 0 = 0 := by
  intro r T S
  have hmem : ∀ j ∈ (Sh.node (Sh.node xl x xr) p (Sh.node (Sh.node a b c) w wr)).idxs, j + 1 < n := fun j hj =>
    Linked.idx_lt hL j (mem_plug _ rest _ hj)
  have hwn : w + 1 < n := hmem w (by simp [Sh.idxs])
  have hbn : b + 1 < n := hmem b (by simp [Sh.idxs])
  have hpn : p + 1 < n := hmem p (by simp [Sh.idxs])
  have hxn : x + 1 < n := hmem x (by simp [Sh.idxs])
  -- the near child black
  obtain ⟨a1, a2, a3, a4, a5, a6, a7, a8⟩ := stCol_at fuel n s hv hrun "_rb_delete_fixup17$w_left" 1
    (.L w wr :: .R (.node xl x xr) p :: rest) a b c hL hN ewl
  generalize hs1 : exec fuel (.stI2 "tree_nodes" (.var "_rb_delete_fixup17$w_left") (.lit 0) (.lit 1)) s = s1 at a1 a2 a3 a4 a5 a6 a7 a8
  -- the sibling red
  obtain ⟨b1, b2, b3, b4, b5, b6, b7, b8⟩ := stCol_at fuel n s1 a2 a1 "_rb_delete_fixup17$w" 0
    (.R (.node xl x xr) p :: rest) (.node a b c) w wr a5 hN (by rw [a3]; exact ew)
  generalize hs2 : exec fuel (.stI2 "tree_nodes" (.var "_rb_delete_fixup17$w") (.lit 0) (.lit 0)) s1 = s2 at b1 b2 b3 b4 b5 b6 b7 b8
  -- the rotation at the sibling
  obtain ⟨c1, c2, c3, c4, c5, c6, c7, c8⟩ := rrotCall_at_path dren21 (rotRen_inj _ _ _) "_rb_delete_fixup17$root"
    "_rb_delete_fixup17$w" (by decide) s2 fuel n b2 b1 (.R (.node xl x xr) p :: rest) a b c w wr b5 hN
    (by rw [b3, a3]; exact ew)
  have hfr := exec_frame fuel (rotCall Gen.IL.vsRightRotate.body dren21 "y" "_rb_delete_fixup17$root"
    "_rb_delete_fixup17$w") s2
  generalize hs3 : exec fuel (rotCall Gen.IL.vsRightRotate.body dren21 "y" "_rb_delete_fixup17$root"
    "_rb_delete_fixup17$w") s2 = s3 at c1 c2 c3 c5 c6 c7 c8 hfr
  have ex3 : s3.ienv "_rb_delete_fixup17$x" = x := by rw [hfr.ienv _ (by decide), b3, a3]; exact ex
  -- x_parent and the new sibling
  have c3' : Linked (s3.ia "tree_nodes") n (-1) (plug (.node xl x xr) (.L p (.node a b (.node c w wr)) :: rest)) := c3
  have c4' : (plug (.node xl x xr) (.L p (.node a b (.node c w wr)) :: rest)).idxs.Nodup := c4
  obtain ⟨hlx, hcx, _⟩ := unplug _ _ c3' c4'
  have hx3 : nAt (s3.ia "tree_nodes") x 3 = p := hlx.2.2.2.1
  have hp2 : nAt (s3.ia "tree_nodes") p 2 = b := hcx.2.2.1
  have h4 := exec_ldN fuel n s3 c2.shpN "_rb_delete_fixup17$x_parent" "_rb_delete_fixup17$x" 3 (by decide)
    (by rw [ex3]; exact inRange_ptr n _ (by omega) hv.pos) p (by rw [ex3, rowOf_nat]; exact hx3)
  generalize hs4 : ({ s3 with ienv := setS s3.ienv "_rb_delete_fixup17$x_parent" (p : Int) } : State F) = s4 at h4
  have hrun4 : s4.ctl = .run := by rw [← hs4]; exact c1
  have h5 := exec_ldN fuel n s4 (by rw [← hs4]; exact c2.shpN) "_rb_delete_fixup17$w" "_rb_delete_fixup17$x_parent" 2 (by decide)
    (by rw [← hs4]; simp only [setS_same]; exact inRange_ptr n _ (by omega) hv.pos) b
    (by rw [← hs4]; simp only [setS_same, rowOf_nat]; exact hp2)
  have hr : r = { s4 with ienv := setS s4.ienv "_rb_delete_fixup17$w" (b : Int) } := by
    simp only [r, drrot21]
    rw [exec_seq_run _ _ _ _ (by rw [hs1]; exact a1), hs1, exec_seq_run _ _ _ _ (by rw [hs2]; exact b1), hs2,
      exec_rotCallK, exec_seq_run _ _ _ _ (by rw [hs3]; exact c1), hs3,
      exec_seq_run _ _ _ _ (by rw [h4]; exact hrun4), h4, h5]
  have hd1 : decide ((1 : Int) = 0) = false := by decide
  have hd0 : decide ((0 : Int) = 0) = true := by decide
  rw [hd1] at a6
  rw [hd0] at b6
  have hnd := (nodup_plug_iff rest (.node (.node xl x xr) p (.node (.node a b c) w wr))).mp hN
  have hsub : (Sh.node (Sh.node xl x xr) p (Sh.node (Sh.node a b c) w wr)).idxs.Nodup := (List.nodup_append.mp hnd).1
  have hne : b ≠ w ∧ p ≠ b ∧ p ≠ w := by
    have h1 := Sh.ptr_ne_of_nodup (.node xl x xr) (.node (.node a b c) w wr) p hsub
    have h2 := Sh.ptr_ne_of_nodup (.node a b c) wr w h1.2.2.2.1
    exact ⟨fun e => h2.2.2.2.2.1 (by simp [Sh.idxs, ← e]), fun e => h1.2.2.2.2.2 (by simp [Sh.idxs, e]),
      fun e => h1.2.2.2.2.2 (by simp [Sh.idxs, e])⟩
  rw [hr]
  refine ⟨hrun4, ⟨by rw [← hs4]; exact c2.shpV, by rw [← hs4]; exact c2.shpN, by rw [← hs4]; exact c2.lenV,
    by rw [← hs4]; exact c2.lenN, c2.pos⟩, by rw [← hs4]; exact c3', c4', ?_, by simp [setS], ?_, ?_, ?_, ?_, ?_, ?_, ?_, ?_⟩
  · show absT (s4.fa "tree_vals") (s4.ia "tree_nodes") _ = _
    rw [← hs4]
    have a6' : absT (s1.fa "tree_vals") (s1.ia "tree_nodes") (plug (.node (.node a b c) w wr) (.R (.node xl x xr) p :: rest)) =
        atPath (setCol false) (pathOf rest ++ [Dir.R] ++ [Dir.L]) T := a6
    have c5' : absT (s3.fa "tree_vals") (s3.ia "tree_nodes") (plug (.node xl x xr) (.L p (.node a b (.node c w wr)) :: rest)) = _ := c5
    refine c5'.trans ?_
    rw [b6, a6', b4, a4]
    rfl
  · show setS s4.ienv "_rb_delete_fixup17$w" (b : Int) "_rb_delete_fixup17$x_parent" = _
    rw [setS_ne _ _ _ _ (by decide), ← hs4]
    show setS s3.ienv "_rb_delete_fixup17$x_parent" (p : Int) "_rb_delete_fixup17$x_parent" = _
    exact setS_same _ _ _
  · show setS s4.ienv "_rb_delete_fixup17$w" (b : Int) "_rb_delete_fixup17$x" = _
    rw [setS_ne _ _ _ _ (by decide), ← hs4]
    show setS s3.ienv "_rb_delete_fixup17$x_parent" (p : Int) "_rb_delete_fixup17$x" = _
    rw [setS_ne _ _ _ _ (by decide)]; exact ex3
  · show setS s4.ienv "_rb_delete_fixup17$w" (b : Int) "_rb_delete_fixup17$root" = _
    rw [setS_ne _ _ _ _ (by decide), ← hs4]
    show setS s3.ienv "_rb_delete_fixup17$x_parent" (p : Int) "_rb_delete_fixup17$root" = _
    rw [setS_ne _ _ _ _ (by decide), c6, b3, a3, hroot]
    have : ¬ (ctxPar (Fr.R (.node xl x xr) p :: rest) = -1) := by rw [ctxPar_eq_neg_one]; simp
    rw [if_neg this]
    exact plug_ptr_cons (Fr.R (.node xl x xr) p) rest _ _
  · show vAt (s4.fa "tree_vals") (n - 1) 7 = S
    rw [← hs4]; show vAt (s3.fa "tree_vals") (n - 1) 7 = S
    rw [c7, b4, a4]
  · show nAt (s4.ia "tree_nodes") (n - 1) 0 = _
    rw [← hs4]; show nAt (s3.ia "tree_nodes") (n - 1) 0 = _
    rw [c8, b7 _ 0 (by decide) (by omega), a7 _ 0 (by decide) (by omega)]
  · intro j hj
    show ColV (nAt (s4.ia "tree_nodes") j 0)
    rw [← hs4]; show ColV (nAt (s3.ia "tree_nodes") j 0)
    rw [c8]
    exact colV_of_store colV_zero b7 b8 j (colV_of_store colV_one a7 a8 j hj)
  · show nAt (s4.ia "tree_nodes") p 0 = _
    rw [← hs4]; show nAt (s3.ia "tree_nodes") p 0 = _
    rw [c8, b7 p 0 (by decide) (by simp [hne.2.2]), a7 p 0 (by decide) (by simp [hne.2.1])]
  · show nAt (s4.ia "tree_nodes") w 0 = _
    rw [← hs4]; show nAt (s3.ia "tree_nodes") w 0 = _
    rw [c8, b8]

/-! ### case 4 -/

theorem dcase4L_spec (fuel n : Nat) (s : State F) (hv : VS s n) (hrun : s.ctl = .run)
    (xl : Sh) (x : Nat) (xr : Sh) (p : Nat) (wl : Sh) (w : Nat) (fl : Sh) (f : Nat) (fr : Sh) (rest : Ctx)
    (hL : Linked (s.ia "tree_nodes") n (-1) (plug (.node xl x xr) (.L p (.node wl w (.node fl f fr)) :: rest)))
    (hN : (plug (.node xl x xr) (.L p (.node wl w (.node fl f fr)) :: rest)).idxs.Nodup)
    (ew : s.ienv "_rb_delete_fixup17$w" = w) (ex : s.ienv "_rb_delete_fixup17$x" = x)
    (hroot : s.ienv "_rb_delete_fixup17$root" = (plug (.node xl x xr) (.L p (.node wl w (.node fl f fr)) :: rest)).ptr)
    (hcp : ColV (nAt (s.ia "tree_nodes") p 0)) :
    let r := exec fuel (.seq (.setI "_rb_delete_fixup17$x_parent" (.ld2 "tree_nodes" (.var "_rb_delete_fixup17$x") (.lit 3)))
      (.seq (.setI "_rb_delete_fixup17$w_right" (.ld2 "tree_nodes" (.var "_rb_delete_fixup17$w") (.lit 2)))
      (.seq (.stI2 "tree_nodes" (.var "_rb_delete_fixup17$w") (.lit 0) (.ld2 "tree_nodes" (.var "_rb_delete_fixup17$x_parent") (.lit 0)))
      (.seq (.stI2 "tree_nodes" (.var "_rb_delete_fixup17$x_parent") (.lit 0) (.lit 1))
      (.seq (.stI2 "tree_nodes" (.var "_rb_delete_fixup17$w_right") (.lit 0) (.lit 1))
      (dlrot24
      (.setI "_rb_delete_fixup17$x" (.var "_rb_delete_fixup17$root")))))))) s
    let T := absT (s.fa "tree_vals") (s.ia "tree_nodes") (plug (.node xl x xr) (.L p (.node wl w (.node fl f fr)) :: rest))
    let S : Fv F := vAt (s.fa "tree_vals") (n - 1) 7
    let sh' := plug (.node (.node (.node xl x xr) p wl) w (.node fl f fr)) rest
    r.ctl = .run ∧ VS r n ∧ Linked (r.ia "tree_nodes") n (-1) sh' ∧ sh'.idxs.Nodup ∧
      absT (r.fa "tree_vals") (r.ia "tree_nodes") sh' =
        atPath (rotL S) (pathOf rest) (atPath (setCol false) (pathOf rest ++ [Dir.R] ++ [Dir.R])
          (atPath (setCol false) (pathOf rest) (atPath (setCol (decide (nAt (s.ia "tree_nodes") p 0 = 0)))
            (pathOf rest ++ [Dir.R]) T))) ∧
      r.ienv "_rb_delete_fixup17$x" = sh'.ptr ∧ r.ienv "_rb_delete_fixup17$root" = sh'.ptr ∧
      vAt (r.fa "tree_vals") (n - 1) 7 = S ∧ nAt (r.ia "tree_nodes") (n - 1) 0 = nAt (s.ia "tree_nodes") (n - 1) 0 ∧
      (∀ j, ColV (nAt (s.ia "tree_nodes") j 0) → ColV (nAt (r.ia "tree_nodes") j 0)) := by
  intro r T S sh'
  have hmem : ∀ j ∈ (Sh.node (Sh.node xl x xr) p (Sh.node wl w (Sh.node fl f fr))).idxs, j + 1 < n := fun j hj =>
    Linked.idx_lt hL j (mem_plug _ rest _ hj)
  have hwn : w + 1 < n := hmem w (by simp [Sh.idxs])
  have hfn : f + 1 < n := hmem f (by simp [Sh.idxs])
  have hpn : p + 1 < n := hmem p (by simp [Sh.idxs])
  have hxn : x + 1 < n := hmem x (by simp [Sh.idxs])
  obtain ⟨hlx, hcx, _⟩ := unplug _ _ hL hN
  have hx3 : nAt (s.ia "tree_nodes") x 3 = p := hlx.2.2.2.1
  obtain ⟨_, _, _, _, _, hlw, _⟩ := hcx
  have hw2 : nAt (s.ia "tree_nodes") w 2 = f := hlw.2.2.1
  have hinp : inRange (p : Int) n = true := inRange_ptr n _ (by omega) hv.pos
  -- the two reads
  have h1 := exec_ldN fuel n s hv.shpN "_rb_delete_fixup17$x_parent" "_rb_delete_fixup17$x" 3 (by decide)
    (by rw [ex]; exact inRange_ptr n _ (by omega) hv.pos) p (by rw [ex, rowOf_nat]; exact hx3)
  generalize hs1 : ({ s with ienv := setS s.ienv "_rb_delete_fixup17$x_parent" (p : Int) } : State F) = s1 at h1
  have hv1 : VS s1 n := by rw [← hs1]; exact hv.of_eq rfl rfl rfl
  have hrun1 : s1.ctl = .run := by rw [← hs1]; exact hrun
  have hia1 : s1.ia = s.ia := by rw [← hs1]
  have ew1 : s1.ienv "_rb_delete_fixup17$w" = w := by rw [← hs1]; simp [setS, ew]
  have h2 := exec_ldN fuel n s1 hv1.shpN "_rb_delete_fixup17$w_right" "_rb_delete_fixup17$w" 2 (by decide)
    (by rw [ew1]; exact inRange_ptr n _ (by omega) hv.pos) f (by rw [ew1, rowOf_nat, hia1]; exact hw2)
  generalize hs2 : ({ s1 with ienv := setS s1.ienv "_rb_delete_fixup17$w_right" (f : Int) } : State F) = s2 at h2
  have hv2 : VS s2 n := by rw [← hs2]; exact hv1.of_eq rfl rfl rfl
  have hrun2 : s2.ctl = .run := by rw [← hs2]; exact hrun1
  have hia2 : s2.ia = s.ia := by rw [← hs2]; exact hia1
  have hfa2 : s2.fa = s.fa := by rw [← hs2, ← hs1]
  have ew2 : s2.ienv "_rb_delete_fixup17$w" = w := by rw [← hs2]; simp [setS, ew1]
  have exp2 : s2.ienv "_rb_delete_fixup17$x_parent" = p := by rw [← hs2, ← hs1]; simp [setS]
  have ewr2 : s2.ienv "_rb_delete_fixup17$w_right" = f := by rw [← hs2]; simp [setS]
  have er2 : s2.ienv "_rb_delete_fixup17$root" = s.ienv "_rb_delete_fixup17$root" := by rw [← hs2, ← hs1]; simp [setS]
  -- the sibling takes the parent's colour
  have hok : (IE.ld2 "tree_nodes" (.var "_rb_delete_fixup17$x_parent") (.lit 0)).ok s2 = true := by
    rw [okN s2 n hv2.shpN _ 0 (by decide), exp2]; exact hinp
  have hev : (IE.ld2 "tree_nodes" (.var "_rb_delete_fixup17$x_parent") (.lit 0)).eval s2 = nAt (s.ia "tree_nodes") p 0 := by
    rw [evalN s2 n hv2.shpN _ 0 (by decide), exp2, rowOf_nat, hia2]; rfl
  obtain ⟨a1, a2, a3, a4, a5, a6, a7, a8⟩ := stColE_at fuel n s2 hv2 hrun2 "_rb_delete_fixup17$w"
    (.ld2 "tree_nodes" (.var "_rb_delete_fixup17$x_parent") (.lit 0)) hok
    (.R (.node xl x xr) p :: rest) wl w (.node fl f fr) (by rw [hia2]; exact hL) hN ew2
  rw [hev] at a6 a8
  generalize hs3 : exec fuel (.stI2 "tree_nodes" (.var "_rb_delete_fixup17$w") (.lit 0)
    (.ld2 "tree_nodes" (.var "_rb_delete_fixup17$x_parent") (.lit 0))) s2 = s3 at a1 a2 a3 a4 a5 a6 a7 a8
  -- the parent black
  obtain ⟨b1, b2, b3, b4, b5, b6, b7, b8⟩ := stCol_at fuel n s3 a2 a1 "_rb_delete_fixup17$x_parent" 1
    rest (.node xl x xr) p (.node wl w (.node fl f fr)) a5 hN (by rw [a3]; exact exp2)
  generalize hs4 : exec fuel (.stI2 "tree_nodes" (.var "_rb_delete_fixup17$x_parent") (.lit 0) (.lit 1)) s3 = s4 at b1 b2 b3 b4 b5 b6 b7 b8
  -- the far child black
  obtain ⟨d1, d2, d3, d4, d5, d6, d7, d8⟩ := stCol_at fuel n s4 b2 b1 "_rb_delete_fixup17$w_right" 1
    (.R wl w :: .R (.node xl x xr) p :: rest) fl f fr b5 hN (by rw [b3, a3]; exact ewr2)
  generalize hs5 : exec fuel (.stI2 "tree_nodes" (.var "_rb_delete_fixup17$w_right") (.lit 0) (.lit 1)) s4 = s5 at d1 d2 d3 d4 d5 d6 d7 d8
  -- the rotation at the parent
  obtain ⟨c1, c2, c3, c4, c5, c6, c7, c8⟩ := lrotCall_at_path dren24 (rotRen_inj _ _ _) "_rb_delete_fixup17$root"
    "_rb_delete_fixup17$x_parent" (by decide) s5 fuel n d2 d1 rest (.node xl x xr) p wl w (.node fl f fr) d5 hN
    (by rw [d3, b3, a3]; exact exp2)
  generalize hs6 : exec fuel (rotCall Gen.IL.vsLeftRotate.body dren24 "x" "_rb_delete_fixup17$root"
    "_rb_delete_fixup17$x_parent") s5 = s6 at c1 c2 c3 c5 c6 c7 c8
  have hr : r = { s6 with ienv := setS s6.ienv "_rb_delete_fixup17$x" (s6.ienv "_rb_delete_fixup17$root") } := by
    simp only [r, dlrot24]
    rw [exec_seq_run _ _ _ _ (by rw [h1]; exact hrun1), h1, exec_seq_run _ _ _ _ (by rw [h2]; exact hrun2), h2,
      exec_seq_run _ _ _ _ (by rw [hs3]; exact a1), hs3, exec_seq_run _ _ _ _ (by rw [hs4]; exact b1), hs4,
      exec_seq_run _ _ _ _ (by rw [hs5]; exact d1), hs5,
      exec_rotCallK, exec_seq_run _ _ _ _ (by rw [hs6]; exact c1), hs6, exec_setI _ _ _ _ (IE.ok_var _ _), IE.eval_var]
  have hd1 : decide ((1 : Int) = 0) = false := by decide
  rw [hd1] at b6 d6
  have hrootnew : s6.ienv "_rb_delete_fixup17$root" = sh'.ptr := by
    rw [c6, d3, b3, a3, er2, hroot]
    cases rest with
    | nil => simp [ctxPar, plug, Sh.ptr, sh']
    | cons g rs =>
      have : ¬ (ctxPar (g :: rs) = -1) := by rw [ctxPar_eq_neg_one]; simp
      rw [if_neg this]
      exact plug_ptr_cons g rs _ _
  rw [hr]
  refine ⟨c1, ⟨c2.shpV, c2.shpN, c2.lenV, c2.lenN, c2.pos⟩, c3, c4, ?_, by simp [setS, hrootnew], ?_, ?_, ?_, ?_⟩
  · show absT (s6.fa "tree_vals") (s6.ia "tree_nodes") _ = _
    have a6' : absT (s3.fa "tree_vals") (s3.ia "tree_nodes") (plug (.node (.node xl x xr) p (.node wl w (.node fl f fr))) rest) =
        atPath (setCol (decide (nAt (s.ia "tree_nodes") p 0 = 0))) (pathOf rest ++ [Dir.R]) T := by
      have := a6; rw [hfa2, hia2] at this; exact this
    have d6' : absT (s5.fa "tree_vals") (s5.ia "tree_nodes") (plug (.node (.node xl x xr) p (.node wl w (.node fl f fr))) rest) =
        atPath (setCol false) (pathOf rest ++ [Dir.R] ++ [Dir.R])
          (absT (s4.fa "tree_vals") (s4.ia "tree_nodes") (plug (.node (.node xl x xr) p (.node wl w (.node fl f fr))) rest)) := d6
    refine c5.trans ?_
    rw [d6', b6, a6', d4, b4, a4, hfa2]
  · show setS s6.ienv "_rb_delete_fixup17$x" (s6.ienv "_rb_delete_fixup17$root") "_rb_delete_fixup17$root" = _
    rw [setS_ne _ _ _ _ (by decide)]; exact hrootnew
  · show vAt (s6.fa "tree_vals") (n - 1) 7 = S
    rw [c7, d4, b4, a4, hfa2]
  · show nAt (s6.ia "tree_nodes") (n - 1) 0 = _
    rw [c8, d7 _ 0 (by decide) (by omega), b7 _ 0 (by decide) (by omega), a7 _ 0 (by decide) (by omega), hia2]
  · intro j hj
    show ColV (nAt (s6.ia "tree_nodes") j 0)
    rw [c8]
    refine colV_of_store colV_one d7 d8 j (colV_of_store colV_one b7 b8 j ?_)
    by_cases e : j = w
    · rw [e, a8]; exact hcp
    · rw [a7 j 0 (by decide) (fun h => e h.1), hia2]; exact hj

end XrsVerif.ILVs
