import XrsVerif.Proofs.ILProxCall
/-
  Proofs/ILProxRow.lean -- step 4 (second part): one line of a pass up to its last loop (two sweeps, the `output_img`
  merge and the reset of `nearest_xs/ys` in between) = the two `Prox.sweep`s and the first `mergeNr` of `Prox.rowStep`.
-/
namespace XrsVerif.IL.Px
open XrsVerif XrsVerif.Prox
variable {F : Type} [Fl F]
set_option linter.unusedSectionVars false
set_option linter.unusedSimpArgs false
attribute [-simp] List.getD_eq_getElem?_getD
attribute [local simp] List.getD_cons_zero List.getD_cons_succ

variable {c : Cfg} {emb : Nat → F} {tg : Nat → Nat → Bool}

/-! ### frames at the level of a raster line -/

/-- what the pieces of one line of a pass leave unchanged: shapes, `_distance`, the caller's scalars (names not
    starting with `_`, except the loop counter `i`), the inputs and `scan_line` -/
structure RowFrame (s r : State F) : Prop where
  shp : r.shp = s.shp
  ext : r.ext = s.ext
  ienv : ∀ v, v.toList.head? ≠ some '_' → v ≠ "i" → r.ienv v = s.ienv v
  fenv : ∀ v, v.toList.head? ≠ some '_' → r.fenv v = s.fenv v
  fa : ∀ a, a ≠ "line_proximity" → a ≠ "output_img" → a ≠ "img_distance" → r.fa a = s.fa a

theorem RowFrame.refl (s : State F) : RowFrame s s := ⟨rfl, rfl, fun _ _ _ => rfl, fun _ _ => rfl, fun _ _ _ _ => rfl⟩

theorem RowFrame.trans {s r t : State F} (h1 : RowFrame s r) (h2 : RowFrame r t) : RowFrame s t :=
  ⟨h2.shp.trans h1.shp, h2.ext.trans h1.ext, fun v a b => (h2.ienv v a b).trans (h1.ienv v a b),
   fun v a => (h2.fenv v a).trans (h1.fenv v a), fun x a b d => (h2.fa x a b d).trans (h1.fa x a b d)⟩

theorem CallFrame.row {k : String} {s r : State F} (h : CallFrame (NL k) s r) : RowFrame s r :=
  ⟨h.shp, h.ext, fun v hv _ => h.ienv v (outer_ne_line v hv k), fun v hv => h.fenv v (outer_ne_line v hv k),
   fun a ha _ _ => h.fa a ha⟩

theorem MLFrame.row {k : String} {fas : List String} {s r : State F} (h : MLFrame (D k) fas s r)
    (hf : ∀ a, a ∈ fas → a = "line_proximity" ∨ a = "output_img" ∨ a = "img_distance") : RowFrame s r :=
  ⟨h.shp, h.ext, fun v _ hi => h.ienv v hi, fun v hv => h.fenv v (fun x _ => outer_ne_dir v hv k x),
   fun a h1 h2 h3 => h.fa a (fun hm => by rcases hf a hm with e | e | e <;> contradiction)⟩

theorem Only.row {ias fas : List String} {s r : State F} (h : Only ias fas s r)
    (hf : ∀ a, a ∈ fas → a = "line_proximity" ∨ a = "output_img" ∨ a = "img_distance") : RowFrame s r :=
  ⟨h.shp, h.ext, fun v _ hi => h.ienv v hi, fun v _ => by rw [h.fenv],
   fun a h1 h2 h3 => h.fa a (fun hm => by rcases hf a hm with e | e | e <;> contradiction)⟩

theorem CallCtx.of_frame {n : Nat} {s r : State F} (cx : CallCtx c emb tg n s) (f : RowFrame s r) (hr : r.ctl = .run) :
    CallCtx c emb tg n r := by
  have e1 : r.fa "target_values" = s.fa "target_values" := f.fa _ (by decide) (by decide) (by decide)
  have e2 : r.fa "scan_line" = s.fa "scan_line" := f.fa _ (by decide) (by decide) (by decide)
  have e3 : r.fa "x_coords" = s.fa "x_coords" := f.fa _ (by decide) (by decide) (by decide)
  have e4 : r.fa "y_coords" = s.fa "y_coords" := f.fa _ (by decide) (by decide) (by decide)
  refine ⟨hr, cx.hn, by rw [f.ienv _ (by decide) (by decide)]; exact cx.line,
    by rw [f.ienv _ (by decide) (by decide)]; exact cx.width,
    by rw [f.shp]; exact cx.px, by rw [f.shp]; exact cx.py, by rw [f.shp]; exact cx.nx, by rw [f.shp]; exact cx.ny,
    by rw [f.shp]; exact cx.lp, by rw [f.shp]; exact cx.scan, by rw [f.shp]; exact cx.xc, by rw [f.shp]; exact cx.yc,
    by rw [f.shp, e1]; exact cx.tv, by rw [f.fenv _ (by decide)]; exact cx.arith, ?_, ?_⟩
  · intro tr tc r' p h1 h2 h3 h4
    have := cx.dist tr tc r' p h1 h2 h3 h4
    simpa [pnDist2, e3, e4, f.ext, f.ienv "distance_metric" (by decide) (by decide)] using this
  · intro p hp; rw [e1, e2]; exact cx.tgt p hp

/-! ### the value of `output_img` for a recorded target -/

/-- what `output_img[n][p]` holds when the model's recorded target is `t` (`none`: still the NaN it was
    allocated with; PROXIMITY mode never writes it) -/
def outVal (mode : Int) (img xc yc : List F) (W n p : Nat) : Tgt → F
  | none => Fl.nan
  | some t =>
    if mode = 1 then img.getD (t.1 * W + t.2) Fl.nan
    else if mode = 2 then
      dirF (xc.getD (n * W + p) Fl.nan) (xc.getD (t.1 * W + t.2) Fl.nan)
        (yc.getD (n * W + p) Fl.nan) (yc.getD (t.1 * W + t.2) Fl.nan)
    else Fl.nan

omit c emb tg in
theorem mergeVal_outVal (mode : Int) (img xc yc : List F) (W n p : Nat) (old t : Tgt) :
    mergeVal mode img xc yc W n p (outVal mode img xc yc W n p old) t =
      outVal mode img xc yc W n p (match t with | some t' => some t' | none => old) := by
  cases t with
  | none => rfl
  | some t' =>
    by_cases h1 : mode = 1
    · simp [mergeVal, outVal, h1]
    · by_cases h2 : mode = 2
      · simp [mergeVal, outVal, h1, h2]
      · cases old <;> simp [mergeVal, outVal, h1, h2]

/-! ### two sweeps of a line with the merge in between -/

/-- the shapes and lengths of the 2-D work arrays on line `n` -/
structure GridCtx (H W n : Nat) (s : State F) : Prop where
  img : s.shp "img" = [H, W]
  out : s.shp "output_img" = [H, W]
  dist : s.shp "img_distance" = [H, W]
  lout : (s.fa "output_img").length = H * W
  ldist : (s.fa "img_distance").length = H * W

theorem rowCtx_of {n : Nat} {s : State F} (cx : CallCtx c emb tg n s) (g : GridCtx c.H c.W n s)
    (llp : (s.fa "line_proximity").length = c.W) : RowCtx c.H c.W n s :=
  ⟨cx.run, cx.hn, cx.line, cx.width, cx.nx, cx.ny, cx.lp, g.img, cx.xc, cx.yc, g.out, g.dist, g.lout, g.ldist, llp⟩

/-- **one line of a pass up to its last loop**: first sweep (direction `fwd`), merge, reset of `nearest_xs/ys`,
    second sweep (opposite direction) = the two `Prox.sweep`s of `Prox.rowStep` and its first `mergeNr` -/
theorem twoSweeps_refines (ka kb da : String) (fwdE fwdE' : BE) (fwd : Bool)
    (hE : (fwdE = .tt ∧ fwdE' = .ff ∧ fwd = true) ∨ (fwdE = .ff ∧ fwdE' = .tt ∧ fwd = false)) (rest : St)
    (st : State F) (fuel n : Nat) (pan : List Tgt) (lp0 : List (Option Nat)) (al0 : List Tgt) (hal : al0.length = c.W)
    (cx : CallCtx c emb tg n st) (g : GridCtx c.H c.W n st)
    (rel : LineRel c emb st { pan := pan, lp := lp0, nr := List.replicate c.W none })
    (hout : ∀ p, p < c.W → (st.fa "output_img").getD (n * c.W + p) Fl.nan =
      outVal (st.ienv "process_mode") (st.fa "img") (st.fa "x_coords") (st.fa "y_coords") c.W n p (al0.getD p none)) :
    ∃ st' : State F,
      exec fuel (callLine (NL ka) fwdE (.seq (mergeLoop (D da)) (.seq resetNearest (callLine (NL kb) fwdE' rest)))) st =
        exec fuel rest st' ∧
      CallCtx c emb tg n st' ∧ GridCtx c.H c.W n st' ∧ RowFrame st st' ∧
      LineRel c emb st' (sweep c tg n (!fwd) (sweep c tg n fwd pan lp0).pan (sweep c tg n fwd pan lp0).lp) ∧
      (∀ p, p < c.W → (st'.fa "output_img").getD (n * c.W + p) Fl.nan =
        outVal (st.ienv "process_mode") (st.fa "img") (st.fa "x_coords") (st.fa "y_coords") c.W n p
          ((mergeNr al0 (sweep c tg n fwd pan lp0).nr).getD p none)) ∧
      (∀ j, (j < n * c.W ∨ n * c.W + c.W ≤ j) → (st'.fa "output_img").getD j Fl.nan = (st.fa "output_img").getD j Fl.nan) ∧
      st'.fa "img_distance" = st.fa "img_distance" ∧ (sweep c tg n fwd pan lp0).nr.length = c.W := by
  have hE1 : (fwdE = .tt ∧ fwd = true) ∨ (fwdE = .ff ∧ fwd = false) := by
    rcases hE with ⟨a, _, b⟩ | ⟨a, _, b⟩
    · exact Or.inl ⟨a, b⟩
    · exact Or.inr ⟨a, b⟩
  have hE2 : (fwdE' = .tt ∧ (!fwd) = true) ∨ (fwdE' = .ff ∧ (!fwd) = false) := by
    rcases hE with ⟨_, a, b⟩ | ⟨_, a, b⟩
    · exact Or.inr ⟨a, by simp [b]⟩
    · exact Or.inl ⟨a, by simp [b]⟩
  -- first sweep
  obtain ⟨st1, h1, c1, r1, f1⟩ := callLine_refines ka fwdE fwd hE1 _ st fuel n _ cx rel
  rw [h1]
  have hs1 : sweepN c tg n fwd { pan := pan, lp := lp0, nr := List.replicate c.W none } c.W = sweep c tg n fwd pan lp0 := rfl
  rw [hs1] at r1
  generalize hm1 : sweep c tg n fwd pan lp0 = m1 at r1 ⊢
  have cx1 := cx.of_frame f1.row c1
  have o1 : st1.fa "output_img" = st.fa "output_img" := f1.fa _ (by decide)
  have d1 : st1.fa "img_distance" = st.fa "img_distance" := f1.fa _ (by decide)
  have g1 : GridCtx c.H c.W n st1 :=
    ⟨by rw [f1.shp]; exact g.img, by rw [f1.shp]; exact g.out, by rw [f1.shp]; exact g.dist, by rw [o1]; exact g.lout,
     by rw [d1]; exact g.ldist⟩
  -- merge
  have hlp1 : ∀ q, q < c.W → m1.nr.getD q none ≠ none →
      Fl.le (Fl.lit 0 1) ((st1.fa "line_proximity").getD q Fl.nan) = true := by
    intro q hq hne
    have h2 := r1.nrlp q hq hne
    have h3 := r1.lp q hq
    cases hl : m1.lp.getD q none with
    | none => exact absurd hl h2
    | some d => rw [hl] at h3; exact h3.2.1
  obtain ⟨c2, f2, l2, v2, o2⟩ := mergeLoop_exec (D da) st1 fuel c.H c.W n (rowCtx_of cx1 g1 r1.len_lp) m1.nr r1.nr hlp1
  rw [exec_seq_run _ _ _ _ c2]
  generalize hst2 : exec fuel (mergeLoop (D da)) st1 = st2 at c2 f2 l2 v2 o2
  have fr2 : RowFrame st1 st2 := f2.row (by intro a ha; simp at ha; simp [ha])
  have cx2 := cx1.of_frame fr2 c2
  -- reset of nearest_xs / nearest_ys
  obtain ⟨c3, f3, l3x, l3y, v3⟩ := resetNearest_exec st2 fuel c.W c2 cx2.width cx2.nx cx2.ny
    (by rw [f2.ia]; exact r1.len_nx) (by rw [f2.ia]; exact r1.len_ny)
  rw [exec_seq_run _ _ _ _ c3]
  generalize hst3 : exec fuel resetNearest st2 = st3 at c3 f3 l3x l3y v3
  have fr3 : RowFrame st2 st3 := f3.row (by intro a ha; simp at ha)
  have cx3 := cx2.of_frame fr3 c3
  have e3x : st3.ia "pan_near_x" = st1.ia "pan_near_x" := by rw [f3.ia _ (by decide), f2.ia]
  have e3y : st3.ia "pan_near_y" = st1.ia "pan_near_y" := by rw [f3.ia _ (by decide), f2.ia]
  have e3l : st3.fa "line_proximity" = st1.fa "line_proximity" := by rw [f3.fa _ (by simp), f2.fa _ (by decide)]
  have rel3 : LineRel c emb st3 { pan := m1.pan, lp := m1.lp, nr := List.replicate c.W none } :=
    ⟨by rw [e3x]; exact r1.len_px, by rw [e3y]; exact r1.len_py, l3x, l3y, by rw [e3l]; exact r1.len_lp,
     r1.mlen_pan, r1.mlen_lp, by simp, by rw [e3x, e3y]; exact r1.pan,
     fun q hq => by
       obtain ⟨a, _⟩ := v3 q hq
       simp only [Prox.getD_replicate_none]
       exact a,
     by rw [e3l]; exact r1.lp,
     fun q _ hne => by simp only [Prox.getD_replicate_none] at hne; exact absurd rfl hne⟩
  -- second sweep
  obtain ⟨st4, h4, c4, r4, f4⟩ := callLine_refines kb fwdE' (!fwd) hE2 rest st3 fuel n _ cx3 rel3
  rw [h4]
  have fr4 : RowFrame st st4 := f1.row.trans (fr2.trans (fr3.trans f4.row))
  have o4 : st4.fa "output_img" = st2.fa "output_img" := by rw [f4.fa _ (by decide), f3.fa _ (by simp)]
  have d4 : st4.fa "img_distance" = st.fa "img_distance" := by
    rw [f4.fa _ (by decide), f3.fa _ (by simp), f2.fa _ (by decide), d1]
  refine ⟨st4, rfl, cx.of_frame fr4 c4,
    ⟨by rw [fr4.shp]; exact g.img, by rw [fr4.shp]; exact g.out, by rw [fr4.shp]; exact g.dist, by rw [o4]; exact l2,
     by rw [d4]; exact g.ldist⟩, fr4, r4, ?_, ?_, d4, r1.mlen_nr⟩
  · intro p hp
    rw [o4, v2 p hp, o1, hout p hp, f1.row.ienv _ (by decide) (by decide), f1.fa "img" (by decide),
      f1.fa "x_coords" (by decide), f1.fa "y_coords" (by decide), mergeVal_outVal,
      Prox.mergeNr_getD _ _ _ (by rw [hal, r1.mlen_nr])]
    rfl
  · intro j hj
    rw [o4, o2 j hj, o1]

end XrsVerif.IL.Px
